(** * Conc/Skeleton — decidable obligations over the regenerated inventory.

    All functions here are executable; the per-run obligations
    ([Conc/SkelObligations.v]) evaluate them on [gen_funcs] by [vm_compute].

    - [no_blocking_send_to_client]: every send on a client queue is under
      [select ... default], the handshake sends ABORT / WELCOME excepted;
    - [wait_graph_ranked]: every blocking operation of a goroutine kind waits
      on a kind of strictly lower rank (rendezvous on a locally created reply
      channel, timers and a goroutine's own input are not edges), together
      with the side conditions that make this meaningful: the kind attribution
      is closed under the call graph, the closeLock sections only wait below
      the lock's rank, session-mutex sections are leaves, and a server's
      blocking reply on a local channel finds its requester already receiving;
    - [no_peer_close_in_shared_server]: no peer Close() runs inside the
      broker, dealer, realm or metaProcedureHandler goroutines;
    - [skeleton_conforms]: the shutdown sequences, by order.  *)

From Coq Require Import String List NArith Bool Arith.
From Nexus Require Import Conc.SkelTypes Conc.Shutdown.
Import ListNotations.
Open Scope string_scope.

(** ** Ranks (DESIGN section 7, C07) *)

Definition rank_of (k : gkind) : nat :=
  match k with
  | KBroker | KDealer => 0
  | KPeerWriter | KMemStats => 0   (* wait on the network / a timer only (outside the model) *)
  | KPeerReader | KCallTimer => 1  (* wait on the writer / on the dealer *)
  | KMetaSess => 2
  | KRealm => 3
  | KMetaProc | KSessHandler => 4
  | KRouter => 6
  | KAttach | KApi => 7
  | KClientSide => 8
  end.

(** [closeLock] sits between the handlers and the router goroutine: whoever
    holds it only waits on ranks below 5; whoever waits for it has a rank above. *)
Definition lock_rank : nat := 5.

Definition is_blocking (o : op) : bool :=
  negb (o_nb o) &&
  match o_kind o with
  | OSend | ORecv | ORange | OSubmit | OWgWait | OLock => true
  | _ => false
  end.

Inductive target : Type := TNone | TKind (k : gkind) | TLock.

Definition target_of (o : op) : target :=
  match o_kind o, o_role o with
  | OLock, RCloseLock => TLock
  | OLock, _ => TNone
  | OWgWait, RWgHandlers => TKind KSessHandler
  | OWgWait, RWgTimers => TKind KCallTimer
  | _, RBrokerAct => TKind KBroker
  | _, RDealerAct => TKind KDealer
  | _, RRealmAct => TKind KRealm
  | _, RRouterAct => TKind KRouter
  | _, RMetaSend => TKind KMetaSess
  | _, RMetaRecv => TKind KMetaSess
  | _, RMetaStop => TKind KMetaSess
  | _, RStoppedBroker => TKind KBroker
  | _, RStoppedDealer => TKind KDealer
  | _, RStoppedRealm => TKind KRealm
  | _, RStoppedRouter => TKind KRouter
  | _, RMetaDone => TKind KMetaProc
  | _, RMemStats => TKind KMemStats
  | _, RPeerWriterDone => TKind KPeerWriter
  | _, RPeerRecvDone => TKind KPeerReader
  | OSend, RPeerRd => TKind KSessHandler
  | _, _ => TNone
  end.

(** A goroutine's own input: waiting there is being idle, not being blocked. *)
Definition own_input (k : gkind) (o : op) : bool :=
  match o_kind o with
  | ORecv | ORange =>
      match k, o_role o with
      | KBroker, RBrokerAct | KDealer, RDealerAct | KRealm, RRealmAct
      | KRouter, RRouterAct | KRouter, RRouterQuit
      | KMetaProc, RMetaRecv | KMetaProc, RMetaStop
      | KSessHandler, RSessRecv | KSessHandler, RRecvDone
      | KMetaSess, RSessRecv | KMetaSess, RRecvDone | KMetaSess, RMetaSend
      | KPeerWriter, RPeerWr | KMemStats, RMemStats => true
      | _, _ => false
      end
  | _ => false
  end.

(** A select without default is an idle point as soon as one of its cases is
    the goroutine's own input; it cannot block for ever when one of its cases
    is a timer or the peer's [closed] signal. *)
Definition escape_case (o : op) : bool :=
  opk_eqb (o_kind o) ORecv && (role_eqb (o_role o) RTimer || role_eqb (o_role o) RPeerClosed).

Definition sel_idle (f : func) (k : gkind) (sel : N) : bool :=
  existsb (fun o => N.eqb (o_sel o) sel && (own_input k o || escape_case o)) (f_ops f).

(** The one admitted self-edge: [dealer.register] / [dealer.unregister] hand
    meta publications to the meta peer; executed by the meta-session handler
    itself this would wait on itself.  It does not happen: the meta session
    only REGISTERs [wamp.*] procedures at realm start-up, for which
    [syncRegister] returns no publication, and never UNREGISTERs — the scope
    of that claim is pinned by [meta_inbound_scope]. *)
Definition meta_self_exempt (k : gkind) (f : func) (o : op) : bool :=
  gkind_eqb k KMetaSess && role_eqb (o_role o) RMetaSend &&
  mem_str (f_name f) ["dealer.register"; "dealer.unregister"].

Definition edge_ok (k : gkind) (f : func) (o : op) : bool :=
  if negb (is_blocking o) then true
  else if own_input k o then true
  else if negb (N.eqb (o_sel o) 0) && sel_idle f k (o_sel o) then true
  else if meta_self_exempt k f o then true
  else match target_of o with
       | TNone => true
       | TKind k' => Nat.ltb (rank_of k') (rank_of k)
       | TLock => Nat.ltb lock_rank (rank_of k)
       end.

Definition func_edges_ok (f : func) : bool :=
  forallb (fun k => forallb (edge_ok k f) (f_ops f)) (f_kinds f).

(** Offending (function, kind, line) triples, for the report. *)
Definition bad_edges (fs : list func) : list (string * gkind * N) :=
  flat_map (fun f => flat_map (fun k =>
     map (fun o => (f_name f, k, o_line o))
         (filter (fun o => negb (edge_ok k f o)) (f_ops f))) (f_kinds f)) fs.

(** ** Flattening through static calls *)

Fixpoint find_func (fs : list func) (name : string) : option func :=
  match fs with
  | [] => None
  | f :: r => if String.eqb (f_name f) name then Some f else find_func r name
  end.

Definition path_empty (o : op) : bool := match o_path o with [] => true | _ => false end.

(** [flatten fuel fs opaque name cond]: the operations of [name] with the
    operations of its static callees spliced in after each call (closures that
    are submitted or started as goroutines run elsewhere and are not spliced);
    the boolean says whether the operation is conditional. *)
Fixpoint flatten (fuel : nat) (fs : list func) (opaque : list string) (name : string)
         (cond : bool) : list (op * bool) :=
  match fuel with
  | O => []
  | S n =>
      match find_func fs name with
      | None => []
      | Some f =>
          flat_map (fun o =>
            let c := cond || negb (path_empty o) in
            match o_kind o with
            | OCall =>
                if mem_str (o_callee o) opaque then [(o, c)]
                else (o, c) :: flatten n fs opaque (o_callee o) c
            | _ => [(o, c)]
            end) (f_ops f)
      end
  end.

(** ** closeLock sections *)

(** Operations between [Lock closeLock] and the first unconditional,
    non-deferred [Unlock closeLock] (to the end when the unlock is deferred). *)
Fixpoint after_lock (l : list (op * bool)) : list (op * bool) :=
  match l with
  | [] => []
  | (o, _) :: r =>
      if opk_eqb (o_kind o) OLock && role_eqb (o_role o) RCloseLock then r else after_lock r
  end.

Fixpoint until_unlock (l : list (op * bool)) : list (op * bool) :=
  match l with
  | [] => []
  | (o, c) :: r =>
      if opk_eqb (o_kind o) OUnlock && role_eqb (o_role o) RCloseLock && negb c && negb (o_defer o)
      then [] else (o, c) :: until_unlock r
  end.

Definition has_close_lock (f : func) : bool :=
  existsb (fun o => opk_eqb (o_kind o) OLock && role_eqb (o_role o) RCloseLock) (f_ops f).

Definition section_op_ok (o : op) : bool :=
  if negb (is_blocking o) then true
  else match o_kind o, o_role o with
       | OSend, RClientQ => false          (* no blocking client send while holding the lock *)
       | _, _ =>
           match target_of o with
           | TNone => true
           | TKind k' => Nat.ltb (rank_of k') lock_rank
           | TLock => false                (* no nested acquisition *)
           end
       end.

Definition lock_sections_ranked (fs : list func) : bool :=
  forallb (fun f =>
    if has_close_lock f then
      forallb (fun oc => section_op_ok (fst oc))
              (until_unlock (after_lock (flatten 6 fs [] (f_name f) false)))
    else true) fs.

(** Session-mutex sections are leaves: no blocking operation, no submit. *)
Fixpoint mutex_leaf (inside : bool) (l : list (op * bool)) : bool :=
  match l with
  | [] => true
  | (o, _) :: r =>
      if role_eqb (o_role o) RSessMutex || role_eqb (o_role o) RPeerMutex then
        match o_kind o with
        | OLock => mutex_leaf true r
        | OUnlock => mutex_leaf false r
        | _ => mutex_leaf inside r
        end
      else if inside && (is_blocking o || opk_eqb (o_kind o) OSubmit) then false
      else mutex_leaf inside r
  end.

Definition uses_sess_mutex (f : func) : bool :=
  existsb (fun o => role_eqb (o_role o) RSessMutex || role_eqb (o_role o) RPeerMutex) (f_ops f).

Definition mutex_sections_leaf (fs : list func) : bool :=
  forallb (fun f =>
    if uses_sess_mutex f then mutex_leaf false (flatten 3 fs [] (f_name f) false) else true) fs.

(** ** The kind attribution is closed under the call graph *)

Definition subset_kinds (a b : list gkind) : bool := forallb (fun k => mem_kind k b) a.

Definition is_peer_close_fn (f : func) : bool :=
  mem_str (f_name f) ["localPeer.Close"; "rawSocketPeer.Close"; "websocketPeer.Close"].

Definition attribution_closed (fs : list func) (entries : list (string * gkind)) : bool :=
  forallb (fun f =>
    forallb (fun o =>
      match o_kind o with
      | OCall =>
          match find_func fs (o_callee o) with
          | Some g => subset_kinds (f_kinds f) (f_kinds g)
          | None => false
          end
      | OPeerClose =>
          forallb (fun g => if is_peer_close_fn g then subset_kinds (f_kinds f) (f_kinds g) else true) fs
      | _ => true
      end) (f_ops f)) fs
  && forallb (fun e =>
       match find_func fs (fst e) with
       | Some f => mem_kind (snd e) (f_kinds f)
       | None => false
       end) entries.

(** ** Reply rendezvous: the requester is at its receive *)

Fixpoint path_compatible (a b : list (N * N)) : bool :=
  forallb (fun x => forallb (fun y =>
     if N.eqb (fst x) (fst y) then N.eqb (snd x) (snd y) else true) b) a.

Definition closure_sends_reply (fs : list func) (name : string) : bool :=
  match find_func fs name with
  | Some g => existsb (fun o => opk_eqb (o_kind o) OSend && role_eqb (o_role o) RLocal && negb (o_nb o)) (f_ops g)
  | None => false
  end.

(** The next blocking operation after position [i] that can follow [o]. *)
Fixpoint next_blocking (o : op) (l : list op) : option op :=
  match l with
  | [] => None
  | x :: r =>
      if is_blocking x && path_compatible (o_path o) (o_path x)
         && negb (role_eqb (o_role x) RTimer && o_loop x && negb (o_loop o))
      then Some x else next_blocking o r
  end.

Fixpoint replies_immediate_in (fs : list func) (l : list op) : bool :=
  match l with
  | [] => true
  | o :: r =>
      (if opk_eqb (o_kind o) OSubmit && closure_sends_reply fs (o_callee o) then
         match next_blocking o r with
         | Some x => (opk_eqb (o_kind x) ORecv && role_eqb (o_role x) RLocal)
                     || (opk_eqb (o_kind x) OCall)
         | None => false
         end
       else true) && replies_immediate_in fs r
  end.

Definition reply_rendezvous_immediate (fs : list func) : bool :=
  forallb (fun f => replies_immediate_in fs (f_ops f)) fs.

(** ** Scope of the meta session's inbound traffic *)

Definition meta_inbound_scope (mi : list (string * string)) : bool :=
  forallb (fun e =>
    mem_str (snd e) ["Publish"; "Register"; "Error"; "Yield"; "Message"]
    && (if String.eqb (snd e) "Register" then String.eqb (fst e) "realm.registerMetaProcedure" else true)
    && (if String.eqb (snd e) "Message" then String.eqb (fst e) "realm.metaProcedureHandler" else true)) mi.

(** ** The C07 obligations *)

Definition handshake_send (f : func) (o : op) : bool :=
  mem_str (o_msg o) ["Abort"; "Welcome"]
  && subset_kinds (f_kinds f) [KAttach; KApi; KRouter].

Definition client_send_ok (f : func) (o : op) : bool :=
  if opk_eqb (o_kind o) OSend && role_eqb (o_role o) RClientQ && negb (o_nb o)
  then handshake_send f o else true.

Definition no_blocking_send_to_client (fs : list func) : bool :=
  forallb (fun f => forallb (client_send_ok f) (f_ops f)) fs.

Definition bad_client_sends (fs : list func) : list (string * N) :=
  flat_map (fun f => map (fun o => (f_name f, o_line o))
     (filter (fun o => negb (client_send_ok f o)) (f_ops f))) fs.

Definition wait_graph_ranked (fs : list func) (entries : list (string * gkind))
           (mi : list (string * string)) : bool :=
  forallb func_edges_ok fs
  && lock_sections_ranked fs
  && mutex_sections_leaf fs
  && attribution_closed fs entries
  && reply_rendezvous_immediate fs
  && meta_inbound_scope mi.

Definition shared_server (k : gkind) : bool :=
  match k with KBroker | KDealer | KRealm | KMetaProc => true | _ => false end.

Definition no_peer_close_in_shared_server (fs : list func) : bool :=
  forallb (fun f =>
    if existsb shared_server (f_kinds f)
    then negb (existsb (fun o => opk_eqb (o_kind o) OPeerClose) (f_ops f))
    else true) fs.

Definition bad_peer_closes (fs : list func) : list (string * N) :=
  flat_map (fun f =>
    if existsb shared_server (f_kinds f)
    then map (fun o => (f_name f, o_line o)) (filter (fun o => opk_eqb (o_kind o) OPeerClose) (f_ops f))
    else []) fs.

(** ** Every sender on a closable action channel is awaited by the closer

    [realm.close] closes the dealer's, the broker's and the realm's action
    channels.  A goroutine may send on one of them only if the close sequence
    waits for it first: session handlers ([waitHandlers]), the realm goroutine
    (busy only while a handler waits for it), the meta session and
    metaProcedureHandler ([metaDone]), call timers ([dealer.timers]), the closer
    itself and realm construction; an attach goroutine only inside the
    [closeLock] section ([onJoin]).  Anything else could send after the close
    (e.g. an authenticator lookup through the realm goroutine while the realm
    is being removed). *)
Definition sender_allowed (r : role) (k : gkind) (f : func) : bool :=
  match r with
  | RRealmAct =>
      match k with
      | KSessHandler | KMetaProc | KRouter | KApi => true
      | KAttach => String.eqb (f_name f) "realm.onJoin"
      | _ => false
      end
  | RDealerAct =>
      match k with
      | KSessHandler | KMetaSess | KRealm | KCallTimer | KMetaProc | KRouter | KApi => true
      | _ => false
      end
  | RBrokerAct =>
      match k with
      | KSessHandler | KMetaSess | KRealm | KMetaProc | KRouter | KApi => true
      | _ => false
      end
  | _ => true
  end.

Definition sends_on_action (o : op) : bool :=
  match o_kind o with OSend | OSubmit => true | _ => false end.

Definition closable_senders_covered (fs : list func) : bool :=
  forallb (fun f => forallb (fun o =>
     if sends_on_action o then forallb (fun k => sender_allowed (o_role o) k f) (f_kinds f) else true)
     (f_ops f)) fs.

Definition uncovered_senders (fs : list func) : list (string * N) :=
  flat_map (fun f => map (fun o => (f_name f, o_line o))
     (filter (fun o => sends_on_action o && negb (forallb (fun k => sender_allowed (o_role o) k f) (f_kinds f)))
             (f_ops f))) fs.

(** ** Shutdown sequences (C06), compared by order *)

Inductive sym : Type :=
| YLock | YUnlock | YFlagTest | YFlagSet
| YSubmit (r : role) | YRecv (r : role) | YSend (r : role) | YRange (r : role) | YClose (r : role)
| YWgAdd (r : role) | YWgDone (r : role) | YWgWait (r : role)
| YEndRecv | YPeerClose | YGo.

Definition sym_eqb (a b : sym) : bool :=
  match a, b with
  | YLock, YLock | YUnlock, YUnlock | YFlagTest, YFlagTest | YFlagSet, YFlagSet
  | YEndRecv, YEndRecv | YPeerClose, YPeerClose | YGo, YGo => true
  | YSubmit r, YSubmit r' | YRecv r, YRecv r' | YSend r, YSend r' | YRange r, YRange r'
  | YClose r, YClose r' | YWgAdd r, YWgAdd r' | YWgDone r, YWgDone r' | YWgWait r, YWgWait r' => role_eqb r r'
  | _, _ => false
  end.

(** The hazard alphabet: what an operation contributes to a sequence.  Sends
    and receives that cannot block, timers and session-mutex operations
    contribute nothing, so adding a log line, a trySend or a helper raises
    nothing. *)
Definition proj (o : op) : option sym :=
  match o_kind o with
  | OLock => if role_eqb (o_role o) RCloseLock then Some YLock else None
  | OUnlock => if role_eqb (o_role o) RCloseLock then Some YUnlock else None
  | OFlagTest => Some YFlagTest
  | OFlagSet => Some YFlagSet
  | OSubmit => Some (YSubmit (o_role o))
  | ORecv => if o_nb o || role_eqb (o_role o) RTimer then None else Some (YRecv (o_role o))
  | OSend => if o_nb o then None else Some (YSend (o_role o))
  | ORange => Some (YRange (o_role o))
  | OClose => Some (YClose (o_role o))
  | OWgAdd => Some (YWgAdd (o_role o))
  | OWgDone => Some (YWgDone (o_role o))
  | OWgWait => Some (YWgWait (o_role o))
  | OEndRecv => Some YEndRecv
  | OPeerClose => Some YPeerClose
  | OGo => Some YGo
  | OCall => None
  end.

Definition elem := (sym * bool)%type.   (* symbol, conditional? *)

Definition elem_eqb (a b : elem) : bool := sym_eqb (fst a) (fst b) && Bool.eqb (snd a) (snd b).

(** Adjacent occurrences of the same symbol are one (a loop, two calls of the
    same helper); the run is conditional only if all of them are. *)
Fixpoint collapse (l : list elem) : list elem :=
  match l with
  | [] => []
  | a :: r =>
      match collapse r with
      | b :: r' => if sym_eqb (fst a) (fst b) then (fst a, snd a && snd b) :: r' else a :: b :: r'
      | [] => [a]
      end
  end.

Fixpoint drop_until_call (marker : string) (l : list (op * bool)) : list (op * bool) :=
  match l with
  | [] => []
  | (o, c) :: r =>
      if opk_eqb (o_kind o) OCall && String.eqb (o_callee o) marker then r else drop_until_call marker r
  end.

Fixpoint project (l : list (op * bool)) : list elem :=
  match l with
  | [] => []
  | (o, c) :: r => match proj o with Some y => (y, c) :: project r | None => project r end
  end.

(** Functions whose body is not part of a sequence even when called from it. *)
Definition opaque_fns (subs : list string) : list string :=
  ["realm.handleInboundMessages"; "realm.cleanSessionDetails"; "realm.authClient"; "makeGoodbye"] ++ subs.

Definition seq_of (fs : list func) (subs : list string) (name : string) (marker : option string)
  : list elem :=
  let fl := flatten 6 fs (opaque_fns subs) name false in
  collapse (project (match marker with Some m => drop_until_call m fl | None => fl end)).

Fixpoint list_eqb (a b : list elem) : bool :=
  match a, b with
  | [], [] => true
  | x :: r, y :: r' => elem_eqb x y && list_eqb r r'
  | _, _ => false
  end.

(** What Shutdown.v transcribes, in the alphabet above. *)
Definition sop_sym (o : sop) : sym :=
  match o with
  | SLock => YLock | SUnlock => YUnlock
  | STestClosed => YFlagTest | SSetClosed => YFlagSet
  | SSubmitKick => YSubmit RRealmAct | SRecvKick => YRecv RLocal
  | SWgWaitHandlers => YWgWait RWgHandlers
  | SEndRecvMeta => YEndRecv | SRecvMetaDone => YRecv RMetaDone
  | SSubmitCancel => YSubmit RDealerAct | SRecvCancel => YRecv RLocal
  | SWgWaitTimers => YWgWait RWgTimers
  | SCloseDealer => YClose RDealerAct | SRecvDealerStopped => YRecv RStoppedDealer
  | SCloseBroker => YClose RBrokerAct | SRecvBrokerStopped => YRecv RStoppedBroker
  | SClosePeers => YPeerClose
  | SCloseRealm => YClose RRealmAct | SRecvRealmStopped => YRecv RStoppedRealm
  end.

Definition expected_realm_close : list elem :=
  map (fun o => (sop_sym o, false)) (realm_close_seq all_fixed).

Definition expected_dealer_close : list elem :=
  map (fun o => (sop_sym o, false)) (dealer_close_seq all_fixed).

Definition expected_broker_close : list elem :=
  map (fun o => (sop_sym o, false)) broker_close_seq.

Definition hop_elem (o : hop) : elem :=
  match o with
  | HSubmitLeave => (YSubmit RRealmAct, false)
  | HRecvLeave => (YRecv RLocal, false)
  | HPubOnLeave => (YSend RMetaSend, false)
  | HPeerClose => (YPeerClose, true)          (* only when not shutting down *)
  | HWgDone => (YWgDone RWgHandlers, false)
  end.

Definition expected_handler_exit : list elem := map hop_elem handler_exit_seq.

Definition lop_elem (o : lop) : list elem :=
  match o with
  | LDelClient | LMarkShutdown => []
  | LDealerRemove => [(YSubmit RDealerAct, true)]
  | LDealerRecv => [(YRecv RLocal, true)]
  | LDealerPubs => [(YSend RMetaSend, true)]
  | LBrokerRemove => [(YSubmit RBrokerAct, true)]
  | LReply => [(YClose RLocal, false)]
  end.

Definition expected_leave_closure : list elem := flat_map lop_elem leave_closure_seq.

(** Attach inside [handleSession] (states AtLock .. AtSpawn of the model). *)
Definition expected_handle_session : list elem :=
  [(YLock, false); (YFlagTest, false); (YUnlock, true);
   (YWgAdd RWgHandlers, false);
   (YSubmit RRealmAct, false); (YRecv RLocal, false); (YSend RMetaSend, false);
   (YUnlock, false);
   (YSend RClientQ, false);      (* WELCOME, before the handler starts *)
   (YGo, false)].

(** [Router.Close] (states ClStart ByClose .. ClStopRouter) and its closure
    (RtGot MCloseAll: set the flag, run realm.close, reply). *)
Definition expected_router_close : list elem :=
  [(YSubmit RRouterAct, false); (YRecv RLocal, false); (YClose RRouterQuit, false);
   (YClose RMemStats, true); (YRecv RMemStats, true);
   (YRecv RStoppedRouter, false)].

Definition expected_router_close_closure : list elem :=
  [(YFlagSet, false)] ++ expected_realm_close ++ [(YClose RLocal, false)].

(** [RemoveRealm] (ClStart ByRemoveRealm, ClWaitRemove, then realm.close if found). *)
Definition expected_remove_realm : list elem :=
  [(YSubmit RRouterAct, false); (YRecv RLocal, false)]
  ++ map (fun e => (fst e, true)) expected_realm_close.

(** The meta session's goroutine after its handler returned (MsStop, MsDrain)
    and metaProcedureHandler (MpLoop, MpYield, MpExit). *)
Definition expected_meta_session_end : list elem :=
  [(YClose RMetaStop, false); (YRecv RMetaSend, true); (YRecv RMetaDone, true)].

Definition expected_meta_proc : list elem :=
  [(YRecv RMetaRecv, true); (YRecv RMetaStop, true); (YSend RMetaSend, false); (YClose RMetaDone, false)].

(** The call-timer goroutine (TmWait, TmFire, TmEnd) and its creation (DlArm). *)
Definition expected_call_timer : list elem :=
  [(YSubmit RDealerAct, false); (YWgDone RWgTimers, false)].

(** Transport: Close() of the three peers. *)
Definition expected_local_close : list elem := [(YClose RPeerWr, false)].
Definition expected_rawsocket_close : list elem :=
  [(YRecv RPeerWriterDone, false); (YClose RPeerWr, false); (YRange RPeerWr, false); (YClose RPeerClosed, false)].
Definition expected_websocket_close : list elem :=
  [(YRecv RPeerWriterDone, false); (YClose RPeerWr, false); (YRange RPeerWr, false);
   (YClose RPeerClosed, false); (YRecv RPeerRecvDone, false)].

Definition only (keep : sym -> bool) (l : list elem) : list elem :=
  filter (fun e => keep (fst e)) l.

Definition is_wgadd_go (y : sym) : bool :=
  match y with YWgAdd RWgTimers | YGo => true | _ => false end.

(** The tracked sequences: name of the obligation, regenerated, expected. *)
Definition tracked (fs : list func) (subs : list string) : list (string * list elem * list elem) :=
  [ ("realm.close", seq_of fs subs "realm.close" None, expected_realm_close);
    ("dealer.close", seq_of fs subs "dealer.close" None, expected_dealer_close);
    ("broker.close", seq_of fs subs "broker.close" None, expected_broker_close);
    ("router.Close", seq_of fs subs "router.Close" None, expected_router_close);
    ("router.Close$1", seq_of fs subs "router.Close$1" None, expected_router_close_closure);
    ("router.RemoveRealm", seq_of fs subs "router.RemoveRealm" None, expected_remove_realm);
    ("realm.handleSession", seq_of fs subs "realm.handleSession" None, expected_handle_session);
    ("handler exit path (realm.handleSession$1)",
       seq_of fs subs "realm.handleSession$1" (Some "realm.handleInboundMessages"), expected_handler_exit);
    ("realm.onLeave$1", seq_of fs subs "realm.onLeave$1" None, expected_leave_closure);
    ("meta session end (realm.createMetaSession$1)",
       seq_of fs subs "realm.createMetaSession$1" (Some "realm.handleInboundMessages"), expected_meta_session_end);
    ("realm.metaProcedureHandler",
       collapse (only (fun y => match y with
                               | YRecv RMetaRecv | YRecv RMetaStop | YSend RMetaSend | YClose RMetaDone => true
                               | _ => false end)
                      (seq_of fs subs "realm.metaProcedureHandler" None)), expected_meta_proc);
    ("call timer (dealer.syncCall$1)", seq_of fs subs "dealer.syncCall$1" None, expected_call_timer);
    ("call timer creation (dealer.syncCall)",
       only is_wgadd_go (seq_of fs subs "dealer.syncCall" None),
       [(YWgAdd RWgTimers, true); (YGo, true)]);
    ("localPeer.Close", seq_of fs subs "localPeer.Close" None, expected_local_close);
    ("rawSocketPeer.Close", seq_of fs subs "rawSocketPeer.Close" None, expected_rawsocket_close);
    ("websocketPeer.Close", seq_of fs subs "websocketPeer.Close" None, expected_websocket_close) ].

Definition skeleton_conforms (fs : list func) (subs : list string) : bool :=
  forallb (fun t => list_eqb (snd (fst t)) (snd t)) (tracked fs subs).

Definition nonconforming (fs : list func) (subs : list string) : list (string * list elem * list elem) :=
  filter (fun t => negb (list_eqb (snd (fst t)) (snd t))) (tracked fs subs).

(** [dealer.syncYield] keeps the call in the dealer's tables when it asks
    [dealer.yield] for a retry (the [keep] switch of [Conc/YieldRetry.v]).
    The translator reads this off the deferred clean-up and its guard flag;
    [None] = the code has a shape that reading does not decide (then only the
    harness scenario yield-to-stalled-caller-then-resume ties the model). *)
Definition yield_retry_keeps_invocation (o : option bool) : bool :=
  match o with Some false => false | _ => true end.

(** Every place where the dealer forgets an invocation, or overwrites its
    timer handle, stops the call-timeout timer first (the [cancel_first] switch
    of [Conc/CallTimers.v]): the translator lists the sites of
    [delete(_.invocations, _)] and [_.timerCancel = _] with whether a
    [timerCancel()] call precedes them in an enclosing block (up to the
    innermost loop body). *)
Definition invocation_drops_cancel_timer (l : list (string * string * bool)) : bool :=
  forallb (fun t => snd t) l.

Definition bad_invocation_drops (l : list (string * string * bool)) : list (string * string) :=
  map fst (filter (fun t => negb (snd t)) l).

(** Two more three-valued readings of dealer.go ([None] = undecided, counts as
    not broken): the first attempt of a final YIELD stops the call's timeout
    timer also on the path that asks for a retry ([stop] of
    [Conc/YieldRetry.v]); [syncCancel] takes its "mode kill: wait for the
    callee" early return only inside the select case that queued the
    INTERRUPT ([wait_only_if_sent] of [Conc/CancelModel.v]). *)
Definition yield_stops_timer_before_retry (o : option bool) : bool :=
  match o with Some false => false | _ => true end.

Definition cancel_waits_only_if_interrupt_sent (o : option bool) : bool :=
  match o with Some false => false | _ => true end.

(** Every [Close] of a network peer that waits for its sender goroutine
    ([<-_.writerDone]) bounds the sender's pending write first
    ([SetWriteDeadline]; the [bounded] switch of [Conc/PeerClose.v]). *)
Definition peer_close_bounds_pending_write (l : list (string * string * option bool)) : bool :=
  forallb (fun t => match snd t with Some false => false | _ => true end) l.

Definition unbounded_peer_closes (l : list (string * string * option bool)) : list (string * string) :=
  map fst (filter (fun t => match snd t with Some false => true | _ => false end) l).
