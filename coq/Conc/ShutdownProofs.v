(** * Conc/ShutdownProofs — the repaired close protocol, for any number of sessions.

    All statements are about [code all_fixed scr K] for arbitrary client
    scripts [scr], any number [K] of attach attempts, any queue capacities and
    either way of closing (Router.Close, RemoveRealm followed by Router.Close). *)

From Coq Require Import List Bool Arith NArith Lia.
From Nexus Require Import Conc.Machine Conc.MachineFacts Conc.Shutdown.
Import ListNotations.

Section Proofs.

Variable scr : nat -> list msg * bool.
Variable K : nat.

Notation code := (code all_fixed scr K).
Notation sstep := (sstep all_fixed scr K).
Notation sreach := (sreach all_fixed scr K).
Notation step_spec := (step_spec ch_eqb vr_eqb lk_eqb wgn_eqb code).
Notation int_spec := (int_spec ch_eqb vr_eqb lk_eqb wgn_eqb code).
Notation sync_spec := (sync_spec ch_eqb code).

(** ** Decidable equalities of the names *)

Lemma ch_eqb_eq a b : ch_eqb a b = true <-> a = b.
Proof.
  destruct a, b; simpl; split; intro H; try discriminate; try reflexivity;
    try (apply Nat.eqb_eq in H; subst; reflexivity);
    try (inversion H; subst; apply Nat.eqb_refl).
  - apply andb_true_iff in H as [H1 H2]. apply Nat.eqb_eq in H1, H2. subst. reflexivity.
  - inversion H; subst. rewrite !Nat.eqb_refl. reflexivity.
Qed.

Lemma ch_eqb_refl a : ch_eqb a a = true.
Proof. apply ch_eqb_eq. reflexivity. Qed.

Lemma ch_eqb_neq a b : a <> b -> ch_eqb a b = false.
Proof. intro H. destruct (ch_eqb a b) eqn:E; auto. apply ch_eqb_eq in E. contradiction. Qed.

Lemma upd_ch_same {B} (f : ch -> B) c x : upd ch_eqb f c x c = x.
Proof. unfold upd. rewrite ch_eqb_refl. reflexivity. Qed.

Lemma upd_ch_other {B} (f : ch -> B) c x c' : c' <> c -> upd ch_eqb f c x c' = f c'.
Proof. intro H. unfold upd. rewrite ch_eqb_neq; auto. Qed.

(** ** The closer's sequence, by position *)

Lemma seq_fixed :
  realm_close_seq all_fixed =
  [SLock; STestClosed; SSetClosed; SSubmitKick; SRecvKick; SWgWaitHandlers; SEndRecvMeta;
   SRecvMetaDone; SSubmitCancel; SRecvCancel; SWgWaitTimers; SCloseDealer; SRecvDealerStopped;
   SCloseBroker; SRecvBrokerStopped; SClosePeers; SCloseRealm; SRecvRealmStopped; SUnlock].
Proof. reflexivity. Qed.

(** ** Channels that the repaired code never closes *)

Definition closes (a : act) : list ch :=
  match a with
  | AClose c _ => [c]
  | ACloseOnce cs _ => cs
  | _ => []
  end.

Definition never_closed (c : ch) : bool :=
  match c with
  | CRouterAct | CMetaIn | CMetaQ | CReplyRealm | CReplyLookup _ | COther _ _ => true
  | _ => false
  end.

Ltac break_code H :=
  repeat match type of H with
  | context[match ?x with _ => _ end] => destruct x; simpl in H
  | context[if ?x then _ else _] => destruct x; simpl in H
  end.

Lemma sop_act_closes o n js k c :
  In c (closes (sop_act all_fixed o n js k)) ->
  c = CMetaRecvDone \/ c = CDealerAct \/ c = CBrokerAct \/ c = CRealmAct.
Proof.
  destruct o; simpl; try (destruct js; simpl); intro H;
    repeat (destruct H as [H|H]; [subst; auto 6|]); try contradiction.
Qed.

Lemma run_at_closes n js k c :
  In c (closes (code (RunAt n js k))) ->
  c = CMetaRecvDone \/ c = CDealerAct \/ c = CBrokerAct \/ c = CRealmAct.
Proof.
  simpl. destruct (nth_error (realm_close_seq all_fixed) n); simpl; [apply sop_act_closes|intros []].
Qed.

Lemma code_never_closes l c : never_closed c = true -> ~ In c (closes (code l)).
Proof.
  intros Hn Hin.
  destruct l; try (apply run_at_closes in Hin; destruct Hin as [?|[?|[?|?]]]; subst; discriminate);
  simpl in Hin;
  unfold handler_got, dealer_got, broker_got, router_got, hop_act, lop_act in Hin;
  break_code Hin;
  repeat match goal with
  | H : _ \/ _ |- _ => destruct H
  | H : False |- _ => destruct H
  | H : In _ (_ :: _) |- _ => simpl in H
  | H : In _ (_ ++ _) |- _ => apply in_app_or in H
  | H : In _ (map CDone _) |- _ => apply in_map_iff in H; destruct H as (? & ? & ?)
  | H : _ = c |- _ => subst c
  end; try discriminate.
Qed.


(** Channels the repaired code never closes stay open in every reachable
    state: a send on the router's action channel, on the meta peer or its
    INVOCATION queue can never be a send on a closed channel. *)
Theorem never_closed_stays_open (p : params) c s :
  never_closed c = true -> sreach (init p) s -> c_closed (chans s c) = false.
Proof.
  intros Hn Hr.
  apply (never_closed_invariant L ch vr lk wgn msg ch_eqb vr_eqb lk_eqb wgn_eqb code ch_eqb_eq (init p) c); auto.
  intros l Hin. eapply code_never_closes; eauto.
Qed.

End Proofs.
