(** * Conc/Stall — protocol-level model of the bounded, non-blocking client outboxes.

    Everything the router sends to a client goes through [try_send] on a
    bounded FIFO; a full queue drops the message.  The only places where a
    full queue has an effect on anything else are the RESULT retries:

    - a callee whose YIELD cannot be delivered because the caller's queue is
      full is held in the retry loop of [dealer.yield] (documented exception,
      bounded by [sendResultDeadline]);
    - the realm's single meta-session handler is, for meta procedures, such a
      "callee": while it is held, every request that must hand a meta
      publication to it ([metaPeer.Send()]: REGISTER, UNREGISTER, join, leave)
      waits behind it.  This second path is the known finding
      [meta-result-retry-blocks-metapeer].

    The model keeps exactly that: per session an outbox and the state of its
    handler (free, held on a caller, waiting for the meta handler), the state
    of the meta handler, and a log of what each session observes: for each of
    its requests whether it was taken at once ([Immediate]) or had to wait
    ([Deferred]), and every message put into its outbox, in order. *)

From Coq Require Import List Bool Arith NArith.
Import ListNotations.

Section Stall.

Variable cap : nat -> nat.          (* outbox capacity of session s *)

Inductive kind : Type :=
| KPlain (targets : list nat)       (* publish / subscribe / call ...: messages for [targets] *)
| KNeedsMeta (targets : list nat)   (* register / unregister / join / leave: also a publication for the meta session *)
| KMetaCall                         (* call of a meta procedure: the meta session yields the result *)
| KYield (caller : nat).            (* result for [caller] *)

Inductive event : Type :=
| Req (s : nat) (k : kind)
| Drain (s n : nat)                 (* client s reads n messages *)
| Retry (s : nat) | GiveUp (s : nat)        (* retry loop of a held session handler *)
| RetryM | GiveUpM.                          (* retry loop of the meta-session handler *)

Inductive hstate : Type := Free | HeldOn (c : nat) | WaitM.

Inductive obs : Type :=
| Immediate | Deferred              (* how a request of the session was taken *)
| Got (from : nat).                 (* a message from [from] entered the session's outbox *)

Record state : Type := mkS {
  outq : nat -> list nat;           (* senders of the queued messages *)
  hb : nat -> hstate;
  mb : option nat;                  (* meta handler held on this caller *)
  log : list (nat * obs)            (* most recent first *)
}.

Definition init : state := mkS (fun _ => []) (fun _ => Free) None [].

Definition updf {B} (f : nat -> B) (a : nat) (b : B) : nat -> B :=
  fun x => if Nat.eqb x a then b else f x.

Definition has_room (st : state) (t : nat) : bool := Nat.ltb (length (outq st t)) (cap t).

(** trySend of a message from [from] to [t]. *)
Definition try_send (st : state) (from t : nat) : state :=
  if has_room st t
  then mkS (updf (outq st) t (outq st t ++ [from])) (hb st) (mb st) ((t, Got from) :: log st)
  else st.

Fixpoint send_all (st : state) (from : nat) (ts : list nat) : state :=
  match ts with
  | [] => st
  | t :: r => send_all (try_send st from t) from r
  end.

Definition note (st : state) (s : nat) (o : obs) : state :=
  mkS (outq st) (hb st) (mb st) ((s, o) :: log st).

Definition set_hb (st : state) (s : nat) (h : hstate) : state :=
  mkS (outq st) (updf (hb st) s h) (mb st) (log st).

Definition set_mb (st : state) (m : option nat) : state :=
  mkS (outq st) (hb st) m (log st).

Definition meta_held (st : state) : bool := match mb st with Some _ => true | None => false end.

Definition blocked (st : state) (s : nat) : bool :=
  match hb st s with
  | Free => false
  | HeldOn _ => true
  | WaitM => meta_held st
  end.

(** The meta session's id, as a sender of messages. *)
Definition meta_id : nat := 0.

Definition step (st : state) (e : event) : state :=
  match e with
  | Req s k =>
      if blocked st s then note st s Deferred
      else
        let st := set_hb st s Free in
        match k with
        | KPlain tg => note (send_all st s tg) s Immediate
        | KNeedsMeta tg =>
            if meta_held st then note (set_hb st s WaitM) s Deferred
            else note (send_all st s tg) s Immediate
        | KMetaCall =>
            let st := note st s Immediate in
            if meta_held st then st
            else if has_room st s then try_send st meta_id s
                 else set_mb st (Some s)
        | KYield c =>
            let st := note st s Immediate in
            if has_room st c then try_send st s c else set_hb st s (HeldOn c)
        end
  | Drain s n => mkS (updf (outq st) s (skipn n (outq st s))) (hb st) (mb st) (log st)
  | Retry s =>
      match hb st s with
      | HeldOn c => if has_room st c then set_hb (try_send st s c) s Free else st
      | _ => st
      end
  | GiveUp s => match hb st s with HeldOn _ => set_hb st s Free | _ => st end
  | RetryM =>
      match mb st with
      | Some c => if has_room st c then set_mb (try_send st meta_id c) None else st
      | None => st
      end
  | GiveUpM => set_mb st None
  end.

Definition run (h : list event) : state := fold_left step h init.

(** What session [b] observes, oldest first. *)
Definition obs_of (b : nat) (st : state) : list obs :=
  rev (map snd (filter (fun x => Nat.eqb (fst x) b) (log st))).

(** The same history with session [a] never reading. *)
Definition strip (a : nat) (h : list event) : list event :=
  filter (fun e => match e with Drain s _ => negb (Nat.eqb s a) | _ => true end) h.

(** No session yields a result to [a] (the documented exception concerns the
    yielding callee; it is excluded here), and — second hypothesis, the one
    the current code needs — [a] calls no meta procedure. *)
Definition no_yield_to (a : nat) (h : list event) : Prop :=
  forall s, ~ In (Req s (KYield a)) h.

Definition no_metacall_by (a : nat) (h : list event) : Prop := ~ In (Req a KMetaCall) h.

(** ** The retry schedule of dealer.yield

    Delays [d, 2d, 4d, ...]; after each delay the deadline [D] is checked and
    the last attempt is made once the elapsed time has reached it. *)
Fixpoint retry_elapsed (fuel : nat) (d D elapsed : N) : N :=
  match fuel with
  | O => elapsed
  | S f =>
      let e := (elapsed + d)%N in
      if N.leb D e then e else retry_elapsed f (2 * d)%N D e
  end.

Definition retry_total (d D : N) : N := retry_elapsed 64 d D 0%N.

End Stall.
