(** * Conc/SkelTypes — the vocabulary of the regenerated skeleton inventory.

    [coq/gen/GenSkeleton.v] is written by the translator [go/cmd/genskel] on
    every run from /repo/router/*.go and /repo/transport/*.go.  It contains,
    per function (methods, plain functions and every function literal), the
    ordered list of concurrency-relevant operations with the ROLE of the
    channel / lock / wait group involved, the goroutine kinds that execute the
    function, and the static call edges.  This file only defines the types and
    decidable equalities; all checkers live in [Conc/Skeleton.v]. *)

From Coq Require Import String List NArith Bool.
Import ListNotations.
Open Scope string_scope.

(** Goroutine kinds.  A kind stands for unboundedly many goroutines. *)
Inductive gkind : Type :=
| KBroker        (* broker.run: executes closures received on b.actionChan *)
| KDealer        (* dealer.run *)
| KRealm         (* realm.run *)
| KRouter        (* router.run *)
| KMetaSess      (* handler goroutine of the realm's internal meta session *)
| KMetaProc      (* realm.metaProcedureHandler *)
| KSessHandler   (* per attached session: handleInboundMessages + exit path *)
| KCallTimer     (* call-timeout goroutine started by dealer.syncCall *)
| KAttach        (* goroutine that calls Router.Attach/AttachClient (server accept paths) *)
| KApi           (* caller of the other exported Router API: NewRouter, Close, AddRealm, RemoveRealm *)
| KPeerReader    (* transport: recvHandler *)
| KPeerWriter    (* transport: sendHandler / sendHandlerKeepAlive *)
| KMemStats      (* router.logMemStats *)
| KClientSide.   (* transport functions that only run in a client process (ConnectX) *)

(** Roles of channels, locks and wait groups, recognised from the expression. *)
Inductive role : Type :=
| RBrokerAct | RDealerAct | RRealmAct | RRouterAct   (* X.actionChan *)
| RClientQ        (* X.Send() of a client peer / session: bounded router->client queue *)
| RMetaSend       (* metaPeer.Send() (and metaSess.Recv(), the same channel): unbuffered, read by the meta-session handler *)
| RMetaRecv       (* metaPeer.Recv(): INVOCATION queue read by metaProcedureHandler *)
| RSessRecv       (* X.Recv(): client->router *)
| RRecvDone       (* X.RecvDone() *)
| RLocal          (* channel made in the same (or lexically enclosing) function: done/sync/retChan/errChan/ch *)
| RTimer          (* time.After, Timer.C, Ticker.C, Context.Done() *)
| RStoppedBroker | RStoppedDealer | RStoppedRealm | RStoppedRouter  (* X.stopped *)
| RMetaDone       (* realm.metaDone *)
| RMetaStop       (* realm.metaStop (after the proposed repair) *)
| RRouterQuit     (* router.quit (after the proposed repair) *)
| RMemStats       (* router.stopMemStats / memStatsStopped *)
| RPeerWr | RPeerRd | RPeerClosed | RPeerWriterDone | RPeerRecvDone  (* transport-internal channels *)
| RCloseLock      (* realm.closeLock *)
| RSessMutex      (* wamp.Session.Lock/Unlock *)
| RPeerMutex      (* a mutex of a transport peer (serialises writes to the connection) *)
| RWgHandlers     (* realm.waitHandlers *)
| RWgTimers       (* dealer.timers (after the proposed repair) *)
| RFlagClosed     (* the plain bool fields realm.closed / router.closed *)
| RNone.

Inductive opk : Type :=
| OSend | ORecv | OClose | ORange
| OLock | OUnlock
| OWgAdd | OWgDone | OWgWait
| OGo            (* go statement; target function in [o_callee] *)
| OPeerClose     (* X.Close() on a wamp.Peer / *wamp.Session / concrete peer *)
| OEndRecv       (* X.EndRecv(goodbye) *)
| OCall          (* static call of an intra-inventory function, [o_callee] *)
| OSubmit        (* send of a function literal on an action channel; closure in [o_callee] *)
| OFlagSet | OFlagTest.

(** One operation.  [o_nb]: inside a [select] that has a [default] (cannot
    block).  [o_sel]: number of the enclosing select's comm clause group (0 =
    not a comm clause).  [o_loop]: lexically inside a loop.  [o_defer]:
    deferred (listed at the end of the function in execution order).
    [o_path]: the enclosing branching statements as (statement, arm) pairs,
    outermost first; two operations can be executed in sequence iff they agree
    on the arm of every statement they share.  [o_msg]: message type sent on a
    client queue / the meta peer ("Abort", "Welcome", "Publish", ...,
    "Message" when only the interface type is known). *)
Record op : Type := mkOp {
  o_kind : opk;
  o_role : role;
  o_nb : bool;
  o_sel : N;
  o_loop : bool;
  o_defer : bool;
  o_path : list (N * N);
  o_line : N;
  o_callee : string;
  o_msg : string;
  o_txt : string
}.

Record func : Type := mkFunc {
  f_name : string;         (* "realm.close", "dealer.syncCall$1" (1st literal), "rawSocketPeer.Close" *)
  f_file : string;
  f_kinds : list gkind;    (* goroutine kinds that may execute it (closed under calls, checked) *)
  f_ops : list op
}.

(** Decidable equalities (boolean). *)
Definition gkind_eqb (a b : gkind) : bool :=
  match a, b with
  | KBroker, KBroker | KDealer, KDealer | KRealm, KRealm | KRouter, KRouter
  | KMetaSess, KMetaSess | KMetaProc, KMetaProc | KSessHandler, KSessHandler
  | KCallTimer, KCallTimer | KAttach, KAttach | KApi, KApi
  | KPeerReader, KPeerReader | KPeerWriter, KPeerWriter | KMemStats, KMemStats
  | KClientSide, KClientSide => true
  | _, _ => false
  end.

Definition role_eqb (a b : role) : bool :=
  match a, b with
  | RBrokerAct, RBrokerAct | RDealerAct, RDealerAct | RRealmAct, RRealmAct
  | RRouterAct, RRouterAct | RClientQ, RClientQ | RMetaSend, RMetaSend
  | RMetaRecv, RMetaRecv | RSessRecv, RSessRecv | RRecvDone, RRecvDone
  | RLocal, RLocal | RTimer, RTimer | RStoppedBroker, RStoppedBroker
  | RStoppedDealer, RStoppedDealer | RStoppedRealm, RStoppedRealm
  | RStoppedRouter, RStoppedRouter | RMetaDone, RMetaDone | RMemStats, RMemStats
  | RMetaStop, RMetaStop | RRouterQuit, RRouterQuit
  | RPeerWr, RPeerWr | RPeerRd, RPeerRd | RPeerClosed, RPeerClosed
  | RPeerWriterDone, RPeerWriterDone | RPeerRecvDone, RPeerRecvDone
  | RCloseLock, RCloseLock | RSessMutex, RSessMutex | RPeerMutex, RPeerMutex | RWgHandlers, RWgHandlers
  | RWgTimers, RWgTimers | RFlagClosed, RFlagClosed | RNone, RNone => true
  | _, _ => false
  end.

Definition opk_eqb (a b : opk) : bool :=
  match a, b with
  | OSend, OSend | ORecv, ORecv | OClose, OClose | ORange, ORange
  | OLock, OLock | OUnlock, OUnlock | OWgAdd, OWgAdd | OWgDone, OWgDone
  | OWgWait, OWgWait | OGo, OGo | OPeerClose, OPeerClose | OEndRecv, OEndRecv
  | OCall, OCall | OSubmit, OSubmit | OFlagSet, OFlagSet | OFlagTest, OFlagTest => true
  | _, _ => false
  end.

Lemma gkind_eqb_eq a b : gkind_eqb a b = true <-> a = b.
Proof. destruct a, b; simpl; split; intro H; try reflexivity; try discriminate. Qed.

Lemma role_eqb_eq a b : role_eqb a b = true <-> a = b.
Proof. destruct a, b; simpl; split; intro H; try reflexivity; try discriminate. Qed.

Lemma opk_eqb_eq a b : opk_eqb a b = true <-> a = b.
Proof. destruct a, b; simpl; split; intro H; try reflexivity; try discriminate. Qed.

Definition mem_kind (k : gkind) (l : list gkind) : bool := existsb (gkind_eqb k) l.
Definition mem_str (s : string) (l : list string) : bool := existsb (String.eqb s) l.
