(** * Conc/CallTimers — the dealer's bookkeeping of call-timeout timers, timed.

    [syncCall] starts one goroutine per CALL with a timeout; the handle that
    stops it ([invocation.timerCancel]) lives in the invocation, i.e. in
    [d.invocations].  [dealer.close] can therefore only stop the timers of
    invocations that are still in that table — and then waits for ALL timer
    goroutines ([d.timers.Wait()]).  A timer whose invocation left the table
    without being stopped keeps [Router.Close] / [RemoveRealm] waiting until its
    client-chosen deadline.

    State: the invocations that own a timer (pairs invocation, timer id), the
    live timer goroutines (id, deadline, cancelled flag), the clock.
    Operations: a call with timeout arms a fresh timer for invocation c (a
    further chunk of a progressive call re-arms it); an invocation is dropped
    (final YIELD, ERROR, CANCEL, a party leaves); time passes; an expired timer
    fires (its invocation is cancelled); a stopped timer goroutine exits.
    The switch [cancel_first]: every drop of an invocation, and every re-arm,
    stops the old timer first ([true] is /repo's code; per-run obligation
    [invocation_drops_cancel_timer] over the translator's reading of
    dealer.go). *)

From Coq Require Import List Bool Arith NArith Lia.
Import ListNotations.
Local Open Scope N_scope.

Record timer : Type := mkT { t_id : nat; t_deadline : N; t_cancelled : bool }.

Record state : Type := mkS {
  owners : list (nat * nat);     (* invocation, id of its timer *)
  live : list timer;             (* timer goroutines that have not exited *)
  now : N;
  next : nat                     (* fresh timer id *)
}.

Inductive op : Type :=
| Arm (c : nat) (dur : N)
| Drop (c : nat)
| Tick (dt : N)
| Fire (t : nat)
| Exit (t : nat).

Definition init : state := mkS [] [] 0 0%nat.

Definition mem (x : nat) (l : list nat) : bool := existsb (Nat.eqb x) l.

(** Stop the timers whose ids are in [ids]. *)
Definition cancel_ids (ids : list nat) (l : list timer) : list timer :=
  map (fun t => if mem (t_id t) ids then mkT (t_id t) (t_deadline t) true else t) l.

Definition timers_of (c : nat) (o : list (nat * nat)) : list nat :=
  map snd (filter (fun p => Nat.eqb (fst p) c) o).

Definition without (c : nat) (o : list (nat * nat)) : list (nat * nat) :=
  filter (fun p => negb (Nat.eqb (fst p) c)) o.

Section CallTimers.

Variable cancel_first : bool.

Definition forget (c : nat) (s : state) : state :=
  mkS (without c (owners s))
      (if cancel_first then cancel_ids (timers_of c (owners s)) (live s) else live s)
      (now s) (next s).

Definition step (s : state) (o : op) : state :=
  match o with
  | Arm c dur =>
      let s' := forget c s in
      mkS ((c, next s') :: owners s') (mkT (next s') (now s' + dur) false :: live s') (now s') (S (next s'))
  | Drop c => forget c s
  | Tick dt => mkS (owners s) (live s) (now s + dt) (next s)
  | Fire t =>
      if existsb (fun x => Nat.eqb (t_id x) t && negb (t_cancelled x) && (t_deadline x <=? now s)) (live s)
      then mkS (filter (fun p => negb (Nat.eqb (snd p) t)) (owners s))
               (filter (fun x => negb (Nat.eqb (t_id x) t)) (live s)) (now s) (next s)
      else s
  | Exit t =>
      mkS (owners s) (filter (fun x => negb (Nat.eqb (t_id x) t && t_cancelled x)) (live s)) (now s) (next s)
  end.

Definition run (ops : list op) : state := fold_left step ops init.

End CallTimers.

(** [dealer.close]: stop the timers of the invocations still in the table ... *)
Definition close_cancel (s : state) : state :=
  mkS (owners s) (cancel_ids (map snd (owners s)) (live s)) (now s) (next s).

(** ... and wait for every timer goroutine: a stopped one exits at once, one
    that is still armed exits when its deadline has come. *)
Definition close_wait (s : state) : N :=
  fold_right (fun t acc => if t_cancelled t then acc else N.max (t_deadline t - now s) acc) 0 (live s).

(** Every armed timer belongs to an invocation that is still in the table. *)
Definition tracked (s : state) : Prop :=
  forall t, In t (live s) -> t_cancelled t = false -> exists c, In (c, t_id t) (owners s).

Lemma mem_In x l : mem x l = true <-> In x l.
Proof.
  unfold mem. rewrite existsb_exists. split.
  - intros [y [Hy E]]. apply Nat.eqb_eq in E. subst. exact Hy.
  - intros H. exists x. split; [exact H | apply Nat.eqb_refl].
Qed.

Lemma cancel_ids_In ids l t :
  In t (cancel_ids ids l) ->
  exists t0, In t0 l /\ t_id t = t_id t0 /\
             (t = t0 /\ mem (t_id t0) ids = false \/ t_cancelled t = true).
Proof.
  unfold cancel_ids. rewrite in_map_iff. intros [t0 [E H]]. exists t0. split; [exact H|].
  destruct (mem (t_id t0) ids) eqn:M; subst t; cbn; auto.
Qed.

Lemma forget_tracked c s : tracked s -> tracked (forget true c s).
Proof.
  intros T t Ht Hc. unfold forget in Ht. cbn [live] in Ht.
  apply cancel_ids_In in Ht. destruct Ht as [t0 [H0 [Eid [[E M] | C]]]]; [|congruence].
  subst t0. destruct (T t H0 Hc) as [c' Hin]. exists c'. cbn [owners forget].
  unfold without. apply filter_In. split; [exact Hin|]. cbn [fst].
  destruct (Nat.eqb c' c) eqn:E; [|reflexivity]. apply Nat.eqb_eq in E. subst c'.
  exfalso. assert (mem (t_id t) (timers_of c (owners s)) = true) as M'.
  { apply mem_In. unfold timers_of. apply in_map_iff. exists (c, t_id t). split; [reflexivity|].
    apply filter_In. split; [exact Hin | cbn; apply Nat.eqb_refl]. }
  congruence.
Qed.

Lemma step_tracked s o : tracked s -> tracked (step true s o).
Proof.
  intros T. destruct o as [c dur | c | dt | t | t]; cbn [step].
  - pose proof (forget_tracked c s T) as F. intros x Hx Hc. cbn [live] in Hx. destruct Hx as [E | Hx].
    + subst x. exists c. cbn. left. reflexivity.
    + destruct (F x Hx Hc) as [c' Hin]. exists c'. cbn [owners]. right. exact Hin.
  - apply forget_tracked. exact T.
  - exact T.
  - destruct (existsb _ (live s)); [|exact T].
    intros x Hx Hc. cbn [live] in Hx. apply filter_In in Hx. destruct Hx as [Hx Hne].
    destruct (T x Hx Hc) as [c Hin]. exists c. cbn [owners]. apply filter_In. split; [exact Hin|].
    cbn [snd]. exact Hne.
  - intros x Hx Hc. cbn [live] in Hx. apply filter_In in Hx. destruct Hx as [Hx _]. exact (T x Hx Hc).
Qed.

Lemma run_tracked_from ops : forall s, tracked s -> tracked (fold_left (step true) ops s).
Proof. induction ops; intros s T; cbn; auto. apply IHops, step_tracked, T. Qed.

(** For every sequence of operations. *)
Theorem armed_timers_tracked : forall ops, tracked (run true ops).
Proof. intros ops. apply run_tracked_from. intros t []. Qed.

Lemma close_wait_zero s :
  (forall t, In t (live s) -> t_cancelled t = true) -> close_wait s = 0.
Proof.
  unfold close_wait. induction (live s) as [|t l IH]; intros H; cbn; [reflexivity|].
  rewrite (H t (or_introl eq_refl)). apply IH. intros x Hx. apply H. right. exact Hx.
Qed.

(** [dealer.close] never waits for a timer's deadline. *)
Theorem close_waits_for_no_timer : forall ops, close_wait (close_cancel (run true ops)) = 0.
Proof.
  intros ops. apply close_wait_zero. intros t Ht. cbn [live close_cancel] in Ht.
  apply cancel_ids_In in Ht. destruct Ht as [t0 [H0 [Eid [[E M] | C]]]]; [|exact C].
  subst t0. destruct (t_cancelled t) eqn:Hc; [reflexivity|].
  destruct (armed_timers_tracked ops t H0 Hc) as [c Hin].
  assert (mem (t_id t) (map snd (owners (run true ops))) = true) as M'.
  { apply mem_In. apply in_map_iff. exists (c, t_id t). split; [reflexivity | exact Hin]. }
  congruence.
Qed.

(** Without the discipline (an invocation is dropped with its timer running)
    [dealer.close] waits for the rest of the client-chosen timeout. *)
Theorem close_waits_refuted_without_cancel : forall c dur,
  close_wait (close_cancel (run false [Arm c dur; Drop c])) = dur.
Proof.
  intros c dur. cbn. rewrite Nat.eqb_refl. cbn. rewrite N.sub_0_r. apply N.max_0_r.
Qed.
