(** * Conc/RankedProofs — [ranked_progress], proved once, for any number of processes. *)

From Coq Require Import List Bool Arith Lia.
From Nexus Require Import Conc.Ranked.
Import ListNotations.

Section Proofs.

Variable P : Type.
Variable P_eqb : P -> P -> bool.
Hypothesis P_eqb_spec : forall a b, P_eqb a b = true <-> a = b.
Variable H : Type.
Variable rank : P -> nat.
Variable script : P -> H -> list (action P H).

Notation state := (@Ranked.state P H).
Notation istep := (@Ranked.istep P P_eqb H script).
Notation estep := (@Ranked.estep P P_eqb H script).
Notation reach := (@Ranked.reach P P_eqb H script).
Notation upd := (@Ranked.upd P P_eqb H).
Notation measure := (@Ranked.measure P P_eqb H rank script).
Notation lcost := (@Ranked.lcost P H script).
Notation pcost := (@Ranked.pcost P H rank script).
Notation calls_lower := (@Ranked.calls_lower P H rank).
Notation pending_call := (@Ranked.pending_call P H).
Notation st := (@Ranked.st P H).
Notation support := (@Ranked.support P H).
Notation ALocal := (@Ranked.ALocal P H).
Notation ACall := (@Ranked.ACall P H).
Notation Idle := (@Ranked.Idle P H).
Notation Busy := (@Ranked.Busy P H).
Notation Wait := (@Ranked.Wait P H).

Lemma P_eqb_refl a : P_eqb a a = true.
Proof. apply P_eqb_spec; reflexivity. Qed.

Lemma P_eqb_neq a b : a <> b -> P_eqb a b = false.
Proof. intro Hn. destruct (P_eqb a b) eqn:E; auto. apply P_eqb_spec in E. contradiction. Qed.

Lemma P_dec (a b : P) : {a = b} + {a <> b}.
Proof.
  destruct (P_eqb a b) eqn:E.
  - left. apply P_eqb_spec; auto.
  - right. intro Hab. apply P_eqb_spec in Hab. congruence.
Qed.

Lemma upd_same f p x : upd f p x p = x.
Proof. unfold Ranked.upd. rewrite P_eqb_refl. reflexivity. Qed.

Lemma upd_other f p x y : y <> p -> upd f p x y = f y.
Proof. intro Hn. unfold Ranked.upd. rewrite P_eqb_neq; auto. Qed.

(** ** Cost is monotone in the rank bound *)

Lemma lcost_nil n : lcost n [] = 0.
Proof. destruct n; reflexivity. Qed.

Lemma lcost_local n r : lcost n (ALocal :: r) = 1 + lcost n r.
Proof. destruct n; reflexivity. Qed.

Lemma lcost_call0 q h b r : lcost 0 (ACall q h b :: r) = 1 + lcost 0 r.
Proof. reflexivity. Qed.

Lemma lcost_callS n q h b r :
  lcost (S n) (ACall q h b :: r) = 3 + lcost n (script q h) + lcost (S n) r.
Proof. reflexivity. Qed.

Lemma lcost_mono n : forall m l, n <= m -> lcost n l <= lcost m l.
Proof.
  induction n; intros m l Hnm.
  - induction l as [|a r IH].
    + rewrite !lcost_nil. lia.
    + destruct a.
      * rewrite !lcost_local. lia.
      * rewrite lcost_call0. destruct m.
        -- rewrite lcost_call0. lia.
        -- rewrite lcost_callS. lia.
  - destruct m; [lia|].
    induction l as [|a r IH].
    + rewrite !lcost_nil. lia.
    + destruct a.
      * rewrite !lcost_local. lia.
      * rewrite !lcost_callS.
        assert (lcost n (script q h) <= lcost m (script q h)) by (apply IHn; lia).
        lia.
Qed.

(** ** Sums over duplicate-free lists *)

Notation mem := (@Ranked.mem P P_eqb).
Notation dedup := (@Ranked.dedup P P_eqb).
Notation sum_over := (@Ranked.sum_over P).

Lemma mem_In p l : mem p l = true <-> In p l.
Proof.
  induction l; simpl; split; try discriminate; try tauto.
  - intro Hm. apply orb_true_iff in Hm as [Hm|Hm].
    + left. apply P_eqb_spec; auto.
    + right. apply IHl; auto.
  - intros [->|Hin]; apply orb_true_iff.
    + left. apply P_eqb_refl.
    + right. apply IHl; auto.
Qed.

Lemma In_dedup p l : In p (dedup l) <-> In p l.
Proof.
  induction l; simpl; [tauto|].
  destruct (mem a l) eqn:E.
  - rewrite IHl. split; auto. intros [->|Hin]; auto. apply mem_In; auto.
  - simpl. rewrite IHl. tauto.
Qed.

Lemma NoDup_dedup l : NoDup (dedup l).
Proof.
  induction l; simpl; [constructor|].
  destruct (mem a l) eqn:E; auto.
  constructor; auto. rewrite In_dedup. intro Hin. apply mem_In in Hin. congruence.
Qed.

Lemma sum_ext f g l : (forall x, In x l -> f x = g x) -> sum_over f l = sum_over g l.
Proof.
  induction l; simpl; intro Hx; [reflexivity|].
  rewrite Hx by auto. rewrite IHl; auto.
Qed.

Lemma sum_dedup_cons_zero f q l :
  f q = 0 -> sum_over f (dedup (q :: l)) = sum_over f (dedup l).
Proof.
  intro Hz. simpl. destruct (mem q l); simpl; auto. lia.
Qed.

(** Changing the summand at one point of a duplicate-free list. *)
Lemma sum_change1 f g l p :
  NoDup l -> In p l -> (forall x, x <> p -> f x = g x) ->
  sum_over f l + g p = sum_over g l + f p.
Proof.
  induction l; intros Hnd Hin Heq; simpl; [destruct Hin|].
  inversion Hnd; subst.
  destruct (P_dec a p) as [->|Hne].
  - assert (sum_over f l = sum_over g l) as ->.
    { apply sum_ext. intros x Hx. apply Heq. intro; subst; contradiction. }
    lia.
  - destruct Hin as [->|Hin]; [congruence|].
    rewrite (Heq a) by auto. specialize (IHl H3 Hin Heq). lia.
Qed.

Lemma sum_change2 f g l p q :
  NoDup l -> In p l -> In q l -> p <> q ->
  (forall x, x <> p -> x <> q -> f x = g x) ->
  sum_over f l + g p + g q = sum_over g l + f p + f q.
Proof.
  intros Hnd Hp Hq Hpq Heq.
  (* go through the intermediate function that agrees with g at p only *)
  set (m := fun x => if P_eqb x p then g p else f x).
  assert (H1 : sum_over f l + m p = sum_over m l + f p).
  { apply sum_change1; auto. intros x Hx. unfold m. rewrite P_eqb_neq; auto. }
  assert (H2 : sum_over m l + g q = sum_over g l + m q).
  { apply sum_change1; auto. intros x Hx. unfold m.
    destruct (P_dec x p) as [->|Hxp].
    - rewrite P_eqb_refl; auto.
    - rewrite P_eqb_neq; auto. }
  unfold m in H1, H2. rewrite P_eqb_refl in H1. rewrite (P_eqb_neq q p) in H2 by congruence.
  lia.
Qed.

(** ** Invariants of reachable states *)

Definition nonidle (x : pst P H) : Prop := x <> Idle.

Definition replies_to (x : pst P H) (p : P) : Prop :=
  match x with
  | Ranked.Idle _ _ => False
  | Ranked.Busy _ _ _ rp => rp = Some p
  | Ranked.Wait _ _ _ _ rp => rp = Some p
  end.

Record inv (s : state) : Prop := mkInv {
  inv_support : forall p, nonidle (st s p) -> In p (support s);
  inv_lower_busy : forall p l rp, st s p = Busy l rp -> calls_lower l (rank p);
  inv_lower_wait : forall p q l rp, st s p = Wait q l rp -> calls_lower l (rank p);
  inv_wait : forall p q l rp, st s p = Wait q l rp -> rank q < rank p /\ replies_to (st s q) p;
  inv_reply : forall q p, replies_to (st s q) p -> exists l rp, st s p = Wait q l rp
}.

Hypothesis Hranked : @ranked P H rank script.

Lemma calls_lower_tail a l n : calls_lower (a :: l) n -> calls_lower l n.
Proof. intros Hc q h b Hin. eapply Hc; right; eauto. Qed.

Lemma inv_init : inv (@init P H).
Proof.
  constructor; simpl; intros; try discriminate; try contradiction.
Qed.

Ltac upd_cases x p :=
  destruct (P_dec x p) as [->|?]; [rewrite ?upd_same in *|rewrite ?upd_other in * by auto].

Lemma inv_istep s s' : inv s -> istep s s' -> inv s'.
Proof.
  intros I Hs. destruct I as [Isup Ilb Ilw Iw Ir]. inversion Hs; subst; clear Hs.
  - (* local *)
    constructor; simpl.
    + intros x Hx. apply Isup. upd_cases x p; auto. rewrite H0. discriminate.
    + intros x l rp' Hx. upd_cases x p; eauto.
      inversion Hx; subst. eapply calls_lower_tail; eauto.
    + intros x q l rp' Hx. upd_cases x p; eauto. discriminate.
    + intros x q l rp' Hx. upd_cases x p; [discriminate|].
      destruct (Iw _ _ _ _ Hx) as [Hr Hrep]. split; auto.
      upd_cases q p; auto. rewrite H0 in Hrep. exact Hrep.
    + intros q x Hrep. upd_cases q p.
      * assert (replies_to (st s p) x) as Hr by (rewrite H0; exact Hrep).
        destruct (Ir _ _ Hr) as (l & rp' & Hx). exists l, rp'.
        upd_cases x p; auto. rewrite H0 in Hx; discriminate.
      * destruct (Ir _ _ Hrep) as (l & rp' & Hx). exists l, rp'.
        upd_cases x p; auto. rewrite H0 in Hx; discriminate.
  - (* async call *)
    assert (Hlow : rank q < rank p) by (eapply Ilb; [eauto|left; reflexivity]).
    assert (Hpq : p <> q) by (intro; subst; lia).
    constructor; simpl.
    + intros x Hx. upd_cases x q; [left; auto|]. right. apply Isup.
      upd_cases x p; auto. rewrite H0; discriminate.
    + intros x l rp' Hx. upd_cases x q.
      * inversion Hx; subst. apply Hranked.
      * upd_cases x p; eauto. inversion Hx; subst. eapply calls_lower_tail; eauto.
    + intros x q' l rp' Hx. upd_cases x q; [discriminate|]. upd_cases x p; [discriminate|]. eauto.
    + intros x q' l rp' Hx. upd_cases x q; [discriminate|]. upd_cases x p; [discriminate|].
      destruct (Iw _ _ _ _ Hx) as [Hr Hrep]. split; auto.
      upd_cases q' q; [rewrite H1 in Hrep; destruct Hrep|].
      upd_cases q' p; auto. rewrite H0 in Hrep. exact Hrep.
    + intros q' x Hrep. upd_cases q' q; [simpl in Hrep; discriminate|].
      assert (replies_to (st s q') x) as Hr.
      { upd_cases q' p; auto. rewrite H0. exact Hrep. }
      destruct (Ir _ _ Hr) as (l & rp' & Hx). exists l, rp'.
      upd_cases x q; [rewrite H1 in Hx; discriminate|].
      upd_cases x p; auto. rewrite H0 in Hx; discriminate.
  - (* sync call *)
    assert (Hlow : rank q < rank p) by (eapply Ilb; [eauto|left; reflexivity]).
    assert (Hpq : p <> q) by (intro; subst; lia).
    constructor; simpl.
    + intros x Hx. upd_cases x q; [left; auto|]. right. apply Isup.
      upd_cases x p; auto. rewrite H0; discriminate.
    + intros x l rp' Hx. upd_cases x q.
      * inversion Hx; subst. apply Hranked.
      * upd_cases x p; [discriminate|]. eauto.
    + intros x q' l rp' Hx. upd_cases x q; [discriminate|]. upd_cases x p; eauto.
      inversion Hx; subst. eapply calls_lower_tail; eauto.
    + intros x q' l rp' Hx. upd_cases x q; [discriminate|]. upd_cases x p.
      * inversion Hx; subst. split; auto. rewrite upd_same. simpl. reflexivity.
      * destruct (Iw _ _ _ _ Hx) as [Hr Hrep]. split; auto.
        upd_cases q' q; [rewrite H1 in Hrep; destruct Hrep|].
        upd_cases q' p; auto. rewrite H0 in Hrep. exact Hrep.
    + intros q' x Hrep. upd_cases q' q.
      * simpl in Hrep. inversion Hrep; subst. exists r, rp.
        rewrite upd_other by auto. rewrite upd_same. reflexivity.
      * assert (replies_to (st s q') x) as Hr.
        { upd_cases q' p; auto. rewrite H0. exact Hrep. }
        destruct (Ir _ _ Hr) as (l & rp' & Hx). exists l, rp'.
        upd_cases x q; [rewrite H1 in Hx; discriminate|].
        upd_cases x p; auto. rewrite H0 in Hx; discriminate.
  - (* finish without reply *)
    constructor; simpl.
    + intros x Hx. apply Isup. upd_cases x q; auto. exfalso; apply Hx; reflexivity.
    + intros x l rp' Hx. upd_cases x q; [discriminate|]. eauto.
    + intros x q' l rp' Hx. upd_cases x q; [discriminate|]. eauto.
    + intros x q' l rp' Hx. upd_cases x q; [discriminate|].
      destruct (Iw _ _ _ _ Hx) as [Hr Hrep]. split; auto.
      upd_cases q' q; auto. rewrite H0 in Hrep. simpl in Hrep. discriminate.
    + intros q' x Hrep. upd_cases q' q; [destruct Hrep|].
      destruct (Ir _ _ Hrep) as (l & rp' & Hx). exists l, rp'.
      upd_cases x q; auto. rewrite H0 in Hx; discriminate.
  - (* finish with reply *)
    assert (Hqp : q <> p) by (intro; subst; rewrite H0 in H1; discriminate).
    constructor; simpl.
    + intros x Hx. apply Isup. upd_cases x p; [rewrite H1; discriminate|].
      upd_cases x q; auto. exfalso; apply Hx; reflexivity.
    + intros x l rp' Hx. upd_cases x p.
      * inversion Hx; subst. eapply Ilw; eauto.
      * upd_cases x q; [discriminate|]. eauto.
    + intros x q' l rp' Hx. upd_cases x p; [discriminate|]. upd_cases x q; [discriminate|]. eauto.
    + intros x q' l rp' Hx. upd_cases x p; [discriminate|]. upd_cases x q; [discriminate|].
      destruct (Iw _ _ _ _ Hx) as [Hr Hrep]. split; auto.
      upd_cases q' p.
      * rewrite H1 in Hrep. exact Hrep.
      * upd_cases q' q; auto.
        (* q replied to p, not to x *)
        rewrite H0 in Hrep. simpl in Hrep. inversion Hrep; subst. contradiction.
    + intros q' x Hrep. upd_cases q' p.
      * assert (replies_to (st s p) x) as Hr by (rewrite H1; exact Hrep).
        destruct (Ir _ _ Hr) as (l & rp' & Hx). exists l, rp'.
        upd_cases x p; [rewrite H1 in Hx; inversion Hx; subst; congruence|].
        upd_cases x q; auto. rewrite H0 in Hx; discriminate.
      * upd_cases q' q; [destruct Hrep|].
        destruct (Ir _ _ Hrep) as (l & rp' & Hx).
        (* x waits for q', and q' <> q, so x <> p *)
        assert (x <> p).
        { intro; subst. rewrite H1 in Hx. inversion Hx; subst. contradiction. }
        exists l, rp'. rewrite upd_other by auto.
        upd_cases x q; auto. rewrite H0 in Hx; discriminate.
Qed.

Lemma inv_estep s s' : inv s -> estep s s' -> inv s'.
Proof.
  intros I Hs. destruct I as [Isup Ilb Ilw Iw Ir]. inversion Hs; subst; clear Hs.
  constructor; simpl.
  - intros x Hx. upd_cases x q; [left; auto|]. right. apply Isup; auto.
  - intros x l rp' Hx. upd_cases x q; eauto. inversion Hx; subst. apply Hranked.
  - intros x q' l rp' Hx. upd_cases x q; [discriminate|]. eauto.
  - intros x q' l rp' Hx. upd_cases x q; [discriminate|].
    destruct (Iw _ _ _ _ Hx) as [Hr Hrep]. split; auto.
    upd_cases q' q; auto. rewrite H0 in Hrep. destruct Hrep.
  - intros q' x Hrep. upd_cases q' q; [simpl in Hrep; discriminate|].
    destruct (Ir _ _ Hrep) as (l & rp' & Hx). exists l, rp'.
    upd_cases x q; auto. rewrite H0 in Hx; discriminate.
Qed.

Lemma reach_inv s : reach s -> inv s.
Proof.
  induction 1.
  - apply inv_init.
  - eapply inv_istep; eauto.
  - eapply inv_estep; eauto.
Qed.

(** ** No deadlock: while some process is not idle, some internal step is enabled *)

Lemma progress_from s : inv s ->
  forall n p, rank p <= n -> nonidle (st s p) -> exists s', istep s s'.
Proof.
  intros I. destruct I as [Isup Ilb Ilw Iw Ir].
  induction n; intros p Hr Hn.
  - (* rank 0: no call in its script *)
    destruct (st s p) as [|l rp|q l rp] eqn:E.
    + exfalso; apply Hn; reflexivity.
    + destruct l as [|a l].
      * destruct rp as [p'|].
        -- assert (replies_to (st s p) p') as Hrep by (rewrite E; reflexivity).
           destruct (Ir _ _ Hrep) as (l' & rp' & Hx).
           eexists. eapply st_finish_reply; eauto.
        -- eexists. eapply st_finish; eauto.
      * destruct a.
        -- eexists. eapply st_local; eauto.
        -- assert (rank q < rank p) by (eapply Ilb; [eauto|left; reflexivity]). lia.
    + destruct (Iw _ _ _ _ E) as [Hlt _]. lia.
  - destruct (st s p) as [|l rp|q l rp] eqn:E.
    + exfalso; apply Hn; reflexivity.
    + destruct l as [|a l].
      * destruct rp as [p'|].
        -- assert (replies_to (st s p) p') as Hrep by (rewrite E; reflexivity).
           destruct (Ir _ _ Hrep) as (l' & rp' & Hx).
           eexists. eapply st_finish_reply; eauto.
        -- eexists. eapply st_finish; eauto.
      * destruct a.
        -- eexists. eapply st_local; eauto.
        -- assert (Hlt : rank q < rank p) by (eapply Ilb; [eauto|left; reflexivity]).
           destruct (st s q) eqn:Eq.
           ++ destruct sync; eexists.
              ** eapply st_call_sync; eauto.
              ** eapply st_call_async; eauto.
           ++ apply (IHn q); [lia|]. rewrite Eq. discriminate.
           ++ apply (IHn q); [lia|]. rewrite Eq. discriminate.
    + destruct (Iw _ _ _ _ E) as [Hlt Hrep].
      apply (IHn q); [lia|]. intro Hq. rewrite Hq in Hrep. destruct Hrep.
Qed.

(** ** Every internal step consumes work *)

Lemma measure_decreases s s' : inv s -> istep s s' -> measure s' < measure s.
Proof.
  intros I Hs. destruct I as [Isup Ilb Ilw Iw Ir]. unfold Ranked.measure.
  inversion Hs; subst; clear Hs; simpl.
  - (* local *)
    assert (Hin : In p (dedup (support s))) by (apply In_dedup, Isup; rewrite H0; discriminate).
    pose proof (sum_change1
      (fun x => pcost x (upd (st s) p (Busy r rp) x)) (fun x => pcost x (st s x))
      (dedup (support s)) p (NoDup_dedup _) Hin) as Hc.
    cbv beta in Hc. rewrite upd_same, H0 in Hc. simpl in Hc. rewrite lcost_local in Hc.
    assert (forall x, x <> p -> pcost x (upd (st s) p (Busy r rp) x) = pcost x (st s x))
      by (intros x Hx; rewrite upd_other; auto).
    specialize (Hc H1). lia.
  - (* async call *)
    assert (Hlow : rank q < rank p) by (eapply Ilb; [eauto|left; reflexivity]).
    assert (Hpq : p <> q) by (intro; subst; lia).
    rewrite <- (sum_dedup_cons_zero (fun x => pcost x (st s x)) q (support s))
      by (rewrite H1; reflexivity).
    assert (Hp : In p (dedup (q :: support s)))
      by (apply In_dedup; right; apply Isup; rewrite H0; discriminate).
    assert (Hq : In q (dedup (q :: support s))) by (apply In_dedup; left; auto).
    pose proof (sum_change2
      (fun x => pcost x (upd (upd (st s) p (Busy r rp)) q (Busy (script q h) None) x))
      (fun x => pcost x (st s x)) (dedup (q :: support s)) p q
      (NoDup_dedup _) Hp Hq Hpq) as Hc.
    cbv beta in Hc. rewrite upd_same in Hc. rewrite (upd_other _ q _ p), upd_same in Hc by auto.
    rewrite H0, H1 in Hc. simpl in Hc.
    assert (forall x, x <> p -> x <> q ->
       pcost x (upd (upd (st s) p (Busy r rp)) q (Busy (script q h) None) x) = pcost x (st s x))
      by (intros x Hx Hx'; rewrite !upd_other; auto).
    specialize (Hc H2).
    destruct (rank p) as [|n'] eqn:Erp; [lia|].
    rewrite lcost_callS in Hc.
    assert (lcost (rank q) (script q h) <= lcost n' (script q h)) by (apply lcost_mono; lia).
    simpl in *. lia.
  - (* sync call *)
    assert (Hlow : rank q < rank p) by (eapply Ilb; [eauto|left; reflexivity]).
    assert (Hpq : p <> q) by (intro; subst; lia).
    rewrite <- (sum_dedup_cons_zero (fun x => pcost x (st s x)) q (support s))
      by (rewrite H1; reflexivity).
    assert (Hp : In p (dedup (q :: support s)))
      by (apply In_dedup; right; apply Isup; rewrite H0; discriminate).
    assert (Hq : In q (dedup (q :: support s))) by (apply In_dedup; left; auto).
    pose proof (sum_change2
      (fun x => pcost x (upd (upd (st s) p (Wait q r rp)) q (Busy (script q h) (Some p)) x))
      (fun x => pcost x (st s x)) (dedup (q :: support s)) p q
      (NoDup_dedup _) Hp Hq Hpq) as Hc.
    cbv beta in Hc. rewrite upd_same in Hc. rewrite (upd_other _ q _ p), upd_same in Hc by auto.
    rewrite H0, H1 in Hc. simpl in Hc.
    assert (forall x, x <> p -> x <> q ->
       pcost x (upd (upd (st s) p (Wait q r rp)) q (Busy (script q h) (Some p)) x) = pcost x (st s x))
      by (intros x Hx Hx'; rewrite !upd_other; auto).
    specialize (Hc H2).
    destruct (rank p) as [|n'] eqn:Erp; [lia|].
    rewrite lcost_callS in Hc.
    assert (lcost (rank q) (script q h) <= lcost n' (script q h)) by (apply lcost_mono; lia).
    simpl in *. lia.
  - (* finish *)
    assert (Hin : In q (dedup (support s))) by (apply In_dedup, Isup; rewrite H0; discriminate).
    pose proof (sum_change1
      (fun x => pcost x (upd (st s) q Idle x)) (fun x => pcost x (st s x))
      (dedup (support s)) q (NoDup_dedup _) Hin) as Hc.
    cbv beta in Hc. rewrite upd_same, H0 in Hc. simpl in Hc. rewrite lcost_nil in Hc.
    assert (forall x, x <> q -> pcost x (upd (st s) q Idle x) = pcost x (st s x))
      by (intros x Hx; rewrite upd_other; auto).
    specialize (Hc H1). lia.
  - (* finish with reply *)
    assert (Hqp : q <> p) by (intro; subst; rewrite H0 in H1; discriminate).
    assert (Hq : In q (dedup (support s))) by (apply In_dedup, Isup; rewrite H0; discriminate).
    assert (Hp : In p (dedup (support s))) by (apply In_dedup, Isup; rewrite H1; discriminate).
    pose proof (sum_change2
      (fun x => pcost x (upd (upd (st s) q Idle) p (Busy r rp) x))
      (fun x => pcost x (st s x)) (dedup (support s)) q p
      (NoDup_dedup _) Hq Hp Hqp) as Hc.
    cbv beta in Hc. rewrite upd_same in Hc. rewrite (upd_other _ p _ q), upd_same in Hc by auto.
    rewrite H0, H1 in Hc. simpl in Hc. rewrite lcost_nil in Hc.
    assert (forall x, x <> q -> x <> p ->
       pcost x (upd (upd (st s) q Idle) p (Busy r rp) x) = pcost x (st s x))
      by (intros x Hx Hx'; rewrite !upd_other; auto).
    specialize (Hc H2). lia.
Qed.

(** ** The theorem *)

Inductive isteps : nat -> state -> state -> Prop :=
| isteps_O s : isteps 0 s s
| isteps_S n s s' s'' : istep s s' -> isteps n s' s'' -> isteps (S n) s s''.

Definition quiescent (s : state) : Prop := @Ranked.quiescent P H s.

Lemma not_quiescent_nonidle s : ~ quiescent s -> ~ (forall p, st s p = Idle).
Proof. auto. Qed.

Theorem ranked_progress :
  forall s, reach s ->
    (* (1) no deadlock: a step is enabled unless every process is idle at its receive point *)
    ((exists p, st s p <> Idle) -> exists s', istep s s') /\
    (* (2) every internal step consumes work: no run of internal steps is longer than the measure *)
    (forall s', istep s s' -> measure s' < measure s) /\
    (forall n s', isteps n s s' -> n <= measure s) /\
    (* (3) hence every submitted request is eventually taken: a run of internal steps that
           cannot be extended ends with every process idle, in particular with no pending call *)
    (forall n s', isteps n s s' -> (forall s'', ~ istep s' s'') ->
        quiescent s' /\ forall p q, ~ pending_call s' p q).
Proof.
  intros s Hr. pose proof (reach_inv s Hr) as I.
  assert (Hbound : forall n s0 s', reach s0 -> isteps n s0 s' -> n <= measure s0 /\ reach s').
  { induction n; intros s0 s' Hr0 Hs; inversion Hs; subst.
    - split; [lia|auto].
    - assert (reach s'0) by (eapply reach_i; eauto).
      destruct (IHn _ _ H0 H2) as [Hle Hr'].
      pose proof (measure_decreases s0 s'0 (reach_inv _ Hr0) H1). split; [lia|auto]. }
  repeat split.
  - intros [p Hp]. eapply (progress_from s I (rank p) p); auto.
  - intros s' Hs. apply measure_decreases; auto.
  - intros n s' Hs. apply (Hbound n s s'); auto.
  - destruct (Hbound n s s' Hr H0) as [_ Hr'].
    intro p. destruct (st s' p) eqn:E; auto; exfalso.
    + destruct (progress_from s' (reach_inv _ Hr') (rank p) p) as [s'' Hs'']; auto.
      * rewrite E; discriminate.
      * eapply H1; eauto.
    + destruct (progress_from s' (reach_inv _ Hr') (rank p) p) as [s'' Hs'']; auto.
      * rewrite E; discriminate.
      * eapply H1; eauto.
  - intros p q (h & b & r & rp & Hp).
    destruct (Hbound n s s' Hr H0) as [_ Hr'].
    destruct (progress_from s' (reach_inv _ Hr') (rank p) p) as [s'' Hs'']; auto.
    + rewrite Hp; discriminate.
    + eapply H1; eauto.
Qed.

End Proofs.
