(** * Conc/SkeletonProofs — from the decidable obligations to the hypothesis of [ranked_progress].

    [wait_edges fs]: the pairs (k, k') such that some function executed by kind
    k contains a blocking operation (not the goroutine's own input, not an
    idle / escapable select, not the pinned meta self-edge) whose target is
    kind k'.  Any network of processes — however many of each kind — whose
    calls are drawn from these pairs satisfies [Ranked.ranked] for the rank
    [rank_of], provided the obligation [func_edges_ok] holds of the inventory. *)

From Coq Require Import String List NArith Bool Arith Lia.
From Nexus Require Import Conc.SkelTypes Conc.Shutdown Conc.Skeleton Conc.Ranked Conc.RankedProofs.
Import ListNotations.

Definition counts_as_edge (k : gkind) (f : func) (o : op) : bool :=
  is_blocking o && negb (own_input k o)
  && negb (negb (N.eqb (o_sel o) 0) && sel_idle f k (o_sel o))
  && negb (meta_self_exempt k f o).

Definition wait_edges (fs : list func) : list (gkind * gkind) :=
  flat_map (fun f => flat_map (fun k => flat_map (fun o =>
     if counts_as_edge k f o then
       match target_of o with TKind k' => [(k, k')] | _ => [] end
     else []) (f_ops f)) (f_kinds f)) fs.

Lemma wait_edges_lower fs k k' :
  forallb func_edges_ok fs = true ->
  In (k, k') (wait_edges fs) -> rank_of k' < rank_of k.
Proof.
  intros Hok Hin. unfold wait_edges in Hin.
  apply in_flat_map in Hin as (f & Hf & Hin).
  apply in_flat_map in Hin as (k0 & Hk & Hin).
  apply in_flat_map in Hin as (o & Ho & Hin).
  rewrite forallb_forall in Hok. specialize (Hok _ Hf).
  unfold func_edges_ok in Hok. rewrite forallb_forall in Hok. specialize (Hok _ Hk).
  rewrite forallb_forall in Hok. specialize (Hok _ Ho).
  destruct (counts_as_edge k0 f o) eqn:Ec; [|destruct Hin].
  unfold counts_as_edge in Ec.
  apply andb_true_iff in Ec as [Ec E4]. apply andb_true_iff in Ec as [Ec E3].
  apply andb_true_iff in Ec as [E1 E2].
  apply negb_true_iff in E2, E3, E4.
  unfold edge_ok in Hok. rewrite E1 in Hok. simpl in Hok. rewrite E2, E3, E4 in Hok.
  destruct (target_of o) eqn:Et; simpl in Hin; try tauto.
  destruct Hin as [Hin|[]]. inversion Hin; subst. apply Nat.ltb_lt. exact Hok.
Qed.

Section Network.

Variable P : Type.
Variable P_eqb : P -> P -> bool.
Hypothesis P_eqb_spec : forall a b, P_eqb a b = true <-> a = b.
Variable H : Type.
Variable kind_of : P -> gkind.
Variable script : P -> H -> list (action P H).
Variable fs : list func.

(** Every call of every script is one of the inventory's blocking edges. *)
Definition drawn_from : Prop :=
  forall p h q h' b, In (@ACall P H q h' b) (script p h) -> In (kind_of p, kind_of q) (wait_edges fs).

Theorem skeleton_network_ranked :
  forallb func_edges_ok fs = true -> drawn_from ->
  @ranked P H (fun p => rank_of (kind_of p)) script.
Proof.
  intros Hok Hd p h q h' b Hin.
  eapply wait_edges_lower; eauto.
Qed.

End Network.
