(** * Conc/SkeletonProofs — from the decidable obligations to the hypothesis of [ranked_progress].

    [wait_edges fs]: the pairs (k, k') such that some function executed by kind
    k contains a blocking operation (not the goroutine's own input, not an
    idle / escapable select, not the pinned meta self-edge) whose target is
    kind k'.  Any network of processes — however many of each kind — whose
    calls are drawn from these pairs satisfies [Ranked.ranked] for the rank
    [rank_of], provided the obligation [func_edges_ok] holds of the inventory. *)

From Coq Require Import String List NArith Bool Arith Lia.
From Nexus Require Import Conc.SkelTypes Conc.Shutdown Conc.Skeleton Conc.Ranked Conc.RankedProofs
  Conc.SkelObligationsC07 gen.GenSkeleton.
Import ListNotations.

Definition counts_as_edge (k : gkind) (f : func) (o : op) : bool :=
  is_blocking o && negb (own_input k o)
  && negb (negb (N.eqb (o_sel o) 0) && sel_idle f k (o_sel o))
  && negb (meta_self_exempt k f o).

Definition wait_edges (fs : list func) : list (gkind * gkind) :=
  flat_map (fun f => flat_map (fun k => flat_map (fun o =>
     if counts_as_edge k f o then
       match target_of o with TKind k' => [(k, k')] | _ => [] end
     else []) (f_ops f)) (f_kinds f)) fs.

Lemma wait_edges_lower fs k k' :
  forallb func_edges_ok fs = true ->
  In (k, k') (wait_edges fs) -> rank_of k' < rank_of k.
Proof.
  intros Hok Hin. unfold wait_edges in Hin.
  apply in_flat_map in Hin as (f & Hf & Hin).
  apply in_flat_map in Hin as (k0 & Hk & Hin).
  apply in_flat_map in Hin as (o & Ho & Hin).
  rewrite forallb_forall in Hok. specialize (Hok _ Hf).
  unfold func_edges_ok in Hok. rewrite forallb_forall in Hok. specialize (Hok _ Hk).
  rewrite forallb_forall in Hok. specialize (Hok _ Ho).
  destruct (counts_as_edge k0 f o) eqn:Ec; [|destruct Hin].
  unfold counts_as_edge in Ec.
  apply andb_true_iff in Ec as [Ec E4]. apply andb_true_iff in Ec as [Ec E3].
  apply andb_true_iff in Ec as [E1 E2].
  apply negb_true_iff in E2, E3, E4.
  unfold edge_ok in Hok. rewrite E1 in Hok. simpl in Hok. rewrite E2, E3, E4 in Hok.
  destruct (target_of o) eqn:Et; simpl in Hin; try tauto.
  destruct Hin as [Hin|[]]. inversion Hin; subst. apply Nat.ltb_lt. exact Hok.
Qed.

Section Network.

Variable P : Type.
Variable P_eqb : P -> P -> bool.
Hypothesis P_eqb_spec : forall a b, P_eqb a b = true <-> a = b.
Variable H : Type.
Variable kind_of : P -> gkind.
Variable script : P -> H -> list (action P H).
Variable fs : list func.

(** Every call of every script is one of the inventory's blocking edges. *)
Definition drawn_from : Prop :=
  forall p h q h' b, In (@ACall P H q h' b) (script p h) -> In (kind_of p, kind_of q) (wait_edges fs).

Theorem skeleton_network_ranked :
  forallb func_edges_ok fs = true -> drawn_from ->
  @ranked P H (fun p => rank_of (kind_of p)) script.
Proof.
  intros Hok Hd p h q h' b Hin.
  eapply wait_edges_lower; eauto.
Qed.

End Network.

(** ** Instantiated for the regenerated inventory *)

Lemma gen_edges_ok : forallb func_edges_ok gen_funcs = true.
Proof.
  pose proof wait_graph_ranked_holds as Hw. unfold Skeleton.wait_graph_ranked in Hw.
  repeat (apply andb_true_iff in Hw as [Hw _]). exact Hw.
Qed.

Theorem router_workers_progress :
  forall (P : Type) (P_eqb : P -> P -> bool),
    (forall a b, P_eqb a b = true <-> a = b) ->
  forall (H : Type) (kind_of : P -> gkind) (script : P -> H -> list (action P H)),
    drawn_from P H kind_of script gen_funcs ->
  forall s, @reach P P_eqb H script s ->
    ((exists p, @st P H s p <> @Idle P H) -> exists s', @istep P P_eqb H script s s') /\
    (forall n s', isteps P P_eqb H script n s s' ->
        (forall s'', ~ @istep P P_eqb H script s' s'') ->
        RankedProofs.quiescent P H s' /\ forall p q, ~ @pending_call P H s' p q).
Proof.
  intros P P_eqb Hspec H kind_of script Hd s Hr.
  pose proof (skeleton_network_ranked P H kind_of script gen_funcs gen_edges_ok Hd) as Hrk.
  destruct (ranked_progress P P_eqb Hspec H (fun p => rank_of (kind_of p)) script Hrk s Hr)
    as (H1 & _ & _ & H4).
  split; auto.
Qed.

(** A small network whose calls are in today's inventory: processes 0, 1 are
    session handlers, 2 the realm goroutine, 3 the dealer. *)
Definition ex_kind (p : nat) : gkind :=
  match p with 0 | 1 => KSessHandler | 2 => KRealm | _ => KDealer end.

Definition ex_script (p : nat) (h : nat) : list (action nat nat) :=
  match p with
  | 0 | 1 => [ACall nat nat 3 0 true; ALocal nat nat; ACall nat nat 2 0 true]   (* a call, then leaving *)
  | 2 => [ACall nat nat 3 1 true; ALocal nat nat]                               (* onLeave: dealer.removeSession *)
  | _ => [ALocal nat nat]
  end.

Definition example_network_drawn : Prop := drawn_from nat nat ex_kind ex_script gen_funcs.

Lemma example_network_drawn_holds : example_network_drawn.
Proof.
  assert (He : existsb (fun e => gkind_eqb (fst e) KSessHandler && gkind_eqb (snd e) KDealer) (wait_edges gen_funcs) = true
            /\ existsb (fun e => gkind_eqb (fst e) KSessHandler && gkind_eqb (snd e) KRealm) (wait_edges gen_funcs) = true
            /\ existsb (fun e => gkind_eqb (fst e) KRealm && gkind_eqb (snd e) KDealer) (wait_edges gen_funcs) = true)
    by (vm_compute; repeat split; reflexivity).
  destruct He as (E1 & E2 & E3).
  assert (Hin : forall a b, existsb (fun e => gkind_eqb (fst e) a && gkind_eqb (snd e) b) (wait_edges gen_funcs) = true ->
                 In (a, b) (wait_edges gen_funcs)).
  { intros a b Hx. apply existsb_exists in Hx as ([x y] & Hxy & Hb). simpl in Hb.
    apply andb_true_iff in Hb as [Ha Hb]. apply gkind_eqb_eq in Ha, Hb. subst. exact Hxy. }
  intros p h q h' b Hc. unfold ex_script in Hc.
  destruct p as [|[|[|p]]]; simpl in Hc;
    repeat (destruct Hc as [Hc|Hc]; [try discriminate; inversion Hc; subst; apply Hin; simpl; assumption|]); try destruct Hc.
Qed.
