(** * Conc/StallProofs — outbox bound, non-interference (partial), its refutation, retry bound. *)

From Coq Require Import List Bool Arith NArith Lia.
From Nexus Require Import Conc.Stall.
Import ListNotations.

Section Proofs.

Variable cap : nat -> nat.

Notation state := Stall.state.
Notation step := (Stall.step cap).
Notation run := (Stall.run cap).
Notation try_send := (Stall.try_send cap).
Notation send_all := (Stall.send_all cap).
Notation has_room := (Stall.has_room cap).

Lemma updf_same {B} (f : nat -> B) a b : updf f a b a = b.
Proof. unfold updf. rewrite Nat.eqb_refl. reflexivity. Qed.

Lemma updf_other {B} (f : nat -> B) a b x : x <> a -> updf f a b x = f x.
Proof. intro H. unfold updf. destruct (Nat.eqb x a) eqn:E; auto. apply Nat.eqb_eq in E. contradiction. Qed.

(** ** outbox_bounded *)

Definition bounded (st : state) : Prop := forall s, length (outq st s) <= cap s.

Lemma try_send_bounded st from t : bounded st -> bounded (try_send st from t).
Proof.
  intros Hb s. unfold Stall.try_send. destruct (has_room st t) eqn:E; auto.
  simpl. destruct (Nat.eq_dec s t) as [->|Hn].
  - rewrite updf_same. rewrite app_length. simpl.
    unfold Stall.has_room in E. apply Nat.ltb_lt in E. lia.
  - rewrite updf_other; auto.
Qed.

Lemma send_all_bounded ts : forall st from, bounded st -> bounded (send_all st from ts).
Proof. induction ts; simpl; intros; auto. apply IHts. apply try_send_bounded; auto. Qed.

Lemma step_bounded st e : bounded st -> bounded (step st e).
Proof.
  intro Hb. destruct e; simpl.
  - destruct (blocked st s); [exact Hb|].
    destruct k; simpl.
    + intro x. apply (send_all_bounded targets (set_hb st s Free) s); auto.
    + destruct (meta_held (set_hb st s Free)); [exact Hb|].
      intro x. apply (send_all_bounded targets (set_hb st s Free) s); auto.
    + destruct (meta_held (note (set_hb st s Free) s Immediate)); [exact Hb|].
      destruct (has_room (note (set_hb st s Free) s Immediate) s) eqn:E; [|exact Hb].
      apply try_send_bounded. exact Hb.
    + destruct (has_room (note (set_hb st s Free) s Immediate) caller); [|exact Hb].
      apply try_send_bounded. exact Hb.
  - intro x. simpl. destruct (Nat.eq_dec x s) as [->|Hn].
    + rewrite updf_same. rewrite skipn_length. specialize (Hb s). lia.
    + rewrite updf_other; auto.
  - destruct (hb st s); auto. destruct (has_room st c); auto.
    intro x. apply (try_send_bounded st s c Hb).
  - destruct (hb st s); auto.
  - destruct (mb st); auto. destruct (has_room st n); auto.
    intro x. apply (try_send_bounded st meta_id n Hb).
  - exact Hb.
Qed.

Lemma fold_bounded h : forall st, bounded st -> bounded (fold_left step h st).
Proof. induction h; simpl; intros; auto. apply IHh. apply step_bounded; auto. Qed.

Theorem outbox_bounded : forall h s, length (outq (run h) s) <= cap s.
Proof.
  intros h s. apply (fold_bounded h (Stall.init)). intro x. simpl. lia.
Qed.

(** ** Non-interference, under the two hypotheses *)

Definition keep (a : nat) (x : nat * obs) : bool := negb (Nat.eqb (fst x) a).

Record agree (a : nat) (s1 s2 : state) : Prop := mkAgree {
  ag_out : forall s, s <> a -> outq s1 s = outq s2 s;
  ag_hb : forall s, hb s1 s = hb s2 s;
  ag_mb : mb s1 = mb s2;
  ag_log : filter (keep a) (log s1) = filter (keep a) (log s2)
}.

(** Nobody is held on [a]. *)
Definition clean (a : nat) (st : state) : Prop :=
  (forall s, hb st s <> HeldOn a) /\ mb st <> Some a.

Lemma agree_blocked a s1 s2 s : agree a s1 s2 -> blocked s1 s = blocked s2 s.
Proof. intros [Ho Hh Hm Hl]. unfold blocked, meta_held. rewrite Hh, Hm. reflexivity. Qed.

Lemma agree_room a s1 s2 t : agree a s1 s2 -> t <> a -> has_room s1 t = has_room s2 t.
Proof. intros [Ho Hh Hm Hl] Ht. unfold Stall.has_room. rewrite Ho; auto. Qed.

Lemma keep_self a o l : filter (keep a) ((a, o) :: l) = filter (keep a) l.
Proof. simpl. unfold keep at 1. simpl. rewrite Nat.eqb_refl. reflexivity. Qed.

Lemma keep_other a t o l : t <> a -> filter (keep a) ((t, o) :: l) = (t, o) :: filter (keep a) l.
Proof.
  intro H. simpl. unfold keep at 1. simpl.
  destruct (Nat.eqb t a) eqn:E; [apply Nat.eqb_eq in E; contradiction|reflexivity].
Qed.

Lemma try_send_agree a s1 s2 from t :
  agree a s1 s2 -> agree a (try_send s1 from t) (try_send s2 from t).
Proof.
  intros Ha. destruct (Nat.eq_dec t a) as [->|Hn].
  - (* a message for a: only a's outbox and a's own log entries can differ *)
    destruct Ha as [Ho Hh Hm Hl]. unfold Stall.try_send.
    assert (Hk : keep a (a, Got from) = false)
      by (unfold keep; simpl; rewrite Nat.eqb_refl; reflexivity).
    destruct (has_room s1 a), (has_room s2 a); constructor; simpl; auto;
      try (intros s Hs; rewrite ?updf_other by auto; auto);
      rewrite ?Hk; auto.
  - unfold Stall.try_send. rewrite (agree_room a s1 s2 t Ha Hn).
    destruct (has_room s2 t); auto.
    destruct Ha as [Ho Hh Hm Hl]. constructor.
    + intros s Hs. simpl. destruct (Nat.eq_dec s t) as [->|Hst].
      * rewrite !updf_same. rewrite Ho; auto.
      * rewrite !updf_other; auto.
    + exact Hh.
    + exact Hm.
    + cbn [log]. rewrite !keep_other by auto. f_equal; auto.
Qed.

Lemma send_all_agree a ts : forall s1 s2 from,
  agree a s1 s2 -> agree a (send_all s1 from ts) (send_all s2 from ts).
Proof. induction ts; simpl; intros; auto. apply IHts. apply try_send_agree; auto. Qed.

Lemma note_agree a s1 s2 s o : agree a s1 s2 -> agree a (note s1 s o) (note s2 s o).
Proof.
  intros [Ho Hh Hm Hl]. constructor; [exact Ho|exact Hh|exact Hm|].
  cbn [log note]. destruct (Nat.eq_dec s a) as [->|Hn].
  - rewrite !keep_self. auto.
  - rewrite !keep_other by auto. f_equal; auto.
Qed.

Lemma set_hb_agree a s1 s2 s x : agree a s1 s2 -> agree a (set_hb s1 s x) (set_hb s2 s x).
Proof.
  intros [Ho Hh Hm Hl]. constructor; simpl; auto.
  intro y. unfold updf. destruct (Nat.eqb y s); auto.
Qed.

Lemma set_mb_agree a s1 s2 m : agree a s1 s2 -> agree a (set_mb s1 m) (set_mb s2 m).
Proof. intros [Ho Hh Hm Hl]. constructor; simpl; auto. Qed.

Lemma try_send_clean a st from t : clean a st -> clean a (try_send st from t).
Proof. unfold clean, Stall.try_send. destruct (has_room st t); simpl; auto. Qed.

Lemma send_all_clean a ts : forall st from, clean a st -> clean a (send_all st from ts).
Proof. induction ts; simpl; intros; auto. apply IHts. apply try_send_clean; auto. Qed.

Definition harmless (a : nat) (e : event) : Prop :=
  match e with
  | Req s (KYield c) => c <> a
  | Req s KMetaCall => s <> a
  | _ => True
  end.

Lemma set_hb_clean a st s x : clean a st -> x <> HeldOn a -> clean a (set_hb st s x).
Proof.
  intros [H1 H2] Hx. split; simpl; auto.
  intro y. unfold updf. destruct (Nat.eqb y s); auto.
Qed.

Lemma note_clean a st s o : clean a st -> clean a (note st s o).
Proof. intros [H1 H2]. split; simpl; auto. Qed.

Lemma set_mb_clean a st m : clean a st -> m <> Some a -> clean a (set_mb st m).
Proof. intros [H1 H2] Hm. split; simpl; auto. Qed.

Lemma step_clean a st e : harmless a e -> clean a st -> clean a (step st e).
Proof.
  intros Hh Hc. destruct e; simpl in *.
  - destruct (blocked st s); [apply note_clean; auto|].
    assert (Hc' : clean a (set_hb st s Free)) by (apply set_hb_clean; auto; discriminate).
    destruct k; simpl.
    + apply note_clean. apply send_all_clean. auto.
    + destruct (meta_held (set_hb st s Free)).
      * apply note_clean. apply set_hb_clean; auto. discriminate.
      * apply note_clean. apply send_all_clean. auto.
    + destruct (meta_held (note (set_hb st s Free) s Immediate)); [apply note_clean; auto|].
      destruct (has_room (note (set_hb st s Free) s Immediate) s).
      * apply try_send_clean. apply note_clean. auto.
      * apply set_mb_clean; [apply note_clean; auto|]. intro E. inversion E. congruence.
    + destruct (has_room (note (set_hb st s Free) s Immediate) caller).
      * apply try_send_clean. apply note_clean. auto.
      * apply set_hb_clean; [apply note_clean; auto|]. intro E. inversion E. congruence.
  - destruct Hc. split; auto.
  - destruct (hb st s) eqn:E; auto.
    destruct (has_room st c); auto.
    apply set_hb_clean; [apply try_send_clean; auto|discriminate].
  - destruct (hb st s); auto. apply set_hb_clean; auto. discriminate.
  - destruct (mb st) eqn:E; auto.
    destruct (has_room st n); auto.
    apply set_mb_clean; [apply try_send_clean; auto|discriminate].
  - apply set_mb_clean; auto. discriminate.
Qed.

Lemma step_agree a s1 s2 e :
  harmless a e -> (forall n, e <> Drain a n) ->
  clean a s1 -> clean a s2 -> agree a s1 s2 -> agree a (step s1 e) (step s2 e).
Proof.
  intros Hh Hnd [Hc1 Hm1] [Hc2 Hm2] Ha. destruct e; simpl in *.
  - rewrite (agree_blocked a s1 s2 s Ha).
    destruct (blocked s2 s); [apply note_agree; auto|].
    assert (Ha' : agree a (set_hb s1 s Free) (set_hb s2 s Free)) by (apply set_hb_agree; auto).
    destruct k; simpl.
    + apply note_agree. apply send_all_agree. auto.
    + assert (meta_held (set_hb s1 s Free) = meta_held (set_hb s2 s Free)) as ->.
      { unfold meta_held. simpl. destruct Ha as [_ _ Hm _]. rewrite Hm. reflexivity. }
      destruct (meta_held (set_hb s2 s Free)).
      * apply note_agree. apply set_hb_agree. auto.
      * apply note_agree. apply send_all_agree. auto.
    + assert (Ha'' : agree a (note (set_hb s1 s Free) s Immediate) (note (set_hb s2 s Free) s Immediate))
        by (apply note_agree; auto).
      assert (meta_held (note (set_hb s1 s Free) s Immediate) = meta_held (note (set_hb s2 s Free) s Immediate)) as ->.
      { unfold meta_held. simpl. destruct Ha as [_ _ Hm _]. rewrite Hm. reflexivity. }
      destruct (meta_held (note (set_hb s2 s Free) s Immediate)); auto.
      rewrite (agree_room a _ _ s Ha'' Hh).
      destruct (has_room (note (set_hb s2 s Free) s Immediate) s).
      * apply try_send_agree. auto.
      * apply set_mb_agree. auto.
    + assert (Ha'' : agree a (note (set_hb s1 s Free) s Immediate) (note (set_hb s2 s Free) s Immediate))
        by (apply note_agree; auto).
      rewrite (agree_room a _ _ caller Ha'' Hh).
      destruct (has_room (note (set_hb s2 s Free) s Immediate) caller).
      * apply try_send_agree. auto.
      * apply set_hb_agree. auto.
  - assert (s <> a) by (intro; subst; eapply Hnd; eauto).
    destruct Ha as [Ho Hhb Hm Hl]. constructor; simpl; auto.
    intros x Hx. destruct (Nat.eq_dec x s) as [->|Hxs].
    + rewrite !updf_same. rewrite Ho; auto.
    + rewrite !updf_other; auto.
  - pose proof (ag_hb a s1 s2 Ha s) as E. rewrite <- E.
    destruct (hb s1 s) eqn:E1; auto.
    assert (c <> a) by (intro; subst; eapply Hc1; eauto).
    rewrite (agree_room a s1 s2 c Ha H).
    destruct (has_room s2 c); auto.
    apply set_hb_agree. apply try_send_agree. auto.
  - pose proof (ag_hb a s1 s2 Ha s) as E. rewrite <- E.
    destruct (hb s1 s); auto. apply set_hb_agree. auto.
  - pose proof (ag_mb a s1 s2 Ha) as E. rewrite <- E.
    destruct (mb s1) eqn:E1; auto.
    assert (n <> a) by (intro; subst; congruence).
    rewrite (agree_room a s1 s2 n Ha H).
    destruct (has_room s2 n); auto.
    apply set_mb_agree. apply try_send_agree. auto.
  - apply set_mb_agree. auto.
Qed.

Lemma drain_agree_left a s1 s2 n :
  agree a s1 s2 -> agree a (step s1 (Drain a n)) s2.
Proof.
  intros [Ho Hh Hm Hl]. constructor; simpl; auto.
  intros s Hs. rewrite updf_other; auto.
Qed.

Lemma drain_clean a st n : clean a st -> clean a (step st (Drain a n)).
Proof. intros [H1 H2]. split; simpl; auto. Qed.

Lemma runs_agree a h : forall s1 s2,
  (forall e, In e h -> harmless a e) ->
  clean a s1 -> clean a s2 -> agree a s1 s2 ->
  agree a (fold_left step h s1) (fold_left step (strip a h) s2).
Proof.
  induction h as [|e h IH]; intros s1 s2 Hh Hc1 Hc2 Ha; [exact Ha|].
  assert (Hh' : forall e', In e' h -> harmless a e') by (intros; apply Hh; right; auto).
  assert (He : harmless a e) by (apply Hh; left; auto).
  assert (Hgen : (forall n, e <> Drain a n) ->
     agree a (fold_left step (e :: h) s1) (fold_left step (e :: strip a h) s2)).
  { intro Hnd. cbn [fold_left].
    apply IH; [exact Hh'|apply step_clean; auto|apply step_clean; auto|apply step_agree; auto]. }
  destruct e as [s k|s n|s|s| |];
    try (apply Hgen; intros; discriminate).
  change (strip a (Drain s n :: h))
    with (if negb (Nat.eqb s a) then Drain s n :: strip a h else strip a h).
  destruct (Nat.eqb s a) eqn:E; cbn [negb].
  - apply Nat.eqb_eq in E. subst s. cbn [fold_left].
    apply IH; [exact Hh'|apply drain_clean; auto|exact Hc2|apply drain_agree_left; auto].
  - apply Nat.eqb_neq in E. apply Hgen. intros n' Heq. inversion Heq. congruence.
Qed.

Lemma filter_keep_eq a b l : b <> a ->
  filter (fun x : nat * obs => Nat.eqb (fst x) b) l =
  filter (fun x => Nat.eqb (fst x) b) (filter (keep a) l).
Proof.
  intro Hb. induction l as [|x l IH]; simpl; auto.
  unfold keep at 1. destruct (Nat.eqb (fst x) a) eqn:Ea; simpl.
  - apply Nat.eqb_eq in Ea.
    assert (Nat.eqb (fst x) b = false) as -> by (apply Nat.eqb_neq; congruence). exact IH.
  - destruct (Nat.eqb (fst x) b); simpl; rewrite IH; reflexivity.
Qed.

(** What every session B other than A observes is the same whether A reads or
    not — provided no result is owed to A: nobody yields to A (the documented
    yield-retry exception) and A calls no meta procedure (the known finding). *)
Theorem stall_non_interference_partial : forall h a b,
  b <> a -> no_yield_to a h -> no_metacall_by a h ->
  obs_of b (run h) = obs_of b (run (strip a h)).
Proof.
  intros h a b Hb Hy Hm.
  assert (Hh : forall e, In e h -> harmless a e).
  { intros e He. destruct e; simpl; auto. destruct k; auto.
    - intro; subst. apply Hm. exact He.
    - intro; subst. eapply Hy. exact He. }
  assert (Hc : clean a Stall.init) by (split; simpl; intros; discriminate).
  assert (Ha : agree a Stall.init Stall.init) by (constructor; auto).
  pose proof (runs_agree a h Stall.init Stall.init Hh Hc Hc Ha) as [_ _ _ Hl].
  unfold obs_of, Stall.run.
  rewrite (filter_keep_eq a b _ Hb). rewrite Hl. rewrite <- (filter_keep_eq a b _ Hb).
  reflexivity.
Qed.

End Proofs.

(** ** The full statement is refuted: a stalled caller of a meta procedure
    delays a bystander's REGISTER / join / leave. *)

Definition refute_cap (s : nat) : nat := 1.
Definition refute_history : list event :=
  [Req 1 KMetaCall;            (* A = 1 calls wamp.session.count: the RESULT fills its queue of 1 *)
   Drain 1 1;                  (* A reads it (only in the draining run) *)
   Req 1 KMetaCall;            (* A calls again: with a full queue the meta handler goes into the retry loop *)
   Req 2 (KNeedsMeta [])].     (* B = 2 registers a procedure *)

Theorem stall_non_interference_refuted :
  exists cap h a b,
    b <> a /\ no_yield_to a h /\
    obs_of b (Stall.run cap h) <> obs_of b (Stall.run cap (strip a h)).
Proof.
  exists refute_cap, refute_history, 1, 2. split; [discriminate|]. split.
  - intros s Hin. simpl in Hin.
    destruct Hin as [H|[H|[H|[H|[]]]]]; discriminate.
  - vm_compute. discriminate.
Qed.

(** In the refuting run B's request is [Deferred]; with A reading it is [Immediate]. *)
Example refute_observations :
  obs_of 2 (Stall.run refute_cap refute_history) = [Immediate] /\
  obs_of 2 (Stall.run refute_cap (strip 1 refute_history)) = [Deferred].
Proof. vm_compute. split; reflexivity. Qed.

(** The hypotheses of the partial theorem are satisfiable by a history in
    which A is stalled with a full queue while others work. *)
Definition sat_history : list event :=
  [Req 3 (KPlain [1; 2]); Req 3 (KPlain [1; 2]); Req 2 (KNeedsMeta [1]); Req 2 KMetaCall].

Example partial_hypotheses_satisfiable :
  no_yield_to 1 sat_history /\ no_metacall_by 1 sat_history /\
  length (outq (Stall.run refute_cap sat_history) 1) = 1 /\
  obs_of 2 (Stall.run refute_cap sat_history) = [Got 3; Immediate; Immediate].
Proof.
  split; [|split; [|split]].
  - intros s Hin. destruct Hin as [H|[H|[H|[H|[]]]]]; discriminate.
  - intro Hin. destruct Hin as [H|[H|[H|[H|[]]]]]; discriminate.
  - vm_compute. reflexivity.
  - vm_compute. reflexivity.
Qed.

(** ** The retry window is bounded *)

Lemma retry_elapsed_bound : forall fuel d D e d0,
  (e + d0 = d)%N -> (e < D)%N ->
  (retry_elapsed fuel d D e < 2 * D + d0)%N.
Proof.
  induction fuel; intros d D e d0 Hinv Hlt; cbn [retry_elapsed].
  - lia.
  - destruct (N.leb D (e + d)) eqn:E.
    + apply N.leb_le in E. lia.
    + apply N.leb_gt in E. apply IHfuel; lia.
Qed.

(** A callee yielding to a blocked caller is held for less than twice the
    deadline plus the first delay. *)
Theorem yield_retry_bounded : forall d D,
  (0 < D)%N -> (retry_total d D < 2 * D + d)%N.
Proof.
  intros d D HD. unfold retry_total. apply retry_elapsed_bound; lia.
Qed.
