(** * Histories of the whole model, C13 part 2b: an invariant of the dealer
    along every history — the timer of a pending invocation that is not
    marked cancelled is armed ([nd]: no dangling timer reference).  It is what
    makes timeouts FIRE: together with "records and timers only disappear"
    ([evo]) it shows that the timer armed by a CALL stays armed, with its
    deadline, as long as the record stays as it is. *)
From Nexus Require Import Router.Realm Router.AssocLemmas Router.RealmLib Router.RealmProofs
     Router.RealmMetaProofs Router.RealmLeave.
From Nexus Require Import Router.DealerLib Router.DealerProofs Router.DealerReg Router.DealerCall Router.DealerWf
     Router.DealerWfCalls Router.DealerWfRegs Router.DealerRemove Router.DealerReply Router.DealerTimers
     Router.DealerOwned.
From Nexus Require Import Router.RealmWf Router.RealmStep Router.RealmC05 Router.RealmOutputs.
From Nexus Require Import Router.RealmTraceLib Router.RealmTrace Router.RealmTraceC05 Router.RealmTraceInv
     Router.RealmTraceC03.
From Nexus Require Import Router.RealmTraceC13 Router.RealmTraceC13Step.
From Coq Require Import Lia ZifyN ZifyNat ZifyBool.

Definition nd (d : dealer) : Prop :=
  forall k inv t, cget (d_invs d) k = Some inv -> inv_canceled inv = false -> inv_timer inv = Some t ->
                  nget (d_timers d) t <> None.

(** two records of a consistent call table do not share an armed timer *)
Lemma timer_owner_unique : forall d k1 i1 k2 i2 t v, calls_core d ->
    cget (d_invs d) k1 = Some i1 -> cget (d_invs d) k2 = Some i2 ->
    inv_timer i1 = Some t -> inv_timer i2 = Some t -> nget (d_timers d) t = Some v -> k1 = k2.
Proof.
  intros d k1 i1 k2 i2 t [dl c] W H1 H2 T1 T2 Ht.
  pose proof (cw_timer_inj _ W _ _ _ _ _ H1 T1 Ht) as C1. pose proof (cw_timer_inj _ W _ _ _ _ _ H2 T2 Ht) as C2.
  destruct (cw_inv _ W _ _ H1) as (B1 & _). destruct (cw_inv _ W _ _ H2) as (B2 & _). congruence.
Qed.

Lemma nd_same : forall d d', d_invs d' = d_invs d -> d_timers d' = d_timers d -> nd d -> nd d'.
Proof. intros d d' E1 E2 N k inv t. rewrite E1, E2. apply N. Qed.

Lemma nd_drop : forall d cid k, nd d -> nd (drop_call d cid k).
Proof.
  intros d cid k N k1 inv t. rewrite dc_invs, cget_cdel. destruct (pair_eqb k1 k); [discriminate|].
  change (d_timers (drop_call d cid k)) with (d_timers d). apply N.
Qed.

(** one record is altered or erased, and only its timer is stopped *)
Lemma nd_touch : forall d d' k0 inv0, calls_core d -> nd d -> cget (d_invs d) k0 = Some inv0 ->
    (forall k', k' <> k0 -> cget (d_invs d') k' = cget (d_invs d) k') ->
    (forall inv0' t, cget (d_invs d') k0 = Some inv0' -> inv_canceled inv0' = false -> inv_timer inv0' = Some t ->
                     nget (d_timers d') t <> None) ->
    (forall t, nget (d_timers d) t <> None -> inv_timer inv0 <> Some t -> nget (d_timers d') t <> None) ->
    nd d'.
Proof.
  intros d d' k0 inv0 W N H0 Hoth Hk0 Ht k inv t Hi Hc Hti.
  destruct (pair_eqb_spec k k0) as [->|Hn]; [eapply Hk0; eauto|].
  rewrite Hoth in Hi by exact Hn. pose proof (N _ _ _ Hi Hc Hti) as Hp. apply Ht; [exact Hp|].
  intros E. destruct (nget (d_timers d) t) as [v|] eqn:Ev; [|congruence].
  apply Hn. eapply (timer_owner_unique d k inv k0 inv0 t v); eauto.
Qed.

(** a record is added, no timer is stopped *)
Lemma nd_add : forall d d' k0, nd d ->
    (forall k', k' <> k0 -> cget (d_invs d') k' = cget (d_invs d) k') ->
    (forall inv0' t, cget (d_invs d') k0 = Some inv0' -> inv_canceled inv0' = false -> inv_timer inv0' = Some t ->
                     nget (d_timers d') t <> None) ->
    (forall t, nget (d_timers d) t <> None -> nget (d_timers d') t <> None) ->
    nd d'.
Proof.
  intros d d' k0 N Hoth Hk0 Ht k inv t Hi Hc Hti.
  destruct (pair_eqb_spec k k0) as [->|Hn]; [eapply Hk0; eauto|].
  rewrite Hoth in Hi by exact Hn. apply Ht. eapply N; eauto.
Qed.

Lemma ct_keeps : forall d t0 t, nget (d_timers d) t <> None -> t0 <> Some t -> nget (d_timers (cancel_timer d t0)) t <> None.
Proof.
  intros d t0 t H Hn. rewrite ct_timers. destruct t0 as [t1|]; [|exact H].
  destruct (N.eqb_spec t t1) as [->|]; [congruence|exact H].
Qed.

(** ** CANCEL *)
Lemma cancel_state_nd : forall d k inv, calls_core d -> nd d -> cget (d_invs d) k = Some inv -> nd (cancel_state d k inv).
Proof.
  intros d k inv W N Hi. apply (nd_touch d _ k inv W N Hi).
  - intros k' Hn. now rewrite cs_invs, cget_cset_other.
  - intros inv0' t. rewrite cs_invs, cget_cset_same. intros E; inversion E; subst inv0'. discriminate.
  - intros t H Hn. unfold cancel_state. dproj. now apply ct_keeps.
Qed.

Lemma sync_cancel_nd : forall lk d caller req mode reason ea, calls_core d -> nd d ->
    nd (fst (sync_cancel lk d caller req mode reason ea)).
Proof.
  intros lk d caller req mode reason ea W N.
  destruct (sync_cancel_cases lk d caller req mode reason ea) as [E|(k & inv & x & Hp & Hc)]; [rewrite E; exact N|].
  rewrite (sync_cancel_live _ _ _ _ _ _ _ _ _ _ Hp Hc). pose proof Hp as (_ & _ & Hi).
  destruct (negb _ && _ && _); cbn [fst]; [now apply cancel_state_nd|apply nd_drop; now apply cancel_state_nd].
Qed.

Lemma cancel_nd : forall lk d caller req opts, calls_core d -> nd d -> nd (fst (cancel lk d caller req opts)).
Proof.
  intros. unfold cancel. destruct (_ || _ || _); [now apply sync_cancel_nd|].
  destruct (String.eqb _ ""); [now apply sync_cancel_nd|assumption].
Qed.

(** ** YIELD / ERROR *)
Lemma sync_yield_nd : forall lk d y i opts a kw, calls_core d -> nd d -> nd (fst (sync_yield lk d y i opts a kw)).
Proof.
  intros lk d y i opts a kw W N.
  destruct (cget (d_invs d) (y, i)) as [inv|] eqn:Hi; [|rewrite sync_yield_unknown by exact Hi; exact N].
  rewrite (sync_yield_owner _ _ _ _ _ _ _ _ Hi). cbn [fst]. unfold yield_result_state.
  destruct (opt_bool opts "progress"); [exact N|]. apply nd_drop.
  apply (nd_touch d _ (y, i) inv W N Hi).
  - intros k' Hn. now rewrite ys_invs, cget_cset_other.
  - intros inv0' t. rewrite ys_invs, cget_cset_same. intros E; inversion E; subst inv0'. discriminate.
  - intros t H Hn. unfold yield_state. dproj. now apply ct_keeps.
Qed.

Lemma sync_error_nd : forall d y i det err a kw, calls_core d -> nd d -> nd (fst (sync_error d y i det err a kw)).
Proof.
  intros d y i det err a kw W N.
  destruct (cget (d_invs d) (y, i)) as [inv|] eqn:Hi; [|rewrite sync_error_unknown by exact Hi; exact N].
  rewrite (sync_error_owner _ _ _ _ _ _ _ _ Hi).
  assert (E : nd (error_state d (y, i) inv)).
  { apply (nd_touch d _ (y, i) inv W N Hi).
    - intros k' Hn. now rewrite es_invs, cget_cdel_other.
    - intros inv0' t. rewrite es_invs, cget_cdel_same. discriminate.
    - intros t H Hn. unfold error_state. dproj. now apply ct_keeps. }
  destruct (cget (d_calls d) (inv_call inv)); cbn [fst]; [|exact E].
  eapply nd_same; [| |exact E]; reflexivity.
Qed.

(** ** A session leaves *)
Lemma sd_nd : forall d k inv, calls_core d -> nd d -> cget (d_invs d) k = Some inv -> nd (served_drop d k inv).
Proof.
  intros d k inv W N Hi. apply (nd_touch d _ k inv W N Hi).
  - intros k' Hn. rewrite sd_invs_get. destruct (pair_eqb_spec k' k); [contradiction|reflexivity].
  - intros inv0' t. rewrite sd_invs_get, pair_eqb_refl. discriminate.
  - intros t H Hn. unfold served_drop. change (d_timers (drop_call ?x ?c ?kk)) with (d_timers x).
    unfold cancel_state, served_d2. dproj. cbn [served_inv inv_timer inv_set_timer]. cbn [cancel_timer].
    now apply ct_keeps.
Qed.

Lemma cs_fold_nd : forall lk sid l d o, calls_core d -> nd d -> nd (fst (fold_left (cancel_served lk sid) l (d, o))).
Proof.
  intros lk sid. induction l as [|[k e] l IH]; intros d o W N; cbn [fold_left]; [exact N|].
  destruct (cancel_served_cases lk sid d o k e W) as [[E _]|(inv & Hi & Hs & Hp & E)]; rewrite E.
  - now apply IH.
  - apply IH; [eapply sd_core; eauto|now apply sd_nd].
Qed.

Lemma own_nd : forall d c k inv, calls_core d -> nd d -> cget (d_invs d) k = Some inv ->
    nd (drop_call (cancel_timer d (inv_timer inv)) c k).
Proof.
  intros d c k inv W N Hi. apply (nd_touch d _ k inv W N Hi).
  - intros k' Hn. now rewrite dc_invs, ct_invs, cget_cdel_other.
  - intros inv0' t. rewrite dc_invs, cget_cdel_same. discriminate.
  - intros t H Hn. change (d_timers (drop_call ?x ?cc ?kk)) with (d_timers x). now apply ct_keeps.
Qed.

Lemma own_fold_nd : forall sid l d, calls_core d -> nd d -> nd (fold_left (drop_own_call sid) l d).
Proof.
  intros sid. induction l as [|[c x0] l IH]; intros d W N; cbn [fold_left]; [exact N|].
  destruct (drop_own_cases sid d c x0 W) as [[E _]|(_ & k & inv & Hb & Hi & E)]; rewrite E.
  - now apply IH.
  - destruct (own_drop_props d c k inv W Hb Hi) as (W1 & _ & _). apply IH; [exact W1|now apply own_nd].
Qed.

Lemma dealer_remove_session_nd : forall lookup lk d sid, dealer_wf lookup d -> nd d ->
    nd (fst (fst (dealer_remove_session lk d sid))).
Proof.
  intros lookup lk d sid WF N. rewrite (drs_fst lk d sid).
  destruct (drs_d2 lookup lookup d sid WF (fun _ _ => eq_refl)) as (_ & _ & _ & _ & (E1 & E2 & E3 & E4 & E5) & _).
  destruct (drs_phase1 lookup lookup lk d sid WF (fun _ _ => eq_refl)) as (W3 & _ & _).
  pose proof (drs_core2 lookup lookup d sid WF (fun _ _ => eq_refl)) as W2.
  apply own_fold_nd; [exact W3|]. apply cs_fold_nd; [exact W2|]. eapply nd_same; [exact E2|exact E4|exact N].
Qed.

(** ** Timers expire *)
Lemma fire_step_nd : forall lk d o tid dl cid, calls_core d -> nd d ->
    (forall v', nget (d_timers d) tid = Some v' -> v' = (dl, cid)) ->
    nd (fst (fire_step lk (d, o) (tid, (dl, cid)))).
Proof.
  intros lk d o tid dl cid W N Cons.
  destruct (fire_step_cases lk d o tid dl cid) as [[_ E]|[(Ha & E & Hno)|(Ha & k & inv & x & Hp & Hc & E)]];
    rewrite E; cbn [fst]; [exact N| |].
  - (* the call is marked cancelled (or gone): only the timer goes *)
    intros k inv t. rewrite ct_invs. intros Hi Hcan Hti. pose proof (N _ _ _ Hi Hcan Hti) as Hpres.
    apply ct_keeps; [exact Hpres|]. intros Et. inversion Et; subst t.
    destruct (nget (d_timers d) tid) as [v|] eqn:Ev; [|congruence]. rewrite (Cons v eq_refl) in Ev.
    pose proof (cw_timer_inj _ W _ _ _ _ _ Hi Hti Ev) as Ec.
    pose proof (record_pending d k inv W Hi) as Hp. rewrite Ec in Hp.
    apply (pending_ct_bwd d (Some tid)) in Hp. specialize (Hno _ _ _ Hp). congruence.
  - apply pending_ct_fwd in Hp. pose proof Hp as (_ & Hb & Hi).
    assert (Hown : nget (d_timers d) tid <> None -> inv_timer inv = Some tid).
    { intros H. destruct (nget (d_timers d) tid) as [v|] eqn:Ev; [|congruence]. rewrite (Cons v eq_refl) in Ev.
      destruct (cw_timer _ W _ _ _ Ev) as (_ & k2 & inv2 & Hb2 & Hi2 & Ht2). congruence. }
    apply nd_drop. apply (nd_touch d _ k inv W N Hi).
    + intros k' Hn. now rewrite cs_invs, ct_invs, cget_cset_other.
    + intros inv0' t. rewrite cs_invs, cget_cset_same. intros X; inversion X; subst inv0'. discriminate.
    + intros t H Hn. unfold cancel_state. dproj. apply ct_keeps; [|exact Hn].
      apply ct_keeps; [exact H|]. intros Et. inversion Et; subst t. apply Hn. now apply Hown.
Qed.

Lemma fire_fold_nd : forall lk (l : list (N * (N * callid))) d o, calls_core d -> nd d ->
    (forall t v v', In (t, v) l -> nget (d_timers d) t = Some v' -> v' = v) ->
    nd (fst (fold_left (fire_step lk) l (d, o))).
Proof.
  intros lk. induction l as [|[tid [dl cid]] l IH]; intros d o W N Cons; cbn [fold_left]; [exact N|].
  pose proof (fire_step_nd lk d o tid dl cid W N (fun v' H => Cons tid (dl, cid) v' (or_introl eq_refl) H)) as N1.
  destruct (fire_step_mono lk d o (tid, (dl, cid)) W) as (W1 & _ & _ & T1).
  destruct (fire_step lk (d, o) (tid, (dl, cid))) as [d1 o1]. cbn [fst] in *.
  apply IH; [exact W1|exact N1|]. intros t v v' Hin Hn. eapply Cons; [right; exact Hin|apply T1; exact Hn].
Qed.

Lemma fire_timers_nd : forall lk now d, calls_core d -> nd d -> nd (fst (fire_timers lk now d)).
Proof.
  intros lk now d W N. rewrite fire_timers_fold. apply fire_fold_nd; [exact W|exact N|].
  intros t v v' Hin Hn. apply (proj1 (In_sort_timers _ _)) in Hin. apply (proj1 (filter_In _ _ _)) in Hin. destruct Hin as [Hin _].
  apply (In_aget N.eqb N.eqb_spec) in Hin; [|apply (cw_timerkeys _ W)]. unfold nget in Hn. congruence.
Qed.

(** ** CALL *)
Lemma nps_nd : forall d cid, calls_core d -> nd d -> nd (no_proc_state d cid).
Proof.
  intros d cid W N. unfold no_proc_state. destruct (cget (d_bycall d) cid) as [k|] eqn:Hb; [|exact N].
  destruct (cw_bycall _ W _ _ Hb) as (inv & Hi & _). rewrite Hi. now apply own_nd.
Qed.

Lemma call_nd : forall cfg lk now d caller q opts proc a kw orc,
    dealer_wf lk d -> lookup_ok lk -> nowrap lk -> nd d ->
    match call cfg lk now d caller q opts proc a kw orc with
    | CallRefused d' _ => nd d'
    | CallAbort _ => True
    | CallInvoked d' _ _ => nd d'
    end.
Proof.
  intros cfg lk now d caller q opts proc a kw orc WF LOK NW N. pose proof (wf_calls _ _ WF) as W.
  pose proof (call_cases cfg lk now d caller q opts proc a kw orc) as C.
  inversion C as [Hm E|r Hm Hc E|r Hm Hc Ha E|r ikey Hm Hc Ha Hb Hi E|r ikey inv Hm Hc Ha Hb Hi Hl E
                  |r ikey inv callee Hm Hc Ha Hb Hi Hl E|r Hm Hc Ha Hb Hs E|r cid0 next Hm Hc Ha Hb Hs Hl E
                  |r cid0 next callee Hm Hc Ha Hb Hs Hl Hf E
                  |r cid0 next callee Hm Hc Ha Hb Hs Hl Hf Hpa E|r cid0 next callee Hm Hc Ha Hb Hs Hl Hf Hpa Hpr E
                  |r cid0 next callee Hm Hc Ha Hb Hs Hl Hf Hpa Hpr Hd E
                  |r cid0 next callee Hm Hc Ha Hb Hs Hl Hf Hpa Hpr Hd E];
    try exact I; try exact N; try (now apply nps_nd); try (eapply nd_same; [| |exact N]; reflexivity).
  - (* further chunk *)
    set (lt := local_timer (opt_int64 (inv_opts inv) "timeout") callee (inv_callee inv) r).
    apply (nd_touch d _ ikey inv W N Hi).
    + intros k' Hn. now rewrite chs_invs, cget_cset_other.
    + intros inv0' t. rewrite chs_invs, cget_cset_same, chs_timers. fold lt. destruct lt.
      * intros X; inversion X; subst inv0'. cbn [inv_timer inv_set_timer]. intros _ Et; inversion Et; subst t.
        rewrite nget_nset, N.eqb_refl. discriminate.
      * intros X; inversion X; subst inv0'. cbn [inv_canceled inv_timer inv_set_inprogress]. intros Hcan Hti.
        eapply N; eauto.
    + intros t H Hn. rewrite chs_timers. fold lt. destruct lt; [|exact H].
      rewrite nget_nset. destruct (N.eqb t (d_timergen d + 1)); [discriminate|]. now apply ct_keeps.
  - (* first chunk *)
    set (lt := local_timer (opt_int64 opts "timeout") callee cid0 r).
    apply (nd_add d _ (cid0, idgen_next (s_invgen callee)) N).
    + intros k' Hn. now rewrite cfs_invs, cget_cset_other.
    + intros inv0' t. rewrite cfs_invs, cget_cset_same, cfs_timers. unfold first_inv. fold lt.
      intros X; inversion X; subst inv0'. cbn [inv_timer]. destruct lt; [|discriminate].
      intros _ Et; inversion Et; subst t. rewrite nget_nset, N.eqb_refl. discriminate.
    + intros t H. rewrite cfs_timers. fold lt. destruct lt; [|exact H].
      rewrite nget_nset. destruct (N.eqb t (d_timergen d + 1)); [discriminate|exact H].
Qed.

(** ** REGISTER / UNREGISTER *)
Lemma register_nd : forall cfg d callee req opts proc, nd d -> nd (fst (fst (register cfg d callee req opts proc))).
Proof.
  intros cfg d callee req opts proc N. unfold register.
  destruct (negb (valid_uri _ _ _)); [exact N|].
  destruct (str_prefix_wamp proc && _); [exact N|].
  destruct (negb (c_disclose cfg) && _ && _); [exact N|].
  destruct (match sget _ _ with Some id => nget (d_regs d) id | None => None end) as [rg|].
  - destruct (negb (shared_policy _) || _ || _); cbn [fst]; [exact N|]. eapply nd_same; [| |exact N]; reflexivity.
  - cbn [fst]. eapply nd_same; [| |exact N]; destruct (mkind_of (opt_string opts "match")); reflexivity.
Qed.

Lemma unregister_nd : forall d sid req regid, nd d -> nd (fst (fst (unregister d sid req regid))).
Proof.
  intros d sid req regid N. unfold unregister.
  destruct (del_callee_reg_13 (d_set_callee_regs d (callee_del_reg (d_callee_regs d) sid regid)) sid regid) as [E1 E2].
  destruct (del_callee_reg _ sid regid) as [d1 [b|]]; cbn [fst] in *.
  - eapply nd_same; [exact E1|exact E2|exact N].
  - eapply nd_same; [| |exact N]; reflexivity.
Qed.

(** ** The realm *)
Lemma leave_nd : forall r sid, realm_wf r -> nd (r_dealer r) -> nd (r_dealer (fst (leave r sid))).
Proof.
  intros r sid W N.
  destruct (find_session (r_clients r) sid) as [s|] eqn:F; [|rewrite (leave_absent r sid F); exact N].
  rewrite (leave_event_order r sid s F). unfold leave_core.
  set (r2 := r_set_testaments (r_set_clients r (del_session (r_clients r) sid))
                              (ndel (r_testaments (r_set_clients r (del_session (r_clients r) sid))) sid)).
  change (r_dealer r2) with (r_dealer r).
  pose proof (dealer_remove_session_nd (lookup r) (lookup r2) (r_dealer r) sid (rw_dealer r W) N) as D.
  destruct (dealer_remove_session (lookup r2) (r_dealer r) sid) as [[d o1] mps]. cbn [fst snd] in *.
  destruct (broker_remove_session _ _ sid) as [[b pg] o2].
  pose proof (meta_publish_all_dealer (mps ++ testament_pubs r sid ++ [on_leave_pub s]) (r_set_broker (r_set_dealer r2 d) b pg)) as E.
  destruct (meta_publish_all _ _) as [r5 o3]. cbn [fst snd] in *. cbn [r_dealer r_set_broker r_set_dealer] in E.
  rewrite E. exact D.
Qed.

Lemma kill_sessions_nd : forall sids r g k, realm_wf r -> ids_below k r -> nd (r_dealer r) ->
    nd (r_dealer (fst (kill_sessions r sids g))).
Proof.
  induction sids as [|sid sids IH]; intros r g k W I N; [exact N|].
  rewrite kill_sessions_cons. pose proof (leave_nd r sid W N) as L.
  destruct (leave_wf r sid k W I) as (W1 & I1 & _).
  destruct (leave r sid) as [r1 o1]. cbn [fst snd] in *.
  specialize (IH r1 g k W1 I1 L). destruct (kill_sessions r1 sids g) as [r2 o2]. exact IH.
Qed.

Lemma run_meta_nd : forall r b rid det a kw oracle k,
    realm_wf r -> ids_below k r -> (forall c, caller_opt det = Some c -> client r c) -> nd (r_dealer r) ->
    nd (r_dealer (fst (run_meta_invocation r [(meta_id, RInvocation b rid det a kw)] oracle))).
Proof.
  intros r b rid det a kw oracle k W I Hc N. unfold run_meta_invocation. rewrite N.eqb_refl. cbn [negb].
  destruct (nget (r_metaprocs r) rid) as [proc|].
  - destruct (meta_call_wf r proc det a kw oracle k W I Hc) as [W1 I1].
    pose proof (meta_call_dealer r proc det a kw oracle) as Ed.
    destruct (meta_call r proc det a kw oracle) as [[r1 resp] kills]. unfold realm_of in *. cbn [fst snd] in *.
    pose proof (wf_calls _ _ (rw_dealer r1 W1)) as Wc1. rewrite <- Ed in N.
    assert (G : forall d o1, (d, o1) = match resp with
                                        | MYield a0 k0 => sync_yield (lookup r1) (r_dealer r1) meta_id b [] a0 k0
                                        | MError e => sync_error (r_dealer r1) meta_id b [] e [] []
                                        end ->
                 nd d /\ realm_wf (r_set_dealer r1 d) /\ ids_below k (r_set_dealer r1 d)).
    { intros d o1 E. destruct resp as [a0 k0|e].
      - pose proof (sync_yield_nd (lookup r1) (r_dealer r1) meta_id b [] a0 k0 Wc1 N) as Y.
        pose proof (sync_yield_realm_wf r1 (lookup r1) meta_id b [] a0 k0 k W1 I1) as Yw.
        rewrite <- E in Y, Yw. cbn [fst] in *. auto.
      - pose proof (sync_error_nd (r_dealer r1) meta_id b [] e [] [] Wc1 N) as Y.
        pose proof (sync_error_realm_wf r1 meta_id b [] e [] [] k W1 I1) as Yw.
        rewrite <- E in Y, Yw. cbn [fst] in *. auto. }
    destruct (match resp with MYield a0 k0 => _ | MError e => _ end) as [d o1].
    destruct (G d o1 eq_refl) as (A1 & W2 & I2).
    destruct kills as [[sids g]|]; [|exact A1].
    pose proof (kill_sessions_nd sids (r_set_dealer r1 d) g k W2 I2 A1) as K.
    destruct (kill_sessions (r_set_dealer r1 d) sids g) as [r3 o2]. exact K.
  - pose proof (sync_error_nd (r_dealer r) meta_id b [] e_no_such_procedure [] [] (wf_calls _ _ (rw_dealer r W)) N) as Y.
    destruct (sync_error _ _ _ _ _ _ _) as [d o1]. exact Y.
Qed.

Theorem handle_nd : forall r s m oracle k,
    realm_wf r -> ids_below k r -> k < max_idN -> find_session (r_clients r) (s_id s) = Some s ->
    nd (r_dealer r) -> nd (r_dealer (fst (handle r s m oracle))).
Proof.
  intros r s m oracle k W I Hk Hs N.
  pose proof (rw_dealer r W) as Wd. pose proof (wf_calls _ _ Wd) as Wc.
  destruct m; cbn [handle].
  - destruct (publish _ _ _ _ _ _ _ _ _ _ _) as [[b pg] o].
    destruct (publish_aborts _ _ _ _); [|exact N].
    pose proof (leave_nd r (s_id s) W N) as L. destruct (leave r (s_id s)). exact L.
  - destruct (subscribe _ _ _ _ _ _ _) as [[b pg] o]. exact N.
  - destruct (unsubscribe _ _ _ _ _) as [[b pg] o]. exact N.
  - pose proof (register_nd (r_cfg r) (r_dealer r) s req opts proc N) as R.
    destruct (register _ _ _ _ _ _) as [[d o] mps]. cbn [fst] in R.
    pose proof (meta_publish_all_dealer mps (r_set_dealer r d)) as E.
    destruct (meta_publish_all _ mps) as [r1 o1]. cbn [fst] in *. rewrite E. exact R.
  - pose proof (unregister_nd (r_dealer r) (s_id s) req reg N) as R.
    destruct (unregister _ _ _ _) as [[d o] mps]. cbn [fst] in R.
    pose proof (meta_publish_all_dealer mps (r_set_dealer r d)) as E.
    destruct (meta_publish_all _ mps) as [r1 o1]. cbn [fst] in *. rewrite E. exact R.
  - pose proof (lookup_ok_realm r (rw_meta_id r W)) as LOK.
    pose proof (nowrap_below k r I Hk) as NW.
    pose proof (call_nd (r_cfg r) (lookup r) (r_now r) (r_dealer r) s req opts proc args kw oracle Wd LOK NW N) as CN.
    pose proof (call_13 (r_cfg r) (lookup r) (r_now r) (r_dealer r) s req opts proc args kw oracle Wd LOK NW) as CF.
    destruct (call _ _ _ _ _ _ _ _ _ _ _) as [d o|o|d1 callee' o] eqn:Ecall.
    + exact CN.
    + destruct (call_abort_realm_wf r s req opts proc oracle k W I) as (Wa & _ & _). cbv zeta in Wa.
      pose proof (call_abort_dealer_tables (lookup r) (r_dealer r) s req opts proc oracle) as (_ & Ei & _ & Et).
      match goal with |- context [leave ?R (s_id s)] =>
        pose proof (leave_nd R (s_id s) Wa (nd_same _ _ Ei Et N)) as L; destruct (leave R (s_id s)) end. exact L.
    + destruct CF as (y & i & rid & det & Eo & Ey & _).
      destruct (call_invoked_wf r s req opts proc args kw oracle k d1 callee' o W I Hk Hs Ecall)
        as (W2 & J2 & _ & _ & Hcl).
      set (r1 := update_session (r_set_dealer r d1) callee') in *.
      assert (Ed : r_dealer r1 = d1).
      { unfold r1. destruct (update_session_frame (r_set_dealer r d1) callee') as (_ & _ & _ & -> & _). reflexivity. }
      rewrite Eo. destruct (N.eq_dec y meta_id) as [Hm|Hm].
      * rewrite Hm in *. apply (run_meta_nd r1 i rid det args kw oracle (k + 1) W2 J2 (Hcl _ _ _ _ _ _ Eo)).
        rewrite Ed. exact CN.
      * rewrite (run_meta_invocation_client r1 y i rid det args kw oracle Hm). cbn [fst]. rewrite Ed. exact CN.
  - pose proof (cancel_nd (lookup r) (r_dealer r) (s_id s) req opts Wc N) as C.
    destruct (cancel _ _ _ _ _) as [d o]. exact C.
  - pose proof (sync_yield_nd (lookup r) (r_dealer r) (s_id s) req opts args kw Wc N) as Y.
    pose proof (sync_yield_realm_wf r (lookup r) (s_id s) req opts args kw k W I) as Yw.
    destruct (sync_yield _ _ _ _ _ _ _) as [d o]. cbn [fst] in *.
    destruct (yield_aborts _ _ _ _ _); [|exact Y].
    destruct Yw as [Yw1 _]. pose proof (leave_nd (r_set_dealer r d) (s_id s) Yw1 Y) as L.
    destruct (leave (r_set_dealer r d) (s_id s)). exact L.
  - destruct (negb (ty =? c_INVOCATION)).
    + pose proof (leave_nd r (s_id s) W N) as L. destruct (leave r (s_id s)). exact L.
    + pose proof (sync_error_nd (r_dealer r) (s_id s) req details err args kw Wc N) as Y.
      destruct (sync_error _ _ _ _ _ _ _) as [d o]. exact Y.
  - pose proof (leave_nd r (s_id s) W N) as L. destruct (leave r (s_id s)). exact L.
  - pose proof (leave_nd r (s_id s) W N) as L. destruct (leave r (s_id s)). exact L.
Qed.

Theorem step_nd : forall r o k,
    realm_wf r -> ids_below k r -> k < max_idN -> op_ok o -> gate_transparent r o ->
    nd (r_dealer r) -> nd (r_dealer (fst (step r o))).
Proof.
  intros r o k W I Hk Ho G N.
  destruct o as [sid lc h|sid m oracle|sid|ms].
  - cbn [step]. unfold join. destruct (negb (has_role h) || is_some (lookup r sid)); [exact N|].
    match goal with |- context [meta_publish ?R ?M] => rewrite (meta_publish_dealer M R) end. exact N.
  - rewrite step_msg_eq. destruct (find_session (r_clients r) sid) as [s|] eqn:F; [|exact N].
    assert (Hs : find_session (r_clients r) (s_id s) = Some s) by now rewrite (find_session_id _ _ _ F).
    rewrite (G sid m oracle s eq_refl F). apply (handle_nd r s m oracle k W I Hk Hs N).
  - cbn [step]. now apply leave_nd.
  - cbn [step]. set (r1 := r_set_now r (r_now r + ms)).
    pose proof (fire_timers_nd (lookup r1) (r_now r1) (r_dealer r1) (wf_calls _ _ (rw_dealer r W)) N) as F.
    destruct (fire_timers _ _ _) as [d out]. exact F.
Qed.

Lemma nd_init : forall cfg, k0 cfg <= max_idN -> nd (r_dealer (init_realm cfg)).
Proof.
  intros cfg Hk k inv t H. rewrite (RealmTraceC03.init_no_invs cfg k Hk) in H. discriminate H.
Qed.

Theorem nd_run : forall ops r k,
    realm_wf r -> ids_below k r -> Forall op_ok ops -> k + N.of_nat (List.length ops) <= max_idN ->
    along gate_transparent r ops -> nd (r_dealer r) -> nd (r_dealer (fst (run r ops))).
Proof.
  intros ops; induction ops as [|o ops IH] using rev_ind; intros r k W I Ho Hk Hg H0.
  - exact H0.
  - rewrite run_app1. rewrite app_length in Hk. cbn [List.length] in Hk.
    apply Forall_app in Ho. destruct Ho as [Ho1 Ho2]. inversion Ho2; subst.
    apply along_app in Hg. destruct Hg as [Hg1 Hg2]. cbn [along] in Hg2. destruct Hg2 as [Hg2 _].
    destruct (run_wf ops r k W I Ho1) as [W1 I1]; [lia|].
    apply (step_nd _ _ (k + N.of_nat (List.length ops)) W1 I1); [lia|assumption|exact Hg2|].
    apply (IH r k); auto. lia.
Qed.
