(** * Histories, broker side, part 2: what each broker operation sends, in the
    form the subscription monitor needs.

    [sub_has (b_subs b) sub z]: session [z] is a subscriber of subscription
    [sub] in broker [b].  [ev_held b o]: every EVENT in [o] is sent to a
    subscriber (in [b]) of the subscription it names.  For each of the four
    broker operations: the shape of the output (which message kinds, to whom)
    and the effect on [sub_has]. *)
From Nexus Require Import Router.Realm Router.AssocLemmas Router.BrokerWf Router.BrokerPres
     Router.BrokerPublish Router.BrokerSub Router.BrokerRun Router.RealmMetaProofs.
From Coq Require Import Lia ZifyN ZifyBool.

Definition is_ev (m : rmsg) : bool := match m with REvent _ _ _ _ _ => true | _ => false end.
Definition only_events (o : list out) : Prop := forall m, In m o -> is_ev (snd m) = true.
Definition ev_held (b : broker) (o : list out) : Prop :=
  forall z sub p d a k, In (z, REvent sub p d a k) o -> sub_has (b_subs b) sub z.
(** messages no monitor of the broker side looks at: PUBLISHED and ERROR excepted *)
Definition is_ack (m : rmsg) : bool :=
  match m with RPublished _ _ | RError _ _ _ _ _ _ => true | _ => false end.

Lemma only_events_nil : only_events [].
Proof. intros m []. Qed.
Lemma only_events_app : forall a b, only_events a -> only_events b -> only_events (a ++ b).
Proof. intros a b A B m H. apply in_app_or in H. destruct H; auto. Qed.
Lemma ev_held_nil : forall b, ev_held b [].
Proof. intros b z sub p d a k []. Qed.
Lemma ev_held_app : forall b x y, ev_held b x -> ev_held b y -> ev_held b (x ++ y).
Proof. intros b x y A B z sub p d a k H. apply in_app_or in H. destruct H; eauto. Qed.

Lemma sub_has_sig : forall b id z, sub_has (b_subs b) id z <-> exists t k, holds_sig b z id t k.
Proof.
  intros b id z. split.
  - intros (s & E & I). exists (sub_topic s), (kind s), s. auto.
  - intros (t & k & s & E & _ & _ & I). exists s. auto.
Qed.

(** ** Subscription meta events *)
Lemma sme_only_events : forall b mt cause p args, only_events (sub_meta_event b mt cause p args).
Proof.
  intros b mt cause p args m H. destruct (sub_meta_event_receivers b mt cause p args m H) as (s & st & _ & _ & E).
  now rewrite E.
Qed.

Lemma sme_held : forall b mt cause p args, core_wf b -> ev_held b (sub_meta_event b mt cause p args).
Proof.
  intros b mt cause p args W z sub p' d a k H.
  destruct (sub_meta_event_receivers b mt cause p args _ H) as (s & st & Hm & Hz & E). cbn [fst snd] in *.
  inversion E; subst. apply (matching_subs_In b mt W) in Hm. destruct Hm as (Hin & _).
  exists s. split; [exact Hin|exact Hz].
Qed.

(** ** PUBLISH *)
Lemma pub_events_only : forall lk pub pubid opts topic args kw subs,
    only_events (pub_events lk pub pubid opts topic args kw subs).
Proof.
  intros lk pub pubid opts topic args kw subs m H. unfold pub_events in H.
  apply in_flat_map in H. destruct H as ([s st] & _ & H). apply in_map_iff in H. destruct H as (rs & <- & _). reflexivity.
Qed.

Lemma pub_events_held : forall lk pub pubid opts topic args kw b,
    core_wf b -> lookup_ok lk -> ev_held b (pub_events lk pub pubid opts topic args kw (matching_subs b topic)).
Proof.
  intros lk pub pubid opts topic args kw b W L z sub p d a k H. unfold pub_events in H.
  apply in_flat_map in H. destruct H as ([s st] & Hm & H). apply in_map_iff in H. destruct H as (rs & E & Ht).
  inversion E; subst. apply (matching_subs_In b topic W) in Hm. destruct Hm as (Hin & _).
  apply sub_targets_In in Ht. destruct Ht as (r & Hr & _ & Hl & _).
  rewrite (L _ _ Hl). exists s. split; [exact Hin|exact Hr].
Qed.

Lemma opt_ack_shape : forall (c : bool) (x : out) (b : broker), is_ack (snd x) = true ->
    (forall m, In m (if c then [x] else []) -> is_ev (snd m) = true \/ is_ack (snd m) = true) /\
    ev_held b (if c then [x] else []).
Proof.
  intros c x b A. destruct c.
  - split.
    + intros m [<-|[]]. now right.
    + intros z sub p d a k [H|[]]. rewrite H in A. discriminate A.
  - split; [intros m []|intros z sub p d a k []].
Qed.

(** the output of a PUBLISH: the ABORT alone (passthru violation), else EVENTs
    to subscribers and possibly one PUBLISHED / ERROR *)
Lemma publish_shape : forall cfg lk now b pg pub req opts topic args kw,
    let o := snd (publish cfg lk now b pg pub req opts topic args kw) in
    (publish_aborts cfg pub opts topic = true /\
     o = [(s_id pub, RAbort [("message", vstr "<text>")] e_protocol_violation)]) \/
    (publish_aborts cfg pub opts topic = false /\
     (forall m, In m o -> is_ev (snd m) = true \/ is_ack (snd m) = true) /\
     (core_wf b -> lookup_ok lk -> ev_held b o)).
Proof.
  intros cfg lk now b pg pub req opts topic args kw o. subst o. unfold publish.
  destruct (valid_uri (c_strict cfg) "" topic) eqn:Hv; cbn [negb].
  2:{ right. split; [unfold publish_aborts; now rewrite Hv|]. cbn [snd].
      destruct (opt_ack_shape (opt_bool opts "acknowledge") (s_id pub, RError c_PUBLISH req [] e_invalid_uri [vstr "<text>"] []) b eq_refl) as [A B].
      split; [exact A|intros _ _; exact B]. }
  destruct (publish_aborts cfg pub opts topic) eqn:Ha; [left; auto|]. right. split; [reflexivity|].
  destruct (opt_bool opts "disclose_me" && negb (c_disclose cfg)).
  { cbn [snd].
    destruct (opt_ack_shape (opt_bool opts "acknowledge") (s_id pub, RError c_PUBLISH req [] e_disclose_me [] []) b eq_refl) as [A B].
    split; [exact A|intros _ _; exact B]. }
  pose proof (pub_event_fold lk now pub (pg + 1) opts topic args kw (matching_subs b topic) b []) as F.
  destruct (fold_left _ (matching_subs b topic) (b, [])) as [b1 o]. cbn [snd] in *. rewrite F. cbn [app].
  destruct (opt_ack_shape (opt_bool opts "acknowledge") (s_id pub, RPublished req (pg + 1)) b eq_refl) as [A B].
  split.
  - intros m H. apply in_app_or in H. destruct H as [H|H]; [|now apply A].
    left. eapply pub_events_only; eauto.
  - intros W L. apply ev_held_app; [now apply pub_events_held|exact B].
Qed.

Lemma publish_subs_same : forall cfg lk now b pg pub req opts topic args kw,
    core_wf b -> b_subs (fst (fst (publish cfg lk now b pg pub req opts topic args kw))) = b_subs b.
Proof.
  intros cfg lk now b pg pub req opts topic args kw W.
  destruct (publish cfg lk now b pg pub req opts topic args kw) as [[b' pg'] o] eqn:P. cbn [fst].
  apply publish_hist_ext in P; [|exact W]. destruct P as (E & _). rewrite E. reflexivity.
Qed.

(** ** SUBSCRIBE *)
Lemma subscribe_shape : forall cfg b pg sid req opts topic b' pg' o,
    broker_wf b -> b_idgen b < max_idN ->
    subscribe cfg b pg sid req opts topic = (b', pg', o) ->
    (b' = b /\ exists e a, o = [(sid, RError c_SUBSCRIBE req [] e a [])]) \/
    (exists id rest, o = (sid, RSubscribed req id) :: rest /\ only_events rest /\
                     (forall x, In x rest -> fst x <> sid) /\ ev_held b' rest /\
                     (forall z sub, sub_has (b_subs b') sub z <-> sub_has (b_subs b) sub z \/ (z = sid /\ sub = id))).
Proof.
  intros cfg b pg sid req opts topic b' pg' o W Hlt S.
  destruct (valid_uri (c_strict cfg) (opt_string opts "match") topic) eqn:Hv.
  2:{ left. rewrite (subscribe_invalid_uri _ _ _ _ _ _ _ Hv) in S. inversion S; subst. split; [reflexivity|]. eauto. }
  right.
  pose proof (subscribe_wf _ _ _ _ _ _ _ _ _ _ W Hlt S) as W'.
  destruct (subscribe_effect _ _ _ _ _ _ _ _ _ _ W Hlt Hv S) as (id & rest & Eo & Hne & _ & _ & Heff).
  exists id, rest. split; [exact Eo|].
  pose proof (subscribe_event_order cfg b pg sid req opts topic) as O. rewrite S in O.
  assert (R : only_events rest /\ ev_held b' rest).
  { destruct O as [(_ & _ & (e & a & E))|[(id1 & _ & E)|[(id1 & _ & E)|(sb & _ & _ & _ & E)]]]; rewrite Eo in E.
    - discriminate E.
    - inversion E; subst. split; [apply only_events_nil|apply ev_held_nil].
    - cbn [app] in E. inversion E; subst. split; [apply sme_only_events|apply sme_held, W'].
    - cbn [app] in E. inversion E; subst. split.
      + apply only_events_app; apply sme_only_events.
      + apply ev_held_app; apply sme_held, W'. }
  destruct R as [R1 R2]. split; [exact R1|]. split; [exact Hne|]. split; [exact R2|].
  intros z sub. rewrite !sub_has_sig. split.
  - intros (t & k & H). apply Heff in H. destruct H as [H|(-> & -> & _)]; [left; eauto|right; auto].
  - intros [(t & k & H)|(-> & ->)].
    + exists t, k. apply Heff. now left.
    + eexists _, _. apply Heff. right. repeat split; reflexivity.
Qed.

(** ** UNSUBSCRIBE *)
Lemma unsubscribe_shape : forall b pg sid req subid b' pg' o,
    broker_wf b -> unsubscribe b pg sid req subid = (b', pg', o) ->
    (b' = b /\ o = [(sid, RError c_UNSUBSCRIBE req [] e_no_such_subscription [] [])]) \/
    (exists rest, o = (sid, RUnsubscribed req) :: rest /\ only_events rest /\
                  (forall x, In x rest -> fst x <> sid) /\ ev_held b' rest /\
                  (forall z sub, sub_has (b_subs b') sub z <-> sub_has (b_subs b) sub z /\ ~ (z = sid /\ sub = subid))).
Proof.
  intros b pg sid req subid b' pg' o W S.
  pose proof (unsubscribe_event_order b pg sid req subid) as O. rewrite S in O.
  destruct O as [(-> & _ & ->)|O]; [left; auto|]. right.
  pose proof (unsubscribe_wf _ _ _ _ _ _ _ _ W S) as W'.
  pose proof (unsubscribe_effect _ _ _ _ _ _ _ _ (wf_core _ W) S) as Heff.
  assert (Hsub : forall z sub, sub_has (b_subs b') sub z <-> sub_has (b_subs b) sub z /\ ~ (z = sid /\ sub = subid)).
  { intros z sub. rewrite !sub_has_sig. split.
    - intros (t & k & H). apply Heff in H. destruct H as [H Hn]. split; [eauto|exact Hn].
    - intros [(t & k & H) Hn]. exists t, k. apply Heff. auto. }
  destruct O as [(_ & ->)|(_ & ->)]; cbn [app]; eexists; (split; [reflexivity|]).
  - split; [apply sme_only_events|]. split; [intros x Hx; eapply sub_meta_event_not_cause; eauto|].
    split; [apply sme_held, W'|exact Hsub].
  - split; [apply only_events_app; apply sme_only_events|]. split.
    + intros x Hx. apply in_app_or in Hx. destruct Hx; eapply sub_meta_event_not_cause; eauto.
    + split; [apply ev_held_app; apply sme_held, W'|exact Hsub].
Qed.

(** ** Session removal *)
Lemma rs_step_events : forall sid b pg o id rest b' pg' o',
    rs_inv sid b (id :: rest) -> remove_session_sub sid (b, pg, o) id = (b', pg', o') ->
    exists new, o' = o ++ new /\ only_events new /\ ev_held b new /\
                (forall z sub, sub_has (b_subs b') sub z -> sub_has (b_subs b) sub z).
Proof.
  intros sid b pg o id rest b' pg' o' Hinv E.
  assert (Wc : core_wf b) by apply Hinv.
  destruct (rs_step _ _ _ _ _ _ _ _ _ Hinv E) as (Hinv' & _).
  assert (Wc' : core_wf b') by apply Hinv'.
  assert (Hsub : forall z sub, sub_has (b_subs b') sub z -> sub_has (b_subs b) sub z).
  { intros z sub. rewrite !sub_has_sig. intros (t & k & H). exists t, k.
    destruct (rs_step_effect _ _ _ _ _ _ _ _ Wc E) as (He & _).
    apply holds_sig_hsig. apply holds_sig_hsig in H. apply He in H. tauto. }
  unfold remove_session_sub in E.
  destruct (nget (b_subs b) id) as [s|] eqn:Es.
  2:{ inversion E; subst. exists []. rewrite app_nil_r. split; [reflexivity|]. split; [apply only_events_nil|]. split; [apply ev_held_nil|exact Hsub]. }
  cbv zeta in E.
  match type of E with context [if ?c then _ else _] => destruct c end; inversion E; subst b' pg' o'.
  - eexists. split; [reflexivity|]. split; [apply only_events_app; apply sme_only_events|]. split; [|exact Hsub].
    intros z sub p d a k H. apply Hsub. apply in_app_or in H. destruct H as [H|H]; eapply sme_held; eauto.
  - eexists. split; [reflexivity|]. split; [apply sme_only_events|]. split; [|exact Hsub].
    intros z sub p d a k H. apply Hsub. eapply sme_held; eauto.
Qed.

Lemma rs_fold_events : forall sid ids b pg o b' pg' o',
    rs_inv sid b ids -> fold_left (remove_session_sub sid) ids (b, pg, o) = (b', pg', o') ->
    exists new, o' = o ++ new /\ only_events new /\ ev_held b new.
Proof.
  intros sid ids; induction ids as [|id rest IH]; intros b pg o b' pg' o' Hinv; cbn [fold_left].
  - intros H; inversion H; subst. exists []. rewrite app_nil_r. split; [reflexivity|]. split; [apply only_events_nil|apply ev_held_nil].
  - destruct (remove_session_sub sid (b, pg, o) id) as [[b1 pg1] o1] eqn:E1.
    destruct (rs_step _ _ _ _ _ _ _ _ _ Hinv E1) as (Hinv1 & _).
    destruct (rs_step_events _ _ _ _ _ _ _ _ _ Hinv E1) as (n1 & -> & On1 & Hn1 & Hs1).
    intros H. destruct (IH _ _ _ _ _ _ Hinv1 H) as (n2 & -> & On2 & Hn2).
    exists (n1 ++ n2). split; [now rewrite app_assoc|]. split; [now apply only_events_app|].
    apply ev_held_app; [exact Hn1|]. intros z sub p d a k Hin. apply Hs1. eapply Hn2; eauto.
Qed.

Lemma remove_shape : forall b pg sid b' pg' o,
    broker_wf b -> broker_remove_session b pg sid = (b', pg', o) ->
    only_events o /\ (forall x, In x o -> fst x <> sid) /\ ev_held b o /\
    (forall z sub, sub_has (b_subs b') sub z <-> sub_has (b_subs b) sub z /\ z <> sid).
Proof.
  intros b pg sid b' pg' o W R.
  destruct (remove_session_effect _ _ _ _ _ _ W R) as (Heff & Hne).
  assert (Hsub : forall z sub, sub_has (b_subs b') sub z <-> sub_has (b_subs b) sub z /\ z <> sid).
  { intros z sub. rewrite !sub_has_sig. split.
    - intros (t & k & H). apply Heff in H. destruct H as [H Hn]. split; [eauto|exact Hn].
    - intros [(t & k & H) Hn]. exists t, k. apply Heff. auto. }
  unfold broker_remove_session in R.
  destruct (nget (b_sess b) sid) as [ids|] eqn:Es.
  - destruct (rs_fold_events _ _ _ _ _ _ _ _ (rs_inv_init sid b ids W Es) R) as (new & -> & On & Hn).
    cbn [app] in *. split; [exact On|]. split; [exact Hne|]. split; [|exact Hsub].
    intros z sub p d a k H. specialize (Hn z sub p d a k H). exact Hn.
  - inversion R; subst. split; [apply only_events_nil|]. split; [intros x []|]. split; [apply ev_held_nil|exact Hsub].
Qed.
