(** * Histories of the whole model, C18 part 7: the observer of the session
    meta events over one [step].

    [step_bal]: from a realm satisfying [base] (reachable-state invariant, no
    forged testament stored), a step whose message forges nothing keeps
    [base]; if moreover an observer [z] holds [J] / [L], the operation is not
    the observer's and the step does not end the observer, then the observer
    keeps its holdings and what it reads in the step's events is exactly the
    list of attachment changes those events define, in order. *)
From Nexus Require Import Router.Realm Router.AssocLemmas Router.RealmLib Router.RealmProofs
     Router.RealmMetaProofs Router.RealmLeave.
From Nexus Require Import Router.BrokerWf Router.BrokerPres Router.BrokerSub Router.BrokerPublish.
From Nexus Require Import Router.DealerLib Router.DealerProofs Router.DealerReg Router.DealerCall Router.DealerWf
     Router.DealerWfCalls.
From Nexus Require Import Router.RealmWf Router.RealmStep Router.RealmC05 Router.RealmIdle.
From Nexus Require Import Router.RealmTraceLib Router.RealmTraceC18 Router.RealmTraceC18Att Router.RealmTraceC18Obs
     Router.RealmTraceC18Bal Router.RealmTraceC18Meta.
From Coq Require Import Lia ZifyN ZifyNat ZifyBool.

Section StepBalance.
  Variables (z J L : N).
  Local Notation obs := (obs z J L).
  Local Notation OBSb := (OBSb z J L).
  Local Notation OBS := (OBS z J L).
  Local Notation bal := (bal z J L).
  Local Notation noev := (noev).

  (** the step does not end the observer *)
  Definition zsafe (o : list out) : Prop := forall m, In (z, m) o -> is_end m = false.

  Lemma zsafe_app : forall a b, zsafe (a ++ b) -> zsafe a /\ zsafe b.
  Proof. intros a b H. split; intros m Hin; apply H; apply in_or_app; auto. Qed.

  Lemma noev_sub : forall a b, noev (a ++ b) -> noev a.
  Proof. intros a b H x m Hin. apply (H x m). apply in_or_app. now left. Qed.

  Lemma bal_ids : forall r r1 o, ids r1 = ids r -> bal r1 o -> bal r o.
  Proof. intros r r1 o E H. unfold RealmTraceC18Bal.bal in *. now rewrite <- E. Qed.

  Lemma T_set_dealer : forall r d, T r -> T (r_set_dealer r d).
  Proof. intros r d H. exact H. Qed.

  (** a quiet piece: the realm changes in nothing the observer depends on *)
  Lemma quiet_piece : forall r r' o,
      inv18 r -> noend o -> obs o = [] -> r_clients r' = r_clients r -> OBSb (r_broker r') ->
      OBS r -> OBS r' /\ bal r o.
  Proof.
    intros r r' o I Q E Ec B [C _]. split; [split; [unfold client; rewrite Ec; exact C|exact B]|].
    now apply bal_quiet.
  Qed.

  (** ** The meta session's answer to an INVOCATION *)
  Lemma rmi_bal : forall r o oracle k,
      base k r -> noend o -> noev o ->
      (forall rcv invid regid det args kw, o = [(rcv, RInvocation invid regid det args kw)] ->
         (forall c, caller_opt det = Some c -> client r c) /\
         (forall mproc a0 t, nget (r_metaprocs r) regid = Some mproc -> mproc = "wamp.session.add_testament" ->
                             arg0 args = Some a0 -> as_string a0 = Some t -> forging t = false)) ->
      base k (fst (run_meta_invocation r o oracle)) /\
      (OBS r -> zsafe (snd (run_meta_invocation r o oracle)) ->
       OBS (fst (run_meta_invocation r o oracle)) /\ bal r (snd (run_meta_invocation r o oracle))).
  Proof.
    intros r o oracle k B Ho Hv Hc. pose proof B as [W I I8 HT]. unfold run_meta_invocation.
    assert (Same : base k r /\ (OBS r -> zsafe o -> OBS r /\ bal r o)).
    { split; [exact B|]. intros O _. split; [exact O|]. apply bal_quiet; [exact I8|exact Ho|now apply noev_obs]. }
    destruct o as [|[rcv m] l]; [exact Same|]. destruct m; try exact Same. destruct l; [|exact Same].
    destruct (negb (rcv =? meta_id)); [exact Same|]. clear Same.
    destruct (Hc rcv req reg details args kw eq_refl) as [Hcl Hfg].
    destruct (nget (r_metaprocs r) reg) as [proc|] eqn:Emp.
    - destruct (meta_call_wf r proc details args kw oracle k W I Hcl) as [W1 I1].
      pose proof (meta_call_props r proc details args kw oracle I8) as P. cbv zeta in P.
      pose proof (meta_call_dealer r proc details args kw oracle) as Ed.
      pose proof (meta_call_kills_end r proc details args kw oracle) as Kg.
      pose proof (meta_call_T r proc details args kw oracle HT (fun Ep a0 t => Hfg proc a0 t eq_refl Ep)) as T1.
      pose proof (meta_call_OBS z J L r proc details args kw oracle) as O1.
      destruct (meta_call r proc details args kw oracle) as [[r1 resp] kills]. unfold realm_of, kills_of in *. cbn [fst snd] in *.
      destruct P as (I81 & P1 & J1).
      assert (G : forall d o1, (d, o1) = match resp with
                                          | MYield a k0 => sync_yield (lookup r1) (r_dealer r1) meta_id req [] a k0
                                          | MError e => sync_error (r_dealer r1) meta_id req [] e [] []
                                          end ->
                   noend o1 /\ noev o1 /\ d_regs d = d_regs (r_dealer r1) /\
                   realm_wf (r_set_dealer r1 d) /\ ids_below k (r_set_dealer r1 d)).
      { intros d o1 E. destruct resp.
        - pose proof (sync_yield_plain_noend (lookup r1) (r_dealer r1) meta_id req args0 kw0) as N.
          pose proof (sync_yield_noev (lookup r1) (r_dealer r1) meta_id req [] args0 kw0) as V.
          destruct (sync_yield_frame (lookup r1) (r_dealer r1) meta_id req [] args0 kw0) as (_ & _ & R).
          pose proof (sync_yield_realm_wf r1 (lookup r1) meta_id req [] args0 kw0 k W1 I1) as Y.
          rewrite <- E in N, V, R, Y. cbn [fst snd] in *. auto.
        - pose proof (sync_error_noend (r_dealer r1) meta_id req [] err [] []) as N.
          pose proof (sync_error_noev (r_dealer r1) meta_id req [] err [] []) as V.
          destruct (sync_error_frame (r_dealer r1) meta_id req [] err [] []) as (_ & _ & R).
          pose proof (sync_error_realm_wf r1 meta_id req [] err [] [] k W1 I1) as Y.
          rewrite <- E in N, V, R, Y. cbn [fst snd] in *. auto. }
      destruct (match resp with MYield a k0 => _ | MError e => _ end) as [d o1].
      destruct (G d o1 eq_refl) as (N1 & V1 & R1 & W2 & I2).
      assert (I82 : inv18 (r_set_dealer r1 d)).
      { destruct I81 as [A1 A2 A3]. constructor; [exact A1|exact A2|]. cbn [r_dealer r_set_dealer].
        eapply mregs_ext; [exact R1|exact A3]. }
      assert (B2 : base k (r_set_dealer r1 d)) by (constructor; [exact W2|exact I2|exact I82|exact T1]).
      assert (E2 : ids (r_set_dealer r1 d) = att (ids r) (map EOut o1)).
      { change (ids (r_set_dealer r1 d)) with (ids r1). rewrite J1. symmetry. apply att_noend; [exact (i_nometa r I8)|exact N1]. }
      destruct kills as [[sids g]|].
      + pose proof (kill_base sids (r_set_dealer r1 d) g k B2) as B3.
        pose proof (kill_bal z J L sids (r_set_dealer r1 d) g k B2 (Kg sids g eq_refl)) as K.
        destruct (kill_sessions_exact sids (r_set_dealer r1 d) g) as (_ & Kin & _).
        destruct (kill_sessions (r_set_dealer r1 d) sids g) as [r3 o2]. cbn [fst snd] in *.
        split; [exact B3|]. intros O Hz. destruct (zsafe_app _ _ Hz) as [_ Hz2].
        assert (Oz : OBS (r_set_dealer r1 d)) by (destruct (O1 O) as [C1 Bz1]; split; assumption).
        assert (Hnz : ~ In z sids).
        { intros Hin. specialize (Hz2 g (Kin z Hin)). rewrite (Kg sids g eq_refl) in Hz2. discriminate. }
        destruct (K Oz Hnz) as [O3 E3]. split; [exact O3|].
        eapply (RealmTraceC18Bal.bal_seq z J L r o1 (r_set_dealer r1 d) o2); [|exact E2|exact E3].
        apply bal_quiet; [exact I8|exact N1|now apply noev_obs].
      + cbn [fst snd]. split; [exact B2|]. intros O _. split.
        * destruct (O1 O) as [C1 Bz1]; split; assumption.
        * apply bal_quiet; [exact I8|exact N1|now apply noev_obs].
    - pose proof (sync_error_noend (r_dealer r) meta_id req [] e_no_such_procedure [] []) as N.
      pose proof (sync_error_noev (r_dealer r) meta_id req [] e_no_such_procedure [] []) as V.
      destruct (sync_error_frame (r_dealer r) meta_id req [] e_no_such_procedure [] []) as (_ & _ & R).
      pose proof (sync_error_realm_wf r meta_id req [] e_no_such_procedure [] [] k W I) as Y.
      destruct (sync_error _ _ _ _ _ _ _) as [d o1]. cbn [fst snd] in *. destruct Y as [W2 I2].
      split.
      + constructor; [exact W2|exact I2| |exact HT].
        destruct I8 as [A1 A2 A3]. constructor; [exact A1|exact A2|]. cbn [r_dealer r_set_dealer]. eapply mregs_ext; [exact R|exact A3].
      + intros O _. split; [exact O|]. apply bal_quiet; [exact I8|exact N|now apply noev_obs].
  Qed.

  (** ** One client message *)
  Definition msg_noforge (r : realm) (m : cmsg) (oracle : N) : Prop :=
    (forall req opts topic args kw, m = CPublish req opts topic args kw -> forging topic = false) /\
    (forall req opts proc args kw rg mproc a0 t, m = CCall req opts proc args kw ->
        match_procedure (r_dealer r) proc oracle = Some rg -> nget (r_metaprocs r) (reg_id rg) = Some mproc ->
        mproc = "wamp.session.add_testament" -> arg0 args = Some a0 -> as_string a0 = Some t -> forging t = false).

  (** the registration named in the INVOCATION is the one the procedure resolves to *)
  Lemma call_invoked_reg : forall cfg lk now d caller req opts proc args kw oracle d' callee o,
      call cfg lk now d caller req opts proc args kw oracle = CallInvoked d' callee o ->
      exists rg rcv invid det, match_procedure d proc oracle = Some rg /\ o = [(rcv, RInvocation invid (reg_id rg) det args kw)].
  Proof.
    intros cfg lk now d caller req opts proc args kw oracle d' callee o E.
    pose proof (call_cases cfg lk now d caller req opts proc args kw oracle) as C. rewrite E in C.
    inversion C; subst; do 4 eexists; split; try eassumption; reflexivity.
  Qed.

  Lemma reg_event_topics : forall cfg d s req opts proc mp,
      In mp (snd (register cfg d s req opts proc)) -> forging (mp_topic mp) = false.
  Proof.
    intros cfg d s req opts proc mp. pose proof (register_event_order cfg d s req opts proc) as O.
    destruct (register cfg d s req opts proc) as [[d' o] mps]. cbn [snd].
    destruct O as [(_ & -> & _)|(id & _ & [->|[->|(rg & -> & _)]])]; intros H; try destruct H as [<-|H]; try destruct H as [<-|H];
      try destruct H; reflexivity.
  Qed.

  Lemma unreg_event_topics : forall d sid req regid mp,
      In mp (snd (unregister d sid req regid)) -> forging (mp_topic mp) = false.
  Proof.
    intros d sid req regid mp. pose proof (unregister_event_order d sid req regid) as O.
    destruct (unregister d sid req regid) as [[d' o] mps]. cbn [snd].
    destruct O as [(-> & _)|(_ & [(-> & _)|(-> & _)])]; intros H; try destruct H as [<-|H]; try destruct H as [<-|H];
      try destruct H; reflexivity.
  Qed.

  Theorem handle_bal : forall r s m oracle k,
      base k r -> k < max_idN -> find_session (r_clients r) (s_id s) = Some s -> msg_noforge r m oracle ->
      base (k + 1) (fst (handle r s m oracle)) /\
      (OBS r -> s_id s <> z -> zsafe (snd (handle r s m oracle)) ->
       OBS (fst (handle r s m oracle)) /\ bal r (snd (handle r s m oracle))).
  Proof.
    intros r s m oracle k B Hk Hs [Fp Fc]. pose proof B as [W I I8 HT].
    destruct (handle_wf r s m oracle k W I Hk Hs) as [W' I'].
    destruct (handle_tracks r s m oracle I8 Hs) as (I8' & _ & _).
    assert (Goal' : T (fst (handle r s m oracle)) /\
                    (OBS r -> s_id s <> z -> zsafe (snd (handle r s m oracle)) ->
                     OBS (fst (handle r s m oracle)) /\ bal r (snd (handle r s m oracle)))).
    2:{ destruct Goal' as [T' G]. split; [constructor; assumption|exact G]. }
    clear W' I' I8'.
    pose proof (attached_client r s W Hs) as [Hl Hm].
    assert (Hmem : nmem (s_id s) (ids r) = true) by (unfold ids; rewrite nmem_ids, Hs; reflexivity).
    (* the session is sent an end marker and leaves *)
    assert (Lv : forall r0 o0 m0, base k r0 -> ids r0 = ids r -> noend o0 -> obs o0 = [] -> is_end m0 = true ->
                   T (fst (leave r0 (s_id s))) /\
                   (OBS r0 -> s_id s <> z ->
                    OBS (fst (leave r0 (s_id s))) /\ bal r (o0 ++ (s_id s, m0) :: snd (leave r0 (s_id s))))).
    { intros r0 o0 m0 B0 Ei Q0 E0 Em. split; [exact (b_T _ _ (leave_base r0 (s_id s) k B0))|].
      intros O0 Hn. destruct (leave_obs z J L r0 (s_id s) k B0 O0 Hn) as [O1 E1].
      destruct (leave_props r0 (s_id s) (b_18 k r0 B0)) as (_ & _ & _ & N1).
      split; [exact O1|].
      pose proof (bal_end z J L (ids r) o0 (s_id s) m0 (snd (leave r0 (s_id s))) [] (i_nometa r I8) Q0 E0 Em N1) as X.
      rewrite app_nil_r in X. apply X; [|reflexivity].
      rewrite E1, Hmem. assert (F0 : nmem (s_id s) (ids r0) = true) by (rewrite Ei; exact Hmem).
      unfold ids in F0. rewrite nmem_ids in F0. destruct (find_session (r_clients r0) (s_id s)); [reflexivity|discriminate]. }
    assert (Lv0 : forall m0, is_end m0 = true ->
                   T (fst (leave r (s_id s))) /\
                   (OBS r -> s_id s <> z -> OBS (fst (leave r (s_id s))) /\ bal r ((s_id s, m0) :: snd (leave r (s_id s))))).
    { intros m0 Em. exact (Lv r [] m0 B eq_refl noend_nil eq_refl Em). }
    destruct m; cbn [handle].
    - (* PUBLISH *)
      pose proof (publish_noend (r_cfg r) (lookup r) (r_now r) (r_broker r) (r_pubgen r) s req opts topic args kw) as P.
      pose proof (publish_abort_out (r_cfg r) (lookup r) (r_now r) (r_broker r) (r_pubgen r) s req opts topic args kw) as Pa.
      pose proof (publish_obs_other z J L (r_cfg r) (lookup r) (r_now r) (r_broker r) (r_pubgen r) s req opts topic args kw
                                    (wf_core _ (rw_broker r W))) as Po.
      pose proof (OBSb_publish z J L (r_cfg r) (lookup r) (r_now r) (r_broker r) (r_pubgen r) s req opts topic args kw
                               (wf_core _ (rw_broker r W))) as Pb.
      destruct (publish _ _ _ _ _ _ _ _ _ _ _) as [[b pg] o]. cbn [fst snd] in *.
      destruct (publish_aborts (r_cfg r) s opts topic).
      + rewrite (Pa eq_refl). specialize (Lv0 (RAbort [("message", vstr "<text>")] e_protocol_violation) eq_refl).
        destruct (leave r (s_id s)) as [r1 o1]. cbn [fst snd app] in *. destruct Lv0 as [T1 G]. split; [exact T1|]. intros O Hn _. auto.
      + cbn [fst snd]. split; [exact HT|]. intros O Hn _. pose proof O as [_ Bz].
        apply (quiet_piece r); auto. apply Po; [exact Bz|]. eapply Fp; reflexivity.
    - (* SUBSCRIBE *)
      assert (Hb : b_idgen (r_broker r) < max_idN) by (destruct I as (I1 & _); lia).
      pose proof (subscribe_noend (r_cfg r) (r_broker r) (r_pubgen r) (s_id s) req opts topic) as P.
      pose proof (subscribe_obs z J L (r_cfg r) (r_broker r) (r_pubgen r) (s_id s) req opts topic (rw_broker r W) Hb) as Po.
      pose proof (OBSb_subscribe z J L (r_cfg r) (r_broker r) (r_pubgen r) (s_id s) req opts topic (rw_broker r W) Hb) as Pb.
      destruct (subscribe _ _ _ _ _ _ _) as [[b pg] o]. cbn [fst snd] in *.
      split; [exact HT|]. intros O Hn _. pose proof O as [_ Bz]. apply (quiet_piece r); auto.
    - (* UNSUBSCRIBE *)
      pose proof (unsubscribe_noend (r_broker r) (r_pubgen r) (s_id s) req sub) as P.
      pose proof (unsubscribe_obs z J L (r_broker r) (r_pubgen r) (s_id s) req sub (rw_broker r W)) as Po.
      pose proof (OBSb_unsubscribe z J L (r_broker r) (r_pubgen r) (s_id s) req sub (wf_core _ (rw_broker r W))) as Pb.
      destruct (unsubscribe _ _ _ _ _) as [[b pg] o]. cbn [fst snd] in *.
      split; [exact HT|]. intros O Hn _. pose proof O as [_ Bz]. apply (quiet_piece r); auto.
    - (* REGISTER *)
      pose proof (register_noend (r_cfg r) (r_dealer r) s req opts proc) as P.
      pose proof (register_noev (r_cfg r) (r_dealer r) s req opts proc) as V.
      pose proof (reg_event_topics (r_cfg r) (r_dealer r) s req opts proc) as Tp.
      pose proof (mregs_register (r_cfg r) (r_dealer r) s req opts proc (i_regs r I8) Hm) as M.
      destruct (register _ _ _ _ _ _) as [[d o] mps]. cbn [fst snd] in *.
      assert (I81 : inv18 (r_set_dealer r d)) by (destruct I8 as [A1 A2 A3]; constructor; assumption).
      assert (Lw : lwf (r_set_dealer r d)) by (eapply lwf_same; [exact (lwf_of_wf r W)|reflexivity|reflexivity|reflexivity]).
      pose proof (meta_publish_all_other z J L mps (r_set_dealer r d) Lw) as MP.
      pose proof (meta_publish_all_noend mps (r_set_dealer r d) (i_meta _ I81)) as Nm.
      pose proof (meta_publish_all_tracks mps (r_set_dealer r d) I81) as Tk.
      destruct (meta_publish_all_frame mps (r_set_dealer r d)) as (_ & _ & _ & Ft & _).
      destruct (meta_publish_all _ mps) as [r1 o1]. cbn [fst snd] in *.
      split; [eapply T_same; [exact HT|exact Ft]|]. intros O Hn _.
      assert (O0 : OBS (r_set_dealer r d)) by exact O.
      destruct (MP O0 Tp) as (_ & O1 & E1). split; [exact O1|].
      apply bal_quiet; [exact I8|now apply noend_app|]. rewrite obs_app, (noev_obs z J L o V), E1. reflexivity.
    - (* UNREGISTER *)
      pose proof (unregister_noend (r_dealer r) (s_id s) req reg) as P.
      pose proof (unregister_noev (r_dealer r) (s_id s) req reg) as V.
      pose proof (unreg_event_topics (r_dealer r) (s_id s) req reg) as Tp.
      pose proof (mregs_unregister (r_dealer r) (s_id s) req reg (i_regs r I8) Hm) as M.
      destruct (unregister _ _ _ _) as [[d o] mps]. cbn [fst snd] in *.
      assert (I81 : inv18 (r_set_dealer r d)) by (destruct I8 as [A1 A2 A3]; constructor; assumption).
      assert (Lw : lwf (r_set_dealer r d)) by (eapply lwf_same; [exact (lwf_of_wf r W)|reflexivity|reflexivity|reflexivity]).
      pose proof (meta_publish_all_other z J L mps (r_set_dealer r d) Lw) as MP.
      pose proof (meta_publish_all_noend mps (r_set_dealer r d) (i_meta _ I81)) as Nm.
      destruct (meta_publish_all_frame mps (r_set_dealer r d)) as (_ & _ & _ & Ft & _).
      destruct (meta_publish_all _ mps) as [r1 o1]. cbn [fst snd] in *.
      split; [eapply T_same; [exact HT|exact Ft]|]. intros O Hn _.
      assert (O0 : OBS (r_set_dealer r d)) by exact O.
      destruct (MP O0 Tp) as (_ & O1 & E1). split; [exact O1|].
      apply bal_quiet; [exact I8|now apply noend_app|]. rewrite obs_app, (noev_obs z J L o V), E1. reflexivity.
    - (* CALL *)
      pose proof (call_ends (r_cfg r) (lookup r) (r_now r) (r_dealer r) s req opts proc args kw oracle) as P.
      pose proof (call_noev (r_cfg r) (lookup r) (r_now r) (r_dealer r) s req opts proc args kw oracle) as V.
      destruct (call _ _ _ _ _ _ _ _ _ _ _) as [d o|o|d callee o] eqn:Ecall.
      + cbn [fst snd]. split; [exact HT|]. intros O Hn _. pose proof O as [_ Bz].
        apply (quiet_piece r); auto. now apply noev_obs.
      + rewrite P. cbv zeta.
        destruct (call_abort_realm_wf r s req opts proc oracle k W I) as (Wa & Ia & _). cbv zeta in Wa, Ia.
        match goal with |- context [leave ?R (s_id s)] => set (ra := R) in * end.
        assert (Ba : base k ra).
        { constructor; [exact Wa|exact Ia| |exact HT]. destruct I8 as [A1 A2 A3].
          constructor; [exact A1|exact A2|apply mregs_call_abort; exact A3]. }
        destruct (Lv ra [] (RAbort [("message", vstr "<text>")] e_protocol_violation) Ba eq_refl noend_nil eq_refl eq_refl) as [T1 G].
        destruct (leave ra (s_id s)) as [r1 o1]. cbn [fst snd app] in *. split; [exact T1|]. intros O Hn _.
        apply G; [exact O|exact Hn].
      + destruct (call_invoked_wf r s req opts proc args kw oracle k d callee o W I Hk Hs Ecall)
          as (W2 & J2 & _ & _ & Hcl).
        destruct (call_invoked_reg _ _ _ _ _ _ _ _ _ _ _ _ _ _ Ecall) as (rg & rcv & invid & det & Hmt & Eo).
        assert (I80 : inv18 (r_set_dealer r d)).
        { destruct I8 as [A1 A2 A3]. constructor; [exact A1|exact A2|].
          pose proof (mregs_call (r_cfg r) (lookup r) (r_now r) (r_dealer r) s req opts proc args kw oracle A3) as M.
          rewrite Ecall in M. exact M. }
        destruct (update_session_inv (r_set_dealer r d) callee I80) as (I81 & J1 & P1).
        destruct (update_session_frame (r_set_dealer r d) callee) as (_ & Ft & Fb & _).
        set (r1 := update_session (r_set_dealer r d) callee) in *.
        assert (B1 : base (k + 1) r1) by (constructor; [exact W2|exact J2|exact I81|eapply T_same; [exact HT|exact Ft]]).
        destruct (rmi_bal r1 o oracle (k + 1) B1 P V) as [B2 G].
        { intros rcv' invid' regid' det' args' kw' Eo'. split; [exact (Hcl rcv' invid' regid' det' args' kw' Eo')|].
          rewrite Eo in Eo'. inversion Eo'; subst. intros mproc a0 t Hmp Ep Ha Ht.
          rewrite P1 in Hmp. cbn [r_metaprocs r_set_dealer] in Hmp. eapply Fc; eauto. }
        split; [exact (b_T _ _ B2)|]. intros O Hn Hz.
        assert (O1 : OBS r1).
        { destruct O as [C Bz]. split; [unfold r1; apply client_update; exact C|rewrite Fb; exact Bz]. }
        destruct (G O1 Hz) as [O2 E2]. split; [exact O2|]. eapply bal_ids; [|exact E2]. exact J1.
    - (* CANCEL *)
      pose proof (cancel_noend (lookup r) (r_dealer r) (s_id s) req opts) as P.
      pose proof (cancel_noev (lookup r) (r_dealer r) (s_id s) req opts) as V.
      destruct (cancel _ _ _ _ _) as [d o]. cbn [fst snd] in *.
      split; [exact HT|]. intros O Hn _. pose proof O as [_ Bz]. apply (quiet_piece r); auto. now apply noev_obs.
    - (* YIELD *)
      assert (Hlk : lookup r (s_id s) <> None) by congruence.
      pose proof (sync_yield_ends (lookup r) (r_dealer r) (s_id s) req opts args kw Hlk) as P.
      pose proof (sync_yield_noev (lookup r) (r_dealer r) (s_id s) req opts args kw) as V.
      destruct (sync_yield_frame (lookup r) (r_dealer r) (s_id s) req opts args kw) as (_ & _ & R).
      pose proof (sync_yield_realm_wf r (lookup r) (s_id s) req opts args kw k W I) as Y.
      destruct (sync_yield _ _ _ _ _ _ _) as [d o]. cbn [fst snd] in *.
      destruct (yield_aborts _ _ _ _ _).
      + destruct P as (o0 & -> & N0). destruct Y as [Y1 Y2].
        assert (B0 : base k (r_set_dealer r d)).
        { constructor; [exact Y1|exact Y2| |exact HT]. destruct I8 as [A1 A2 A3]. constructor; [exact A1|exact A2|].
          cbn [r_dealer r_set_dealer]. eapply mregs_ext; [exact R|exact A3]. }
        destruct (Lv (r_set_dealer r d) o0 (RAbort [("message", vstr "<text>")] e_protocol_violation) B0 eq_refl N0
                     (noev_obs z J L o0 (noev_sub _ _ V)) eq_refl) as [T1 G].
        destruct (leave (r_set_dealer r d) (s_id s)) as [r1 o1]. cbn [fst snd] in *.
        split; [exact T1|]. intros O Hn _. rewrite <- app_assoc. apply G; [exact O|exact Hn].
      + split; [exact HT|]. intros O Hn _. pose proof O as [_ Bz]. apply (quiet_piece r); auto. now apply noev_obs.
    - (* ERROR *)
      destruct (negb (ty =? c_INVOCATION)).
      + specialize (Lv0 abort_violation eq_refl). destruct (leave r (s_id s)) as [r1 o1]. cbn [fst snd] in *.
        destruct Lv0 as [T1 G]. split; [exact T1|]. intros O Hn _. auto.
      + pose proof (sync_error_noend (r_dealer r) (s_id s) req details err args kw) as P.
        pose proof (sync_error_noev (r_dealer r) (s_id s) req details err args kw) as V.
        destruct (sync_error _ _ _ _ _ _ _) as [d o]. cbn [fst snd] in *.
        split; [exact HT|]. intros O Hn _. pose proof O as [_ Bz]. apply (quiet_piece r); auto. now apply noev_obs.
    - (* GOODBYE *)
      specialize (Lv0 (RGoodbye [] e_goodbye_and_out) eq_refl). destruct (leave r (s_id s)) as [r1 o1]. cbn [fst snd] in *.
      destruct Lv0 as [T1 G]. split; [exact T1|]. intros O Hn _. auto.
    - specialize (Lv0 abort_violation eq_refl). destruct (leave r (s_id s)) as [r1 o1]. cbn [fst snd] in *.
      destruct Lv0 as [T1 G]. split; [exact T1|]. intros O Hn _. auto.
  Qed.
End StepBalance.
