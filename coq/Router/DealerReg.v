(** * Dealer proofs, part 2: REGISTER sharing rules, UNREGISTER, best match,
    callee selection (C03). *)
From Nexus Require Import Router.Dealer Router.DealerLib Router.DealerProofs.
From Coq Require Import Lia ZifyN ZifyNat ZifyBool.

(** ** REGISTER *)
Definition reg_lookup (d : dealer) (m proc : string) : option registration :=
  match sget (d_map d (mkind_of m)) proc with Some id => nget (d_regs d) id | None => None end.

(** the checks made before the registration tables are consulted *)
Definition reg_disclose_refused (cfg : config) (callee : session) (opts : dict) : bool :=
  negb (c_disclose cfg) && opt_bool opts "disclose_caller" &&
  negb (String.eqb (attr_of (s_details callee) "authrole") "trusted").

Definition reg_invalid_uri_msg (sid req : N) : out :=
  (sid, RError c_REGISTER req [] e_invalid_uri [vstr "<text>"] []).

Lemma register_invalid_uri : forall cfg d callee req opts proc,
    valid_uri (c_strict cfg) (opt_string opts "match") proc = false ->
    register cfg d callee req opts proc = (d, [reg_invalid_uri_msg (s_id callee) req], []).
Proof. intros. unfold register. rewrite H. reflexivity. Qed.

Lemma register_wamp_refused : forall cfg d callee req opts proc,
    str_prefix_wamp proc = true -> s_id callee <> meta_id ->
    register cfg d callee req opts proc = (d, [reg_invalid_uri_msg (s_id callee) req], []).
Proof.
  intros cfg d callee req opts proc Hw Hn. unfold register.
  destruct (valid_uri (c_strict cfg) (opt_string opts "match") proc); cbn [negb]; [|reflexivity].
  rewrite Hw. destruct (N.eqb_spec (s_id callee) meta_id); [congruence|]. reflexivity.
Qed.

Lemma register_disclose_refused : forall cfg d callee req opts proc,
    valid_uri (c_strict cfg) (opt_string opts "match") proc = true ->
    str_prefix_wamp proc && negb (N.eqb (s_id callee) meta_id) = false ->
    reg_disclose_refused cfg callee opts = true ->
    register cfg d callee req opts proc = (d, [(s_id callee, RError c_REGISTER req [] e_disclose_me [] [])], []).
Proof.
  intros cfg d callee req opts proc Hv Hw Hd. unfold register. rewrite Hv. cbn [negb].
  rewrite Hw. unfold reg_disclose_refused in Hd. rewrite Hd. reflexivity.
Qed.

Definition reg_prechecks (cfg : config) (callee : session) (opts : dict) (proc : string) : Prop :=
  valid_uri (c_strict cfg) (opt_string opts "match") proc = true /\
  str_prefix_wamp proc && negb (N.eqb (s_id callee) meta_id) = false /\
  reg_disclose_refused cfg callee opts = false.

Definition share_ok (r : registration) (invoke : string) (sid : N) : bool :=
  shared_policy (reg_policy r) && String.eqb (reg_policy r) invoke && negb (nmem sid (reg_callees r)).

(** [disc]: the joining callee asked for disclose_caller (and was allowed to);
    [fwd]: it asked for forward_timeout *)
Definition reg_add_callee (r : registration) (sid : N) (disc fwd : bool) : registration :=
  mkReg (reg_id r) (reg_proc r) (reg_match r) (reg_policy r)
        (if disc then reg_disclose r ++ [sid] else reg_disclose r)
        (if fwd then reg_fwd_timeout r ++ [sid] else reg_fwd_timeout r)
        (reg_next r) (reg_callees r ++ [sid]).

Definition share_state (d : dealer) (r : registration) (sid : N) (disc fwd : bool) : dealer :=
  let d1 := d_set_regs d (nset (d_regs d) (reg_id r) (reg_add_callee r sid disc fwd)) in
  d_set_callee_regs d1 (callee_add_reg (d_callee_regs d1) sid (reg_id r)).

Definition new_reg (d : dealer) (opts : dict) (proc : string) (sid : N) : registration :=
  mkReg (idgen_next (d_idgen d)) proc (opt_string opts "match") (opt_string opts "invoke")
        (if opt_bool opts "disclose_caller" then [sid] else [])
        (if opt_bool opts "forward_timeout" then [sid] else []) 0 [sid].

Definition new_state (d : dealer) (opts : dict) (proc : string) (sid : N) : dealer :=
  let r := new_reg d opts proc sid in
  let k := mkind_of (opt_string opts "match") in
  let d1 := d_set_idgen d (reg_id r) in
  let d2 := d_set_regs d1 (nset (d_regs d1) (reg_id r) r) in
  let d3 := d_set_map d2 k (sset (d_map d2 k) proc (reg_id r)) in
  d_set_callee_regs d3 (callee_add_reg (d_callee_regs d3) sid (reg_id r)).

Lemma register_existing : forall cfg d callee req opts proc r,
    reg_prechecks cfg callee opts proc ->
    reg_lookup d (opt_string opts "match") proc = Some r ->
    register cfg d callee req opts proc =
    if share_ok r (opt_string opts "invoke") (s_id callee)
    then (share_state d r (s_id callee) (opt_bool opts "disclose_caller") (opt_bool opts "forward_timeout"), [(s_id callee, RRegistered req (reg_id r))],
          if negb (str_prefix_wamp proc) then [mkMetaPub t_reg_on_register [vid (s_id callee); vid (reg_id r)] [] []] else [])
    else (d, [(s_id callee, RError c_REGISTER req [] e_procedure_exists [] [])], []).
Proof.
  intros cfg d callee req opts proc r (Hv & Hw & Hd) Hl. unfold register.
  rewrite Hv. cbn [negb]. rewrite Hw. unfold reg_disclose_refused in Hd. rewrite Hd.
  unfold reg_lookup in Hl. rewrite Hl. unfold share_ok.
  destruct (shared_policy (reg_policy r)); cbn [negb orb andb]; [|reflexivity].
  destruct (String.eqb (reg_policy r) (opt_string opts "invoke")); cbn [negb orb andb]; [|reflexivity].
  destruct (nmem (s_id callee) (reg_callees r)); reflexivity.
Qed.

Lemma register_new : forall cfg d callee req opts proc,
    reg_prechecks cfg callee opts proc ->
    reg_lookup d (opt_string opts "match") proc = None ->
    register cfg d callee req opts proc =
    (new_state d opts proc (s_id callee),
     [(s_id callee, RRegistered req (idgen_next (d_idgen d)))],
     if negb (str_prefix_wamp proc)
     then [mkMetaPub t_reg_on_create [vid (s_id callee); reg_dict (new_reg d opts proc (s_id callee))] [] [];
           mkMetaPub t_reg_on_register [vid (s_id callee); vid (idgen_next (d_idgen d))] [] []]
     else []).
Proof.
  intros cfg d callee req opts proc (Hv & Hw & Hd) Hl. unfold register.
  rewrite Hv. cbn [negb]. rewrite Hw. unfold reg_disclose_refused in Hd. rewrite Hd.
  unfold reg_lookup in Hl. rewrite Hl. reflexivity.
Qed.

Lemma shared_policy_iff : forall p,
    shared_policy p = true <-> p = "roundrobin" \/ p = "random" \/ p = "first" \/ p = "last".
Proof.
  intros p. unfold shared_policy. rewrite !orb_true_iff, !String.eqb_eq. tauto.
Qed.

Lemma share_ok_iff : forall r invoke sid,
    share_ok r invoke sid = true <->
    (reg_policy r = "roundrobin" \/ reg_policy r = "random" \/ reg_policy r = "first" \/ reg_policy r = "last") /\
    invoke = reg_policy r /\ ~ In sid (reg_callees r).
Proof.
  intros r invoke sid. unfold share_ok.
  rewrite !andb_true_iff, shared_policy_iff, String.eqb_eq, negb_true_iff, nmem_false.
  intuition congruence.
Qed.

(** C03 share_rules *)
Theorem share_rules_proof : forall cfg d callee req opts proc,
    let sid := s_id callee in
    let m := opt_string opts "match" in
    let invoke := opt_string opts "invoke" in
    (* invalid URI, or a wamp.* procedure from a client: refused, nothing changes *)
    (valid_uri (c_strict cfg) m proc = false \/ (str_prefix_wamp proc = true /\ sid <> meta_id) ->
     register cfg d callee req opts proc = (d, [(sid, RError c_REGISTER req [] e_invalid_uri [vstr "<text>"] [])], [])) /\
    (* a registration for this procedure and match kind exists *)
    (forall r, reg_prechecks cfg callee opts proc -> reg_lookup d m proc = Some r ->
       ((exists d' mps, register cfg d callee req opts proc = (d', [(sid, RRegistered req (reg_id r))], mps))
        <-> ((reg_policy r = "roundrobin" \/ reg_policy r = "random" \/ reg_policy r = "first" \/ reg_policy r = "last")
             /\ invoke = reg_policy r /\ ~ In sid (reg_callees r))) /\
       (share_ok r invoke sid = true ->
        exists mps, register cfg d callee req opts proc =
                    (share_state d r sid (opt_bool opts "disclose_caller") (opt_bool opts "forward_timeout"),
                     [(sid, RRegistered req (reg_id r))], mps)) /\
       (share_ok r invoke sid = false ->
        register cfg d callee req opts proc = (d, [(sid, RError c_REGISTER req [] e_procedure_exists [] [])], []))).
Proof.
  intros cfg d callee req opts proc sid m invoke. split.
  - intros [H|[H1 H2]]; [apply register_invalid_uri | apply register_wamp_refused]; assumption.
  - intros r Hpre Hl. pose proof (register_existing cfg d callee req opts proc r Hpre Hl) as E.
    fold sid invoke in E. rewrite <- share_ok_iff. fold invoke.
    destruct (share_ok r invoke sid) eqn:Hs.
    + split; [|split].
      * split; [auto | intros _; eauto].
      * intros _. eauto.
      * discriminate.
    + split; [|split].
      * split; [|discriminate]. intros (d' & mps & E'). rewrite E in E'. inversion E'.
      * discriminate.
      * auto.
Qed.

(** ** UNREGISTER *)
Lemma unregister_cases : forall d sid req regid,
    let d0 := d_set_callee_regs d (callee_del_reg (d_callee_regs d) sid regid) in
    (exists d1 del, del_callee_reg d0 sid regid = (d1, Some del) /\
        unregister d sid req regid =
        (d1, [(sid, RUnregistered req)],
         mkMetaPub t_reg_on_unregister [vid sid; vid regid] [] [] ::
         (if del then [mkMetaPub t_reg_on_delete [vid sid; vid regid] [] []] else [])))
    \/ (snd (del_callee_reg d0 sid regid) = None /\
        unregister d sid req regid = (d0, [(sid, RError c_UNREGISTER req [] e_no_such_registration [] [])], [])).
Proof.
  intros d sid req regid d0. unfold unregister. fold d0.
  destruct (del_callee_reg d0 sid regid) as [d1 [del|]] eqn:E.
  - left. exists d1, del. auto.
  - right. auto.
Qed.

Lemma del_callee_reg_cases : forall d sid regid,
    match nget (d_regs d) regid with
    | None => del_callee_reg d sid regid = (d, None)
    | Some r =>
        if nmem sid (reg_callees r) then
          match nremove1 sid (reg_callees r) with
          | [] => del_callee_reg d sid regid =
                  (let d1 := d_set_regs d (ndel (d_regs d) regid) in
                   d_set_map d1 (reg_kind r) (sdel (d_map d1 (reg_kind r)) (reg_proc r)), Some true)
          | cs => del_callee_reg d sid regid =
                  (d_set_regs d (nset (d_regs d) regid
                     (mkReg (reg_id r) (reg_proc r) (reg_match r) (reg_policy r) (nremove1 sid (reg_disclose r))
                            (nremove1 sid (reg_fwd_timeout r)) (reg_next r) cs)), Some false)
          end
        else del_callee_reg d sid regid = (d, None)
    end.
Proof.
  intros d sid regid. unfold del_callee_reg.
  destruct (nget (d_regs d) regid) as [r|]; [|reflexivity].
  destruct (nmem sid (reg_callees r)); cbn [negb]; [|reflexivity].
  destruct (nremove1 sid (reg_callees r)); reflexivity.
Qed.

(** ** Best match *)
Definition plen (x : string * N) : N := slen (fst x).

Lemma fold_max_spec : forall (l : list (string * N)) m0,
    let mx := fold_left (fun m '((p, _) : string * N) => N.max m (slen p)) l m0 in
    m0 <= mx /\ (forall x, In x l -> plen x <= mx) /\ (mx = m0 \/ exists x, In x l /\ plen x = mx).
Proof.
  induction l as [|[p i] l IH]; intros m0; cbn.
  - split; [lia|]. split; [tauto | auto].
  - specialize (IH (N.max m0 (slen p))). cbn in IH. destruct IH as (A & B & C).
    split; [lia|]. split.
    + intros x [E|H]; [subst x; unfold plen; cbn; lia | auto].
    + destruct C as [C|(x & Hx & E)].
      * destruct (N.max_spec m0 (slen p)) as [[_ E]|[_ E]].
        -- right. exists (p, i). split; [auto|]. unfold plen; cbn. lia.
        -- left. lia.
      * right. exists x. auto.
Qed.

Lemma In_longest : forall l x,
    In x (longest l) <-> In x l /\ forall y, In y l -> plen y <= plen x.
Proof.
  intros l x. unfold longest. rewrite filter_In.
  destruct (fold_max_spec l 0) as (A & B & C). cbn in A, B, C.
  set (mx := fold_left (fun m '((p, _) : string * N) => N.max m (slen p)) l 0) in *.
  destruct x as [p i]. unfold plen at 2. cbn [fst]. rewrite N.eqb_eq. split.
  - intros [H E]. split; [auto|]. intros y Hy. rewrite E. auto.
  - intros [H Hmax]. split; [auto|].
    pose proof (B _ H) as Hle. unfold plen in Hle; cbn in Hle.
    destruct C as [C|(y & Hy & E)].
    + lia.
    + specialize (Hmax y Hy). lia.
Qed.

Lemma longest_nil : forall l, longest l = [] <-> l = [].
Proof.
  intros l. split; [|intros ->; reflexivity].
  intros H. destruct l as [|x l]; [reflexivity|]. exfalso.
  (* some element attains the maximum *)
  assert (exists y, In y (x :: l) /\ forall z, In z (x :: l) -> plen z <= plen y) as (y & Hy & Hmax).
  { clear H. induction l as [|a l IH].
    - exists x. split; [cbn; auto|]. intros z [E|[]]; subst; lia.
    - destruct IH as (y & Hy & Hmax).
      destruct (N.le_ge_cases (plen a) (plen y)).
      + exists y. split; [destruct Hy; cbn; auto|].
        intros z [E|[E|Hz]]; [subst; apply Hmax; cbn; auto | subst; auto | apply Hmax; cbn; auto].
      + exists a. split; [cbn; auto|].
        intros z [E|[E|Hz]]; [subst; specialize (Hmax z (or_introl eq_refl)); lia | subst; lia |].
        specialize (Hmax z (or_intror Hz)). lia. }
  assert (In y (longest (x :: l))) by (apply In_longest; auto).
  rewrite H in H0. destruct H0.
Qed.

Lemma prefix_same_len : forall u p p',
    String.prefix p u = true -> String.prefix p' u = true ->
    String.length p = String.length p' -> p = p'.
Proof.
  induction u as [|c u IH]; intros p p' H1 H2 HL.
  - destruct p, p'; cbn in *; try discriminate; reflexivity.
  - destruct p as [|a p], p' as [|a' p']; cbn in *; try discriminate; [reflexivity|].
    destruct (ascii_dec a c); [|discriminate]. destruct (ascii_dec a' c); [|discriminate].
    subst. f_equal. apply IH; auto.
Qed.

(** what it means for [r] to be the best match of [proc] in [d] *)
Definition no_exact (d : dealer) (proc : string) : Prop :=
  forall r', registered d r' -> reg_kind r' = MExact -> reg_proc r' <> proc.
Definition no_prefix (d : dealer) (proc : string) : Prop :=
  forall r', registered d r' -> reg_kind r' = MPrefix -> prefix_match proc (reg_proc r') = false.
Definition no_wildcard (d : dealer) (proc : string) : Prop :=
  forall r', registered d r' -> reg_kind r' = MWildcard -> wildcard_match proc (reg_proc r') = false.

Definition best_match (d : dealer) (proc : string) (r : registration) : Prop :=
  registered d r /\
  ((reg_kind r = MExact /\ reg_proc r = proc)
   \/ (no_exact d proc /\ reg_kind r = MPrefix /\ prefix_match proc (reg_proc r) = true /\
       forall r', registered d r' -> reg_kind r' = MPrefix -> prefix_match proc (reg_proc r') = true ->
                  slen (reg_proc r') <= slen (reg_proc r))
   \/ (no_exact d proc /\ no_prefix d proc /\ reg_kind r = MWildcard /\ wildcard_match proc (reg_proc r) = true /\
       forall r', registered d r' -> reg_kind r' = MWildcard -> wildcard_match proc (reg_proc r') = true ->
                  slen (reg_proc r') <= slen (reg_proc r))).

Section BestMatch.
  Variable lookup : N -> option session.
  Variable d : dealer.
  Hypothesis WF : dealer_wf lookup d.

  Lemma map_entry_reg : forall k p id, In (p, id) (d_map d k) ->
      exists r, registered d r /\ reg_id r = id /\ reg_proc r = p /\ reg_kind r = k.
  Proof.
    intros k p id H.
    apply (In_aget String.eqb String.eqb_spec) in H; [|apply (wf_mapkeys _ _ WF)].
    destruct (wf_map _ _ WF k p id H) as (r & Hr & Hp & Hk).
    destruct (wf_reg _ _ WF id r Hr) as (Hid & _).
    exists r. unfold registered. rewrite Hid. auto.
  Qed.

  Lemma reg_map_entry : forall r, registered d r -> In (reg_proc r, reg_id r) (d_map d (reg_kind r)).
  Proof.
    intros r Hr. destruct (wf_reg _ _ WF _ _ Hr) as (_ & Hs & _).
    apply (aget_In String.eqb String.eqb_spec) in Hs. exact Hs.
  Qed.

  Lemma sget_exact_none_iff : forall proc, sget (d_exact d) proc = None <-> no_exact d proc.
  Proof.
    intros proc. split.
    - intros H r' Hr Hk E. pose proof (reg_map_entry r' Hr) as HI. rewrite Hk in HI. cbn [d_map] in HI.
      apply (In_aget String.eqb String.eqb_spec) in HI; [|apply (wf_mapkeys _ _ WF MExact)].
      unfold sget in H. rewrite E in HI. congruence.
    - intros H. destruct (sget (d_exact d) proc) as [id|] eqn:E; [|reflexivity]. exfalso.
      destruct (wf_map _ _ WF MExact proc id E) as (r & Hr & Hp & Hk).
      destruct (wf_reg _ _ WF id r Hr) as (Hid & _).
      apply (H r); auto. unfold registered. rewrite Hid. exact Hr.
  Qed.

  Lemma regs_inj : forall r r', registered d r -> registered d r' -> reg_id r = reg_id r' -> r = r'.
  Proof. unfold registered. intros r r' H H' E. rewrite E in H. congruence. Qed.

  Theorem best_match_sound : forall proc oracle r,
      match_procedure d proc oracle = Some r -> best_match d proc r.
  Proof.
    intros proc oracle r. unfold match_procedure.
    destruct (sget (d_exact d) proc) as [id|] eqn:Hex.
    - intros Hr. destruct (wf_map _ _ WF MExact proc id Hex) as (r0 & Hr0 & Hp & Hk).
      assert (r0 = r) by congruence. subst r0.
      destruct (wf_reg _ _ WF id r Hr) as (Hid & _).
      split; [unfold registered; rewrite Hid; exact Hr | left; auto].
    - apply sget_exact_none_iff in Hex.
      set (pf := filter (fun '((p, _) : string * N) => prefix_match proc p) (d_pfx d)).
      destruct (longest pf) as [|[p id] rest] eqn:Hlp.
      + apply (proj1 (longest_nil _)) in Hlp.
        assert (Hnp : no_prefix d proc).
        { intros r' Hr' Hk'. destruct (prefix_match proc (reg_proc r')) eqn:Hm; [|reflexivity]. exfalso.
          pose proof (reg_map_entry r' Hr') as HI. rewrite Hk' in HI. cbn [d_map] in HI.
          assert (In (reg_proc r', reg_id r') pf) by (apply filter_In; auto).
          rewrite Hlp in H. destruct H. }
        set (wf_ := filter (fun '((w, _) : string * N) => wildcard_match proc w) (d_wc d)).
        destruct (nth_error (longest wf_) _) as [[w id]|] eqn:Hn; [|discriminate].
        intros Hr. apply nth_error_In in Hn. apply In_longest in Hn. destruct Hn as [Hin Hmax].
        apply filter_In in Hin. destruct Hin as [Hin Hm].
        destruct (map_entry_reg MWildcard w id Hin) as (r0 & Hr0 & Hid & Hp & Hk).
        assert (r0 = r) by (unfold registered in Hr0; rewrite Hid in Hr0; congruence). subst r0.
        split; [exact Hr0|]. right; right. rewrite Hp. repeat split; auto.
        intros r' Hr' Hk' Hm'. pose proof (reg_map_entry r' Hr') as HI. rewrite Hk' in HI. cbn [d_map] in HI.
        specialize (Hmax (reg_proc r', reg_id r')). apply Hmax. apply filter_In. auto.
      + intros Hr.
        assert (Hin : In (p, id) (longest pf)) by (rewrite Hlp; cbn; auto).
        apply In_longest in Hin. destruct Hin as [Hin Hmax].
        apply filter_In in Hin. destruct Hin as [Hin Hm].
        destruct (map_entry_reg MPrefix p id Hin) as (r0 & Hr0 & Hid & Hp & Hk).
        assert (r0 = r) by (unfold registered in Hr0; rewrite Hid in Hr0; congruence). subst r0.
        split; [exact Hr0|]. right; left. rewrite Hp. repeat split; auto.
        intros r' Hr' Hk' Hm'. pose proof (reg_map_entry r' Hr') as HI. rewrite Hk' in HI. cbn [d_map] in HI.
        specialize (Hmax (reg_proc r', reg_id r')). apply Hmax. apply filter_In. auto.
  Qed.

  Theorem best_match_complete : forall proc r,
      best_match d proc r ->
      (exists oracle, match_procedure d proc oracle = Some r) /\
      (reg_kind r <> MWildcard -> forall oracle, match_procedure d proc oracle = Some r).
  Proof.
    intros proc r [Hr [[Hk Hp]|[(Hne & Hk & Hm & Hmax)|(Hne & Hnp & Hk & Hm & Hmax)]]].
    - assert (E : forall oracle, match_procedure d proc oracle = Some r).
      { intros oracle. unfold match_procedure.
        destruct (wf_reg _ _ WF _ _ Hr) as (_ & Hs & _). rewrite Hk, Hp in Hs. cbn [d_map] in Hs.
        rewrite Hs. exact Hr. }
      split; [exists 0; auto | auto].
    - assert (E : forall oracle, match_procedure d proc oracle = Some r).
      { intros oracle. unfold match_procedure.
        apply sget_exact_none_iff in Hne. rewrite Hne.
        set (pf := filter (fun '((p, _) : string * N) => prefix_match proc p) (d_pfx d)).
        assert (Hin : In (reg_proc r, reg_id r) (longest pf)).
        { apply In_longest. pose proof (reg_map_entry r Hr) as HI. rewrite Hk in HI. cbn [d_map] in HI.
          split; [apply filter_In; auto|].
          intros [p' id'] Hy. apply filter_In in Hy. destruct Hy as [Hy Hm'].
          destruct (map_entry_reg MPrefix p' id' Hy) as (r' & Hr' & Hid' & Hp' & Hk').
          unfold plen; cbn [fst]. rewrite <- Hp'. apply Hmax; auto. rewrite Hp'. exact Hm'. }
        destruct (longest pf) as [|[p id] rest] eqn:Hlp; [destruct Hin|].
        assert (Hin0 : In (p, id) (longest pf)) by (rewrite Hlp; cbn; auto).
        apply In_longest in Hin0. destruct Hin0 as [Hin0 Hmax0].
        apply filter_In in Hin0. destruct Hin0 as [Hin0 Hm0].
        (* same List.length, both prefixes of proc: the same pattern *)
        rewrite <- Hlp in Hin. apply In_longest in Hin. destruct Hin as [Hin1 Hmax1].
        assert (plen (p, id) = plen (reg_proc r, reg_id r)).
        { apply N.le_antisymm; [apply Hmax1; apply filter_In; auto | apply Hmax0; exact Hin1]. }
        unfold plen, slen in H; cbn [fst] in H.
        assert (p = reg_proc r).
        { apply (prefix_same_len proc); [exact Hm0 | exact Hm | lia]. }
        subst p. apply filter_In in Hin1. destruct Hin1 as [Hin1 _].
        apply (In_aget String.eqb String.eqb_spec) in Hin0; [|apply (wf_mapkeys _ _ WF MPrefix)].
        apply (In_aget String.eqb String.eqb_spec) in Hin1; [|apply (wf_mapkeys _ _ WF MPrefix)].
        assert (id = reg_id r) by congruence. subst id. exact Hr. }
      split; [exists 0; auto | auto].
    - split; [|congruence].
      set (wf_ := filter (fun '((w, _) : string * N) => wildcard_match proc w) (d_wc d)).
      assert (Hin : In (reg_proc r, reg_id r) (longest wf_)).
      { apply In_longest. pose proof (reg_map_entry r Hr) as HI. rewrite Hk in HI. cbn [d_map] in HI.
        split; [apply filter_In; auto|].
        intros [p' id'] Hy. apply filter_In in Hy. destruct Hy as [Hy Hm'].
        destruct (map_entry_reg MWildcard p' id' Hy) as (r' & Hr' & Hid' & Hp' & Hk').
        unfold plen; cbn [fst]. rewrite <- Hp'. apply Hmax; auto. rewrite Hp'. exact Hm'. }
      destruct (In_nth_error _ _ Hin) as [i Hi].
      assert (Hlt : (i < List.length (longest wf_))%nat) by (apply nth_error_Some; congruence).
      exists (N.of_nat i). unfold match_procedure.
      apply sget_exact_none_iff in Hne. rewrite Hne.
      assert (Hpf : longest (filter (fun '((p, _) : string * N) => prefix_match proc p) (d_pfx d)) = []).
      { apply (proj2 (longest_nil _)). destruct (filter _ (d_pfx d)) as [|[p id] l] eqn:Hf; [reflexivity|]. exfalso.
        assert (Hi0 : In (p, id) (filter (fun '((p, _) : string * N) => prefix_match proc p) (d_pfx d)))
          by (rewrite Hf; cbn; auto).
        apply filter_In in Hi0. destruct Hi0 as [Hi0 Hm0].
        destruct (map_entry_reg MPrefix p id Hi0) as (r' & Hr' & _ & Hp' & Hk').
        specialize (Hnp r' Hr' Hk'). rewrite Hp' in Hnp. congruence. }
      rewrite Hpf. fold wf_.
      rewrite N.mod_small by lia. rewrite Nat2N.id. rewrite Hi. exact Hr.
  Qed.

  (** nothing matches at all  <->  [match_procedure] finds nothing *)
  Theorem best_match_none : forall proc oracle,
      match_procedure d proc oracle = None <-> (no_exact d proc /\ no_prefix d proc /\ no_wildcard d proc).
  Proof.
    intros proc oracle. split.
    - intros H. unfold match_procedure in H.
      destruct (sget (d_exact d) proc) as [id|] eqn:Hex.
      { destruct (wf_map _ _ WF MExact proc id Hex) as (r0 & Hr0 & _). congruence. }
      apply sget_exact_none_iff in Hex. split; [exact Hex|].
      set (pf := filter (fun '((p, _) : string * N) => prefix_match proc p) (d_pfx d)) in *.
      destruct (longest pf) as [|[p id] rest] eqn:Hlp.
      2:{ assert (Hin : In (p, id) (longest pf)) by (rewrite Hlp; cbn; auto).
          apply In_longest in Hin. destruct Hin as [Hin _]. apply filter_In in Hin. destruct Hin as [Hin _].
          destruct (map_entry_reg MPrefix p id Hin) as (r0 & Hr0 & Hid & _).
          unfold registered in Hr0. rewrite Hid in Hr0. congruence. }
      apply (proj1 (longest_nil _)) in Hlp. split.
      + intros r' Hr' Hk'. destruct (prefix_match proc (reg_proc r')) eqn:Hm; [|reflexivity]. exfalso.
        pose proof (reg_map_entry r' Hr') as HI. rewrite Hk' in HI. cbn [d_map] in HI.
        assert (In (reg_proc r', reg_id r') pf) by (apply filter_In; auto).
        rewrite Hlp in H0. destruct H0.
      + set (wf_ := filter (fun '((w, _) : string * N) => wildcard_match proc w) (d_wc d)) in *.
        intros r' Hr' Hk'. destruct (wildcard_match proc (reg_proc r')) eqn:Hm; [|reflexivity]. exfalso.
        pose proof (reg_map_entry r' Hr') as HI. rewrite Hk' in HI. cbn [d_map] in HI.
        assert (Hw : In (reg_proc r', reg_id r') wf_) by (apply filter_In; auto).
        destruct (longest wf_) as [|x l] eqn:Hlw.
        { apply (proj1 (longest_nil _)) in Hlw. rewrite Hlw in Hw. destruct Hw. }
        destruct (nth_error (x :: l) _) as [[w id]|] eqn:Hn.
        * apply nth_error_In in Hn. rewrite <- Hlw in Hn. apply In_longest in Hn. destruct Hn as [Hn _].
          apply filter_In in Hn. destruct Hn as [Hn _].
          destruct (map_entry_reg MWildcard w id Hn) as (r0 & Hr0 & Hid & _).
          unfold registered in Hr0. rewrite Hid in Hr0. congruence.
        * apply nth_error_None in Hn.
          assert (oracle mod N.max 1 (N.of_nat (List.length (x :: l))) < N.max 1 (N.of_nat (List.length (x :: l))))
            by (apply N.mod_upper_bound; lia).
          cbn [List.length] in *. lia.
    - intros (Hne & Hnp & Hnw). destruct (match_procedure d proc oracle) as [r|] eqn:E; [|reflexivity]. exfalso.
      apply best_match_sound in E.
      destruct E as [Hr [[Hk Hp]|[(_ & Hk & Hm & _)|(_ & _ & Hk & Hm & _)]]].
      + apply (Hne r); auto.
      + rewrite (Hnp r Hr Hk) in Hm. discriminate.
      + rewrite (Hnw r Hr Hk) in Hm. discriminate.
  Qed.
End BestMatch.

(** ** Callee selection *)
Definition rr_index (n cursor : N) : N := if n <=? cursor then 0 else cursor.

Lemma select_member : forall r oracle c nx, select_callee r oracle = Some (c, nx) -> In c (reg_callees r).
Proof.
  intros r oracle c nx. unfold select_callee.
  destruct (reg_callees r) as [|c0 [|c1 cs]] eqn:E; [discriminate | intros H; inversion H; cbn; auto |].
  repeat match goal with
  | |- context [if ?b then _ else _] => destruct b
  end; try discriminate;
  match goal with
  | |- option_map _ (nth_error ?l ?i) = _ -> _ =>
      destruct (nth_error l i) eqn:Hn; cbn [option_map]; [|discriminate];
      intros H; inversion H; subst; eapply nth_error_In; eassumption
  end.
Qed.

Lemma nth_last : forall (t : list N) c0 d, nth (List.length t) (c0 :: t) d = last (c0 :: t) d.
Proof.
  induction t as [|a t IH]; intros c0 d; [reflexivity|].
  change (nth (List.length (a :: t)) (c0 :: a :: t) d) with (nth (List.length t) (a :: t) d).
  rewrite IH. reflexivity.
Qed.

Theorem select_spec_proof : forall r oracle,
    let cs := reg_callees r in
    let n := N.of_nat (List.length cs) in
    match cs with
    | [] => select_callee r oracle = None
    | [c] => select_callee r oracle = Some (c, reg_next r)
    | c0 :: _ :: _ =>
        (reg_policy r = "first" -> select_callee r oracle = Some (c0, reg_next r)) /\
        (reg_policy r = "last" -> select_callee r oracle = Some (last cs c0, reg_next r)) /\
        (reg_policy r = "random" ->
           select_callee r oracle = Some (nth (N.to_nat ((oracle / 8) mod n)) cs c0, reg_next r) /\
           (oracle / 8) mod n < n) /\
        (reg_policy r = "roundrobin" ->
           let i := rr_index n (reg_next r) in
           select_callee r oracle = Some (nth (N.to_nat i) cs c0, i + 1) /\ i < n) /\
        (shared_policy (reg_policy r) = false -> select_callee r oracle = None)
    end.
Proof.
  intros r oracle cs n. unfold select_callee. fold cs.
  destruct cs as [|c0 [|c1 l]] eqn:E; [reflexivity | reflexivity |].
  assert (Hn : 2 <= n) by (subst n; cbn [List.length]; lia).
  assert (Hnth : forall i, (i < List.length (c0 :: c1 :: l))%nat ->
            nth_error (c0 :: c1 :: l) i = Some (nth i (c0 :: c1 :: l) c0)).
  { intros i Hi. apply nth_error_nth'. exact Hi. }
  split; [|split; [|split; [|split]]].
  - intros ->. reflexivity.
  - intros ->. change ("last" =? "first")%string with false. change ("last" =? "last")%string with true.
    cbv iota. rewrite Hnth by (cbn [List.length]; lia). cbn [option_map]. f_equal. f_equal.
    replace (List.length (c0 :: c1 :: l) - 1)%nat with (List.length (c1 :: l)) by (cbn [List.length]; lia).
    apply nth_last.
  - intros ->. change ("random" =? "first")%string with false. change ("random" =? "last")%string with false.
    change ("random" =? "roundrobin")%string with false. change ("random" =? "random")%string with true.
    cbv iota. fold n.
    assert ((oracle / 8) mod n < n) by (apply N.mod_upper_bound; lia).
    split; [|assumption]. rewrite Hnth; [reflexivity|]. subst n. lia.
  - intros ->. change ("roundrobin" =? "first")%string with false. change ("roundrobin" =? "last")%string with false.
    change ("roundrobin" =? "roundrobin")%string with true.
    cbv iota. fold n. fold (rr_index n (reg_next r)). cbv zeta.
    assert (rr_index n (reg_next r) < n) by (unfold rr_index; destruct (N.leb_spec n (reg_next r)); lia).
    split; [|assumption]. rewrite Hnth; [reflexivity|]. subst n. lia.
  - unfold shared_policy. intros H. apply orb_false_iff in H. destruct H as [H H4].
    apply orb_false_iff in H. destruct H as [H H3]. apply orb_false_iff in H. destruct H as [H1 H2].
    rewrite H1, H2, H3, H4. reflexivity.
Qed.

(** ** Round robin visits the members cyclically while membership is unchanged *)
Definition reg_set_next (r : registration) (nx : N) : registration :=
  mkReg (reg_id r) (reg_proc r) (reg_match r) (reg_policy r) (reg_disclose r)
        (reg_fwd_timeout r) nx (reg_callees r).

(** the callees chosen by consecutive first-chunk CALLs that resolve to [r]
    (each CALL stores the cursor [select_callee] returned, see [call]) *)
Fixpoint rr_calls (r : registration) (oracles : list N) : list N :=
  match oracles with
  | [] => []
  | o :: os => match select_callee r o with
               | Some (c, nx) => c :: rr_calls (reg_set_next r nx) os
               | None => []
               end
  end.

Theorem roundrobin_cyclic_proof : forall oracles r k,
    reg_policy r = "roundrobin" -> (2 <= List.length (reg_callees r))%nat ->
    (k < List.length oracles)%nat ->
    let n := N.of_nat (List.length (reg_callees r)) in
    nth_error (rr_calls r oracles) k =
    nth_error (reg_callees r) (N.to_nat ((rr_index n (reg_next r) + N.of_nat k) mod n)).
Proof.
  induction oracles as [|o os IH]; intros r k Hp Hlen Hk n; [cbn in Hk; lia|].
  pose proof (select_spec_proof r o) as S. cbv zeta in S. fold n in S.
  destruct (reg_callees r) as [|c0 [|c1 l]] eqn:E; [cbn in Hlen; lia | cbn in Hlen; lia |].
  destruct S as (_ & _ & _ & S & _). destruct (S Hp) as [Sel Hi]. clear S.
  cbn [rr_calls]. rewrite Sel.
  set (i := rr_index n (reg_next r)) in *.
  destruct k as [|k].
  - cbn [nth_error]. change (N.of_nat 0) with 0. rewrite N.add_0_r, N.mod_small by assumption.
    symmetry. apply nth_error_nth'. subst n. lia.
  - cbn [nth_error].
    rewrite (IH (reg_set_next r (i + 1)) k); [| exact Hp | cbn [reg_set_next reg_callees]; rewrite E; exact Hlen | cbn in Hk; lia].
    cbn [reg_set_next reg_callees reg_next]. rewrite E. fold n.
    f_equal. f_equal.
    unfold rr_index at 1. destruct (N.leb_spec n (i + 1)).
    + assert (i + 1 = n) by lia.
      replace (i + N.of_nat (S k)) with (N.of_nat k + 1 * n) by lia.
      rewrite N.mod_add by lia. reflexivity.
    + f_equal. lia.
Qed.
