(** * Realm-level proofs, part 3: what a session's departure does to the realm
    tables that the realm itself owns (clients, testaments), for every state. *)
From Nexus Require Import Router.Realm Router.AssocLemmas Router.RealmLib Router.RealmProofs Router.RealmMetaProofs.
From Coq Require Import Lia.

(** ** the session list *)
Lemma find_del_same : forall l sid, find_session (del_session l sid) sid = None.
Proof.
  induction l as [|x l IH]; intros sid; cbn; [reflexivity|].
  destruct (N.eqb_spec (s_id x) sid) as [E|E]; cbn; [apply IH|].
  destruct (N.eqb_spec (s_id x) sid); [contradiction|apply IH].
Qed.

Lemma find_del_other : forall l sid x, x <> sid -> find_session (del_session l sid) x = find_session l x.
Proof.
  induction l as [|y l IH]; intros sid x H; cbn; [reflexivity|].
  destruct (N.eqb_spec (s_id y) sid) as [E|E]; cbn.
  - destruct (N.eqb_spec (s_id y) x); [congruence|]. now apply IH.
  - destruct (N.eqb_spec (s_id y) x); [reflexivity|]. now apply IH.
Qed.

Lemma find_session_In : forall l sid s, find_session l sid = Some s -> In s l.
Proof.
  induction l as [|x l IH]; intros sid s; cbn; [discriminate|].
  destruct (N.eqb (s_id x) sid); [intros H; inversion H; now left|right; eauto].
Qed.

Lemma In_find_session : forall l s, In s l -> find_session l (s_id s) <> None.
Proof.
  induction l as [|x l IH]; intros s; cbn; [tauto|].
  destruct (N.eqb_spec (s_id x) (s_id s)); [discriminate|].
  intros [->|H]; [congruence|now apply IH].
Qed.

Lemma find_session_None : forall l sid, find_session l sid = None <-> ~ In sid (map s_id l).
Proof.
  induction l as [|x l IH]; intros sid; cbn; [tauto|].
  destruct (N.eqb_spec (s_id x) sid).
  - split; [discriminate|]. intros H; exfalso; apply H; now left.
  - rewrite IH. tauto.
Qed.

Lemma del_session_ids : forall l sid, map s_id (del_session l sid) = filter (fun x => negb (N.eqb x sid)) (map s_id l).
Proof.
  intros l sid. unfold del_session. induction l as [|x l IH]; cbn; [reflexivity|].
  destruct (N.eqb (s_id x) sid); cbn; now rewrite IH.
Qed.

Lemma del_session_absent : forall l sid, find_session l sid = None -> del_session l sid = l.
Proof.
  induction l as [|x l IH]; intros sid; cbn; [reflexivity|].
  destruct (N.eqb (s_id x) sid); [discriminate|]. cbn. intros H. f_equal. now apply IH.
Qed.

(** ** [leave]: the parts of the realm it owns *)
Lemma leave_core_frame : forall r sid,
    let r4 := fst (fst (leave_core r sid)) in
    r_cfg r4 = r_cfg r /\ r_clients r4 = del_session (r_clients r) sid /\ r_meta r4 = r_meta r /\
    r_testaments r4 = ndel (r_testaments r) sid /\ r_metaprocs r4 = r_metaprocs r /\ r_now r4 = r_now r.
Proof.
  intros. subst r4. unfold leave_core.
  destruct (dealer_remove_session _ _ _) as [[d o1] mps].
  destruct (broker_remove_session _ _ _) as [[b pg] o2]. cbn. repeat split.
Qed.

Theorem leave_frame : forall r sid,
    let r' := fst (leave r sid) in
    r_cfg r' = r_cfg r /\ r_clients r' = del_session (r_clients r) sid /\ r_meta r' = r_meta r /\
    r_testaments r' = (if find_session (r_clients r) sid then ndel (r_testaments r) sid else r_testaments r) /\
    r_metaprocs r' = r_metaprocs r /\ r_now r' = r_now r.
Proof.
  intros r sid r'. subst r'.
  destruct (find_session (r_clients r) sid) as [s|] eqn:F.
  - rewrite (leave_event_order r sid s F).
    pose proof (leave_core_frame r sid) as C. cbv zeta in C.
    destruct (leave_core r sid) as [[r4 o12] mps]. cbn [fst] in C.
    pose proof (meta_publish_all_frame (mps ++ testament_pubs r sid ++ [on_leave_pub s]) r4) as M.
    destruct (meta_publish_all r4 _) as [r5 o3]. cbn [fst] in *.
    destruct M as (M1 & M2 & M3 & M4 & M5 & M6 & M7). destruct C as (C1 & C2 & C3 & C4 & C5 & C6).
    repeat split; congruence.
  - rewrite (leave_absent r sid F). cbn [fst]. rewrite (del_session_absent _ _ F). repeat split.
Qed.

(** ** testaments_once *)
Theorem testaments_once : forall r sid s,
    find_session (r_clients r) sid = Some s ->
    (* the publications of the meta session during the departure, in order:
       registration events, detached testaments, destroyed testaments, on_leave *)
    (exists r4 o12 mps l,
        leave_core r sid = (r4, o12, mps) /\ mps = reg_leave_events sid l /\
        leave r sid =
        (fst (meta_publish_all r4 (mps ++ testament_pubs r sid ++ [on_leave_pub s])),
         o12 ++ snd (meta_publish_all r4 (mps ++ testament_pubs r sid ++ [on_leave_pub s])))) /\
    (* afterwards nothing is stored for the session *)
    nget (r_testaments (fst (leave r sid))) sid = None.
Proof.
  intros r sid s F. split.
  - destruct (leave_core_reg_events r sid) as (l & E).
    destruct (leave_core r sid) as [[r4 o12] mps] eqn:C. cbn [snd] in E.
    exists r4, o12, mps, l. split; [reflexivity|]. split; [exact E|].
    rewrite (leave_event_order r sid s F), C.
    destruct (meta_publish_all r4 _) as [r5 o3]. reflexivity.
  - destruct (leave_frame r sid) as (_ & _ & _ & T & _). rewrite T, F. apply ngd_same.
Qed.

(** the stored testaments of a session are the two lists of its bucket, each
    testament once, detached before destroyed *)
Lemma testament_pubs_bucket : forall r sid,
    testament_pubs r sid = test_pubs (fst (test_bucket r sid)) ++ test_pubs (snd (test_bucket r sid)).
Proof.
  intros. unfold testament_pubs, test_bucket. destruct (nget (r_testaments r) sid) as [[det des]|]; reflexivity.
Qed.

Lemma test_pubs_length : forall ts, List.length (test_pubs ts) = List.length ts.
Proof. intros; unfold test_pubs; apply map_length. Qed.

(** flushed testaments are not published *)
Theorem flushed_not_published : forall r sid,
    nget (r_testaments r) sid = None -> testament_pubs r sid = [].
Proof. intros r sid H. unfold testament_pubs. now rewrite H. Qed.

(** ** kill_sessions: each victim is sent the GOODBYE and then leaves *)
Lemma kill_sessions_cons : forall sid sids r g,
    kill_sessions r (sid :: sids) g =
    let '(r1, o1) := leave r sid in
    let '(r2, o2) := kill_sessions r1 sids g in (r2, (sid, g) :: o1 ++ o2).
Proof.
  unfold kill_sessions.
  assert (G : forall g sids r acc,
             fold_left (fun '((r, o) : realm * list out) sid =>
                          let '(r1, o1) := leave r sid in (r1, o ++ [(sid, g)] ++ o1)) sids (r, acc) =
             let '(r2, o2) := fold_left (fun '((r, o) : realm * list out) sid =>
                          let '(r1, o1) := leave r sid in (r1, o ++ [(sid, g)] ++ o1)) sids (r, []) in
             (r2, acc ++ o2)).
  { induction sids as [|x sids IH]; intros r acc; cbn [fold_left].
    - now rewrite app_nil_r.
    - destruct (leave r x) as [r1 o1]. rewrite IH.
      match goal with |- _ = (let '(_, _) := fold_left _ _ (_, ?a) in _) => rewrite (IH r1 a) end.
      destruct (fold_left _ sids (r1, [])) as [r2 o2]. now rewrite <- app_assoc. }
  intros sid sids r g. cbn [fold_left]. destruct (leave r sid) as [r1 o1].
  rewrite G. destruct (fold_left _ sids (r1, [])). reflexivity.
Qed.

Lemma kill_sessions_nil : forall r g, kill_sessions r [] g = (r, []).
Proof. reflexivity. Qed.

Theorem kill_sessions_exact : forall sids r g,
    let r' := fst (kill_sessions r sids g) in
    map s_id (r_clients r') = filter (fun x => negb (nmem x sids)) (map s_id (r_clients r)) /\
    (forall x, In x sids -> In (x, g) (snd (kill_sessions r sids g))) /\
    r_cfg r' = r_cfg r /\ r_meta r' = r_meta r /\ r_metaprocs r' = r_metaprocs r /\ r_now r' = r_now r.
Proof.
  induction sids as [|sid sids IH]; intros r g; cbv zeta.
  - rewrite kill_sessions_nil. cbn [fst snd]. split; [|repeat split; intros x []].
    induction (map s_id (r_clients r)) as [|y l IHl]; cbn in *; [reflexivity|congruence].
  - rewrite kill_sessions_cons. pose proof (leave_frame r sid) as L. cbv zeta in L.
    destruct (leave r sid) as [r1 o1]. cbn [fst] in L. destruct L as (L1 & L2 & L3 & _ & L5 & L6).
    specialize (IH r1 g). cbv zeta in IH. destruct (kill_sessions r1 sids g) as [r2 o2].
    cbn [fst snd] in *. destruct IH as (I1 & I2 & I3 & I4 & I5 & I6).
    split; [|split; [|repeat split; congruence]].
    + rewrite I1, L2, del_session_ids. clear.
      induction (map s_id (r_clients r)) as [|y l IHl]; cbn [filter]; [reflexivity|].
      cbn [nmem existsb]. rewrite (N.eqb_sym y sid).
      destruct (N.eqb sid y); cbn [negb orb filter]; [exact IHl|].
      unfold nmem in IHl |- *. destruct (existsb (N.eqb y) sids); cbn [negb]; now rewrite IHl.
    + intros x [<-|Hx]; [now left|]. right. apply in_or_app. right. now apply I2.
Qed.
