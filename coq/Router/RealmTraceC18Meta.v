(** * Histories of the whole model, C18 part 4: what [wamp.session.count],
    [wamp.session.list] and [wamp.session.get] answer at any point of any
    history is the attachment the trace up to that point defines.

    The registrations the realm creates for these three procedures have ids 1,
    2, 3 whatever the configuration ([init_session_procs], by computation on
    the sixteen combinations of the four configuration bits the initial dealer
    depends on); they are never lost ([realm_wf]'s [rw_metaregs]), stay the
    meta session's alone ([mregs]) and [r_metaprocs] never changes. *)
From Nexus Require Import Router.Realm Router.AssocLemmas Router.RealmLib Router.RealmProofs
     Router.RealmMetaProofs Router.RealmLeave.
From Nexus Require Import Router.DealerLib Router.DealerProofs Router.DealerReg Router.DealerCall Router.DealerWf
     Router.DealerWfCalls Router.DealerReply Router.DealerOwned Router.DealerTrace.
From Nexus Require Import Router.RealmWf Router.RealmStep Router.RealmIdle.
From Nexus Require Import Router.RealmTraceLib Router.RealmTrace Router.RealmTraceC05
     Router.RealmTraceC18 Router.RealmTraceC18Att Router.RealmTraceC18Call.
From Coq Require Import Lia ZifyN ZifyNat ZifyBool.

Definition session_procs : list (string * N) :=
  [("wamp.session.count", 1); ("wamp.session.list", 2); ("wamp.session.get", 3)].

Lemma init_session_procs : forall cfg proc id, In (proc, id) session_procs ->
    exists rg0, nget (d_regs (dealer0 cfg)) id = Some rg0 /\ reg_proc rg0 = proc /\ reg_match rg0 = "" /\
                nget (r_metaprocs (init_realm cfg)) id = Some proc.
Proof.
  intros [st di ms mk mm la hist az] proc id H.
  destruct H as [H|[H|[H|[]]]]; inversion H; subst; clear H;
    destruct st, di, mk, mm; vm_compute; eexists; repeat split; reflexivity.
Qed.

(** at every point of a history the procedure resolves to the meta session's registration *)
Lemma session_proc_matched : forall cfg pre proc id orc,
    In (proc, id) session_procs ->
    Forall op_ok pre -> k0 cfg + N.of_nat (List.length pre) <= max_idN ->
    exists rg, match_procedure (r_dealer (fst (run (init_realm cfg) pre))) proc orc = Some rg /\ meta_reg rg /\
               nget (r_metaprocs (fst (run (init_realm cfg) pre))) (reg_id rg) = Some proc.
Proof.
  intros cfg pre proc id orc H Ho Hk.
  pose proof (reachable_realm_wf cfg pre Ho Hk) as W. pose proof (run_inv18 cfg pre) as I.
  assert (Ecfg : r_cfg (fst (run (init_realm cfg) pre)) = cfg) by (rewrite run_cfg; apply init_realm_cfg).
  destruct (init_session_procs cfg proc id H) as (rg0 & H0 & Hp0 & Hm0 & Hmp).
  destruct (rw_metaregs _ W) as (A & _). rewrite Ecfg in A. destruct (A id rg0 H0) as (rg & Hr & Hp & Hmt & Hin).
  destruct (wf_reg _ _ (rw_dealer _ W) id rg Hr) as (Eid & Hmap & _).
  exists rg. split; [|split].
  - unfold reg_kind in Hmap. rewrite Hmt, Hm0, Hp, Hp0 in Hmap. change (mkind_of "") with MExact in Hmap.
    cbn [d_map] in Hmap. unfold match_procedure. rewrite Hmap. exact Hr.
  - exact (i_regs _ I id rg Hr Hin).
  - rewrite Eid, run_metaprocs. exact Hmp.
Qed.

(** the authorization gate lets the operation's message through unchanged *)
Definition gate_transparent (r : realm) (o : op) : Prop :=
  forall sid m orc s, o = OMsg sid m orc -> find_session (r_clients r) sid = Some s -> gate r s m = inl m.

Lemma gate_transparent_no_authz : forall r o, c_authz (r_cfg r) = None -> gate_transparent r o.
Proof. intros r o H sid m orc s _ _. now apply gate_none. Qed.

Lemma attached_find : forall cfg pre x, In x (att [] (trace cfg pre)) ->
    exists s, find_session (r_clients (fst (run (init_realm cfg) pre))) x = Some s.
Proof.
  intros cfg pre x H. rewrite <- realm_attached_is_trace_proof in H.
  destruct (find_session (r_clients (fst (run (init_realm cfg) pre))) x) as [s|] eqn:F; [eauto|].
  apply find_session_None in F. contradiction.
Qed.

(** ** The generic statement: the step's output is the one reply *)
Theorem session_proc_reply : forall cfg pre x q opts proc id args kw orc post,
    let ops := pre ++ OMsg x (CCall q opts proc args kw) orc :: post in
    In (proc, id) session_procs ->
    Forall op_ok ops -> k0 cfg + N.of_nat (List.length ops) <= max_idN ->
    along gate_fresh (init_realm cfg) pre ->
    gate_transparent (fst (run (init_realm cfg) pre)) (OMsg x (CCall q opts proc args kw) orc) ->
    In x (att [] (trace cfg pre)) ->
    opt_bool opts "progress" = false -> ppt_active opts = false ->
    mon_run (x, q) false (trace cfg pre) = Some false ->
    exists r1 det, r_clients r1 = r_clients (fst (run (init_realm cfg) pre)) /\ r_cfg r1 = cfg /\
      forall r2 resp, meta_call r1 proc det args kw orc = (r2, resp, None) ->
        nth_error (snd (run (init_realm cfg) ops)) (List.length pre) = Some [(x, reply q resp)].
Proof.
  intros cfg pre x q opts proc id args kw orc post ops Hin Ho Hk G Gt Hx Hprog Hppt Hmon. subst ops.
  apply Forall_app in Ho. destruct Ho as [Ho1 _]. rewrite app_length in Hk. cbn [List.length] in Hk.
  assert (Hk1 : k0 cfg + N.of_nat (List.length pre) <= max_idN) by lia.
  set (r := fst (run (init_realm cfg) pre)) in *.
  pose proof (run_inv18 cfg pre) as I. fold r in I.
  assert (Ecfg : r_cfg r = cfg) by (unfold r; rewrite run_cfg; apply init_realm_cfg).
  destruct (attached_find cfg pre x Hx) as (s & F). fold r in F.
  pose proof (Gt x _ orc s eq_refl F) as Eg.
  destruct (session_proc_matched cfg pre proc id orc Hin Ho1 Hk1) as (rg & Hm & Hmr & Hmp). fold r in Hm, Hmp.
  pose proof (shut_no_pending cfg pre (x, q) Ho1 Hk1 G Hmon) as Hb. fold r in Hb.
  destruct (meta_proc_step r x s q opts proc args kw orc rg proc I F Eg Hm Hmr Hmp Hprog Hppt Hb)
    as (r1 & det & Ec & Ecf & _ & Hstep).
  exists r1, det. split; [exact Ec|]. split; [congruence|].
  intros r2 resp Hmc. rewrite run_output_at. fold r. f_equal. exact (Hstep r2 resp Hmc).
Qed.

Lemma filter_all : forall {A} (l : list A), filter (fun _ => true) l = l.
Proof. induction l as [|a l IH]; cbn; [reflexivity|now rewrite IH]. Qed.

Section Answers.
  Variables (cfg : config) (pre : list op) (x q : N) (opts : dict) (args : list value) (kw : dict)
            (orc : N) (post : list op).
  Let A := att [] (trace cfg pre).
  Let r := fst (run (init_realm cfg) pre).

  Let side (proc : string) : Prop :=
    let ops := pre ++ OMsg x (CCall q opts proc args kw) orc :: post in
    Forall op_ok ops /\ k0 cfg + N.of_nat (List.length ops) <= max_idN /\
    along gate_fresh (init_realm cfg) pre /\
    gate_transparent r (OMsg x (CCall q opts proc args kw) orc) /\
    In x A /\ opt_bool opts "progress" = false /\ ppt_active opts = false /\
    mon_run (x, q) false (trace cfg pre) = Some false.

  Let out (proc : string) : option (list out) :=
    nth_error (snd (run (init_realm cfg) (pre ++ OMsg x (CCall q opts proc args kw) orc :: post))) (List.length pre).

  Lemma Aids : map s_id (r_clients r) = A.
  Proof. apply realm_attached_is_trace_proof. Qed.

  (** count and list with a role filter: the attached sessions the filter selects *)
  Lemma count_filtered : forall f, side "wamp.session.count" -> role_filter args = Some f ->
      out "wamp.session.count" =
      Some [(x, RResult q [] [vnat (N.of_nat (List.length (filter (role_selected f) (r_clients r))))] [])].
  Proof.
    intros f (Ho & Hk & G & Gt & Hx & Hp & Hppt & Hmon) Hf.
    destruct (session_proc_reply cfg pre x q opts "wamp.session.count" 1 args kw orc post (or_introl eq_refl)
                                 Ho Hk G Gt Hx Hp Hppt Hmon) as (r1 & det & Ec & _ & H).
    unfold out. rewrite (H r1 (MYield [vnat (N.of_nat (List.length (filter (role_selected f) (r_clients r1))))] [])).
    - cbn [reply]. fold r in Ec. now rewrite Ec.
    - rewrite meta_session_count, Hf. reflexivity.
  Qed.

  Lemma list_filtered : forall f, side "wamp.session.list" -> role_filter args = Some f ->
      out "wamp.session.list" =
      Some [(x, RResult q [] [ids_value (map s_id (filter (role_selected f) (r_clients r)))] [])].
  Proof.
    intros f (Ho & Hk & G & Gt & Hx & Hp & Hppt & Hmon) Hf.
    destruct (session_proc_reply cfg pre x q opts "wamp.session.list" 2 args kw orc post (or_intror (or_introl eq_refl))
                                 Ho Hk G Gt Hx Hp Hppt Hmon) as (r1 & det & Ec & _ & H).
    unfold out. rewrite (H r1 (MYield [ids_value (map s_id (filter (role_selected f) (r_clients r1)))] [])).
    - cbn [reply]. fold r in Ec. now rewrite Ec.
    - rewrite meta_session_list, Hf. reflexivity.
  Qed.

  Lemma count_plain : side "wamp.session.count" -> role_filter args = Some None ->
      out "wamp.session.count" = Some [(x, RResult q [] [vnat (N.of_nat (List.length A))] [])].
  Proof.
    intros S Hf. rewrite (count_filtered None S Hf). cbn [role_selected]. rewrite filter_all.
    rewrite <- Aids, map_length. reflexivity.
  Qed.

  Lemma list_plain : side "wamp.session.list" -> role_filter args = Some None ->
      out "wamp.session.list" = Some [(x, RResult q [] [ids_value A] [])].
  Proof.
    intros S Hf. rewrite (list_filtered None S Hf). cbn [role_selected]. rewrite filter_all, Aids. reflexivity.
  Qed.

  Lemma get_iff : forall sid, side "wamp.session.get" -> bind (arg0 args) as_id = Some sid ->
      (In sid A -> exists d, out "wamp.session.get" = Some [(x, RResult q [] [VDict d] [])]) /\
      (~ In sid A -> out "wamp.session.get" = Some [(x, RError c_CALL q [] e_no_such_session [] [])]).
  Proof.
    intros sid (Ho & Hk & G & Gt & Hx & Hp & Hppt & Hmon) Hs.
    destruct (session_proc_reply cfg pre x q opts "wamp.session.get" 3 args kw orc post
                                 (or_intror (or_intror (or_introl eq_refl)))
                                 Ho Hk G Gt Hx Hp Hppt Hmon) as (r1 & det & Ec & _ & H).
    fold r in Ec. unfold out. split; intros Hin.
    - rewrite <- Aids in Hin.
      destruct (find_session (r_clients r) sid) as [s|] eqn:F; [|apply find_session_None in F; contradiction].
      exists (clean_details (r_cfg r1) (s_details s)).
      rewrite (H r1 (MYield [VDict (clean_details (r_cfg r1) (s_details s))] [])); [reflexivity|].
      rewrite meta_session_get, Hs, Ec, F. reflexivity.
    - rewrite <- Aids in Hin. apply find_session_None in Hin.
      rewrite (H r1 (MError e_no_such_session)); [reflexivity|].
      rewrite meta_session_get, Hs, Ec, Hin. reflexivity.
  Qed.
End Answers.

(** ** The statements of Props/HistoriesC18.v *)
Theorem session_count_partial_proof : forall cfg pre x q opts args kw orc post,
    let ops := pre ++ OMsg x (CCall q opts "wamp.session.count" args kw) orc :: post in
    Forall op_ok ops -> k0 cfg + N.of_nat (List.length ops) <= max_idN ->
    along gate_fresh (init_realm cfg) pre ->
    gate_transparent (fst (run (init_realm cfg) pre)) (OMsg x (CCall q opts "wamp.session.count" args kw) orc) ->
    In x (att [] (trace cfg pre)) ->
    opt_bool opts "progress" = false -> ppt_active opts = false ->
    mon_run (x, q) false (trace cfg pre) = Some false ->
    role_filter args = Some None ->
    nth_error (snd (run (init_realm cfg) ops)) (List.length pre) =
    Some [(x, RResult q [] [vnat (N.of_nat (List.length (att [] (trace cfg pre))))] [])].
Proof. intros. apply count_plain; [repeat split|]; assumption. Qed.

Theorem session_list_partial_proof : forall cfg pre x q opts args kw orc post,
    let ops := pre ++ OMsg x (CCall q opts "wamp.session.list" args kw) orc :: post in
    Forall op_ok ops -> k0 cfg + N.of_nat (List.length ops) <= max_idN ->
    along gate_fresh (init_realm cfg) pre ->
    gate_transparent (fst (run (init_realm cfg) pre)) (OMsg x (CCall q opts "wamp.session.list" args kw) orc) ->
    In x (att [] (trace cfg pre)) ->
    opt_bool opts "progress" = false -> ppt_active opts = false ->
    mon_run (x, q) false (trace cfg pre) = Some false ->
    role_filter args = Some None ->
    nth_error (snd (run (init_realm cfg) ops)) (List.length pre) =
    Some [(x, RResult q [] [ids_value (att [] (trace cfg pre))] [])].
Proof. intros. apply list_plain; [repeat split|]; assumption. Qed.

Theorem session_get_partial_proof : forall cfg pre x q opts args kw orc post sid,
    let ops := pre ++ OMsg x (CCall q opts "wamp.session.get" args kw) orc :: post in
    Forall op_ok ops -> k0 cfg + N.of_nat (List.length ops) <= max_idN ->
    along gate_fresh (init_realm cfg) pre ->
    gate_transparent (fst (run (init_realm cfg) pre)) (OMsg x (CCall q opts "wamp.session.get" args kw) orc) ->
    In x (att [] (trace cfg pre)) ->
    opt_bool opts "progress" = false -> ppt_active opts = false ->
    mon_run (x, q) false (trace cfg pre) = Some false ->
    bind (arg0 args) as_id = Some sid ->
    (In sid (att [] (trace cfg pre)) ->
     exists d, nth_error (snd (run (init_realm cfg) ops)) (List.length pre) = Some [(x, RResult q [] [VDict d] [])]) /\
    (~ In sid (att [] (trace cfg pre)) ->
     nth_error (snd (run (init_realm cfg) ops)) (List.length pre) = Some [(x, RError c_CALL q [] e_no_such_session [] [])]).
Proof. intros. apply get_iff; [repeat split|]; assumption. Qed.

(** full strength: no authorizer *)
Lemma noauthz_gates : forall cfg pre o, c_authz cfg = None ->
    along gate_fresh (init_realm cfg) pre /\ gate_transparent (fst (run (init_realm cfg) pre)) o.
Proof.
  intros cfg pre o H. split; [now apply gate_fresh_no_authz|].
  apply gate_transparent_no_authz. rewrite run_cfg, init_realm_cfg. exact H.
Qed.

Theorem session_count_proof : forall cfg pre x q opts args kw orc post,
    let ops := pre ++ OMsg x (CCall q opts "wamp.session.count" args kw) orc :: post in
    c_authz cfg = None ->
    Forall op_ok ops -> k0 cfg + N.of_nat (List.length ops) <= max_idN ->
    In x (att [] (trace cfg pre)) ->
    opt_bool opts "progress" = false -> ppt_active opts = false ->
    mon_run (x, q) false (trace cfg pre) = Some false ->
    role_filter args = Some None ->
    nth_error (snd (run (init_realm cfg) ops)) (List.length pre) =
    Some [(x, RResult q [] [vnat (N.of_nat (List.length (att [] (trace cfg pre))))] [])].
Proof.
  intros cfg pre x q opts args kw orc post ops Ha.
  destruct (noauthz_gates cfg pre (OMsg x (CCall q opts "wamp.session.count" args kw) orc) Ha) as [G Gt].
  intros. apply session_count_partial_proof; assumption.
Qed.

Theorem session_list_proof : forall cfg pre x q opts args kw orc post,
    let ops := pre ++ OMsg x (CCall q opts "wamp.session.list" args kw) orc :: post in
    c_authz cfg = None ->
    Forall op_ok ops -> k0 cfg + N.of_nat (List.length ops) <= max_idN ->
    In x (att [] (trace cfg pre)) ->
    opt_bool opts "progress" = false -> ppt_active opts = false ->
    mon_run (x, q) false (trace cfg pre) = Some false ->
    role_filter args = Some None ->
    nth_error (snd (run (init_realm cfg) ops)) (List.length pre) =
    Some [(x, RResult q [] [ids_value (att [] (trace cfg pre))] [])].
Proof.
  intros cfg pre x q opts args kw orc post ops Ha.
  destruct (noauthz_gates cfg pre (OMsg x (CCall q opts "wamp.session.list" args kw) orc) Ha) as [G Gt].
  intros. apply session_list_partial_proof; assumption.
Qed.

Theorem session_get_proof : forall cfg pre x q opts args kw orc post sid,
    let ops := pre ++ OMsg x (CCall q opts "wamp.session.get" args kw) orc :: post in
    c_authz cfg = None ->
    Forall op_ok ops -> k0 cfg + N.of_nat (List.length ops) <= max_idN ->
    In x (att [] (trace cfg pre)) ->
    opt_bool opts "progress" = false -> ppt_active opts = false ->
    mon_run (x, q) false (trace cfg pre) = Some false ->
    bind (arg0 args) as_id = Some sid ->
    (In sid (att [] (trace cfg pre)) ->
     exists d, nth_error (snd (run (init_realm cfg) ops)) (List.length pre) = Some [(x, RResult q [] [VDict d] [])]) /\
    (~ In sid (att [] (trace cfg pre)) ->
     nth_error (snd (run (init_realm cfg) ops)) (List.length pre) = Some [(x, RError c_CALL q [] e_no_such_session [] [])]).
Proof.
  intros cfg pre x q opts args kw orc post sid ops Ha.
  destruct (noauthz_gates cfg pre (OMsg x (CCall q opts "wamp.session.get" args kw) orc) Ha) as [G Gt].
  intros. apply session_get_partial_proof; assumption.
Qed.

(** with a role filter: the count / list of the attached sessions whose
    recorded authrole the filter selects (the records are the realm's; the
    trace alone does not determine them: wamp.session.modify_details) *)
Theorem session_count_filtered_proof : forall cfg pre x q opts args kw orc post f,
    let ops := pre ++ OMsg x (CCall q opts "wamp.session.count" args kw) orc :: post in
    c_authz cfg = None ->
    Forall op_ok ops -> k0 cfg + N.of_nat (List.length ops) <= max_idN ->
    In x (att [] (trace cfg pre)) ->
    opt_bool opts "progress" = false -> ppt_active opts = false ->
    mon_run (x, q) false (trace cfg pre) = Some false ->
    role_filter args = Some f ->
    map s_id (r_clients (fst (run (init_realm cfg) pre))) = att [] (trace cfg pre) /\
    nth_error (snd (run (init_realm cfg) ops)) (List.length pre) =
    Some [(x, RResult q [] [vnat (N.of_nat (List.length (filter (role_selected f)
                                             (r_clients (fst (run (init_realm cfg) pre))))))] [])].
Proof.
  intros cfg pre x q opts args kw orc post f ops Ha Ho Hk Hx Hp Hppt Hmon Hf.
  destruct (noauthz_gates cfg pre (OMsg x (CCall q opts "wamp.session.count" args kw) orc) Ha) as [G Gt].
  split; [apply realm_attached_is_trace_proof|]. apply count_filtered; [repeat split|]; assumption.
Qed.
