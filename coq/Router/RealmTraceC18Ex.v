(** * Histories of the whole model, C18: concrete histories.
    - [AttEx]: four sessions join; count; one is dropped, one says GOODBYE,
      one is killed through wamp.session.kill; the dropped id joins again;
      list; get of an attached and of an ended session.  The hypotheses of the
      session count / list / get theorems hold at each of the calls and the
      answers are the attachment read off the trace. *)
From Nexus Require Import Router.Realm Router.RealmProofs Router.RealmWf Router.RealmStep.
From Nexus Require Import Router.DealerLib Router.DealerReply Router.DealerTrace.
From Nexus Require Import Router.RealmTraceLib Router.RealmTrace Router.RealmTraceC05 Router.RealmTraceEx.
From Nexus Require Import Router.RealmTraceC18 Router.RealmTraceC18Att Router.RealmTraceC18Call Router.RealmTraceC18Meta.
From Coq Require Import Lia.

Module AttEx.
  Definition cfg0 : config := mkConfig false false false true true false [] None.
  Definition joins4 : list op :=
    [OJoin 10 false hello_all; OJoin 11 false hello_all; OJoin 12 false hello_all; OJoin 13 false hello_all].
  Definition count1 := OMsg 10 (CCall 1 [] "wamp.session.count" [] []) 0.
  Definition ends3 : list op :=
    [ODrop 11; OMsg 12 (CGoodbye [] "wamp.close.normal") 0;
     OMsg 10 (CCall 2 [] "wamp.session.kill" [vid 13] []) 0;
     OJoin 11 false hello_all].
  Definition list1 := OMsg 10 (CCall 3 [] "wamp.session.list" [] []) 0.
  Definition get1 := OMsg 10 (CCall 4 [] "wamp.session.get" [vid 11] []) 0.
  Definition get2 := OMsg 10 (CCall 5 [] "wamp.session.get" [vid 12] []) 0.
  Definition pre_count := joins4.
  Definition pre_list := joins4 ++ count1 :: ends3.
  Definition pre_get1 := pre_list ++ [list1].
  Definition pre_get2 := pre_get1 ++ [get1].
  Definition ops0 : list op := pre_get2 ++ [get2].

  Lemma side : Forall op_ok ops0 /\ k0 cfg0 + N.of_nat (List.length ops0) <= max_idN /\ c_authz cfg0 = None.
  Proof. split; [unfold ops0, pre_get2, pre_get1, pre_list, joins4, ends3; cbn [app]; ops_ok|]. split; [apply N.leb_le; reflexivity|reflexivity]. Qed.

  (** the attachment read off the trace, at the four calls and at the end *)
  Lemma attached :
      att [] (trace cfg0 pre_count) = [10; 11; 12; 13] /\
      att [] (trace cfg0 pre_list) = [10; 11] /\
      att [] (trace cfg0 ops0) = [10; 11] /\
      map s_id (r_clients (fst (run (init_realm cfg0) ops0))) = [10; 11].
  Proof. vm_compute. repeat split. Qed.

  (** the end markers of the three departures, in the trace *)
  Lemma ends_in_trace :
      filter (fun e => match end_of e with Some _ => true | None => false end) (trace cfg0 ops0) =
      [EIn (ODrop 11); EOut (12, RGoodbye [] e_goodbye_and_out); EOut (13, RGoodbye [] e_close_normal)].
  Proof. vm_compute. reflexivity. Qed.

  (** hypotheses of the theorems at each call *)
  Lemma call_hyps :
      In 10 (att [] (trace cfg0 pre_count)) /\ In 10 (att [] (trace cfg0 pre_list)) /\
      In 10 (att [] (trace cfg0 pre_get1)) /\ In 10 (att [] (trace cfg0 pre_get2)) /\
      opt_bool [] "progress" = false /\ ppt_active [] = false /\
      mon_run (10, 1) false (trace cfg0 pre_count) = Some false /\
      mon_run (10, 3) false (trace cfg0 pre_list) = Some false /\
      mon_run (10, 4) false (trace cfg0 pre_get1) = Some false /\
      mon_run (10, 5) false (trace cfg0 pre_get2) = Some false /\
      role_filter [] = Some None /\
      bind (arg0 [vid 11]) as_id = Some 11 /\ bind (arg0 [vid 12]) as_id = Some 12 /\
      In 11 (att [] (trace cfg0 pre_get1)) /\ ~ In 12 (att [] (trace cfg0 pre_get2)).
  Proof.
    vm_compute. repeat split; try (left; reflexivity); try (right; left; reflexivity).
    intros [H|[H|[]]]; discriminate H.
  Qed.

  (** and what the router answered *)
  Lemma answers :
      nth_error (snd (run (init_realm cfg0) ops0)) (List.length pre_count) = Some [(10, RResult 1 [] [vnat 4] [])] /\
      nth_error (snd (run (init_realm cfg0) ops0)) (List.length pre_list) = Some [(10, RResult 3 [] [ids_value [10; 11]] [])] /\
      (exists d, nth_error (snd (run (init_realm cfg0) ops0)) (List.length pre_get1) = Some [(10, RResult 4 [] [VDict d] [])]) /\
      nth_error (snd (run (init_realm cfg0) ops0)) (List.length pre_get2) = Some [(10, RError c_CALL 5 [] e_no_such_session [] [])].
  Proof.
    split; [vm_compute; reflexivity|]. split; [vm_compute; reflexivity|]. split; [|vm_compute; reflexivity].
    eexists. vm_compute. reflexivity.
  Qed.
End AttEx.
