(** * Histories of the whole model, C18: concrete histories.
    - [AttEx]: four sessions join; count; one is dropped, one says GOODBYE,
      one is killed through wamp.session.kill; the dropped id joins again;
      list; get of an attached and of an ended session.  The hypotheses of the
      session count / list / get theorems hold at each of the calls and the
      answers are the attachment read off the trace.
    - [ObsEx]: an observer (session 10, a local session with authrole
      "trusted") subscribes to wamp.session.on_join and on_leave; in the window
      session 11 joins, is dropped and joins again, 12 and 13 join, 13 stores
      an (innocent) testament, 12 kills every anonymous session but itself
      through wamp.session.kill_by_authrole (11 and 13, in one step) and says
      GOODBYE.  The observer reads exactly the attachment changes, in order.
      (wamp.session.kill_all would end the observer too.)
    - [Forge]: the same observer; session 11 publishes to
      wamp.session.on_leave itself and stores a testament with that topic, then
      is dropped: the observer reads on_leave events for sessions 99 and 77
      that never joined.  The router reserves neither topic. *)
From Nexus Require Import Router.Realm Router.RealmProofs Router.RealmWf Router.RealmStep.
From Nexus Require Import Router.DealerLib Router.DealerReply Router.DealerTrace.
From Nexus Require Import Router.RealmTraceLib Router.RealmTrace Router.RealmTraceC05 Router.RealmTraceEx.
From Nexus Require Import Router.BrokerWf.
From Nexus Require Import Router.RealmTraceC18 Router.RealmTraceC18Att Router.RealmTraceC18Call Router.RealmTraceC18Meta.
From Nexus Require Import Router.RealmTraceC18Obs Router.RealmTraceC18Bal Router.RealmTraceC18Step Router.RealmTraceC18Hist.
From Coq Require Import Lia.

Module AttEx.
  Definition cfg0 : config := mkConfig false false false true true false [] None.
  Definition joins4 : list op :=
    [OJoin 10 false hello_all; OJoin 11 false hello_all; OJoin 12 false hello_all; OJoin 13 false hello_all].
  Definition count1 := OMsg 10 (CCall 1 [] "wamp.session.count" [] []) 0.
  Definition ends3 : list op :=
    [ODrop 11; OMsg 12 (CGoodbye [] "wamp.close.normal") 0;
     OMsg 10 (CCall 2 [] "wamp.session.kill" [vid 13] []) 0;
     OJoin 11 false hello_all].
  Definition list1 := OMsg 10 (CCall 3 [] "wamp.session.list" [] []) 0.
  Definition get1 := OMsg 10 (CCall 4 [] "wamp.session.get" [vid 11] []) 0.
  Definition get2 := OMsg 10 (CCall 5 [] "wamp.session.get" [vid 12] []) 0.
  Definition pre_count := joins4.
  Definition pre_list := joins4 ++ count1 :: ends3.
  Definition pre_get1 := pre_list ++ [list1].
  Definition pre_get2 := pre_get1 ++ [get1].
  Definition ops0 : list op := pre_get2 ++ [get2].

  Lemma side : Forall op_ok ops0 /\ k0 cfg0 + N.of_nat (List.length ops0) <= max_idN /\ c_authz cfg0 = None.
  Proof. split; [unfold ops0, pre_get2, pre_get1, pre_list, joins4, ends3; cbn [app]; ops_ok|]. split; [apply N.leb_le; reflexivity|reflexivity]. Qed.

  (** the attachment read off the trace, at the four calls and at the end *)
  Lemma attached :
      att [] (trace cfg0 pre_count) = [10; 11; 12; 13] /\
      att [] (trace cfg0 pre_list) = [10; 11] /\
      att [] (trace cfg0 ops0) = [10; 11] /\
      map s_id (r_clients (fst (run (init_realm cfg0) ops0))) = [10; 11].
  Proof. vm_compute. repeat split. Qed.

  (** the end markers of the three departures, in the trace *)
  Lemma ends_in_trace :
      filter (fun e => match end_of e with Some _ => true | None => false end) (trace cfg0 ops0) =
      [EIn (ODrop 11); EOut (12, RGoodbye [] e_goodbye_and_out); EOut (13, RGoodbye [] e_close_normal)].
  Proof. vm_compute. reflexivity. Qed.

  (** hypotheses of the theorems at each call *)
  Lemma call_hyps :
      In 10 (att [] (trace cfg0 pre_count)) /\ In 10 (att [] (trace cfg0 pre_list)) /\
      In 10 (att [] (trace cfg0 pre_get1)) /\ In 10 (att [] (trace cfg0 pre_get2)) /\
      opt_bool [] "progress" = false /\ ppt_active [] = false /\
      mon_run (10, 1) false (trace cfg0 pre_count) = Some false /\
      mon_run (10, 3) false (trace cfg0 pre_list) = Some false /\
      mon_run (10, 4) false (trace cfg0 pre_get1) = Some false /\
      mon_run (10, 5) false (trace cfg0 pre_get2) = Some false /\
      role_filter [] = Some None /\
      bind (arg0 [vid 11]) as_id = Some 11 /\ bind (arg0 [vid 12]) as_id = Some 12 /\
      In 11 (att [] (trace cfg0 pre_get1)) /\ ~ In 12 (att [] (trace cfg0 pre_get2)).
  Proof.
    vm_compute. repeat split; try (left; reflexivity); try (right; left; reflexivity).
    intros [H|[H|[]]]; discriminate H.
  Qed.

  (** and what the router answered *)
  Lemma answers :
      nth_error (snd (run (init_realm cfg0) ops0)) (List.length pre_count) = Some [(10, RResult 1 [] [vnat 4] [])] /\
      nth_error (snd (run (init_realm cfg0) ops0)) (List.length pre_list) = Some [(10, RResult 3 [] [ids_value [10; 11]] [])] /\
      (exists d, nth_error (snd (run (init_realm cfg0) ops0)) (List.length pre_get1) = Some [(10, RResult 4 [] [VDict d] [])]) /\
      nth_error (snd (run (init_realm cfg0) ops0)) (List.length pre_get2) = Some [(10, RError c_CALL 5 [] e_no_such_session [] [])].
  Proof.
    split; [vm_compute; reflexivity|]. split; [vm_compute; reflexivity|]. split; [|vm_compute; reflexivity].
    eexists. vm_compute. reflexivity.
  Qed.
End AttEx.

(** a decidable form of the observer's passivity *)
Definition zpassive_b (z : N) (e : event) : bool :=
  negb (match end_of e with Some x => x =? z | None => false end) &&
  negb (match e with EIn (OMsg x _ _) => x =? z | _ => false end).

Lemma zpassive_b_ok : forall z tr, forallb (zpassive_b z) tr = true -> forall e, In e tr -> zpassive z e.
Proof.
  intros z tr H e Hin. rewrite forallb_forall in H. specialize (H e Hin). unfold zpassive_b in H.
  apply andb_true_iff in H. destruct H as [A B]. split.
  - intros E. rewrite E, N.eqb_refl in A. discriminate.
  - intros m orc E. subst e. rewrite N.eqb_refl in B. discriminate.
Qed.

Module ObsEx.
  Definition cfg0 : config := mkConfig false false false true true false [] None.
  Definition pre0 : list op :=
    [OJoin 10 true hello_all; OMsg 10 (CSubscribe 1 [] t_on_join) 0; OMsg 10 (CSubscribe 2 [] t_on_leave) 0].
  Definition mid0 : list op :=
    [OJoin 11 false hello_all; ODrop 11; OJoin 11 false hello_all; OJoin 12 false hello_all; OJoin 13 false hello_all;
     OMsg 13 (CCall 1 [] "wamp.session.add_testament" [vstr "bye"; VList [vnat 7]; VDict []] []) 0;
     OMsg 12 (CCall 1 [] "wamp.session.kill_by_authrole" [vstr "anonymous"] []) 0;
     OMsg 12 (CGoodbye [] "wamp.close.normal") 0].
  (* notations, not definitions: the statements below are matched syntactically *)
  Local Notation r0 := (fst (run (init_realm cfg0) pre0)).
  Local Notation window := (trace_from (fst (run (init_realm cfg0) pre0)) mid0).

  Lemma side : c_authz cfg0 = None /\ Forall op_ok (pre0 ++ mid0) /\
               k0 cfg0 + N.of_nat (List.length (pre0 ++ mid0)) <= max_idN /\
               Forall (fun o => forges o = false) (pre0 ++ mid0).
  Proof.
    split; [reflexivity|]. split; [unfold pre0, mid0; cbn [app]; ops_ok|]. split; [apply N.leb_le; reflexivity|].
    unfold pre0, mid0; cbn [app]; repeat (constructor; [vm_compute; reflexivity|]); constructor.
  Qed.

  Lemma observer : In 10 (att [] (trace cfg0 pre0)) /\
                   holds_sig (r_broker r0) 10 1 t_on_join MExact /\ holds_sig (r_broker r0) 10 2 t_on_leave MExact /\
                   (forall e, In e window -> zpassive 10 e).
  Proof.
    split; [vm_compute; auto|]. split; [|split].
    - exists (mkSub 1 t_on_join "" [10]). vm_compute. auto.
    - exists (mkSub 2 t_on_leave "" [10]). vm_compute. auto.
    - apply zpassive_b_ok. vm_compute. reflexivity.
  Qed.

  (** what the observer reads = the attachment changes of the window; the
      GOODBYEs of the double kill precede the victims' on_leave events *)
  Lemma reads :
      observed 10 1 2 window =
        [(true, 11); (false, 11); (true, 11); (true, 12); (true, 13); (false, 11); (false, 13); (false, 12)] /\
      sess_changes (att [] (trace cfg0 pre0)) window =
        [(true, 11); (false, 11); (true, 11); (true, 12); (true, 13); (false, 11); (false, 13); (false, 12)] /\
      about 11 (observed 10 1 2 window) = [true; false; true; false].
  Proof. vm_compute. repeat split. Qed.
End ObsEx.

Module Forge.
  Definition midF : list op :=
    [OJoin 11 false hello_all; OMsg 11 (CPublish 1 [] t_on_leave [vid 99] []) 0;
     OMsg 11 (CCall 2 [] "wamp.session.add_testament" [vstr t_on_leave; VList [vid 77]; VDict []] []) 0; ODrop 11].
  Local Notation r0 := (fst (run (init_realm ObsEx.cfg0) ObsEx.pre0)).
  Local Notation windowF := (trace_from (fst (run (init_realm ObsEx.cfg0) ObsEx.pre0)) midF).

  Lemma reads : observed 10 1 2 windowF = [(true, 11); (false, 99); (false, 77); (false, 11)] /\
                sess_changes (att [] (trace ObsEx.cfg0 ObsEx.pre0)) windowF = [(true, 11); (false, 11)] /\
                map forges midF = [false; true; true; false].
  Proof. vm_compute. repeat split. Qed.

  Lemma passive : forall e, In e windowF -> zpassive 10 e.
  Proof. apply zpassive_b_ok. vm_compute. reflexivity. Qed.

  Lemma side : Forall op_ok (ObsEx.pre0 ++ midF) /\ k0 ObsEx.cfg0 + N.of_nat (List.length (ObsEx.pre0 ++ midF)) <= max_idN.
  Proof. split; [unfold ObsEx.pre0, midF; cbn [app]; ops_ok|apply N.leb_le; reflexivity]. Qed.

  Theorem balanced_refuted :
      exists cfg pre mid z J L,
        c_authz cfg = None /\ Forall op_ok (pre ++ mid) /\
        k0 cfg + N.of_nat (List.length (pre ++ mid)) <= max_idN /\
        In z (att [] (trace cfg pre)) /\
        holds_sig (r_broker (fst (run (init_realm cfg) pre))) z J t_on_join MExact /\
        holds_sig (r_broker (fst (run (init_realm cfg) pre))) z L t_on_leave MExact /\
        (forall e, In e (trace_from (fst (run (init_realm cfg) pre)) mid) -> zpassive z e) /\
        observed z J L (trace_from (fst (run (init_realm cfg) pre)) mid) <>
        sess_changes (att [] (trace cfg pre)) (trace_from (fst (run (init_realm cfg) pre)) mid).
  Proof.
    exists ObsEx.cfg0, ObsEx.pre0, midF, 10, 1, 2.
    destruct ObsEx.observer as (A & B & C & _). destruct side as [S1 S2]. destruct reads as (E1 & E2 & _).
    split; [exact (eq_refl None)|]. split; [exact S1|]. split; [exact S2|].
    split; [exact A|]. split; [exact B|]. split; [exact C|]. split; [exact passive|].
    rewrite E1, E2. discriminate.
  Qed.
End Forge.
