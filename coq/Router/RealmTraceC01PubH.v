(** * Histories, broker side, part 9 (C01): publication ids along histories. *)
From Nexus Require Import Router.Realm Router.AssocLemmas Router.RealmLib Router.RealmProofs Router.RealmMetaProofs.
From Nexus Require Import Router.BrokerWf Router.BrokerPres Router.BrokerPublish Router.BrokerSub Router.BrokerRun.
From Nexus Require Import Router.RealmWf Router.RealmStep Router.RealmIdle.
From Nexus Require Import Router.RealmTraceLib Router.RealmTrace Router.RealmTraceC01Seg Router.RealmTraceC01Ev
     Router.RealmTraceC01Mon Router.RealmTraceC01Kind Router.RealmTraceC01Ok Router.RealmTraceC01Sub Router.RealmTraceC01Pub.
From Coq Require Import Lia ZifyN ZifyNat ZifyBool.

(** the outputs that do not come from the broker carry no publication id
    (no hypothesis on the gate: the monitor's operation is instantiated with a
    tick, for which the UNSUBSCRIBE condition of [seg_ok] is void) *)
Lemma step_so_nopub : forall r o k,
    realm_wf r -> ids_below k r -> k < max_idN -> op_ok o -> so_nopub (segs_step r o).
Proof.
  intros r o k W I Hk Ho.
  destruct o as [sid l h|sid m oracle|sid|ms].
  - apply (seg_ok_so_nopub (OJoin sid l h) (r_cfg r) _ (r_broker r)).
    apply (ok_step r (OJoin sid l h) k W I Hk Ho). intros sid0 q sub orc s m' E. discriminate E.
  - apply (seg_ok_so_nopub (OTick 0) (r_cfg r) _ (r_broker r)).
    cbn [segs_step]. destruct (find_session (r_clients r) sid) as [s|] eqn:F; [|exact Logic.I].
    assert (Hs : find_session (r_clients r) (s_id s) = Some s) by now rewrite (find_session_id _ _ _ F).
    destruct (gate r s m) as [m'|out] eqn:Eg.
    + apply (ok_handle _ r s m' oracle k W I Hk Hs). intros q sub _ s0 orc E. discriminate E.
    + cbn [seg_ok]. split; [|exact Logic.I].
      destruct (gate_refusal_shape r s m out Eg) as [->|(det & e & a & ->)]; [intros x []|].
      intros x [<-|[]]. left. reflexivity.
  - apply (seg_ok_so_nopub (ODrop sid) (r_cfg r) _ (r_broker r)).
    apply (ok_step r (ODrop sid) k W I Hk Ho). intros sid0 q sub orc s m' E. discriminate E.
  - apply (seg_ok_so_nopub (OTick ms) (r_cfg r) _ (r_broker r)).
    apply (ok_step r (OTick ms) k W I Hk Ho). intros sid0 q sub orc s m' E. discriminate E.
Qed.

Theorem step_prange : forall r o k,
    realm_wf r -> ids_below k r -> k < max_idN -> op_ok o ->
    prange (r_pubgen r) (snd (step r o)) (r_pubgen (fst (step r o))).
Proof.
  intros r o k W I Hk Ho. destruct (step_decomp r o) as (_ & T & E).
  pose proof (seg_prange (r_cfg r) (segs_step r o) (r_broker r) (r_pubgen r) (step_so_nopub r o k W I Hk Ho) T) as P.
  rewrite E in P. exact P.
Qed.

Theorem run_prange : forall ops r k,
    realm_wf r -> ids_below k r -> Forall op_ok ops -> k + N.of_nat (List.length ops) <= max_idN ->
    prange (r_pubgen r) (List.concat (snd (run r ops))) (r_pubgen (fst (run r ops))).
Proof.
  induction ops as [|o ops IH]; intros r k W I Ho Hk; [apply prange_nil|].
  cbn [List.length] in Hk. inversion Ho as [|? ? Ho1 Ho2]; subst.
  assert (Hk1 : k < max_idN) by lia.
  destruct (step_wf r o k W I Hk1 Ho1) as [W1 I1].
  rewrite run_cons. cbn [fst snd List.concat].
  eapply prange_app; [eapply step_prange; eauto|]. apply (IH (fst (step r o)) (k + 1) W1 I1 Ho2). lia.
Qed.

(** every id sent while handling [o] is greater than every id sent earlier in
    the history, and the ids of the step are non-decreasing *)
Theorem realm_event_pubid_fresh_proof : forall cfg pre o,
    Forall op_ok (pre ++ [o]) -> k0 cfg + N.of_nat (List.length (pre ++ [o])) <= max_idN ->
    let r := fst (run (init_realm cfg) pre) in
    (forall out m p, In out (snd (run (init_realm cfg) pre)) -> In m out -> pubid_of (snd m) = Some p -> p <= r_pubgen r) /\
    (forall m p, In m (snd (step r o)) -> pubid_of (snd m) = Some p ->
                 r_pubgen r < p <= r_pubgen (fst (step r o))) /\
    ascending (r_pubgen r + 1) (pubids (snd (step r o))).
Proof.
  intros cfg pre o Ho Hk r. rewrite app_length in Hk. cbn [List.length] in Hk.
  apply Forall_app in Ho. destruct Ho as [Ho1 Ho2]. inversion Ho2 as [|? ? Ho3 _]; subst.
  destruct (init_realm_wf cfg) as [W0 I0]; [lia|].
  destruct (run_wf pre (init_realm cfg) (k0 cfg) W0 I0 Ho1) as [W I]; [lia|].
  pose proof (run_prange pre (init_realm cfg) (k0 cfg) W0 I0 Ho1) as (L1 & A1 & F1); [lia|].
  pose proof (step_prange r o (k0 cfg + N.of_nat (List.length pre)) W I) as (L2 & A2 & F2); [lia|exact Ho3|].
  rewrite Forall_forall in F1, F2. split; [|split; [|exact A2]].
  - intros out m p Hout Hm E. apply F1. apply pubids_In. exists m. split; [|exact E].
    apply in_concat. exists out. auto.
  - intros m p Hm E. assert (Hp : In p (pubids (snd (step r o)))) by (apply pubids_In; eauto).
    pose proof (ascending_lower _ _ _ A2 Hp). specialize (F2 p Hp). cbv beta in F2. fold r in F2. lia.
Qed.

(** the outputs of a history, in order *)
Definition tr_outs (tr : list event) : list out :=
  flat_map (fun e => match e with EOut m => [m] | EIn _ => [] end) tr.

Lemma tr_outs_app : forall a b, tr_outs (a ++ b) = tr_outs a ++ tr_outs b.
Proof. intros. unfold tr_outs. apply flat_map_app. Qed.

Lemma tr_outs_map : forall o, tr_outs (map EOut o) = o.
Proof.
  induction o as [|m o IH]; cbn [map]; [reflexivity|].
  change (m :: tr_outs (map EOut o) = m :: o). now rewrite IH.
Qed.

Lemma tr_outs_in : forall o l, tr_outs (EIn o :: l) = tr_outs l.
Proof. reflexivity. Qed.
Lemma tr_outs_out : forall m l, tr_outs (EOut m :: l) = m :: tr_outs l.
Proof. reflexivity. Qed.

Lemma tr_outs_trace : forall ops r, tr_outs (trace_from r ops) = List.concat (snd (run r ops)).
Proof.
  induction ops as [|o ops IH]; intros r; [reflexivity|].
  rewrite run_cons. cbn [trace_from snd List.concat].
  rewrite tr_outs_app. unfold step_events. rewrite tr_outs_in, tr_outs_map, IH. reflexivity.
Qed.

Lemma pubids_cons : forall m o,
    pubids (m :: o) = (match pubid_of (snd m) with Some p => [p] | None => [] end) ++ pubids o.
Proof. reflexivity. Qed.

(** along a whole history the ids never decrease *)
Theorem realm_pubids_monotone_proof : forall cfg ops pre m1 mid m2 post p1 p2,
    Forall op_ok ops -> k0 cfg + N.of_nat (List.length ops) <= max_idN ->
    trace cfg ops = pre ++ EOut m1 :: mid ++ EOut m2 :: post ->
    pubid_of (snd m1) = Some p1 -> pubid_of (snd m2) = Some p2 -> p1 <= p2.
Proof.
  intros cfg ops pre m1 mid m2 post p1 p2 Ho Hk E E1 E2.
  destruct (init_realm_wf cfg) as [W0 I0]; [lia|].
  pose proof (run_prange ops (init_realm cfg) (k0 cfg) W0 I0 Ho Hk) as (_ & A & _).
  rewrite <- tr_outs_trace, <- trace_eq, E in A.
  rewrite tr_outs_app, tr_outs_out, tr_outs_app, tr_outs_out in A.
  rewrite pubids_app, pubids_cons, E1 in A. cbn [app] in A.
  eapply ascending_split; [exact A|]. apply pubids_In. exists m2. split; [|exact E2].
  apply in_or_app. right. now left.
Qed.

(** at every cut between two segments of a step: the ids sent before the cut
    are at most the supply at the cut, the ids sent after it are greater *)
Theorem step_pubids_cut : forall r o k l1 l2,
    realm_wf r -> ids_below k r -> k < max_idN -> op_ok o ->
    segs_step r o = l1 ++ l2 ->
    let '(b1, pg1, o1) := seg_run (r_cfg r) (r_broker r) (r_pubgen r) l1 in
    let '(b2, pg2, o2) := seg_run (r_cfg r) b1 pg1 l2 in
    snd (step r o) = o1 ++ o2 /\
    (forall p, In p (pubids o1) -> r_pubgen r < p <= pg1) /\ (forall p, In p (pubids o2) -> pg1 < p <= pg2).
Proof.
  intros r o k l1 l2 W I Hk Ho E.
  destruct (step_decomp r o) as (_ & T & R). pose proof (step_so_nopub r o k W I Hk Ho) as N.
  rewrite E in T, N, R.
  pose proof (seg_prange_cut (r_cfg r) l1 l2 (r_broker r) (r_pubgen r) N T) as C.
  destruct (seg_run (r_cfg r) (r_broker r) (r_pubgen r) l1) as [[b1 pg1] o1].
  destruct (seg_run (r_cfg r) b1 pg1 l2) as [[b2 pg2] o2].
  destruct C as (C1 & C2 & C3). rewrite R in C1. cbn [snd] in C1. auto.
Qed.
