(** * Histories, broker side, part 6 (C01): the subscription monitor of every
    (session, subscription) accepts every history of the whole model.

    [realm_sub_discipline_proof]: [sm_run y sub (false, None) (trace cfg ops)]
    never fails.  [realm_event_only_to_subscriber_proof]: the readable form. *)
From Nexus Require Import Router.Realm Router.AssocLemmas Router.RealmLib Router.RealmProofs
     Router.RealmMetaProofs Router.RealmLeave.
From Nexus Require Import Router.BrokerWf Router.BrokerPres Router.BrokerPublish Router.BrokerSub Router.BrokerRun.
From Nexus Require Import Router.RealmWf Router.RealmStep Router.RealmC05 Router.RealmOutputs Router.RealmIdle.
From Nexus Require Import Router.RealmTraceLib Router.RealmTrace Router.RealmTraceC01Seg Router.RealmTraceC01Ev
     Router.RealmTraceC01Mon Router.RealmTraceC01Kind Router.RealmTraceC01Ok.
From Coq Require Import Lia ZifyN ZifyNat ZifyBool.

(** ** One step *)
Theorem ok_step : forall r o k,
    realm_wf r -> ids_below k r -> k < max_idN -> op_ok o -> gate_unsub_id r o ->
    seg_ok o (r_cfg r) (r_broker r) (segs_step r o).
Proof.
  intros r o k W I Hk Ho G. destruct o as [sid l h|sid m oracle|sid|ms]; cbn [segs_step].
  - destruct (negb (has_role h) || is_some (lookup r sid)) eqn:Gd; [exact Logic.I|].
    apply orb_false_iff in Gd. destruct Gd as [_ Gd].
    assert (Hl : lookup r sid = None) by (destruct (lookup r sid); [discriminate|reflexivity]).
    destruct (join_added_wf r sid l h k W I Ho Hl) as [W1 I1]. cbv zeta in W1, I1.
    cbn [seg_ok]. split; [|exact Logic.I].
    match goal with |- bop_ok _ _ _ (mp_bop ?R ?M) _ => exact (ok_mp _ R M [] W1) end.
  - destruct (find_session (r_clients r) sid) as [s|] eqn:F; [|exact Logic.I].
    assert (Hs : find_session (r_clients r) (s_id s) = Some s) by now rewrite (find_session_id _ _ _ F).
    pose proof (find_session_id _ _ _ F) as Es.
    destruct (gate r s m) as [m'|out] eqn:Eg.
    + apply (ok_handle _ r s m' oracle k W I Hk Hs).
      intros q sub -> s0 orc E. inversion E; subst.
      specialize (G (s_id s) q s0 orc s _ eq_refl F Eg). inversion G. reflexivity.
    + cbn [seg_ok]. split; [|exact Logic.I].
      destruct (gate_refusal_shape r s m out Eg) as [->|(det & e & a & ->)]; [intros x []|].
      intros x [<-|[]]. left. reflexivity.
  - eapply ok_leave; eauto.
  - cbn [seg_ok]. split; [|exact Logic.I]. intros m Hm. left. eapply fire_timers_alld; eauto.
Qed.

(** the monitor of (y, sub) passes the events of one step, and afterwards
    every subscriber still has its flag set *)
Theorem step_mon : forall r o k y sub h cur0,
    realm_wf r -> ids_below k r -> k < max_idN -> op_ok o -> gate_unsub_id r o ->
    (sub_has (b_subs (r_broker r)) sub y -> h = true) ->
    exists h', sm_run y sub (h, cur0) (step_events o (snd (step r o))) = Some (h', Some o) /\
               (sub_has (b_subs (r_broker (fst (step r o)))) sub y -> h' = true).
Proof.
  intros r o k y sub h cur0 W I Hk Ho G J.
  pose proof (ok_step r o k W I Hk Ho G) as Ok.
  destruct (step_decomp r o) as (_ & _ & E).
  set (h0 := if resets y sub cur0 (EIn o) then false else h).
  assert (J0 : flag_inv y sub (r_broker r) h0 (segs_step r o)).
  { intros Hs. unfold h0. destruct (resets y sub cur0 (EIn o)) eqn:R; [|left; auto].
    destruct o as [| | x |]; try discriminate R. cbn [resets] in R. apply N.eqb_eq in R. subst x.
    cbn [segs_step]. destruct (dying_leave r y [] W) as [D|D]; [exfalso; eapply D; eauto|].
    rewrite app_nil_r in D. now right. }
  destruct (seg_mon o (r_cfg r) (segs_step r o) (r_broker r) (r_pubgen r) (rw_broker r W) Ok y sub h0 J0) as (h' & R' & Hf).
  rewrite E in R', Hf. cbn [fst snd] in R', Hf.
  exists h'. split; [|exact Hf].
  unfold step_events. cbn [sm_run].
  assert (S1 : sm_step y sub (h, cur0) (EIn o) = Some (h0, Some o)).
  { unfold sm_step, h0. cbn [is_subd is_evt next_cur]. destruct (resets y sub cur0 (EIn o)); reflexivity. }
  rewrite S1, sm_outs, R'. reflexivity.
Qed.

(** ** Histories *)
Theorem sub_discipline_from : forall ops r k y sub h cur0,
    realm_wf r -> ids_below k r -> Forall op_ok ops -> k + N.of_nat (List.length ops) <= max_idN ->
    along gate_unsub_id r ops -> (sub_has (b_subs (r_broker r)) sub y -> h = true) ->
    sm_run y sub (h, cur0) (trace_from r ops) <> None.
Proof.
  induction ops as [|o ops IH]; intros r k y sub h cur0 W I Ho Hk G J; [discriminate|].
  cbn [trace_from]. cbn [List.length] in Hk. inversion Ho as [|? ? Ho1 Ho2]; subst.
  destruct G as [G1 G2].
  assert (Hk1 : k < max_idN) by lia.
  destruct (step_mon r o k y sub h cur0 W I Hk1 Ho1 G1 J) as (h' & R & J').
  destruct (step_wf r o k W I Hk1 Ho1) as [W1 I1].
  rewrite sm_app, R. apply (IH (fst (step r o)) (k + 1) y sub h' (Some o) W1 I1 Ho2); [lia|exact G2|exact J'].
Qed.

Lemma init_no_subscribers : forall cfg y sub, k0 cfg <= max_idN ->
    ~ sub_has (b_subs (r_broker (init_realm cfg))) sub y.
Proof.
  intros cfg y sub Hk. destruct (init_realm_wf cfg Hk) as [W _].
  apply not_client_holds_nothing; [exact W|].
  assert (Ec : r_clients (init_realm cfg) = []) by (unfold init_realm; destruct (fold_left _ _ _); reflexivity).
  unfold client. rewrite Ec. intros C. apply C. reflexivity.
Qed.

Theorem realm_sub_discipline_proof : forall cfg ops y sub,
    Forall op_ok ops -> k0 cfg + N.of_nat (List.length ops) <= max_idN ->
    along gate_unsub_id (init_realm cfg) ops ->
    sm_run y sub (false, None) (trace cfg ops) <> None.
Proof.
  intros cfg ops y sub Ho Hk G. rewrite trace_eq.
  destruct (init_realm_wf cfg) as [W I]; [lia|].
  apply (sub_discipline_from ops (init_realm cfg) (k0 cfg) y sub false None W I Ho Hk G).
  intros Hs. exfalso. eapply init_no_subscribers; [|exact Hs]. lia.
Qed.

Theorem realm_event_only_to_subscriber_proof : forall cfg ops y sub pre e post,
    Forall op_ok ops -> k0 cfg + N.of_nat (List.length ops) <= max_idN ->
    along gate_unsub_id (init_realm cfg) ops ->
    trace cfg ops = pre ++ e :: post -> is_evt y sub e = true ->
    exists p1 e1 p2, pre = p1 ++ e1 :: p2 /\ is_subd y sub e1 = true /\
                     quiet_for y sub (cur_of (p1 ++ [e1])) p2.
Proof.
  intros cfg ops y sub pre e post Ho Hk G E Ev.
  pose proof (realm_sub_discipline_proof cfg ops y sub Ho Hk G) as M. rewrite E in M.
  eapply sm_event_needs_sub; eauto.
Qed.

(** ** The gate hypothesis, discharged *)
Lemma gate_unsub_id_no_authz : forall cfg ops, c_authz cfg = None -> along gate_unsub_id (init_realm cfg) ops.
Proof.
  intros cfg ops H. apply (along_cfg gate_unsub_id cfg); [|apply init_realm_cfg].
  intros r o E sid q sub orc s m' _ _. rewrite gate_none by (rewrite E; exact H). intros X; inversion X; reflexivity.
Qed.

(** an authorizer that never alters an UNSUBSCRIBE *)
Definition authz_keeps_unsubscribe (cfg : config) : Prop :=
  forall f, c_authz cfg = Some f -> forall sid lc det q sub m',
    f sid lc det (CUnsubscribe q sub) = AAllow m' -> m' = CUnsubscribe q sub.

Lemma gate_unsub_id_static : forall cfg ops, authz_keeps_unsubscribe cfg -> along gate_unsub_id (init_realm cfg) ops.
Proof.
  intros cfg ops H. apply (along_cfg gate_unsub_id cfg); [|apply init_realm_cfg].
  intros r o E sid q sub orc s m' _ _. unfold gate. rewrite E.
  destruct (c_authz cfg) as [f|] eqn:Ef; [|intros X; inversion X; reflexivity].
  destruct (s_local s && negb (c_local_authz cfg)); [intros X; inversion X; reflexivity|].
  specialize (H f Ef (s_id s) (s_local s) (s_details s) q sub).
  destruct (f (s_id s) (s_local s) (s_details s) (CUnsubscribe q sub)); [|discriminate|discriminate].
  intros X; inversion X; subst. now apply H.
Qed.

Theorem realm_event_only_to_subscriber_noauthz_proof : forall cfg ops y sub pre e post,
    c_authz cfg = None ->
    Forall op_ok ops -> k0 cfg + N.of_nat (List.length ops) <= max_idN ->
    trace cfg ops = pre ++ e :: post -> is_evt y sub e = true ->
    exists p1 e1 p2, pre = p1 ++ e1 :: p2 /\ is_subd y sub e1 = true /\
                     quiet_for y sub (cur_of (p1 ++ [e1])) p2.
Proof.
  intros cfg ops y sub pre e post Hn Ho Hk. apply realm_event_only_to_subscriber_proof; auto.
  now apply gate_unsub_id_no_authz.
Qed.

(** ** The monitor, unfolded (for the statements file) *)
Lemma sm_step_unfold : forall y sub h cur e,
    sm_step y sub (h, cur) e =
    if resets y sub cur e then Some (false, next_cur cur e)
    else if is_subd y sub e then Some (true, next_cur cur e)
    else if is_evt y sub e then (if h then Some (true, next_cur cur e) else None)
    else Some (h, next_cur cur e).
Proof. reflexivity. Qed.

Lemma resets_unfold : forall y sub cur e,
    resets y sub cur e =
    match e with
    | EIn (ODrop x) => N.eqb x y
    | EIn _ => false
    | EOut (x, m) =>
        N.eqb x y &&
        (match m with RAbort _ _ | RGoodbye _ _ => true | _ => false end ||
         match m, cur with
         | RUnsubscribed q, Some (OMsg x' (CUnsubscribe q' s) _) => N.eqb x' y && N.eqb q' q && N.eqb s sub
         | _, _ => false
         end)
    end.
Proof.
  intros y sub cur e. destruct e as [o|[x m]]; [reflexivity|].
  unfold resets, out_resets, is_end, unsub_acked. cbn [fst snd].
  destruct m; reflexivity.
Qed.

Lemma is_subd_unfold : forall y sub e,
    is_subd y sub e = match e with EOut (x, RSubscribed _ s) => N.eqb x y && N.eqb s sub | _ => false end.
Proof. intros y sub [o|[x m]]; [reflexivity|]. unfold is_subd, out_subd. cbn [fst snd]. destruct m; reflexivity. Qed.

Lemma is_evt_unfold : forall y sub e,
    is_evt y sub e = match e with EOut (x, REvent s _ _ _ _) => N.eqb x y && N.eqb s sub | _ => false end.
Proof. intros y sub [o|[x m]]; [reflexivity|]. unfold is_evt, out_evt. cbn [fst snd]. destruct m; reflexivity. Qed.

Lemma quiet_for_unfold : forall y sub cur tr,
    quiet_for y sub cur tr =
    match tr with [] => True | e :: rest => resets y sub cur e = false /\ quiet_for y sub (next_cur cur e) rest end.
Proof. intros y sub cur [|e tr]; reflexivity. Qed.
