(** * Publisher disclosure and per-recipient event details (C12, broker half). *)
From Nexus Require Import Router.Broker Router.AssocLemmas Router.BrokerWf Router.BrokerPres
     Router.BrokerPublish Router.BrokerSub.
From Coq Require Import Lia ZifyN ZifyBool.

(** ** The details dictionary *)
Definition discloses (disc : bool) (rs : session) : bool := disc && sess_feature rs "subscriber" f_pub_ident.

Lemma event_details_publisher : forall topic st disc pub rs,
    dget (event_details topic st disc pub (Some rs)) "publisher" =
    if discloses disc rs then Some (vid (s_id pub)) else None.
Proof.
  intros. unfold event_details, discloses, disclose_dict.
  destruct (disc && sess_feature rs "subscriber" f_pub_ident); [|destruct st; reflexivity].
  destruct (dget (s_details pub) "authid"), (dget (s_details pub) "authrole"), st; reflexivity.
Qed.

Lemma event_details_authid : forall topic st disc pub rs,
    dget (event_details topic st disc pub (Some rs)) "publisher_authid" =
    if discloses disc rs then dget (s_details pub) "authid" else None.
Proof.
  intros. unfold event_details, discloses, disclose_dict.
  destruct (disc && sess_feature rs "subscriber" f_pub_ident); [|destruct st; reflexivity].
  destruct (dget (s_details pub) "authid"), (dget (s_details pub) "authrole"), st; reflexivity.
Qed.

Lemma event_details_authrole : forall topic st disc pub rs,
    dget (event_details topic st disc pub (Some rs)) "publisher_authrole" =
    if discloses disc rs then dget (s_details pub) "authrole" else None.
Proof.
  intros. unfold event_details, discloses, disclose_dict.
  destruct (disc && sess_feature rs "subscriber" f_pub_ident); [|destruct st; reflexivity].
  destruct (dget (s_details pub) "authid"), (dget (s_details pub) "authrole"), st; reflexivity.
Qed.

(** the only keys an EVENT's details can have *)
Lemma event_details_keys : forall topic st disc pub recv k,
    dhas (event_details topic st disc pub recv) k = true ->
    k = "topic" \/ k = "publisher" \/ k = "publisher_authid" \/ k = "publisher_authrole".
Proof.
  intros topic st disc pub recv k. unfold event_details, disclose_dict.
  assert (Hbase : dhas (if st then [("topic", vuri topic)] else []) k = true -> k = "topic").
  { destruct st; unfold dhas, amem; cbn [aget]; [|discriminate].
    destruct (String.eqb_spec k "topic"); auto; discriminate. }
  assert (Hset : forall d k0 v, dhas (dset d k0 v) k = true -> k = k0 \/ dhas d k = true).
  { intros d k0 v. unfold dhas, dset. rewrite (amem_aset String.eqb String.eqb_spec).
    destruct (String.eqb_spec k k0); cbn; auto. }
  destruct recv as [r|]; [destruct (disc && sess_feature r "subscriber" f_pub_ident)|]; auto.
  destruct (dget (s_details pub) "authid"), (dget (s_details pub) "authrole"); intros H;
    repeat (apply Hset in H; destruct H as [->|H]; [cbn; auto|]); auto.
Qed.

(** with passthru mode: additionally the four ppt_* keys *)
Lemma event_dict_keys : forall opts topic st disc pub recv k,
    dhas (event_dict opts topic st disc pub recv) k = true ->
    In k ppt_keys \/ k = "topic" \/ k = "publisher" \/ k = "publisher_authid" \/ k = "publisher_authrole".
Proof.
  intros opts topic st disc pub recv k H.
  destruct (smem k ppt_keys) eqn:E; [left; now apply smem_In|right].
  apply (event_details_keys topic st disc pub recv).
  apply (amem_true_iff String.eqb) in H. destruct H as (v & H). fold (dget (event_dict opts topic st disc pub recv) k) in H.
  rewrite event_dict_other in H by (intros HI; apply smem_In in HI; congruence).
  apply (amem_true_iff String.eqb). eauto.
Qed.

Lemma dhas_dget : forall d k, dhas d k = true <-> exists v, dget d k = Some v.
Proof. intros. apply (amem_true_iff String.eqb). Qed.

(** ** Pointwise reading of [publish_exact] *)
Theorem event_in_iff : forall cfg lookup now b pg pub req opts topic args kw b' pg' o,
    broker_wf b -> lookup_ok lookup -> pub_accepted cfg pub opts topic ->
    publish cfg lookup now b pg pub req opts topic args kw = (b', pg', o) ->
    forall r id pubid d a k',
      In (r, REvent id pubid d a k') o <->
      exists s rs, nget (b_subs b) id = Some s /\ In r (sub_subs s) /\
                   matches (kind s) (sub_topic s) topic /\
                   ~ (r = s_id pub /\ exclude_me_of opts = true) /\
                   lookup r = Some rs /\ allowed (make_filter opts) r (s_details rs) = true /\
                   pubid = pg + 1 /\ a = args /\ k' = kw /\
                   d = event_dict opts topic (is_pattern (kind s)) (opt_bool opts "disclose_me") pub (Some rs).
Proof.
  intros cfg lookup now b pg pub req opts topic args kw b' pg' o W Hok Hacc H r id pubid d a k'.
  destruct (publish_exact _ _ _ _ _ _ _ _ _ _ _ _ _ _ W Hok Hacc H) as (_ & _ & I).
  rewrite I. split.
  - intros [[_ E]|(s & r0 & rs & ((Hin & Hr) & Hm & Hne & Hl & Ha) & E)]; [discriminate|].
    unfold event_for in E. inversion E; subst. pose proof (Hok _ _ Hl) as Er. rewrite Er.
    exists s, rs. repeat split; auto.
  - intros (s & rs & Es & Hr & Hm & Hne & Hl & Ha & -> & -> & -> & ->). right.
    pose proof (wf_sub_id b (wf_core b W) _ _ Es) as Hid.
    exists s, r, rs. split.
    + repeat split; auto. unfold sub_in. now rewrite Hid.
    + unfold event_for. rewrite Hid, (Hok _ _ Hl). reflexivity.
Qed.

(** ** Disclosure *)
Theorem event_disclose_iff : forall cfg lookup now b pg pub req opts topic args kw b' pg' o,
    broker_wf b -> lookup_ok lookup -> pub_accepted cfg pub opts topic ->
    publish cfg lookup now b pg pub req opts topic args kw = (b', pg', o) ->
    forall r id pubid d a k', In (r, REvent id pubid d a k') o ->
    exists rs, lookup r = Some rs /\
      let allowed_here := opt_bool opts "disclose_me" = true /\ c_disclose cfg = true /\
                          sess_feature rs "subscriber" f_pub_ident = true in
      (dhas d "publisher" = true <-> allowed_here) /\
      (dhas d "publisher_authid" = true <-> allowed_here /\ dhas (s_details pub) "authid" = true) /\
      (dhas d "publisher_authrole" = true <-> allowed_here /\ dhas (s_details pub) "authrole" = true) /\
      (* and then the values are the publisher's own *)
      (forall v, dget d "publisher" = Some v -> v = vid (s_id pub)) /\
      (forall v, dget d "publisher_authid" = Some v -> dget (s_details pub) "authid" = Some v) /\
      (forall v, dget d "publisher_authrole" = Some v -> dget (s_details pub) "authrole" = Some v).
Proof.
  intros cfg lookup now b pg pub req opts topic args kw b' pg' o W Hok Hacc H r id pubid d a k' HI.
  apply (event_in_iff _ _ _ _ _ _ _ _ _ _ _ _ _ _ W Hok Hacc H) in HI.
  destruct HI as (s & rs & _ & _ & _ & _ & Hl & _ & _ & _ & _ & ->).
  exists rs. split; auto. cbn zeta.
  assert (Hd : discloses (opt_bool opts "disclose_me") rs = true <->
               opt_bool opts "disclose_me" = true /\ c_disclose cfg = true /\
               sess_feature rs "subscriber" f_pub_ident = true).
  { unfold discloses. rewrite andb_true_iff. destruct Hacc as (_ & _ & Hc). split; [intros [? ?]; auto|tauto]. }
  rewrite !dhas_dget.
  rewrite !event_dict_other by (unfold ppt_keys; cbn; intuition discriminate).
  rewrite event_details_publisher, event_details_authid, event_details_authrole.
  destruct (discloses (opt_bool opts "disclose_me") rs).
  - assert (HA : opt_bool opts "disclose_me" = true /\ c_disclose cfg = true /\
                 sess_feature rs "subscriber" f_pub_ident = true) by (apply Hd; reflexivity).
    split; [split; [auto | eauto]|].
    split; [split; [intros; auto | intros [_ ?]; auto]|].
    split; [split; [intros; auto | intros [_ ?]; auto]|].
    split; [intros v E; congruence|]. split; auto.
  - assert (HnA : ~ (opt_bool opts "disclose_me" = true /\ c_disclose cfg = true /\
                     sess_feature rs "subscriber" f_pub_ident = true))
      by (intros HA; apply Hd in HA; discriminate).
    split; [split; [intros (v & E); discriminate | intros; contradiction]|].
    split; [split; [intros (v & E); discriminate | intros [? _]; contradiction]|].
    split; [split; [intros (v & E); discriminate | intros [? _]; contradiction]|].
    split; [intros v E; discriminate|]. split; intros v E; discriminate.
Qed.

Theorem disallowed_disclose_refused : forall cfg lookup now b pg pub req opts topic args kw,
    valid_uri (c_strict cfg) "" topic = true ->
    publish_aborts cfg pub opts topic = false ->   (* the passthru violation is checked first *)
    opt_bool opts "disclose_me" = true -> c_disclose cfg = false ->
    publish cfg lookup now b pg pub req opts topic args kw =
    (b, pg, if opt_bool opts "acknowledge"
            then [(s_id pub, RError c_PUBLISH req [] e_disclose_me [] [])] else []).
Proof. intros. unfold publish. rewrite H, H0, H1, H2. reflexivity. Qed.

(** ** The event for (r, s) does not depend on anything else in the broker *)
Theorem event_details_recipient_only :
  forall cfg lookup now1 now2 b1 b2 pg pub req opts topic args kw b1' pg1 o1 b2' pg2 o2 r id t k,
    broker_wf b1 -> broker_wf b2 -> lookup_ok lookup -> pub_accepted cfg pub opts topic ->
    holds_sig b1 r id t k -> holds_sig b2 r id t k ->
    publish cfg lookup now1 b1 pg pub req opts topic args kw = (b1', pg1, o1) ->
    publish cfg lookup now2 b2 pg pub req opts topic args kw = (b2', pg2, o2) ->
    (forall pubid d a k', In (r, REvent id pubid d a k') o1 <-> In (r, REvent id pubid d a k') o2) /\
    (forall pubid d a k' rs, In (r, REvent id pubid d a k') o1 -> lookup r = Some rs ->
        pubid = pg + 1 /\ a = args /\ k' = kw /\
        d = event_dict opts topic (is_pattern k) (opt_bool opts "disclose_me") pub (Some rs)).
Proof.
  intros cfg lookup now1 now2 b1 b2 pg pub req opts topic args kw b1' pg1 o1 b2' pg2 o2 r id t k
         W1 W2 Hok Hacc (s1 & E1 & Ht1 & Hk1 & Hr1) (s2 & E2 & Ht2 & Hk2 & Hr2) H1 H2.
  pose proof (event_in_iff _ _ _ _ _ _ _ _ _ _ _ _ _ _ W1 Hok Hacc H1) as I1.
  pose proof (event_in_iff _ _ _ _ _ _ _ _ _ _ _ _ _ _ W2 Hok Hacc H2) as I2.
  split.
  - intros pubid d a k'. rewrite I1, I2. split.
    + intros (s & rs & Es & Hr & Hm & R). rewrite E1 in Es; inversion Es; subst s.
      exists s2, rs. rewrite Hk2, Ht2, <- Hk1, <- Ht1. auto.
    + intros (s & rs & Es & Hr & Hm & R). rewrite E2 in Es; inversion Es; subst s.
      exists s1, rs. rewrite Hk1, Ht1, <- Hk2, <- Ht2. auto.
  - intros pubid d a k' rs HI Hl. apply I1 in HI.
    destruct HI as (s & rs' & Es & _ & _ & _ & Hl' & _ & -> & -> & -> & ->).
    rewrite E1 in Es; inversion Es; subst s. rewrite Hl in Hl'; inversion Hl'; subst rs'.
    rewrite Hk1. auto.
Qed.
