(** * Histories of the whole model, C12 part 5: who is in a registration's
    [reg_disclose] list, and why.

    [reg_disclose rg] lists the callees of [rg] that asked for the caller's
    identity at their OWN REGISTER ([disclose_caller = true]) and were allowed
    to (realm setting, or authrole "trusted").  A callee that joins a shared
    registration without the option is not in it, whatever the creator asked.

    [step_regs]: a session in the list after a step was in it before, or this
    step is ITS REGISTER, answered REGISTERED with this registration id, with
    [disclose_caller = true], admitted ([disc_asked]).  [disc_ok]: the list
    names callees of the registration, each once — preserved by every step.

    [run_reg_inv] / [reg_origin_proof]: along every history, a client session
    in the list of registration [rid] has, earlier in the history, its own
    asking REGISTER, and has been in the list of [rid] in EVERY state since
    ([disc_witness]).  Consequences: it has been a callee of [rid] and attached
    ever since ([holder_attached]); an UNREGISTER of [rid] by it answered
    UNREGISTERED removes it ([step_unregistered_drops_flag]); a session that is
    not attached is in no list, and joining changes no list: a session id that
    left and joins again starts without the flag ([join_no_flag]). *)
From Nexus Require Import Router.Realm Router.AssocLemmas Router.RealmLib Router.RealmProofs
     Router.RealmMetaProofs Router.RealmLeave.
From Nexus Require Import Router.DealerLib Router.DealerProofs Router.DealerReg Router.DealerCall Router.DealerWf
     Router.DealerWfCalls Router.DealerWfRegs Router.DealerRemove Router.DealerReply Router.DealerTimers
     Router.DealerOwned.
From Nexus Require Import Router.RealmWf Router.RealmStep Router.RealmC05 Router.RealmOutputs Router.RealmIdle.
From Nexus Require Import Router.RealmTraceLib Router.RealmTrace Router.RealmTraceC05 Router.RealmTraceInv.
From Nexus Require Import Router.RealmTraceC12Dealer.
From Coq Require Import Lia ZifyN ZifyNat ZifyBool.

Definition rkept (r r' : realm) : Prop :=
  regs_kept (r_dealer r) (r_dealer r') /\ (disc_ok (r_dealer r) -> disc_ok (r_dealer r')).

Lemma rkept_refl : forall r, rkept r r.
Proof. intros r. split; [apply rk_refl|auto]. Qed.
Lemma rkept_trans : forall a b c, rkept a b -> rkept b c -> rkept a c.
Proof. intros a b c [A1 A2] [B1 B2]. split; [eapply rk_trans; eauto|auto]. Qed.
Lemma rkept_dk : forall r o r', dk (r_dealer r) o (r_dealer r') -> rkept r r'.
Proof. intros r o r' [_ A B]. split; assumption. Qed.
Lemma rkept_same : forall r r', r_dealer r' = r_dealer r -> rkept r r'.
Proof. intros r r' E. unfold rkept. rewrite E. split; [apply rk_refl|auto]. Qed.

Lemma leave_rk : forall r sid, rkept r (fst (leave r sid)).
Proof.
  intros r sid.
  destruct (find_session (r_clients r) sid) as [s|] eqn:F; [|rewrite (leave_absent r sid F); apply rkept_refl].
  rewrite (leave_event_order r sid s F). unfold leave_core.
  set (r2 := r_set_testaments (r_set_clients r (del_session (r_clients r) sid))
                              (ndel (r_testaments (r_set_clients r (del_session (r_clients r) sid))) sid)).
  change (r_dealer r2) with (r_dealer r).
  destruct (dealer_remove_session_dk (lookup r2) (r_dealer r) sid) as [D _].
  destruct (dealer_remove_session (lookup r2) (r_dealer r) sid) as [[d o1] mps]. cbn [fst snd] in *.
  destruct (broker_remove_session _ _ sid) as [[b pg] o2].
  pose proof (meta_publish_all_dealer (mps ++ testament_pubs r sid ++ [on_leave_pub s]) (r_set_broker (r_set_dealer r2 d) b pg)) as E.
  destruct (meta_publish_all _ _) as [r5 o3]. cbn [fst snd] in *. cbn [r_dealer r_set_broker r_set_dealer] in E.
  apply (rkept_dk r o1 r5). rewrite E. exact D.
Qed.

Lemma kill_sessions_rk : forall sids r g, rkept r (fst (kill_sessions r sids g)).
Proof.
  induction sids as [|sid sids IH]; intros r g; [rewrite kill_sessions_nil; apply rkept_refl|].
  rewrite kill_sessions_cons. pose proof (leave_rk r sid) as L.
  destruct (leave r sid) as [r1 o1]. specialize (IH r1 g).
  destruct (kill_sessions r1 sids g) as [r2 o2]. cbn [fst snd] in *. eapply rkept_trans; eauto.
Qed.

Lemma run_meta_invocation_rk : forall r o oracle, rkept r (fst (run_meta_invocation r o oracle)).
Proof.
  intros r o oracle. unfold run_meta_invocation.
  destruct o as [|[rcv m] l]; [apply rkept_refl|]. destruct m; try apply rkept_refl. destruct l; [|apply rkept_refl].
  destruct (negb (rcv =? meta_id)); [apply rkept_refl|].
  destruct (nget (r_metaprocs r) reg) as [proc|].
  - pose proof (meta_call_dealer r proc details args kw oracle) as Ed.
    destruct (meta_call r proc details args kw oracle) as [[r1 resp] kills]. unfold realm_of in Ed. cbn [fst snd] in Ed.
    assert (G : forall d o1, (d, o1) = match resp with
                                        | MYield a k0 => sync_yield (lookup r1) (r_dealer r1) meta_id req [] a k0
                                        | MError e => sync_error (r_dealer r1) meta_id req [] e [] []
                                        end -> dk (r_dealer r1) o1 d).
    { intros d o1 E. destruct resp.
      - pose proof (sync_yield_dk (lookup r1) (r_dealer r1) meta_id req [] args0 kw0) as A. rewrite <- E in A. exact A.
      - pose proof (sync_error_dk (r_dealer r1) meta_id req [] err [] []) as A. rewrite <- E in A. exact A. }
    destruct (match resp with MYield a k0 => _ | MError e => _ end) as [d o1].
    specialize (G d o1 eq_refl). rewrite Ed in G.
    assert (Q : rkept r (r_set_dealer r1 d)) by (apply (rkept_dk r o1 (r_set_dealer r1 d)); exact G).
    destruct kills as [[sids g]|]; [|exact Q].
    pose proof (kill_sessions_rk sids (r_set_dealer r1 d) g) as K.
    destruct (kill_sessions (r_set_dealer r1 d) sids g) as [r3 o2]. cbn [fst snd] in *.
    eapply rkept_trans; [exact Q|exact K].
  - pose proof (sync_error_dk (r_dealer r) meta_id req [] e_no_such_procedure [] []) as A.
    destruct (sync_error _ _ _ _ _ _ _) as [d o1]. cbn [fst snd] in *. apply (rkept_dk r o1 (r_set_dealer r d)). exact A.
Qed.

(** ** One client message *)
Definition asked_now (r : realm) (s : session) (m : cmsg) (out1 : list out) (rid : N) : Prop :=
  exists req opts proc,
    m = CRegister req opts proc /\ In (s_id s, RRegistered req rid) out1 /\
    opt_bool opts "disclose_caller" = true /\
    (c_disclose (r_cfg r) = true \/ attr_of (s_details s) "authrole" = "trusted").

Definition reg_step (r : realm) (s : session) (m : cmsg) (out1 : list out) (r' : realm) : Prop :=
  (forall rid rg' y, nget (d_regs (r_dealer r')) rid = Some rg' -> In y (reg_disclose rg') ->
     (exists rg, nget (d_regs (r_dealer r)) rid = Some rg /\ In y (reg_disclose rg)) \/
     (y = s_id s /\ asked_now r s m out1 rid)) /\
  (disc_ok (r_dealer r) -> disc_ok (r_dealer r')).

Lemma rk_reg_step : forall r s m out1 r', rkept r r' -> reg_step r s m out1 r'.
Proof.
  intros r s m out1 r' [K1 K2]. split; [|exact K2].
  intros rid rg' y H Hy. left. destruct (K1 rid rg' H) as (rg & H0 & I). exists rg. split; [exact H0|now apply I].
Qed.

Theorem handle_regs : forall r s m oracle,
    realm_wf r -> find_session (r_clients r) (s_id s) = Some s ->
    reg_step r s m (snd (handle r s m oracle)) (fst (handle r s m oracle)).
Proof.
  intros r s m oracle W Hs.
  pose proof (rw_dealer r W) as Wd.
  pose proof (lookup_ok_realm r (rw_meta_id r W)) as LOK.
  assert (Lv : forall r0, rkept r r0 -> rkept r (fst (leave r0 (s_id s)))).
  { intros r0 K. eapply rkept_trans; [exact K|apply leave_rk]. }
  assert (Same : rkept r r) by apply rkept_refl.
  destruct m; cbn [handle].
  - apply rk_reg_step. destruct (publish _ _ _ _ _ _ _ _ _ _ _) as [[b pg] o].
    destruct (publish_aborts _ _ _ _); [|exact Same].
    specialize (Lv r Same). destruct (leave r (s_id s)) as [r1 o1]. exact Lv.
  - apply rk_reg_step. destruct (subscribe _ _ _ _ _ _ _) as [[b pg] o]. exact Same.
  - apply rk_reg_step. destruct (unsubscribe _ _ _ _ _) as [[b pg] o]. exact Same.
  - (* REGISTER *)
    pose proof (register_regs (r_cfg r) (r_dealer r) s req opts proc) as RR.
    pose proof (register_ok (r_cfg r) (r_dealer r) s req opts proc (wf_regs _ _ Wd)) as RO.
    destruct (register _ _ _ _ _ _) as [[d o] mps]. cbn [fst snd] in RR, RO.
    pose proof (meta_publish_all_dealer mps (r_set_dealer r d)) as E.
    destruct (meta_publish_all _ mps) as [r1 o1]. cbn [fst snd] in *. cbn [r_dealer r_set_dealer] in E.
    split; [|rewrite E; exact RO].
    intros rid rg' y H Hy. rewrite E in H.
    destruct (RR rid rg' y (wf_regs _ _ Wd) H Hy) as [K|(-> & Ho & Hd & Al)]; [now left|right].
    split; [reflexivity|]. exists req, opts, proc. split; [reflexivity|]. split; [apply in_or_app; now left|]. auto.
  - (* UNREGISTER *)
    apply rk_reg_step.
    pose proof (unregister_dk (r_dealer r) (s_id s) req reg) as D.
    destruct (unregister _ _ _ _) as [[d o] mps]. cbn [fst snd] in *.
    pose proof (meta_publish_all_dealer mps (r_set_dealer r d)) as E.
    destruct (meta_publish_all _ mps) as [r1 o1]. cbn [fst snd] in *. cbn [r_dealer r_set_dealer] in E.
    apply (rkept_dk r o r1). rewrite E. exact D.
  - (* CALL *)
    apply rk_reg_step.
    pose proof (call_c12 (r_cfg r) (lookup r) (r_now r) (r_dealer r) s req opts proc args kw oracle Wd LOK) as CF.
    destruct (call _ _ _ _ _ _ _ _ _ _ _) as [d o|o|d callee' o].
    + cbn [fst]. apply (rkept_dk r o (r_set_dealer r d)). exact (proj1 CF).
    + cbv zeta. specialize (Lv (r_set_dealer r (call_abort_dealer (lookup r) (r_dealer r) s req opts proc oracle))
                       (rkept_dk r [] (r_set_dealer r (call_abort_dealer (lookup r) (r_dealer r) s req opts proc oracle)) (call_abort_dk (lookup r) (r_dealer r) s req opts proc oracle Wd))).
      destruct (leave _ (s_id s)) as [r1 o1]. exact Lv.
    + destruct CF as (K & _).
      pose proof (run_meta_invocation_rk (update_session (r_set_dealer r d) callee') o oracle) as R.
      eapply rkept_trans; [|exact R]. apply (rkept_dk r o).
      destruct (update_session_frame (r_set_dealer r d) callee') as (_ & _ & _ & -> & _). exact K.
  - apply rk_reg_step. pose proof (cancel_dk (lookup r) (r_dealer r) (s_id s) req opts) as D.
    destruct (cancel _ _ _ _ _) as [d o]. apply (rkept_dk r o (r_set_dealer r d)). exact D.
  - apply rk_reg_step. pose proof (sync_yield_dk (lookup r) (r_dealer r) (s_id s) req opts args kw) as D.
    destruct (sync_yield _ _ _ _ _ _ _) as [d o]. cbn [fst snd] in *.
    assert (Q : rkept r (r_set_dealer r d)) by (apply (rkept_dk r o (r_set_dealer r d)); exact D).
    destruct (yield_aborts _ _ _ _ _); [|exact Q].
    specialize (Lv (r_set_dealer r d) Q). destruct (leave (r_set_dealer r d) (s_id s)) as [r1 o1]. exact Lv.
  - apply rk_reg_step. destruct (negb (ty =? c_INVOCATION)).
    + specialize (Lv r Same). destruct (leave r (s_id s)) as [r1 o1]. exact Lv.
    + pose proof (sync_error_dk (r_dealer r) (s_id s) req details err args kw) as D.
      destruct (sync_error _ _ _ _ _ _ _) as [d o]. apply (rkept_dk r o (r_set_dealer r d)). exact D.
  - apply rk_reg_step. specialize (Lv r Same). destruct (leave r (s_id s)) as [r1 o1]. exact Lv.
  - apply rk_reg_step. specialize (Lv r Same). destruct (leave r (s_id s)) as [r1 o1]. exact Lv.
Qed.

(** ** One step *)
(** the step [o] is the REGISTER of [y] itself, answered REGISTERED [rid],
    asking for the caller's identity, admitted *)
Definition disc_asked (r : realm) (o : op) (rid y : N) : Prop :=
  exists m orc ys req opts proc,
    o = OMsg y m orc /\ find_session (r_clients r) y = Some ys /\
    gate r ys m = inl (CRegister req opts proc) /\
    In (y, RRegistered req rid) (snd (step r o)) /\
    opt_bool opts "disclose_caller" = true /\
    (c_disclose (r_cfg r) = true \/ attr_of (s_details ys) "authrole" = "trusted").

Theorem step_regs : forall r o,
    realm_wf r ->
    (forall rid rg' y, nget (d_regs (r_dealer (fst (step r o)))) rid = Some rg' -> In y (reg_disclose rg') ->
       (exists rg, nget (d_regs (r_dealer r)) rid = Some rg /\ In y (reg_disclose rg)) \/ disc_asked r o rid y) /\
    (disc_ok (r_dealer r) -> disc_ok (r_dealer (fst (step r o)))).
Proof.
  intros r o W.
  assert (Keep : forall r', rkept r r' ->
            (forall rid rg' y, nget (d_regs (r_dealer r')) rid = Some rg' -> In y (reg_disclose rg') ->
               (exists rg, nget (d_regs (r_dealer r)) rid = Some rg /\ In y (reg_disclose rg)) \/ disc_asked r o rid y) /\
            (disc_ok (r_dealer r) -> disc_ok (r_dealer r'))).
  { intros r' [K1 K2]. split; [|exact K2]. intros rid rg' y H Hy. left.
    destruct (K1 rid rg' H) as (rg & H0 & I). exists rg. split; [exact H0|now apply I]. }
  destruct o as [sid lc h|sid m oracle|sid|ms].
  - cbn [step]. unfold join. destruct (negb (has_role h) || is_some (lookup r sid)); [apply Keep, rkept_refl|].
    apply Keep, rkept_same. rewrite meta_publish_dealer. reflexivity.
  - pose proof (step_msg_eq r sid m oracle) as Est.
    destruct (find_session (r_clients r) sid) as [s|] eqn:F; [|rewrite Est; apply Keep, rkept_refl].
    pose proof (find_session_id _ _ _ F) as Es.
    assert (Hs : find_session (r_clients r) (s_id s) = Some s) by now rewrite Es.
    destruct (gate r s m) as [m'|out] eqn:Eg; [|rewrite Est; apply Keep, rkept_refl].
    rewrite Est. destruct (handle_regs r s m' oracle W Hs) as [H1 H2]. split; [|exact H2].
    intros rid rg' y H Hy.
    destruct (H1 rid rg' y H Hy) as [K|(-> & req & opts & proc & -> & Ho & Hd & Al)]; [now left|right].
    rewrite Es. exists m, oracle, s, req, opts, proc. split; [reflexivity|]. split; [exact F|]. split; [exact Eg|].
    split; [rewrite Est, <- Es; exact Ho|]. auto.
  - cbn [step]. apply Keep, leave_rk.
  - cbn [step]. set (r1 := r_set_now r (r_now r + ms)).
    pose proof (fire_timers_dk (lookup r1) (r_now r1) (r_dealer r1)) as D.
    destruct (fire_timers _ _ _) as [d out]. cbn [fst snd] in *. apply Keep.
    apply (rkept_dk r out (r_set_dealer r1 d)). exact D.
Qed.

(** ** The initial registrations *)
Lemma init_fold_ok : forall cfg names d procs j,
    dealer_wf lk0 d -> d_idgen d <= j -> cr_nonempty (d_callee_regs d) -> d_calls d = [] -> regs_pos d ->
    j + N.of_nat (List.length names) <= max_idN -> disc_ok d ->
    disc_ok (fst (fold_left (init_f cfg) names (d, procs))).
Proof.
  intros cfg names; induction names as [|name names IH]; intros d procs j Wd Hj Hc Hcalls Hpos Hb OK;
    cbn [fold_left]; [exact OK|].
  cbn [List.length] in Hb.
  pose proof (init_fold_wf cfg [name] d procs j Wd Hj Hc Hcalls Hpos) as F1.
  cbv zeta in F1. cbn [fold_left List.length] in F1.
  pose proof (register_ok cfg d meta_session (N.of_nat (List.length procs) + 1) [("disclose_caller", VBool true)] name
                          (wf_regs _ _ Wd) OK) as K1.
  rewrite <- (init_f_fst cfg d procs name) in K1.
  destruct (init_f cfg (d, procs) name) as [d1 procs']. cbn [fst] in *.
  destruct F1 as (A & B & C & D & E); [lia|].
  apply (IH d1 procs' (j + 1)); auto; lia.
Qed.

Lemma init_disc_ok : forall cfg, k0 cfg <= max_idN -> disc_ok (r_dealer (init_realm cfg)).
Proof.
  intros cfg Hk. unfold k0 in Hk. destruct (init_realm_parts cfg) as (_ & _ & _ & ->). unfold dealer0.
  apply (init_fold_ok cfg (meta_proc_names cfg) empty_dealer [] 0 (empty_dealer_wf lk0) (N.le_refl 0)).
  - intros x ids; discriminate.
  - reflexivity.
  - intros x rg; discriminate.
  - lia.
  - intros rid rg H. discriminate H.
Qed.

(** ** Histories *)
Definition holds_flag (r : realm) (rid sid : N) : Prop :=
  exists rg, nget (d_regs (r_dealer r)) rid = Some rg /\ In sid (reg_disclose rg).

(** [sid] asked at some step of the history and has held the flag of [rid]
    in every state since *)
Definition disc_witness (cfg : config) (ops : list op) (rid sid : N) : Prop :=
  exists pre o post,
    ops = pre ++ o :: post /\ disc_asked (fst (run (init_realm cfg) pre)) o rid sid /\
    forall mid rest, post = mid ++ rest -> holds_flag (fst (run (init_realm cfg) (pre ++ o :: mid))) rid sid.

Lemma snoc_split : forall {A} (post : list A) o mid rest,
    post ++ [o] = mid ++ rest ->
    (rest = [] /\ mid = post ++ [o]) \/ exists rest', rest = rest' ++ [o] /\ post = mid ++ rest'.
Proof.
  intros A post o mid rest. destruct rest as [|x rest0] using rev_ind; intros E.
  - left. rewrite app_nil_r in E. auto.
  - right. rewrite app_assoc in E. apply app_inj_tail in E. destruct E as [E1 E2]. subst. exists rest0. auto.
Qed.

Definition reg_inv (cfg : config) (ops : list op) (r : realm) : Prop :=
  disc_ok (r_dealer r) /\
  forall rid sid, holds_flag r rid sid -> sid <> meta_id -> disc_witness cfg ops rid sid.

Theorem run_reg_inv : forall cfg ops,
    Forall op_ok ops -> k0 cfg + N.of_nat (List.length ops) <= max_idN ->
    reg_inv cfg ops (fst (run (init_realm cfg) ops)).
Proof.
  intros cfg ops. induction ops as [|o ops IH] using rev_ind; intros Ho Hk.
  - cbn [run fold_left fst]. cbn [List.length] in Hk.
    assert (OK : disc_ok (r_dealer (init_realm cfg))) by (apply init_disc_ok; lia).
    split; [exact OK|]. intros rid sid (rg & H & Hy) Hn. exfalso.
    destruct (init_realm_wf cfg) as [W _]; [lia|].
    destruct (OK rid rg H) as [I1 _].
    pose proof (wf_regs_att _ _ (rw_dealer _ W) rid rg sid H (I1 sid Hy)) as A. unfold attached, lookup in A.
    destruct (init_realm_parts cfg) as (_ & Ec & _). rewrite Ec in A.
    destruct (N.eqb_spec sid meta_id); [contradiction|]. apply A. reflexivity.
  - rewrite app_length in Hk. cbn [List.length] in Hk.
    apply Forall_app in Ho. destruct Ho as [Ho1 _].
    assert (W : realm_wf (fst (run (init_realm cfg) ops))) by (apply reachable_realm_wf; [exact Ho1|lia]).
    destruct (IH Ho1 ltac:(lia)) as [OK I].
    destruct (step_regs _ o W) as [S1 S2].
    split; [rewrite run_app1; auto|].
    intros rid sid Hf Hn. pose proof Hf as (rg' & H & Hy). rewrite run_app1 in H.
    destruct (S1 rid rg' sid H Hy) as [(rg & H0 & Hy0)|Asked].
    + destruct (I rid sid (ex_intro _ rg (conj H0 Hy0)) Hn) as (pre & o1 & post & -> & As & Since).
      exists pre, o1, (post ++ [o]). split; [now rewrite <- app_assoc|]. split; [exact As|].
      intros mid rest E. destruct (snoc_split post o mid rest E) as [(-> & ->)|(rest' & -> & ->)].
      * replace (pre ++ o1 :: post ++ [o]) with ((pre ++ o1 :: post) ++ [o]) by (now rewrite <- app_assoc). exact Hf.
      * apply (Since mid rest'). reflexivity.
    + exists ops, o, []. split; [reflexivity|]. split; [exact Asked|].
      intros mid rest E. symmetry in E. apply app_eq_nil in E. destruct E as [-> _]. exact Hf.
Qed.

Theorem reg_origin_proof : forall cfg ops rid sid,
    Forall op_ok ops -> k0 cfg + N.of_nat (List.length ops) <= max_idN ->
    holds_flag (fst (run (init_realm cfg) ops)) rid sid -> sid <> meta_id ->
    disc_witness cfg ops rid sid.
Proof. intros cfg ops rid sid Ho Hk Hf Hn. exact (proj2 (run_reg_inv cfg ops Ho Hk) rid sid Hf Hn). Qed.

(** a session in the list is a callee of the registration and attached *)
Theorem holder_attached : forall cfg ops rid sid,
    Forall op_ok ops -> k0 cfg + N.of_nat (List.length ops) <= max_idN ->
    holds_flag (fst (run (init_realm cfg) ops)) rid sid ->
    (exists rg, nget (d_regs (r_dealer (fst (run (init_realm cfg) ops)))) rid = Some rg /\ In sid (reg_callees rg)) /\
    (sid = meta_id \/ client (fst (run (init_realm cfg) ops)) sid).
Proof.
  intros cfg ops rid sid Ho Hk (rg & H & Hy).
  destruct (run_reg_inv cfg ops Ho Hk) as [OK _]. destruct (OK rid rg H) as [I1 _].
  pose proof (reachable_realm_wf cfg ops Ho Hk) as W.
  split; [exists rg; split; [exact H|now apply I1]|].
  pose proof (wf_regs_att _ _ (rw_dealer _ W) rid rg sid H (I1 sid Hy)) as A. unfold attached, lookup in A.
  destruct (N.eqb_spec sid meta_id); [now left|right; exact A].
Qed.

(** UNREGISTER answered UNREGISTERED: out of the list *)
Theorem step_unregistered_drops_flag : forall r sid m s q rid q' oracle,
    realm_wf r -> disc_ok (r_dealer r) -> find_session (r_clients r) sid = Some s ->
    gate r s m = inl (CUnregister q rid) ->
    In (sid, RUnregistered q') (snd (step r (OMsg sid m oracle))) ->
    ~ holds_flag (fst (step r (OMsg sid m oracle))) rid sid.
Proof.
  intros r sid m s q rid q' oracle W OK F Eg. rewrite step_msg_eq, F, Eg. cbn [handle].
  pose proof (find_session_id _ _ _ F) as Es. rewrite Es.
  pose proof (unregister_event_order (r_dealer r) sid q rid) as O.
  pose proof (no_route_after_unregister_proof (lookup r) (r_dealer r) sid q rid) as NR.
  pose proof (unregister_dk (r_dealer r) sid q rid) as [_ _ K].
  destruct (unregister (r_dealer r) sid q rid) as [[d o] mps].
  pose proof (meta_publish_all_allb mps (r_set_dealer r d)) as M.
  pose proof (meta_publish_all_dealer mps (r_set_dealer r d)) as E.
  destruct (meta_publish_all _ mps) as [r1 o1]. cbn [fst snd] in *. cbn [r_dealer r_set_dealer] in E.
  intros Hin (rg & H & Hy). rewrite E in H. apply in_app_or in Hin.
  destruct O as [(_ & ->)|(-> & _)].
  - destruct Hin as [[Hx|[]]|Hx]; [discriminate Hx|]. specialize (M _ Hx). discriminate M.
  - destruct (NR d mps (rw_dealer r W) eq_refl) as [_ N0].
    destruct (K OK rid rg H) as [I1 _]. exact (N0 rg H (I1 sid Hy)).
Qed.

(** a session that is not attached is in no list; joining changes no list *)
Theorem join_no_flag : forall cfg ops sid l h rid,
    Forall op_ok ops -> k0 cfg + N.of_nat (List.length ops) <= max_idN ->
    sid <> meta_id -> ~ client (fst (run (init_realm cfg) ops)) sid ->
    ~ holds_flag (fst (step (fst (run (init_realm cfg) ops)) (OJoin sid l h))) rid sid.
Proof.
  intros cfg ops sid l h rid Ho Hk Hn Hc Hf.
  assert (Hf0 : holds_flag (fst (run (init_realm cfg) ops)) rid sid).
  { destruct Hf as (rg & H & Hy). exists rg. split; [|exact Hy]. revert H. cbn [step]. unfold join.
    destruct (negb (has_role h) || is_some (lookup _ sid)); [auto|]. now rewrite meta_publish_dealer. }
  destruct (holder_attached cfg ops rid sid Ho Hk Hf0) as [_ [E|C]]; contradiction.
Qed.
