(** * Histories of the whole model, C12 part 5: where a registration's
    disclose flag comes from.

    [step_regs]: a registration present after a step is one present before it
    with the same flag and procedure (its callees being old ones, or client
    sessions that joined a registration of a non-"wamp." procedure), or it was
    created by this step: a REGISTER of a client, answered REGISTERED with this
    id, and — if the flag is set — with [disclose_caller = true] admitted
    because the realm allows disclosure or the session's authrole is "trusted"
    ([disc_created]).

    [reg_origin]: along every history, a registration whose flag is set and
    which has a client callee has such a creating step in the history.  The
    flag is the CREATOR's: a session that joins a shared registration later
    inherits it, whatever its own [disclose_caller] and authrole
    (see [RealmTraceC12Ex.shared_leak]). *)
From Nexus Require Import Router.Realm Router.AssocLemmas Router.RealmLib Router.RealmProofs
     Router.RealmMetaProofs Router.RealmLeave.
From Nexus Require Import Router.DealerLib Router.DealerProofs Router.DealerReg Router.DealerCall Router.DealerWf
     Router.DealerWfCalls Router.DealerWfRegs Router.DealerRemove Router.DealerReply Router.DealerTimers
     Router.DealerOwned.
From Nexus Require Import Router.RealmWf Router.RealmStep Router.RealmC05 Router.RealmOutputs Router.RealmIdle.
From Nexus Require Import Router.RealmTraceLib Router.RealmTrace Router.RealmTraceC05 Router.RealmTraceInv.
From Nexus Require Import Router.RealmTraceC12Dealer.
From Coq Require Import Lia ZifyN ZifyNat ZifyBool.

Definition rkept (r r' : realm) : Prop := regs_kept (r_dealer r) (r_dealer r').

Lemma leave_rk : forall r sid, rkept r (fst (leave r sid)).
Proof.
  intros r sid. unfold rkept.
  destruct (find_session (r_clients r) sid) as [s|] eqn:F; [|rewrite (leave_absent r sid F); apply rk_refl].
  rewrite (leave_event_order r sid s F). unfold leave_core.
  set (r2 := r_set_testaments (r_set_clients r (del_session (r_clients r) sid))
                              (ndel (r_testaments (r_set_clients r (del_session (r_clients r) sid))) sid)).
  change (r_dealer r2) with (r_dealer r).
  destruct (dealer_remove_session_dk (lookup r2) (r_dealer r) sid) as [[_ D2] _].
  destruct (dealer_remove_session (lookup r2) (r_dealer r) sid) as [[d o1] mps]. cbn [fst snd] in *.
  destruct (broker_remove_session _ _ sid) as [[b pg] o2].
  pose proof (meta_publish_all_dealer (mps ++ testament_pubs r sid ++ [on_leave_pub s]) (r_set_broker (r_set_dealer r2 d) b pg)) as E.
  destruct (meta_publish_all _ _) as [r5 o3]. cbn [fst snd] in *. rewrite E. exact D2.
Qed.

Lemma kill_sessions_rk : forall sids r g, rkept r (fst (kill_sessions r sids g)).
Proof.
  induction sids as [|sid sids IH]; intros r g; [rewrite kill_sessions_nil; apply rk_refl|].
  rewrite kill_sessions_cons. pose proof (leave_rk r sid) as L.
  destruct (leave r sid) as [r1 o1]. specialize (IH r1 g).
  destruct (kill_sessions r1 sids g) as [r2 o2]. cbn [fst snd] in *. unfold rkept in *. eapply rk_trans; eauto.
Qed.

Lemma run_meta_invocation_rk : forall r o oracle, rkept r (fst (run_meta_invocation r o oracle)).
Proof.
  intros r o oracle. unfold rkept, run_meta_invocation.
  destruct o as [|[rcv m] l]; [apply rk_refl|]. destruct m; try apply rk_refl. destruct l; [|apply rk_refl].
  destruct (negb (rcv =? meta_id)); [apply rk_refl|].
  destruct (nget (r_metaprocs r) reg) as [proc|].
  - pose proof (meta_call_dealer r proc details args kw oracle) as Ed.
    destruct (meta_call r proc details args kw oracle) as [[r1 resp] kills]. unfold realm_of in Ed. cbn [fst snd] in Ed.
    assert (G : forall d o1, (d, o1) = match resp with
                                        | MYield a k0 => sync_yield (lookup r1) (r_dealer r1) meta_id req [] a k0
                                        | MError e => sync_error (r_dealer r1) meta_id req [] e [] []
                                        end -> regs_kept (r_dealer r1) d).
    { intros d o1 E. destruct resp.
      - pose proof (sync_yield_dk (lookup r1) (r_dealer r1) meta_id req [] args0 kw0) as [_ A]. rewrite <- E in A. exact A.
      - pose proof (sync_error_dk (r_dealer r1) meta_id req [] err [] []) as [_ A]. rewrite <- E in A. exact A. }
    destruct (match resp with MYield a k0 => _ | MError e => _ end) as [d o1].
    specialize (G d o1 eq_refl). rewrite Ed in G.
    destruct kills as [[sids g]|]; [|exact G].
    pose proof (kill_sessions_rk sids (r_set_dealer r1 d) g) as K. unfold rkept in K.
    destruct (kill_sessions (r_set_dealer r1 d) sids g) as [r3 o2]. cbn [fst snd] in *.
    eapply rk_trans; [exact G|exact K].
  - pose proof (sync_error_dk (r_dealer r) meta_id req [] e_no_such_procedure [] []) as [_ A].
    destruct (sync_error _ _ _ _ _ _ _) as [d o1]. exact A.
Qed.

(** ** One client message *)
Definition reg_step (r : realm) (s : session) (m : cmsg) (out1 : list out) (r' : realm) : Prop :=
  forall rid rg', nget (d_regs (r_dealer r')) rid = Some rg' ->
    (exists rg, nget (d_regs (r_dealer r)) rid = Some rg /\ reg_disclose rg' = reg_disclose rg /\
                reg_proc rg' = reg_proc rg /\
                forall y, In y (reg_callees rg') ->
                          In y (reg_callees rg) \/ (y = s_id s /\ str_prefix_wamp (reg_proc rg) = false)) \/
    (exists req opts proc,
        m = CRegister req opts proc /\ In (s_id s, RRegistered req rid) out1 /\
        reg_proc rg' = proc /\ str_prefix_wamp proc = false /\ reg_callees rg' = [s_id s] /\
        reg_disclose rg' = opt_bool opts "disclose_caller" /\
        (opt_bool opts "disclose_caller" = true ->
         c_disclose (r_cfg r) = true \/ attr_of (s_details s) "authrole" = "trusted")).

Lemma rk_reg_step : forall r s m out1 r', rkept r r' -> reg_step r s m out1 r'.
Proof.
  intros r s m out1 r' K rid rg' H. left. destruct (K rid rg' H) as (rg & H0 & D & P & I).
  exists rg. split; [exact H0|]. split; [exact D|]. split; [exact P|]. intros y Hy. left. now apply I.
Qed.

Theorem handle_regs : forall r s m oracle,
    realm_wf r -> find_session (r_clients r) (s_id s) = Some s ->
    reg_step r s m (snd (handle r s m oracle)) (fst (handle r s m oracle)).
Proof.
  intros r s m oracle W Hs.
  pose proof (rw_dealer r W) as Wd.
  pose proof (lookup_ok_realm r (rw_meta_id r W)) as LOK.
  assert (Hnm : N.eqb (s_id s) meta_id = false).
  { destruct (N.eqb_spec (s_id s) meta_id) as [E|E]; [|reflexivity]. rewrite E in Hs. rewrite (rw_no_meta r W) in Hs. discriminate. }
  assert (Lv : forall r0, rkept r r0 -> rkept r (fst (leave r0 (s_id s)))).
  { intros r0 K. unfold rkept in *. eapply rk_trans; [exact K|apply leave_rk]. }
  assert (Same : rkept r r) by apply rk_refl.
  destruct m; cbn [handle].
  - apply rk_reg_step. destruct (publish _ _ _ _ _ _ _ _ _ _ _) as [[b pg] o].
    destruct (publish_aborts _ _ _ _); [|exact Same].
    specialize (Lv r Same). destruct (leave r (s_id s)) as [r1 o1]. exact Lv.
  - apply rk_reg_step. destruct (subscribe _ _ _ _ _ _ _) as [[b pg] o]. exact Same.
  - apply rk_reg_step. destruct (unsubscribe _ _ _ _ _) as [[b pg] o]. exact Same.
  - (* REGISTER *)
    pose proof (register_regs (r_cfg r) (r_dealer r) s req opts proc) as RR.
    destruct (register _ _ _ _ _ _) as [[d o] mps]. cbn [fst snd] in RR.
    pose proof (meta_publish_all_dealer mps (r_set_dealer r d)) as E.
    destruct (meta_publish_all _ mps) as [r1 o1]. cbn [fst snd] in *. cbn [r_dealer r_set_dealer] in E.
    intros rid rg' H. rewrite E in H.
    destruct (RR rid rg' (wf_regs _ _ Wd) H) as [(rg & H0 & D & P & I)|(Ho & D & P & Cs & A1 & A2)].
    + left. exists rg. split; [exact H0|]. split; [exact D|]. split; [exact P|].
      intros y Hy. destruct (I y Hy) as [Hy'|(-> & Pp & A1 & _)]; [now left|right].
      split; [reflexivity|]. rewrite Pp. rewrite Hnm in A1. cbn [negb] in A1. rewrite andb_true_r in A1. exact A1.
    + right. exists req, opts, proc. split; [reflexivity|]. split; [apply in_or_app; now left|].
      split; [exact P|]. rewrite Hnm in A1. cbn [negb] in A1. rewrite andb_true_r in A1.
      split; [exact A1|]. split; [exact Cs|]. split; [exact D|].
      intros Hd. rewrite Hd in A2. cbn [andb] in A2. rewrite andb_true_r in A2.
      destruct (c_disclose (r_cfg r)); [now left|right]. cbn [negb andb] in A2.
      apply negb_false_iff in A2. now apply String.eqb_eq.
  - (* UNREGISTER *)
    apply rk_reg_step.
    pose proof (unregister_dk (r_dealer r) (s_id s) req reg) as [_ D].
    destruct (unregister _ _ _ _) as [[d o] mps]. cbn [fst snd] in *.
    pose proof (meta_publish_all_dealer mps (r_set_dealer r d)) as E.
    destruct (meta_publish_all _ mps) as [r1 o1]. cbn [fst snd] in *. unfold rkept. rewrite E. exact D.
  - (* CALL *)
    apply rk_reg_step.
    pose proof (call_c12 (r_cfg r) (lookup r) (r_now r) (r_dealer r) s req opts proc args kw oracle Wd LOK) as CF.
    destruct (call _ _ _ _ _ _ _ _ _ _ _) as [d o|o|d callee' o].
    + cbn [fst]. apply CF.
    + specialize (Lv r Same). destruct (leave r (s_id s)) as [r1 o1]. exact Lv.
    + destruct CF as (_ & K & _).
      pose proof (run_meta_invocation_rk (update_session (r_set_dealer r d) callee') o oracle) as R.
      unfold rkept in *. eapply rk_trans; [|exact R].
      destruct (update_session_frame (r_set_dealer r d) callee') as (_ & _ & _ & -> & _). exact K.
  - apply rk_reg_step. pose proof (cancel_dk (lookup r) (r_dealer r) (s_id s) req opts) as [_ D].
    destruct (cancel _ _ _ _ _) as [d o]. exact D.
  - apply rk_reg_step. pose proof (sync_yield_dk (lookup r) (r_dealer r) (s_id s) req opts args kw) as [_ D].
    destruct (sync_yield _ _ _ _ _ _ _) as [d o]. cbn [fst snd] in *.
    destruct (yield_aborts _ _ _ _ _); [|exact D].
    specialize (Lv (r_set_dealer r d) D). destruct (leave (r_set_dealer r d) (s_id s)) as [r1 o1]. exact Lv.
  - apply rk_reg_step. destruct (negb (ty =? c_INVOCATION)).
    + specialize (Lv r Same). destruct (leave r (s_id s)) as [r1 o1]. exact Lv.
    + pose proof (sync_error_dk (r_dealer r) (s_id s) req details err args kw) as [_ D].
      destruct (sync_error _ _ _ _ _ _ _) as [d o]. exact D.
  - apply rk_reg_step. specialize (Lv r Same). destruct (leave r (s_id s)) as [r1 o1]. exact Lv.
  - apply rk_reg_step. specialize (Lv r Same). destruct (leave r (s_id s)) as [r1 o1]. exact Lv.
Qed.

(** ** One step *)
Definition disc_created (r : realm) (o : op) (rid : N) : Prop :=
  exists x m orc xs req opts proc,
    o = OMsg x m orc /\ find_session (r_clients r) x = Some xs /\
    gate r xs m = inl (CRegister req opts proc) /\
    In (x, RRegistered req rid) (snd (step r o)) /\
    opt_bool opts "disclose_caller" = true /\
    (c_disclose (r_cfg r) = true \/ attr_of (s_details xs) "authrole" = "trusted").

Theorem step_regs : forall r o,
    realm_wf r ->
    forall rid rg', nget (d_regs (r_dealer (fst (step r o)))) rid = Some rg' ->
      (exists rg, nget (d_regs (r_dealer r)) rid = Some rg /\ reg_disclose rg' = reg_disclose rg /\
                  reg_proc rg' = reg_proc rg /\
                  forall y, In y (reg_callees rg') ->
                            In y (reg_callees rg) \/ (y <> meta_id /\ str_prefix_wamp (reg_proc rg) = false)) \/
      (str_prefix_wamp (reg_proc rg') = false /\ (reg_disclose rg' = true -> disc_created r o rid)).
Proof.
  intros r o W rid rg'.
  assert (Keep : forall r', rkept r r' -> nget (d_regs (r_dealer r')) rid = Some rg' ->
            (exists rg, nget (d_regs (r_dealer r)) rid = Some rg /\ reg_disclose rg' = reg_disclose rg /\
                  reg_proc rg' = reg_proc rg /\
                  forall y, In y (reg_callees rg') ->
                            In y (reg_callees rg) \/ (y <> meta_id /\ str_prefix_wamp (reg_proc rg) = false)) \/
            (str_prefix_wamp (reg_proc rg') = false /\ (reg_disclose rg' = true -> disc_created r o rid))).
  { intros r' K H. left. destruct (K rid rg' H) as (rg & H0 & D & P & I).
    exists rg. split; [exact H0|]. split; [exact D|]. split; [exact P|]. intros y Hy. left. now apply I. }
  destruct o as [sid lc h|sid m oracle|sid|ms].
  - cbn [step]. unfold join. destruct (negb (has_role h) || is_some (lookup r sid)); [apply Keep, rk_refl|].
    apply Keep. unfold rkept.
    match goal with |- context [meta_publish ?R ?MP] => rewrite (meta_publish_dealer MP R) end. apply rk_refl.
  - pose proof (step_msg_eq r sid m oracle) as Est.
    destruct (find_session (r_clients r) sid) as [s|] eqn:F; [|rewrite Est; apply Keep, rk_refl].
    pose proof (find_session_id _ _ _ F) as Es.
    assert (Hs : find_session (r_clients r) (s_id s) = Some s) by now rewrite Es.
    destruct (gate r s m) as [m'|out] eqn:Eg; [|rewrite Est; apply Keep, rk_refl].
    rewrite Est. intros H.
    destruct (handle_regs r s m' oracle W Hs rid rg' H) as [(rg & H0 & D & P & I)|(req & opts & proc & -> & Ho & P & Pw & Cs & D & A)].
    + left. exists rg. split; [exact H0|]. split; [exact D|]. split; [exact P|].
      intros y Hy. destruct (I y Hy) as [Hy'|(-> & Pp)]; [now left|right]. split; [|exact Pp].
      intros E. rewrite E in Hs. rewrite (rw_no_meta r W) in Hs. discriminate.
    + right. rewrite P. split; [exact Pw|]. intros Hd. rewrite D in Hd.
      exists sid, m, oracle, s, req, opts, proc. split; [reflexivity|]. split; [exact F|]. split; [exact Eg|].
      split; [rewrite Est, <- Es; exact Ho|]. split; [exact Hd|exact (A Hd)].
  - cbn [step]. apply Keep, leave_rk.
  - cbn [step]. set (r1 := r_set_now r (r_now r + ms)).
    pose proof (fire_timers_dk (lookup r1) (r_now r1) (r_dealer r1)) as [_ D].
    destruct (fire_timers _ _ _) as [d out]. cbn [fst snd] in *. apply Keep. exact D.
Qed.

(** ** The initial registrations: the meta procedures *)
Lemma register_procs : forall cfg d callee req opts proc rid rg',
    nget (d_regs (fst (fst (register cfg d callee req opts proc)))) rid = Some rg' ->
    (exists rid0 rg, nget (d_regs d) rid0 = Some rg /\ reg_proc rg' = reg_proc rg) \/ reg_proc rg' = proc.
Proof.
  intros cfg d callee req opts proc rid rg'. unfold register.
  assert (Keep : nget (d_regs d) rid = Some rg' ->
                 (exists rid0 rg, nget (d_regs d) rid0 = Some rg /\ reg_proc rg' = reg_proc rg) \/ reg_proc rg' = proc)
    by (intros H; left; exists rid, rg'; auto).
  destruct (negb (valid_uri _ _ _)); [cbn [fst]; exact Keep|].
  destruct (str_prefix_wamp proc && _); [cbn [fst]; exact Keep|].
  destruct (negb (c_disclose cfg) && _ && _); [cbn [fst]; exact Keep|].
  destruct (match sget _ _ with Some id => nget (d_regs d) id | None => None end) as [rg|] eqn:M.
  - destruct (negb (shared_policy _) || _ || _); [cbn [fst]; exact Keep|].
    cbn [fst snd d_regs d_set_regs d_set_callee_regs]. rewrite ngs.
    destruct (N.eqb_spec rid (reg_id rg)) as [->|Hn]; [|exact Keep].
    intros E. inversion E; subst rg'. cbn [reg_proc]. left.
    destruct (sget _ _) as [id|]; [|discriminate]. exists id, rg. split; [exact M|reflexivity].
  - cbn [fst snd]. intros E.
    assert (E' : nget (nset (d_regs d) (idgen_next (d_idgen d))
                            (mkReg (idgen_next (d_idgen d)) proc (opt_string opts "match") (opt_string opts "invoke")
                                   (opt_bool opts "disclose_caller") (opt_bool opts "forward_timeout") 0 [s_id callee])) rid = Some rg').
    { destruct (mkind_of (opt_string opts "match")); exact E. }
    rewrite ngs in E'. destruct (N.eqb_spec rid (idgen_next (d_idgen d))) as [->|Hn]; [|exact (Keep E')].
    inversion E'; subst rg'. right. reflexivity.
Qed.

Definition all_wamp (d : dealer) : Prop :=
  forall rid rg, nget (d_regs d) rid = Some rg -> str_prefix_wamp (reg_proc rg) = true.

Lemma init_fold_wamp : forall cfg names d procs,
    Forall (fun n => str_prefix_wamp n = true) names -> all_wamp d ->
    all_wamp (fst (fold_left (init_f cfg) names (d, procs))).
Proof.
  intros cfg names; induction names as [|name names IH]; intros d procs Hn Hd; cbn [fold_left]; [exact Hd|].
  inversion Hn as [|? ? Hn1 Hn2]; subst.
  pose proof (init_f_fst cfg d procs name) as E.
  destruct (init_f cfg (d, procs) name) as [d1 procs']. cbn [fst] in E.
  apply IH; [exact Hn2|]. intros rid rg H. rewrite E in H.
  destruct (register_procs _ _ _ _ _ _ _ _ H) as [(rid0 & rg0 & H0 & P)|P]; rewrite P; [eapply Hd; eauto|exact Hn1].
Qed.

Lemma meta_proc_names_wamp : forall cfg, Forall (fun n => str_prefix_wamp n = true) (meta_proc_names cfg).
Proof.
  intros cfg. unfold meta_proc_names. destruct (c_meta_kill cfg), (c_meta_modify cfg); cbn [app];
    repeat (apply Forall_cons; [reflexivity|]); apply Forall_nil.
Qed.

Lemma init_all_wamp : forall cfg, all_wamp (r_dealer (init_realm cfg)).
Proof.
  intros cfg. destruct (init_realm_parts cfg) as (_ & _ & _ & ->). unfold dealer0.
  apply init_fold_wamp; [apply meta_proc_names_wamp|]. intros rid rg H. discriminate H.
Qed.

(** ** Histories *)
Definition disc_witness (cfg : config) (ops : list op) (rid : N) : Prop :=
  exists pre o post, ops = pre ++ o :: post /\ disc_created (fst (run (init_realm cfg) pre)) o rid.

Lemma disc_witness_snoc : forall cfg ops o rid, disc_witness cfg ops rid -> disc_witness cfg (ops ++ [o]) rid.
Proof.
  intros cfg ops o rid (pre & o1 & post & -> & H). exists pre, o1, (post ++ [o]). split; [|exact H].
  now rewrite <- app_assoc.
Qed.

(** the invariant: client callees only under non-"wamp." procedures; a set
    flag belongs to a meta procedure or has its creating step in the history *)
Definition reg_inv (cfg : config) (ops : list op) (r : realm) : Prop :=
  forall rid rg, nget (d_regs (r_dealer r)) rid = Some rg ->
    (forall y, In y (reg_callees rg) -> y <> meta_id -> str_prefix_wamp (reg_proc rg) = false) /\
    (reg_disclose rg = true -> str_prefix_wamp (reg_proc rg) = true \/ disc_witness cfg ops rid).

Theorem run_reg_inv : forall cfg ops,
    Forall op_ok ops -> k0 cfg + N.of_nat (List.length ops) <= max_idN ->
    reg_inv cfg ops (fst (run (init_realm cfg) ops)).
Proof.
  intros cfg ops. induction ops as [|o ops IH] using rev_ind; intros Ho Hk.
  - cbn [run fold_left fst]. intros rid rg H. split.
    + intros y Hy Hn. exfalso.
      destruct (init_realm_wf cfg) as [W _]; [cbn [List.length] in Hk; lia|].
      pose proof (wf_regs_att _ _ (rw_dealer _ W) rid rg y H Hy) as A. unfold attached, lookup in A.
      destruct (init_realm_parts cfg) as (_ & Ec & _). rewrite Ec in A.
      destruct (N.eqb_spec y meta_id); [contradiction|]. apply A. reflexivity.
    + intros _. left. exact (init_all_wamp cfg rid rg H).
  - rewrite run_app1. rewrite app_length in Hk. cbn [List.length] in Hk.
    apply Forall_app in Ho. destruct Ho as [Ho1 _].
    assert (W : realm_wf (fst (run (init_realm cfg) ops))) by (apply reachable_realm_wf; [exact Ho1|lia]).
    specialize (IH Ho1 ltac:(lia)).
    intros rid rg' H.
    destruct (step_regs _ o W rid rg' H) as [(rg & H0 & D & P & I)|(Pw & Cr)].
    + destruct (IH rid rg H0) as [I1 I2]. split.
      * intros y Hy Hn. rewrite P. destruct (I y Hy) as [Hy'|[_ Pp]]; [now apply (I1 y)|exact Pp].
      * intros Hd. rewrite D in Hd. rewrite P. destruct (I2 Hd) as [?|Wn]; [now left|right].
        now apply disc_witness_snoc.
    + split; [intros; exact Pw|]. intros Hd. right.
      exists ops, o, []. split; [reflexivity|exact (Cr Hd)].
Qed.

(** a registration with the flag set and a client callee was created by a
    REGISTER with [disclose_caller = true] of a session that was allowed to
    ask (realm setting or authrole "trusted") *)
Theorem reg_origin_proof : forall cfg ops rid rg y,
    Forall op_ok ops -> k0 cfg + N.of_nat (List.length ops) <= max_idN ->
    nget (d_regs (r_dealer (fst (run (init_realm cfg) ops)))) rid = Some rg ->
    reg_disclose rg = true -> In y (reg_callees rg) -> y <> meta_id ->
    disc_witness cfg ops rid.
Proof.
  intros cfg ops rid rg y Ho Hk H Hd Hy Hn.
  destruct (run_reg_inv cfg ops Ho Hk rid rg H) as [I1 I2].
  destruct (I2 Hd) as [Pw|Wn]; [|exact Wn]. rewrite (I1 y Hy Hn) in Pw. discriminate.
Qed.
