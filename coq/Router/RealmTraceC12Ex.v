(** * Histories of the whole model, C12 part 7: concrete histories.
    - [EvEx]: a realm that allows disclosure.  ONE publication with
      [disclose_me] is delivered to session 11 (announced
      publisher_identification: the publisher's identity is present) and to
      session 12 (did not: absent).  Then session 10 stores a testament whose
      publish options ask for [disclose_me] and is dropped: the testament is
      published by the META session, whose identity (id 1, authrole "trusted",
      no authid) is what 11 sees — never the departed client's; the same
      when 10 is killed through wamp.session.kill ([killed]: a CALL step).
    - [InvEx12]: caller identity in an INVOCATION through the caller's
      [disclose_me] (callee 14 announced caller_identification) and through
      the registration's [disclose_caller] (callee 15); a plain call carries
      none.
    - [SharedEx]: a realm that does NOT allow disclosure.  The trusted (local)
      session 20 creates a shared (roundrobin) registration with
      [disclose_caller = true]; the anonymous session 21 — whose own REGISTER
      with [disclose_caller = true] is refused option_disallowed.disclose_me —
      joins that registration without the option.  The creator is sent the
      callers' identities, the joiner is NOT: [reg_disclose] is per callee
      (this history refuted the property before the repair of
      router/dealer.go syncRegister, /repo adf4e26).  [ConvEx]: conversely, a
      joiner that asks (realm allows) is sent identities although the creator
      did not ask. *)
From Nexus Require Import Router.Realm Router.RealmProofs Router.RealmWf Router.RealmStep.
From Nexus Require Import Router.RealmTraceLib Router.RealmTrace Router.RealmTraceC05 Router.RealmTraceEx.
From Nexus Require Import Router.RealmTraceC12Reg Router.RealmTraceC12.
From Coq Require Import Lia.

Module EvEx.
  Definition cfgd : config := mkConfig false true false true true false [] None.
  Definition hello_sub_id : dict := [("roles", VDict [("subscriber", feats ["publisher_identification"])])].
  Definition hello_sub : dict := [("roles", VDict [("subscriber", VDict [])])].
  Definition hello_pub : dict := [("roles", VDict [("publisher", VDict []); ("caller", VDict [])])].
  Definition pre5 : list op :=
    [OJoin 10 false hello_pub; OJoin 11 false hello_sub_id; OJoin 12 false hello_sub;
     OMsg 11 (CSubscribe 1 [] "t") 0; OMsg 12 (CSubscribe 1 [] "t") 0].
  Definition pub : op := OMsg 10 (CPublish 2 [("disclose_me", VBool true)] "t" [vnat 7] []) 0.
  Definition add_test : op :=
    OMsg 10 (CCall 3 [] "wamp.session.add_testament" [vstr "t"; VList [vnat 9]; VDict []]
                   [("publish_options", VDict [("disclose_me", VBool true)])]) 0.
  Definition pre7 : list op := pre5 ++ [pub; add_test].
  Definition ops : list op := pre7 ++ [ODrop 10].

  Lemma hyps : Forall op_ok ops /\ k0 cfgd + N.of_nat (List.length ops) <= max_idN /\ c_authz cfgd = None /\
               ops = pre5 ++ pub :: [add_test; ODrop 10] /\ ops = pre7 ++ ODrop 10 :: [].
  Proof.
    split; [unfold ops, pre7, pre5; cbn [app]; ops_ok|]. split; [apply N.leb_le; reflexivity|].
    repeat split.
  Qed.

  (** one publication, two recipients: identity present for 11, absent for 12 *)
  Lemma publication :
    snd (step (fst (run (init_realm cfgd) pre5)) pub) =
    [(11, REvent 1 7 [("publisher", vid 10); ("publisher_authid", vstr "<gen>");
                      ("publisher_authrole", vstr "anonymous")] [vnat 7] []);
     (12, REvent 1 7 [] [vnat 7] [])].
  Proof. vm_compute. reflexivity. Qed.

  (** the testament of the dropped session 10: the meta session's identity *)
  Lemma testament :
    nget (r_testaments (fst (run (init_realm cfgd) pre7))) 10 =
      Some ([], [mkTest "t" [vnat 9] [] [("disclose_me", VBool true)]]) /\
    snd (step (fst (run (init_realm cfgd) pre7)) (ODrop 10)) =
    [(11, REvent 1 8 [("publisher", vid meta_id); ("publisher_authrole", vstr "trusted")] [vnat 9] []);
     (12, REvent 1 8 [] [vnat 9] [])].
  Proof. split; vm_compute; reflexivity. Qed.
  Definition kill10 : op := OMsg 13 (CCall 1 [] "wamp.session.kill" [vid 10] []) 0.
  Definition pre8 : list op := pre7 ++ [OJoin 13 false hello_pub].

  (** the same testament when 10 is KILLED (wamp.session.kill called by 13):
      in that CALL step the EVENT shows the meta session — neither the caller
      13 nor the victim 10 *)
  Lemma killed :
    snd (step (fst (run (init_realm cfgd) pre8)) kill10) =
    [(13, RResult 1 [] [] []); (10, RGoodbye [] e_close_normal);
     (11, REvent 1 9 [("publisher", vid meta_id); ("publisher_authrole", vstr "trusted")] [vnat 9] []);
     (12, REvent 1 9 [] [vnat 9] [])].
  Proof. vm_compute. reflexivity. Qed.
End EvEx.

Module InvEx12.
  Definition hello_callee_id : dict := [("roles", VDict [("callee", feats ["caller_identification"])])].
  Definition hello_callee : dict := [("roles", VDict [("callee", VDict [])])].
  Definition pre5 : list op :=
    [OJoin 10 false EvEx.hello_pub; OJoin 14 false hello_callee_id; OJoin 15 false hello_callee;
     OMsg 14 (CRegister 1 [] "p") 0; OMsg 15 (CRegister 1 [("disclose_caller", VBool true)] "q") 0].
  Definition call_me : op := OMsg 10 (CCall 5 [("disclose_me", VBool true)] "p" [] []) 0.
  Definition call_q : op := OMsg 10 (CCall 6 [] "q" [] []) 0.
  Definition call_p : op := OMsg 10 (CCall 7 [] "p" [] []) 0.
  Definition ops : list op := pre5 ++ [call_me; call_q; call_p].

  Lemma hyps : Forall op_ok ops /\ k0 EvEx.cfgd + N.of_nat (List.length ops) <= max_idN /\
               ops = pre5 ++ call_me :: [call_q; call_p] /\ ops = (pre5 ++ [call_me]) ++ call_q :: [call_p] /\
               ops = (pre5 ++ [call_me; call_q]) ++ call_p :: [].
  Proof.
    split; [unfold ops, pre5; cbn [app]; ops_ok|]. split; [apply N.leb_le; reflexivity|]. repeat split.
  Qed.

  Definition ident : dict :=
    [("caller", vid 10); ("caller_authid", vstr "<gen>"); ("caller_authrole", vstr "anonymous")].

  Lemma invocations :
    (* through the caller's disclose_me, callee 14 announced caller_identification *)
    snd (step (fst (run (init_realm EvEx.cfgd) pre5)) call_me) =
      [(14, RInvocation 1 24 (("progress", VBool false) :: ident ++ [("procedure", vuri "p")]) [] [])] /\
    (* through the registration's disclose_caller *)
    snd (step (fst (run (init_realm EvEx.cfgd) (pre5 ++ [call_me]))) call_q) =
      [(15, RInvocation 1 25 (("progress", VBool false) :: ident ++ [("procedure", vuri "q")]) [] [])] /\
    (* neither: no identity *)
    snd (step (fst (run (init_realm EvEx.cfgd) (pre5 ++ [call_me; call_q]))) call_p) =
      [(14, RInvocation 2 24 [("progress", VBool false); ("procedure", vuri "p")] [] [])].
  Proof. repeat split; vm_compute; reflexivity. Qed.

  (** 15 is in the list of registration 25; its asking step *)
  Lemma flag :
    (exists rg, nget (d_regs (r_dealer (fst (run (init_realm EvEx.cfgd) ops)))) 25 = Some rg /\
                In 15 (reg_disclose rg) /\ In 15 (reg_callees rg) /\ 15 <> meta_id) /\
    In (15, RRegistered 1 25)
       (snd (step (fst (run (init_realm EvEx.cfgd)
                            [OJoin 10 false EvEx.hello_pub; OJoin 14 false hello_callee_id; OJoin 15 false hello_callee;
                             OMsg 14 (CRegister 1 [] "p") 0]))
                  (OMsg 15 (CRegister 1 [("disclose_caller", VBool true)] "q") 0))).
  Proof.
    split.
    - eexists. split; [vm_compute; reflexivity|]. split; [left; reflexivity|]. split; [left; reflexivity|discriminate].
    - vm_compute. now left.
  Qed.
End InvEx12.

Module SharedEx.
  Definition cfgn : config := mkConfig false false false true true false [] None.
  Definition reg20 : op := OMsg 20 (CRegister 1 [("invoke", vstr "roundrobin"); ("disclose_caller", VBool true)] "s") 0.
  Definition reg21 : op := OMsg 21 (CRegister 1 [("invoke", vstr "roundrobin")] "s") 0.
  Definition joins : list op :=
    [OJoin 20 true InvEx12.hello_callee; OJoin 21 false InvEx12.hello_callee; OJoin 22 false EvEx.hello_pub].
  Definition call1 : op := OMsg 22 (CCall 1 [] "s" [] []) 0.
  Definition call2 : op := OMsg 22 (CCall 2 [] "s" [] []) 0.
  (** 21 never asks *)
  Definition ops : list op := joins ++ [reg20; reg21; call1; call2].
  (** 21 asks first and is refused *)
  Definition ask21 : op := OMsg 21 (CRegister 9 [("disclose_caller", VBool true)] "zz") 0.
  Definition ops' : list op := joins ++ [ask21; reg20; reg21; call1; call2].

  Definition ident : dict :=
    [("caller", vid 22); ("caller_authid", vstr "<gen>"); ("caller_authrole", vstr "anonymous")].
  Definition det : dict := ("progress", VBool false) :: ident ++ [("procedure", vuri "s")].
  Definition plain : dict := [("progress", VBool false); ("procedure", vuri "s")].

  Lemma hyps : c_disclose cfgn = false /\ c_authz cfgn = None /\
               Forall op_ok ops /\ k0 cfgn + N.of_nat (List.length ops) <= max_idN /\
               Forall op_ok ops' /\ k0 cfgn + N.of_nat (List.length ops') <= max_idN.
  Proof.
    split; [reflexivity|]. split; [reflexivity|].
    split; [unfold ops, joins; cbn [app]; ops_ok|]. split; [apply N.leb_le; reflexivity|].
    split; [unfold ops', joins; cbn [app]; ops_ok|]. apply N.leb_le; reflexivity.
  Qed.

  (** the creator 20 is sent the caller's identity, the joiner 21 is not *)
  Lemma outs :
    snd (run (init_realm cfgn) ops) =
    [[]; []; [];
     [(20, RRegistered 1 24)]; [(21, RRegistered 1 24)];
     [(20, RInvocation 1 24 det [] [])];
     [(21, RInvocation 1 24 plain [] [])]].
  Proof. vm_compute. reflexivity. Qed.

  Lemma outs' :
    snd (run (init_realm cfgn) ops') =
    [[]; []; [];
     [(21, RError c_REGISTER 9 [] e_disclose_me [] [])];
     [(20, RRegistered 1 24)]; [(21, RRegistered 1 24)];
     [(20, RInvocation 1 24 det [] [])];
     [(21, RInvocation 1 24 plain [] [])]].
  Proof. vm_compute. reflexivity. Qed.

  (** the list of registration 24: the creator only; both are callees *)
  Lemma lists :
    exists rg, nget (d_regs (r_dealer (fst (run (init_realm cfgn) ops)))) 24 = Some rg /\
               reg_disclose rg = [20] /\ reg_callees rg = [20; 21].
  Proof. eexists. split; [vm_compute; reflexivity|]. split; reflexivity. Qed.
End SharedEx.

Module ConvEx.
  (** the realm allows disclosure; the creator 20 does not ask, the joiner 21 does *)
  Definition reg20 : op := OMsg 20 (CRegister 1 [("invoke", vstr "roundrobin")] "s") 0.
  Definition reg21 : op := OMsg 21 (CRegister 1 [("invoke", vstr "roundrobin"); ("disclose_caller", VBool true)] "s") 0.
  Definition ops : list op :=
    [OJoin 20 false InvEx12.hello_callee; OJoin 21 false InvEx12.hello_callee; OJoin 22 false EvEx.hello_pub;
     reg20; reg21; SharedEx.call1; SharedEx.call2].

  Lemma outs :
    Forall op_ok ops /\ k0 EvEx.cfgd + N.of_nat (List.length ops) <= max_idN /\
    snd (run (init_realm EvEx.cfgd) ops) =
    [[]; []; [];
     [(20, RRegistered 1 24)]; [(21, RRegistered 1 24)];
     [(20, RInvocation 1 24 SharedEx.plain [] [])];
     [(21, RInvocation 1 24 SharedEx.det [] [])]].
  Proof.
    split; [unfold ops; ops_ok|]. split; [apply N.leb_le; reflexivity|]. vm_compute. reflexivity.
  Qed.
End ConvEx.
