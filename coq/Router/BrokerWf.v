(** * The broker invariant [broker_wf] and the abstract holding relation.

    [broker_wf b] says that the five tables of the broker (three topic maps,
    [b_subs], [b_sess]) plus the history table describe ONE relation
    "session r holds subscription id (topic t, policy kind k)".
    This file: definitions and the table-level lemmas; preservation by the
    broker operations is in BrokerPres.v. *)
From Nexus Require Import Router.Broker Router.AssocLemmas.
From Coq Require Import Lia ZifyN ZifyBool.

(** ** The assoc lemmas restated over [nget]/[nset]/[ndel]/[sget]/[sset]/[sdel] *)
Section NS.
  Context {V : Type}.
  Lemma ngs : forall (l : list (N * V)) k k' v, nget (nset l k v) k' = if N.eqb k' k then Some v else nget l k'.
  Proof. intros; apply (aget_aset N.eqb N.eqb_spec). Qed.
  Lemma ngd : forall (l : list (N * V)) k k', nget (ndel l k) k' = if N.eqb k' k then None else nget l k'.
  Proof. intros; apply (aget_adel N.eqb N.eqb_spec). Qed.
  Lemma ngd_same : forall (l : list (N * V)) k, nget (ndel l k) k = None.
  Proof. intros; apply (aget_adel_same N.eqb N.eqb_spec). Qed.
  Lemma ngs_same : forall (l : list (N * V)) k v, nget (nset l k v) k = Some v.
  Proof. intros; apply (aget_aset_same N.eqb N.eqb_spec). Qed.
  Lemma sgs : forall (l : list (string * V)) k k' v, sget (sset l k v) k' = if String.eqb k' k then Some v else sget l k'.
  Proof. intros; apply (aget_aset String.eqb String.eqb_spec). Qed.
  Lemma sgd : forall (l : list (string * V)) k k', sget (sdel l k) k' = if String.eqb k' k then None else sget l k'.
  Proof. intros; apply (aget_adel String.eqb String.eqb_spec). Qed.
  Lemma nset_nodup : forall (l : list (N * V)) k v, NoDup (map fst l) -> NoDup (map fst (nset l k v)).
  Proof. intros; now apply (NoDup_aset N.eqb N.eqb_spec). Qed.
  Lemma ndel_nodup : forall (l : list (N * V)) k, NoDup (map fst l) -> NoDup (map fst (ndel l k)).
  Proof. intros; now apply NoDup_adel. Qed.
  Lemma sset_nodup : forall (l : list (string * V)) k v, NoDup (map fst l) -> NoDup (map fst (sset l k v)).
  Proof. intros; now apply (NoDup_aset String.eqb String.eqb_spec). Qed.
  Lemma sdel_nodup : forall (l : list (string * V)) k, NoDup (map fst l) -> NoDup (map fst (sdel l k)).
  Proof. intros; now apply NoDup_adel. Qed.
End NS.

(** ** Policy kinds *)
Definition kind (s : subscription) : mkind := mkind_of (sub_match s).
Definition is_pattern (k : mkind) : bool := match k with MExact => false | _ => true end.

Definition mkind_eqb (a b : mkind) : bool :=
  match a, b with MExact, MExact | MPrefix, MPrefix | MWildcard, MWildcard => true | _, _ => false end.
Lemma mkind_eqb_spec : forall a b, reflect (a = b) (mkind_eqb a b).
Proof. intros [] []; cbn; constructor; congruence. Qed.
Lemma mkind_eq_dec : forall a b : mkind, {a = b} + {a <> b}.
Proof. decide equality. Qed.

(** A publication topic [topic] is matched by the subscription pattern [t]
    under policy kind [k]. *)
Definition matches (k : mkind) (t topic : string) : Prop :=
  match k with
  | MExact => t = topic
  | MPrefix => prefix_match topic t = true
  | MWildcard => wildcard_match topic t = true
  end.
Definition matches_b (k : mkind) (t topic : string) : bool :=
  match k with
  | MExact => String.eqb t topic
  | MPrefix => prefix_match topic t
  | MWildcard => wildcard_match topic t
  end.
Lemma matches_b_spec : forall k t topic, matches_b k t topic = true <-> matches k t topic.
Proof. intros [] t topic; cbn; try tauto. apply String.eqb_eq. Qed.

(** ** The abstract relation *)
(** [s] is a subscription of the broker *)
Definition sub_in (b : broker) (s : subscription) : Prop := nget (b_subs b) (sub_id s) = Some s.
(** session [r] holds subscription [s] *)
Definition holds (b : broker) (r : N) (s : subscription) : Prop := sub_in b s /\ In r (sub_subs s).
(** session [r] holds the subscription with id [id], topic [t], policy kind [k]
    (the form that does not mention the other subscribers) *)
Definition holds_sig (b : broker) (r id : N) (t : string) (k : mkind) : Prop :=
  exists s, nget (b_subs b) id = Some s /\ sub_topic s = t /\ kind s = k /\ In r (sub_subs s).
(** a subscription with that id / topic / kind exists *)
Definition sub_sig (b : broker) (id : N) (t : string) (k : mkind) : Prop :=
  exists s, nget (b_subs b) id = Some s /\ sub_topic s = t /\ kind s = k.

(** table-level relations *)
Definition sess_has (l : list (N * list N)) (sid id : N) : Prop :=
  exists ids, nget l sid = Some ids /\ In id ids.
Definition sub_has (l : list (N * subscription)) (id sid : N) : Prop :=
  exists s, nget l id = Some s /\ In sid (sub_subs s).

(** ** The invariant *)
Record core_wf (b : broker) : Prop := mkCore {
  (* keys of each topic map are unique; every entry points to a subscription
     with that topic and that kind (and that id, by [wf_sub_id]) *)
  wf_map_nodup : forall k, NoDup (map fst (b_map b k));
  wf_map_sub : forall k t id, sget (b_map b k) t = Some id ->
      exists s, nget (b_subs b) id = Some s /\ sub_topic s = t /\ kind s = k;
  (* the subscription table *)
  wf_subs_nodup : NoDup (map fst (b_subs b));
  wf_sub_id : forall id s, nget (b_subs b) id = Some s -> sub_id s = id;
  wf_sub_map : forall id s, nget (b_subs b) id = Some s ->
      sget (b_map b (kind s)) (sub_topic s) = Some id;
  wf_sub_nodup : forall id s, nget (b_subs b) id = Some s -> NoDup (sub_subs s);
  wf_sub_le : forall id s, nget (b_subs b) id = Some s -> 1 <= id <= b_idgen b;
  (* history stores belong to existing subscriptions *)
  wf_hist_nodup : NoDup (map fst (b_hist b));
  wf_hist_sub : forall id, has_history b id = true -> exists s, nget (b_subs b) id = Some s
}.

(** a subscription without subscribers exists only if it has a history store *)
Definition empty_ok (b : broker) : Prop :=
  forall id s, nget (b_subs b) id = Some s -> sub_subs s = [] -> has_history b id = true.

Record sess_ok (l : list (N * list N)) : Prop := mkSessOk {
  wf_sess_nodup : NoDup (map fst l);
  wf_sess_list : forall sid ids, nget l sid = Some ids -> ids <> [] /\ NoDup ids
}.

(** [b_sess] lists for each session exactly the subscriptions it holds *)
Definition sess_rel (b : broker) : Prop :=
  forall sid id, sess_has (b_sess b) sid id <-> sub_has (b_subs b) id sid.

Record broker_wf (b : broker) : Prop := mkWf {
  wf_core : core_wf b;
  wf_empty : empty_ok b;
  wf_sess : sess_ok (b_sess b);
  wf_rel : sess_rel b
}.

(** ** Projections of the setters *)
Lemma b_map_set_same : forall b k m, b_map (b_set_map b k m) k = m.
Proof. intros b [] m; reflexivity. Qed.
Lemma b_map_set_other : forall b k k' m, k <> k' -> b_map (b_set_map b k m) k' = b_map b k'.
Proof. intros b [] [] m H; try reflexivity; congruence. Qed.
Lemma b_map_set : forall b k k' m, b_map (b_set_map b k m) k' = if mkind_eqb k k' then m else b_map b k'.
Proof. intros b [] [] m; reflexivity. Qed.
Lemma b_subs_set_map : forall b k m, b_subs (b_set_map b k m) = b_subs b.
Proof. intros b [] m; reflexivity. Qed.
Lemma b_sess_set_map : forall b k m, b_sess (b_set_map b k m) = b_sess b.
Proof. intros b [] m; reflexivity. Qed.
Lemma b_hist_set_map : forall b k m, b_hist (b_set_map b k m) = b_hist b.
Proof. intros b [] m; reflexivity. Qed.
Lemma b_idgen_set_map : forall b k m, b_idgen (b_set_map b k m) = b_idgen b.
Proof. intros b [] m; reflexivity. Qed.
Lemma b_map_set_subs : forall b x k, b_map (b_set_subs b x) k = b_map b k.
Proof. intros b x []; reflexivity. Qed.
Lemma b_map_set_sess : forall b x k, b_map (b_set_sess b x) k = b_map b k.
Proof. intros b x []; reflexivity. Qed.
Lemma b_map_set_hist : forall b x k, b_map (b_set_hist b x) k = b_map b k.
Proof. intros b x []; reflexivity. Qed.
Lemma b_map_set_idgen : forall b x k, b_map (b_set_idgen b x) k = b_map b k.
Proof. intros b x []; reflexivity. Qed.

Lemma b_subs_set_subs : forall b x, b_subs (b_set_subs b x) = x.
Proof. reflexivity. Qed.
Lemma b_sess_set_subs : forall b x, b_sess (b_set_subs b x) = b_sess b.
Proof. reflexivity. Qed.
Lemma b_hist_set_subs : forall b x, b_hist (b_set_subs b x) = b_hist b.
Proof. reflexivity. Qed.
Lemma b_idgen_set_subs : forall b x, b_idgen (b_set_subs b x) = b_idgen b.
Proof. reflexivity. Qed.
Lemma b_subs_set_sess : forall b x, b_subs (b_set_sess b x) = b_subs b.
Proof. reflexivity. Qed.
Lemma b_sess_set_sess : forall b x, b_sess (b_set_sess b x) = x.
Proof. reflexivity. Qed.
Lemma b_hist_set_sess : forall b x, b_hist (b_set_sess b x) = b_hist b.
Proof. reflexivity. Qed.
Lemma b_idgen_set_sess : forall b x, b_idgen (b_set_sess b x) = b_idgen b.
Proof. reflexivity. Qed.
Lemma b_subs_set_hist : forall b x, b_subs (b_set_hist b x) = b_subs b.
Proof. reflexivity. Qed.
Lemma b_sess_set_hist : forall b x, b_sess (b_set_hist b x) = b_sess b.
Proof. reflexivity. Qed.
Lemma b_hist_set_hist : forall b x, b_hist (b_set_hist b x) = x.
Proof. reflexivity. Qed.
Lemma b_idgen_set_hist : forall b x, b_idgen (b_set_hist b x) = b_idgen b.
Proof. reflexivity. Qed.
Lemma b_subs_set_idgen : forall b x, b_subs (b_set_idgen b x) = b_subs b.
Proof. reflexivity. Qed.
Lemma b_sess_set_idgen : forall b x, b_sess (b_set_idgen b x) = b_sess b.
Proof. reflexivity. Qed.
Lemma b_hist_set_idgen : forall b x, b_hist (b_set_idgen b x) = b_hist b.
Proof. reflexivity. Qed.
Lemma b_idgen_set_idgen : forall b x, b_idgen (b_set_idgen b x) = x.
Proof. reflexivity. Qed.
#[export] Hint Rewrite b_map_set_subs b_map_set_sess b_map_set_hist b_map_set_idgen b_subs_set_map b_sess_set_map b_hist_set_map b_idgen_set_map
  b_subs_set_subs b_sess_set_subs b_hist_set_subs b_idgen_set_subs b_subs_set_sess b_sess_set_sess b_hist_set_sess b_idgen_set_sess b_subs_set_hist b_sess_set_hist b_hist_set_hist b_idgen_set_hist b_subs_set_idgen b_sess_set_idgen b_hist_set_idgen b_idgen_set_idgen : bproj.

(** ** [mkind_of] *)
Lemma mkind_of_prefix : mkind_of match_prefix = MPrefix. Proof. reflexivity. Qed.
Lemma mkind_of_wildcard : mkind_of match_wildcard = MWildcard. Proof. reflexivity. Qed.
Lemma mkind_of_exact : mkind_of match_exact = MExact. Proof. reflexivity. Qed.
Lemma mkind_of_empty : mkind_of "" = MExact. Proof. reflexivity. Qed.
Lemma mkind_of_cases : forall m,
    (m = match_prefix /\ mkind_of m = MPrefix) \/
    (m = match_wildcard /\ mkind_of m = MWildcard) \/
    (m <> match_prefix /\ m <> match_wildcard /\ mkind_of m = MExact).
Proof.
  intros m. unfold mkind_of.
  destruct (String.eqb_spec m match_prefix) as [->|N1]; [left; auto|].
  destruct (String.eqb_spec m match_wildcard) as [->|N2]; [right; left; auto|].
  right; right; auto.
Qed.

(** ** [sess_has] / [sub_has] under table updates *)
Lemma sub_has_nset : forall l id s id' sid,
    sub_has (nset l id s) id' sid <-> (id' = id /\ In sid (sub_subs s)) \/ (id' <> id /\ sub_has l id' sid).
Proof.
  intros l id s id' sid. unfold sub_has. setoid_rewrite ngs.
  destruct (N.eqb_spec id' id) as [->|Hn].
  - split.
    + intros (s' & E & I). inversion E; subst. left; auto.
    + intros [[_ I]|[Hn _]]; [eauto|congruence].
  - split.
    + intros H; right; auto.
    + intros [[E _]|[_ H]]; [congruence|auto].
Qed.

Lemma sub_has_ndel : forall l id id' sid,
    sub_has (ndel l id) id' sid <-> id' <> id /\ sub_has l id' sid.
Proof.
  intros l id id' sid. unfold sub_has. setoid_rewrite ngd.
  destruct (N.eqb_spec id' id) as [->|Hn].
  - split; [intros (s & E & _); discriminate | intros [H _]; congruence].
  - tauto.
Qed.

Lemma sess_has_nset : forall l sid ids sid' id,
    sess_has (nset l sid ids) sid' id <-> (sid' = sid /\ In id ids) \/ (sid' <> sid /\ sess_has l sid' id).
Proof.
  intros l sid ids sid' id. unfold sess_has. setoid_rewrite ngs.
  destruct (N.eqb_spec sid' sid) as [->|Hn].
  - split.
    + intros (s' & E & I). inversion E; subst. left; auto.
    + intros [[_ I]|[Hn _]]; [eauto|congruence].
  - split.
    + intros H; right; auto.
    + intros [[E _]|[_ H]]; [congruence|auto].
Qed.

Lemma sess_has_ndel : forall l sid sid' id,
    sess_has (ndel l sid) sid' id <-> sid' <> sid /\ sess_has l sid' id.
Proof.
  intros l sid sid' id. unfold sess_has. setoid_rewrite ngd.
  destruct (N.eqb_spec sid' sid) as [->|Hn].
  - split; [intros (s & E & _); discriminate | intros [H _]; congruence].
  - tauto.
Qed.

Lemma sess_has_add : forall l sid id sid' id',
    sess_has (sess_add_sub l sid id) sid' id' <-> sess_has l sid' id' \/ (sid' = sid /\ id' = id).
Proof.
  intros l sid id sid' id'. unfold sess_add_sub.
  destruct (nget l sid) as [ids|] eqn:E.
  - destruct (nmem id ids) eqn:M.
    + apply nmem_In in M. split; [auto|]. intros [H|[-> ->]]; auto. exists ids; auto.
    + rewrite sess_has_nset. split.
      * intros [[-> I]|[Hn H]]; auto. apply in_app_iff in I. destruct I as [I|[<-|[]]]; auto.
        left; exists ids; auto.
      * intros [(ids' & E' & I)|[-> ->]].
        -- destruct (N.eq_dec sid' sid) as [->|Hn].
           ++ left; split; auto. rewrite E in E'; inversion E'; subst. apply in_app_iff; auto.
           ++ right; split; auto. exists ids'; auto.
        -- left; split; auto. apply in_app_iff; right; now left.
  - rewrite sess_has_nset. split.
    + intros [[-> [<-|[]]]|[Hn H]]; auto.
    + intros [(ids' & E' & I)|[-> ->]].
      * destruct (N.eq_dec sid' sid) as [->|Hn]; [congruence|].
        right; split; auto. exists ids'; auto.
      * left; split; auto. now left.
Qed.

Lemma sess_ok_add : forall l sid id, sess_ok l -> sess_ok (sess_add_sub l sid id).
Proof.
  intros l sid id [ND HL]. unfold sess_add_sub.
  destruct (nget l sid) as [ids|] eqn:E.
  - destruct (nmem id ids) eqn:M; [split; auto|].
    apply nmem_false in M. destruct (HL _ _ E) as [Hne HND].
    split; [now apply nset_nodup|].
    intros sid' ids'. rewrite ngs. destruct (N.eqb_spec sid' sid) as [->|Hn]; [|apply HL].
    intros E'; inversion E'; subst. split; [destruct ids; discriminate|now apply NoDup_snoc].
  - split; [now apply nset_nodup|].
    intros sid' ids'. rewrite ngs. destruct (N.eqb_spec sid' sid) as [->|Hn]; [|apply HL].
    intros E'; inversion E'; subst. split; [discriminate|]. constructor; [intros []|constructor].
Qed.

Lemma sess_has_del : forall l sid id sid' id',
    sess_has (sess_del_sub l sid id) sid' id' <-> sess_has l sid' id' /\ ~ (sid' = sid /\ id' = id).
Proof.
  intros l sid id sid' id'. unfold sess_del_sub.
  destruct (nget l sid) as [ids|] eqn:E.
  - destruct (nremove id ids) as [|x r] eqn:R.
    + rewrite sess_has_ndel. split.
      * intros [Hn H]; split; auto. intros [? _]; auto.
      * intros [(ids' & E' & I) Hn]. split; [|exists ids'; auto].
        intros ->. rewrite E in E'; inversion E'; subst.
        destruct (N.eq_dec id' id) as [->|Hd]; [auto|].
        assert (In id' (nremove id ids')) by (apply In_nremove; auto). rewrite R in H; destruct H.
    + rewrite <- R. rewrite sess_has_nset. split.
      * intros [[-> I]|[Hn H]].
        -- apply In_nremove in I. destruct I as [I Hd]. split; [exists ids; auto|]. intros [_ ?]; auto.
        -- split; auto. intros [? _]; auto.
      * intros [(ids' & E' & I) Hn].
        destruct (N.eq_dec sid' sid) as [->|Hs].
        -- left; split; auto. rewrite E in E'; inversion E'; subst. apply In_nremove; split; auto.
        -- right; split; auto. exists ids'; auto.
  - split; [|tauto]. intros H; split; auto. intros [-> _]. destruct H as (ids' & E' & _); congruence.
Qed.

Lemma sess_ok_del : forall l sid id, sess_ok l -> sess_ok (sess_del_sub l sid id).
Proof.
  intros l sid id [ND HL]. unfold sess_del_sub.
  destruct (nget l sid) as [ids|] eqn:E; [|split; auto].
  destruct (HL _ _ E) as [Hne HND].
  destruct (nremove id ids) as [|x r] eqn:R.
  - split; [now apply ndel_nodup|].
    intros sid' ids'. rewrite ngd. destruct (N.eqb_spec sid' sid); [discriminate|apply HL].
  - split; [now apply nset_nodup|].
    intros sid' ids'. rewrite ngs. destruct (N.eqb_spec sid' sid) as [->|Hn]; [|apply HL].
    intros E'; inversion E'; subst. split; [discriminate|]. rewrite <- R. now apply NoDup_nremove.
Qed.

Lemma sess_ok_ndel : forall l sid, sess_ok l -> sess_ok (ndel l sid).
Proof.
  intros l sid [ND HL]. split; [now apply ndel_nodup|].
  intros sid' ids'. rewrite ngd. destruct (N.eqb_spec sid' sid); [discriminate|apply HL].
Qed.

(** ** Entry-level ([In]) reading of the invariant *)
Lemma wf_map_entry : forall b, core_wf b -> forall k t id, In (t, id) (b_map b k) ->
    exists s, nget (b_subs b) id = Some s /\ sub_id s = id /\ sub_topic s = t /\ kind s = k.
Proof.
  intros b W k t id HI.
  apply (In_aget String.eqb String.eqb_spec) in HI; [|apply (wf_map_nodup b W)].
  destruct (wf_map_sub b W k t id HI) as (s & E & Ht & Hk).
  exists s; repeat split; auto. eapply wf_sub_id; eauto.
Qed.

Lemma wf_sub_entry : forall b, core_wf b -> forall id s, In (id, s) (b_subs b) ->
    sub_id s = id /\ In (sub_topic s, id) (b_map b (kind s)) /\ NoDup (sub_subs s) /\ 1 <= id <= b_idgen b.
Proof.
  intros b W id s HI.
  apply (In_aget N.eqb N.eqb_spec) in HI; [|apply (wf_subs_nodup b W)].
  repeat split; try (eapply wf_sub_le; eauto).
  - eapply wf_sub_id; eauto.
  - apply (aget_In String.eqb String.eqb_spec). eapply wf_sub_map; eauto.
  - eapply wf_sub_nodup; eauto.
Qed.

Lemma sub_in_iff : forall b, core_wf b -> forall id s, nget (b_subs b) id = Some s <-> (sub_in b s /\ sub_id s = id).
Proof.
  intros b W id s. unfold sub_in. split.
  - intros H. pose proof (wf_sub_id b W id s H) as E. subst. auto.
  - intros [H <-]; auto.
Qed.

(** two subscriptions of a well-formed broker with the same topic and kind are the same *)
Lemma sub_in_unique : forall b, core_wf b -> forall s1 s2,
    sub_in b s1 -> sub_in b s2 -> sub_topic s1 = sub_topic s2 -> kind s1 = kind s2 -> s1 = s2.
Proof.
  intros b W s1 s2 H1 H2 Et Ek. unfold sub_in in *.
  pose proof (wf_sub_map b W _ _ H1) as M1. pose proof (wf_sub_map b W _ _ H2) as M2.
  rewrite Et, Ek in M1. rewrite M1 in M2. inversion M2 as [E]. rewrite E in H1. congruence.
Qed.

(** the empty broker *)
Lemma empty_wf : broker_wf empty_broker.
Proof.
  split.
  - split; cbn; try (intros; discriminate); try constructor.
    intros []; constructor.
    intros [] t id; discriminate.
  - intros id s; discriminate.
  - split; cbn; [constructor|intros; discriminate].
  - intros sid id; split; intros (x & E & _); discriminate.
Qed.
