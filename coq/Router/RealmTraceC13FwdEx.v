(** * Histories of the whole model, C13 (forward_timeout per callee), part 3:
    concrete histories.
    - [FwdEx]: a shared (roundrobin) registration; both callees announce
      call_timeout; the CREATOR 20 registers with [forward_timeout = true], the
      JOINER 21 without.  A CALL with timeout 100 routed to the creator carries
      [timeout = 100] and arms no router timer; the next CALL, routed to the
      joiner, carries no timeout and a router timer (deadline now + 100) is
      armed.  The list of the registration is [20].
    - [FwdConvEx]: the converse: the joiner asks, the creator does not. *)
From Nexus Require Import Router.Realm Router.RealmProofs Router.RealmWf Router.RealmStep.
From Nexus Require Import Router.RealmTraceLib Router.RealmTrace Router.RealmTraceC05 Router.RealmTraceEx.
From Nexus Require Import Router.RealmTraceC13Fwd Router.RealmTraceC13FwdHist.
From Coq Require Import Lia.

Module FwdEx.
  Definition cfg0 : config := mkConfig false false false true true false [] None.
  Definition hello_ct : dict := [("roles", VDict [("callee", feats ["call_timeout"])])].
  Definition hello_caller : dict := [("roles", VDict [("caller", VDict [])])].
  Definition rr : dict := [("invoke", vstr "roundrobin")].
  Definition rr_fwd : dict := [("invoke", vstr "roundrobin"); ("forward_timeout", VBool true)].
  Definition joins : list op := [OJoin 20 false hello_ct; OJoin 21 false hello_ct; OJoin 22 false hello_caller].
  Definition call1 : op := OMsg 22 (CCall 1 [("timeout", vnat 100)] "s" [] []) 0.
  Definition call2 : op := OMsg 22 (CCall 2 [("timeout", vnat 100)] "s" [] []) 0.
  Definition pre5 : list op := joins ++ [OMsg 20 (CRegister 1 rr_fwd "s") 0; OMsg 21 (CRegister 1 rr "s") 0].
  Definition ops : list op := pre5 ++ [call1; call2].

  Definition det_fwd : dict := [("progress", VBool false); ("procedure", vuri "s"); ("timeout", VInt KInt64 100)].
  Definition det_plain : dict := [("progress", VBool false); ("procedure", vuri "s")].

  Lemma hyps : c_authz cfg0 = None /\ Forall op_ok ops /\ k0 cfg0 + N.of_nat (List.length ops) <= max_idN /\
               ops = pre5 ++ call1 :: [call2] /\ ops = (pre5 ++ [call1]) ++ call2 :: [].
  Proof.
    split; [reflexivity|]. split; [unfold ops, pre5, joins; cbn [app]; ops_ok|].
    split; [apply N.leb_le; reflexivity|]. split; reflexivity.
  Qed.

  Lemma outs :
    snd (run (init_realm cfg0) ops) =
    [[]; []; []; [(20, RRegistered 1 24)]; [(21, RRegistered 1 24)];
     [(20, RInvocation 1 24 det_fwd [] [])];
     [(21, RInvocation 1 24 det_plain [] [])]].
  Proof. vm_compute. reflexivity. Qed.

  (** forwarded to the creator: no router timer; not forwarded to the joiner:
      a router timer with deadline now + 100 for call (22, 2) *)
  Lemma timers :
    d_timers (r_dealer (fst (run (init_realm cfg0) (pre5 ++ [call1])))) = [] /\
    d_timers (r_dealer (fst (run (init_realm cfg0) ops))) = [(1, (100, (22, 2)))].
  Proof. split; vm_compute; reflexivity. Qed.

  Lemma lists :
    exists rg, nget (d_regs (r_dealer (fst (run (init_realm cfg0) ops)))) 24 = Some rg /\
               reg_fwd_timeout rg = [20] /\ reg_callees rg = [20; 21].
  Proof. eexists. split; [vm_compute; reflexivity|]. split; reflexivity. Qed.

  (** the hypotheses of [timeout_forwarded_only_if_callee_asked_proof] hold for
      the creator's INVOCATION *)
  Lemma only_if_hyps :
    In (20, RInvocation 1 24 det_fwd [] []) (snd (step (fst (run (init_realm cfg0) pre5)) call1)) /\
    dget det_fwd "timeout" <> None.
  Proof. split; [vm_compute; left; reflexivity|discriminate]. Qed.
End FwdEx.

Module FwdConvEx.
  Import FwdEx.
  Definition pre5 : list op := joins ++ [OMsg 20 (CRegister 1 rr "s") 0; OMsg 21 (CRegister 1 rr_fwd "s") 0].
  Definition ops : list op := pre5 ++ [call1; call2].

  Lemma outs :
    Forall op_ok ops /\ k0 cfg0 + N.of_nat (List.length ops) <= max_idN /\
    snd (run (init_realm cfg0) ops) =
    [[]; []; []; [(20, RRegistered 1 24)]; [(21, RRegistered 1 24)];
     [(20, RInvocation 1 24 det_plain [] [])];
     [(21, RInvocation 1 24 det_fwd [] [])]] /\
    d_timers (r_dealer (fst (run (init_realm cfg0) (pre5 ++ [call1])))) = [(1, (100, (22, 1)))] /\
    d_timers (r_dealer (fst (run (init_realm cfg0) ops))) = [(1, (100, (22, 1)))].
  Proof.
    split; [unfold ops, pre5, joins; cbn [app]; ops_ok|]. split; [apply N.leb_le; reflexivity|].
    repeat split; vm_compute; reflexivity.
  Qed.
End FwdConvEx.
