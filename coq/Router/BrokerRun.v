(** * Sequences of broker operations.

    [bop] is one broker action; every action carries the value [pg] of the
    publication-id supply it is run with (an oracle: the real router draws
    random global ids), so theorems over [brun] hold for every id supply.
    [threaded] singles out the runs in which the supply is the counter the
    realm model threads through. *)
From Nexus Require Import Router.Broker Router.AssocLemmas Router.BrokerWf Router.BrokerPres.
From Coq Require Import Lia ZifyN ZifyBool ZifyNat.

Inductive bop :=
| BSubscribe (pg sid req : N) (opts : dict) (topic : string)
| BUnsubscribe (pg sid req subid : N)
| BRemove (pg sid : N)
| BPublish (pg : N) (lookup : N -> option session) (now : N) (pub : session) (req : N)
           (opts : dict) (topic : string) (args : list value) (kw : dict).

Definition bstep (cfg : config) (b : broker) (o : bop) : broker * N * list out :=
  match o with
  | BSubscribe pg sid req opts topic => subscribe cfg b pg sid req opts topic
  | BUnsubscribe pg sid req subid => unsubscribe b pg sid req subid
  | BRemove pg sid => broker_remove_session b pg sid
  | BPublish pg lookup now pub req opts topic args kw => publish cfg lookup now b pg pub req opts topic args kw
  end.

Definition bnext (cfg : config) (b : broker) (o : bop) : broker := fst (fst (bstep cfg b o)).
Definition brun (cfg : config) (b : broker) (ops : list bop) : broker := fold_left (bnext cfg) ops b.

Definition bop_pg (o : bop) : N :=
  match o with
  | BSubscribe pg _ _ _ _ | BUnsubscribe pg _ _ _ | BRemove pg _ | BPublish pg _ _ _ _ _ _ _ _ => pg
  end.

(** the id supply is the threaded counter *)
Fixpoint threaded (cfg : config) (b : broker) (pg : N) (ops : list bop) : Prop :=
  match ops with
  | [] => True
  | o :: r => bop_pg o = pg /\ threaded cfg (bnext cfg b o) (snd (fst (bstep cfg b o))) r
  end.

(** the broker a realm starts with *)
Definition broker_init (cfgs : list hist_cfg) : broker := preinit_history empty_broker cfgs.

Lemma bstep_wf : forall cfg b o, broker_wf b -> b_idgen b < max_idN ->
    broker_wf (bnext cfg b o) /\ b_idgen b <= b_idgen (bnext cfg b o) <= b_idgen b + 1.
Proof.
  intros cfg b o W Hlt. unfold bnext. destruct o; cbn [bstep].
  - destruct (subscribe cfg b pg sid req opts topic) as [[b' pg'] o'] eqn:E. cbn [fst]. split.
    + eapply subscribe_wf; eauto.
    + eapply subscribe_idgen; eauto.
  - destruct (unsubscribe b pg sid req subid) as [[b' pg'] o'] eqn:E. cbn [fst]. split.
    + eapply unsubscribe_wf; eauto.
    + apply unsubscribe_idgen in E. lia.
  - destruct (broker_remove_session b pg sid) as [[b' pg'] o'] eqn:E. cbn [fst]. split.
    + eapply remove_session_wf; eauto.
    + apply remove_session_idgen in E; auto. lia.
  - destruct (publish cfg lookup now b pg pub req opts topic args kw) as [[b' pg'] o'] eqn:E. cbn [fst]. split.
    + eapply publish_wf; eauto.
    + apply publish_idgen in E; [lia|apply W].
Qed.

(** The invariant holds after every sequence of operations, provided fewer
    than 2^53 subscriptions are ever created (each operation creates at most
    one; the id generator would wrap to 1 at 2^53). *)
Theorem brun_wf : forall cfg ops b, broker_wf b ->
    b_idgen b + N.of_nat (List.length ops) <= max_idN ->
    broker_wf (brun cfg b ops) /\ b_idgen (brun cfg b ops) <= b_idgen b + N.of_nat (List.length ops).
Proof.
  intros cfg ops; induction ops as [|o ops IH]; intros b W Hlt; cbn [brun fold_left List.length] in *.
  - split; auto. lia.
  - assert (Hlt1 : b_idgen b < max_idN) by lia.
    destruct (bstep_wf cfg b o W Hlt1) as [W1 Hg1].
    destruct (IH (bnext cfg b o) W1) as [W2 Hg2]; [lia|].
    split; auto. unfold brun in Hg2. lia.
Qed.

Theorem reachable_wf : forall cfg cfgs ops,
    N.of_nat (List.length cfgs) + N.of_nat (List.length ops) <= max_idN ->
    broker_wf (brun cfg (broker_init cfgs) ops).
Proof.
  intros cfg cfgs ops H. unfold broker_init.
  destruct (preinit_wf_gen cfgs empty_broker empty_wf) as [W Hg]; [cbn; lia|].
  apply brun_wf; auto. cbn in Hg. lia.
Qed.

Lemma brun_app : forall cfg b l1 l2, brun cfg b (l1 ++ l2) = brun cfg (brun cfg b l1) l2.
Proof. intros. unfold brun. apply fold_left_app. Qed.
