(** * Histories, broker side, part 5 (C01): the segments of every step taken
    from a well-formed realm meet [seg_ok] — hence the subscription monitor of
    every (session, subscription) passes every step ([step_mon]) and every
    history ([sub_discipline_from]).

    The authorization gate: an authorizer may hand back a different message.
    [gate_unsub_id r o] states what is needed of it: an UNSUBSCRIBE is admitted
    as the UNSUBSCRIBE that was received (otherwise the UNSUBSCRIBED the client
    sees acknowledges a subscription other than the one it named). *)
From Nexus Require Import Router.Realm Router.AssocLemmas Router.RealmLib Router.RealmProofs
     Router.RealmMetaProofs Router.RealmLeave.
From Nexus Require Import Router.BrokerWf Router.BrokerPres Router.BrokerPublish Router.BrokerSub Router.BrokerRun.
From Nexus Require Import Router.DealerLib Router.DealerProofs Router.DealerReg Router.DealerCall Router.DealerWf
     Router.DealerWfCalls Router.DealerWfRegs Router.DealerRemove.
From Nexus Require Import Router.RealmWf Router.RealmStep Router.RealmC05 Router.RealmOutputs Router.RealmIdle.
From Nexus Require Import Router.RealmTraceLib Router.RealmTrace Router.RealmTraceC01Seg Router.RealmTraceC01Ev
     Router.RealmTraceC01Mon Router.RealmTraceC01Kind.
From Coq Require Import Lia ZifyN ZifyNat ZifyBool.

(** the gate admits an UNSUBSCRIBE as the UNSUBSCRIBE it received *)
Definition gate_unsub_id (r : realm) (o : op) : Prop :=
  forall sid q sub orc s m', o = OMsg sid (CUnsubscribe q sub) orc -> find_session (r_clients r) sid = Some s ->
    gate r s (CUnsubscribe q sub) = inl m' -> m' = CUnsubscribe q sub.

Lemma not_client_holds_nothing : forall r y, realm_wf r -> ~ client r y ->
    forall sub, ~ sub_has (b_subs (r_broker r)) sub y.
Proof.
  intros r y W Hn sub Hs. apply Hn. apply (rw_sess_att r W).
  apply (wf_rel _ (rw_broker r W)) in Hs. destruct Hs as (ids & E & _). congruence.
Qed.

Lemma decomp_next : forall r l r' o, decomp r l r' o ->
    fst (fst (seg_run (r_cfg r) (r_broker r) (r_pubgen r) l)) = r_broker r'.
Proof. intros r l r' o (_ & _ & E). now rewrite E. Qed.

Lemma decomp_sb_next : forall r bo r' o, decomp r [SB bo] r' o -> bnext (r_cfg r) (r_broker r) bo = r_broker r'.
Proof.
  intros r bo r' o (_ & _ & E). cbn [seg_run] in E. unfold bnext.
  destruct (bstep (r_cfg r) (r_broker r) bo) as [[b1 pg1] o1]. inversion E. reflexivity.
Qed.

Lemma ok_app : forall cur r l1 r1 o1 l2,
    decomp r l1 r1 o1 -> seg_ok cur (r_cfg r) (r_broker r) l1 -> seg_ok cur (r_cfg r1) (r_broker r1) l2 ->
    seg_ok cur (r_cfg r) (r_broker r) (l1 ++ l2).
Proof.
  intros cur r l1 r1 o1 l2 D A B. apply (seg_ok_app cur (r_cfg r) l1 l2 (r_broker r) (r_pubgen r) A).
  rewrite (decomp_next _ _ _ _ D). destruct D as (E & _). now rewrite <- E.
Qed.

Section Ok.
  Variable cur : op.

  Lemma ok_mp : forall r mp rest, realm_wf r -> bop_ok cur (r_cfg r) (r_broker r) (mp_bop r mp) rest.
  Proof.
    intros r mp rest W. cbn [mp_bop bop_ok]. split.
    - apply lookup_ok_realm, (rw_meta_id r W).
    - intros _. left. rewrite (rw_meta_id r W). apply not_client_holds_nothing; [exact W|].
      intros C. apply C. apply (rw_no_meta r W).
  Qed.

  Lemma ok_mps : forall mps r k, realm_wf r -> ids_below k r ->
      seg_ok cur (r_cfg r) (r_broker r) (segs_mps r mps).
  Proof.
    induction mps as [|mp mps IH]; intros r k W I; cbn [segs_mps seg_ok]; [exact Logic.I|].
    split; [now apply ok_mp|].
    destruct (meta_publish_wf r mp k W I) as [W1 I1].
    pose proof (decomp_meta_publish r mp) as D.
    rewrite (decomp_sb_next _ _ _ _ D). destruct D as (E & _). rewrite <- E. eapply IH; eauto.
  Qed.

  Lemma dying_leave : forall r sid l, realm_wf r -> dying sid (r_broker r) (segs_leave r sid ++ l).
  Proof.
    intros r sid l W. unfold segs_leave. destruct (find_session (r_clients r) sid) as [s|] eqn:F.
    - right. destruct (dealer_remove_session _ _ sid) as [[d o1] mps]. reflexivity.
    - left. apply not_client_holds_nothing; [exact W|]. intros C. apply C. exact F.
  Qed.

  Lemma ok_leave : forall r sid k, realm_wf r -> ids_below k r ->
      seg_ok cur (r_cfg r) (r_broker r) (segs_leave r sid).
  Proof.
    intros r sid k W I. unfold segs_leave. destruct (find_session (r_clients r) sid) as [s|] eqn:F; [|exact Logic.I].
    assert (C : client r sid) by (unfold client; congruence).
    pose proof (leave_core_wf r sid k W I C) as L. cbv zeta in L. destruct L as (W4 & I4 & _).
    pose proof (ok_mps (snd (leave_core r sid) ++ testament_pubs r sid ++ [on_leave_pub s])
                       (fst (fst (leave_core r sid))) k W4 I4) as M.
    unfold leave_core in *. cbn [r_testaments r_set_clients] in *.
    match goal with |- context [dealer_remove_session ?lk ?d sid] =>
      pose proof (dealer_remove_session_alld lk d sid) as A; destruct (dealer_remove_session lk d sid) as [[d1 o1] mps] end.
    cbn [r_broker r_pubgen r_set_dealer r_set_testaments r_set_clients fst snd] in *.
    destruct (broker_remove_session (r_broker r) (r_pubgen r) sid) as [[b pg] o2] eqn:B.
    cbn [fst snd] in *. cbn [seg_ok]. split; [intros m Hm; left; now apply A|]. split; [exact Logic.I|].
    unfold bnext. cbn [bstep]. rewrite B. cbn [fst]. exact M.
  Qed.

  Lemma ok_kill : forall sids r g k, realm_wf r -> ids_below k r -> is_end g = true ->
      seg_ok cur (r_cfg r) (r_broker r) (segs_kill r sids g).
  Proof.
    induction sids as [|sid sids IH]; intros r g k W I Hg; cbn [segs_kill seg_ok]; [exact Logic.I|].
    split.
    - intros m [<-|[]]. right. split; [exact Hg|]. cbn [fst]. now apply dying_leave.
    - destruct (leave_wf r sid k W I) as (W1 & I1 & _).
      eapply ok_app; [apply decomp_leave|eapply ok_leave; eauto|eapply IH; eauto].
  Qed.

  Lemma meta_call_kills_end : forall r proc det args kw oracle sids g,
      kills_of (meta_call r proc det args kw oracle) = Some (sids, g) -> is_end g = true.
  Proof.
    intros r proc det args kw oracle sids g. unfold meta_call, kills_of, goodbye_msg.
    brk; cbn [snd]; intros H; inversion H; subst; clear H; reflexivity.
  Qed.

  Lemma yield_aborts_plain : forall lk d callee req, yield_aborts lk d callee req [] = false.
  Proof.
    intros. unfold yield_aborts. destruct (cget (d_invs d) (callee, req)) as [inv|]; [|reflexivity].
    destruct (cget (d_calls d) (inv_call inv)); reflexivity.
  Qed.

  Lemma ok_rmi : forall r o oracle k, realm_wf r -> ids_below k r -> alld o ->
      (forall rcv invid regid det args kw, o = [(rcv, RInvocation invid regid det args kw)] ->
                                            forall c, caller_opt det = Some c -> client r c) ->
      seg_ok cur (r_cfg r) (r_broker r) (segs_rmi r o oracle).
  Proof.
    intros r o oracle k W I Ao Hc. unfold segs_rmi.
    assert (So : seg_ok cur (r_cfg r) (r_broker r) [SO o]).
    { cbn [seg_ok]. split; [intros m Hm; left; now apply Ao|exact Logic.I]. }
    destruct o as [|[rcv m] l]; [exact So|]. destruct m; try exact So. destruct l; [|exact So].
    destruct (negb (rcv =? meta_id)); [exact So|].
    specialize (Hc rcv req reg details args kw eq_refl).
    destruct (nget (r_metaprocs r) reg) as [proc|].
    2:{ cbn [seg_ok]. split; [|exact Logic.I]. intros m Hm. left. eapply sync_error_alld; eauto. }
    destruct (meta_call_wf r proc details args kw oracle k W I Hc) as [W1 I1].
    pose proof (meta_call_bside r proc details args kw oracle) as Bs.
    pose proof (meta_call_kills_end r proc details args kw oracle) as Ke.
    destruct (meta_call r proc details args kw oracle) as [[r1 resp] kills]. unfold realm_of, kills_of in *. cbn [fst snd] in *.
    assert (G : forall d o1, (d, o1) = match resp with
                                        | MYield a k0 => sync_yield (lookup r1) (r_dealer r1) meta_id req [] a k0
                                        | MError e => sync_error (r_dealer r1) meta_id req [] e [] []
                                        end -> realm_wf (r_set_dealer r1 d) /\ ids_below k (r_set_dealer r1 d) /\ alld o1).
    { intros d o1 E. destruct resp.
      - pose proof (sync_yield_realm_wf r1 (lookup r1) meta_id req [] args0 kw0 k W1 I1) as Y.
        rewrite <- E in Y. destruct Y as [Y1 Y2]. split; [exact Y1|]. split; [exact Y2|].
        intros m Hm. replace o1 with (snd (sync_yield (lookup r1) (r_dealer r1) meta_id req [] args0 kw0)) in Hm by (now rewrite <- E).
        destruct (sync_yield_kinds _ _ _ _ _ _ _ _ Hm) as [D|[_ Ab]]; [exact D|].
        rewrite yield_aborts_plain in Ab. discriminate Ab. apply meta_lookup.
      - pose proof (sync_error_realm_wf r1 meta_id req [] err [] [] k W1 I1) as Y.
        rewrite <- E in Y. destruct Y as [Y1 Y2]. split; [exact Y1|]. split; [exact Y2|].
        intros m Hm. replace o1 with (snd (sync_error (r_dealer r1) meta_id req [] err [] [])) in Hm by (now rewrite <- E).
        eapply sync_error_alld; eauto. }
    destruct (match resp with MYield a k0 => _ | MError e => _ end) as [d o1].
    destruct (G d o1 eq_refl) as (W2 & I2 & A1).
    destruct Bs as (B1 & B2 & B3).
    cbn [seg_ok]. split; [intros m Hm; left; now apply A1|].
    destruct kills as [[sids g]|]; [|exact Logic.I].
    rewrite <- B1, <- B2. apply (ok_kill sids (r_set_dealer r1 d) g k W2 I2). eapply Ke; eauto.
  Qed.

  Lemma ok_end_leave : forall r r0 sid k pre,
      realm_wf r0 -> ids_below k r0 -> bside_eq r r0 ->
      (forall m, In m pre -> dmsg m = true \/ (is_end (snd m) = true /\ fst m = sid)) ->
      seg_ok cur (r_cfg r) (r_broker r) (SO pre :: segs_leave r0 sid).
  Proof.
    intros r r0 sid k pre W0 I0 (E1 & E2 & E3) Hp. cbn [seg_ok]. rewrite <- E1, <- E2. split.
    - intros m Hm. destruct (Hp m Hm) as [D|[En Ef]]; [now left|right]. split; [exact En|].
      rewrite Ef. rewrite <- (app_nil_r (segs_leave r0 sid)). now apply dying_leave.
    - eapply ok_leave; eauto.
  Qed.

  Lemma ok_handle : forall r s m oracle k,
      realm_wf r -> ids_below k r -> k < max_idN -> find_session (r_clients r) (s_id s) = Some s ->
      (forall q sub, m = CUnsubscribe q sub -> forall s0 orc, cur = OMsg (s_id s) (CUnsubscribe q s0) orc -> s0 = sub) ->
      seg_ok cur (r_cfg r) (r_broker r) (segs_handle r s m oracle).
  Proof.
    intros r s m oracle k W I Hk Hs Hu.
    assert (Hg : b_idgen (r_broker r) < max_idN) by (destruct I as (I1 & _); lia).
    destruct (attached_client r s W Hs) as [Hl Hm].
    assert (End : forall x, is_end x = true -> forall m0, In m0 [(s_id s, x)] -> dmsg m0 = true \/ (is_end (snd m0) = true /\ fst m0 = s_id s))
      by (intros x D m0 [<-|[]]; right; auto).
    destruct m; cbn [segs_handle].
    - (* PUBLISH *)
      cbn [seg_ok bop_ok]. split.
      + split; [apply lookup_ok_realm, (rw_meta_id r W)|].
        intros Ab. rewrite Ab. rewrite <- (app_nil_r (segs_leave r (s_id s))). now apply dying_leave.
      + destruct (publish_aborts (r_cfg r) s opts topic) eqn:Ab; [|exact Logic.I].
        unfold bnext. cbn [bstep]. rewrite (publish_aborts_unchanged _ _ _ _ _ _ _ _ _ _ _ Ab). cbn [fst].
        eapply ok_leave; eauto.
    - cbn [seg_ok bop_ok]. split; [exact Hg|exact Logic.I].
    - cbn [seg_ok bop_ok]. split; [|exact Logic.I]. intros s0 orc E. eapply Hu; eauto.
    - (* REGISTER *)
      pose proof (register_alld (r_cfg r) (r_dealer r) s req opts proc) as A.
      assert (Hd : d_idgen (r_dealer r) < max_idN) by (destruct I as (_ & I2 & _); lia).
      assert (Ha : attached (lookup r) (s_id s)) by (unfold attached; congruence).
      pose proof (register_wf (r_cfg r) (lookup r) (r_dealer r) s req opts proc (rw_dealer r W) Ha Hd) as Wd.
      pose proof (register_idgen (r_cfg r) (r_dealer r) s req opts proc Hd) as Id.
      pose proof (register_cr_nonempty (r_cfg r) (r_dealer r) s req opts proc (rw_cr_nonempty r W)) as Cr.
      pose proof (register_frame (r_cfg r) (r_dealer r) s req opts proc) as Fr.
      pose proof (mrs_register (dealer0 (r_cfg r)) (r_cfg r) (r_dealer r) s req opts proc (rw_metaregs r W)
                               (wf_regs _ _ (rw_dealer r W)) Hd Hm) as Mr.
      destruct (register _ _ _ _ _ _) as [[d o] mps]. cbn [fst snd] in *.
      assert (W1 : realm_wf (r_set_dealer r d)).
      { apply wf_set_dealer; auto. intros c x. rewrite Fr. apply (rw_calls_nometa r W). }
      assert (J1 : ids_below (k + 1) (r_set_dealer r d)).
      { destruct I as (I1 & I2 & I3). repeat split; cbn [r_set_dealer r_broker r_dealer]; try lia.
        intros x sx E. specialize (I3 x sx E). lia. }
      cbn [seg_ok]. split; [intros m Hm0; left; now apply A|].
      apply (ok_mps mps (r_set_dealer r d) (k + 1) W1 J1).
    - (* UNREGISTER *)
      pose proof (unregister_alld (r_dealer r) (s_id s) req reg) as A.
      pose proof (unregister_wf (lookup r) (r_dealer r) (s_id s) req reg (rw_dealer r W)) as Wd.
      pose proof (unregister_cr_nonempty (r_dealer r) (s_id s) req reg (rw_cr_nonempty r W)) as Cr.
      destruct (unregister_frame (r_dealer r) (s_id s) req reg) as [Fr Fi].
      pose proof (mrs_unregister (dealer0 (r_cfg r)) (r_dealer r) (s_id s) req reg (rw_metaregs r W) Hm) as Mr.
      destruct (unregister _ _ _ _) as [[d o] mps]. cbn [fst snd] in *.
      assert (W1 : realm_wf (r_set_dealer r d)).
      { apply wf_set_dealer; auto. intros c x. rewrite Fr. apply (rw_calls_nometa r W). }
      assert (J1 : ids_below k (r_set_dealer r d)).
      { destruct I as (I1 & I2 & I3). repeat split; cbn [r_set_dealer r_broker r_dealer]; auto. lia. }
      cbn [seg_ok]. split; [intros m Hm0; left; now apply A|].
      apply (ok_mps mps (r_set_dealer r d) k W1 J1).
    - (* CALL *)
      pose proof (call_kinds (r_cfg r) (lookup r) (r_now r) (r_dealer r) s req opts proc args kw oracle) as CK.
      destruct (call _ _ _ _ _ _ _ _ _ _ _) as [d o|o|d callee o] eqn:Ecall.
      + cbn [seg_ok]. split; [intros m Hm0; left; now apply CK|exact Logic.I].
      + subst o. destruct (call_abort_realm_wf r s req opts proc oracle k W I) as (Wa & Ia & _). cbv zeta in Wa, Ia.
        eapply ok_end_leave; [exact Wa|exact Ia|apply bside_set_dealer|]. now apply End.
      + destruct (call_invoked_wf r s req opts proc args kw oracle k d callee o W I Hk Hs Ecall) as (W2 & J2 & _ & _ & Hcl).
        destruct (update_session_frame (r_set_dealer r d) callee) as (A1 & _ & A2 & _).
        change (r_cfg r) with (r_cfg (r_set_dealer r d)). change (r_broker r) with (r_broker (r_set_dealer r d)).
        rewrite <- A1, <- A2.
        apply (ok_rmi _ o oracle (k + 1) W2 J2); [exact CK|exact Hcl].
    - (* CANCEL *)
      cbn [seg_ok]. split; [|exact Logic.I]. intros m Hm0. left. eapply cancel_alld; eauto.
    - (* YIELD *)
      pose proof (sync_yield_kinds (lookup r) (r_dealer r) (s_id s) req opts args kw) as YK.
      pose proof (sync_yield_realm_wf r (lookup r) (s_id s) req opts args kw k W I) as Y.
      destruct (sync_yield _ _ _ _ _ _ _) as [d o]. cbn [fst snd] in *. destruct Y as [Y1 Y2].
      destruct (yield_aborts _ _ _ _ _) eqn:Ya.
      + eapply ok_end_leave; eauto; [apply bside_set_dealer|].
        intros m Hm0. destruct (YK m Hm0) as [D|[-> _]]; [now left|right; auto].
      + cbn [seg_ok]. split; [|exact Logic.I]. intros m Hm0. left.
        destruct (YK m Hm0) as [D|[_ Ab]]; [exact D|]. assert (T : lookup r (s_id s) <> None) by congruence.
        apply Ab in T. discriminate T.
    - (* ERROR *)
      destruct (negb (ty =? c_INVOCATION)).
      + eapply ok_end_leave; eauto; [apply bside_refl|]. now apply End.
      + cbn [seg_ok]. split; [|exact Logic.I]. intros m Hm0. left. eapply sync_error_alld; eauto.
    - eapply ok_end_leave; eauto; [apply bside_refl|]. now apply End.
    - eapply ok_end_leave; eauto; [apply bside_refl|]. now apply End.
  Qed.
End Ok.
