(** * Histories of the whole model, C18 part 2: the attached sessions of the
    realm are exactly those the trace says ([realm_attached_is_trace]).

    [inv18] is a small invariant of [step] (no reachability hypotheses): the
    meta session keeps its id, no client has it, the meta session's
    registrations stay its own ([mregs]).  [tracks r o r']: going from [r] to
    [r'] while sending [o], the client list changes exactly as [att] reads it
    off [o] — every departure ([leave]) is accompanied by an ABORT / GOODBYE to
    the leaver (or is the ODrop operation), and no such message is sent to a
    client that stays. *)
From Nexus Require Import Router.Realm Router.AssocLemmas Router.RealmLib Router.RealmProofs
     Router.RealmMetaProofs Router.RealmLeave.
From Nexus Require Import Router.DealerLib Router.DealerProofs Router.DealerReg Router.DealerCall Router.DealerWf
     Router.DealerWfCalls.
From Nexus Require Import Router.RealmWf Router.RealmStep Router.RealmIdle.
From Nexus Require Import Router.RealmTraceLib Router.RealmTraceC18.
From Coq Require Import Lia ZifyN ZifyNat ZifyBool.

Record inv18 (r : realm) : Prop := mkInv18 {
  i_meta : s_id (r_meta r) = meta_id;
  i_nometa : ~ In meta_id (ids r);
  i_regs : mregs (r_dealer r) }.

Definition tracks (r : realm) (o : list out) (r' : realm) : Prop :=
  inv18 r' /\ r_metaprocs r' = r_metaprocs r /\ ids r' = att (ids r) (map EOut o).

Lemma tracks_quiet : forall r r' o,
    inv18 r -> s_id (r_meta r') = meta_id -> ids r' = ids r -> mregs (r_dealer r') ->
    r_metaprocs r' = r_metaprocs r -> noend o -> tracks r o r'.
Proof.
  intros r r' o [A B C] Em Ei Hm Ep Q.
  split; [constructor; [exact Em|rewrite Ei; exact B|exact Hm]|]. split; [exact Ep|].
  rewrite Ei. symmetry. apply att_noend; assumption.
Qed.

Lemma tracks_refl : forall r, inv18 r -> tracks r [] r.
Proof. intros r I. split; [exact I|]. split; reflexivity. Qed.

Lemma tracks_seq : forall r o1 r1 o2 r2, tracks r o1 r1 -> tracks r1 o2 r2 -> tracks r (o1 ++ o2) r2.
Proof.
  intros r o1 r1 o2 r2 (A1 & B1 & C1) (A2 & B2 & C2). split; [exact A2|]. split; [congruence|].
  rewrite map_app, att_app, <- C1. exact C2.
Qed.

Lemma tracks_pre : forall r r1 o r',
    ids r1 = ids r -> r_metaprocs r1 = r_metaprocs r -> tracks r1 o r' -> tracks r o r'.
Proof. intros r r1 o r' Ei Ep (A & B & C). split; [exact A|]. split; [congruence|]. rewrite <- Ei. exact C. Qed.

Lemma client_not_meta : forall r sid s, inv18 r -> find_session (r_clients r) sid = Some s -> sid <> meta_id.
Proof.
  intros r sid s I F E. subst sid. pose proof (i_nometa r I) as B.
  apply (proj2 (find_session_None (r_clients r) meta_id)) in B. congruence.
Qed.

(** ** Publications of the meta session *)
Lemma meta_publish_noend : forall r mp, s_id (r_meta r) = meta_id -> noend (snd (meta_publish r mp)).
Proof.
  intros r mp H. unfold meta_publish.
  pose proof (publish_noend (r_cfg r) (lookup r) (r_now r) (r_broker r) (r_pubgen r) (r_meta r) 0
                            (mp_opts mp) (mp_topic mp) (mp_args mp) (mp_kw mp) (or_intror H)) as P.
  destruct (publish _ _ _ _ _ _ _ _ _ _ _) as [[b pg] o]. exact P.
Qed.

Lemma meta_publish_all_noend : forall mps r, s_id (r_meta r) = meta_id -> noend (snd (meta_publish_all r mps)).
Proof.
  induction mps as [|mp mps IH]; intros r Hm; [rewrite meta_publish_all_nil; apply noend_nil|].
  rewrite meta_publish_all_cons. pose proof (meta_publish_noend r mp Hm) as Q1.
  destruct (meta_publish_frame r mp) as (_ & _ & Fm & _).
  destruct (meta_publish r mp) as [r1 o1]. cbn [fst snd] in *.
  assert (Hm1 : s_id (r_meta r1) = meta_id) by (rewrite Fm; exact Hm). specialize (IH r1 Hm1).
  destruct (meta_publish_all r1 mps) as [r2 o2]. cbn [snd] in *. now apply noend_app.
Qed.

Lemma meta_publish_tracks : forall r mp, inv18 r -> tracks r (snd (meta_publish r mp)) (fst (meta_publish r mp)).
Proof.
  intros r mp I. destruct (meta_publish_frame r mp) as (_ & Fc & Fm & _ & Fd & Fp & _).
  apply tracks_quiet; [exact I| | | |exact Fp|apply meta_publish_noend; exact (i_meta r I)].
  - rewrite Fm. exact (i_meta r I).
  - unfold ids. now rewrite Fc.
  - rewrite Fd. exact (i_regs r I).
Qed.

Lemma meta_publish_all_tracks : forall mps r, inv18 r ->
    tracks r (snd (meta_publish_all r mps)) (fst (meta_publish_all r mps)).
Proof.
  induction mps as [|mp mps IH]; intros r I; [rewrite meta_publish_all_nil; now apply tracks_refl|].
  rewrite meta_publish_all_cons. pose proof (meta_publish_tracks r mp I) as T1.
  destruct (meta_publish r mp) as [r1 o1]. cbn [fst snd] in T1. specialize (IH r1 (proj1 T1)).
  destruct (meta_publish_all r1 mps) as [r2 o2]. cbn [fst snd] in *. eapply tracks_seq; eauto.
Qed.

(** ** Departure: the session is removed, nobody else; no end marker among
    what is sent (the marker for the leaver is sent by the caller of [leave]) *)
Lemma leave_props : forall r sid, inv18 r ->
    inv18 (fst (leave r sid)) /\ r_metaprocs (fst (leave r sid)) = r_metaprocs r /\
    ids (fst (leave r sid)) = nremove sid (ids r) /\ noend (snd (leave r sid)).
Proof.
  intros r sid I. pose proof I as [A B C].
  destruct (find_session (r_clients r) sid) as [s|] eqn:F.
  2:{ rewrite (leave_absent r sid F). cbn [fst snd]. split; [exact I|]. split; [reflexivity|].
      split; [|apply noend_nil]. symmetry. apply nremove_notin. apply find_session_None. exact F. }
  pose proof (client_not_meta r sid s I F) as Hsid.
  assert (G : mregs (r_dealer (fst (leave r sid))) /\ noend (snd (leave r sid))).
  { rewrite (leave_event_order r sid s F). unfold leave_core.
    set (r2 := r_set_testaments (r_set_clients r (del_session (r_clients r) sid))
                                (ndel (r_testaments (r_set_clients r (del_session (r_clients r) sid))) sid)).
    change (r_dealer r2) with (r_dealer r).
    pose proof (mregs_drs (lookup r2) (r_dealer r) sid C Hsid) as Md.
    pose proof (dealer_remove_session_noend (lookup r2) (r_dealer r) sid) as N1.
    destruct (dealer_remove_session (lookup r2) (r_dealer r) sid) as [[d o1] mps]. cbn [fst snd] in Md, N1.
    pose proof (broker_remove_session_noend (r_broker (r_set_dealer r2 d)) (r_pubgen (r_set_dealer r2 d)) sid) as N2.
    destruct (broker_remove_session _ _ sid) as [[b pg] o2]. cbn [snd] in N2.
    match goal with |- context [meta_publish_all ?R ?M] =>
      pose proof (meta_publish_all_noend M R A) as N3;
      pose proof (meta_publish_all_frame M R) as (_ & _ & _ & _ & E5 & _); destruct (meta_publish_all R M) as [r5 o3]
    end.
    cbn [fst snd] in *. split.
    - rewrite E5. cbn [r_dealer r_set_broker r_set_dealer]. exact Md.
    - apply noend_app; [apply noend_app; assumption|exact N3]. }
  destruct G as [Gd Gn].
  pose proof (leave_frame r sid) as Fr. cbv zeta in Fr. destruct Fr as (_ & Fc & Fm & _ & Fp & _).
  assert (Ei : ids (fst (leave r sid)) = nremove sid (ids r)).
  { unfold ids. rewrite Fc, del_session_ids. unfold nremove. apply filter_ext. intros y. now rewrite N.eqb_sym. }
  split; [|split; [exact Fp|split; [exact Ei|exact Gn]]].
  constructor; [rewrite Fm; exact A| |exact Gd].
  rewrite Ei. intros Hin. apply In_nremove in Hin. tauto.
Qed.

(** an end marker for [sid], then its departure *)
Lemma ended_tracks : forall r r0 sid o0 m,
    inv18 r -> inv18 r0 -> ids r0 = ids r -> r_metaprocs r0 = r_metaprocs r -> noend o0 -> is_end m = true ->
    tracks r (o0 ++ (sid, m) :: snd (leave r0 sid)) (fst (leave r0 sid)).
Proof.
  intros r r0 sid o0 m I I0 Ei Ep Q E. destruct (leave_props r0 sid I0) as (I1 & P1 & J1 & N1).
  split; [exact I1|]. split; [congruence|]. rewrite J1, Ei. symmetry. apply att_end; auto. exact (i_nometa r I).
Qed.

Lemma kill_tracks : forall sids r g, inv18 r -> is_end g = true ->
    tracks r (snd (kill_sessions r sids g)) (fst (kill_sessions r sids g)).
Proof.
  induction sids as [|sid sids IH]; intros r g I Hg; [rewrite kill_sessions_nil; now apply tracks_refl|].
  rewrite kill_sessions_cons.
  pose proof (ended_tracks r r sid [] g I I eq_refl eq_refl noend_nil Hg) as T1. cbn [app] in T1.
  destruct (leave r sid) as [r1 o1]. cbn [fst snd] in T1.
  specialize (IH r1 g (proj1 T1) Hg). destruct (kill_sessions r1 sids g) as [r2 o2]. cbn [fst snd] in *.
  change ((sid, g) :: o1 ++ o2) with (((sid, g) :: o1) ++ o2). eapply tracks_seq; eauto.
Qed.

(** ** The meta procedures *)
Lemma put_session_ids : forall l c, map s_id (put_session l c) = map s_id l.
Proof.
  induction l as [|x l IH]; intros c; cbn; [reflexivity|].
  destruct (N.eqb_spec (s_id x) (s_id c)) as [E|E]; cbn; [now rewrite E|now rewrite IH].
Qed.

Lemma update_session_inv : forall r c, inv18 r ->
    inv18 (update_session r c) /\ ids (update_session r c) = ids r /\
    r_metaprocs (update_session r c) = r_metaprocs r.
Proof.
  intros r c [A B C]. unfold update_session. destruct (N.eqb_spec (s_id c) meta_id) as [E|E].
  - split; [constructor; [exact E|exact B|exact C]|]. split; reflexivity.
  - assert (Ei : ids (r_set_clients r (put_session (r_clients r) c)) = ids r) by apply put_session_ids.
    split; [constructor; [exact A|rewrite Ei; exact B|exact C]|]. split; [exact Ei|reflexivity].
Qed.

Lemma meta_call_props : forall r proc det args kw oracle, inv18 r ->
    let r1 := realm_of (meta_call r proc det args kw oracle) in
    inv18 r1 /\ r_metaprocs r1 = r_metaprocs r /\ ids r1 = ids r.
Proof.
  intros r proc det args kw oracle I. cbv zeta.
  destruct (meta_call_cases r proc det args kw oracle) as [E|[(sid & s & dd & F & Hm & E)|(c & p & Ec & [E|E])]];
    cbv zeta in E; rewrite E.
  - split; [exact I|split; reflexivity].
  - destruct (update_session_inv r (set_details s dd) I) as (A & B & C). auto.
  - destruct I as [A B C]. split; [constructor; assumption|split; reflexivity].
  - destruct I as [A B C]. split; [constructor; assumption|split; reflexivity].
Qed.

Lemma meta_call_kills_end : forall r proc det args kw oracle sids g,
    kills_of (meta_call r proc det args kw oracle) = Some (sids, g) -> is_end g = true.
Proof.
  intros r proc det args kw oracle sids g. unfold meta_call, kills_of, goodbye_msg.
  brk; cbn [snd]; intros H; inversion H; subst; clear H; reflexivity.
Qed.

Lemma rmi_tracks : forall r o oracle, inv18 r -> noend o ->
    tracks r (snd (run_meta_invocation r o oracle)) (fst (run_meta_invocation r o oracle)).
Proof.
  intros r o oracle I Ho. unfold run_meta_invocation.
  assert (Same : tracks r o r)
    by (apply tracks_quiet; [exact I|exact (i_meta r I)|reflexivity|exact (i_regs r I)|reflexivity|exact Ho]).
  destruct o as [|[rcv m] l]; [exact Same|]. destruct m; try exact Same. destruct l; [|exact Same].
  destruct (negb (rcv =? meta_id)); [exact Same|]. clear Same.
  destruct (nget (r_metaprocs r) reg) as [proc|].
  - pose proof (meta_call_props r proc details args kw oracle I) as P. cbv zeta in P.
    pose proof (meta_call_dealer r proc details args kw oracle) as Ed.
    pose proof (meta_call_kills_end r proc details args kw oracle) as Kg.
    destruct (meta_call r proc details args kw oracle) as [[r1 resp] kills]. unfold realm_of, kills_of in *. cbn [fst snd] in *.
    destruct P as (I1 & P1 & J1).
    assert (G : forall d o1, (d, o1) = match resp with
                                        | MYield a k0 => sync_yield (lookup r1) (r_dealer r1) meta_id req [] a k0
                                        | MError e => sync_error (r_dealer r1) meta_id req [] e [] []
                                        end -> noend o1 /\ d_regs d = d_regs (r_dealer r1)).
    { intros d o1 E. destruct resp.
      - pose proof (sync_yield_plain_noend (lookup r1) (r_dealer r1) meta_id req args0 kw0) as N.
        destruct (sync_yield_frame (lookup r1) (r_dealer r1) meta_id req [] args0 kw0) as (_ & _ & R).
        rewrite <- E in N, R. cbn [fst snd] in *. auto.
      - pose proof (sync_error_noend (r_dealer r1) meta_id req [] err [] []) as N.
        destruct (sync_error_frame (r_dealer r1) meta_id req [] err [] []) as (_ & _ & R).
        rewrite <- E in N, R. cbn [fst snd] in *. auto. }
    destruct (match resp with MYield a k0 => _ | MError e => _ end) as [d o1].
    destruct (G d o1 eq_refl) as [N1 R1].
    assert (T1 : tracks r o1 (r_set_dealer r1 d)).
    { apply tracks_quiet; [exact I|exact (i_meta r1 I1)|exact J1| |exact P1|exact N1].
      cbn [r_dealer r_set_dealer]. eapply mregs_ext; [exact R1|exact (i_regs r1 I1)]. }
    destruct kills as [[sids g]|]; [|exact T1].
    pose proof (kill_tracks sids (r_set_dealer r1 d) g (proj1 T1) (Kg sids g eq_refl)) as K.
    destruct (kill_sessions (r_set_dealer r1 d) sids g) as [r3 o2]. cbn [fst snd] in *.
    eapply tracks_seq; eauto.
  - pose proof (sync_error_noend (r_dealer r) meta_id req [] e_no_such_procedure [] []) as N.
    destruct (sync_error_frame (r_dealer r) meta_id req [] e_no_such_procedure [] []) as (_ & _ & R).
    destruct (sync_error _ _ _ _ _ _ _) as [d o1]. cbn [fst snd] in *.
    apply tracks_quiet; [exact I|exact (i_meta r I)|reflexivity| |reflexivity|exact N].
    cbn [r_dealer r_set_dealer]. eapply mregs_ext; [exact R|exact (i_regs r I)].
Qed.

(** ** One client message *)
Theorem handle_tracks : forall r s m oracle,
    inv18 r -> find_session (r_clients r) (s_id s) = Some s ->
    tracks r (snd (handle r s m oracle)) (fst (handle r s m oracle)).
Proof.
  intros r s m oracle I Hs.
  pose proof (client_not_meta r (s_id s) s I Hs) as Hm.
  assert (Q : forall r' o, s_id (r_meta r') = meta_id -> ids r' = ids r -> d_regs (r_dealer r') = d_regs (r_dealer r) ->
                           r_metaprocs r' = r_metaprocs r -> noend o -> tracks r o r').
  { intros r' o E1 E2 E3 E4 E5. apply tracks_quiet; auto. eapply mregs_ext; [exact E3|exact (i_regs r I)]. }
  assert (Lv : forall m0, is_end m0 = true ->
                 tracks r ((s_id s, m0) :: snd (leave r (s_id s))) (fst (leave r (s_id s)))).
  { intros m0 E. exact (ended_tracks r r (s_id s) [] m0 I I eq_refl eq_refl noend_nil E). }
  destruct m; cbn [handle].
  - (* PUBLISH *)
    pose proof (publish_noend (r_cfg r) (lookup r) (r_now r) (r_broker r) (r_pubgen r) s req opts topic args kw) as P.
    pose proof (publish_abort_out (r_cfg r) (lookup r) (r_now r) (r_broker r) (r_pubgen r) s req opts topic args kw) as Pa.
    destruct (publish _ _ _ _ _ _ _ _ _ _ _) as [[b pg] o]. cbn [snd] in P, Pa.
    destruct (publish_aborts (r_cfg r) s opts topic).
    + rewrite (Pa eq_refl). specialize (Lv (RAbort [("message", vstr "<text>")] e_protocol_violation) eq_refl).
      destruct (leave r (s_id s)) as [r1 o1]. exact Lv.
    + cbn [fst snd]. apply Q; try reflexivity; [exact (i_meta r I)|]. apply P. now left.
  - (* SUBSCRIBE *)
    pose proof (subscribe_noend (r_cfg r) (r_broker r) (r_pubgen r) (s_id s) req opts topic) as P.
    destruct (subscribe _ _ _ _ _ _ _) as [[b pg] o]. cbn [fst snd] in *.
    apply Q; try reflexivity; [exact (i_meta r I)|exact P].
  - (* UNSUBSCRIBE *)
    pose proof (unsubscribe_noend (r_broker r) (r_pubgen r) (s_id s) req sub) as P.
    destruct (unsubscribe _ _ _ _ _) as [[b pg] o]. cbn [fst snd] in *.
    apply Q; try reflexivity; [exact (i_meta r I)|exact P].
  - (* REGISTER *)
    pose proof (register_noend (r_cfg r) (r_dealer r) s req opts proc) as P.
    pose proof (mregs_register (r_cfg r) (r_dealer r) s req opts proc (i_regs r I) Hm) as M.
    destruct (register _ _ _ _ _ _) as [[d o] mps]. cbn [fst snd] in P, M.
    assert (T1 : tracks r o (r_set_dealer r d))
      by (apply tracks_quiet; [exact I|exact (i_meta r I)|reflexivity|exact M|reflexivity|exact P]).
    pose proof (meta_publish_all_tracks mps (r_set_dealer r d) (proj1 T1)) as T2.
    destruct (meta_publish_all _ mps) as [r1 o1]. cbn [fst snd] in *. eapply tracks_seq; eauto.
  - (* UNREGISTER *)
    pose proof (unregister_noend (r_dealer r) (s_id s) req reg) as P.
    pose proof (mregs_unregister (r_dealer r) (s_id s) req reg (i_regs r I) Hm) as M.
    destruct (unregister _ _ _ _) as [[d o] mps]. cbn [fst snd] in P, M.
    assert (T1 : tracks r o (r_set_dealer r d))
      by (apply tracks_quiet; [exact I|exact (i_meta r I)|reflexivity|exact M|reflexivity|exact P]).
    pose proof (meta_publish_all_tracks mps (r_set_dealer r d) (proj1 T1)) as T2.
    destruct (meta_publish_all _ mps) as [r1 o1]. cbn [fst snd] in *. eapply tracks_seq; eauto.
  - (* CALL *)
    pose proof (call_ends (r_cfg r) (lookup r) (r_now r) (r_dealer r) s req opts proc args kw oracle) as P.
    pose proof (mregs_call (r_cfg r) (lookup r) (r_now r) (r_dealer r) s req opts proc args kw oracle (i_regs r I)) as M.
    destruct (call _ _ _ _ _ _ _ _ _ _ _) as [d o|o|d callee o].
    + cbn [fst snd]. apply tracks_quiet; [exact I|exact (i_meta r I)|reflexivity|exact M|reflexivity|exact P].
    + rewrite P. cbv zeta.
      match goal with |- context [leave ?R (s_id s)] => set (ra := R) end.
      assert (Ia : inv18 ra) by (destruct I as [A B C]; constructor; [exact A|exact B|apply mregs_call_abort; exact C]).
      pose proof (ended_tracks r ra (s_id s) [] (RAbort [("message", vstr "<text>")] e_protocol_violation)
                               I Ia eq_refl eq_refl noend_nil eq_refl) as Tk.
      destruct (leave ra (s_id s)) as [r1 o1]. exact Tk.
    + assert (I0 : inv18 (r_set_dealer r d)) by (destruct I as [A B C]; constructor; assumption).
      destruct (update_session_inv (r_set_dealer r d) callee I0) as (I1 & J1 & P1).
      eapply (tracks_pre r (update_session (r_set_dealer r d) callee)); [exact J1|exact P1|].
      apply rmi_tracks; assumption.
  - (* CANCEL *)
    pose proof (cancel_noend (lookup r) (r_dealer r) (s_id s) req opts) as P.
    destruct (cancel_frame (lookup r) (r_dealer r) (s_id s) req opts) as (_ & _ & R).
    destruct (cancel _ _ _ _ _) as [d o]. cbn [fst snd] in *.
    apply Q; try reflexivity; [exact (i_meta r I)|exact R|exact P].
  - (* YIELD *)
    assert (Hl : lookup r (s_id s) <> None).
    { unfold lookup. destruct (s_id s =? meta_id); [discriminate|]. rewrite Hs. discriminate. }
    pose proof (sync_yield_ends (lookup r) (r_dealer r) (s_id s) req opts args kw Hl) as P.
    destruct (sync_yield_frame (lookup r) (r_dealer r) (s_id s) req opts args kw) as (_ & _ & R).
    destruct (sync_yield _ _ _ _ _ _ _) as [d o]. cbn [fst snd] in *.
    destruct (yield_aborts _ _ _ _ _).
    + destruct P as (o0 & -> & N0).
      assert (I0 : inv18 (r_set_dealer r d)).
      { destruct I as [A B C]; constructor; [exact A|exact B|]. cbn [r_dealer r_set_dealer]. eapply mregs_ext; [exact R|exact C]. }
      pose proof (ended_tracks r (r_set_dealer r d) (s_id s) o0 (RAbort [("message", vstr "<text>")] e_protocol_violation)
                               I I0 eq_refl eq_refl N0 eq_refl) as T.
      destruct (leave (r_set_dealer r d) (s_id s)) as [r1 o1]. cbn [fst snd] in *.
      rewrite <- app_assoc. exact T.
    + apply Q; try reflexivity; [exact (i_meta r I)|exact R|exact P].
  - (* ERROR *)
    destruct (negb (ty =? c_INVOCATION)).
    + specialize (Lv abort_violation eq_refl). destruct (leave r (s_id s)) as [r1 o1]. exact Lv.
    + pose proof (sync_error_noend (r_dealer r) (s_id s) req details err args kw) as P.
      destruct (sync_error_frame (r_dealer r) (s_id s) req details err args kw) as (_ & _ & R).
      destruct (sync_error _ _ _ _ _ _ _) as [d o]. cbn [fst snd] in *.
      apply Q; try reflexivity; [exact (i_meta r I)|exact R|exact P].
  - (* GOODBYE *)
    specialize (Lv (RGoodbye [] e_goodbye_and_out) eq_refl). destruct (leave r (s_id s)) as [r1 o1]. exact Lv.
  - specialize (Lv abort_violation eq_refl). destruct (leave r (s_id s)) as [r1 o1]. exact Lv.
Qed.

(** ** One step *)
Lemma nmem_ids : forall l sid, nmem sid (map s_id l) = is_some (find_session l sid).
Proof.
  induction l as [|x l IH]; intros sid; cbn; [reflexivity|].
  rewrite (N.eqb_sym sid). destruct (s_id x =? sid); [reflexivity|]. cbn. apply IH.
Qed.

Lemma join_cond : forall r sid h,
    negb (has_role h) || is_some (lookup r sid) = negb (joins (ids r) sid h).
Proof.
  intros r sid h. unfold joins, lookup, ids. rewrite nmem_ids.
  destruct (has_role h); cbn; [|reflexivity].
  destruct (sid =? meta_id); cbn; [now rewrite andb_false_r|].
  rewrite andb_true_r. now rewrite negb_involutive.
Qed.

Theorem step_tracks : forall r o, inv18 r ->
    inv18 (fst (step r o)) /\ r_metaprocs (fst (step r o)) = r_metaprocs r /\
    ids (fst (step r o)) = att (ids r) (step_events o (snd (step r o))).
Proof.
  intros r o I. unfold step_events. rewrite att_cons.
  destruct o as [sid lc h|sid m oracle|sid|ms].
  - cbn [step att_step]. unfold join. rewrite join_cond.
    destruct (joins (ids r) sid h) eqn:J; cbn [negb fst snd map].
    2:{ split; [exact I|split; reflexivity]. }
    match goal with |- context [meta_publish ?R ?M] => set (r1 := R); set (mp := M) end.
    assert (Ei : ids r1 = ids r ++ [sid]) by (unfold ids, r1; cbn [r_clients r_set_clients]; now rewrite map_app).
    assert (I1 : inv18 r1).
    { destruct I as [A B C]. constructor; [exact A| |exact C]. rewrite Ei. intros Hin.
      apply in_app_or in Hin. destruct Hin as [Hin|[Hx|[]]]; [exact (B Hin)|]. subst sid.
      unfold joins in J. rewrite N.eqb_refl, andb_false_r in J. discriminate. }
    destruct (meta_publish_tracks r1 mp I1) as (A & B & C). rewrite <- Ei. auto.
  - cbn [att_step end_of]. rewrite step_msg_eq.
    destruct (find_session (r_clients r) sid) as [s|] eqn:F; [|cbn [fst snd map]; split; [exact I|split; reflexivity]].
    assert (Hs : find_session (r_clients r) (s_id s) = Some s) by now rewrite (find_session_id _ _ _ F).
    destruct (gate r s m) as [m'|out] eqn:Eg.
    + exact (handle_tracks r s m' oracle I Hs).
    + cbn [fst snd]. apply tracks_quiet; [exact I|exact (i_meta r I)|reflexivity|exact (i_regs r I)|reflexivity|].
      eapply gate_refusal_noend; eauto.
  - cbn [step att_step end_of]. destruct (leave_props r sid I) as (I1 & P1 & J1 & N1).
    split; [exact I1|]. split; [exact P1|]. rewrite J1. symmetry. apply att_noend; [|exact N1].
    intros Hin. apply In_nremove in Hin. destruct Hin as [Hin _]. exact (i_nometa r I Hin).
  - cbn [step att_step end_of]. set (r1 := r_set_now r (r_now r + ms)).
    pose proof (fire_timers_noend (lookup r1) (r_now r1) (r_dealer r1)) as P.
    destruct (fire_timers_frame (lookup r1) (r_now r1) (r_dealer r1)) as (_ & _ & R & _).
    destruct (fire_timers _ _ _) as [d out]. cbn [fst snd] in *.
    apply tracks_quiet; [exact I|exact (i_meta r I)|reflexivity| |reflexivity|exact P].
    cbn [r_dealer r_set_dealer]. eapply mregs_ext; [exact R|exact (i_regs r I)].
Qed.

Theorem step_attached_proof : forall r o, inv18 r ->
    inv18 (fst (step r o)) /\
    map s_id (r_clients (fst (step r o))) = att (map s_id (r_clients r)) (step_events o (snd (step r o))).
Proof. intros r o I. destruct (step_tracks r o I) as (A & _ & B). exact (conj A B). Qed.

(** ** Histories *)
Lemma run_tracks : forall ops r, inv18 r ->
    inv18 (fst (run r ops)) /\ r_metaprocs (fst (run r ops)) = r_metaprocs r /\
    ids (fst (run r ops)) = att (ids r) (trace_from r ops).
Proof.
  induction ops as [|o ops IH]; intros r I.
  - rewrite run_nil. cbn [fst trace_from]. split; [exact I|split; reflexivity].
  - rewrite run_cons. cbn [fst trace_from]. destruct (step_tracks r o I) as (I1 & P1 & J1).
    destruct (IH _ I1) as (I2 & P2 & J2). split; [exact I2|]. split; [congruence|].
    rewrite att_app, <- J1. exact J2.
Qed.

(** the initial realm *)
Definition all_meta (d : dealer) : Prop := forall id rg, nget (d_regs d) id = Some rg -> meta_reg rg.

Lemma all_meta_register : forall cfg d req name,
    all_meta d -> all_meta (fst (fst (register cfg d meta_session req [("disclose_caller", VBool true)] name))).
Proof.
  intros cfg d req name H. unfold register.
  destruct (negb (valid_uri _ _ _)); [exact H|].
  destruct (str_prefix_wamp name && _); [exact H|].
  destruct (negb (c_disclose cfg) && _ && _); [exact H|].
  assert (Hnew : forall d' rg', d_regs d' = nset (d_regs d) (idgen_next (d_idgen d)) rg' -> meta_reg rg' -> all_meta d').
  { intros d' rg' E Hr id1 rg1. rewrite E, ngs. destruct (N.eqb_spec id1 (idgen_next (d_idgen d))) as [->|Hne]; [|apply H].
    intros H1. inversion H1; subst. exact Hr. }
  destruct (sget (d_map d (mkind_of (opt_string [("disclose_caller", VBool true)] "match"))) name) as [id0|].
  - destruct (nget (d_regs d) id0) as [rg|] eqn:Hr.
    + destruct (H id0 rg Hr) as (_ & _ & Hp). rewrite Hp. cbn [shared_policy String.eqb Ascii.eqb Bool.eqb orb negb]. exact H.
    + cbn [fst]. eapply Hnew; [reflexivity|]. repeat split.
  - cbn [fst]. eapply Hnew; [reflexivity|]. repeat split.
Qed.

Lemma all_meta_init_fold : forall cfg names d procs,
    all_meta d -> all_meta (fst (fold_left (init_f cfg) names (d, procs))).
Proof.
  intros cfg names; induction names as [|name names IH]; intros d procs H; cbn [fold_left]; [exact H|].
  pose proof (all_meta_register cfg d (N.of_nat (List.length procs) + 1) name H) as H1.
  rewrite <- (init_f_fst cfg d procs name) in H1.
  destruct (init_f cfg (d, procs) name) as [d1 procs']. cbn [fst] in H1. now apply IH.
Qed.

Lemma inv18_init : forall cfg, inv18 (init_realm cfg).
Proof.
  intros cfg. destruct (init_realm_parts cfg) as (_ & Ec & _ & Ed). constructor.
  - unfold init_realm. destruct (fold_left _ _ _). reflexivity.
  - unfold ids. rewrite Ec. intros [].
  - rewrite Ed. unfold dealer0. intros id rg Hr _.
    eapply (all_meta_init_fold cfg (meta_proc_names cfg) empty_dealer []); [|exact Hr]. intros i g. discriminate.
Qed.

(** the attached sessions of the realm, in join order, are those the trace says *)
Theorem realm_attached_is_trace_proof : forall cfg ops,
    map s_id (r_clients (fst (run (init_realm cfg) ops))) = att [] (trace cfg ops).
Proof.
  intros cfg ops. rewrite trace_eq. destruct (run_tracks ops (init_realm cfg) (inv18_init cfg)) as (_ & _ & J).
  destruct (init_realm_parts cfg) as (_ & Ec & _). unfold ids in J. rewrite Ec in J. exact J.
Qed.

Lemma run_inv18 : forall cfg ops, inv18 (fst (run (init_realm cfg) ops)).
Proof. intros. apply run_tracks. apply inv18_init. Qed.

Lemma run_metaprocs : forall cfg ops, r_metaprocs (fst (run (init_realm cfg) ops)) = r_metaprocs (init_realm cfg).
Proof. intros. apply run_tracks. apply inv18_init. Qed.
