(** * In-kernel replay of harness transcripts.

    The correspondence harness records, for a sample of the histories it ran,
    every command it sent to the EXTRACTED runner and every output line the
    runner printed.  [coq/cases/RouterCases.v] (written on every run) holds
    those transcripts as Gallina terms; [run_case] evaluates the same
    operations with [rstep] inside the kernel ([vm_compute]) and compares.
    This bounds the trust put in extraction and in the OCaml driver on that
    sample.  Definitions only. *)
From Nexus Require Export Router.Wire Router.RouterTop.

Definition ikind_eqb (a b : ikind) : bool :=
  match a, b with
  | KInt, KInt | KInt64, KInt64 | KUint64, KUint64 | KID, KID | KFloat, KFloat => true
  | _, _ => false
  end.
Definition skind_eqb (a b : skind) : bool :=
  match a, b with SStr, SStr | SURI, SURI | SBytes, SBytes => true | _, _ => false end.

Fixpoint value_eqb (a b : value) {struct a} : bool :=
  match a, b with
  | VNull, VNull => true
  | VBool x, VBool y => Bool.eqb x y
  | VInt k x, VInt l y => ikind_eqb k l && Z.eqb x y
  | VStr k x, VStr l y => skind_eqb k l && String.eqb x y
  | VList x, VList y =>
      (fix go (x y : list value) : bool :=
         match x, y with
         | [], [] => true
         | p :: x', q :: y' => value_eqb p q && go x' y'
         | _, _ => false
         end) x y
  | VDict x, VDict y =>
      (fix go (x y : list (string * value)) : bool :=
         match x, y with
         | [], [] => true
         | (k, p) :: x', (l, q) :: y' => String.eqb k l && value_eqb p q && go x' y'
         | _, _ => false
         end) x y
  | _, _ => false
  end.

Fixpoint outs_eqb (a b : list (N * value)) : bool :=
  match a, b with
  | [], [] => true
  | (s, v) :: a', (t, w) :: b' => N.eqb s t && value_eqb v w && outs_eqb a' b'
  | _, _ => false
  end.

Definition render (outs : list rout) : list (N * value) :=
  map (fun '((_, (sid, m)) : rout) => (sid, msg_value m)) outs.

(** a transcript: the operations with the outputs the extracted runner printed *)
Definition transcript := list (rop * list (N * value)).

Fixpoint run_case_from (rt : router) (c : transcript) : bool :=
  match c with
  | [] => true
  | (o, expected) :: rest =>
      let '(rt', outs) := rstep rt o in
      outs_eqb (render outs) expected && run_case_from rt' rest
  end.

Definition run_case (c : transcript) : bool := run_case_from (mkRouter []) c.

(** string from its bytes (for payloads that are not printable ASCII) *)
Definition sb (l : list N) : string :=
  fold_right (fun n s => String (ascii_of_N n) s) EmptyString l.
