(** * Histories of the whole model, C13 part 6: corollaries for realms without
    authorizer, concrete histories, and the two refutations.

    - [TmoEx]: a CALL with timeout 100 at clock 5; ticks to 104 (nothing), to
      105 (INTERRUPT to the callee, ERROR wamp.error.timeout to the caller);
      the callee's late YIELD goes nowhere.
    - [TmoPlainEx]: the same towards a callee without call_canceling: the
      ERROR alone.
    - [RelayEx]: the callee answers a call WITHOUT timeout with
      ERROR(INVOCATION) "wamp.error.timeout": the caller receives, in a
      history without any tick, exactly the message the router sends on a
      timeout.  "A timeout ERROR is sent only by a due tick" is false as
      literally stated.
    - [CancelEx]: the three triggers of an INTERRUPT, and a repeated kill-mode
      CANCEL that sends nothing.
    - [StrayEx]: a session that never was sent an INVOCATION gets an INTERRUPT
      (it sent a progressive YIELD): "an INTERRUPT is sent only for a pending
      invocation" is false as literally stated.
    - [AuthzEx]: [gate_transparent] holds along a history with an authorizer. *)
From Nexus Require Import Router.Realm Router.RealmProofs Router.RealmWf Router.RealmStep.
From Nexus Require Import Router.DealerLib Router.DealerProofs Router.DealerReply Router.DealerTimers Router.DealerTrace.
From Nexus Require Import Router.RealmTraceLib Router.RealmTrace Router.RealmTraceC05 Router.RealmTraceInv
     Router.RealmTraceC03 Router.RealmTraceEx.
From Nexus Require Import Router.RealmTraceC13 Router.RealmTraceC13Step Router.RealmTraceC13Nd Router.RealmTraceC13Inv
     Router.RealmTraceC13Thm Router.RealmTraceC13Fire Router.RealmTraceC13Once.
From Coq Require Import Lia.

(** ** Corollaries: no authorizer *)
Theorem timeout_only_when_due_noauthz_proof : forall cfg ops x q det args kw pre post,
    c_authz cfg = None ->
    Forall op_ok ops -> k0 cfg + N.of_nat (List.length ops) <= max_idN ->
    trace cfg ops = pre ++ EOut (x, RError c_CALL q det e_timeout args kw) :: post ->
    relayed pre det args kw \/ timed_out pre x q det args kw.
Proof.
  intros cfg ops x q det args kw pre post Ha Ho Hk.
  exact (timeout_only_when_due_proof cfg ops x q det args kw pre post Ho Hk (gate_transparent_no_authz cfg ops Ha)).
Qed.

Theorem interrupt_only_for_pending_noauthz_proof : forall cfg ops y i iopts pre post,
    c_authz cfg = None ->
    Forall op_ok ops -> k0 cfg + N.of_nat (List.length ops) <= max_idN ->
    trace cfg ops = pre ++ EOut (y, RInterrupt i iopts) :: post ->
    stray_yield pre y i iopts \/ interrupted_pending cfg ops pre y i iopts.
Proof.
  intros cfg ops y i iopts pre post Ha Ho Hk.
  exact (interrupt_only_for_pending_proof cfg ops y i iopts pre post Ho Hk (gate_transparent_no_authz cfg ops Ha)).
Qed.

Theorem timeout_fires_noauthz_proof : forall cfg ops1 ms ops2 pre0 x q opts proc a kw orc y i rid det rest,
    c_authz cfg = None ->
    Forall op_ok (ops1 ++ OTick ms :: ops2) ->
    k0 cfg + N.of_nat (List.length (ops1 ++ OTick ms :: ops2)) <= max_idN ->
    let r1 := fst (run (init_realm cfg) ops1) in
    trace cfg ops1 = pre0 ++ EIn (OMsg x (CCall q opts proc a kw) orc) :: EOut (y, RInvocation i rid det a kw) :: rest ->
    mon_run (x, q) false pre0 = Some false ->
    (0 < opt_int64 opts "timeout")%Z -> dget det "timeout" = None ->
    (forall e, In e rest -> ~ is_call_ev (x, q) e) ->
    (forall e, In e rest -> ~ kill_cancel_ev x q e) ->
    rrec r1 (x, q) ->
    clock pre0 + Z.to_N (opt_int64 opts "timeout") <= clock (trace cfg ops1) + ms ->
    let out := snd (step r1 (OTick ms)) in
    clock (trace cfg ops1) < clock pre0 + Z.to_N (opt_int64 opts "timeout") /\
    (exists o1 o2, out = o1 ++ timeout_msg (x, q) :: o2 /\
                   ~ In (timeout_msg (x, q)) o1 /\ ~ In (timeout_msg (x, q)) o2) /\
    (In (y, RInterrupt i [("reason", vuri e_timeout); ("mode", vstr "killnowait")]) out <->
     exists ys, find_session (r_clients r1) y = Some ys /\ sess_feature ys "callee" f_call_canceling = true) /\
    ~ rrec (fst (step r1 (OTick ms))) (x, q).
Proof.
  intros cfg ops1 ms ops2 pre0 x q opts proc a kw orc y i rid det rest Ha Ho Hk.
  exact (timeout_fires_proof cfg ops1 ms ops2 pre0 x q opts proc a kw orc y i rid det rest Ho Hk
                             (gate_transparent_no_authz cfg _ Ha)).
Qed.

Theorem interrupt_at_most_once_noauthz_proof : forall cfg ops y i pre e1 mid e2 post,
    c_authz cfg = None ->
    Forall op_ok ops -> k0 cfg + N.of_nat (List.length ops) <= max_idN ->
    trace cfg ops = pre ++ e1 :: mid ++ e2 :: post ->
    rintr_ev y i e1 -> rintr_ev y i e2 ->
    exists m1 x q opts proc a kw orc rid det m2,
      mid = m1 ++ EIn (OMsg x (CCall q opts proc a kw) orc) :: EOut (y, RInvocation i rid det a kw) :: m2.
Proof.
  intros cfg ops y i pre e1 mid e2 post Ha Ho Hk.
  exact (interrupt_at_most_once_proof cfg ops y i pre e1 mid e2 post Ho Hk (gate_transparent_no_authz cfg ops Ha)).
Qed.

Theorem timeout_kept_arms_timer_noauthz_proof : forall cfg ops1 x q opts proc a kw orc ops2 y i rid det,
    c_authz cfg = None ->
    Forall op_ok (ops1 ++ OMsg x (CCall q opts proc a kw) orc :: ops2) ->
    k0 cfg + N.of_nat (List.length (ops1 ++ OMsg x (CCall q opts proc a kw) orc :: ops2)) <= max_idN ->
    let r1 := fst (run (init_realm cfg) ops1) in
    snd (step r1 (OMsg x (CCall q opts proc a kw) orc)) = [(y, RInvocation i rid det a kw)] ->
    ~ rrec r1 (x, q) ->
    (0 < opt_int64 opts "timeout")%Z -> dget det "timeout" = None ->
    exists t, nget (d_timers (r_dealer r1)) t = None /\
              nget (d_timers (r_dealer (fst (step r1 (OMsg x (CCall q opts proc a kw) orc))))) t =
              Some (clock (trace cfg ops1) + Z.to_N (opt_int64 opts "timeout"), (x, q)).
Proof.
  intros cfg ops1 x q opts proc a kw orc ops2 y i rid det Ha Ho Hk.
  exact (timeout_kept_arms_timer_proof cfg ops1 x q opts proc a kw orc ops2 y i rid det Ho Hk
                                       (gate_transparent_no_authz cfg _ Ha)).
Qed.

(** the clock of the model is the sum of the ticks of the history *)
Theorem clock_is_ticks_proof : forall cfg ops,
    c_authz cfg = None -> Forall op_ok ops -> k0 cfg + N.of_nat (List.length ops) <= max_idN ->
    r_now (fst (run (init_realm cfg) ops)) = clock (trace cfg ops).
Proof.
  intros cfg ops Ha Ho Hk. apply (bi_now _ _ (bi_history cfg ops Ho Hk (gate_transparent_no_authz cfg ops Ha))).
Qed.

(** ** The predicates of the theorems, spelled out *)
Lemma relayed_meaning_proof : forall pre det a kw,
    relayed pre det a kw <->
    exists y i orc pre1 outs,
      pre = pre1 ++ EIn (OMsg y (CError c_INVOCATION i det e_timeout a kw) orc) :: map EOut outs.
Proof.
  intros. split.
  - intros (y & i & orc & pre1 & outs & E). eauto 10.
  - intros (y & i & orc & pre1 & outs & E). exists y, i, orc, pre1, outs. exact E.
Qed.

Lemma timed_out_meaning_proof : forall pre x q det a kw,
    timed_out pre x q det a kw <->
    det = [] /\ a = [vstr "call timeout"] /\ kw = [] /\
    exists pre1 ms outs, pre = pre1 ++ EIn (OTick ms) :: map EOut outs /\
    exists pre0 opts proc ca ckw orc y i rid idet rest dl,
      pre1 = pre0 ++ EIn (OMsg x (CCall q opts proc ca ckw) orc) :: EOut (y, RInvocation i rid idet ca ckw) :: rest /\
      (forall e, In e (rest ++ EIn (OTick ms) :: map EOut outs) -> ~ is_reply_ev (x, q) true e) /\
      (forall e, In e rest -> ~ kill_cancel_ev x q e) /\
      (forall e, In e rest -> ~ final_answer_ev y i e) /\
      ((0 < opt_int64 opts "timeout")%Z /\
       exists mid0 opts' proc' a' kw' orc' restA,
         EIn (OMsg x (CCall q opts proc ca ckw) orc) :: EOut (y, RInvocation i rid idet ca ckw) :: rest =
           mid0 ++ EIn (OMsg x (CCall q opts' proc' a' kw') orc') :: restA /\
         dl = clock (pre0 ++ mid0) + Z.to_N (opt_int64 opts "timeout") /\
         (mid0 = [] -> dget idet "timeout" = None)) /\
      clock pre1 < dl <= clock pre1 + ms.
Proof. intros. reflexivity. Qed.

Lemma stray_yield_meaning_proof : forall pre y i iopts,
    stray_yield pre y i iopts <->
    iopts = [("mode", vstr "killnowait")] /\
    exists yopts a kw orc,
      (exists pre1 outs, pre = pre1 ++ EIn (OMsg y (CYield i yopts a kw) orc) :: map EOut outs) /\
      opt_bool yopts "progress" = true.
Proof. intros. reflexivity. Qed.

Lemma interrupted_pending_meaning_proof : forall cfg ops pre y i iopts,
    interrupted_pending cfg ops pre y i iopts <->
    exists reason mode, iopts = [("reason", vuri reason); ("mode", vstr mode)] /\
    exists ops1 o ops2 outs outs2, ops = ops1 ++ o :: ops2 /\ pre = trace cfg ops1 ++ EIn o :: map EOut outs /\
    snd (step (fst (run (init_realm cfg) ops1)) o) = outs ++ (y, RInterrupt i iopts) :: outs2 /\
    (exists ys, find_session (r_clients (fst (run (init_realm cfg) ops1))) y = Some ys /\
                sess_feature ys "callee" f_call_canceling = true) /\
    exists pre0 x q opts proc a kw orc rid det rest,
      trace cfg ops1 = pre0 ++ EIn (OMsg x (CCall q opts proc a kw) orc) :: EOut (y, RInvocation i rid det a kw) :: rest /\
      (forall e, In e rest -> ~ final_answer_ev y i e) /\
      (forall e, In e rest -> ~ is_reply_ev (x, q) true e) /\
      (forall e, In e rest -> ~ kill_cancel_ev x q e) /\
      (forall e, In e rest -> ~ rintr_ev y i e) /\
      ((reason = e_canceled /\ (mode = "kill" \/ mode = "killnowait") /\
        exists copts orc', o = OMsg x (CCancel q copts) orc' /\ cancel_mode copts = mode) \/
       (reason = e_timeout /\ mode = "killnowait" /\
        exists ms dl, o = OTick ms /\
          armed x q (opt_int64 opts "timeout") det pre0
                (EIn (OMsg x (CCall q opts proc a kw) orc) :: EOut (y, RInvocation i rid det a kw) :: rest) dl /\
          clock (trace cfg ops1) < dl <= clock (trace cfg ops1) + ms)).
Proof. intros. reflexivity. Qed.

(** ** Concrete histories *)
Definition cfg13 : config := mkConfig false false false true true false [] None.
Definition hello_plain : dict :=
  [("roles", VDict [("caller", VDict []); ("callee", VDict [])])].
Definition tmo_opts : dict := [("timeout", VInt KInt 100)].
Definition tmo_err (x q : N) : out := (x, RError c_CALL q [] e_timeout [vstr "call timeout"] []).
Definition tmo_intr (y i : N) : out := (y, RInterrupt i [("reason", vuri e_timeout); ("mode", vstr "killnowait")]).

Module TmoEx.
  Definition call7 := OMsg 10 (CCall 7 tmo_opts "p" [] []) 0.
  Definition ops1 : list op :=
    [OJoin 10 false hello_all; OJoin 11 false hello_all; OMsg 11 (CRegister 1 [] "p") 0;
     OTick 5; call7; OTick 99].
  Definition ops2 : list op := [OMsg 11 (CYield 1 [] [vnat 3] []) 0].
  Definition ops : list op := ops1 ++ OTick 1 :: ops2.
  Definition inv1 : out := (11, RInvocation 1 24 [("progress", VBool false); ("procedure", vuri "p")] [] []).
  Definition pre0 : list event :=
    [EIn (OJoin 10 false hello_all); EIn (OJoin 11 false hello_all);
     EIn (OMsg 11 (CRegister 1 [] "p") 0); EOut (11, RRegistered 1 24); EIn (OTick 5)].
  Definition rest : list event := [EIn (OTick 99)].

  Lemma hyps : Forall op_ok ops /\ k0 cfg13 + N.of_nat (List.length ops) <= max_idN /\
               along gate_transparent (init_realm cfg13) ops.
  Proof.
    split; [unfold ops, ops1, ops2; cbn [app]; ops_ok|]. split; [apply N.leb_le; reflexivity|].
    apply gate_transparent_no_authz. reflexivity.
  Qed.

  (** what the router sends, step by step: nothing at clock 104, both messages at 105, nothing for the late YIELD *)
  Lemma outs : snd (run (init_realm cfg13) ops) =
    [[]; []; [(11, RRegistered 1 24)]; []; [inv1]; []; [tmo_intr 11 1; tmo_err 10 7]; []].
  Proof. vm_compute. reflexivity. Qed.

  (** the hypotheses of [timeout_fires] *)
  Lemma fires_hyps :
      trace cfg13 ops1 = pre0 ++ EIn call7 :: EOut inv1 :: rest /\
      mon_run (10, 7) false pre0 = Some false /\
      (0 < opt_int64 tmo_opts "timeout")%Z /\ dget [("progress", VBool false); ("procedure", vuri "p")] "timeout" = None /\
      (forall e, In e rest -> ~ is_call_ev (10, 7) e) /\
      (forall e, In e rest -> ~ kill_cancel_ev 10 7 e) /\
      rrec (fst (run (init_realm cfg13) ops1)) (10, 7) /\
      clock pre0 + Z.to_N (opt_int64 tmo_opts "timeout") <= clock (trace cfg13 ops1) + 1 /\
      clock pre0 = 5 /\ clock (trace cfg13 ops1) = 104.
  Proof.
    split; [vm_compute; reflexivity|]. split; [vm_compute; reflexivity|]. split; [vm_compute; reflexivity|].
    split; [reflexivity|]. split.
    { intros e [<-|[]] (q & o & p & a & k & orc & E & _). discriminate E. }
    split.
    { intros e [<-|[]] (c & orc & E & _). discriminate E. }
    split; [unfold rrec, drec; vm_compute; discriminate|]. split; [vm_compute; discriminate|].
    split; vm_compute; reflexivity.
  Qed.

  (** ... and its conclusion, evaluated *)
  Lemma fires_out : snd (step (fst (run (init_realm cfg13) ops1)) (OTick 1)) = [tmo_intr 11 1; tmo_err 10 7] /\
                    snd (step (fst (run (init_realm cfg13) ops1)) (OTick 0)) = [].
  Proof. vm_compute. split; reflexivity. Qed.

  (** the timeout ERROR in the trace: in the output of the tick to 105 *)
  Definition pre : list event :=
    pre0 ++ [EIn call7; EOut inv1; EIn (OTick 99); EIn (OTick 1); EOut (tmo_intr 11 1)].
  Lemma in_trace : exists post, trace cfg13 ops = pre ++ EOut (tmo_err 10 7) :: post.
  Proof. eexists. vm_compute. reflexivity. Qed.
End TmoEx.

Module TmoPlainEx.
  Definition ops1 : list op :=
    [OJoin 10 false hello_plain; OJoin 11 false hello_plain; OMsg 11 (CRegister 1 [] "p") 0;
     OMsg 10 (CCall 7 tmo_opts "p" [] []) 0].
  Lemma outs : snd (step (fst (run (init_realm cfg13) ops1)) (OTick 100)) = [tmo_err 10 7] /\
               snd (step (fst (run (init_realm cfg13) ops1)) (OTick 99)) = [].
  Proof. vm_compute. split; reflexivity. Qed.
End TmoPlainEx.

Module RelayEx.
  Definition ops : list op :=
    [OJoin 10 false hello_all; OJoin 11 false hello_all; OMsg 11 (CRegister 1 [] "p") 0;
     OMsg 10 (CCall 7 [] "p" [] []) 0;
     OMsg 11 (CError c_INVOCATION 1 [] e_timeout [vstr "call timeout"] []) 0].
  Definition pre : list event :=
    [EIn (OJoin 10 false hello_all); EIn (OJoin 11 false hello_all);
     EIn (OMsg 11 (CRegister 1 [] "p") 0); EOut (11, RRegistered 1 24);
     EIn (OMsg 10 (CCall 7 [] "p" [] []) 0);
     EOut (11, RInvocation 1 24 [("progress", VBool false); ("procedure", vuri "p")] [] []);
     EIn (OMsg 11 (CError c_INVOCATION 1 [] e_timeout [vstr "call timeout"] []) 0)].

  Lemma hyps : Forall op_ok ops /\ k0 cfg13 + N.of_nat (List.length ops) <= max_idN /\ c_authz cfg13 = None.
  Proof. split; [unfold ops; ops_ok|]. split; [apply N.leb_le; reflexivity|reflexivity]. Qed.

  Lemma in_trace : trace cfg13 ops = pre ++ EOut (timeout_msg (10, 7)) :: [].
  Proof. vm_compute. reflexivity. Qed.

  Lemma no_tick : forall e, In e pre -> forall ms, e <> EIn (OTick ms).
  Proof. intros e H ms. unfold pre in H. repeat (destruct H as [<-|H]; [discriminate|]). destruct H. Qed.

  (** the refutation: the very message of a router timeout, in a history without any tick *)
  Theorem timeout_only_when_due_refuted_proof :
      exists cfg ops x q pre post,
        Forall op_ok ops /\ k0 cfg + N.of_nat (List.length ops) <= max_idN /\ c_authz cfg = None /\
        trace cfg ops = pre ++ EOut (x, RError c_CALL q [] e_timeout [vstr "call timeout"] []) :: post /\
        forall e, In e pre -> forall ms, e <> EIn (OTick ms).
  Proof.
    exists cfg13, ops, 10, 7, pre, []. destruct hyps as (A & B & C).
    split; [exact A|]. split; [exact B|]. split; [exact C|]. split; [exact in_trace|exact no_tick].
  Qed.

  (** it is the [relayed] case of the theorem *)
  Lemma is_relayed : relayed pre [] [vstr "call timeout"] [].
  Proof.
    exists 11, 1, 0.
    exists [EIn (OJoin 10 false hello_all); EIn (OJoin 11 false hello_all);
            EIn (OMsg 11 (CRegister 1 [] "p") 0); EOut (11, RRegistered 1 24);
            EIn (OMsg 10 (CCall 7 [] "p" [] []) 0);
            EOut (11, RInvocation 1 24 [("progress", VBool false); ("procedure", vuri "p")] [] [])], [].
    reflexivity.
  Qed.
End RelayEx.

Definition kill_opts13 : dict := [("mode", vstr "kill")].
Definition is_intr_ev (e : event) : bool := match e with EOut m => is_intr m | EIn _ => false end.

Module CancelEx.
  Definition ops : list op :=
    [OJoin 10 false hello_all; OJoin 11 false hello_all; OMsg 11 (CRegister 1 [] "p") 0;
     OMsg 10 (CCall 7 [] "p" [] []) 0;
     OMsg 10 (CCancel 7 kill_opts13) 0;          (* INTERRUPT mode kill; the call stays *)
     OMsg 10 (CCancel 7 kill_opts13) 0;          (* repeated: nothing *)
     OMsg 11 (CYield 1 [] [vnat 3] []) 0;        (* the callee's answer is the final reply *)
     OMsg 10 (CCall 8 tmo_opts "p" [] []) 0;
     OMsg 10 (CCancel 8 []) 0;                   (* killnowait: INTERRUPT + ERROR canceled *)
     OTick 1000;                                 (* the timer was stopped: nothing *)
     OMsg 11 (CYield 2 [("progress", VBool true)] [] []) 0].   (* stray progressive YIELD: INTERRUPT *)

  Lemma hyps : Forall op_ok ops /\ k0 cfg13 + N.of_nat (List.length ops) <= max_idN /\
               along gate_transparent (init_realm cfg13) ops.
  Proof.
    split; [unfold ops; ops_ok|]. split; [apply N.leb_le; reflexivity|].
    apply gate_transparent_no_authz. reflexivity.
  Qed.

  Lemma outs : skipn 4 (snd (run (init_realm cfg13) ops)) =
    [[(11, RInterrupt 1 [("reason", vuri e_canceled); ("mode", vstr "kill")])];
     [];
     [(10, RResult 7 [] [vnat 3] [])];
     [(11, RInvocation 2 24 [("progress", VBool false); ("procedure", vuri "p")] [] [])];
     [(11, RInterrupt 2 [("reason", vuri e_canceled); ("mode", vstr "killnowait")]);
      (10, RError c_CALL 8 [] e_canceled [] [])];
     [];
     [(11, RInterrupt 2 [("mode", vstr "killnowait")])]].
  Proof. vm_compute. reflexivity. Qed.

  Lemma interrupts : filter is_intr_ev (trace cfg13 ops) =
    map EOut [(11, RInterrupt 1 [("reason", vuri e_canceled); ("mode", vstr "kill")]);
              (11, RInterrupt 2 [("reason", vuri e_canceled); ("mode", vstr "killnowait")]);
              (11, RInterrupt 2 [("mode", vstr "killnowait")])].
  Proof. vm_compute. reflexivity. Qed.
End CancelEx.

Module StrayEx.
  Definition ops : list op :=
    [OJoin 11 false hello_all; OMsg 11 (CYield 99 [("progress", VBool true)] [] []) 0].
  Definition pre : list event :=
    [EIn (OJoin 11 false hello_all); EIn (OMsg 11 (CYield 99 [("progress", VBool true)] [] []) 0)].

  Lemma hyps : Forall op_ok ops /\ k0 cfg13 + N.of_nat (List.length ops) <= max_idN /\ c_authz cfg13 = None.
  Proof. split; [unfold ops; ops_ok|]. split; [apply N.leb_le; reflexivity|reflexivity]. Qed.

  Lemma in_trace : trace cfg13 ops = pre ++ EOut (11, RInterrupt 99 [("mode", vstr "killnowait")]) :: [].
  Proof. vm_compute. reflexivity. Qed.

  (** an INTERRUPT 99 to a session that was never sent any INVOCATION *)
  Theorem interrupt_only_for_pending_refuted_proof :
      exists cfg ops y i iopts pre post,
        Forall op_ok ops /\ k0 cfg + N.of_nat (List.length ops) <= max_idN /\ c_authz cfg = None /\
        trace cfg ops = pre ++ EOut (y, RInterrupt i iopts) :: post /\
        forall e b, In e pre -> ~ inv_ev y b e.
  Proof.
    exists cfg13, ops, 11, 99, [("mode", vstr "killnowait")], pre, []. destruct hyps as (A & B & C).
    split; [exact A|]. split; [exact B|]. split; [exact C|]. split; [exact in_trace|].
    intros e b H (rid & det & a & kw & E). unfold pre in H.
    repeat (destruct H as [<-|H]; [discriminate E|]). destruct H.
  Qed.

  Lemma is_stray : stray_yield pre 11 99 [("mode", vstr "killnowait")].
  Proof.
    split; [reflexivity|]. exists [("progress", VBool true)], [], [], 0. split; [|reflexivity].
    exists [EIn (OJoin 11 false hello_all)], []. reflexivity.
  Qed.
End StrayEx.

Module AuthzEx.
  Definition allow_all : N -> bool -> dict -> cmsg -> adecision := fun _ _ _ m => AAllow m.
  Definition cfgA : config := mkConfig false false false true true false [] (Some allow_all).
  Lemma hyps : Forall op_ok TmoEx.ops /\ k0 cfgA + N.of_nat (List.length TmoEx.ops) <= max_idN /\
               along gate_transparent (init_realm cfgA) TmoEx.ops.
  Proof.
    split; [unfold TmoEx.ops, TmoEx.ops1, TmoEx.ops2; cbn [app]; ops_ok|]. split; [apply N.leb_le; reflexivity|].
    apply gate_transparent_static. intros f E sid lc det m. inversion E; subst. reflexivity.
  Qed.
  Lemma outs : snd (run (init_realm cfgA) TmoEx.ops) = snd (run (init_realm cfg13) TmoEx.ops).
  Proof. vm_compute. reflexivity. Qed.
End AuthzEx.

(** two INTERRUPTs with a reason for (11, 1): session 11 left and joined again in between *)
Module OnceEx.
  Definition ops : list op :=
    [OJoin 10 false hello_all; OJoin 11 false hello_all; OMsg 11 (CRegister 1 [] "p") 0;
     OMsg 10 (CCall 7 [] "p" [] []) 0; OMsg 10 (CCancel 7 []) 0;
     ODrop 11; OJoin 11 false hello_all; OMsg 11 (CRegister 1 [] "p") 0;
     OMsg 10 (CCall 8 [] "p" [] []) 0; OMsg 10 (CCancel 8 kill_opts13) 0].
  Definition e1 : event := EOut (11, RInterrupt 1 [("reason", vuri e_canceled); ("mode", vstr "killnowait")]).
  Definition e2 : event := EOut (11, RInterrupt 1 [("reason", vuri e_canceled); ("mode", vstr "kill")]).
  Definition pre : list event :=
    [EIn (OJoin 10 false hello_all); EIn (OJoin 11 false hello_all);
     EIn (OMsg 11 (CRegister 1 [] "p") 0); EOut (11, RRegistered 1 24);
     EIn (OMsg 10 (CCall 7 [] "p" [] []) 0);
     EOut (11, RInvocation 1 24 [("progress", VBool false); ("procedure", vuri "p")] [] []);
     EIn (OMsg 10 (CCancel 7 []) 0)].
  Definition mid : list event :=
    [EOut (10, RError c_CALL 7 [] e_canceled [] []);
     EIn (ODrop 11); EIn (OJoin 11 false hello_all);
     EIn (OMsg 11 (CRegister 1 [] "p") 0); EOut (11, RRegistered 1 25);
     EIn (OMsg 10 (CCall 8 [] "p" [] []) 0);
     EOut (11, RInvocation 1 25 [("progress", VBool false); ("procedure", vuri "p")] [] []);
     EIn (OMsg 10 (CCancel 8 kill_opts13) 0)].

  Lemma hyps : Forall op_ok ops /\ k0 cfg13 + N.of_nat (List.length ops) <= max_idN /\
               along gate_transparent (init_realm cfg13) ops /\
               trace cfg13 ops = pre ++ e1 :: mid ++ e2 :: [] /\ rintr_ev 11 1 e1 /\ rintr_ev 11 1 e2.
  Proof.
    split; [unfold ops; ops_ok|]. split; [apply N.leb_le; reflexivity|].
    split; [apply gate_transparent_no_authz; reflexivity|]. split; [vm_compute; reflexivity|].
    split; do 2 eexists; reflexivity.
  Qed.
End OnceEx.
