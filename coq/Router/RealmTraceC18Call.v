(** * Histories of the whole model, C18 part 3: a CALL of a meta procedure,
    from [step] through [call], the INVOCATION consumed by the meta session,
    [meta_call] and the meta session's YIELD / ERROR, to the one reply the
    caller receives ([meta_proc_step]); and the variant of the reply-monitor
    theorem that exposes the monitor's final state ([reply_state_from]):
    when the monitor of a call id is shut after a history, no call with that
    id is recorded in the dealer. *)
From Nexus Require Import Router.Realm Router.AssocLemmas Router.RealmLib Router.RealmProofs
     Router.RealmMetaProofs Router.RealmLeave.
From Nexus Require Import Router.DealerLib Router.DealerProofs Router.DealerReg Router.DealerCall Router.DealerWf
     Router.DealerWfCalls Router.DealerReply Router.DealerOwned Router.DealerTrace.
From Nexus Require Import Router.RealmWf Router.RealmStep Router.RealmIdle.
From Nexus Require Import Router.RealmTraceLib Router.RealmTrace Router.RealmTraceC18 Router.RealmTraceC18Att.
From Coq Require Import Lia ZifyN ZifyNat ZifyBool.

(** the reply a caller gets for request [q] when the meta procedure answers [resp] *)
Definition reply (q : N) (resp : mresp) : rmsg :=
  match resp with MYield a k => RResult q [] a k | MError e => RError c_CALL q [] e [] [] end.

Lemma sync_yield_meta_result : forall lk d callee req a k inv caller,
    cget (d_invs d) (callee, req) = Some inv -> cget (d_calls d) (inv_call inv) = Some caller ->
    snd (sync_yield lk d callee req [] a k) = [(caller, RResult (snd (inv_call inv)) [] a k)].
Proof.
  intros lk d callee req a k inv caller Hi Hc. unfold sync_yield. cbv zeta. rewrite Hi.
  change (opt_bool [] "progress") with false. cbv iota.
  cbn [d_calls d_set_invs]. rewrite ct_calls, Hc. change (ppt_active []) with false. cbv iota. reflexivity.
Qed.

Lemma sync_error_meta_result : forall d callee req det e a k inv caller,
    cget (d_invs d) (callee, req) = Some inv -> cget (d_calls d) (inv_call inv) = Some caller ->
    snd (sync_error d callee req det e a k) = [(caller, RError c_CALL (snd (inv_call inv)) det e a k)].
Proof.
  intros d callee req det e a k inv caller Hi Hc. unfold sync_error. rewrite Hi.
  cbn [d_calls d_set_bycall d_set_invs]. rewrite ct_calls, Hc. reflexivity.
Qed.

(** ** The plumbing *)
Theorem meta_proc_step : forall r x s q opts proc args kw orc rg mproc,
    inv18 r -> find_session (r_clients r) x = Some s ->
    gate r s (CCall q opts proc args kw) = inl (CCall q opts proc args kw) ->
    match_procedure (r_dealer r) proc orc = Some rg -> meta_reg rg ->
    nget (r_metaprocs r) (reg_id rg) = Some mproc ->
    opt_bool opts "progress" = false -> ppt_active opts = false ->
    cget (d_bycall (r_dealer r)) (x, q) = None ->
    exists r1 det, r_clients r1 = r_clients r /\ r_cfg r1 = r_cfg r /\ r_broker r1 = r_broker r /\
      forall r2 resp, meta_call r1 mproc det args kw orc = (r2, resp, None) ->
        snd (step r (OMsg x (CCall q opts proc args kw) orc)) = [(x, reply q resp)].
Proof.
  intros r x s q opts proc args kw orc rg mproc I F Eg Hm (Hc & Hd & Hp) Hmp Hprog Hppt Hb.
  pose proof (find_session_id _ _ _ F) as Es.
  rewrite step_msg_eq, F, Eg. cbn [handle].
  assert (Hl : lookup r meta_id = Some (r_meta r)) by reflexivity.
  assert (Hne : reg_callees rg <> []) by (rewrite Hc; discriminate).
  assert (Ha : call_abort_cond s opts = false) by (unfold call_abort_cond; rewrite Hprog; reflexivity).
  assert (Hsel : select_callee rg orc = Some (meta_id, reg_next rg)) by (unfold select_callee; rewrite Hc; reflexivity).
  rewrite <- Es in Hb.
  rewrite (call_first (r_cfg r) (lookup r) (r_now r) (r_dealer r) s q opts proc args kw orc rg meta_id (reg_next rg) (r_meta r)
                      Hm Hne Ha Hb Hsel Hl).
  unfold call_feature_refused, call_ppt_abort, call_ppt_refused, call_disclose_refused_cond.
  unfold reg_discloses. rewrite Hprog, Hppt, Hd. change (nmem meta_id [meta_id]) with true. cbn [andb negb].
  set (D := call_first_state (r_now r) (r_dealer r) (s_id s, q) opts rg meta_id (reg_next rg) (r_meta r)).
  set (iv := idgen_next (s_invgen (r_meta r))).
  set (det := call_details (r_cfg r) s (r_meta r) meta_id rg opts proc).
  unfold update_session. cbn [s_id set_invgen]. rewrite (i_meta r I). change (meta_id =? meta_id) with true. cbv iota.
  set (r1 := r_set_meta (r_set_dealer r D) (set_invgen (r_meta r) iv)).
  exists r1, det. split; [reflexivity|]. split; [reflexivity|]. split; [reflexivity|].
  intros r2 resp Hmc. unfold run_meta_invocation. change (negb (meta_id =? meta_id)) with false. cbv iota.
  change (r_metaprocs r1) with (r_metaprocs r). rewrite Hmp, Hmc.
  pose proof (meta_call_dealer r1 mproc det args kw orc) as Ed. rewrite Hmc in Ed. unfold realm_of in Ed. cbn [fst] in Ed.
  change (r_dealer r1) with D in Ed. rewrite Ed.
  assert (Hi : cget (d_invs D) (meta_id, iv) = Some (first_inv (r_dealer r) (s_id s, q) meta_id (r_meta r) rg opts))
    by (unfold D; rewrite cfs_invs; apply cget_cset_same).
  assert (Hcl : cget (d_calls D) (s_id s, q) = Some (s_id s))
    by (unfold D; rewrite cfs_calls; apply cget_cset_same).
  rewrite <- Es. destruct resp as [a k|e]; cbn [reply].
  - pose proof (sync_yield_meta_result (lookup r2) D meta_id iv a k _ (s_id s) Hi Hcl) as Y.
    destruct (sync_yield (lookup r2) D meta_id iv [] a k) as [d' o1]. cbn [snd fst] in *. exact Y.
  - pose proof (sync_error_meta_result D meta_id iv [] e [] [] _ (s_id s) Hi Hcl) as Y.
    destruct (sync_error D meta_id iv [] e [] []) as [d' o1]. cbn [snd fst] in *. exact Y.
Qed.

(** ** The reply monitor, with its final state *)
Theorem reply_state_from : forall ops r k c st,
    realm_wf r -> ids_below k r -> Forall op_ok ops -> k + N.of_nat (List.length ops) <= max_idN ->
    along gate_fresh r ops -> (st = false -> ~ rrec r c) ->
    exists st', mon_run c st (trace_from r ops) = Some st' /\ (st' = false -> ~ rrec (fst (run r ops)) c).
Proof.
  induction ops as [|o ops IH]; intros r k c st W I Ho Hk G Hst.
  { exists st. split; [reflexivity|]. rewrite run_nil. exact Hst. }
  cbn [trace_from step_events]. cbn [List.length] in Hk. inversion Ho as [|? ? Ho1 Ho2]; subst.
  destruct G as [G1 G2].
  assert (Hk1 : k < max_idN) by lia.
  destruct (step_rok r o k W I Hk1 Ho1 G1) as (l & R & Hl).
  destruct (step_wf r o k W I Hk1 Ho1) as [W1 I1].
  rewrite mon_app, run_cons. cbn [fst].
  destruct (mon_outs (rrec r) (rrec (fst (step r o))) l (snd (step r o)) c (is_call_op c o || st) R)
    as (st2 & E2 & H2).
  - intros E. rewrite (Hl c E). reflexivity.
  - intros E. apply orb_false_iff in E. destruct E as [_ E]. auto.
  - change (mon_run c st (step_events o (snd (step r o))))
      with (mon_run c (is_call_op c o || st) (map EOut (snd (step r o)))).
    rewrite E2. apply (IH (fst (step r o)) (k + 1) c st2 W1 I1 Ho2); [lia|exact G2|exact H2].
Qed.

(** a shut monitor after [pre]: no pending call with that id *)
Lemma shut_no_pending : forall cfg pre c,
    Forall op_ok pre -> k0 cfg + N.of_nat (List.length pre) <= max_idN ->
    along gate_fresh (init_realm cfg) pre ->
    mon_run c false (trace cfg pre) = Some false ->
    cget (d_bycall (r_dealer (fst (run (init_realm cfg) pre)))) c = None.
Proof.
  intros cfg pre c Ho Hk G Hmon. rewrite trace_eq in Hmon.
  destruct (init_realm_wf cfg) as [W I]; [lia|].
  destruct (reply_state_from pre (init_realm cfg) (k0 cfg) c false W I Ho Hk G) as (st' & E & H).
  { intros _. apply init_no_calls. lia. }
  rewrite Hmon in E. inversion E; subst st'. specialize (H eq_refl).
  destruct (run_wf pre (init_realm cfg) (k0 cfg) W I Ho Hk) as [W1 _].
  destruct (cget (d_bycall (r_dealer (fst (run (init_realm cfg) pre)))) c) as [ik|] eqn:Eb; [|reflexivity].
  exfalso. apply H. unfold rrec, drec.
  exact (cw_bycall_call _ (wf_calls _ _ (rw_dealer _ W1)) c ik Eb).
Qed.
