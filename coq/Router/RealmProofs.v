(** * Realm-level proofs, part 1: the shape of [step] and the authorization
    gate (C10).  The authorizer is a universally quantified function: every
    theorem here holds for every [f : N -> bool -> dict -> cmsg -> adecision]. *)
From Nexus Require Import Router.Realm.
From Coq Require Import Lia.

(** ** Small facts used everywhere *)
Lemma find_session_id : forall l sid s, find_session l sid = Some s -> s_id s = sid.
Proof.
  induction l as [|x l IH]; cbn; intros sid s H; [discriminate|].
  destruct (N.eqb_spec (s_id x) sid); [congruence|auto].
Qed.

(** ** The equation of [step] on a client message: [handle] is reached only
    through [gate] *)
Lemma step_msg_eq : forall r sid m oracle,
    step r (OMsg sid m oracle) =
    match find_session (r_clients r) sid with
    | None => (r, [])
    | Some s => match gate r s m with
                | inr o => (r, o)
                | inl m' => handle r s m' oracle
                end
    end.
Proof. reflexivity. Qed.

Lemma step_join_eq : forall r sid l h, step r (OJoin sid l h) = join r sid l h.
Proof. reflexivity. Qed.
Lemma step_drop_eq : forall r sid, step r (ODrop sid) = leave r sid.
Proof. reflexivity. Qed.

(** ** Replacing the authorizer of a realm, nothing else *)
Definition cfg_set_authz (c : config) (a : option (N -> bool -> dict -> cmsg -> adecision)) : config :=
  mkConfig (c_strict c) (c_disclose c) (c_meta_strict c) (c_meta_kill c) (c_meta_modify c)
           (c_local_authz c) (c_hist c) a.

Definition set_authz (r : realm) a : realm :=
  mkRealm (cfg_set_authz (r_cfg r) a) (r_clients r) (r_meta r) (r_testaments r) (r_broker r)
          (r_dealer r) (r_metaprocs r) (r_now r) (r_pubgen r).

(** the result of a step with the authorizer put back *)
Definition lift a (p : realm * list out) : realm * list out := (set_authz (fst p) a, snd p).

Lemma set_authz_same : forall r, set_authz r (c_authz (r_cfg r)) = r.
Proof. intros [[] ? ? ? ? ? ? ? ?]; reflexivity. Qed.

Lemma set_authz_twice : forall r a b, set_authz (set_authz r a) b = set_authz r b.
Proof. reflexivity. Qed.

Ltac rproj :=
  cbn [set_authz lift fst snd lookup update_session
       r_cfg r_clients r_meta r_testaments r_broker r_dealer r_metaprocs r_now r_pubgen
       r_set_clients r_set_meta r_set_testaments r_set_broker r_set_dealer r_set_metaprocs r_set_now] in *.
Ltac cproj :=
  cbn [cfg_set_authz c_strict c_disclose c_meta_strict c_meta_kill c_meta_modify c_local_authz c_hist c_authz] in *.

(** break every [if]/[match] whose scrutinee is not itself a match *)
Ltac brk :=
  repeat (cbv beta iota zeta;
          match goal with
          | |- context [match ?x with _ => _ end] =>
              lazymatch x with
              | context [match _ with _ => _ end] => fail
              | _ => destruct x eqn:?
              end
          end).

(** ** None of the broker / dealer entry points reads [c_authz] *)
Lemma publish_sa : forall c a lk now b pg s req opts topic args kw,
    publish (cfg_set_authz c a) lk now b pg s req opts topic args kw =
    publish c lk now b pg s req opts topic args kw.
Proof. reflexivity. Qed.

Lemma subscribe_sa : forall c a b pg sid req opts topic,
    subscribe (cfg_set_authz c a) b pg sid req opts topic = subscribe c b pg sid req opts topic.
Proof. reflexivity. Qed.

Lemma register_sa : forall c a d s req opts proc,
    register (cfg_set_authz c a) d s req opts proc = register c d s req opts proc.
Proof. reflexivity. Qed.

Lemma call_sa : forall c a lk now d s req opts proc args kw oracle,
    call (cfg_set_authz c a) lk now d s req opts proc args kw oracle =
    call c lk now d s req opts proc args kw oracle.
Proof. reflexivity. Qed.

Lemma clean_details_sa : forall c a d, clean_details (cfg_set_authz c a) d = clean_details c d.
Proof. reflexivity. Qed.

(** ** ... hence nothing in the realm does, except [gate] *)
Lemma meta_publish_sa : forall r a mp, meta_publish (set_authz r a) mp = lift a (meta_publish r mp).
Proof.
  intros. unfold meta_publish. rproj. rewrite publish_sa.
  destruct (publish _ _ _ _ _ _ _ _ _ _ _) as [[b pg] o]. reflexivity.
Qed.

Lemma meta_publish_all_sa : forall mps r a,
    meta_publish_all (set_authz r a) mps = lift a (meta_publish_all r mps).
Proof.
  unfold meta_publish_all.
  assert (H : forall mps r a o,
             fold_left (fun '((r, o) : realm * list out) mp =>
                          let '(r1, o1) := meta_publish r mp in (r1, o ++ o1)) mps (set_authz r a, o) =
             lift a (fold_left (fun '((r, o) : realm * list out) mp =>
                          let '(r1, o1) := meta_publish r mp in (r1, o ++ o1)) mps (r, o))).
  { induction mps as [|mp mps IH]; intros r a o; cbn [fold_left]; [reflexivity|].
    rewrite meta_publish_sa. destruct (meta_publish r mp) as [r1 o1]. unfold lift at 1; cbn [fst snd].
    apply IH. }
  intros; apply H.
Qed.

Lemma leave_sa : forall r a sid, leave (set_authz r a) sid = lift a (leave r sid).
Proof.
  intros. unfold leave. rproj.
  destruct (find_session (r_clients r) sid) as [s|]; [|reflexivity].
  destruct (dealer_remove_session _ _ _) as [[d o1] mps].
  destruct (broker_remove_session _ _ _) as [[b pg] o2].
  match goal with |- context [meta_publish_all ?R ?M] =>
    change R with (set_authz (mkRealm (r_cfg r) (del_session (r_clients r) sid) (r_meta r)
                                      (ndel (r_testaments r) sid) b d (r_metaprocs r) (r_now r) pg) a) end.
  rewrite meta_publish_all_sa.
  destruct (meta_publish_all _ _) as [r5 o3]. reflexivity.
Qed.

Lemma kill_sessions_sa : forall sids r a g,
    kill_sessions (set_authz r a) sids g = lift a (kill_sessions r sids g).
Proof.
  unfold kill_sessions.
  assert (H : forall sids g r a o,
             fold_left (fun '((r, o) : realm * list out) sid =>
                          let '(r1, o1) := leave r sid in (r1, o ++ [(sid, g)] ++ o1)) sids (set_authz r a, o) =
             lift a (fold_left (fun '((r, o) : realm * list out) sid =>
                          let '(r1, o1) := leave r sid in (r1, o ++ [(sid, g)] ++ o1)) sids (r, o))).
  { induction sids as [|x sids IH]; intros g r a o; cbn [fold_left]; [reflexivity|].
    rewrite leave_sa. destruct (leave r x) as [r1 o1]. unfold lift at 1; cbn [fst snd]. apply IH. }
  intros; apply H.
Qed.

Definition lift3 {A B} a (p : realm * A * B) : realm * A * B :=
  (set_authz (fst (fst p)) a, snd (fst p), snd p).

Lemma meta_call_sa : forall r a proc details args kw oracle,
    meta_call (set_authz r a) proc details args kw oracle =
    lift3 a (meta_call r proc details args kw oracle).
Proof.
  intros. unfold meta_call. rproj.
  change (clean_details (cfg_set_authz (r_cfg r) a)) with (clean_details (r_cfg r)).
  brk; try reflexivity.
  all: unfold update_session, lift3; cbn [fst snd]; brk; reflexivity.
Qed.

Lemma run_meta_invocation_sa : forall r a o oracle,
    run_meta_invocation (set_authz r a) o oracle = lift a (run_meta_invocation r o oracle).
Proof.
  intros. unfold run_meta_invocation.
  destruct o as [|[rcv m] l]; [reflexivity|].
  destruct m; try reflexivity.
  destruct l; [|reflexivity].
  destruct (negb (rcv =? meta_id)); [reflexivity|].
  rproj.
  destruct (nget (r_metaprocs r) reg) as [proc|].
  - rewrite meta_call_sa.
    destruct (meta_call r proc details args kw oracle) as [[r1 resp] kills].
    unfold lift3; cbn [fst snd]. rproj.
    destruct (match resp with MYield a0 k => _ | MError e => _ end) as [d o1].
    destruct kills as [[sids g]|]; [|reflexivity].
    match goal with |- context [kill_sessions ?R sids g] =>
      change R with (set_authz (r_set_dealer r1 d) a) end.
    rewrite kill_sessions_sa. destruct (kill_sessions _ _ _) as [r3 o2]. reflexivity.
  - destruct (sync_error _ _ _ _ _ _ _) as [d o1]. reflexivity.
Qed.

Lemma handle_sa : forall r a s m oracle,
    handle (set_authz r a) s m oracle = lift a (handle r s m oracle).
Proof.
  intros. destruct m; unfold handle.
  - rproj. rewrite publish_sa. destruct (publish _ _ _ _ _ _ _ _ _ _ _) as [[b pg] o].
    change (publish_aborts (cfg_set_authz (r_cfg r) a) s opts topic) with (publish_aborts (r_cfg r) s opts topic).
    destruct (publish_aborts (r_cfg r) s opts topic); [|reflexivity].
    rewrite leave_sa. destruct (leave r (s_id s)) as [r1 o1]. reflexivity.
  - rproj. rewrite subscribe_sa. destruct (subscribe _ _ _ _ _ _ _) as [[b pg] o]. reflexivity.
  - rproj. destruct (unsubscribe _ _ _ _ _) as [[b pg] o]. reflexivity.
  - rproj. rewrite register_sa. destruct (register _ _ _ _ _ _) as [[d o] mps].
    change (r_set_dealer (set_authz r a) d) with (set_authz (r_set_dealer r d) a).
    rewrite meta_publish_all_sa. destruct (meta_publish_all _ _) as [r1 o1]. reflexivity.
  - rproj. destruct (unregister _ _ _ _) as [[d o] mps].
    change (r_set_dealer (set_authz r a) d) with (set_authz (r_set_dealer r d) a).
    rewrite meta_publish_all_sa. destruct (meta_publish_all _ _) as [r1 o1]. reflexivity.
  - rproj. rewrite call_sa.
    destruct (call _ _ _ _ _ _ _ _ _ _ _) as [d o|o|d callee o].
    + reflexivity.
    + match goal with |- context [leave (r_set_dealer (set_authz r a) ?D) _] =>
        change (r_set_dealer (set_authz r a) D) with (set_authz (r_set_dealer r D) a) end.
      rewrite leave_sa. destruct (leave _ (s_id s)) as [r1 o1]. reflexivity.
    + unfold update_session. destruct (s_id callee =? meta_id).
      * change (r_set_meta (r_set_dealer (set_authz r a) d) callee)
          with (set_authz (r_set_meta (r_set_dealer r d) callee) a).
        apply run_meta_invocation_sa.
      * match goal with |- run_meta_invocation ?R _ _ = _ =>
          change R with (set_authz (r_set_clients (r_set_dealer r d) (put_session (r_clients (r_set_dealer r d)) callee)) a) end.
        apply run_meta_invocation_sa.
  - rproj. destruct (cancel _ _ _ _ _) as [d o]. reflexivity.
  - rproj. destruct (sync_yield _ _ _ _ _ _ _) as [d o].
    destruct (yield_aborts _ _ _ _ _); [|reflexivity].
    change (r_set_dealer (set_authz r a) d) with (set_authz (r_set_dealer r d) a).
    rewrite leave_sa. destruct (leave (r_set_dealer r d) (s_id s)) as [r1 o1]. reflexivity.
  - destruct (negb (ty =? c_INVOCATION)).
    + rewrite leave_sa. destruct (leave r (s_id s)) as [r1 o1]. reflexivity.
    + rproj. destruct (sync_error _ _ _ _ _ _ _) as [d o]. reflexivity.
  - rewrite leave_sa. destruct (leave r (s_id s)) as [r1 o1]. reflexivity.
  - rewrite leave_sa. destruct (leave r (s_id s)) as [r1 o1]. reflexivity.
Qed.

Lemma join_sa : forall r a sid l h, join (set_authz r a) sid l h = lift a (join r sid l h).
Proof.
  intros. unfold join. rproj.
  destruct (negb (has_role h) || is_some _); [reflexivity|].
  rewrite clean_details_sa.
  match goal with |- meta_publish ?R _ = _ =>
    change R with (set_authz (r_set_clients r (r_clients r ++ [mkSession sid l h (join_details sid l h) 0])) a) end.
  apply meta_publish_sa.
Qed.

(** ** C10 — gate_total's companion: joins, departures and the clock never
    consult the authorizer (so join/leave meta events, which the meta session
    publishes, are produced whatever [f] is). *)
Theorem non_msg_ops_ignore_authz : forall r a o,
    (forall sid m oracle, o <> OMsg sid m oracle) ->
    step (set_authz r a) o = lift a (step r o).
Proof.
  intros r a o H. destruct o as [sid l h|sid m oracle|sid|ms].
  - apply join_sa.
  - exfalso; eapply H; reflexivity.
  - apply leave_sa.
  - unfold step. rproj. destruct (fire_timers _ _ _) as [d o]. reflexivity.
Qed.

(** ** C10 — the reply to a refused message *)
Definition refusal (err : string) (eargs : list value) (sid : N) (m : cmsg) : list out :=
  match m with
  | CPublish _ opts _ _ _ =>
      if opt_bool opts "acknowledge" then [(sid, RError (cmsg_code m) (req_of m) [] err eargs [])] else []
  | _ => [(sid, RError (cmsg_code m) (req_of m) [] err eargs [])]
  end.

Definition unacked_publish (m : cmsg) : bool :=
  match m with CPublish _ opts _ _ _ => negb (opt_bool opts "acknowledge") | _ => false end.

Lemma refusal_one : forall err eargs sid m, unacked_publish m = false ->
    refusal err eargs sid m = [(sid, RError (cmsg_code m) (req_of m) [] err eargs [])].
Proof. intros err eargs sid [] H; cbn in *; try reflexivity. destruct (opt_bool opts "acknowledge"); [reflexivity|discriminate]. Qed.

Lemma refusal_silent : forall err eargs sid m, unacked_publish m = true -> refusal err eargs sid m = [].
Proof. intros err eargs sid [] H; cbn in *; try discriminate. destruct (opt_bool opts "acknowledge"); [discriminate|reflexivity]. Qed.

Section Authz.
  Variable f : N -> bool -> dict -> cmsg -> adecision.
  Variables (r : realm) (sid : N) (s : session).
  Hypothesis Hf : c_authz (r_cfg r) = Some f.
  Hypothesis Hs : find_session (r_clients r) sid = Some s.

  Lemma gate_subject : forall m, s_local s && negb (c_local_authz (r_cfg r)) = false ->
      gate r s m = match f sid (s_local s) (s_details s) m with
                   | AAllow m' => inl m'
                   | ADeny => inr (refusal e_not_authorized [] sid m)
                   | AFail => inr (refusal e_authz_failed [vstr "<text>"] sid m)
                   end.
  Proof.
    intros m Hl. unfold gate. rewrite Hf, Hl, (find_session_id _ _ _ Hs).
    destruct (f sid (s_local s) (s_details s) m); destruct m; reflexivity.
  Qed.

  Theorem denied_no_trace : forall m oracle,
      s_local s && negb (c_local_authz (r_cfg r)) = false ->
      f sid (s_local s) (s_details s) m = ADeny ->
      step r (OMsg sid m oracle) = (r, refusal e_not_authorized [] sid m).
  Proof. intros m oracle Hl Hd. rewrite step_msg_eq, Hs, (gate_subject m Hl), Hd. reflexivity. Qed.

  Theorem failed_no_trace : forall m oracle,
      s_local s && negb (c_local_authz (r_cfg r)) = false ->
      f sid (s_local s) (s_details s) m = AFail ->
      step r (OMsg sid m oracle) = (r, refusal e_authz_failed [vstr "<text>"] sid m).
  Proof. intros m oracle Hl Hd. rewrite step_msg_eq, Hs, (gate_subject m Hl), Hd. reflexivity. Qed.

  Theorem allowed_same : forall m m' oracle,
      s_local s && negb (c_local_authz (r_cfg r)) = false ->
      f sid (s_local s) (s_details s) m = AAllow m' ->
      step r (OMsg sid m oracle) = lift (Some f) (step (set_authz r None) (OMsg sid m' oracle)).
  Proof.
    intros m m' oracle Hl Ha. rewrite !step_msg_eq. rproj. rewrite Hs, (gate_subject m Hl), Ha.
    unfold gate at 1. rproj. cproj.
    rewrite <- handle_sa, set_authz_twice, <- Hf, set_authz_same. reflexivity.
  Qed.

  Theorem local_exempt : forall m oracle,
      s_local s = true -> c_local_authz (r_cfg r) = false ->
      step r (OMsg sid m oracle) = lift (Some f) (step (set_authz r None) (OMsg sid m oracle)).
  Proof.
    intros m oracle Hl Hc. rewrite !step_msg_eq. rproj. rewrite Hs.
    unfold gate. rproj. cproj. rewrite Hf, Hl, Hc. cbn [negb andb].
    rewrite <- handle_sa, set_authz_twice, <- Hf, set_authz_same. reflexivity.
  Qed.
End Authz.

(** without an authorizer the gate lets everything through unchanged *)
Lemma gate_none : forall r s m, c_authz (r_cfg r) = None -> gate r s m = inl m.
Proof. intros r s m H. unfold gate. now rewrite H. Qed.

(** ** [step] never changes the configuration (used by C05, C11) *)

Lemma set_authz_only_authz_proof : forall r a,
    r_clients (set_authz r a) = r_clients r /\ r_meta (set_authz r a) = r_meta r /\
    r_testaments (set_authz r a) = r_testaments r /\ r_broker (set_authz r a) = r_broker r /\
    r_dealer (set_authz r a) = r_dealer r /\ r_metaprocs (set_authz r a) = r_metaprocs r /\
    r_now (set_authz r a) = r_now r /\ r_pubgen (set_authz r a) = r_pubgen r /\
    c_authz (r_cfg (set_authz r a)) = a /\
    c_strict (r_cfg (set_authz r a)) = c_strict (r_cfg r) /\
    c_disclose (r_cfg (set_authz r a)) = c_disclose (r_cfg r) /\
    c_meta_strict (r_cfg (set_authz r a)) = c_meta_strict (r_cfg r) /\
    c_meta_kill (r_cfg (set_authz r a)) = c_meta_kill (r_cfg r) /\
    c_meta_modify (r_cfg (set_authz r a)) = c_meta_modify (r_cfg r) /\
    c_local_authz (r_cfg (set_authz r a)) = c_local_authz (r_cfg r) /\
    c_hist (r_cfg (set_authz r a)) = c_hist (r_cfg r) /\
    set_authz r (c_authz (r_cfg r)) = r.
Proof. intros. repeat split; try reflexivity. apply set_authz_same. Qed.

Lemma refusal_unacked_publish_silent_proof : forall err eargs sid req opts topic args kw,
    opt_bool opts "acknowledge" = false ->
    refusal err eargs sid (CPublish req opts topic args kw) = [].
Proof. intros. cbn. now rewrite H. Qed.

(** ** Non-vacuity witnesses for C10: a reachable realm with an authorizer
    that denies topic "deny", fails on "fail", rewrites every other PUBLISH to
    topic "rewritten" and lets every other message through. *)
Module C10Ex.
  Definition f0 : N -> bool -> dict -> cmsg -> adecision :=
    fun _ _ _ m =>
      match m with
      | CPublish q o t a k =>
          if String.eqb t "deny" then ADeny
          else if String.eqb t "fail" then AFail
          else AAllow (CPublish q o "rewritten" a k)
      | _ => AAllow m
      end.
  Definition cfg0 : config := mkConfig false false false true true false [] (Some f0).
  Definition hello0 : dict :=
    [("roles", VDict [("subscriber", VDict []); ("publisher", VDict []);
                      ("caller", VDict []); ("callee", VDict [])])].
  Definition ack : dict := [("acknowledge", VBool true)].
  Definition r0 : realm :=
    fst (run (init_realm cfg0)
             [OJoin 10 false hello0; OJoin 11 false hello0; OJoin 12 true hello0;
              OMsg 11 (CSubscribe 1 [] "rewritten") 0; OMsg 11 (CSubscribe 2 [] "deny") 0]).
  Definition s10 : session := mkSession 10 false hello0 (join_details 10 false hello0) 0.
  Definition s12 : session := mkSession 12 true hello0 (join_details 12 true hello0) 0.

  Lemma hyps : c_authz (r_cfg r0) = Some f0 /\ find_session (r_clients r0) 10 = Some s10 /\
               s_local s10 && negb (c_local_authz (r_cfg r0)) = false /\
               find_session (r_clients r0) 12 = Some s12 /\ s_local s12 = true /\
               c_local_authz (r_cfg r0) = false.
  Proof. vm_compute. repeat split; reflexivity. Qed.

  (** denied: same realm, exactly one ERROR(PUBLISH) not_authorized; the subscriber 11 of "deny" gets nothing *)
  Lemma denied : f0 10 false (s_details s10) (CPublish 7 ack "deny" [] []) = ADeny /\
                 step r0 (OMsg 10 (CPublish 7 ack "deny" [] []) 0) =
                 (r0, [(10, RError c_PUBLISH 7 [] e_not_authorized [] [])]) /\
                 step r0 (OMsg 10 (CPublish 7 [] "deny" [] []) 0) = (r0, []) /\
                 step r0 (OMsg 10 (CPublish 7 ack "fail" [] []) 0) =
                 (r0, [(10, RError c_PUBLISH 7 [] e_authz_failed [vstr "<text>"] [])]).
  Proof. vm_compute. repeat split; reflexivity. Qed.

  (** allowed and rewritten: delivered through the subscription to "rewritten" *)
  Lemma allowed : snd (step r0 (OMsg 10 (CPublish 7 ack "x" [vnat 5] []) 0)) =
                  [(11, REvent 1 8 [] [vnat 5] []); (10, RPublished 7 8)].
  Proof. vm_compute. reflexivity. Qed.

  (** the local session is exempt: its publication to "deny" is delivered *)
  Lemma local_delivers : snd (step r0 (OMsg 12 (CPublish 7 [] "deny" [] []) 0)) =
                         [(11, REvent 2 8 [] [] [])].
  Proof. vm_compute. reflexivity. Qed.
End C10Ex.
