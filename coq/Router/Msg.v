(** * Messages, sessions, configuration.  Definitions only. *)
From Nexus Require Export Router.Base.

(** Messages a client sends to the router after it was attached. *)
Inductive cmsg :=
| CPublish (req : N) (opts : dict) (topic : string) (args : list value) (kw : dict)
| CSubscribe (req : N) (opts : dict) (topic : string)
| CUnsubscribe (req : N) (sub : N)
| CRegister (req : N) (opts : dict) (proc : string)
| CUnregister (req : N) (reg : N)
| CCall (req : N) (opts : dict) (proc : string) (args : list value) (kw : dict)
| CCancel (req : N) (opts : dict)
| CYield (req : N) (opts : dict) (args : list value) (kw : dict)
| CError (ty : N) (req : N) (details : dict) (err : string) (args : list value) (kw : dict)
| CGoodbye (details : dict) (reason : string)
| COther (code : N).               (* any other message type: protocol violation *)

(** Messages the router sends to a client. *)
Inductive rmsg :=
| RAbort (details : dict) (reason : string)
| RGoodbye (details : dict) (reason : string)
| RError (ty : N) (req : N) (details : dict) (err : string) (args : list value) (kw : dict)
| RPublished (req pub : N)
| RSubscribed (req sub : N)
| RUnsubscribed (req : N)
| REvent (sub pub : N) (details : dict) (args : list value) (kw : dict)
| RRegistered (req reg : N)
| RUnregistered (req : N)
| RInvocation (req reg : N) (details : dict) (args : list value) (kw : dict)
| RResult (req : N) (details : dict) (args : list value) (kw : dict)
| RInterrupt (req : N) (opts : dict).

Definition out := (N * rmsg)%type.   (* receiver session id, message *)

(** message type codes (wamp/message.go) *)
Definition c_ERROR := 8. Definition c_PUBLISH := 16. Definition c_SUBSCRIBE := 32.
Definition c_UNSUBSCRIBE := 34. Definition c_CALL := 48. Definition c_CANCEL := 49.
Definition c_REGISTER := 64. Definition c_UNREGISTER := 66. Definition c_INVOCATION := 68.
Definition c_YIELD := 70. Definition c_GOODBYE := 6.

Definition cmsg_code (m : cmsg) : N :=
  match m with
  | CPublish _ _ _ _ _ => c_PUBLISH | CSubscribe _ _ _ => c_SUBSCRIBE
  | CUnsubscribe _ _ => c_UNSUBSCRIBE | CRegister _ _ _ => c_REGISTER
  | CUnregister _ _ => c_UNREGISTER | CCall _ _ _ _ _ => c_CALL
  | CCancel _ _ => c_CANCEL | CYield _ _ _ _ => c_YIELD
  | CError _ _ _ _ _ _ => c_ERROR | CGoodbye _ _ => c_GOODBYE | COther c => c
  end.

(** ** URIs *)
Definition e_invalid_uri := "wamp.error.invalid_uri".
Definition e_no_such_procedure := "wamp.error.no_such_procedure".
Definition e_procedure_exists := "wamp.error.procedure_already_exists".
Definition e_no_such_registration := "wamp.error.no_such_registration".
Definition e_no_such_subscription := "wamp.error.no_such_subscription".
Definition e_no_such_session := "wamp.error.no_such_session".
Definition e_invalid_argument := "wamp.error.invalid_argument".
Definition e_not_authorized := "wamp.error.not_authorized".
Definition e_authz_failed := "wamp.error.authorization_failed".
Definition e_canceled := "wamp.error.canceled".
Definition e_timeout := "wamp.error.timeout".
Definition e_disclose_me := "wamp.error.option_disallowed.disclose_me".
Definition e_feature_not_supported := "wamp.error.feature_not_supported".
Definition e_protocol_violation := "wamp.error.protocol_violation".
Definition e_goodbye_and_out := "wamp.close.goodbye_and_out".
Definition e_close_normal := "wamp.close.normal".
Definition e_system_shutdown := "wamp.close.system_shutdown".

Definition t_on_join := "wamp.session.on_join".
Definition t_on_leave := "wamp.session.on_leave".
Definition t_reg_on_create := "wamp.registration.on_create".
Definition t_reg_on_register := "wamp.registration.on_register".
Definition t_reg_on_unregister := "wamp.registration.on_unregister".
Definition t_reg_on_delete := "wamp.registration.on_delete".
Definition t_sub_on_create := "wamp.subscription.on_create".
Definition t_sub_on_subscribe := "wamp.subscription.on_subscribe".
Definition t_sub_on_unsubscribe := "wamp.subscription.on_unsubscribe".
Definition t_sub_on_delete := "wamp.subscription.on_delete".

(** ** Sessions *)
Record session := mkSession {
  s_id : N;
  s_local : bool;
  s_hello : dict;        (* HELLO details, from which roles/features are read *)
  s_details : dict;      (* session details as recorded by the router *)
  s_invgen : N           (* per-session invocation id generator (Session.IDGen) *)
}.

Definition meta_id : N := 1.

(** Session.HasFeature after Session.setRoles(HELLO details) *)
Definition has_feature (hello : dict) (role feat : string) : bool :=
  match dget hello "roles" with
  | Some (VDict roles) =>
      match dget roles role with
      | Some (VDict rd) =>
          match dget rd "features" with
          | Some (VDict fs) => match dget fs feat with Some (VBool true) => true | _ => false end
          | _ => false
          end
      | _ => false
      end
  | _ => false
  end.

Definition sess_feature (s : session) (role feat : string) : bool := has_feature (s_hello s) role feat.

Definition set_details (s : session) (d : dict) : session :=
  mkSession (s_id s) (s_local s) (s_hello s) d (s_invgen s).
Definition set_invgen (s : session) (n : N) : session :=
  mkSession (s_id s) (s_local s) (s_hello s) (s_details s) n.

(** ** Authorizer decisions (the Authorizer is an arbitrary function) *)
Inductive adecision :=
| AAllow (m : cmsg)       (* allowed, in the form the authorizer left the message *)
| ADeny
| AFail.

(** ** Realm configuration *)
Record hist_cfg := mkHistCfg { hc_topic : string; hc_match : string; hc_limit : N }.

Record config := mkConfig {
  c_strict : bool;
  c_disclose : bool;
  c_meta_strict : bool;
  c_meta_kill : bool;
  c_meta_modify : bool;
  c_local_authz : bool;
  c_hist : list hist_cfg;
  c_authz : option (N -> bool -> dict -> cmsg -> adecision)   (* sid, local, details, message *)
}.
