(** * cleanSessionDetails never exposes transport authentication data (C12).
    [clean_details] is what on_join publishes and wamp.session.get answers. *)
From Nexus Require Import Router.Realm Router.AssocLemmas.

Lemma strip_no_auth : forall d td,
  dget (strip_transport_auth d) "transport" = Some (VDict td) ->
  match dget td "auth" with Some (VDict _) => False | _ => True end.
Proof.
  intros d td H. unfold strip_transport_auth in H.
  destruct (dget d "transport") as [v|] eqn:Ht; [|rewrite Ht in H; discriminate].
  destruct v as [| | | |l|td0]; try (rewrite Ht in H; discriminate).
  destruct (dget td0 "auth") as [a|] eqn:Ha.
  - destruct a as [| | | | |ad].
    all: try (rewrite Ht in H; injection H as <-; rewrite Ha; exact I).
    unfold dget, dset in H. rewrite sget_sset_same in H. injection H as <-.
    unfold dget, ddel. rewrite sget_sdel_same. exact I.
  - rewrite Ht in H. injection H as <-. rewrite Ha. exact I.
Qed.

(** whatever the session details are, in strict and in non-strict mode *)
Theorem clean_no_transport_auth_proof : forall cfg d td,
  dget (clean_details cfg d) "transport" = Some (VDict td) ->
  match dget td "auth" with Some (VDict _) => False | _ => True end.
Proof. intros cfg d td. unfold clean_details. apply strip_no_auth. Qed.

(** everything else is kept: in non-strict mode every other key is unchanged *)
Theorem clean_keeps_other_keys_proof : forall cfg d k,
  c_meta_strict cfg = false -> k <> "transport" ->
  dget (clean_details cfg d) k = dget d k.
Proof.
  intros cfg d k Hs Hk. unfold clean_details. rewrite Hs. unfold strip_transport_auth.
  destruct (dget d "transport") as [v|]; [|reflexivity].
  destruct v; try reflexivity.
  destruct (dget d0 "auth") as [a|]; [|reflexivity].
  destruct a; try reflexivity.
  unfold dget, dset. rewrite sget_sset_other; [reflexivity|congruence].
Qed.

(** non-vacuity *)
Example clean_example :
  clean_details (mkConfig false true false false false false [] None)
    [("authid", vstr "a"); ("transport", VDict [("peer", vstr "10.0.0.7"); ("auth", VDict [("cookie", vstr "secret")])])]
  = [("authid", vstr "a"); ("transport", VDict [("peer", vstr "10.0.0.7")])].
Proof. reflexivity. Qed.
