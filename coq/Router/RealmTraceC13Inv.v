(** * Histories of the whole model, C13 part 3: the history of every pending
    invocation.

    [bi tr r]: [tr] is the trace that led to realm [r].  The realm's clock is
    the sum of the ticks of [tr]; and for every invocation record of the
    dealer ([opened]) the trace contains the CALL that opened it, with the
    record's options, immediately followed by the INVOCATION; since then no
    final reply went to the caller, the callee gave no final answer, and — as
    long as the record is not marked cancelled — the caller sent no kill-mode
    CANCEL and the callee was sent no INTERRUPT carrying a reason; an armed
    timer of the record lies in the future and was armed by a CALL of the
    caller with that request id (the opening one or a further chunk), at
    clock + the timeout of the OPENING call.  [bi] holds initially and is
    preserved by every step whose gate is transparent. *)
From Nexus Require Import Router.Realm Router.AssocLemmas Router.RealmLib Router.RealmProofs
     Router.RealmMetaProofs Router.RealmLeave.
From Nexus Require Import Router.DealerLib Router.DealerProofs Router.DealerReg Router.DealerCall Router.DealerWf
     Router.DealerWfCalls Router.DealerWfRegs Router.DealerRemove Router.DealerReply Router.DealerTimers
     Router.DealerOwned Router.DealerTrace.
From Nexus Require Import Router.RealmWf Router.RealmStep Router.RealmC05 Router.RealmOutputs.
From Nexus Require Import Router.RealmTraceLib Router.RealmTrace Router.RealmTraceC05 Router.RealmTraceInv
     Router.RealmTraceC03.
From Nexus Require Import Router.RealmTraceC13 Router.RealmTraceC13Step Router.RealmTraceC13Nd.
From Coq Require Import Lia ZifyN ZifyNat ZifyBool.

(** ** The clock of a trace *)
Fixpoint clock (tr : list event) : N :=
  match tr with
  | [] => 0
  | EIn (OTick ms) :: rest => ms + clock rest
  | _ :: rest => clock rest
  end.

Lemma clock_app : forall a b, clock (a ++ b) = clock a + clock b.
Proof.
  induction a as [|e a IH]; intros b; cbn [app clock]; [lia|].
  destruct e as [o|m]; [destruct o|]; rewrite IH; lia.
Qed.

Lemma clock_outs : forall out, clock (map EOut out) = 0.
Proof. induction out as [|m out IH]; cbn; auto. Qed.

Lemma clock_step_events : forall o out, clock (step_events o out) = match o with OTick ms => ms | _ => 0 end.
Proof. intros o out. unfold step_events. cbn [clock]. destruct o; rewrite clock_outs; lia. Qed.

(** ** Event vocabulary *)
Definition kill_cancel_ev (x q : N) (e : event) : Prop :=
  exists copts orc, e = EIn (OMsg x (CCancel q copts) orc) /\ opt_string copts "mode" = "kill".

(** the callee's final answer to invocation [i]: a YIELD without [progress], or an ERROR *)
Definition final_answer_ev (y i : N) (e : event) : Prop :=
  (exists yopts a kw orc, e = EIn (OMsg y (CYield i yopts a kw) orc) /\ opt_bool yopts "progress" = false) \/
  (exists det err a kw orc, e = EIn (OMsg y (CError c_INVOCATION i det err a kw) orc)).

(** an INTERRUPT that carries a reason (CANCEL or timeout) *)
Definition rintr_ev (y i : N) (e : event) : Prop :=
  exists reason mode, e = EOut (y, RInterrupt i [("reason", vuri reason); ("mode", vstr mode)]).

Definition quiet_since (x q y i : N) (canceled : bool) (rest : list event) : Prop :=
  (forall e, In e rest -> ~ is_reply_ev (x, q) true e) /\
  (forall e, In e rest -> ~ final_answer_ev y i e) /\
  (canceled = false -> forall e, In e rest -> ~ kill_cancel_ev x q e /\ ~ rintr_ev y i e).

(** the deadline [dl] was set by a CALL [q] of [x] in [sfx] (which starts with
    the opening CALL and follows [pre0]): the clock then + the timeout; if it
    is the opening CALL itself its INVOCATION did not forward the timeout *)
Definition armed (x q : N) (tmo : Z) (det : dict) (pre0 sfx : list event) (dl : N) : Prop :=
  (0 < tmo)%Z /\
  exists mid0 opts proc a kw orc restA,
    sfx = mid0 ++ EIn (OMsg x (CCall q opts proc a kw) orc) :: restA /\
    dl = clock (pre0 ++ mid0) + Z.to_N tmo /\
    (mid0 = [] -> dget det "timeout" = None).

Definition opened (tr : list event) (now : N) (timers : list (N * (N * callid))) (k : callid) (inv : invocation) : Prop :=
  exists pre0 proc a kw orc rid det rest,
    tr = pre0 ++ EIn (OMsg (fst (inv_call inv)) (CCall (snd (inv_call inv)) (inv_opts inv) proc a kw) orc)
             :: EOut (fst k, RInvocation (snd k) rid det a kw) :: rest /\
    quiet_since (fst (inv_call inv)) (snd (inv_call inv)) (fst k) (snd k) (inv_canceled inv) rest /\
    (forall t dl c, inv_timer inv = Some t -> nget timers t = Some (dl, c) ->
       now < dl /\
       armed (fst (inv_call inv)) (snd (inv_call inv)) (opt_int64 (inv_opts inv) "timeout") det pre0
             (EIn (OMsg (fst (inv_call inv)) (CCall (snd (inv_call inv)) (inv_opts inv) proc a kw) orc)
                  :: EOut (fst k, RInvocation (snd k) rid det a kw) :: rest) dl) /\
    (* a record is marked only by a kill-mode CANCEL of its caller *)
    (inv_canceled inv = true ->
       exists e, In e rest /\ kill_cancel_ev (fst (inv_call inv)) (snd (inv_call inv)) e) /\
    (* the timer armed by the opening CALL stays armed, with its deadline, until a further chunk *)
    (inv_canceled inv = false -> (0 < opt_int64 (inv_opts inv) "timeout")%Z -> dget det "timeout" = None ->
     (forall e, In e rest -> ~ is_call_ev (inv_call inv) e) ->
     exists t, inv_timer inv = Some t /\
               nget timers t = Some (clock pre0 + Z.to_N (opt_int64 (inv_opts inv) "timeout"), inv_call inv)).

Record bi (tr : list event) (r : realm) : Prop := {
  bi_now : r_now r = clock tr;
  bi_nd : nd (r_dealer r);
  bi_nometa : forall k inv, cget (d_invs (r_dealer r)) k = Some inv -> fst k <> meta_id;
  bi_open : forall k inv, cget (d_invs (r_dealer r)) k = Some inv ->
                          opened tr (r_now r) (d_timers (r_dealer r)) k inv
}.

(** ** A record that stays (possibly re-timed by a further chunk) *)
Lemma opened_extend : forall tr now timers k inv new now' timers' inv',
    opened tr now timers k inv ->
    inv_call inv' = inv_call inv -> inv_opts inv' = inv_opts inv ->
    (forall e, In e new -> ~ is_reply_ev (inv_call inv) true e) ->
    (forall e, In e new -> ~ final_answer_ev (fst k) (snd k) e) ->
    (inv_canceled inv' = false ->
       inv_canceled inv = false /\
       forall e, In e new -> ~ kill_cancel_ev (fst (inv_call inv)) (snd (inv_call inv)) e /\ ~ rintr_ev (fst k) (snd k) e) ->
    (forall t dl c, inv_timer inv' = Some t -> nget timers' t = Some (dl, c) ->
       now' < dl /\
       ((inv_timer inv = Some t /\ nget timers t = Some (dl, c)) \/
        ((0 < opt_int64 (inv_opts inv) "timeout")%Z /\
         exists newA optsA procA aA kwA orcA newB,
           new = newA ++ EIn (OMsg (fst (inv_call inv)) (CCall (snd (inv_call inv)) optsA procA aA kwA) orcA) :: newB /\
           dl = clock (tr ++ newA) + Z.to_N (opt_int64 (inv_opts inv) "timeout")))) ->
    (inv_canceled inv' = true ->
       inv_canceled inv = true \/ exists e, In e new /\ kill_cancel_ev (fst (inv_call inv)) (snd (inv_call inv)) e) ->
    (inv_canceled inv' = false -> (forall e, In e new -> ~ is_call_ev (inv_call inv) e) ->
       forall t v, inv_timer inv = Some t -> nget timers t = Some v -> inv_timer inv' = Some t /\ nget timers' t = Some v) ->
    opened (tr ++ new) now' timers' k inv'.
Proof.
  intros tr now timers k inv new now' timers' inv'
         (pre0 & proc & a & kw & orc & rid & det & rest & Etr & (Q1 & Q2 & Q3) & Qt & Qc & Qf)
         Ec Eo N1 N2 N3 N4 N5 N6.
  exists pre0, proc, a, kw, orc, rid, det, (rest ++ new). rewrite Ec, Eo.
  split; [rewrite Etr, <- app_assoc; reflexivity|]. split; [|split; [|split]]; cycle 2.
  - intros Hc. destruct (N5 Hc) as [Hc0|(e & Hin & He)].
    + destruct (Qc Hc0) as (e & Hin & He). exists e. split; [apply in_or_app; now left|exact He].
    + exists e. split; [apply in_or_app; now right|exact He].
  - intros Hc Hpos Hdet Hnc. destruct (N3 Hc) as [Hc0 _].
    destruct (Qf Hc0 Hpos Hdet) as (t & Hti & Htm).
    { intros e Hin. apply Hnc. apply in_or_app. now left. }
    exists t. apply (N6 Hc); [|exact Hti|exact Htm]. intros e Hin. apply Hnc. apply in_or_app. now right.
  - split; [|split].
    + intros e Hin. apply in_app_or in Hin. destruct Hin; [now apply Q1|rewrite <- surjective_pairing; now apply N1].
    + intros e Hin. apply in_app_or in Hin. destruct Hin; [now apply Q2|now apply N2].
    + intros Hc e Hin. destruct (N3 Hc) as [Hc0 N3']. apply in_app_or in Hin. destruct Hin; [now apply Q3|now apply N3'].
  - intros t dl c Hti Htm. destruct (N4 t dl c Hti Htm) as [Hlt [[Hti0 Htm0]|(Hpos & newA & optsA & procA & aA & kwA & orcA & newB & En & Edl)]].
    + split; [exact Hlt|]. destruct (Qt t dl c Hti0 Htm0) as (_ & Hpos & mid0 & o1 & p1 & a1 & k1 & c1 & restA & Es & Edl & Hm).
      split; [exact Hpos|]. exists mid0, o1, p1, a1, k1, c1, (restA ++ new). split; [|split; [exact Edl|exact Hm]].
      change (EIn ?e1 :: EOut ?e2 :: rest ++ new) with ((EIn e1 :: EOut e2 :: rest) ++ new).
      rewrite Es, <- app_assoc. reflexivity.
    + split; [exact Hlt|]. split; [exact Hpos|].
      exists ((EIn (OMsg (fst (inv_call inv)) (CCall (snd (inv_call inv)) (inv_opts inv) proc a kw) orc)
                   :: EOut (fst k, RInvocation (snd k) rid det a kw) :: rest) ++ newA), optsA, procA, aA, kwA, orcA, newB.
      split; [|split].
      * rewrite En. cbn [app]. rewrite <- app_assoc. reflexivity.
      * rewrite Edl, Etr. rewrite <- !app_assoc. reflexivity.
      * intros E. discriminate E.
Qed.

(** a record that is simply kept: the new events must not concern it *)
Lemma opened_keep : forall tr now timers k inv new now' timers',
    opened tr now timers k inv ->
    (forall e, In e new -> ~ is_reply_ev (inv_call inv) true e) ->
    (forall e, In e new -> ~ final_answer_ev (fst k) (snd k) e) ->
    (inv_canceled inv = false ->
       forall e, In e new -> ~ kill_cancel_ev (fst (inv_call inv)) (snd (inv_call inv)) e /\ ~ rintr_ev (fst k) (snd k) e) ->
    (forall t dl c, inv_timer inv = Some t -> nget timers' t = Some (dl, c) -> nget timers t = Some (dl, c) /\ now' < dl) ->
    (inv_canceled inv = false -> forall t v, inv_timer inv = Some t -> nget timers t = Some v -> nget timers' t = Some v) ->
    opened (tr ++ new) now' timers' k inv.
Proof.
  intros tr now timers k inv new now' timers' O N1 N2 N3 N4 N5.
  apply (opened_extend tr now timers k inv new now' timers' inv O eq_refl eq_refl N1 N2).
  - intros Hc. split; [exact Hc|exact (N3 Hc)].
  - intros t dl c Hti Htm. destruct (N4 t dl c Hti Htm) as [A B]. split; [exact B|]. left. auto.
  - intros Hc. now left.
  - intros Hc _ t v Hti Htm. split; [exact Hti|]. eapply N5; eauto.
Qed.

Lemma in_step_events : forall o out e, In e (step_events o out) -> e = EIn o \/ exists m, e = EOut m /\ In m out.
Proof.
  intros o out e [<-|Hin]; [now left|]. right. apply in_map_iff in Hin. destruct Hin as (m & <- & Hm). eauto.
Qed.

(** the kinds of step, without case analysis on the operation *)
Lemma step13_kind_cases : forall r o out r', step13_kind r o out r' ->
    calm r out r' \/
    (exists sid q opts proc a kw orc, o = OMsg sid (CCall q opts proc a kw) orc /\ call13 r sid q opts a kw out r') \/
    (exists sid q copts orc, o = OMsg sid (CCancel q copts) orc /\ cancel13 r sid q copts out r') \/
    (exists sid i yopts a kw orc, o = OMsg sid (CYield i yopts a kw) orc /\ yield13 r sid i yopts out r') \/
    (exists sid ty i det err a kw orc, o = OMsg sid (CError ty i det err a kw) orc /\ error13 r sid ty i det err a kw out r') \/
    (exists ms, o = OTick ms /\ tick13 r ms out r').
Proof.
  intros r o out r' H. destruct o as [sid lc h|sid m orc|sid|ms]; cbn [step13_kind] in H; try (now left).
  - destruct (find_session (r_clients r) sid); [|now left].
    destruct m; cbn [msg13] in H; try (now left).
    + right; left. do 7 eexists. split; [reflexivity|exact H].
    + right; right; left. do 4 eexists. split; [reflexivity|exact H].
    + right; right; right; left. do 6 eexists. split; [reflexivity|exact H].
    + right; right; right; right; left. do 8 eexists. split; [reflexivity|exact H].
  - right; right; right; right; right. eexists. split; [reflexivity|exact H].
Qed.

(** ** One step *)
Section Step.
  Variables (tr : list event) (r : realm) (o : op) (k : N).
  Hypothesis W : realm_wf r.
  Hypothesis I : ids_below k r.
  Hypothesis Hk : k < max_idN.
  Hypothesis Ho : op_ok o.
  Hypothesis G : gate_transparent r o.
  Hypothesis B : bi tr r.

  Let out := snd (step r o).
  Let r' := fst (step r o).
  Let new := step_events o out.
  Let d := r_dealer r.
  Let d' := r_dealer r'.

  Let W' : realm_wf r'.
  Proof. destruct (step_wf r o k W I Hk Ho) as [A _]. exact A. Qed.
  Let Wc : calls_core d.
  Proof. apply (wf_calls _ _ (rw_dealer r W)). Qed.
  Let Wc' : calls_core d'.
  Proof. apply (wf_calls _ _ (rw_dealer r' W')). Qed.
  Let K : step13_kind r o out r'.
  Proof. apply (step13 r o k W I Hk Ho G). Qed.
  Let Nd' : nd d'.
  Proof. apply (step_nd r o k W I Hk Ho G (bi_nd _ _ B)). Qed.

  (** no final reply goes to the caller of a record that is there after the step *)
  Lemma no_final_new : forall k1 inv', cget (d_invs d') k1 = Some inv' ->
      forall e, In e new -> ~ is_reply_ev (inv_call inv') true e.
  Proof.
    intros k1 inv' Hi e Hin (m & Em & Rm).
    destruct (step_rok r o k W I Hk Ho (gate_transparent_fresh _ _ G)) as (l & (_ & RB & _ & _) & _).
    destruct (in_step_events _ _ _ Hin) as [E|(m0 & E & Hm0)]; [congruence|].
    assert (m0 = m) by congruence. subst m0.
    apply (RB m _ Hm0 Rm). unfold rrec, drec. destruct (record_pending _ _ _ Wc' Hi) as (Hc & _).
    fold r'. fold d'. congruence.
  Qed.

  (** the caller of a record is an attached client; so is its callee *)
  Lemma record_sessions : forall k1 inv, cget (d_invs d) k1 = Some inv ->
      find_session (r_clients r) (fst k1) <> None /\ find_session (r_clients r) (fst (inv_call inv)) <> None.
  Proof.
    intros k1 inv Hi. pose proof (bi_nometa _ _ B _ _ Hi) as Hm.
    destruct (ca_inv _ _ (wf_calls_att _ _ (rw_dealer r W)) _ _ Hi) as (s0 & Hs0 & _).
    destruct (record_pending _ _ _ Wc Hi) as (Hc & _).
    pose proof (ca_call _ _ (wf_calls_att _ _ (rw_dealer r W)) _ _ Hc) as Ha.
    pose proof (rw_calls_nometa r W _ _ Hc) as Hcm. unfold attached, lookup in *.
    destruct (N.eqb_spec (fst k1) meta_id); [contradiction|].
    destruct (N.eqb_spec (fst (inv_call inv)) meta_id); [contradiction|]. split; [congruence|exact Ha].
  Qed.

  (** the operation is not the final answer of the callee of a record that stays *)
  Lemma no_answer_new : forall k1 inv inv', cget (d_invs d) k1 = Some inv -> cget (d_invs d') k1 = Some inv' ->
      forall e, In e new -> ~ final_answer_ev (fst k1) (snd k1) e.
  Proof.
    intros k1 inv inv' Hi Hi' e Hin Hf. destruct (record_sessions _ _ Hi) as [Hy _].
    destruct (in_step_events _ _ _ Hin) as [E|(m0 & E & _)].
    2:{ destruct Hf as [(? & ? & ? & ? & Hf & _)|(? & ? & ? & ? & ? & Hf)]; congruence. }
    pose proof (step13 r o k W I Hk Ho G) as K0. fold out r' in K0.
    destruct Hf as [(yopts & a & kw & orc & Hf & Hp)|(det & err & a & kw & orc & Hf)]; rewrite Hf in E; inversion E; subst o;
      cbn [step13_kind] in K0; destruct (find_session (r_clients r) (fst k1)); try contradiction; cbn [msg13] in K0.
    - destruct K0 as (_ & _ & _ & _ & Kn). specialize (Kn Hp). fold d' in Kn. rewrite <- surjective_pairing in Kn. congruence.
    - destruct K0 as (_ & _ & _ & _ & Kn). specialize (Kn eq_refl). fold d' in Kn. rewrite <- surjective_pairing in Kn. congruence.
  Qed.

  (** no reasoned INTERRUPT goes to the callee of a record that stays unmarked,
      and its caller does not send a kill-mode CANCEL *)
  Lemma no_cancel_new : forall k1 inv inv', cget (d_invs d) k1 = Some inv -> cget (d_invs d') k1 = Some inv' ->
      inv_call inv' = inv_call inv -> inv_canceled inv' = false ->
      forall e, In e new -> ~ kill_cancel_ev (fst (inv_call inv)) (snd (inv_call inv)) e /\ ~ rintr_ev (fst k1) (snd k1) e.
  Proof.
    intros k1 inv inv' Hi Hi' Ec Hcan e Hin. destruct (record_sessions _ _ Hi) as [_ Hx].
    pose proof (step13 r o k W I Hk Ho G) as K0. fold out r' in K0.
    (* an INTERRUPT for key [k0] built from a record of [d]: it is ours only if [k0 = k1] *)
    assert (Hkey : forall k0 inv0 reason mode reason' mode', cget (d_invs d) k0 = Some inv0 ->
               interrupt_msg k0 inv0 reason mode = (fst k1, RInterrupt (snd k1) [("reason", vuri reason'); ("mode", vstr mode')]) ->
               k0 = k1).
    { intros k0 inv0 re mo re' mo' Hi0 E. unfold interrupt_msg in E. inversion E as [[E1 E2]].
      destruct (cw_inv _ Wc _ _ Hi0) as (_ & Hce). destruct k0, k1. cbn [fst snd] in *. congruence. }
    split.
    - intros (copts & orc & Ee & Hmode). destruct (in_step_events _ _ _ Hin) as [E|(m0 & E & _)]; [|congruence].
      rewrite Ee in E. inversion E; subst o. cbn [step13_kind] in K0.
      destruct (find_session (r_clients r) (fst (inv_call inv))); [|contradiction]. cbn [msg13] in K0.
      destruct K0 as (_ & Km & _). fold d' in Km.
      assert (X : inv_canceled inv' = true).
      { eapply (Km Hmode k1 inv' Hi'). rewrite Ec. apply surjective_pairing. }
      congruence.
    - intros (reason & mode & Ee). destruct (in_step_events _ _ _ Hin) as [E|(m0 & E & Hm0)]; [congruence|].
      assert (Em : m0 = (fst k1, RInterrupt (snd k1) [("reason", vuri reason); ("mode", vstr mode)])) by congruence.
      assert (Hint : is_intr m0 = true) by (rewrite Em; reflexivity).
      assert (Calm : calm r out r' -> False).
      { intros (_ & P & _). destruct (P m0 Hm0) as [X _]. congruence. }
      destruct o as [sid lc h|sid m orc|sid|ms]; cbn [step13_kind] in K0; try (exact (Calm K0)).
      + destruct (find_session (r_clients r) sid); [|exact (Calm K0)].
        destruct m; cbn [msg13] in K0; try (exact (Calm K0)).
        * destruct K0 as [[K0 _]|(y & i & rid & det & Eo & _)]; [exact (Calm K0)|].
          fold out in Hm0. rewrite Eo in Hm0. destruct Hm0 as [<-|[]]. discriminate Hint.
        * destruct K0 as (_ & _ & [(_ & _ & Ki)|(k0 & inv0 & Hi0 & _ & _ & _ & _ & Ed & Eout)]).
          -- destruct (Ki m0 Hm0 Hint) as (k0 & inv0 & Hi0 & _ & _ & _ & _ & Emsg & Hgone).
             rewrite Em in Emsg. fold d in Hi0. symmetry in Emsg. apply (Hkey _ _ _ _ _ _ Hi0) in Emsg. subst k0.
             fold d' in Hgone. congruence.
          -- fold out in Hm0. rewrite Eout in Hm0. destruct Hm0 as [Emsg|[]]. rewrite Em in Emsg. fold d in Hi0.
             apply (Hkey _ _ _ _ _ _ Hi0) in Emsg. subst k0. fold d' in Ed. rewrite Ed, cs_invs, cget_cset_same in Hi'.
             inversion Hi'; subst inv'. discriminate Hcan.
        * destruct K0 as (_ & _ & _ & Ki & _). destruct (Ki m0 Hm0 Hint) as (_ & _ & Emsg). rewrite Em in Emsg. discriminate Emsg.
        * destruct K0 as (_ & _ & Ki & _). rewrite (Ki m0 Hm0) in Hint. discriminate Hint.
      + destruct K0 as (_ & _ & _ & Km). destruct (Km m0 Hm0) as (tid & dl & cid & k0 & inv0 & _ & _ & Hi0 & _ & _ & _ & Hgone & [Emsg|(_ & Emsg)]).
        * rewrite Em in Emsg. discriminate Emsg.
        * rewrite Em in Emsg. fold d in Hi0. symmetry in Emsg. apply (Hkey _ _ _ _ _ _ Hi0) in Emsg. subst k0.
          fold d' in Hgone. congruence.
  Qed.

  (** a record that was there, unchanged *)
  Lemma keep_record : forall k1 inv, cget (d_invs d) k1 = Some inv -> cget (d_invs d') k1 = Some inv ->
      (forall t dl c, inv_timer inv = Some t -> nget (d_timers d') t = Some (dl, c) ->
                      nget (d_timers d) t = Some (dl, c) /\ r_now r' < dl) ->
      opened (tr ++ new) (r_now r') (d_timers d') k1 inv.
  Proof.
    intros k1 inv Hi Hi' Ht. eapply opened_keep.
    - apply (bi_open _ _ B _ _ Hi).
    - apply (no_final_new _ _ Hi').
    - apply (no_answer_new _ _ _ Hi Hi').
    - intros Hc. apply (no_cancel_new _ _ _ Hi Hi' eq_refl Hc).
    - exact Ht.
    - intros Hc t v Hti Htm. pose proof (Nd' _ _ _ Hi' Hc Hti) as Hp.
      destruct (nget (d_timers d') t) as [[dl c]|] eqn:Ev; [|congruence].
      destruct (Ht t dl c Hti Ev) as [X _]. transitivity (nget (d_timers d) t); [symmetry; exact X|exact Htm].
  Qed.

  (** timers that survive a step that does not touch the clock are still in the future *)
  Lemma old_timer_future : forall k1 inv t dl c, cget (d_invs d) k1 = Some inv -> inv_timer inv = Some t ->
      nget (d_timers d) t = Some (dl, c) -> r_now r < dl.
  Proof.
    intros k1 inv t dl c Hi Hti Htm. destruct (bi_open _ _ B _ _ Hi) as (? & ? & ? & ? & ? & ? & ? & ? & _ & _ & Qt & _).
    destruct (Qt t dl c Hti Htm) as [X _]. exact X.
  Qed.

  Lemma evo_step : evo d d' -> r_now r' = r_now r ->
      forall k1 inv, cget (d_invs d') k1 = Some inv -> opened (tr ++ new) (r_now r') (d_timers d') k1 inv.
  Proof.
    intros [E1 E2] En k1 inv Hi'. pose proof (E1 _ _ Hi') as Hi. apply (keep_record _ _ Hi Hi').
    intros t dl c Hti Htm. pose proof (E2 _ _ Htm) as Htm0. split; [exact Htm0|]. rewrite En.
    eapply old_timer_future; eauto.
  Qed.

  Theorem bi_step : bi (tr ++ new) r'.
  Proof.
    pose proof K as K0. unfold out, r' in K0. fold out r' in K0.
    pose proof (step13_now _ _ _ _ K) as Hnow.
    assert (Bnow : r_now r' = clock (tr ++ new)).
    { rewrite clock_app, <- (bi_now _ _ B), Hnow. unfold new. rewrite clock_step_events. reflexivity. }
    assert (EvoCase : evo d d' -> r_now r' = r_now r -> bi (tr ++ new) r').
    { intros E En. constructor; [exact Bnow|exact Nd'| |apply (evo_step E En)].
      intros k1 inv Hi'. apply (bi_nometa _ _ B k1 inv). apply (ev_invs _ _ E). exact Hi'. }
    assert (CalmCase : calm r out r' -> bi (tr ++ new) r').
    { intros (E & _ & En). now apply EvoCase. }
    destruct (step13_kind_cases _ _ _ _ K0) as [K1|[(sid & req & opts & proc & args & kw & orc & Eop & K1)
      |[(sid & req & copts & orc & Eop & K1)|[(sid & i & yopts & a & kw & orc & Eop & K1)
      |[(sid & ty & i & det & err & a & kw & orc & Eop & K1)|(ms & Eop & K1)]]]]]; [exact (CalmCase K1)| | | | |].
    - (* CALL *)
        destruct K1 as [[K1 _]|(y & i & rid & det & Eo & Hym & En & Hy & Kind)]; [exact (CalmCase K1)|].
        fold d d' in Kind.
        assert (Enew : new = [EIn (OMsg sid (CCall req opts proc args kw) orc); EOut (y, RInvocation i rid det args kw)]).
        { unfold new, step_events. rewrite Eop. fold out. rewrite Eo. reflexivity. }
        destruct Kind as [(Hfresh & Hnb & inv1 & Ei & Ec1 & Hcan1 & Eo1 & Ht1)|(inv0 & inv1 & Hi0 & Ec0 & Ei & Ec1 & Hcan1 & Eo1 & Ht1)].
        * (* first chunk *)
          assert (Hi1 : cget (d_invs d') (y, i) = Some inv1) by (rewrite Ei; apply cget_cset_same).
          constructor; [exact Bnow|exact Nd'|fold d d'|fold d d'].
          -- intros k1 inv. rewrite Ei, cget_cset. destruct (pair_eqb_spec k1 (y, i)) as [->|Hn]; [intros _; exact Hym|].
             apply (bi_nometa _ _ B).
          -- intros k1 inv. destruct (pair_eqb_spec k1 (y, i)) as [->|Hn].
             ++ rewrite Hi1. intros X; inversion X; subst inv. clear X.
                exists tr, proc, args, kw, orc, rid, det, []. rewrite Ec1, Eo1. cbn [fst snd].
                split; [rewrite Enew; reflexivity|]. split; [split; [|split]; intros; contradiction|].
                split.
                *** intros t dl c Hti Htm.
                destruct Ht1 as [(Hnone & _)|(t0 & Hti0 & Hfr & Et & Hpos & Hdet)]; [congruence|].
                assert (t = t0) by congruence. subst t0. fold d d' in Et. rewrite Et, nget_nset, N.eqb_refl in Htm.
                inversion Htm; subst dl c. rewrite En. split; [lia|]. split; [exact Hpos|].
                exists [], opts, proc, args, kw, orc, [EOut (y, RInvocation i rid det args kw)].
                split; [reflexivity|]. split; [rewrite app_nil_r, <- (bi_now _ _ B); reflexivity|]. intros _. exact Hdet.
                *** split; [intros Hc; congruence|]. intros _ Hpos Hdet _.
                    destruct Ht1 as [(_ & _ & [Hle|Hne])|(t0 & Hti0 & Hfr & Et & _ & _)]; [lia|contradiction|].
                    exists t0. split; [exact Hti0|]. fold d d' in Et. rewrite Et, nget_nset, N.eqb_refl.
                    rewrite <- (bi_now _ _ B). reflexivity.
             ++ intros Hi'. assert (Hi : cget (d_invs d) k1 = Some inv) by (rewrite Ei, cget_cset_other in Hi' by exact Hn; exact Hi').
                apply (keep_record _ _ Hi Hi'). intros t dl c Hti Htm.
                assert (Hold : nget (d_timers d) t = Some (dl, c)).
                { destruct Ht1 as [(_ & Et & _)|(t0 & Hti0 & Hfr & Et & _)]; fold d d' in Et; rewrite Et in Htm; [exact Htm|].
                  rewrite nget_nset in Htm. destruct (N.eqb_spec t t0) as [->|]; [|exact Htm]. exfalso.
                  apply Hn. eapply (timer_owner_unique d' k1 inv (y, i) inv1 t0); eauto.
                  rewrite Et, nget_nset, N.eqb_refl. reflexivity. }
                split; [exact Hold|]. rewrite En. eapply old_timer_future; eauto.
        * (* further chunk *)
          assert (Hi1 : cget (d_invs d') (y, i) = Some inv1) by (rewrite Ei; apply cget_cset_same).
          constructor; [exact Bnow|exact Nd'|fold d d'|fold d d'].
          -- intros k1 inv. rewrite Ei, cget_cset. destruct (pair_eqb_spec k1 (y, i)) as [->|Hn]; [intros _; exact Hym|].
             apply (bi_nometa _ _ B).
          -- intros k1 inv. destruct (pair_eqb_spec k1 (y, i)) as [->|Hn].
             ++ rewrite Hi1. intros X; inversion X; subst inv. clear X.
                eapply opened_extend.
                ** apply (bi_open _ _ B _ _ Hi0).
                ** congruence.
                ** exact Eo1.
                ** rewrite <- Ec0 in Ec1. rewrite <- Ec1. apply (no_final_new _ _ Hi1).
                ** apply (no_answer_new _ _ _ Hi0 Hi1).
                ** intros Hc. split; [congruence|]. apply (no_cancel_new _ _ _ Hi0 Hi1); congruence.
                ** intros t dl c Hti Htm. rewrite En.
                   destruct Ht1 as [(Et1 & Et)|(t0 & Hti0 & Hpos & Hall)].
                   --- fold d d' in Et. rewrite Et in Htm. rewrite Et1 in Hti. split; [eapply old_timer_future; eauto|]. left. auto.
                   --- assert (t = t0) by congruence. subst t0. fold d d' in Hall.
                       destruct (Hall _ _ Htm) as [(_ & Ev)|(Hne & _)]; [|congruence]. inversion Ev; subst dl c.
                       split; [lia|]. right. split; [exact Hpos|].
                       exists [], opts, proc, args, kw, orc, [EOut (y, RInvocation i rid det args kw)].
                       rewrite Ec0. cbn [fst snd]. split; [exact Enew|]. rewrite app_nil_r, <- (bi_now _ _ B). reflexivity.
                ** intros Hc. left. congruence.
                ** intros _ Hnc. exfalso. apply (Hnc (EIn (OMsg sid (CCall req opts proc args kw) orc))); [rewrite Enew; now left|].
                   rewrite Ec0. exists req, opts, proc, args, kw, orc. auto.
             ++ intros Hi'. assert (Hi : cget (d_invs d) k1 = Some inv) by (rewrite Ei, cget_cset_other in Hi' by exact Hn; exact Hi').
                apply (keep_record _ _ Hi Hi'). intros t dl c Hti Htm.
                assert (Hold : nget (d_timers d) t = Some (dl, c)).
                { destruct Ht1 as [(_ & Et)|(t0 & Hti0 & _ & Hall)]; [fold d d' in Et; rewrite Et in Htm; exact Htm|fold d d' in Hall].
                  destruct (Hall _ _ Htm) as [(-> & _)|(_ & X)]; [|exact X]. exfalso.
                  apply Hn. eapply (timer_owner_unique d' k1 inv (y, i) inv1 t0); eauto. }
                split; [exact Hold|]. rewrite En. eapply old_timer_future; eauto.
    - (* CANCEL *)
        destruct K1 as (En & _ & [(E & _)|(k0 & inv0 & Hi0 & Ec0 & Hcan0 & _ & Hmode & Ed & Eout)]); [now apply EvoCase|].
        fold d d' in Ed, Hi0.
        constructor; [exact Bnow|exact Nd'|fold d d'|fold d d'].
        -- intros k1 inv. rewrite Ed, cs_invs, cget_cset. destruct (pair_eqb_spec k1 k0) as [->|Hn]; [intros _|]; eapply (bi_nometa _ _ B); eauto.
        -- intros k1 inv Hi'. pose proof Hi' as Hi. rewrite Ed, cs_invs, cget_cset in Hi.
           assert (Tsub : forall t v, nget (d_timers d') t = Some v -> nget (d_timers d) t = Some v)
             by (intros t v; rewrite Ed; apply cs_timers_sub).
           destruct (pair_eqb_spec k1 k0) as [->|Hn].
           ++ inversion Hi; subst inv. clear Hi.
              eapply opened_extend.
              ** apply (bi_open _ _ B _ _ Hi0).
              ** reflexivity.
              ** reflexivity.
              ** apply (no_final_new _ _ Hi').
              ** apply (no_answer_new _ _ _ Hi0 Hi').
              ** cbn [inv_canceled inv_set_timer inv_set_canceled]. discriminate.
              ** cbn [inv_timer inv_set_timer]. discriminate.
              ** intros _. right. exists (EIn (OMsg sid (CCancel req copts) orc)).
                 split; [unfold new, step_events; rewrite Eop; now left|].
                 rewrite Ec0. exists copts, orc. auto.
              ** cbn [inv_canceled inv_set_timer inv_set_canceled]. discriminate.
           ++ apply (keep_record _ _ Hi Hi'). intros t dl c Hti Htm. split; [now apply Tsub|].
              rewrite En. eapply old_timer_future; eauto.
    - (* YIELD *) destruct K1 as (E & En & _). now apply EvoCase.
    - (* ERROR *) destruct K1 as (E & En & _). now apply EvoCase.
    - (* tick *)
      destruct K1 as (En & [E1 E2] & Hfut & _).
      constructor; [exact Bnow|exact Nd'|fold d d'|fold d d'].
      + intros k1 inv Hi'. apply (bi_nometa _ _ B k1 inv). apply E1. exact Hi'.
      + intros k1 inv Hi'. pose proof (E1 _ _ Hi') as Hi. apply (keep_record _ _ Hi Hi').
        intros t dl c Hti Htm. split; [now apply E2|]. rewrite En. eapply Hfut; eauto.
  Qed.
End Step.

(** ** Every history *)
Lemma bi_init : forall cfg, k0 cfg <= max_idN -> bi [] (init_realm cfg).
Proof.
  intros cfg Hk. constructor.
  - unfold init_realm. destruct (fold_left _ _ _). reflexivity.
  - now apply nd_init.
  - intros k inv H. rewrite (init_no_invs cfg k Hk) in H. discriminate.
  - intros k inv H. rewrite (init_no_invs cfg k Hk) in H. discriminate.
Qed.

Theorem bi_run : forall ops r k,
    realm_wf r -> ids_below k r -> Forall op_ok ops -> k + N.of_nat (List.length ops) <= max_idN ->
    along gate_transparent r ops -> bi [] r -> bi (trace_from r ops) (fst (run r ops)).
Proof.
  intros ops; induction ops as [|o ops IH] using rev_ind; intros r k W I Ho Hk Hg H0.
  - exact H0.
  - rewrite trace_from_snoc, run_app1. rewrite app_length in Hk. cbn [List.length] in Hk.
    apply Forall_app in Ho. destruct Ho as [Ho1 Ho2]. inversion Ho2; subst.
    apply along_app in Hg. destruct Hg as [Hg1 Hg2]. cbn [along] in Hg2. destruct Hg2 as [Hg2 _].
    destruct (run_wf ops r k W I Ho1) as [W1 I1]; [lia|].
    apply (bi_step _ _ _ (k + N.of_nat (List.length ops)) W1 I1); [lia|assumption|exact Hg2|].
    apply (IH r k); auto. lia.
Qed.

Theorem bi_history : forall cfg ops,
    Forall op_ok ops -> k0 cfg + N.of_nat (List.length ops) <= max_idN ->
    along gate_transparent (init_realm cfg) ops ->
    bi (trace cfg ops) (fst (run (init_realm cfg) ops)).
Proof.
  intros cfg ops Ho Hk Hg. rewrite trace_eq. destruct (init_realm_wf cfg) as [W I]; [lia|].
  apply (bi_run ops (init_realm cfg) (k0 cfg) W I Ho Hk Hg). apply bi_init. lia.
Qed.
