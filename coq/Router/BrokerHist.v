(** * Event history retention (C20): the store of a configured subscription
    holds the last <= limit matching, unrestricted publications, whatever the
    subscribers do. *)
From Nexus Require Import Router.Realm Router.AssocLemmas Router.BrokerWf Router.BrokerPres
     Router.BrokerPublish Router.BrokerSub Router.BrokerRun.
From Coq Require Import Lia ZifyN ZifyBool ZifyNat.

(** ** [lastn] *)
Lemma lastn_all : forall {A} n (l : list A), N.of_nat (List.length l) <= n -> lastn n l = l.
Proof. intros. unfold lastn. replace (List.length l - N.to_nat n)%nat with 0%nat by lia. reflexivity. Qed.

Lemma lastn_length_le : forall {A} n (l : list A), N.of_nat (List.length (lastn n l)) <= n.
Proof. intros. unfold lastn. rewrite skipn_length. lia. Qed.

Lemma lastn_length : forall {A} n (l : list A),
    List.length (lastn n l) = Nat.min (List.length l) (N.to_nat n).
Proof. intros. unfold lastn. rewrite skipn_length. lia. Qed.

Lemma skipn_app_ge : forall {A} (p X : list A) e, skipn (List.length p + e) (p ++ X) = skipn e X.
Proof.
  intros. rewrite skipn_app. rewrite skipn_all2 by lia. cbn [app]. f_equal. lia.
Qed.

Lemma lastn_app_lastn : forall {A} n (l l2 : list A), lastn n (lastn n l ++ l2) = lastn n (l ++ l2).
Proof.
  intros A n l l2. unfold lastn. set (m := N.to_nat n). set (d := (List.length l - m)%nat).
  assert (E : l ++ l2 = firstn d l ++ (skipn d l ++ l2)) by (now rewrite app_assoc, firstn_skipn).
  rewrite !app_length, skipn_length. rewrite E.
  assert (Hf : List.length (firstn d l) = d) by (rewrite firstn_length; unfold d; lia).
  replace (List.length l + List.length l2 - m)%nat
    with (List.length (firstn d l) + (List.length l - d + List.length l2 - m))%nat by (rewrite Hf; unfold d; lia).
  now rewrite skipn_app_ge.
Qed.

Lemma In_lastn : forall {A} n (l : list A) x, In x (lastn n l) -> In x l.
Proof.
  intros A n l x H. unfold lastn in H. rewrite <- (firstn_skipn (List.length l - N.to_nat n) l).
  apply in_app_iff; auto.
Qed.

Lemma lastn_suffix : forall {A} n (l : list A), exists p, l = p ++ lastn n l.
Proof. intros. exists (firstn (List.length l - N.to_nat n) l). unfold lastn. now rewrite firstn_skipn. Qed.

(** ** The ring buffer *)
Lemma hist_push_limit : forall st e, hs_limit (hist_push st e) = hs_limit st.
Proof. reflexivity. Qed.

Lemma hist_push_entries : forall st e, 1 <= hs_limit st ->
    N.of_nat (List.length (hs_entries st)) <= hs_limit st ->
    hs_entries (hist_push st e) = lastn (hs_limit st) (hs_entries st ++ [e]).
Proof.
  intros [lim es] e H1 H2. unfold hist_push. cbn [hs_limit hs_entries] in *.
  destruct (N.leb_spec lim (N.of_nat (List.length es))).
  - destruct es as [|a es]; cbn [List.length] in *; [lia|].
    unfold lastn. rewrite app_length. cbn [List.length tl].
    replace (S (List.length es) + 1 - N.to_nat lim)%nat with 1%nat by lia. reflexivity.
  - rewrite lastn_all; auto. rewrite app_length. cbn [List.length]. lia.
Qed.

Theorem hist_push_length : forall st e, 1 <= hs_limit st ->
    N.of_nat (List.length (hs_entries st)) <= hs_limit st ->
    N.of_nat (List.length (hs_entries (hist_push st e))) <= hs_limit st.
Proof. intros. rewrite hist_push_entries by auto. apply lastn_length_le. Qed.

(** ** What one PUBLISH does to one store *)
Definition restricted (opts : dict) : bool := dhas opts "exclude" || dhas opts "eligible".

Definition hentry_of (now : N) (pub : session) (pubid : N) (opts : dict) (topic : string) (args : list value) (kw : dict)
           (disc : bool) (sst : subscription * bool) : hentry :=
  mkHEntry (sub_id (fst sst)) pubid (event_dict opts topic (snd sst) disc pub None) args kw now.

Lemma pub_event_hist_at : forall lookup now pub pubid opts topic args kw ep disc f b o sst id,
    nget (b_hist (fst (pub_event lookup now pub pubid opts topic args kw ep disc f (b, o) sst))) id =
    if N.eqb (sub_id (fst sst)) id && negb (restricted opts)
    then option_map (fun st => hist_push st (hentry_of now pub pubid opts topic args kw disc sst)) (nget (b_hist b) id)
    else nget (b_hist b) id.
Proof.
  intros. unfold pub_event. destruct sst as [s st]. cbn [fst snd].
  fold (restricted opts). unfold hentry_of. cbn [fst snd].
  destruct (nget (b_hist b) (sub_id s)) as [h|] eqn:E.
  - destruct (restricted opts); cbn [negb].
    + now rewrite andb_false_r.
    + rewrite andb_true_r. autorewrite with bproj. rewrite ngs.
      rewrite (N.eqb_sym id). destruct (N.eqb_spec (sub_id s) id) as [<-|]; auto.
      now rewrite E.
  - destruct (N.eqb_spec (sub_id s) id) as [<-|]; cbn [andb]; auto.
    rewrite E. destruct (negb (restricted opts)); reflexivity.
Qed.

Lemma pub_fold_hist_at : forall lookup now pub pubid opts topic args kw ep disc f l b o id,
    nget (b_hist (fst (fold_left (pub_event lookup now pub pubid opts topic args kw ep disc f) l (b, o)))) id =
    if restricted opts then nget (b_hist b) id
    else option_map (fun st => fold_left hist_push
                        (map (hentry_of now pub pubid opts topic args kw disc)
                             (filter (fun sst => N.eqb (sub_id (fst sst)) id) l)) st)
                    (nget (b_hist b) id).
Proof.
  intros lookup now pub pubid opts topic args kw ep disc f l; induction l as [|a l IH]; intros b o id; cbn [fold_left filter map].
  - cbn [fst]. destruct (restricted opts); auto. destruct (nget (b_hist b) id); reflexivity.
  - pose proof (pub_event_hist_at lookup now pub pubid opts topic args kw ep disc f b o a id) as H1.
    destruct (pub_event lookup now pub pubid opts topic args kw ep disc f (b, o) a) as [b1 o1]. cbn [fst] in H1.
    rewrite IH, H1. destruct (restricted opts); cbn [negb].
    + now rewrite andb_false_r.
    + rewrite andb_true_r. destruct (N.eqb (sub_id (fst a)) id); cbn [map fold_left]; auto.
      destruct (nget (b_hist b) id); reflexivity.
Qed.

Lemma filter_unique_in : forall {A} (p : A -> bool) (l : list A) x,
    NoDup l -> In x l -> p x = true -> (forall y, In y l -> p y = true -> y = x) -> filter p l = [x].
Proof.
  intros A p l x; induction l as [|a l IH]; intros ND HI Hp Hu; [destruct HI|].
  inversion ND as [|? ? Hn ND']; subst. cbn [filter].
  destruct HI as [->|HI].
  - rewrite Hp. f_equal.
    assert (Hnone : forall y, In y l -> p y = false).
    { intros y Hy. destruct (p y) eqn:E; auto. assert (y = x) by (apply Hu; [now right|auto]). subst; contradiction. }
    clear -Hnone. induction l as [|b l IH]; cbn; auto. rewrite Hnone by now left. apply IH. intros; apply Hnone; now right.
  - destruct (p a) eqn:E.
    + assert (a = x) by (apply Hu; [now left|auto]). subst; contradiction.
    + apply IH; auto. intros; apply Hu; auto. now right.
Qed.

Lemma filter_none : forall {A} (p : A -> bool) (l : list A), (forall y, In y l -> p y = false) -> filter p l = [].
Proof.
  intros A p l; induction l as [|a l IH]; intros H; cbn; auto.
  rewrite H by now left. apply IH. intros; apply H; now right.
Qed.

(** the publication is stored iff accepted, matching and unrestricted *)
Definition accepted_b (cfg : config) (pub : session) (opts : dict) (topic : string) : bool :=
  valid_uri (c_strict cfg) "" topic
  && negb (publish_aborts cfg pub opts topic)
  && negb (opt_bool opts "disclose_me" && negb (c_disclose cfg)).

Definition stored_b (cfg : config) (pub : session) (t : string) (k : mkind) (opts : dict) (topic : string) : bool :=
  accepted_b cfg pub opts topic
  && matches_b k t topic
  && negb (restricted opts).

Lemma publish_refused : forall cfg lookup now b pg pub req opts topic args kw,
    accepted_b cfg pub opts topic = false ->
    fst (fst (publish cfg lookup now b pg pub req opts topic args kw)) = b.
Proof.
  intros. unfold publish. unfold accepted_b in H.
  destruct (valid_uri (c_strict cfg) "" topic); cbn [negb andb] in *; auto.
  destruct (publish_aborts cfg pub opts topic); cbn [negb andb] in *; auto.
  destruct (opt_bool opts "disclose_me" && negb (c_disclose cfg)); cbn in *; [auto|discriminate].
Qed.

Lemma pub_accepted_b : forall cfg pub opts topic,
    accepted_b cfg pub opts topic = true <-> pub_accepted cfg pub opts topic.
Proof.
  intros. unfold pub_accepted, accepted_b.
  destruct (valid_uri (c_strict cfg) "" topic); cbn [andb]; [|split; [discriminate|intros [? _]; discriminate]].
  destruct (publish_aborts cfg pub opts topic); cbn [andb negb]; [split; [discriminate|intros (_ & ? & _); discriminate]|].
  destruct (opt_bool opts "disclose_me"); destruct (c_disclose cfg); cbn; split; auto; try discriminate.
  intros (_ & _ & H). discriminate H; auto.
Qed.

Theorem publish_hist_at : forall cfg lookup now b pg pub req opts topic args kw id s0 st,
    broker_wf b -> nget (b_subs b) id = Some s0 -> nget (b_hist b) id = Some st ->
    nget (b_hist (fst (fst (publish cfg lookup now b pg pub req opts topic args kw)))) id =
    Some (if stored_b cfg pub (sub_topic s0) (kind s0) opts topic
          then hist_push st (mkHEntry id (pg + 1)
                               (event_dict opts topic (is_pattern (kind s0)) (opt_bool opts "disclose_me") pub None)
                               args kw now)
          else st).
Proof.
  intros cfg lookup now b pg pub req opts topic args kw id s0 st W Es Eh. unfold stored_b.
  destruct (accepted_b cfg pub opts topic) eqn:Hacc.
  2:{ rewrite publish_refused by auto. cbn [andb]. auto. }
  apply pub_accepted_b in Hacc. rewrite publish_unfold by auto. cbn [fst andb].
  rewrite pub_fold_hist_at, Eh. destruct (restricted opts); cbn [negb]; [now rewrite andb_false_r|].
  rewrite andb_true_r. cbn [option_map]. f_equal.
  pose proof (wf_core b W) as Wc. pose proof (wf_sub_id b Wc _ _ Es) as Hid.
  destruct (matches_b (kind s0) (sub_topic s0) topic) eqn:M.
  - rewrite (filter_unique_in _ _ (s0, is_pattern (kind s0))).
    + cbn [map fold_left]. unfold hentry_of. cbn [fst snd]. now rewrite Hid.
    + now apply matching_subs_NoDup.
    + apply (matching_subs_In b topic Wc). unfold sub_in. rewrite Hid. repeat split; auto. now apply matches_b_spec.
    + cbn [fst]. rewrite Hid. apply N.eqb_refl.
    + intros [s x] Hy Hp. cbn [fst] in Hp. apply N.eqb_eq in Hp.
      eapply matching_subs_same_id; eauto; [|congruence].
      apply (matching_subs_In b topic Wc). unfold sub_in. rewrite Hid. repeat split; auto. now apply matches_b_spec.
  - rewrite filter_none; [reflexivity|].
    intros [s x] Hy. cbn [fst]. destruct (N.eqb_spec (sub_id s) id) as [E|]; auto.
    apply (matching_subs_In b topic Wc) in Hy. destruct Hy as (Hin & Hm & _).
    unfold sub_in in Hin. rewrite E, Es in Hin. inversion Hin; subst s.
    apply matches_b_spec in Hm. congruence.
Qed.

(** ** The other operations leave every store alone and never delete a
       subscription that has one *)
Lemma subscribe_hist : forall cfg b pg sid req opts topic,
    b_hist (fst (fst (subscribe cfg b pg sid req opts topic))) = b_hist b.
Proof.
  intros. unfold subscribe.
  destruct (negb (valid_uri (c_strict cfg) (opt_string opts "match") topic)); auto.
  unfold init_subscription.
  destruct (sget (b_map b (mkind_of (opt_string opts "match"))) topic) as [id|].
  - destruct (nget (b_subs b) id) as [s|]; cbn [andb].
    + destruct (nmem sid (sub_subs s)); reflexivity.
    + reflexivity.
  - cbn [andb]. cbn [fst]. now autorewrite with bproj.
Qed.

Lemma unsubscribe_hist : forall b pg sid req subid,
    b_hist (fst (fst (unsubscribe b pg sid req subid))) = b_hist b.
Proof.
  intros. unfold unsubscribe.
  destruct (nget (b_subs b) subid) as [s|]; auto.
  destruct (negb (nmem sid (sub_subs s))); auto.
  match goal with |- context [if ?d then del_subscription _ _ else _] => destruct d end;
    cbn [fst]; unfold del_subscription; now autorewrite with bproj.
Qed.

Lemma remove_session_hist : forall b pg sid, broker_wf b ->
    b_hist (fst (fst (broker_remove_session b pg sid))) = b_hist b.
Proof.
  intros b pg sid W. unfold broker_remove_session.
  destruct (nget (b_sess b) sid) as [ids|] eqn:Es; auto.
  destruct (fold_left (remove_session_sub sid) ids (b_set_sess b (ndel (b_sess b) sid), pg, [])) as [[b' pg'] o'] eqn:E.
  apply rs_fold in E; [|now apply rs_inv_init]. destruct E as (_ & _ & Hh & _). cbn [fst]. rewrite Hh. reflexivity.
Qed.

Lemma subscribe_sub_sig : forall cfg b pg sid req opts topic id t k,
    broker_wf b -> b_idgen b < max_idN -> sub_sig b id t k ->
    sub_sig (fst (fst (subscribe cfg b pg sid req opts topic))) id t k.
Proof.
  intros cfg b pg sid req opts topic id t k W Hlt (s0 & E0 & Ht0 & Hk0). unfold subscribe.
  destruct (negb (valid_uri (c_strict cfg) (opt_string opts "match") topic)); [exists s0; auto|].
  destruct (init_subscription b topic (opt_string opts "match") (Some sid)) as [[b1 s] ex] eqn:Ei.
  destruct (init_subscription_spec _ _ _ _ _ _ _ (wf_core b W) Hlt Ei)
    as [(-> & -> & Es & Ht & Hk & Hm) | (-> & Hm & Hs & Wc1 & Hse & Hh & Hg & Hget & Hmap)]; cbn [andb].
  - destruct (nmem sid (sub_subs s)); cbn [fst]; [exists s0; auto|].
    unfold sub_sig. autorewrite with bproj. cbn [sub_id]. rewrite ngs.
    destruct (N.eqb_spec id (sub_id s)) as [->|]; [|exists s0; auto].
    rewrite Es in E0; inversion E0; subst s0. eexists; split; [reflexivity|]. auto.
  - cbn [fst]. unfold sub_sig. autorewrite with bproj. rewrite ngs, Hget.
    assert (Hfresh : nget (b_subs b) (b_idgen b + 1) = None)
      by (apply fresh_id_absent; [apply W|lia]).
    subst s. cbn [sub_id]. destruct (N.eqb_spec id (b_idgen b + 1)) as [->|]; [congruence|exists s0; auto].
Qed.

Lemma unsubscribe_sub_sig : forall b pg sid req subid id t k,
    core_wf b -> has_history b id = true -> sub_sig b id t k ->
    sub_sig (fst (fst (unsubscribe b pg sid req subid))) id t k.
Proof.
  intros b pg sid req subid id t k Wc Hh (s0 & E0 & Ht0 & Hk0). unfold unsubscribe.
  destruct (nget (b_subs b) subid) as [s|] eqn:Es; [|exists s0; auto].
  destruct (negb (nmem sid (sub_subs s))); [exists s0; auto|].
  pose proof (wf_sub_id b Wc _ _ Es) as Hid.
  set (s' := mkSub (sub_id s) (sub_topic s) (sub_match s) (nremove sid (sub_subs s))).
  set (del := match sub_subs s' with [] => negb (has_history b subid) | _ => false end).
  assert (Hb : sub_sig (if del then del_subscription b s' else b_set_subs b (nset (b_subs b) subid s')) id t k).
  { destruct del eqn:Ed.
    - unfold sub_sig, del_subscription. autorewrite with bproj. cbn [sub_id s']. rewrite Hid, ngd.
      destruct (N.eqb_spec id subid) as [->|]; [|exists s0; auto].
      unfold del in Ed. rewrite Hh in Ed. destruct (sub_subs s'); discriminate.
    - unfold sub_sig. autorewrite with bproj. rewrite ngs.
      destruct (N.eqb_spec id subid) as [->|]; [|exists s0; auto].
      rewrite Es in E0; inversion E0; subst s0. exists s'; auto. }
  destruct del; cbn [fst]; exact Hb.
Qed.

Lemma rs_step_sub_sig : forall sid b pg o id0 id t k,
    core_wf b -> has_history b id = true -> sub_sig b id t k ->
    sub_sig (fst (fst (remove_session_sub sid (b, pg, o) id0))) id t k.
Proof.
  intros sid b pg o id0 id t k Wc Hh (s0 & E0 & Ht0 & Hk0). unfold remove_session_sub.
  destruct (nget (b_subs b) id0) as [s|] eqn:Es; [|exists s0; auto].
  pose proof (wf_sub_id b Wc _ _ Es) as Hid.
  set (s' := mkSub (sub_id s) (sub_topic s) (sub_match s) (nremove sid (sub_subs s))).
  set (del := match sub_subs s' with [] => negb (has_history b id0) | _ => false end).
  destruct del eqn:Ed; cbn [fst].
  - unfold sub_sig, del_subscription. autorewrite with bproj. cbn [sub_id s']. rewrite Hid, ngd.
    destruct (N.eqb_spec id id0) as [->|]; [|exists s0; auto].
    unfold del in Ed. rewrite Hh in Ed. destruct (sub_subs s'); discriminate.
  - unfold sub_sig. autorewrite with bproj. rewrite ngs.
    destruct (N.eqb_spec id id0) as [->|]; [|exists s0; auto].
    rewrite Es in E0; inversion E0; subst s0. exists s'; auto.
Qed.

Lemma rs_fold_sub_sig : forall sid ids b pg o id t k,
    rs_inv sid b ids -> has_history b id = true -> sub_sig b id t k ->
    sub_sig (fst (fst (fold_left (remove_session_sub sid) ids (b, pg, o)))) id t k.
Proof.
  intros sid ids; induction ids as [|id0 rest IH]; intros b pg o id t k Hinv Hh Hs; cbn [fold_left]; auto.
  pose proof (rs_step_sub_sig sid b pg o id0 id t k (proj1 Hinv) Hh Hs) as H1.
  destruct (remove_session_sub sid (b, pg, o) id0) as [[b1 pg1] o1] eqn:E1. cbn [fst] in H1.
  destruct (rs_step _ _ _ _ _ _ _ _ _ Hinv E1) as (Hinv1 & _ & Hh1 & _).
  apply IH; auto. unfold has_history in *. now rewrite Hh1.
Qed.

Lemma remove_session_sub_sig : forall b pg sid id t k,
    broker_wf b -> has_history b id = true -> sub_sig b id t k ->
    sub_sig (fst (fst (broker_remove_session b pg sid))) id t k.
Proof.
  intros b pg sid id t k W Hh Hs. unfold broker_remove_session.
  destruct (nget (b_sess b) sid) as [ids|] eqn:Es; auto.
  apply rs_fold_sub_sig; auto. now apply rs_inv_init.
Qed.

(** ** The reference list *)
Definition hist_contrib (cfg : config) (id : N) (t : string) (k : mkind) (o : bop) : list hentry :=
  match o with
  | BPublish pg lookup now pub req opts topic args kw =>
      if stored_b cfg pub t k opts topic
      then [mkHEntry id (pg + 1) (event_dict opts topic (is_pattern k) (opt_bool opts "disclose_me") pub None) args kw now]
      else []
  | _ => []
  end.

(** the publications (in order) that matched the subscription and carried
    neither an [exclude] nor an [eligible] option key *)
Definition hist_ref (cfg : config) (id : N) (t : string) (k : mkind) (ops : list bop) : list hentry :=
  flat_map (hist_contrib cfg id t k) ops.

Definition store_ok (st : hstore) : Prop :=
  1 <= hs_limit st /\ N.of_nat (List.length (hs_entries st)) <= hs_limit st.

Lemma bstep_store : forall cfg b o id t k st,
    broker_wf b -> b_idgen b < max_idN -> sub_sig b id t k -> nget (b_hist b) id = Some st -> store_ok st ->
    sub_sig (bnext cfg b o) id t k /\
    nget (b_hist (bnext cfg b o)) id =
    Some (mkHStore (hs_limit st) (lastn (hs_limit st) (hs_entries st ++ hist_contrib cfg id t k o))).
Proof.
  intros cfg b o id t k st W Hlt Hs Eh [Hl1 Hl2].
  assert (Hh : has_history b id = true) by (unfold has_history, amem; unfold nget in Eh; now rewrite Eh).
  assert (Hsame : Some st = Some (mkHStore (hs_limit st) (lastn (hs_limit st) (hs_entries st ++ [])))).
  { rewrite app_nil_r, lastn_all by auto. destruct st; reflexivity. }
  unfold bnext. destruct o; cbn [bstep hist_contrib].
  - split; [now apply subscribe_sub_sig|]. now rewrite subscribe_hist, Eh.
  - split; [apply unsubscribe_sub_sig; auto; apply W|]. now rewrite unsubscribe_hist, Eh.
  - split; [now apply remove_session_sub_sig|]. now rewrite remove_session_hist, Eh.
  - destruct Hs as (s0 & E0 & Ht0 & Hk0). split.
    + destruct (publish cfg lookup now b pg pub req opts topic args kw) as [[b' pg'] o'] eqn:E. cbn [fst].
      apply publish_hist_ext in E; [|apply W]. destruct E as (E & _). rewrite E.
      exists s0. autorewrite with bproj. auto.
    + rewrite (publish_hist_at _ _ _ _ _ _ _ _ _ _ _ _ _ _ W E0 Eh). rewrite Ht0, Hk0.
      destruct (stored_b cfg pub t k opts topic); [|exact Hsame].
      f_equal. rewrite <- hist_push_entries by auto. reflexivity.
Qed.

Theorem store_is_last_N_gen : forall cfg id t k ops b st,
    broker_wf b -> b_idgen b + N.of_nat (List.length ops) <= max_idN ->
    sub_sig b id t k -> nget (b_hist b) id = Some st -> store_ok st ->
    sub_sig (brun cfg b ops) id t k /\
    nget (b_hist (brun cfg b ops)) id =
    Some (mkHStore (hs_limit st) (lastn (hs_limit st) (hs_entries st ++ hist_ref cfg id t k ops))).
Proof.
  intros cfg id t k ops; induction ops as [|o ops IH]; intros b st W Hlt Hs Eh Hok;
    cbn [brun fold_left hist_ref flat_map List.length] in *.
  - split; auto. rewrite app_nil_r, lastn_all by apply Hok. rewrite Eh. destruct st; reflexivity.
  - assert (Hlt1 : b_idgen b < max_idN) by lia.
    destruct (bstep_wf cfg b o W Hlt1) as [W1 Hg1].
    destruct (bstep_store cfg b o id t k st W Hlt1 Hs Eh Hok) as [Hs1 Eh1].
    destruct (IH (bnext cfg b o) _ W1 ltac:(lia) Hs1 Eh1) as [Hs2 Eh2].
    + split; cbn [hs_limit hs_entries]; [apply Hok|apply lastn_length_le].
    + split; auto. unfold brun in Eh2. rewrite Eh2. cbn [hs_limit hs_entries].
      fold (hist_ref cfg id t k ops). now rewrite lastn_app_lastn, app_assoc.
Qed.

(** From an empty store: the entries ARE the last <= limit reference publications. *)
Corollary store_is_last_N : forall cfg id t k ops b st,
    broker_wf b -> b_idgen b + N.of_nat (List.length ops) <= max_idN ->
    sub_sig b id t k -> nget (b_hist b) id = Some st -> hs_entries st = [] -> 1 <= hs_limit st ->
    exists st', nget (b_hist (brun cfg b ops)) id = Some st' /\ hs_limit st' = hs_limit st /\
                hs_entries st' = lastn (hs_limit st) (hist_ref cfg id t k ops) /\
                sub_sig (brun cfg b ops) id t k.
Proof.
  intros cfg id t k ops b st W Hlt Hs Eh He Hl.
  destruct (store_is_last_N_gen cfg id t k ops b st W Hlt Hs Eh) as [Hs' Eh'].
  - split; auto. rewrite He. cbn. lia.
  - rewrite He in Eh'. cbn [app] in Eh'. eexists; split; [exact Eh'|]. auto.
Qed.

(** a publication restricted by [exclude]/[eligible] is never stored *)
Theorem restricted_never_stored : forall cfg id t k ops e,
    In e (hist_ref cfg id t k ops) ->
    exists pg lookup now pub req opts topic args kw,
      In (BPublish pg lookup now pub req opts topic args kw) ops /\
      dhas opts "exclude" = false /\ dhas opts "eligible" = false /\
      pub_accepted cfg pub opts topic /\ matches k t topic /\
      e = mkHEntry id (pg + 1) (event_dict opts topic (is_pattern k) (opt_bool opts "disclose_me") pub None) args kw now.
Proof.
  intros cfg id t k ops e H. unfold hist_ref in H. apply in_flat_map in H. destruct H as (o & Ho & He).
  destruct o; try destruct He. cbn [hist_contrib] in He.
  destruct (stored_b cfg pub t k opts topic) eqn:S; [|destruct He]. destruct He as [<-|[]].
  unfold stored_b in S. apply andb_prop in S. destruct S as [S Hr]. apply andb_prop in S. destruct S as [Hacc Hm].
  apply pub_accepted_b in Hacc. apply matches_b_spec in Hm.
  unfold restricted in Hr. apply negb_true_iff, orb_false_elim in Hr. destruct Hr.
  exists pg, lookup, now, pub, req, opts, topic, args, kw.
  split; [exact Ho|]. split; [assumption|]. split; [assumption|]. split; [exact Hacc|]. split; [exact Hm|reflexivity].
Qed.

(** ** Retention does not depend on who is subscribed *)
Definition is_publish (o : bop) : bool := match o with BPublish _ _ _ _ _ _ _ _ _ => true | _ => false end.

Lemma hist_ref_filter : forall cfg id t k ops,
    hist_ref cfg id t k (filter is_publish ops) = hist_ref cfg id t k ops.
Proof.
  intros. unfold hist_ref. induction ops as [|o ops IH]; cbn [filter flat_map]; auto.
  destruct o; cbn [is_publish flat_map hist_contrib app]; auto. now rewrite IH.
Qed.

Lemma filter_length_le : forall {A} (p : A -> bool) l, (List.length (filter p l) <= List.length l)%nat.
Proof. intros A p l; induction l as [|a l IH]; cbn; [lia|]. destruct (p a); cbn; lia. Qed.

Theorem retention_independent_of_subscribers : forall cfg id t k ops b st,
    broker_wf b -> b_idgen b + N.of_nat (List.length ops) <= max_idN ->
    sub_sig b id t k -> nget (b_hist b) id = Some st -> store_ok st ->
    nget (b_hist (brun cfg b ops)) id = nget (b_hist (brun cfg b (filter is_publish ops))) id /\
    sub_sig (brun cfg b ops) id t k /\ sub_sig (brun cfg b (filter is_publish ops)) id t k.
Proof.
  intros cfg id t k ops b st W Hlt Hs Eh Hok.
  destruct (store_is_last_N_gen cfg id t k ops b st W Hlt Hs Eh Hok) as [Hs1 E1].
  destruct (store_is_last_N_gen cfg id t k (filter is_publish ops) b st W) as [Hs2 E2]; auto.
  { pose proof (filter_length_le is_publish ops). lia. }
  rewrite E1, E2, hist_ref_filter. auto.
Qed.

(** history stores are created only by the pre-initialisation: no operation
    adds or removes a store *)
Theorem bstep_hist_keys : forall cfg b o id, broker_wf b ->
    has_history (bnext cfg b o) id = has_history b id.
Proof.
  intros cfg b o id W. unfold bnext, has_history. destruct o; cbn [bstep].
  - now rewrite subscribe_hist.
  - now rewrite unsubscribe_hist.
  - now rewrite remove_session_hist.
  - destruct (publish cfg lookup now b pg pub req opts topic args kw) as [[b' pg'] o'] eqn:E. cbn [fst].
    apply publish_hist_ext in E; [|apply W]. destruct E as (_ & _ & M). apply M.
Qed.
