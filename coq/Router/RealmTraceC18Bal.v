(** * Histories of the whole model, C18 part 6: the observer of the session
    meta events, realm level, up to the meta session's answer to an INVOCATION.

    [T r]: no stored testament has the topic wamp.session.on_join / on_leave
    (testaments are published by the meta session with the client's topic and
    options when the client goes: a stored forged one would be read by the
    observer as a genuine event).  [base k r]: the reachable-state invariant,
    [inv18] and [T].  [OBS r]: the observer is attached and holds [J] and [L].
    [bal r o]: what the observer reads in the output [o] is the list of
    attachment changes [o] defines from the attached ids of [r].

    - a publication of the meta session on another topic is not read; the
      on_join / on_leave publication is read exactly once;
    - [leave r sid] ([sid] not the observer): read as [(false, sid)] exactly
      when [sid] was attached; the observer's holdings stay;
    - [kill_sessions]: balanced, in order;
    - [meta_call] keeps [T] unless it is add_testament with a forged topic;
    - [run_meta_invocation]: balanced. *)
From Nexus Require Import Router.Realm Router.AssocLemmas Router.RealmLib Router.RealmProofs
     Router.RealmMetaProofs Router.RealmLeave.
From Nexus Require Import Router.BrokerWf Router.BrokerPres Router.BrokerSub Router.BrokerPublish.
From Nexus Require Import Router.DealerLib Router.DealerProofs Router.DealerReg Router.DealerCall Router.DealerWf
     Router.DealerWfCalls.
From Nexus Require Import Router.RealmWf Router.RealmStep Router.RealmC05.
From Nexus Require Import Router.RealmTraceLib Router.RealmTraceC18 Router.RealmTraceC18Att Router.RealmTraceC18Obs.
From Coq Require Import Lia ZifyN ZifyNat ZifyBool.

Definition forging (t : string) : bool := String.eqb t t_on_join || String.eqb t t_on_leave.

Lemma forging_false : forall t, forging t = false -> t <> t_on_join /\ t <> t_on_leave.
Proof.
  intros t H. apply orb_false_iff in H. destruct H as [A B].
  split; [now apply String.eqb_neq|now apply String.eqb_neq].
Qed.

(** no forged testament is stored *)
Definition T (r : realm) : Prop :=
  forall c det des t, nget (r_testaments r) c = Some (det, des) -> In t (det ++ des) -> forging (t_topic t) = false.

Record base (k : N) (r : realm) : Prop := mkBase {
  b_wf : realm_wf r; b_ids : ids_below k r; b_18 : inv18 r; b_T : T r }.

Lemma base_mono : forall k k' r, base k r -> k <= k' -> base k' r.
Proof. intros k k' r [A B C D] H. constructor; auto. eapply ids_below_mono; eauto. Qed.

(** ** Dictionaries: the "session" entry of the details announced by on_join *)
Lemma dget_filter_key : forall (p : string -> bool) (d : dict) k, p k = true ->
    dget (filter (fun '((k', _) : string * value) => p k') d) k = dget d k.
Proof.
  intros p d k Hp. induction d as [|[k' v] d IH]; [reflexivity|]. cbn [filter].
  destruct (p k') eqn:E; cbn.
  - destruct (String.eqb k k'); [reflexivity|exact IH].
  - destruct (String.eqb_spec k k') as [->|_]; [congruence|exact IH].
Qed.

Lemma clean_details_session : forall cfg d, dget (clean_details cfg d) "session" = dget d "session".
Proof.
  intros cfg d. unfold clean_details.
  assert (S : forall d0, dget (strip_transport_auth d0) "session" = dget d0 "session").
  { intros d0. unfold strip_transport_auth. destruct (dget d0 "transport") as [[| | | | |td]|]; try reflexivity.
    destruct (dget td "auth") as [[| | | | |x]|]; try reflexivity. rewrite dget_dset. reflexivity. }
  rewrite S. destruct (c_meta_strict cfg); [|reflexivity].
  apply (dget_filter_key (fun k => smem k std_items)). reflexivity.
Qed.

Lemma join_details_session : forall sid l h, dget (join_details sid l h) "session" = Some (vid sid).
Proof. intros. unfold join_details. rewrite dget_dset. reflexivity. Qed.

Section Balance.
  Variables (z J L : N).
  Local Notation obs := (obs z J L).
  Local Notation OBSb := (OBSb z J L).
  Local Notation sub_read := (sub_read J L).

  Definition OBS (r : realm) : Prop := client r z /\ OBSb (r_broker r).
  Definition bal (r : realm) (o : list out) : Prop := obs o = sess_changes (ids r) (map EOut o).

  Lemma OBSb_JL : forall b, core_wf b -> OBSb b -> J <> L.
  Proof.
    intros b W [(s1 & E1 & T1 & _) (s2 & E2 & T2 & _)] E. subst L. rewrite E1 in E2. inversion E2; subst s2.
    rewrite T1 in T2. discriminate.
  Qed.

  Lemma obs_end : forall x m, is_end m = true -> obs_msg z J L (x, m) = [].
  Proof. intros x m H. destruct m; try discriminate H; reflexivity. Qed.

  (** ** One publication *)
  Lemma publish_obs_other : forall cfg lk now b pg pub req opts topic args kw,
      core_wf b -> OBSb b -> forging topic = false ->
      obs (snd (publish cfg lk now b pg pub req opts topic args kw)) = [].
  Proof.
    intros cfg lk now b pg pub req opts topic args kw W H Hf. destruct (forging_false _ Hf) as [N1 N2].
    unfold publish.
    destruct (negb (valid_uri _ _ _)).
    { cbn [snd]. destruct (opt_bool opts "acknowledge"); [now apply obs_one_noev|reflexivity]. }
    destruct (publish_aborts cfg pub opts topic).
    { cbn [snd]. now apply obs_one_noev. }
    destruct (opt_bool opts "disclose_me" && negb (c_disclose cfg)).
    { cbn [snd]. destruct (opt_bool opts "acknowledge"); [now apply obs_one_noev|reflexivity]. }
    pose proof (pub_event_fold lk now pub (pg + 1) opts topic args kw (matching_subs b topic) b []) as F.
    destruct (fold_left _ (matching_subs b topic) (b, [])) as [b1 o]. cbn [snd] in *. rewrite F. cbn [app].
    rewrite obs_app, obs_pub_none by (apply (no_JL z J L); assumption). cbn [app].
    destruct (opt_bool opts "acknowledge"); [now apply obs_one_noev|reflexivity].
  Qed.

  Lemma publish_obs_one : forall cfg lk now b pg pub req topic args kw S rs,
      core_wf b -> lookup_ok lk -> OBSb b ->
      (S = J /\ topic = t_on_join) \/ (S = L /\ topic = t_on_leave) ->
      lk z = Some rs -> z <> s_id pub ->
      obs (snd (publish cfg lk now b pg pub req [] topic args kw)) = sub_read S args.
  Proof.
    intros cfg lk now b pg pub req topic args kw S rs W LOK H HS Hl Hne.
    rewrite publish_delivers_through_matching.
    - change (opt_bool [] "acknowledge") with false. cbv iota. rewrite app_nil_r.
      apply (obs_pub_one z J L b lk pub (pg + 1) [] topic args kw S rs); auto.
      + destruct H as [A B]. destruct HS as [[-> ->]|[-> ->]]; assumption.
      + intros s st Hin Hs. destruct H as [A B]. destruct HS as [[-> ->]|[-> ->]].
        * split; [exact Hs|]. intros E. pose proof (matching_exact b _ _ _ _ _ _ W B Hin E) as X. discriminate X.
        * split; [|exact Hs]. intros E. pose proof (matching_exact b _ _ _ _ _ _ W A Hin E) as X. discriminate X.
    - destruct HS as [[_ ->]|[_ ->]]; destruct (c_strict cfg); reflexivity.
    - unfold publish_aborts. change (ppt_active []) with false. now rewrite andb_false_r.
    - reflexivity.
  Qed.

  (** what the publications of the meta session need of the realm *)
  Definition lwf (r : realm) : Prop :=
    broker_wf (r_broker r) /\ s_id (r_meta r) = meta_id /\ find_session (r_clients r) meta_id = None.

  Lemma lwf_of_wf : forall r, realm_wf r -> lwf r.
  Proof. intros r W. split; [apply (rw_broker r W)|]. split; [apply (rw_meta_id r W)|apply (rw_no_meta r W)]. Qed.

  Lemma lwf_same : forall r r', lwf r -> r_broker r' = r_broker r -> r_meta r' = r_meta r -> r_clients r' = r_clients r -> lwf r'.
  Proof. intros r r' (A & B & C) E1 E2 E3. unfold lwf. rewrite E1, E2, E3. auto. Qed.

  Lemma meta_publish_lwf : forall r mp, lwf r -> lwf (fst (meta_publish r mp)).
  Proof.
    intros r mp (A & B & C). destruct (meta_publish_frame r mp) as (_ & Fc & Fm & _).
    unfold lwf. rewrite Fc, Fm. split; [|auto]. unfold meta_publish.
    destruct (publish _ _ _ _ _ _ _ _ _ _ _) as [[b pg] o] eqn:E. cbn [fst r_broker r_set_broker].
    eapply publish_wf; eauto.
  Qed.

  (** ** Publications of the meta session *)
  Lemma OBS_lookup : forall r, lwf r -> OBS r ->
      exists rs, lookup r z = Some rs /\ z <> meta_id.
  Proof.
    intros r (_ & _ & Wn) [C _]. unfold client in C. destruct (find_session (r_clients r) z) as [rs|] eqn:F; [|contradiction].
    assert (Hz : z <> meta_id) by (intros ->; rewrite Wn in F; discriminate).
    exists rs. split; [|exact Hz]. unfold lookup. destruct (N.eqb_spec z meta_id); [contradiction|exact F].
  Qed.

  Lemma meta_publish_OBS : forall r mp, lwf r -> OBS r -> OBS (fst (meta_publish r mp)).
  Proof.
    intros r mp (W & Wm & Wn) [C B]. destruct (meta_publish_frame r mp) as (_ & Fc & _).
    split; [unfold client; rewrite Fc; exact C|].
    unfold meta_publish.
    pose proof (OBSb_publish z J L (r_cfg r) (lookup r) (r_now r) (r_broker r) (r_pubgen r) (r_meta r) 0
                             (mp_opts mp) (mp_topic mp) (mp_args mp) (mp_kw mp) (wf_core _ W) B) as P.
    destruct (publish _ _ _ _ _ _ _ _ _ _ _) as [[b pg] o]. exact P.
  Qed.

  Lemma meta_publish_obs_other : forall r mp, lwf r -> OBS r -> forging (mp_topic mp) = false ->
      obs (snd (meta_publish r mp)) = [].
  Proof.
    intros r mp (W & Wm & Wn) [C B] Hf. unfold meta_publish.
    pose proof (publish_obs_other (r_cfg r) (lookup r) (r_now r) (r_broker r) (r_pubgen r) (r_meta r) 0
                                  (mp_opts mp) (mp_topic mp) (mp_args mp) (mp_kw mp) (wf_core _ W) B Hf) as P.
    destruct (publish _ _ _ _ _ _ _ _ _ _ _) as [[b pg] o]. exact P.
  Qed.

  Lemma meta_publish_obs_one : forall r topic args S, lwf r -> OBS r ->
      (S = J /\ topic = t_on_join) \/ (S = L /\ topic = t_on_leave) ->
      obs (snd (meta_publish r (mkMetaPub topic args [] []))) = sub_read S args.
  Proof.
    intros r topic args S W O HS. destruct (OBS_lookup r W O) as (rs & Hl & Hz). destruct O as [C B].
    destruct W as (W & Wm & Wn).
    unfold meta_publish. cbn [mp_opts mp_topic mp_args mp_kw].
    pose proof (publish_obs_one (r_cfg r) (lookup r) (r_now r) (r_broker r) (r_pubgen r) (r_meta r) 0 topic args [] S rs
                                (wf_core _ W) (lookup_ok_realm r Wm) B HS Hl) as P.
    rewrite Wm in P. specialize (P Hz).
    destruct (publish _ _ _ _ _ _ _ _ _ _ _) as [[b pg] o]. exact P.
  Qed.

  Lemma meta_publish_all_other : forall mps r, lwf r -> OBS r ->
      (forall mp, In mp mps -> forging (mp_topic mp) = false) ->
      lwf (fst (meta_publish_all r mps)) /\ OBS (fst (meta_publish_all r mps)) /\ obs (snd (meta_publish_all r mps)) = [].
  Proof.
    induction mps as [|mp mps IH]; intros r W O H; [rewrite meta_publish_all_nil; auto|].
    rewrite meta_publish_all_cons.
    pose proof (meta_publish_OBS r mp W O) as O1.
    pose proof (meta_publish_obs_other r mp W O (H mp (or_introl eq_refl))) as E1.
    pose proof (meta_publish_lwf r mp W) as W1.
    destruct (meta_publish r mp) as [r1 o1]. cbn [fst snd] in *.
    destruct (IH r1 W1 O1 (fun m Hm => H m (or_intror Hm))) as (W2 & O2 & E2).
    destruct (meta_publish_all r1 mps) as [r2 o2]. cbn [fst snd] in *.
    split; [exact W2|]. split; [exact O2|]. now rewrite obs_app, E1, E2.
  Qed.

  Lemma meta_publish_all_one : forall r mp, meta_publish_all r [mp] = meta_publish r mp.
  Proof.
    intros. rewrite meta_publish_all_cons. destruct (meta_publish r mp) as [r1 o1].
    rewrite meta_publish_all_nil. now rewrite app_nil_r.
  Qed.

  (** ** Departure *)
  Lemma T_ndel : forall r r' sid, T r -> r_testaments r' = ndel (r_testaments r) sid -> T r'.
  Proof.
    intros r r' sid H E c det des t. rewrite E, ngd. destruct (N.eqb c sid); [discriminate|apply H].
  Qed.

  Lemma T_same : forall r r', T r -> r_testaments r' = r_testaments r -> T r'.
  Proof. intros r r' H E c det des t. rewrite E. apply H. Qed.

  Lemma leave_base : forall r sid k, base k r -> base k (fst (leave r sid)).
  Proof.
    intros r sid k [W I I8 HT]. destruct (leave_wf r sid k W I) as (W1 & I1 & _).
    destruct (leave_props r sid I8) as (I81 & _).
    constructor; auto. destruct (leave_frame r sid) as (_ & _ & _ & Ft & _).
    destruct (find_session (r_clients r) sid); [eapply T_ndel; eauto|eapply T_same; eauto].
  Qed.

  Lemma reg_leave_events_topics : forall sid l mp, In mp (reg_leave_events sid l) -> forging (mp_topic mp) = false.
  Proof.
    intros sid l mp H. unfold reg_leave_events in H. apply in_flat_map in H. destruct H as ([id del] & _ & H).
    destruct H as [<-|H]; [reflexivity|]. destruct del; [destruct H as [<-|[]]; reflexivity|destruct H].
  Qed.

  Lemma testament_pubs_topics : forall r sid mp, T r -> In mp (testament_pubs r sid) -> forging (mp_topic mp) = false.
  Proof.
    intros r sid mp HT H. unfold testament_pubs in H.
    destruct (nget (r_testaments r) sid) as [[det des]|] eqn:E; [|destruct H].
    unfold test_pubs in H. rewrite <- map_app in H. apply in_map_iff in H. destruct H as (t & <- & Hin).
    cbn [mp_topic]. eapply HT; eauto.
  Qed.

  Theorem leave_obs : forall r sid k, base k r -> OBS r -> sid <> z ->
      OBS (fst (leave r sid)) /\
      obs (snd (leave r sid)) = if find_session (r_clients r) sid then [(false, sid)] else [].
  Proof.
    intros r sid k [W I I8 HT] O Hn.
    destruct (find_session (r_clients r) sid) as [s|] eqn:F; [|rewrite (leave_absent r sid F); auto].
    assert (C : client r sid) by (unfold client; congruence).
    destruct (leave_core_reg_events r sid) as (lre & Elre).
    rewrite (leave_event_order r sid s F).
    pose proof (leave_core_wf r sid k W I C) as Lw. cbv zeta in Lw.
    (* the direct outputs of the dealer and of the broker *)
    assert (G : OBS (fst (fst (leave_core r sid))) /\ obs (snd (fst (leave_core r sid))) = []).
    { unfold leave_core.
      set (r2 := r_set_testaments (r_set_clients r (del_session (r_clients r) sid))
                                  (ndel (r_testaments (r_set_clients r (del_session (r_clients r) sid))) sid)).
      change (r_dealer r2) with (r_dealer r).
      pose proof (dealer_remove_session_noev (lookup r2) (r_dealer r) sid) as N1.
      destruct (dealer_remove_session (lookup r2) (r_dealer r) sid) as [[d o1] mps]. cbn [fst snd] in N1.
      change (r_broker (r_set_dealer r2 d)) with (r_broker r). change (r_pubgen (r_set_dealer r2 d)) with (r_pubgen r).
      destruct O as [Cz Bz].
      pose proof (OBSb_remove z J L (r_broker r) (r_pubgen r) sid (rw_broker r W) Hn Bz) as B1.
      pose proof (remove_obs z J L (r_broker r) (r_pubgen r) sid (rw_broker r W) Hn Bz) as E2.
      destruct (broker_remove_session (r_broker r) (r_pubgen r) sid) as [[b pg] o2]. cbn [fst snd] in *.
      split.
      - split; [|exact B1]. unfold client. cbn [r_clients r_set_broker r_set_dealer r2 r_set_testaments r_set_clients].
        rewrite find_del_other by (apply not_eq_sym; exact Hn). exact Cz.
      - rewrite obs_app, (noev_obs z J L o1 N1), E2. reflexivity. }
    destruct (leave_core r sid) as [[r4 o12] mps]. cbn [fst snd] in *. destruct Lw as (W4 & I4 & _). destruct G as [O4 E12].
    subst mps.
    rewrite app_assoc, meta_publish_all_app.
    destruct (meta_publish_all_other (reg_leave_events sid lre ++ testament_pubs r sid) r4 (lwf_of_wf r4 W4) O4) as (W5 & O5 & E5).
    { intros mp Hin. apply in_app_or in Hin. destruct Hin; [eapply reg_leave_events_topics; eauto|eapply testament_pubs_topics; eauto]. }
    destruct (meta_publish_all r4 _) as [r5 o5]. cbn [fst snd] in *.
    rewrite meta_publish_all_one.
    pose proof (meta_publish_OBS r5 (on_leave_pub s) W5 O5) as O6.
    pose proof (meta_publish_obs_one r5 t_on_leave [vid (s_id s); opt_val (s_details s) "authid"; opt_val (s_details s) "authrole"] L
                                     W5 O5 (or_intror (conj eq_refl eq_refl))) as E6.
    change (mkMetaPub t_on_leave _ [] []) with (on_leave_pub s) in E6.
    destruct (meta_publish r5 (on_leave_pub s)) as [r6 o6]. cbn [fst snd] in *.
    split; [exact O6|]. rewrite !obs_app, E12, E5, E6. cbn [app].
    unfold RealmTraceC18Obs.sub_read. rewrite N.eqb_refl.
    destruct (N.eqb_spec L J) as [E|_]; [exfalso; destruct O5 as [_ B5]; exact (OBSb_JL _ (wf_core _ (proj1 W5)) B5 (eq_sym E))|].
    cbn [lread]. rewrite (find_session_id _ _ _ F).
    rewrite as_id_vid_ok; [reflexivity|]. rewrite <- (find_session_id _ _ _ F). apply (rw_ids r W). eapply find_session_In; eauto.
  Qed.

  (** ** The algebra of one end *)
  Lemma bal_end : forall A o0 sid m o1 rest,
      ~ In meta_id A -> noend o0 -> obs o0 = [] -> is_end m = true -> noend o1 ->
      obs o1 = (if nmem sid A then [(false, sid)] else []) ->
      obs rest = sess_changes (nremove sid A) (map EOut rest) ->
      obs (o0 ++ (sid, m) :: o1 ++ rest) = sess_changes A (map EOut (o0 ++ (sid, m) :: o1 ++ rest)).
  Proof.
    intros A o0 sid m o1 rest H Q0 E0 Em Q1 E1 Er.
    assert (H' : ~ In meta_id (nremove sid A)) by (intros Hin; apply In_nremove in Hin; tauto).
    rewrite obs_app, E0. cbn [app]. change ((sid, m) :: o1 ++ rest) with ([(sid, m)] ++ o1 ++ rest).
    rewrite !obs_app. cbn [RealmTraceC18Obs.obs flat_map]. rewrite (obs_end sid m Em), E1, Er. cbn [app].
    rewrite map_app, sess_changes_app, (sess_changes_noend o0 A H Q0), (att_noend o0 A H Q0). cbn [app map sess_changes].
    rewrite change_step_out, att_step_out, Em, map_app, sess_changes_app, (sess_changes_noend o1 _ H' Q1), (att_noend o1 _ H' Q1).
    reflexivity.
  Qed.

  Lemma bal_quiet : forall r o, inv18 r -> noend o -> obs o = [] -> bal r o.
  Proof. intros r o I Q E. unfold bal. rewrite E. symmetry. apply sess_changes_noend; [exact (i_nometa r I)|exact Q]. Qed.

  Lemma bal_seq : forall r o1 r1 o2, bal r o1 -> ids r1 = att (ids r) (map EOut o1) -> bal r1 o2 -> bal r (o1 ++ o2).
  Proof. intros r o1 r1 o2 B1 E B2. unfold bal in *. rewrite obs_app, map_app, sess_changes_app, B1, <- E, B2. reflexivity. Qed.

  (** ** Kills: GOODBYE to each victim, then its departure — balanced in order *)
  Lemma kill_base : forall sids r g k, base k r -> base k (fst (kill_sessions r sids g)).
  Proof.
    induction sids as [|sid sids IH]; intros r g k B; [exact B|].
    rewrite kill_sessions_cons. pose proof (leave_base r sid k B) as B1.
    destruct (leave r sid) as [r1 o1]. cbn [fst] in B1. specialize (IH r1 g k B1).
    destruct (kill_sessions r1 sids g) as [r2 o2]. exact IH.
  Qed.

  Lemma kill_bal : forall sids r g k, base k r -> is_end g = true -> OBS r -> ~ In z sids ->
      OBS (fst (kill_sessions r sids g)) /\ bal r (snd (kill_sessions r sids g)).
  Proof.
    induction sids as [|sid sids IH]; intros r g k B Hg O Hz.
    { rewrite kill_sessions_nil. split; [exact O|reflexivity]. }
    rewrite kill_sessions_cons.
    assert (Hn : sid <> z) by (intros ->; apply Hz; now left).
    pose proof (leave_base r sid k B) as B1.
    destruct (leave_obs r sid k B O Hn) as [O1 E1].
    destruct (leave_props r sid (b_18 k r B)) as (_ & _ & J1 & N1).
    destruct (leave r sid) as [r1 o1]. cbn [fst snd] in *.
    destruct (IH r1 g k B1 Hg O1 (fun H => Hz (or_intror H))) as [O2 E2].
    destruct (kill_sessions r1 sids g) as [r2 o2]. cbn [fst snd] in *.
    split; [exact O2|]. unfold bal in *.
    apply (bal_end (ids r) [] sid g o1 o2 (i_nometa r (b_18 k r B)) noend_nil eq_refl Hg N1).
    - rewrite E1. unfold ids. rewrite nmem_ids. destruct (find_session (r_clients r) sid); reflexivity.
    - rewrite <- J1. exact E2.
  Qed.

  (** ** The meta procedures and the stored testaments *)
  Lemma meta_call_testaments : forall r proc det args kw orc c det' des' t,
      nget (r_testaments (realm_of (meta_call r proc det args kw orc))) c = Some (det', des') -> In t (det' ++ des') ->
      (exists d0 e0, nget (r_testaments r) c = Some (d0, e0) /\ In t (d0 ++ e0)) \/
      (proc = "wamp.session.add_testament" /\ exists a0, arg0 args = Some a0 /\ as_string a0 = Some (t_topic t)).
  Proof.
    intros r proc det args kw orc c det' des' t.
    destruct (String.eqb_spec proc "wamp.session.add_testament") as [->|Hna].
    { rewrite meta_add_testament. unfold realm_of.
      destruct (match dget det "caller" with Some v => as_id v | None => None end) as [c0|]; [|left; eauto].
      destruct (arg0 args) as [a0|]; [|left; eauto]. destruct (arg1 args) as [a1|]; [|left; eauto].
      destruct (arg2 args) as [a2|]; [|left; eauto].
      destruct (as_string a0) as [topic|] eqn:Ea; [|left; eauto].
      destruct (as_list a1) as [targs|]; [|left; eauto]. destruct (as_dict a2) as [tkw|]; [|left; eauto].
      cbv zeta. destruct (negb _); [left; eauto|].
      destruct (match nget (r_testaments r) c0 with Some p => p | None => ([], []) end) as [d0 e0] eqn:Eb.
      cbn [fst r_testaments r_set_testaments]. rewrite ngs.
      destruct (N.eqb_spec c c0) as [->|Hc]; [|left; eauto].
      assert (Old : forall x, In x (d0 ++ e0) -> exists d1 e1, nget (r_testaments r) c0 = Some (d1, e1) /\ In x (d1 ++ e1)).
      { intros x Hx. destruct (nget (r_testaments r) c0) as [[d1 e1]|]; inversion Eb; subst; [eauto|destruct Hx]. }
      intros H Hin. destruct (String.eqb (scope_of kw) "destroyed"); inversion H; subst; clear H.
      - rewrite app_assoc in Hin. apply in_app_or in Hin. destruct Hin as [Hin|[<-|[]]]; [left; auto|].
        right. split; [reflexivity|]. exists a0. cbn [t_topic]. auto.
      - rewrite <- app_assoc in Hin. apply in_app_or in Hin. destruct Hin as [Hin|Hin].
        + left. apply Old. apply in_or_app. now left.
        + cbn [app] in Hin. destruct Hin as [<-|Hin]; [|left; apply Old; apply in_or_app; now right].
          right. split; [reflexivity|]. exists a0. cbn [t_topic]. auto. }
    destruct (String.eqb_spec proc "wamp.session.flush_testaments") as [->|Hnf].
    { rewrite meta_flush_testaments. unfold realm_of.
      destruct (match dget det "caller" with Some v => as_id v | None => None end) as [c0|]; [|left; eauto].
      cbv zeta. destruct (negb _); [left; eauto|].
      destruct (nget (r_testaments r) c0) as [[d0 e0]|] eqn:Eb; [|left; eauto].
      destruct (String.eqb (scope_of kw) "destroyed").
      - destruct d0 as [|x d0]; cbn [fst r_testaments r_set_testaments]; rewrite ?ngd, ?ngs;
          (destruct (N.eqb_spec c c0) as [->|Hc]; [|left; eauto]); try discriminate.
        intros H Hin; inversion H; subst. left. exists (x :: d0), e0. split; [exact Eb|]. rewrite app_nil_r in Hin.
        apply in_or_app. now left.
      - destruct e0 as [|x e0]; cbn [fst r_testaments r_set_testaments]; rewrite ?ngd, ?ngs;
          (destruct (N.eqb_spec c c0) as [->|Hc]; [|left; eauto]); try discriminate.
        intros H Hin; inversion H; subst. left. exists d0, (x :: e0). split; [exact Eb|]. cbn [app] in Hin.
        apply in_or_app. now right. }
    (* every other procedure leaves the testaments alone *)
    assert (E : r_testaments (realm_of (meta_call r proc det args kw orc)) = r_testaments r).
    { apply String.eqb_neq in Hna. apply String.eqb_neq in Hnf.
      unfold meta_call, realm_of. rewrite Hna, Hnf. brk; cbn [fst]; try reflexivity.
      apply update_session_frame. }
    rewrite E. left. eauto.
  Qed.

  Lemma meta_call_T : forall r proc det args kw orc, T r ->
      (proc = "wamp.session.add_testament" -> forall a0 t, arg0 args = Some a0 -> as_string a0 = Some t -> forging t = false) ->
      T (realm_of (meta_call r proc det args kw orc)).
  Proof.
    intros r proc det args kw orc HT Hf c det' des' t Hg Hin.
    destruct (meta_call_testaments r proc det args kw orc c det' des' t Hg Hin) as [(d0 & e0 & E & Hi)|(Ep & a0 & Ea & Es)].
    - eapply HT; eauto.
    - eapply Hf; eauto.
  Qed.

  Lemma meta_call_OBS : forall r proc det args kw orc, OBS r -> OBS (realm_of (meta_call r proc det args kw orc)).
  Proof.
    intros r proc det args kw orc [C B].
    destruct (meta_call_cases r proc det args kw orc) as [E|[(sid & s & dd & F & Hm & E)|(c & p & Ec & [E|E])]];
      cbv zeta in E; rewrite E; try (split; assumption).
    split; [now apply client_update|]. destruct (update_session_frame r (set_details s dd)) as (_ & _ & -> & _). exact B.
  Qed.
End Balance.
