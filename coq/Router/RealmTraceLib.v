(** * Histories of the whole model, part 1: the generic machinery.

    - the event trace of a run ([trace]: every operation followed by the
      messages the router sent while handling it), and its recursive form;
    - [along]: a predicate holds of (state before the step, operation) at every
      step of a history;
    - the reply monitor [mon_run] of one call id (caller session, request id):
      a two-state automaton ([true] = a CALL with that id has been sent and not
      yet finally answered); it fails exactly when a RESULT / ERROR(CALL) for
      that id is sent while it is shut;
    - the two readable consequences of "the monitor never fails"
      ([mon_owned], [mon_unique]);
    - [ok4]: the four per-step facts of [DealerTrace.step_ok] about a set of
      recorded calls before/after, closed under sequential composition;
    - [mon_outs]: a step with [ok4] moves the monitor without failure.
    No model-specific reasoning here. *)
From Nexus Require Import Router.Realm Router.DealerLib Router.DealerReply Router.DealerOwned Router.DealerTrace.
From Coq Require Import Lia.

(** ** Events and traces *)
Inductive event :=
| EIn (o : op)          (* an operation arrives *)
| EOut (m : out).       (* the router sends message [snd m] to session [fst m] *)

Definition step_events (o : op) (out1 : list out) : list event := EIn o :: map EOut out1.

Definition events (ops : list op) (outs : list (list out)) : list event :=
  flat_map (fun p => step_events (fst p) (snd p)) (combine ops outs).

(** the history of a realm created with [cfg] and driven by [ops] *)
Definition trace (cfg : config) (ops : list op) : list event :=
  events ops (snd (run (init_realm cfg) ops)).

Fixpoint trace_from (r : realm) (ops : list op) : list event :=
  match ops with
  | [] => []
  | o :: rest => step_events o (snd (step r o)) ++ trace_from (fst (step r o)) rest
  end.

Definition run_f := fun '((r, acc) : realm * list (list out)) o => let '(r1, out1) := step r o in (r1, acc ++ [out1]).

Lemma run_acc : forall ops r acc,
    fold_left run_f ops (r, acc) =
    (fst (fold_left run_f ops (r, [])), acc ++ snd (fold_left run_f ops (r, []))).
Proof.
  induction ops as [|o ops IH]; intros r acc; cbn [fold_left].
  - cbn. now rewrite app_nil_r.
  - unfold run_f at 2 4 6. destruct (step r o) as [r1 o1]. rewrite IH. rewrite (IH r1 ([] ++ [o1])).
    cbn [fst snd app]. now rewrite <- app_assoc.
Qed.

Lemma run_cons : forall r o ops,
    run r (o :: ops) = (fst (run (fst (step r o)) ops), snd (step r o) :: snd (run (fst (step r o)) ops)).
Proof.
  intros r o ops. unfold run. change (fun '(r0, acc) o0 => let '(r1, out1) := step r0 o0 in (r1, acc ++ [out1])) with run_f.
  cbn [fold_left]. unfold run_f at 2. destruct (step r o) as [r1 o1]. cbn [fst snd app]. now rewrite run_acc.
Qed.

Lemma run_nil : forall r, run r [] = (r, []).
Proof. reflexivity. Qed.

Lemma trace_from_eq : forall ops r, events ops (snd (run r ops)) = trace_from r ops.
Proof.
  induction ops as [|o ops IH]; intros r; [reflexivity|].
  rewrite run_cons. cbn [snd]. unfold events. cbn [combine flat_map fst snd trace_from].
  f_equal. apply IH.
Qed.

Lemma trace_eq : forall cfg ops, trace cfg ops = trace_from (init_realm cfg) ops.
Proof. intros. apply trace_from_eq. Qed.

Lemma run_length : forall ops r, List.length (snd (run r ops)) = List.length ops.
Proof.
  induction ops as [|o ops IH]; intros r; [reflexivity|]. rewrite run_cons. cbn [snd List.length]. now rewrite IH.
Qed.

(** [P] holds of (state before the step, operation) at every step *)
Fixpoint along (P : realm -> op -> Prop) (r : realm) (ops : list op) : Prop :=
  match ops with
  | [] => True
  | o :: rest => P r o /\ along P (fst (step r o)) rest
  end.

Lemma along_impl : forall (P Q : realm -> op -> Prop) ops r,
    (forall r o, P r o -> Q r o) -> along P r ops -> along Q r ops.
Proof. induction ops as [|o ops IH]; intros r H A; cbn in *; [exact I|]. destruct A; split; auto. Qed.

(** ** The reply monitor of one call id *)
Definition is_call_op (c : callid) (o : op) : bool :=
  match o with
  | OMsg sid (CCall q _ _ _ _) _ => pair_eqb (sid, q) c
  | _ => false
  end.

Definition mon_step (c : callid) (st : bool) (e : event) : option bool :=
  match e with
  | EIn o => Some (is_call_op c o || st)
  | EOut m =>
      match reply_of m with
      | Some (c', fin) => if pair_eqb c' c then (if st then Some (negb fin) else None) else Some st
      | None => Some st
      end
  end.

Fixpoint mon_run (c : callid) (st : bool) (tr : list event) : option bool :=
  match tr with
  | [] => Some st
  | e :: rest => match mon_step c st e with Some st' => mon_run c st' rest | None => None end
  end.

Lemma mon_app : forall c a b st,
    mon_run c st (a ++ b) = match mon_run c st a with Some st' => mon_run c st' b | None => None end.
Proof.
  induction a as [|e a IH]; intros b st; cbn [app mon_run]; [reflexivity|].
  destruct (mon_step c st e); [apply IH|reflexivity].
Qed.

(** event predicates used in the readable statements *)
Definition is_call_ev (c : callid) (e : event) : Prop :=
  exists q opts proc args kw oracle, e = EIn (OMsg (fst c) (CCall q opts proc args kw) oracle) /\ q = snd c.
Definition is_reply_ev (c : callid) (fin : bool) (e : event) : Prop :=
  exists m, e = EOut m /\ reply_of m = Some (c, fin).

Lemma is_call_op_ev : forall c o, is_call_op c o = true -> is_call_ev c (EIn o).
Proof.
  intros c o H. destruct o as [| sid m oracle | |]; try discriminate. destruct m; try discriminate.
  cbn in H. destruct (pair_eqb_spec (sid, req) c) as [<-|]; [|discriminate].
  exists req, opts, proc, args, kw, oracle. split; reflexivity.
Qed.

(** a reply arrives while the monitor is open, or a CALL precedes it *)
Lemma mon_reply_needs_call : forall c fin e post pre st,
    mon_run c st (pre ++ e :: post) <> None -> is_reply_ev c fin e ->
    st = true \/ exists e0, In e0 pre /\ is_call_ev c e0.
Proof.
  intros c fin e post. induction pre as [|a pre IH]; intros st H R.
  - destruct R as (m & -> & R). cbn [app mon_run mon_step] in H. rewrite R, pair_eqb_refl in H.
    destruct st; [now left|exfalso; apply H; reflexivity].
  - cbn [app mon_run] in H. destruct (mon_step c st a) as [st'|] eqn:E; [|exfalso; apply H; reflexivity].
    destruct (IH st' H R) as [->|(e0 & Hin & Hc)]; [|right; exists e0; split; [now right|exact Hc]].
    destruct a as [o|m]; cbn [mon_step] in E.
    + injection E as E'. apply orb_true_iff in E'. destruct E' as [E'|E']; [|now left].
      right. exists (EIn o). split; [now left|now apply is_call_op_ev].
    + destruct (reply_of m) as [[c' f]|]; [|inversion E; now left].
      destruct (pair_eqb c' c); [|inversion E; now left].
      destruct st; [now left|discriminate].
Qed.

(** every RESULT / ERROR(CALL) is preceded by a CALL with its id from its receiver *)
Theorem mon_owned : forall c pre e post fin,
    mon_run c false (pre ++ e :: post) <> None -> is_reply_ev c fin e ->
    exists e0, In e0 pre /\ is_call_ev c e0.
Proof.
  intros c pre e post fin H R. destruct (mon_reply_needs_call c fin e post pre false H R) as [E|E]; [discriminate|exact E].
Qed.

(** after a final reply, a further reply needs a new CALL in between *)
Theorem mon_unique : forall c pre e1 mid e2 post fin,
    mon_run c false (pre ++ e1 :: mid ++ e2 :: post) <> None ->
    is_reply_ev c true e1 -> is_reply_ev c fin e2 ->
    exists e0, In e0 mid /\ is_call_ev c e0.
Proof.
  intros c pre e1 mid e2 post fin H R1 R2. rewrite mon_app in H.
  destruct (mon_run c false pre) as [st|]; [|exfalso; apply H; reflexivity].
  destruct R1 as (m1 & -> & R1). cbn [mon_run mon_step] in H. rewrite R1, pair_eqb_refl in H.
  destruct st; [|exfalso; apply H; reflexivity]. cbn [negb] in H.
  destruct (mon_reply_needs_call c fin e2 post mid false H R2) as [E|E]; [discriminate|exact E].
Qed.

(** ** The four per-step facts, on sets of recorded calls *)
Definition ok4 (C : callid -> Prop) (l : option callid) (o : list out) (C' : callid -> Prop) : Prop :=
  (forall m cid, In m o -> replies_to cid m -> C cid \/ l = Some cid) /\
  (forall m cid, In m o -> reply_of m = Some (cid, true) -> ~ C' cid) /\
  (forall cid, C' cid -> C cid \/ l = Some cid) /\
  once o.

Lemma ok4_of_dstep : forall d l o d', dstep_ok (d, l, o, d') -> ok4 (drec d) l o (drec d').
Proof. intros d l o d' [A B C D]. unfold src, tgt, lab, outp in *. cbn [fst snd] in *. repeat split; assumption. Qed.

Definition quiet (o : list out) : Prop := forall m, In m o -> reply_of m = None.

Lemma quiet_nil : quiet [].
Proof. intros m []. Qed.
Lemma quiet_app : forall a b, quiet a -> quiet b -> quiet (a ++ b).
Proof. intros a b A B m H. apply in_app_or in H. destruct H; auto. Qed.
Lemma quiet_cons : forall m o, reply_of m = None -> quiet o -> quiet (m :: o).
Proof. intros m o A B x [<-|H]; auto. Qed.

Lemma ok4_quiet : forall (C C' : callid -> Prop) l o,
    quiet o -> (forall cid, C' cid -> C cid \/ l = Some cid) -> ok4 C l o C'.
Proof.
  intros C C' l o Q A. repeat split.
  - intros m cid Hin [fin R]. rewrite (Q m Hin) in R. discriminate.
  - intros m cid Hin R. rewrite (Q m Hin) in R. discriminate.
  - exact A.
  - apply once_nofinal. intros m cid Hin R. rewrite (Q m Hin) in R. discriminate.
Qed.

Lemma ok4_refl : forall C l, ok4 C l [] C.
Proof. intros. apply ok4_quiet; [apply quiet_nil|auto]. Qed.

Lemma ok4_seq : forall C C1 C2 l o1 o2,
    ok4 C l o1 C1 -> ok4 C1 None o2 C2 -> ok4 C l (o1 ++ o2) C2.
Proof.
  intros C C1 C2 l o1 o2 (A1 & B1 & D1 & E1) (A2 & B2 & D2 & E2).
  assert (N2 : forall cid, C2 cid -> C1 cid) by (intros cid H; destruct (D2 cid H) as [H'|H']; [exact H'|discriminate]).
  repeat split.
  - intros m cid Hin R. apply in_app_or in Hin. destruct Hin as [Hin|Hin]; [eauto|].
    destruct (A2 m cid Hin R) as [H|H]; [auto|discriminate].
  - intros m cid Hin R. apply in_app_or in Hin. destruct Hin as [Hin|Hin]; [|eauto].
    intros H. apply (B1 m cid Hin R). auto.
  - intros cid H. auto.
  - apply once_app; [exact E1|exact E2|].
    intros m cid Hin F m' Hin' R. destruct (A2 m' cid Hin' R) as [H|H]; [|discriminate].
    exact (B1 m cid Hin F H).
Qed.

(** replacing a quiet output of the first part by nothing (the INVOCATION sent
    to the meta session is consumed inside the step) *)
Lemma ok4_forget_quiet : forall C C' l o, quiet o -> ok4 C l o C' -> ok4 C l [] C'.
Proof. intros C C' l o Q (_ & _ & D & _). apply ok4_quiet; [apply quiet_nil|exact D]. Qed.

Lemma ok4_cons_quiet : forall C C' l m o, reply_of m = None -> ok4 C None o C' -> ok4 C l (m :: o) C'.
Proof.
  intros C C' l m o Q H. change (m :: o) with ([m] ++ o). eapply ok4_seq; [|exact H].
  apply ok4_quiet; [apply quiet_cons; [exact Q|apply quiet_nil]|auto].
Qed.

Lemma ok4_label : forall C C' l o, ok4 C None o C' -> ok4 C l o C'.
Proof.
  intros C C' l o (A & B & D & E). repeat split; auto.
  - intros m cid Hin R. destruct (A m cid Hin R); [auto|discriminate].
  - intros cid H. destruct (D cid H); [auto|discriminate].
Qed.

(** ** A step with [ok4] moves the monitor without failure *)
Lemma mon_quiet_for : forall c out st,
    (forall m fin, In m out -> reply_of m <> Some (c, fin)) ->
    mon_run c st (map EOut out) = Some st.
Proof.
  intros c. induction out as [|m out IH]; intros st H; cbn [map mon_run mon_step]; [reflexivity|].
  destruct (reply_of m) as [[c' fin]|] eqn:R.
  - destruct (pair_eqb_spec c' c) as [->|Hn].
    + exfalso. eapply (H m fin); [now left|exact R].
    + apply IH. intros m' f' Hin. apply H. now right.
  - apply IH. intros m' f' Hin. apply H. now right.
Qed.

Lemma mon_open : forall c out,
    (forall o1 m o2, out = o1 ++ m :: o2 -> reply_of m = Some (c, true) -> forall m', In m' o2 -> ~ replies_to c m') ->
    exists st2, mon_run c true (map EOut out) = Some st2 /\
                (st2 = false -> exists m, In m out /\ reply_of m = Some (c, true)).
Proof.
  intros c. induction out as [|m out IH]; intros H; cbn [map mon_run mon_step].
  - exists true. split; [reflexivity|discriminate].
  - assert (H' : forall o1 m0 o2, out = o1 ++ m0 :: o2 -> reply_of m0 = Some (c, true) ->
                                  forall m', In m' o2 -> ~ replies_to c m').
    { intros o1 m0 o2 E. apply (H (m :: o1) m0 o2). cbn. now rewrite E. }
    destruct (reply_of m) as [[c' fin]|] eqn:R.
    + destruct (pair_eqb_spec c' c) as [->|Hn].
      * destruct fin; cbn [negb].
        -- exists false. split.
           ++ apply mon_quiet_for. intros m' f' Hin R'. apply (H [] m out eq_refl R m' Hin). exists f'. exact R'.
           ++ intros _. exists m. split; [now left|exact R].
        -- destruct (IH H') as (st2 & E & F). exists st2. split; [exact E|].
           intros Hs. destruct (F Hs) as (m0 & Hin & R0). exists m0. split; [now right|exact R0].
      * destruct (IH H') as (st2 & E & F). exists st2. split; [exact E|].
        intros Hs. destruct (F Hs) as (m0 & Hin & R0). exists m0. split; [now right|exact R0].
    + destruct (IH H') as (st2 & E & F). exists st2. split; [exact E|].
      intros Hs. destruct (F Hs) as (m0 & Hin & R0). exists m0. split; [now right|exact R0].
Qed.

Lemma mon_outs : forall (C C' : callid -> Prop) l out c st1,
    ok4 C l out C' -> (l = Some c -> st1 = true) -> (st1 = false -> ~ C c) ->
    exists st2, mon_run c st1 (map EOut out) = Some st2 /\ (st2 = false -> ~ C' c).
Proof.
  intros C C' l out c st1 (A & B & D & E) Hl Hs. destruct st1.
  - destruct (mon_open c out) as (st2 & E2 & F).
    { intros o1 m o2 Eo R. apply (E o1 m o2 c Eo R). }
    exists st2. split; [exact E2|]. intros H2. destruct (F H2) as (m & Hin & R). exact (B m c Hin R).
  - exists false. split.
    + apply mon_quiet_for. intros m fin Hin R.
      destruct (A m c Hin (ex_intro _ fin R)) as [H|H]; [exact (Hs eq_refl H)|].
      specialize (Hl H). discriminate.
    + intros _ H. destruct (D c H) as [H'|H']; [exact (Hs eq_refl H')|]. specialize (Hl H'). discriminate.
Qed.
