(** * Dealer proofs, part 13: disclose_caller is per callee (C12, dealer half).

    [reg_disclose r] lists the callees of [r] that asked for the caller's
    identity at REGISTER and were allowed to.  [disclose_own J d]: every
    member of [reg_disclose r] is a callee of [r], is listed once, and has a
    witness [J rid sid] = "session [sid] itself sent a REGISTER for the
    procedure of registration [rid] with disclose_caller = true that passed the
    allowed-or-trusted check and was answered REGISTERED rid".  The invariant
    is preserved by every dealer function that touches registrations, with [J]
    growing only by such witnesses. *)
From Nexus Require Import Router.Realm Router.DealerLib Router.DealerProofs Router.DealerReg
     Router.DealerCall Router.DealerWfCalls Router.DealerWfRegs Router.DealerWf Router.DealerRemove
     Router.DealerReply Router.DealerTimers Router.DealerOwned Router.DealerExamples Router.DealerTrace.
From Coq Require Import Lia ZifyN ZifyNat ZifyBool Relations.

Definition djust := N -> N -> Prop.      (* registration id -> session id -> Prop *)

Definition disclose_own (J : djust) (d : dealer) : Prop :=
  forall rid r, nget (d_regs d) rid = Some r ->
    NoDup (reg_disclose r) /\
    forall sid, In sid (reg_disclose r) -> In sid (reg_callees r) /\ J rid sid.

Lemma disclose_own_weaken : forall (J J' : djust) d,
    (forall rid sid, J rid sid -> J' rid sid) -> disclose_own J d -> disclose_own J' d.
Proof.
  intros J J' d H O rid r Hr. destruct (O rid r Hr) as [ND Hs]. split; [exact ND|].
  intros sid Hin. destruct (Hs sid Hin). auto.
Qed.

Lemma disclose_own_regs_eq : forall J d d', d_regs d' = d_regs d -> disclose_own J d -> disclose_own J d'.
Proof. intros J d d' E O rid r. rewrite E. apply O. Qed.

(** what the check at REGISTER let through *)
Definition disclose_allowed (cfg : config) (callee : session) : Prop :=
  c_disclose cfg = true \/ attr_of (s_details callee) "authrole" = "trusted".

Lemma not_refused_allowed : forall cfg callee opts,
    opt_bool opts "disclose_caller" = true -> reg_disclose_refused cfg callee opts = false ->
    disclose_allowed cfg callee.
Proof.
  intros cfg callee opts Hd Hr. unfold reg_disclose_refused in Hr. rewrite Hd in Hr. unfold disclose_allowed.
  destruct (c_disclose cfg); [left; reflexivity|]. cbn in Hr. right.
  destruct (String.eqb_spec (attr_of (s_details callee) "authrole") "trusted"); [assumption | discriminate].
Qed.

(** the witness a successful REGISTER with disclose_caller contributes *)
Definition reg_witness (cfg : config) (d : dealer) (callee : session) (req : N) (opts : dict) (proc : string)
  : djust :=
  fun rid sid =>
    sid = s_id callee /\ opt_bool opts "disclose_caller" = true /\ disclose_allowed cfg callee /\
    snd (fst (register cfg d callee req opts proc)) = [(sid, RRegistered req rid)].

Definition J_or (J J' : djust) : djust := fun rid sid => J rid sid \/ J' rid sid.

(** ** REGISTER *)
Lemma register_outcomes : forall cfg d callee req opts proc,
    let R := register cfg d callee req opts proc in
    fst (fst R) = d \/
    (reg_prechecks cfg callee opts proc /\
     exists r, reg_lookup d (opt_string opts "match") proc = Some r /\
               share_ok r (opt_string opts "invoke") (s_id callee) = true /\
               fst (fst R) = share_state d r (s_id callee) (opt_bool opts "disclose_caller") (opt_bool opts "forward_timeout") /\
               snd (fst R) = [(s_id callee, RRegistered req (reg_id r))]) \/
    (reg_prechecks cfg callee opts proc /\
     reg_lookup d (opt_string opts "match") proc = None /\
     fst (fst R) = new_state d opts proc (s_id callee) /\
     snd (fst R) = [(s_id callee, RRegistered req (idgen_next (d_idgen d)))]).
Proof.
  intros cfg d callee req opts proc R. subst R.
  destruct (valid_uri (c_strict cfg) (opt_string opts "match") proc) eqn:Hv.
  2:{ rewrite register_invalid_uri by assumption. auto. }
  destruct (str_prefix_wamp proc && negb (N.eqb (s_id callee) meta_id)) eqn:Hw.
  { unfold register. rewrite Hv. cbn [negb]. rewrite Hw. auto. }
  destruct (reg_disclose_refused cfg callee opts) eqn:Hd.
  { rewrite register_disclose_refused by assumption. auto. }
  assert (Hpre : reg_prechecks cfg callee opts proc) by (unfold reg_prechecks; auto).
  destruct (reg_lookup d (opt_string opts "match") proc) as [r|] eqn:Hl.
  - rewrite (register_existing _ _ _ _ _ _ r Hpre Hl).
    destruct (share_ok r (opt_string opts "invoke") (s_id callee)) eqn:Hs; cbn [fst snd]; [|auto].
    right; left. split; [exact Hpre|]. exists r. auto.
  - rewrite (register_new _ _ _ _ _ _ Hpre Hl). cbn [fst snd]. right; right. auto.
Qed.

Theorem register_disclose_own : forall cfg lookup J d callee req opts proc,
    dealer_wf lookup d -> disclose_own J d ->
    disclose_own (J_or J (reg_witness cfg d callee req opts proc))
                 (fst (fst (register cfg d callee req opts proc))).
Proof.
  intros cfg lookup J d callee req opts proc WF O.
  pose proof (wf_regs _ _ WF) as W.
  assert (O' : disclose_own (J_or J (reg_witness cfg d callee req opts proc)) d)
    by (eapply disclose_own_weaken; [|exact O]; intros; left; assumption).
  destruct (register_outcomes cfg d callee req opts proc)
    as [E|[(Hpre & r & Hl & Hok & E & Eo)|(Hpre & Hl & E & Eo)]]; rewrite E.
  - exact O'.
  - (* joining *)
    destruct (reg_lookup_some _ _ _ _ W Hl) as (Hr & _).
    apply share_ok_iff in Hok. destruct Hok as (_ & _ & Hni).
    destruct (O _ _ Hr) as [ND Hs].
    intros rid r0. unfold share_state. dproj. rewrite nget_nset.
    destruct (N.eqb_spec rid (reg_id r)) as [->|Hne]; [|apply O'].
    intros E0; inversion E0; subst r0. clear E0. cbn [reg_add_callee reg_disclose reg_callees].
    destruct (opt_bool opts "disclose_caller") eqn:Hd.
    + split.
      * apply NoDup_app_single; [exact ND|]. intros Hin. apply Hni. apply (Hs _ Hin).
      * intros sid Hin. apply in_app_or in Hin. destruct Hin as [Hin|[<-|[]]].
        -- destruct (Hs _ Hin) as [A B]. split; [apply in_or_app; left; exact A | left; exact B].
        -- split; [apply in_or_app; right; left; reflexivity|]. right.
           destruct Hpre as (_ & _ & Hrf).
           unfold reg_witness. split; [reflexivity|]. split; [exact Hd|].
           split; [eapply not_refused_allowed; eauto | exact Eo].
    + split; [exact ND|]. intros sid Hin. destruct (Hs _ Hin) as [A B].
      split; [apply in_or_app; left; exact A | left; exact B].
  - (* a new registration *)
    intros rid r0. rewrite ns_regs, nget_nset.
    destruct (N.eqb_spec rid (reg_id (new_reg d opts proc (s_id callee)))) as [->|Hne]; [|apply O'].
    intros E0; inversion E0; subst r0. clear E0. cbn [new_reg reg_disclose reg_callees reg_id].
    destruct (opt_bool opts "disclose_caller") eqn:Hd.
    + split; [repeat constructor; intros []|].
      intros sid [<-|[]]. split; [left; reflexivity|]. right.
      destruct Hpre as (_ & _ & Hrf).
      unfold reg_witness. split; [reflexivity|]. split; [exact Hd|].
      split; [eapply not_refused_allowed; eauto | exact Eo].
    + split; [constructor | intros sid []].
Qed.

(** C12 joining_does_not_inherit: a callee that joins an existing shared
    registration without disclose_caller is not in [reg_disclose], whatever
    the creator (or any other member) asked for; and one that joins with it is
    the only one added. *)
Theorem joining_does_not_inherit_proof : forall cfg lookup J d callee req opts proc r d' mps,
    dealer_wf lookup d -> disclose_own J d ->
    reg_lookup d (opt_string opts "match") proc = Some r ->
    register cfg d callee req opts proc = (d', [(s_id callee, RRegistered req (reg_id r))], mps) ->
    exists r', nget (d_regs d') (reg_id r) = Some r' /\
               reg_callees r' = reg_callees r ++ [s_id callee] /\
               reg_disclose r' = (if opt_bool opts "disclose_caller" then reg_disclose r ++ [s_id callee] else reg_disclose r) /\
               (opt_bool opts "disclose_caller" = false -> reg_discloses r' (s_id callee) = false) /\
               (forall x, x <> s_id callee -> reg_discloses r' x = reg_discloses r x).
Proof.
  intros cfg lookup J d callee req opts proc r d' mps WF O Hl E.
  pose proof (wf_regs _ _ WF) as W.
  destruct (reg_lookup_some _ _ _ _ W Hl) as (Hr & _).
  destruct (O _ _ Hr) as [ND Hs].
  destruct (valid_uri (c_strict cfg) (opt_string opts "match") proc) eqn:Hv.
  2:{ rewrite register_invalid_uri in E by assumption. inversion E. }
  destruct (str_prefix_wamp proc && negb (N.eqb (s_id callee) meta_id)) eqn:Hw.
  { unfold register in E. rewrite Hv in E. cbn [negb] in E. rewrite Hw in E. inversion E. }
  destruct (reg_disclose_refused cfg callee opts) eqn:Hd.
  { rewrite register_disclose_refused in E by assumption. inversion E. }
  assert (Hpre : reg_prechecks cfg callee opts proc) by (unfold reg_prechecks; auto).
  rewrite (register_existing _ _ _ _ _ _ r Hpre Hl) in E.
  destruct (share_ok r (opt_string opts "invoke") (s_id callee)) eqn:Hok; [|inversion E].
  inversion E as [[E1 E2]]. clear E E2.
  apply share_ok_iff in Hok. destruct Hok as (_ & _ & Hni).
  exists (reg_add_callee r (s_id callee) (opt_bool opts "disclose_caller") (opt_bool opts "forward_timeout")).
  split; [unfold share_state; dproj; rewrite nget_nset, N.eqb_refl; reflexivity|].
  split; [reflexivity|]. split; [reflexivity|].
  assert (Hnd : ~ In (s_id callee) (reg_disclose r)) by (intros Hin; apply Hni; apply (Hs _ Hin)).
  split.
  - intros Hdc. unfold reg_discloses. cbn [reg_add_callee reg_disclose]. rewrite Hdc. apply nmem_false. exact Hnd.
  - intros x Hx. unfold reg_discloses. cbn [reg_add_callee reg_disclose].
    destruct (opt_bool opts "disclose_caller"); [|reflexivity].
    destruct (nmem x (reg_disclose r)) eqn:M.
    + apply nmem_In. apply in_or_app. left. apply nmem_In. exact M.
    + apply nmem_false. intros Hin. apply in_app_or in Hin. destruct Hin as [Hin|[Ex|[]]]; [|congruence].
      apply nmem_false in M. contradiction.
Qed.

(** ** Removing a callee *)
Lemma del_callee_reg_disclose_own : forall J d sid regid d' res,
    regs_core d -> disclose_own J d -> del_callee_reg d sid regid = (d', res) -> disclose_own J d'.
Proof.
  intros J d sid regid d' res W O H.
  pose proof (del_callee_reg_cases d sid regid) as Hc.
  destruct (nget (d_regs d) regid) as [r|] eqn:Hr.
  2:{ rewrite Hc in H. inversion H; subst. exact O. }
  destruct (nmem sid (reg_callees r)) eqn:Hm.
  2:{ rewrite Hc in H. inversion H; subst. exact O. }
  destruct (rw_callees _ W _ _ Hr) as (_ & C2 & _).
  destruct (O _ _ Hr) as [ND Hs].
  destruct (nremove1 sid (reg_callees r)) as [|c0 cs] eqn:Hrm.
  - rewrite Hc in H. inversion H; subst d' res. clear H.
    intros rid r0. rewrite d_regs_set_map. dproj. rewrite nget_ndel.
    destruct (N.eqb rid regid); [discriminate | apply O].
  - rewrite Hc in H. inversion H; subst d' res. clear H. rewrite <- Hrm.
    intros rid r0. dproj. rewrite nget_nset.
    destruct (N.eqb_spec rid regid) as [->|Hne]; [|apply O].
    intros E0; inversion E0; subst r0. clear E0. cbn [reg_disclose reg_callees].
    split; [apply NoDup_nremove1; exact ND|].
    intros x Hin. apply (In_nremove1_NoDup sid x _ ND) in Hin. destruct Hin as [Hin Hx].
    destruct (Hs _ Hin) as [A B]. split; [apply In_nremove1_other; assumption | exact B].
Qed.

Theorem unregister_disclose_own : forall lookup J d sid req regid,
    dealer_wf lookup d -> disclose_own J d -> disclose_own J (fst (fst (unregister d sid req regid))).
Proof.
  intros lookup J d sid req regid WF O. unfold unregister.
  set (d0 := d_set_callee_regs d (callee_del_reg (d_callee_regs d) sid regid)).
  assert (W0 : regs_core d0).
  { apply regs_core_set_cr; [apply (wf_regs _ _ WF)|]. apply NoDup_keys_del. apply (rw_crkeys _ (wf_regs _ _ WF)). }
  assert (O0 : disclose_own J d0) by (eapply disclose_own_regs_eq; [|exact O]; reflexivity).
  destruct (del_callee_reg d0 sid regid) as [d1 [b|]] eqn:Hdel; cbn [fst]; [|exact O0].
  eapply del_callee_reg_disclose_own; eauto.
Qed.

Lemma remove_fold_disclose_own : forall J sid l d mp,
    regs_core d -> disclose_own J d ->
    disclose_own J (fst (fold_left (remove_callee_reg sid) l (d, mp))).
Proof.
  intros J sid. induction l as [|id0 l IH]; intros d mp W O; cbn [fold_left]; [exact O|].
  pose proof (remove_callee_reg_fst sid d mp id0) as E.
  destruct (del_callee_reg d sid id0) as [d1 res] eqn:Hdel.
  destruct (del_callee_reg_wf d sid id0 d1 res W Hdel) as [W1 _].
  pose proof (del_callee_reg_disclose_own J d sid id0 d1 res W O Hdel) as O1.
  destruct (remove_callee_reg sid (d, mp) id0) as [d2 mp2]. cbn [fst] in E. subst d2.
  destruct res; [apply IH; assumption | apply IH; assumption].
Qed.

Theorem remove_session_disclose_own : forall lookup lk J d sid,
    dealer_wf lookup d -> disclose_own J d ->
    disclose_own J (fst (fst (dealer_remove_session lk d sid))).
Proof.
  intros lookup lk J d sid WF O.
  rewrite (drs_fst lk d sid).
  destruct (drs_phase1 lookup lookup lk d sid WF (fun _ _ => eq_refl)) as (_ & S3 & _).
  destruct (drs_phase2 lookup lookup lk d sid WF (fun _ _ => eq_refl)) as (_ & S4 & _).
  pose proof (sh_regs _ _ (shrinks_trans _ _ _ S3 S4)) as (_ & _ & _ & E4 & _).
  eapply disclose_own_regs_eq; [exact E4|].
  unfold unreg_all. eapply disclose_own_regs_eq; [reflexivity|].
  apply remove_fold_disclose_own; [apply (wf_regs _ _ WF) | exact O].
Qed.

(** ** CALL only moves the round-robin cursor *)
Theorem call_disclose_own : forall cfg lookup now J d caller req opts proc args kw oracle,
    dealer_wf lookup d -> disclose_own J d ->
    disclose_own J (call_state (call cfg lookup now d caller req opts proc args kw oracle) d).
Proof.
  intros cfg lookup now J d caller req opts proc args kw oracle WF O.
  assert (Hd0 : forall r next, match_procedure d proc oracle = Some r ->
            disclose_own J (call_d0 d r next)).
  { intros r next Hm. apply (best_match_sound lookup d WF) in Hm. destruct Hm as [Hr _]. unfold registered in Hr.
    intros rid r0. unfold call_d0. dproj. rewrite nget_nset.
    destruct (N.eqb_spec rid (reg_id r)) as [->|]; [|apply O].
    intros E; inversion E; subst r0. cbn [reg_set_next reg_disclose reg_callees]. apply (O _ _ Hr). }
  assert (Hnps : disclose_own J (no_proc_state d (s_id caller, req))).
  { eapply disclose_own_regs_eq; [|exact O]. unfold no_proc_state.
    destruct (cget (d_bycall d) (s_id caller, req)) as [k|]; [|reflexivity].
    unfold drop_call. dproj. destruct (cget (d_invs d) k); [apply ct_regs | reflexivity]. }
  pose proof (call_cases cfg lookup now d caller req opts proc args kw oracle) as H.
  inversion H; cbn [call_state]; auto.
  - eapply disclose_own_regs_eq; [apply chs_regs | exact O].
  - eapply disclose_own_regs_eq; [|eapply Hd0; eassumption]. rewrite cfs_regs. reflexivity.
Qed.

(** ** Histories: [reg_disclose] only ever holds callees that asked for it themselves *)
Inductive dj_step : dealer * djust -> dealer * djust -> Prop :=
| DJ_register lookup cfg d J callee req opts proc : dealer_wf lookup d ->
    dj_step (d, J) (fst (fst (register cfg d callee req opts proc)), J_or J (reg_witness cfg d callee req opts proc))
| DJ_unregister lookup d J sid req regid : dealer_wf lookup d ->
    dj_step (d, J) (fst (fst (unregister d sid req regid)), J)
| DJ_remove lookup lk d J sid : dealer_wf lookup d ->
    dj_step (d, J) (fst (fst (dealer_remove_session lk d sid)), J)
| DJ_call cfg lookup now d J caller req opts proc args kw oracle : dealer_wf lookup d ->
    dj_step (d, J) (call_state (call cfg lookup now d caller req opts proc args kw oracle) d, J)
| DJ_other d d' J : d_regs d' = d_regs d ->        (* cancel, yield, error, timers: registrations untouched *)
    dj_step (d, J) (d', J).

Theorem disclose_flag_is_callees_own_proof : forall a b,
    clos_refl_trans _ dj_step a b -> disclose_own (snd a) (fst a) -> disclose_own (snd b) (fst b).
Proof.
  intros a b H. induction H as [a b S| |a b c _ IH1 _ IH2]; [|auto|auto].
  destruct S; cbn [fst snd]; intros O.
  - eapply register_disclose_own; eauto.
  - eapply unregister_disclose_own; eauto.
  - eapply remove_session_disclose_own; eauto.
  - eapply call_disclose_own; eauto.
  - eapply disclose_own_regs_eq; eauto.
Qed.

(** the justification only grows, and only by REGISTER witnesses of the session itself *)
Theorem dj_step_witness : forall d J d' J' rid sid,
    dj_step (d, J) (d', J') -> J' rid sid ->
    J rid sid \/
    exists cfg callee req opts proc,
      sid = s_id callee /\ opt_bool opts "disclose_caller" = true /\ disclose_allowed cfg callee /\
      snd (fst (register cfg d callee req opts proc)) = [(sid, RRegistered req rid)].
Proof.
  intros d J d' J' rid sid S HJ. inversion S; subst; auto.
  destruct HJ as [HJ|HJ]; [auto|]. right. unfold reg_witness in HJ. eauto 10.
Qed.

(** the dealer of a fresh realm: only the meta session is disclosed to (it registered with the flag) *)
Theorem init_disclose_own : forall cfg,
    disclose_own (fun _ sid => sid = meta_id) (r_dealer (init_realm cfg)).
Proof.
  intros cfg.
  assert (G : forall names d procs, dealer_wf lookup0 d -> d_idgen d + N.of_nat (List.length names) < max_idN ->
            disclose_own (fun _ sid => sid = meta_id) d ->
            disclose_own (fun _ sid => sid = meta_id) (fst (fold_left (init_step cfg) names (d, procs)))).
  { induction names as [|name names IH]; intros d procs WF Hn O; cbn [fold_left]; [exact O|].
    cbn [List.length] in Hn.
    pose proof (init_step_fst cfg d procs name) as E.
    destruct (init_step cfg (d, procs) name) as [d1 procs1]. cbn [fst] in E. subst d1.
    apply IH.
    - apply register_wf; [exact WF | unfold attached, lookup0; cbn; discriminate | lia].
    - pose proof (register_idgen cfg d meta_session (N.of_nat (List.length procs) + 1) [("disclose_caller", VBool true)] name).
      lia.
    - eapply disclose_own_weaken; [|eapply register_disclose_own; eauto].
      intros rid sid [H|(H & _)]; [exact H | rewrite H; reflexivity]. }
  assert (Hlen : 0 + N.of_nat (List.length (meta_proc_names cfg)) < max_idN).
  { unfold meta_proc_names. destruct (c_meta_kill cfg), (c_meta_modify cfg); vm_compute; reflexivity. }
  pose proof (G (meta_proc_names cfg) empty_dealer [] (empty_dealer_wf lookup0) Hlen) as H.
  unfold init_realm. change (fold_left _ (meta_proc_names cfg) (empty_dealer, [])) with
      (fold_left (init_step cfg) (meta_proc_names cfg) (empty_dealer, [])).
  destruct (fold_left (init_step cfg) (meta_proc_names cfg) (empty_dealer, [])) as [d procs]. cbn [fst] in H.
  cbn [r_dealer]. apply H. intros rid r Hr. discriminate Hr.
Qed.

(** ** Examples: a two-callee shared registration in a realm that does not allow
    disclosure; session 30 is trusted (local), session 12 anonymous *)
Definition s30 : session := mkSession 30 true hello_callee (join_details 30 true hello_callee) 0.
Definition lkx : N -> option session := fun sid => if N.eqb sid 30 then Some s30 else lk 0 0 sid.
Definition rr_disc : dict := [("invoke", vstr "roundrobin"); ("disclose_caller", VBool true)].

(** trusted creator with the flag, anonymous joiner without *)
Definition dx1 : dealer := fst (fst (register cfg_nodisclose d2s s30 1 rr_disc "com.d")).
Definition dx2 : dealer := fst (fst (register cfg_nodisclose dx1 s12 2 rr_opts "com.d")).
Definition cx1 : call_result := call cfg_nodisclose lkx 5 dx2 s10 7 [] "com.d" [] [] 0.
Definition cx2 : call_result := call cfg_nodisclose lkx 6 (call_state cx1 dx2) s10 8 [] "com.d" [] [] 0.
(** the converse: anonymous creator without the flag, trusted joiner with it *)
Definition dy1 : dealer := fst (fst (register cfg_nodisclose d2s s12 1 rr_opts "com.e")).
Definition dy2 : dealer := fst (fst (register cfg_nodisclose dy1 s30 2 rr_disc "com.e")).
Definition cy1 : call_result := call cfg_nodisclose lkx 5 dy2 s10 7 [] "com.e" [] [] 0.
Definition cy2 : call_result := call cfg_nodisclose lkx 6 (call_state cy1 dy2) s10 8 [] "com.e" [] [] 0.

Definition inv_caller_key (r : call_result) : option (N * option value) :=
  match call_out r with
  | [(x, RInvocation _ _ det _ _)] => Some (x, dget det "caller")
  | _ => None
  end.

Example joining_does_not_inherit_ex :
    (* the joiner is not in reg_disclose; the creator is *)
    option_map (fun r => (reg_callees r, reg_disclose r)) (nget (d_regs dx2) 24) = Some ([30; 12], [30]) /\
    (* round robin: the INVOCATION to 30 discloses the caller, the one to 12 does not *)
    inv_caller_key cx1 = Some (30, Some (vid 10)) /\ inv_caller_key cx2 = Some (12, None) /\
    (* the converse *)
    option_map (fun r => (reg_callees r, reg_disclose r)) (nget (d_regs dy2) 24) = Some ([12; 30], [30]) /\
    inv_caller_key cy1 = Some (12, None) /\ inv_caller_key cy2 = Some (30, Some (vid 10)) /\
    (* the anonymous session asking for it itself is refused: the realm does not allow disclosure *)
    register cfg_nodisclose dx1 s12 2 rr_disc "com.d" = (dx1, [(12, RError c_REGISTER 2 [] e_disclose_me [] [])], []) /\
    (* when 30 leaves the registration its entry goes too *)
    option_map (fun r => (reg_callees r, reg_disclose r)) (nget (d_regs (fst (fst (unregister dx2 30 9 24)))) 24) = Some ([12], []).
Proof. vm_compute. repeat split; reflexivity. Qed.

(** the hypotheses of [joining_does_not_inherit_proof] hold on such a run *)
Lemma att_x : forall sid, (sid = 1 \/ sid = 10 \/ sid = 11 \/ sid = 12 \/ sid = 30) -> attached lkx sid.
Proof. intros sid [-> | [-> | [-> | [-> | ->]]]]; unfold attached, lkx, lk; cbn; discriminate. Qed.

Lemma wf_d2s_x : dealer_wf lkx d2s.
Proof.
  eapply dealer_wf_lookup_le; [|exact wf_d2s]. intros x s. unfold lkx.
  destruct (N.eqb_spec x 30) as [->|]; [cbn; discriminate|]. intros H. exists s. split; [exact H | lia].
Qed.

Lemma wf_dx1 : dealer_wf lkx dx1.
Proof.
  apply register_wf; [exact wf_d2s_x | apply att_x; cbn; auto | eapply idgen_small; [vm_compute; reflexivity | lia]].
Qed.

Lemma own_d2s : disclose_own (fun _ _ => True) d2s.
Proof.
  assert (O0 : disclose_own (fun _ _ => True) d0)
    by (eapply disclose_own_weaken; [|apply init_disclose_own]; auto).
  assert (S : forall lookup cfg d callee req opts proc, dealer_wf lookup d -> disclose_own (fun _ _ => True) d ->
            disclose_own (fun _ _ => True) (fst (fst (register cfg d callee req opts proc)))).
  { intros. eapply disclose_own_weaken; [|eapply register_disclose_own; eauto]. auto. }
  assert (O1 : disclose_own (fun _ _ => True) d1) by (apply (S (lk 0 0)); [exact wf_d0 | exact O0]).
  assert (O2 : disclose_own (fun _ _ => True) d2) by (apply (S (lk 0 0)); [exact wf_d1 | exact O1]).
  assert (O3 : disclose_own (fun _ _ => True) d2p) by (apply (S (lk 0 0)); [exact wf_d2 | exact O2]).
  assert (O4 : disclose_own (fun _ _ => True) d2w) by (apply (S (lk 0 0)); [exact wf_d2p | exact O3]).
  assert (O5 : disclose_own (fun _ _ => True) d2f) by (apply (S (lk 0 0)); [exact wf_d2w | exact O4]).
  apply (S (lk 0 0)); [exact wf_d2f | exact O5].
Qed.

Example joining_hypotheses_ex :
    dealer_wf lkx dx1 /\ disclose_own (fun _ _ => True) dx1 /\
    (exists r mps, reg_lookup dx1 (opt_string rr_opts "match") "com.d" = Some r /\ reg_disclose r = [30] /\
                   register cfg_nodisclose dx1 s12 2 rr_opts "com.d" = (dx2, [(s_id s12, RRegistered 2 (reg_id r))], mps)) /\
    opt_bool rr_opts "disclose_caller" = false.
Proof.
  split; [exact wf_dx1|]. split.
  - eapply disclose_own_weaken; [|eapply register_disclose_own; [exact wf_d2s_x | exact own_d2s]]. auto.
  - split; [|reflexivity]. eexists; eexists. vm_compute. repeat split; reflexivity.
Qed.
