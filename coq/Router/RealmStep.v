(** * Realm-level proofs, part 5: [realm_wf] is an invariant of [step]; it
    holds of [init_realm]; hence of every reachable realm (below the id
    wrap-around at 2^53). *)
From Nexus Require Import Router.Realm Router.AssocLemmas Router.RealmLib Router.RealmProofs
     Router.RealmMetaProofs Router.RealmLeave.
From Nexus Require Import Router.BrokerWf Router.BrokerPres Router.BrokerSub.
From Nexus Require Import Router.DealerLib Router.DealerProofs Router.DealerReg Router.DealerCall Router.DealerWf
     Router.DealerWfCalls Router.DealerWfRegs Router.DealerRemove.
From Nexus Require Import Router.RealmWf.
From Coq Require Import Lia ZifyN ZifyNat ZifyBool.

Lemma update_set_dealer : forall r d c, update_session (r_set_dealer r d) c = r_set_dealer (update_session r c) d.
Proof. intros. unfold update_session. cbn [r_clients r_set_dealer]. destruct (s_id c =? meta_id); reflexivity. Qed.

Lemma lookup_le_update : forall r c c0,
    lookup r (s_id c) = Some c0 -> s_invgen c0 <= s_invgen c ->
    lookup_le (lookup r) (lookup (update_session r c)).
Proof.
  intros r c c0 Hl Hle x sx E. rewrite lookup_update by congruence.
  destruct (N.eqb_spec x (s_id c)) as [->|Hx].
  - exists c. split; [reflexivity|]. rewrite Hl in E. inversion E; subst. exact Hle.
  - exists sx. split; [exact E|lia].
Qed.

Lemma client_update : forall r c x, client r x -> client (update_session r c) x.
Proof.
  intros r c x C. unfold client, update_session in *. destruct (s_id c =? meta_id); [exact C|].
  cbn [r_clients r_set_clients]. destruct (N.eq_dec x (s_id c)) as [->|Hx].
  - rewrite find_put_same; [discriminate|exact C].
  - now rewrite find_put_other.
Qed.

Lemma register_frame : forall cfg d s req opts proc,
    d_calls (fst (fst (register cfg d s req opts proc))) = d_calls d.
Proof.
  intros. unfold register.
  destruct (negb (valid_uri _ _ _)); [reflexivity|].
  destruct (str_prefix_wamp proc && _); [reflexivity|].
  destruct (negb (c_disclose cfg) && _ && _); [reflexivity|].
  destruct (match sget _ _ with Some id => nget (d_regs d) id | None => None end) as [rg|].
  - destruct (negb (shared_policy _) || _ || _); reflexivity.
  - cbn [fst]. destruct (mkind_of (opt_string opts "match")); reflexivity.
Qed.

Lemma del_callee_reg_frame : forall d sid id,
    d_calls (fst (del_callee_reg d sid id)) = d_calls d /\ d_idgen (fst (del_callee_reg d sid id)) = d_idgen d.
Proof.
  intros d sid id. unfold del_callee_reg.
  destruct (nget (d_regs d) id) as [rg|]; [|auto].
  destruct (negb (nmem sid (reg_callees rg))); [auto|].
  destruct (nremove1 sid (reg_callees rg)); [|auto].
  destruct (mkind_of (reg_match rg)); auto.
Qed.

Lemma unregister_frame : forall d sid req id,
    d_calls (fst (fst (unregister d sid req id))) = d_calls d /\
    d_idgen (fst (fst (unregister d sid req id))) = d_idgen d.
Proof.
  intros d sid req id. unfold unregister.
  pose proof (del_callee_reg_frame (d_set_callee_regs d (callee_del_reg (d_callee_regs d) sid id)) sid id) as E.
  destruct (del_callee_reg _ sid id) as [d1 [deleted|]]; cbn [fst] in *; auto.
Qed.

Lemma attached_client : forall r s, realm_wf r -> find_session (r_clients r) (s_id s) = Some s ->
    lookup r (s_id s) = Some s /\ s_id s <> meta_id.
Proof.
  intros r s W F.
  assert (H : s_id s <> meta_id) by (intros E; rewrite E in F; rewrite (rw_no_meta r W) in F; discriminate).
  split; [|exact H]. unfold lookup. destruct (N.eqb_spec (s_id s) meta_id); [contradiction|exact F].
Qed.

Lemma mrs_call : forall d0 cfg lk now d caller req opts proc args kw oracle,
    dealer_wf lk d -> meta_regs_same d0 d ->
    match call cfg lk now d caller req opts proc args kw oracle with
    | CallRefused d' _ => meta_regs_same d0 d'
    | CallAbort _ => True
    | CallInvoked d' _ _ => meta_regs_same d0 d'
    end.
Proof.
  intros d0 cfg lk now d caller req opts proc args kw oracle WF H.
  assert (Hn : forall r next d', match_procedure d proc oracle = Some r ->
                 d_regs d' = nset (d_regs d) (reg_id r) (reg_set_next r next) -> meta_regs_same d0 d').
  { intros r next d' Hm E. apply (best_match_sound lk d WF) in Hm. destruct Hm as [Hr _]. unfold registered in Hr.
    eapply (mrs_update d0 d d' (reg_id r) r); [exact H|exact Hr|exact E|reflexivity|reflexivity|reflexivity]. }
  pose proof (call_cases cfg lk now d caller req opts proc args kw oracle) as C.
  inversion C; subst; auto;
    try (eapply meta_regs_same_ext; [apply nps_frame|exact H]; fail);
    try (eapply meta_regs_same_ext; [apply chs_regs|exact H]; fail);
    try (eapply Hn; [eassumption|reflexivity]; fail);
    try (eapply Hn; [eassumption|apply cfs_regs]; fail).
Qed.

Lemma call_invoked_wf : forall r s req opts proc args kw oracle k d callee o,
    realm_wf r -> ids_below k r -> k < max_idN -> find_session (r_clients r) (s_id s) = Some s ->
    call (r_cfg r) (lookup r) (r_now r) (r_dealer r) s req opts proc args kw oracle = CallInvoked d callee o ->
    let r1 := update_session (r_set_dealer r d) callee in
    realm_wf r1 /\ ids_below (k + 1) r1 /\
    (forall x, lookup r1 x <> None <-> lookup r x <> None) /\
    (exists rcv invid regid det, o = [(rcv, RInvocation invid regid det args kw)] /\
                                 lookup r rcv <> None) /\
    (forall rcv invid regid det args' kw', o = [(rcv, RInvocation invid regid det args' kw')] ->
                                          forall c, caller_opt det = Some c -> client r1 c).
Proof.
  intros r s req opts proc args kw oracle k d callee o W I Hk Hs Ecall r1. subst r1.
  assert (Cs : client r (s_id s)) by (unfold client; congruence).
  destruct (attached_client r s W Hs) as [Hl Hm].
  pose proof I as (I1 & I2 & I3).
  pose proof (lookup_ok_realm r (rw_meta_id r W)) as LOK.
  pose proof (nowrap_below k r I Hk) as NW.
  assert (Ha : attached (lookup r) (s_id s)) by (unfold attached; congruence).
  pose proof (call_wf (r_cfg r) (lookup r) (r_now r) (r_dealer r) s req opts proc args kw oracle
                      (rw_dealer r W) LOK NW Ha) as CW.
  pose proof (call_facts (r_cfg r) (lookup r) (r_now r) (r_dealer r) s req opts proc args kw oracle LOK NW) as CF.
  pose proof (mrs_call (dealer0 (r_cfg r)) (r_cfg r) (lookup r) (r_now r) (r_dealer r) s req opts proc args kw oracle
                       (rw_dealer r W) (rw_metaregs r W)) as Mr.
  rewrite Ecall in CW, CF, Mr.
  destruct CW as [Hat CW]. destruct CF as ((c0 & Hc0 & Hinv) & F1 & F2 & F3 & (rcv & invid & regid & det & Eo & Hdet & Hrcv)).
  assert (Hle : s_invgen c0 <= s_invgen callee) by lia.
  specialize (CW (lookup (update_session r callee)) (lookup_le_update r callee c0 Hc0 Hle)).
  rewrite lookup_update in CW by congruence. rewrite N.eqb_refl in CW. specialize (CW eq_refl).
  destruct (update_session_wf r callee c0 k (k + 1) W Hc0 Hle) as [W1 J1].
  rewrite update_set_dealer.
  assert (W2 : realm_wf (r_set_dealer (update_session r callee) d)).
  { apply wf_set_dealer; auto.
    - rewrite F1. exact (rw_cr_nonempty r W).
    - intros c x Hc. destruct (F3 c x Hc) as [->|Hc']; [exact Hm|]. eapply (rw_calls_nometa r W); eauto.
    - destruct (update_session_frame r callee) as (Fc & _). rewrite Fc. exact Mr. }
  assert (J2 : ids_below (k + 1) (r_set_dealer (update_session r callee) d)).
  { assert (J : ids_below (k + 1) (update_session r callee)).
    { apply J1; [exact I| |lia]. specialize (I3 _ _ Hc0). lia. }
    destruct J as (A & B & C). repeat split; cbn [r_set_dealer r_broker r_dealer]; auto.
    destruct (update_session_frame r callee) as (_ & _ & _ & Fd & _). lia. }
  split; [exact W2|]. split; [exact J2|].
  assert (Lk : forall x, lookup (r_set_dealer (update_session r callee) d) x <> None <-> lookup r x <> None).
  { intros x. change (lookup (r_set_dealer (update_session r callee) d)) with (lookup (update_session r callee)).
    rewrite lookup_update by congruence. destruct (N.eqb_spec x (s_id callee)) as [->|Hn]; [|tauto].
    split; [intros _; congruence|discriminate]. }
  split; [exact Lk|]. split.
  - exists rcv, invid, regid, det. split; [exact Eo|exact Hrcv].
  - intros rcv' invid' regid' det' args' kw' E c Hc. rewrite Eo in E. inversion E; subst.
    unfold caller_opt in Hc. destruct Hdet as [Hd|Hd]; rewrite Hd in Hc; [discriminate|].
    apply as_id_vid in Hc; [|apply (rw_ids r W s); eapply find_session_In; eauto]. subst c.
    change (client (update_session r callee) (s_id s)). now apply client_update.
Qed.

(** the dealer an aborted CALL leaves behind: [d] itself or [d] with the
    round-robin cursor of the matched registration moved *)
Lemma call_abort_dealer_cases : forall lk d caller req opts proc oracle,
    call_abort_dealer lk d caller req opts proc oracle = d \/
    exists rg next, match_procedure d proc oracle = Some rg /\
                    call_abort_dealer lk d caller req opts proc oracle = call_d0 d rg next.
Proof.
  intros. unfold call_abort_dealer.
  destruct (match_procedure d proc oracle) as [rg|]; [|now left].
  destruct (reg_callees rg) eqn:Ec; [now left|]. rewrite <- Ec.
  destruct (opt_bool opts "progress" && _); [now left|].
  destruct (cget (d_bycall d) (s_id caller, req)); [now left|].
  destruct (select_callee rg oracle) as [[cid next]|]; [|now left].
  destruct (lk cid); [|now left]. right. exists rg, next. split; reflexivity.
Qed.

Lemma call_abort_realm_wf : forall r s req opts proc oracle k,
    realm_wf r -> ids_below k r ->
    let ra := r_set_dealer r (call_abort_dealer (lookup r) (r_dealer r) s req opts proc oracle) in
    realm_wf ra /\ ids_below k ra /\ lookup ra = lookup r.
Proof.
  intros r s req opts proc oracle k W I ra. subst ra.
  destruct (call_abort_dealer_cases (lookup r) (r_dealer r) s req opts proc oracle) as [E|(rg & next & Hm & E)]; rewrite E.
  - rewrite r_set_dealer_same. auto.
  - pose proof (rw_dealer r W) as WF. pose proof WF as [A B C D E'].
    pose proof (best_match_sound (lookup r) (r_dealer r) WF proc oracle rg Hm) as [Hr _]. unfold registered in Hr.
    destruct (call_d0_wf (lookup r) (r_dealer r) rg next A B C Hr) as (A' & B' & C').
    assert (Wd : dealer_wf (lookup r) (call_d0 (r_dealer r) rg next)).
    { eapply dealer_wf_calls_same; eauto. apply call_d0_side. }
    split; [|split; [|reflexivity]].
    + apply wf_set_dealer; auto.
      * exact (rw_cr_nonempty r W).
      * exact (rw_calls_nometa r W).
      * eapply (mrs_update (dealer0 (r_cfg r)) (r_dealer r) _ (reg_id rg) rg);
          [exact (rw_metaregs r W)|exact Hr|reflexivity|reflexivity|reflexivity|reflexivity].
    + destruct I as (I1 & I2 & I3). repeat split; auto.
Qed.

Theorem handle_wf : forall r s m oracle k,
    realm_wf r -> ids_below k r -> k < max_idN -> find_session (r_clients r) (s_id s) = Some s ->
    realm_wf (fst (handle r s m oracle)) /\ ids_below (k + 1) (fst (handle r s m oracle)).
Proof.
  intros r s m oracle k W I Hk Hs.
  assert (Cs : client r (s_id s)) by (unfold client; congruence).
  destruct (attached_client r s W Hs) as [Hl Hm].
  assert (Up : forall r', realm_wf r' /\ ids_below k r' -> realm_wf r' /\ ids_below (k + 1) r').
  { intros r' [A B]. split; [exact A|]. eapply ids_below_mono; [exact B|lia]. }
  pose proof I as (I1 & I2 & I3).
  destruct m; cbn [handle].
  - (* PUBLISH *)
    pose proof (publish_realm_wf r s req opts topic args kw W) as P.
    destruct (publish _ _ _ _ _ _ _ _ _ _ _) as [[b pg] o]. cbn [fst]. destruct P as [P1 P2].
    destruct (publish_aborts (r_cfg r) s opts topic).
    { destruct (leave_wf r (s_id s) k W I) as (W1 & J1 & _).
      destruct (leave r (s_id s)). apply Up. exact (conj W1 J1). }
    apply Up. split; [exact P1|]. apply ids_below_set_broker; [exact I|]. lia.
  - (* SUBSCRIBE *)
    pose proof (subscribe_sess_keys (r_cfg r) (r_broker r) (r_pubgen r) (s_id s) req opts topic) as K.
    destruct (subscribe _ _ _ _ _ _ _) as [[b pg] o] eqn:S. cbn [fst] in *.
    assert (Hb : b_idgen (r_broker r) < max_idN) by lia.
    pose proof (subscribe_wf _ _ _ _ _ _ _ _ _ _ (rw_broker r W) Hb S) as Wb.
    pose proof (subscribe_idgen _ _ _ _ _ _ _ _ _ _ Hb S) as Ib.
    split.
    + apply wf_set_broker; [exact W|exact Wb| |].
      * intros x Hx. destruct (K x Hx) as [->|Hx']; [exact Cs|]. now apply (rw_sess_att r W).
      * pose proof (hist_same_subscribe (broker0 (r_cfg r)) (r_cfg r) (r_broker r) (r_pubgen r) (s_id s) req opts topic
                                        (rw_broker r W) Hb (rw_hist r W)) as Hh.
        rewrite S in Hh. exact Hh.
    + apply ids_below_set_broker; [eapply ids_below_mono; [exact I|lia]|lia].
  - (* UNSUBSCRIBE *)
    pose proof (unsubscribe_sess_keys (r_broker r) (r_pubgen r) (s_id s) req sub) as K.
    destruct (unsubscribe _ _ _ _ _) as [[b pg] o] eqn:S. cbn [fst] in *.
    pose proof (unsubscribe_wf _ _ _ _ _ _ _ _ (rw_broker r W) S) as Wb.
    pose proof (unsubscribe_idgen _ _ _ _ _ _ _ _ S) as Ib.
    apply Up. split.
    + apply wf_set_broker; [exact W|exact Wb| |].
      * intros x Hx. apply (rw_sess_att r W). now apply K.
      * pose proof (hist_same_unsubscribe (broker0 (r_cfg r)) (r_broker r) (r_pubgen r) (s_id s) req sub
                                          (rw_broker r W) (rw_hist r W)) as Hh.
        rewrite S in Hh. exact Hh.
    + apply ids_below_set_broker; [exact I|lia].
  - (* REGISTER *)
    assert (Hd : d_idgen (r_dealer r) < max_idN) by lia.
    assert (Ha : attached (lookup r) (s_id s)) by (unfold attached; congruence).
    pose proof (register_wf (r_cfg r) (lookup r) (r_dealer r) s req opts proc (rw_dealer r W) Ha Hd) as Wd.
    pose proof (register_idgen (r_cfg r) (r_dealer r) s req opts proc Hd) as Id.
    pose proof (register_cr_nonempty (r_cfg r) (r_dealer r) s req opts proc (rw_cr_nonempty r W)) as Cr.
    pose proof (register_frame (r_cfg r) (r_dealer r) s req opts proc) as Fr.
    destruct (register _ _ _ _ _ _) as [[d o] mps] eqn:Ereg. cbn [fst] in *.
    pose proof (mrs_register (dealer0 (r_cfg r)) (r_cfg r) (r_dealer r) s req opts proc (rw_metaregs r W)
                             (wf_regs _ _ (rw_dealer r W)) Hd Hm) as Mr.
    rewrite Ereg in Mr. cbn [fst] in Mr.
    assert (W1 : realm_wf (r_set_dealer r d)).
    { apply wf_set_dealer; auto. intros c x. rewrite Fr. apply (rw_calls_nometa r W). }
    assert (J1 : ids_below (k + 1) (r_set_dealer r d)).
    { repeat split; cbn [r_set_dealer r_broker r_dealer]; try lia. intros x sx E. specialize (I3 x sx E). lia. }
    destruct (meta_publish_all_wf mps (r_set_dealer r d) (k + 1) W1 J1) as [W2 J2].
    destruct (meta_publish_all _ mps). exact (conj W2 J2).
  - (* UNREGISTER *)
    pose proof (unregister_wf (lookup r) (r_dealer r) (s_id s) req reg (rw_dealer r W)) as Wd.
    pose proof (unregister_cr_nonempty (r_dealer r) (s_id s) req reg (rw_cr_nonempty r W)) as Cr.
    destruct (unregister_frame (r_dealer r) (s_id s) req reg) as [Fr Fi].
    pose proof (mrs_unregister (dealer0 (r_cfg r)) (r_dealer r) (s_id s) req reg (rw_metaregs r W) Hm) as Mr.
    destruct (unregister _ _ _ _) as [[d o] mps]. cbn [fst] in *.
    assert (W1 : realm_wf (r_set_dealer r d)).
    { apply wf_set_dealer; auto. intros c x. rewrite Fr. apply (rw_calls_nometa r W). }
    assert (J1 : ids_below k (r_set_dealer r d)).
    { repeat split; cbn [r_set_dealer r_broker r_dealer]; auto. lia. }
    destruct (meta_publish_all_wf mps (r_set_dealer r d) k W1 J1) as [W2 J2].
    destruct (meta_publish_all _ mps). apply Up. exact (conj W2 J2).
  - (* CALL *)
    pose proof (lookup_ok_realm r (rw_meta_id r W)) as LOK.
    pose proof (nowrap_below k r I Hk) as NW.
    assert (Ha : attached (lookup r) (s_id s)) by (unfold attached; congruence).
    pose proof (call_wf (r_cfg r) (lookup r) (r_now r) (r_dealer r) s req opts proc args kw oracle
                        (rw_dealer r W) LOK NW Ha) as CW.
    pose proof (call_facts (r_cfg r) (lookup r) (r_now r) (r_dealer r) s req opts proc args kw oracle LOK NW) as CF.
    pose proof (mrs_call (dealer0 (r_cfg r)) (r_cfg r) (lookup r) (r_now r) (r_dealer r) s req opts proc args kw oracle
                         (rw_dealer r W) (rw_metaregs r W)) as Mr.
    destruct (call _ _ _ _ _ _ _ _ _ _ _) as [d o|o|d callee o] eqn:Ecall.
    + destruct CF as (F1 & F2 & F3). cbn [fst]. apply Up. split.
      * apply wf_set_dealer; auto.
        -- rewrite F1. exact (rw_cr_nonempty r W).
        -- intros c x Hc. apply F3 in Hc. eapply (rw_calls_nometa r W); eauto.
      * repeat split; cbn [r_set_dealer r_broker r_dealer]; auto. lia.
    + destruct (call_abort_realm_wf r s req opts proc oracle k W I) as (Wa & Ia & _). cbv zeta in Wa, Ia.
      destruct (leave_wf _ (s_id s) k Wa Ia) as (W1 & J1 & _).
      destruct (leave _ (s_id s)). apply Up. exact (conj W1 J1).
    + destruct (call_invoked_wf r s req opts proc args kw oracle k d callee o W I Hk Hs Ecall) as (W2 & J2 & _ & _ & Hcl).
      apply run_meta_invocation_wf; auto.
  - (* CANCEL *)
    destruct (cancel_frame (lookup r) (r_dealer r) (s_id s) req opts) as (E1 & E2 & E3).
    pose proof (cancel_wf (lookup r) (lookup r) (r_dealer r) (s_id s) req opts (rw_dealer r W)) as Wd.
    destruct (cancel_core (lookup r) (r_dealer r) (s_id s) req opts (wf_calls _ _ (rw_dealer r W))) as [_ S].
    pose proof (dealer_step_wf r _ k W I Wd E1 E2 E3 S) as Y.
    destruct (cancel _ _ _ _ _) as [d o]. apply Up. exact Y.
  - (* YIELD *)
    pose proof (sync_yield_realm_wf r (lookup r) (s_id s) req opts args kw k W I) as Y.
    destruct (sync_yield _ _ _ _ _ _ _) as [d o]. cbn [fst] in Y.
    destruct (yield_aborts _ _ _ _ _); [|apply Up; exact Y].
    destruct Y as [Y1 Y2]. destruct (leave_wf (r_set_dealer r d) (s_id s) k Y1 Y2) as (W1 & J1 & _).
    destruct (leave (r_set_dealer r d) (s_id s)). apply Up. exact (conj W1 J1).
  - (* ERROR *)
    destruct (negb (ty =? c_INVOCATION)).
    + destruct (leave_wf r (s_id s) k W I) as (W1 & J1 & _).
      destruct (leave r (s_id s)). apply Up. exact (conj W1 J1).
    + pose proof (sync_error_realm_wf r (s_id s) req details err args kw k W I) as Y.
      destruct (sync_error _ _ _ _ _ _ _) as [d o]. apply Up. exact Y.
  - (* GOODBYE *)
    destruct (leave_wf r (s_id s) k W I) as (W1 & J1 & _).
    destruct (leave r (s_id s)). apply Up. exact (conj W1 J1).
  - destruct (leave_wf r (s_id s) k W I) as (W1 & J1 & _).
    destruct (leave r (s_id s)). apply Up. exact (conj W1 J1).
Qed.

(** ** [step] *)
Theorem step_wf : forall r o k,
    realm_wf r -> ids_below k r -> k < max_idN -> op_ok o ->
    realm_wf (fst (step r o)) /\ ids_below (k + 1) (fst (step r o)).
Proof.
  intros r o k W I Hk Ho.
  assert (Up : forall r', realm_wf r' /\ ids_below k r' -> realm_wf r' /\ ids_below (k + 1) r').
  { intros r' [A B]. split; [exact A|]. eapply ids_below_mono; [exact B|lia]. }
  destruct o as [sid l h|sid m oracle|sid|ms].
  - apply Up. apply join_wf; auto.
  - rewrite step_msg_eq. destruct (find_session (r_clients r) sid) as [s|] eqn:F; [|apply Up; auto].
    destruct (gate r s m) as [m'|out]; [|apply Up; auto].
    apply handle_wf; auto. now rewrite (find_session_id _ _ _ F).
  - apply Up. destruct (leave_wf r sid k W I) as (A & B & _). exact (conj A B).
  - cbn [step]. set (r1 := r_set_now r (r_now r + ms)).
    assert (W1 : realm_wf r1) by (destruct W; constructor; auto).
    assert (I1 : ids_below k r1) by exact I.
    destruct (fire_timers_frame (lookup r1) (r_now r1) (r_dealer r1)) as (E1 & E2 & E3 & S).
    pose proof (fire_timers_wf (lookup r1) (lookup r1) (r_now r1) (r_dealer r1) (rw_dealer r1 W1)) as Wd.
    pose proof (dealer_step_wf r1 _ k W1 I1 Wd E1 E2 E3 (S (wf_calls _ _ (rw_dealer r1 W1)))) as Y.
    destruct (fire_timers _ _ _) as [d out]. apply Up. exact Y.
Qed.

(** ** The initial realm *)
Definition lk0 : N -> option session :=
  fun sid => if N.eqb sid meta_id then Some meta_session else find_session [] sid.

Lemma init_f_fst : forall cfg d procs name,
    fst (init_f cfg (d, procs) name) =
    fst (fst (register cfg d meta_session (N.of_nat (List.length procs) + 1) [("disclose_caller", VBool true)] name)).
Proof.
  intros. unfold init_f. destruct (register _ _ _ _ _ _) as [[d1 o] mps].
  destruct o as [|[x m] [|]]; try reflexivity; destruct m; reflexivity.
Qed.

Lemma init_fold_wf : forall cfg names d procs j,
    dealer_wf lk0 d -> d_idgen d <= j -> cr_nonempty (d_callee_regs d) -> d_calls d = [] -> regs_pos d ->
    j + N.of_nat (List.length names) <= max_idN ->
    let d' := fst (fold_left (init_f cfg) names (d, procs)) in
    dealer_wf lk0 d' /\ d_idgen d' <= j + N.of_nat (List.length names) /\
    cr_nonempty (d_callee_regs d') /\ d_calls d' = [] /\ regs_pos d'.
Proof.
  intros cfg names; induction names as [|name names IH]; intros d procs j Wd Hj Hc Hcalls Hpos Hb; cbn [fold_left List.length] in *.
  - cbn [fst]. split; [exact Wd|]. split; [cbn; lia|]. split; [exact Hc|]. split; [exact Hcalls|exact Hpos].
  - assert (Hd : d_idgen d < max_idN) by lia.
    assert (Ha : attached lk0 (s_id meta_session)) by (unfold attached, lk0; cbn; discriminate).
    pose proof (register_wf cfg lk0 d meta_session (N.of_nat (List.length procs) + 1) [("disclose_caller", VBool true)] name Wd Ha Hd) as W1.
    pose proof (register_idgen cfg d meta_session (N.of_nat (List.length procs) + 1) [("disclose_caller", VBool true)] name Hd) as I1.
    pose proof (register_cr_nonempty cfg d meta_session (N.of_nat (List.length procs) + 1) [("disclose_caller", VBool true)] name Hc) as C1.
    pose proof (register_frame cfg d meta_session (N.of_nat (List.length procs) + 1) [("disclose_caller", VBool true)] name) as F1.
    pose proof (regs_pos_register cfg d meta_session (N.of_nat (List.length procs) + 1) [("disclose_caller", VBool true)] name Hpos (wf_regs _ _ Wd) Hd) as P1.
    rewrite <- (init_f_fst cfg d procs name) in W1, I1, C1, F1, P1.
    destruct (init_f cfg (d, procs) name) as [d1 procs']. cbn [fst] in *.
    destruct (IH d1 procs' (j + 1)) as (A & B & C & D & E); auto; try lia; try congruence.
    cbv zeta. split; [exact A|]. split; [lia|]. split; [exact C|]. split; [exact D|exact E].
Qed.

Lemma meta_regs_same_init : forall d, dealer_wf lk0 d -> regs_pos d -> meta_regs_same d d.
Proof.
  intros d W Pos. split; [|split; [|exact Pos]].
  - intros id rg H. exists rg. repeat split; auto.
    destruct (rw_callees _ (wf_regs _ _ W) id rg H) as (Hne & _).
    destruct (reg_callees rg) as [|c l] eqn:E; [congruence|].
    assert (A : attached lk0 c) by (eapply (wf_regs_att _ _ W); [exact H|rewrite E; now left]).
    unfold attached, lk0 in A. destruct (N.eqb_spec c meta_id); [subst; now left|]. cbn in A. congruence.
  - intros id rg H _. congruence.
Qed.

Definition k0 (cfg : config) : N :=
  N.of_nat (List.length (c_hist cfg)) + N.of_nat (List.length (meta_proc_names cfg)).

Lemma preinit_sess : forall cfgs b, b_sess (preinit_history b cfgs) = b_sess b.
Proof.
  unfold preinit_history. induction cfgs as [|c cfgs IH]; intros b; cbn [fold_left]; [reflexivity|].
  rewrite IH. unfold init_subscription.
  destruct (sget _ _) as [id|].
  - destruct (nget (b_subs b) id); reflexivity.
  - cbn. destruct (mkind_of (hc_match c)); reflexivity.
Qed.

Theorem init_realm_wf : forall cfg,
    k0 cfg <= max_idN ->
    realm_wf (init_realm cfg) /\ ids_below (k0 cfg) (init_realm cfg).
Proof.
  intros cfg Hk. unfold k0 in Hk. unfold init_realm.
  destruct (preinit_wf_gen (c_hist cfg) empty_broker empty_wf) as [Wb Ib]; [cbn; lia|].
  assert (Cn : cr_nonempty (d_callee_regs empty_dealer)) by (intros x ids; discriminate).
  assert (Hm : 0 + N.of_nat (List.length (meta_proc_names cfg)) <= max_idN) by lia.
  assert (Pn : regs_pos empty_dealer) by (intros x rg; discriminate).
  pose proof (init_fold_wf cfg (meta_proc_names cfg) empty_dealer [] 0 (empty_dealer_wf lk0)
                           (N.le_refl 0) Cn eq_refl Pn Hm) as Fd.
  cbv zeta in Fd. destruct Fd as (Wd & Id & Cd & Ed & Pd).
  change (fold_left _ (meta_proc_names cfg) (empty_dealer, [])) with (fold_left (init_f cfg) (meta_proc_names cfg) (empty_dealer, [])).
  destruct (fold_left (init_f cfg) (meta_proc_names cfg) (empty_dealer, [])) as [d procs] eqn:Efold. cbn [fst] in *.
  split.
  - constructor; cbn [r_meta r_clients r_broker r_dealer r_testaments r_cfg]; auto.
    + intros s [].
    + intros sid H. rewrite preinit_sess in H. cbn in H. congruence.
    + intros sid H. cbn in H. congruence.
    + constructor.
    + intros c x. rewrite Ed. discriminate.
    + apply hist_same_refl.
    + unfold dealer0. rewrite Efold. cbn [fst]. apply (meta_regs_same_init d Wd Pd).
  - unfold ids_below, k0. cbn [r_broker r_dealer]. cbn in Ib. split; [lia|]. split; [lia|].
    intros x s E. unfold lookup in E. cbn [r_meta r_clients] in E.
    destruct (N.eqb x meta_id); [inversion E; cbn; lia|discriminate].
Qed.

(** ** Every reachable realm *)
Lemma run_app1 : forall ops o r, fst (run r (ops ++ [o])) = fst (step (fst (run r ops)) o).
Proof.
  intros ops o r. unfold run. rewrite fold_left_app. cbn [fold_left].
  destruct (fold_left _ ops (r, [])) as [r1 acc]. cbn [fst]. destruct (step r1 o). reflexivity.
Qed.

Theorem run_wf : forall ops r k,
    realm_wf r -> ids_below k r -> Forall op_ok ops -> k + N.of_nat (List.length ops) <= max_idN ->
    realm_wf (fst (run r ops)) /\ ids_below (k + N.of_nat (List.length ops)) (fst (run r ops)).
Proof.
  intros ops; induction ops as [|o ops IH] using rev_ind; intros r k W I Ho Hk.
  - cbn. split; [exact W|]. eapply ids_below_mono; [exact I|lia].
  - rewrite run_app1. rewrite app_length in *. cbn [List.length] in *.
    apply Forall_app in Ho. destruct Ho as [Ho1 Ho2]. inversion Ho2; subst.
    destruct (IH r k W I Ho1) as [W1 I1]; [lia|].
    replace (k + N.of_nat (List.length ops + 1)) with (k + N.of_nat (List.length ops) + 1) by lia.
    apply step_wf; auto. lia.
Qed.

Theorem reachable_realm_wf : forall cfg ops,
    Forall op_ok ops -> k0 cfg + N.of_nat (List.length ops) <= max_idN ->
    realm_wf (fst (run (init_realm cfg) ops)).
Proof.
  intros cfg ops Ho Hk. destruct (init_realm_wf cfg) as [W I]; [lia|].
  apply (run_wf ops (init_realm cfg) (k0 cfg) W I Ho Hk).
Qed.
