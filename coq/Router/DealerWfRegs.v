(** * Dealer proofs, part 5: the registration side of [dealer_wf] is preserved
    by REGISTER, UNREGISTER, the cursor update of CALL and the removal of a
    session's registrations. *)
From Nexus Require Import Router.Dealer Router.DealerLib Router.DealerProofs Router.DealerReg.
From Coq Require Import Lia ZifyN ZifyNat ZifyBool.

Ltac neq :=
  repeat match goal with
  | H : context [N.eqb ?a ?b] |- _ => destruct (N.eqb_spec a b); [try subst|]
  | |- context [N.eqb ?a ?b] => destruct (N.eqb_spec a b); [try subst|]
  | H : context [String.eqb ?a ?b] |- _ => destruct (String.eqb_spec a b); [try subst|]
  | |- context [String.eqb ?a ?b] => destruct (String.eqb_spec a b); [try subst|]
  end.

(** ** [d_set_map] *)
Lemma d_map_set_same : forall d k m, d_map (d_set_map d k m) k = m.
Proof. intros d [] m; reflexivity. Qed.
Lemma d_map_set_other : forall d k m k', k' <> k -> d_map (d_set_map d k m) k' = d_map d k'.
Proof. intros d [] m [] H; try reflexivity; congruence. Qed.
Lemma d_regs_set_map : forall d k m, d_regs (d_set_map d k m) = d_regs d.
Proof. intros d [] m; reflexivity. Qed.
Lemma d_callee_regs_set_map : forall d k m, d_callee_regs (d_set_map d k m) = d_callee_regs d.
Proof. intros d [] m; reflexivity. Qed.
Lemma d_idgen_set_map : forall d k m, d_idgen (d_set_map d k m) = d_idgen d.
Proof. intros d [] m; reflexivity. Qed.
Lemma d_calls_set_map : forall d k m, d_calls (d_set_map d k m) = d_calls d.
Proof. intros d [] m; reflexivity. Qed.
Lemma d_invs_set_map : forall d k m, d_invs (d_set_map d k m) = d_invs d.
Proof. intros d [] m; reflexivity. Qed.
Lemma d_bycall_set_map : forall d k m, d_bycall (d_set_map d k m) = d_bycall d.
Proof. intros d [] m; reflexivity. Qed.
Lemma d_timers_set_map : forall d k m, d_timers (d_set_map d k m) = d_timers d.
Proof. intros d [] m; reflexivity. Qed.
Lemma d_timergen_set_map : forall d k m, d_timergen (d_set_map d k m) = d_timergen d.
Proof. intros d [] m; reflexivity. Qed.

Lemma mkind_eq_dec : forall a b : mkind, {a = b} + {a <> b}.
Proof. decide equality. Qed.

(** ** The per-session list of registration ids *)
Definition crids (l : list (N * list N)) (sid : N) : list N :=
  match nget l sid with Some x => x | None => [] end.

Lemma crids_add : forall l sid id sid' x,
    In x (crids (callee_add_reg l sid id) sid') <-> In x (crids l sid') \/ (sid' = sid /\ x = id).
Proof.
  intros l sid id sid' x. unfold crids, callee_add_reg.
  destruct (nget l sid) as [ids|] eqn:E.
  - destruct (nmem id ids) eqn:M.
    + apply nmem_In in M. split; [auto|]. intros [H|[-> ->]]; [exact H | rewrite E; exact M].
    + rewrite nget_nset. neq.
      * rewrite E, in_app_iff. cbn. intuition.
      * intuition.
  - rewrite nget_nset. neq.
    + rewrite E. cbn. intuition.
    + intuition.
Qed.

Lemma crids_del : forall l sid id sid' x,
    In x (crids (callee_del_reg l sid id) sid') <-> In x (crids l sid') /\ ~ (sid' = sid /\ x = id).
Proof.
  intros l sid id sid' x. unfold crids, callee_del_reg.
  destruct (nget l sid) as [ids|] eqn:E.
  - destruct (nremove id ids) as [|a t] eqn:R.
    + rewrite nget_ndel. neq.
      * rewrite E. split; [intros []|]. intros [H Hn].
        assert (In x (nremove id ids)) by (apply In_nremove; split; [exact H | intros ->; apply Hn; auto]).
        rewrite R in H0. destruct H0.
      * intuition.
    + rewrite nget_nset. neq.
      * rewrite E, <- R, In_nremove. intuition.
      * intuition.
  - split; [|tauto]. intros H. split; [exact H|]. intros [-> ->]. rewrite E in H. destruct H.
Qed.

Lemma crids_ndel : forall l sid sid' x,
    In x (crids (ndel l sid) sid') <-> In x (crids l sid') /\ sid' <> sid.
Proof. intros l sid sid' x. unfold crids. rewrite nget_ndel. neq; cbn; intuition. Qed.

Lemma NoDup_keys_add : forall l sid id, NoDup (map fst l) -> NoDup (map fst (callee_add_reg l sid id)).
Proof.
  intros l sid id H. unfold callee_add_reg.
  destruct (nget l sid); [destruct (nmem id l0); [exact H|]|]; apply NoDup_keys_aset; auto using N.eqb_spec.
Qed.

Lemma NoDup_keys_del : forall l sid id, NoDup (map fst l) -> NoDup (map fst (callee_del_reg l sid id)).
Proof.
  intros l sid id H. unfold callee_del_reg.
  destruct (nget l sid); [|exact H].
  destruct (nremove id l0); [apply NoDup_keys_adel | apply NoDup_keys_aset]; auto using N.eqb_spec.
Qed.

(** ** Frame: only the six registration-side fields matter *)
Definition regs_side_eq (d d' : dealer) : Prop :=
  d_exact d' = d_exact d /\ d_pfx d' = d_pfx d /\ d_wc d' = d_wc d /\ d_regs d' = d_regs d /\
  d_callee_regs d' = d_callee_regs d /\ d_idgen d' = d_idgen d.

Lemma regs_side_map : forall d d', regs_side_eq d d' -> forall k, d_map d' k = d_map d k.
Proof. intros d d' (E1 & E2 & E3 & _) []; cbn; assumption. Qed.

Lemma regs_core_ext : forall d d', regs_side_eq d d' -> regs_core d -> regs_core d'.
Proof.
  intros d d' S [A B C D E F]. pose proof (regs_side_map d d' S) as M.
  destruct S as (_ & _ & _ & E4 & E5 & E6).
  constructor.
  - intros k p id. rewrite M, E4. apply A.
  - intros id r. rewrite M, E4, E6. apply B.
  - intros id r. rewrite E4. apply C.
  - intros k. rewrite M. apply D.
  - rewrite E4. exact E.
  - rewrite E5. exact F.
Qed.

Lemma cr_ok_ext : forall d d' sid, d_regs d' = d_regs d -> d_callee_regs d' = d_callee_regs d ->
    cr_ok d sid -> cr_ok d' sid.
Proof. intros d d' sid E1 E2 H id. unfold cr_ok, callee_reg_ids in *. rewrite E1, E2. apply H. Qed.

Lemma regs_att_ext : forall lookup d d', d_regs d' = d_regs d -> regs_att lookup d -> regs_att lookup d'.
Proof. intros lookup d d' E H id r c. rewrite E. apply H. Qed.

(** ** Replacing a registration by one with the same id, procedure, match kind *)
Lemma regs_core_replace : forall d rid r r',
    regs_core d -> nget (d_regs d) rid = Some r ->
    reg_id r' = reg_id r -> reg_proc r' = reg_proc r -> reg_match r' = reg_match r ->
    reg_callees r' <> [] -> NoDup (reg_callees r') ->
    ((2 <= List.length (reg_callees r'))%nat -> shared_policy (reg_policy r') = true) ->
    regs_core (d_set_regs d (nset (d_regs d) rid r')).
Proof.
  intros d rid r r' [A B C D E F] Hr E1 E2 E3 C1 C2 C3.
  assert (Hk : reg_kind r' = reg_kind r) by (unfold reg_kind; rewrite E3; reflexivity).
  constructor; dproj.
  - intros k p id H. change (d_map (d_set_regs d (nset (d_regs d) rid r')) k) with (d_map d k) in H.
    destruct (A _ _ _ H) as (r0 & Hr0 & Hp & Hkk). rewrite nget_nset. neq.
    + exists r'. assert (r0 = r) by congruence. subst. repeat split; congruence.
    + eauto.
  - intros id r0. rewrite nget_nset.
    change (d_map (d_set_regs d (nset (d_regs d) rid r')) (reg_kind r0)) with (d_map d (reg_kind r0)). neq.
    + intros H; inversion H; subst r0. destruct (B _ _ Hr) as (B1 & B2 & B3).
      rewrite E1, Hk, E2. auto.
    + apply B.
  - intros id r0. rewrite nget_nset. neq.
    + intros H; inversion H; subst r0. auto.
    + apply C.
  - intros k. change (d_map (d_set_regs d (nset (d_regs d) rid r')) k) with (d_map d k). apply D.
  - apply NoDup_keys_aset; auto using N.eqb_spec.
  - exact F.
Qed.

(** ** REGISTER *)
Lemma reg_lookup_some : forall d m proc r, regs_core d -> reg_lookup d m proc = Some r ->
    nget (d_regs d) (reg_id r) = Some r /\ reg_proc r = proc /\ reg_kind r = mkind_of m /\
    sget (d_map d (mkind_of m)) proc = Some (reg_id r).
Proof.
  intros d m proc r W H. unfold reg_lookup in H.
  destruct (sget (d_map d (mkind_of m)) proc) as [id|] eqn:E; [|discriminate].
  destruct (rw_map _ W _ _ _ E) as (r0 & Hr0 & Hp & Hk). assert (r0 = r) by congruence. subst r0.
  destruct (rw_reg _ W _ _ H) as (Hid & _). subst id. auto.
Qed.

Lemma reg_lookup_none : forall d m proc, regs_core d -> reg_lookup d m proc = None ->
    sget (d_map d (mkind_of m)) proc = None.
Proof.
  intros d m proc W H. unfold reg_lookup in H.
  destruct (sget (d_map d (mkind_of m)) proc) as [id|] eqn:E; [|reflexivity].
  destruct (rw_map _ W _ _ _ E) as (r0 & Hr0 & _). congruence.
Qed.

Lemma register_cases : forall cfg d callee req opts proc,
    let d' := fst (fst (register cfg d callee req opts proc)) in
    d' = d \/
    (exists r, reg_lookup d (opt_string opts "match") proc = Some r /\
               share_ok r (opt_string opts "invoke") (s_id callee) = true /\ d' = share_state d r (s_id callee) (opt_bool opts "disclose_caller") (opt_bool opts "forward_timeout")) \/
    (reg_lookup d (opt_string opts "match") proc = None /\ d' = new_state d opts proc (s_id callee)).
Proof.
  intros cfg d callee req opts proc d'. subst d'.
  destruct (valid_uri (c_strict cfg) (opt_string opts "match") proc) eqn:Hv.
  2:{ rewrite register_invalid_uri by assumption. auto. }
  destruct (str_prefix_wamp proc && negb (N.eqb (s_id callee) meta_id)) eqn:Hw.
  { unfold register. rewrite Hv. cbn [negb]. rewrite Hw. auto. }
  destruct (reg_disclose_refused cfg callee opts) eqn:Hd.
  { rewrite register_disclose_refused by assumption. auto. }
  assert (Hpre : reg_prechecks cfg callee opts proc) by (unfold reg_prechecks; auto).
  destruct (reg_lookup d (opt_string opts "match") proc) as [r|] eqn:Hl.
  - rewrite (register_existing _ _ _ _ _ _ r Hpre Hl).
    destruct (share_ok r (opt_string opts "invoke") (s_id callee)) eqn:Hs; cbn [fst]; [|auto].
    right; left. exists r. auto.
  - rewrite (register_new _ _ _ _ _ _ Hpre Hl). cbn [fst]. auto.
Qed.

Lemma share_state_wf : forall lookup d r sid disc fwd,
    regs_core d -> (forall s, cr_ok d s) -> regs_att lookup d -> attached lookup sid ->
    nget (d_regs d) (reg_id r) = Some r -> shared_policy (reg_policy r) = true -> ~ In sid (reg_callees r) ->
    regs_core (share_state d r sid disc fwd) /\ (forall s, cr_ok (share_state d r sid disc fwd) s) /\
    regs_att lookup (share_state d r sid disc fwd).
Proof.
  intros lookup d r sid disc fwd W CR AT Hsid Hr Hsp Hni.
  destruct (rw_callees _ W _ _ Hr) as (C1 & C2 & C3).
  assert (W1 : regs_core (d_set_regs d (nset (d_regs d) (reg_id r) (reg_add_callee r sid disc fwd)))).
  { eapply regs_core_replace; eauto; cbn [reg_add_callee reg_callees reg_policy];
      first [ solve [destruct (reg_callees r); discriminate]
            | solve [apply NoDup_app_single; assumption]
            | solve [intros _; exact Hsp] ]. }
  split; [|split].
  - unfold share_state. destruct W1 as [A B C D E F].
    constructor; dproj; auto. apply NoDup_keys_add. exact F.
  - intros s id. unfold share_state, callee_reg_ids. dproj. fold (crids (callee_add_reg (d_callee_regs d) sid (reg_id r)) s).
    rewrite crids_add. specialize (CR s id). unfold callee_reg_ids in CR. fold (crids (d_callee_regs d) s) in CR.
    rewrite CR. rewrite nget_nset. split.
    + intros [(r0 & Hr0 & Hin)|[-> ->]].
      * neq.
        -- exists (reg_add_callee r sid disc fwd). split; [reflexivity|]. assert (r0 = r) by congruence. subst.
           cbn [reg_add_callee reg_callees]. apply in_or_app. auto.
        -- eauto.
      * rewrite N.eqb_refl. exists (reg_add_callee r sid disc fwd). split; [reflexivity|].
        cbn [reg_add_callee reg_callees]. apply in_or_app. cbn. auto.
    + intros (r0 & Hr0 & Hin). neq.
      * inversion Hr0; subst r0. cbn [reg_add_callee reg_callees] in Hin. apply in_app_or in Hin.
        destruct Hin as [Hin|[->|[]]]; [left; eauto | right; auto].
      * left. eauto.
  - intros id r0 c. unfold share_state. dproj. rewrite nget_nset. neq.
    + intros H; inversion H; subst r0. cbn [reg_add_callee reg_callees]. intros Hin. apply in_app_or in Hin.
      destruct Hin as [Hin|[->|[]]]; [eapply AT; eauto | exact Hsid].
    + apply AT.
Qed.

Section NewState.
  Variables (d : dealer) (opts : dict) (proc : string) (sid : N).
  Let r := new_reg d opts proc sid.
  Let k := mkind_of (opt_string opts "match").
  Let S := new_state d opts proc sid.
  Lemma ns_regs : d_regs S = nset (d_regs d) (reg_id r) r.
  Proof. unfold S, new_state. destruct (mkind_of _); reflexivity. Qed.
  Lemma ns_map_same : d_map S k = sset (d_map d k) proc (reg_id r).
  Proof. unfold S, k, new_state. destruct (mkind_of _); reflexivity. Qed.
  Lemma ns_map_other : forall k', k' <> k -> d_map S k' = d_map d k'.
  Proof. unfold S, k, new_state. intros k' H. destruct (mkind_of _), k'; try reflexivity; congruence. Qed.
  Lemma ns_callee_regs : d_callee_regs S = callee_add_reg (d_callee_regs d) sid (reg_id r).
  Proof. unfold S, new_state. destruct (mkind_of _); reflexivity. Qed.
  Lemma ns_idgen : d_idgen S = reg_id r.
  Proof. unfold S, new_state. destruct (mkind_of _); reflexivity. Qed.
End NewState.

Lemma new_state_wf : forall lookup d opts proc sid,
    regs_core d -> (forall s, cr_ok d s) -> regs_att lookup d -> attached lookup sid ->
    d_idgen d < max_idN ->
    sget (d_map d (mkind_of (opt_string opts "match"))) proc = None ->
    regs_core (new_state d opts proc sid) /\ (forall s, cr_ok (new_state d opts proc sid) s) /\
    regs_att lookup (new_state d opts proc sid).
Proof.
  intros lookup d opts proc sid W CR AT Hsid Hnw Hnone.
  set (k := mkind_of (opt_string opts "match")) in *.
  set (r := new_reg d opts proc sid).
  assert (Hid : reg_id r = d_idgen d + 1) by (cbn [r new_reg reg_id]; apply idgen_next_nowrap; exact Hnw).
  assert (Hfresh : nget (d_regs d) (reg_id r) = None).
  { destruct (nget (d_regs d) (reg_id r)) as [r0|] eqn:E; [|reflexivity].
    destruct (rw_reg _ W _ _ E) as (_ & _ & Hle). lia. }
  assert (Hkr : reg_kind r = k) by reflexivity.
  assert (Hpr : reg_proc r = proc) by reflexivity.
  assert (Hcr : reg_callees r = [sid]) by reflexivity.
  destruct W as [A B C D E F].
  pose proof (ns_regs d opts proc sid) as NR. pose proof (ns_map_same d opts proc sid) as NM.
  pose proof (ns_map_other d opts proc sid) as NO. pose proof (ns_callee_regs d opts proc sid) as NC.
  pose proof (ns_idgen d opts proc sid) as NI. fold r k in NR, NM, NO, NC, NI.
  set (S := new_state d opts proc sid) in *.
  split; [|split].
  - constructor.
    + intros k' p id. rewrite NR, nget_nset.
      destruct (mkind_eq_dec k' k) as [->|Hk].
      * rewrite NM, sget_sset. destruct (String.eqb_spec p proc) as [->|Hpp].
        -- intros H; inversion H; subst id. rewrite N.eqb_refl. exists r. auto.
        -- intros H. destruct (A _ _ _ H) as (r0 & Hr0 & Hp & Hkk).
           destruct (N.eqb_spec id (reg_id r)) as [->|]; [congruence | eauto].
      * rewrite NO by assumption. intros H.
        destruct (A _ _ _ H) as (r0 & Hr0 & Hp & Hkk).
        destruct (N.eqb_spec id (reg_id r)) as [->|]; [congruence | eauto].
    + intros id r0. rewrite NR, NI, nget_nset. destruct (N.eqb_spec id (reg_id r)) as [->|Hne].
      * intros H; inversion H; subst r0. rewrite Hkr, Hpr, NM, sget_sset, String.eqb_refl.
        repeat split; auto. lia.
      * intros H. destruct (B _ _ H) as (B1 & B2 & B3). split; [exact B1|]. split; [|lia].
        destruct (mkind_eq_dec (reg_kind r0) k) as [Hk|Hk].
        -- rewrite Hk, NM, sget_sset. rewrite Hk in B2.
           destruct (String.eqb_spec (reg_proc r0) proc) as [Hpp|Hpp]; [congruence | exact B2].
        -- rewrite NO by assumption. exact B2.
    + intros id r0. rewrite NR, nget_nset. destruct (N.eqb_spec id (reg_id r)) as [->|Hne].
      * intros H; inversion H; subst r0. rewrite Hcr. repeat split; [discriminate | | cbn; lia].
        constructor; [intros [] | constructor].
      * apply C.
    + intros k'. destruct (mkind_eq_dec k' k) as [->|Hk].
      * rewrite NM. apply NoDup_keys_aset; auto using String.eqb_spec.
      * rewrite NO by assumption. apply D.
    + rewrite NR. apply NoDup_keys_aset; auto using N.eqb_spec.
    + rewrite NC. apply NoDup_keys_add. exact F.
  - intros s id. unfold cr_ok, callee_reg_ids. rewrite NC, NR.
    fold (crids (callee_add_reg (d_callee_regs d) sid (reg_id r)) s).
    rewrite crids_add. specialize (CR s id). unfold callee_reg_ids in CR. fold (crids (d_callee_regs d) s) in CR.
    rewrite CR, nget_nset. split.
    + intros [(r0 & Hr0 & Hin)|[-> ->]].
      * destruct (N.eqb_spec id (reg_id r)) as [->|Hne]; [congruence | eauto].
      * rewrite N.eqb_refl. exists r. rewrite Hcr. cbn. auto.
    + intros (r0 & Hr0 & Hin). destruct (N.eqb_spec id (reg_id r)) as [->|Hne].
      * inversion Hr0; subst r0. rewrite Hcr in Hin. destruct Hin as [->|[]]. auto.
      * left. eauto.
  - intros id r0 c. rewrite NR, nget_nset. destruct (N.eqb_spec id (reg_id r)) as [->|Hne].
    + intros H; inversion H; subst r0. rewrite Hcr. intros [->|[]]. exact Hsid.
    + apply AT.
Qed.

Theorem register_regs_wf : forall cfg lookup d callee req opts proc,
    regs_core d -> (forall s, cr_ok d s) -> regs_att lookup d ->
    attached lookup (s_id callee) -> d_idgen d < max_idN ->
    let d' := fst (fst (register cfg d callee req opts proc)) in
    regs_core d' /\ (forall s, cr_ok d' s) /\ regs_att lookup d'.
Proof.
  intros cfg lookup d callee req opts proc W CR AT Hs Hn d'.
  destruct (register_cases cfg d callee req opts proc) as [E|[(r & Hl & Hok & E)|(Hl & E)]];
    fold d' in E; rewrite E.
  - auto.
  - destruct (reg_lookup_some _ _ _ _ W Hl) as (Hr & _).
    apply share_ok_iff in Hok. destruct Hok as (Hp & _ & Hni).
    apply share_state_wf; auto. apply shared_policy_iff. exact Hp.
  - apply new_state_wf; auto. apply reg_lookup_none; assumption.
Qed.

Lemma register_calls_same : forall cfg d callee req opts proc,
    let d' := fst (fst (register cfg d callee req opts proc)) in
    d_calls d' = d_calls d /\ d_invs d' = d_invs d /\ d_bycall d' = d_bycall d /\
    d_timers d' = d_timers d /\ d_timergen d' = d_timergen d.
Proof.
  intros cfg d callee req opts proc d'.
  destruct (register_cases cfg d callee req opts proc) as [E|[(r & Hl & Hok & E)|(Hl & E)]];
    fold d' in E; rewrite E.
  - auto.
  - repeat split; reflexivity.
  - unfold new_state. dproj.
    rewrite d_calls_set_map, d_invs_set_map, d_bycall_set_map, d_timers_set_map, d_timergen_set_map.
    repeat split; reflexivity.
Qed.

(** ** The cursor update of CALL *)
Lemma call_d0_wf : forall lookup d r next,
    regs_core d -> (forall s, cr_ok d s) -> regs_att lookup d -> nget (d_regs d) (reg_id r) = Some r ->
    let d' := d_set_regs d (nset (d_regs d) (reg_id r) (reg_set_next r next)) in
    regs_core d' /\ (forall s, cr_ok d' s) /\ regs_att lookup d'.
Proof.
  intros lookup d r next W CR AT Hr d'.
  destruct (rw_callees _ W _ _ Hr) as (C1 & C2 & C3).
  split; [|split].
  - eapply regs_core_replace; eauto.
  - intros s id. unfold cr_ok, callee_reg_ids, d'. dproj. rewrite (CR s id), nget_nset.
    destruct (N.eqb_spec id (reg_id r)) as [->|Hne]; [|tauto]. split.
    + intros (r0 & Hr0 & Hin). assert (r0 = r) by congruence. subst. eauto.
    + intros (r0 & Hr0 & Hin). inversion Hr0; subst r0. eauto.
  - intros id r0 c. unfold d'. dproj. rewrite nget_nset.
    destruct (N.eqb_spec id (reg_id r)) as [->|Hne]; [|apply AT].
    intros H; inversion H; subst r0. cbn [reg_set_next reg_callees]. eapply AT; eauto.
Qed.

(** ** Removing one callee from one registration ([del_callee_reg]) *)
Lemma nremove1_nil_only : forall x l, NoDup l -> In x l -> nremove1 x l = [] -> forall c, In c l -> c = x.
Proof.
  intros x l ND Hin E c Hc. destruct (N.eq_dec c x) as [|Hne]; [assumption|]. exfalso.
  assert (In c (nremove1 x l)) by (apply In_nremove1_other; assumption). rewrite E in H. destruct H.
Qed.

Record del_effect (d d' : dealer) (sid id0 : N) (res : option bool) : Prop := {
  de_shrink : forall id r', nget (d_regs d') id = Some r' ->
      exists r, nget (d_regs d) id = Some r /\ forall c, In c (reg_callees r') -> In c (reg_callees r);
  de_others : forall id r, nget (d_regs d) id = Some r -> (id <> id0 \/ res = None) -> nget (d_regs d') id = Some r;
  de_gone : res <> None -> forall r', nget (d_regs d') id0 = Some r' -> ~ In sid (reg_callees r');
  de_was : res <> None -> exists r, nget (d_regs d) id0 = Some r /\ In sid (reg_callees r) /\
      forall c, c <> sid -> In c (reg_callees r) -> exists r', nget (d_regs d') id0 = Some r' /\ In c (reg_callees r');
  de_none : res = None -> d' = d /\ forall r, nget (d_regs d) id0 = Some r -> ~ In sid (reg_callees r);
  de_cr : d_callee_regs d' = d_callee_regs d;
  de_idgen : d_idgen d' = d_idgen d;
  de_calls : d_calls d' = d_calls d /\ d_invs d' = d_invs d /\ d_bycall d' = d_bycall d /\
             d_timers d' = d_timers d /\ d_timergen d' = d_timergen d
}.

Lemma del_callee_reg_wf : forall d sid id0 d' res,
    regs_core d -> del_callee_reg d sid id0 = (d', res) ->
    regs_core d' /\ del_effect d d' sid id0 res.
Proof.
  intros d sid id0 d' res W H.
  pose proof (del_callee_reg_cases d sid id0) as Hc.
  destruct (nget (d_regs d) id0) as [r|] eqn:Hr.
  2:{ rewrite Hc in H. inversion H; subst. split; [exact W|].
      constructor; try tauto; try congruence; eauto.
      intros _. split; [reflexivity|]. congruence. }
  destruct (nmem sid (reg_callees r)) eqn:Hm.
  2:{ rewrite Hc in H. inversion H; subst. split; [exact W|]. apply nmem_false in Hm.
      constructor; try tauto; try congruence; eauto.
      intros _. split; [reflexivity|]. intros r0 E. assert (r0 = r) by congruence. subst. exact Hm. }
  apply nmem_In in Hm.
  destruct (rw_callees _ W _ _ Hr) as (C1 & C2 & C3).
  destruct (rw_reg _ W _ _ Hr) as (Hid & Hmap & Hle).
  destruct (nremove1 sid (reg_callees r)) as [|c0 cs] eqn:Hrm.
  - (* the registration is deleted *)
    rewrite Hc in H. inversion H; subst d' res. clear H Hc.
    pose proof (nremove1_nil_only sid _ C2 Hm Hrm) as Honly.
    destruct W as [A B C D E F].
    split.
    + constructor.
      * intros k p id. rewrite d_regs_set_map. dproj. rewrite nget_ndel.
        destruct (mkind_eq_dec k (reg_kind r)) as [->|Hk].
        -- rewrite d_map_set_same. change (d_map (d_set_regs d ?x) ?kk) with (d_map d kk). rewrite sget_sdel.
           destruct (String.eqb_spec p (reg_proc r)) as [->|Hp]; [discriminate|].
           intros Hs. destruct (A _ _ _ Hs) as (r0 & Hr0 & Hp0 & Hk0).
           destruct (N.eqb_spec id id0) as [->|]; [|eauto]. exfalso. assert (r0 = r) by congruence. subst. congruence.
        -- rewrite d_map_set_other by assumption. change (d_map (d_set_regs d ?x) ?kk) with (d_map d kk).
           intros Hs. destruct (A _ _ _ Hs) as (r0 & Hr0 & Hp0 & Hk0).
           destruct (N.eqb_spec id id0) as [->|]; [|eauto]. exfalso. assert (r0 = r) by congruence. subst. congruence.
      * intros id r0. rewrite d_regs_set_map, d_idgen_set_map. dproj. rewrite nget_ndel.
        destruct (N.eqb_spec id id0) as [->|Hne]; [discriminate|]. intros Hr0.
        destruct (B _ _ Hr0) as (B1 & B2 & B3). split; [exact B1|]. split; [|exact B3].
        destruct (mkind_eq_dec (reg_kind r0) (reg_kind r)) as [Hk|Hk].
        -- rewrite Hk, d_map_set_same. change (d_map (d_set_regs d ?x) ?kk) with (d_map d kk). rewrite sget_sdel.
           rewrite Hk in B2. destruct (String.eqb_spec (reg_proc r0) (reg_proc r)) as [Hp|Hp]; [|exact B2].
           exfalso. rewrite Hp in B2. congruence.
        -- rewrite d_map_set_other by assumption. exact B2.
      * intros id r0. rewrite d_regs_set_map. dproj. rewrite nget_ndel.
        destruct (N.eqb_spec id id0); [discriminate | apply C].
      * intros k. destruct (mkind_eq_dec k (reg_kind r)) as [->|Hk].
        -- rewrite d_map_set_same. apply NoDup_keys_adel; auto using String.eqb_spec. apply D.
        -- rewrite d_map_set_other by assumption. apply D.
      * rewrite d_regs_set_map. dproj. apply NoDup_keys_adel; auto using N.eqb_spec.
      * rewrite d_callee_regs_set_map. exact F.
    + constructor; rewrite ?d_regs_set_map, ?d_callee_regs_set_map, ?d_idgen_set_map,
        ?d_calls_set_map, ?d_invs_set_map, ?d_bycall_set_map, ?d_timers_set_map, ?d_timergen_set_map; dproj.
      * intros id r'. rewrite nget_ndel. destruct (N.eqb_spec id id0); [discriminate | eauto].
      * intros id r0 Hr0 [Hne|Hn]; [|discriminate]. rewrite nget_ndel.
        destruct (N.eqb_spec id id0); [congruence | exact Hr0].
      * intros _ r'. rewrite nget_ndel, N.eqb_refl. discriminate.
      * intros _. exists r. repeat split; auto. intros c Hne Hin. exfalso. apply Hne. apply Honly. exact Hin.
      * discriminate.
      * reflexivity.
      * reflexivity.
      * repeat split; reflexivity.
  - (* the callee is removed, the registration stays *)
    rewrite Hc in H. inversion H; subst d' res. clear H Hc. rewrite <- Hrm in *.
    set (r' := mkReg (reg_id r) (reg_proc r) (reg_match r) (reg_policy r) (nremove1 sid (reg_disclose r))
                     (nremove1 sid (reg_fwd_timeout r)) (reg_next r) (nremove1 sid (reg_callees r))).
    split.
    + eapply regs_core_replace with (r := r) (r' := r'); eauto; cbn [r' reg_callees reg_policy].
      * rewrite Hrm. discriminate.
      * apply NoDup_nremove1. exact C2.
      * intros Hlen. apply C3.
        assert (forall l, List.length (nremove1 sid l) <= List.length l)%nat as Hl.
        { induction l as [|a l IH]; cbn; [lia|]. destruct (N.eqb sid a); cbn; lia. }
        specialize (Hl (reg_callees r)). lia.
    + constructor; dproj.
      * intros id r0. rewrite nget_nset. destruct (N.eqb_spec id id0) as [->|]; [|eauto].
        intros E; inversion E; subst r0. exists r. split; [exact Hr|].
        intros c. cbn [r' reg_callees]. apply In_nremove1.
      * intros id r0 Hr0 [Hne|Hn]; [|discriminate]. rewrite nget_nset.
        destruct (N.eqb_spec id id0); [congruence | exact Hr0].
      * intros _ r0. rewrite nget_nset, N.eqb_refl. intros E; inversion E; subst r0.
        cbn [r' reg_callees]. rewrite In_nremove1_NoDup by exact C2. tauto.
      * intros _. exists r. repeat split; auto. intros c Hne Hin. exists r'.
        rewrite nget_nset, N.eqb_refl. split; [reflexivity|].
        cbn [r' reg_callees]. apply In_nremove1_other; assumption.
      * discriminate.
      * reflexivity.
      * reflexivity.
      * repeat split; reflexivity.
Qed.

(** ** UNREGISTER *)
Lemma regs_core_set_cr : forall d l, regs_core d -> NoDup (map fst l) -> regs_core (d_set_callee_regs d l).
Proof. intros d l [A B C D E F] H. constructor; auto. Qed.

Theorem unregister_regs_wf : forall lookup d sid req regid,
    regs_core d -> (forall s, cr_ok d s) -> regs_att lookup d ->
    let d' := fst (fst (unregister d sid req regid)) in
    regs_core d' /\ (forall s, cr_ok d' s) /\ regs_att lookup d' /\
    (d_calls d' = d_calls d /\ d_invs d' = d_invs d /\ d_bycall d' = d_bycall d /\
     d_timers d' = d_timers d /\ d_timergen d' = d_timergen d).
Proof.
  intros lookup d sid req regid W CR AT d'.
  set (d0 := d_set_callee_regs d (callee_del_reg (d_callee_regs d) sid regid)).
  assert (W0 : regs_core d0) by (apply regs_core_set_cr; [exact W | apply NoDup_keys_del; apply (rw_crkeys _ W)]).
  assert (CR0 : forall s x, In x (callee_reg_ids d0 s) <->
                 (exists r, nget (d_regs d) x = Some r /\ In s (reg_callees r)) /\ ~ (s = sid /\ x = regid)).
  { intros s x. unfold callee_reg_ids, d0. dproj. fold (crids (callee_del_reg (d_callee_regs d) sid regid) s).
    rewrite crids_del. specialize (CR s x). unfold callee_reg_ids in CR. fold (crids (d_callee_regs d) s) in CR.
    rewrite CR. tauto. }
  destruct (del_callee_reg d0 sid regid) as [d1 res] eqn:Hdel.
  destruct (del_callee_reg_wf d0 sid regid d1 res W0 Hdel) as [W1 Eff].
  assert (Hd' : d' = match res with None => d0 | Some _ => d1 end).
  { unfold d', unregister. fold d0. rewrite Hdel. destruct res; reflexivity. }
  destruct res as [b|].
  - rewrite Hd'. split; [exact W1|]. split; [|split].
    + intros s x. unfold cr_ok, callee_reg_ids. rewrite (de_cr _ _ _ _ _ Eff). fold (callee_reg_ids d0 s).
      rewrite CR0. split.
      * intros [(r & Hr & Hin) Hn]. destruct (N.eq_dec x regid) as [->|Hx].
        -- assert (Hs : s <> sid) by (intros ->; apply Hn; auto).
           destruct (de_was _ _ _ _ _ Eff) as (rw & Hrw & _ & Hkeep); [discriminate|].
           assert (rw = r) by (unfold d0 in Hrw; dproj_in Hrw; congruence). subst rw.
           apply Hkeep; assumption.
        -- exists r. split; [|exact Hin]. apply (de_others _ _ _ _ _ Eff); auto.
      * intros (r' & Hr' & Hin). destruct (de_shrink _ _ _ _ _ Eff _ _ Hr') as (r & Hr & Hsub).
        split; [exists r; split; [exact Hr | auto]|].
        intros [-> ->]. eapply (de_gone _ _ _ _ _ Eff); eauto. discriminate.
    + intros id r' c Hr' Hin. destruct (de_shrink _ _ _ _ _ Eff _ _ Hr') as (r & Hr & Hsub).
      eapply AT; [exact Hr | auto].
    + destruct (de_calls _ _ _ _ _ Eff) as (E1 & E2 & E3 & E4 & E5).
      rewrite E1, E2, E3, E4, E5. repeat split; reflexivity.
  - rewrite Hd'. destruct (de_none _ _ _ _ _ Eff eq_refl) as (_ & Hnot).
    split; [exact W0|]. split; [|split].
    + intros s x. rewrite CR0. change (d_regs d0) with (d_regs d). split; [tauto|].
      intros (r & Hr & Hin). split; [eauto|]. intros [-> ->]. eapply Hnot; eauto.
    + exact AT.
    + repeat split; reflexivity.
Qed.

(** ** Removing all registrations of a departing session *)
Lemma remove_callee_reg_fst : forall sid d mp regid,
    fst (remove_callee_reg sid (d, mp) regid) = match del_callee_reg d sid regid with (d1, Some _) => d1 | (_, None) => d end.
Proof.
  intros. unfold remove_callee_reg. destruct (del_callee_reg d sid regid) as [d1 [b|]]; reflexivity.
Qed.

Record rm_inv (lookup : N -> option session) (sid : N) (d0 d : dealer) (rest : list N) : Prop := {
  ri_core : regs_core d;
  ri_cr : forall s, s <> sid -> cr_ok d s;
  ri_att : regs_att lookup d;
  ri_rest : forall id r, nget (d_regs d) id = Some r -> In sid (reg_callees r) -> In id rest;
  ri_crs : d_callee_regs d = d_callee_regs d0;
  ri_calls : d_calls d = d_calls d0 /\ d_invs d = d_invs d0 /\ d_bycall d = d_bycall d0 /\
             d_timers d = d_timers d0 /\ d_timergen d = d_timergen d0;
  ri_idgen : d_idgen d = d_idgen d0
}.

Lemma rm_inv_step : forall lookup sid d0 d mp id0 rest,
    rm_inv lookup sid d0 d (id0 :: rest) ->
    rm_inv lookup sid d0 (fst (remove_callee_reg sid (d, mp) id0)) rest.
Proof.
  intros lookup sid d0 d mp id0 rest [W CR AT R CS CL IG]. rewrite remove_callee_reg_fst.
  destruct (del_callee_reg d sid id0) as [d1 res] eqn:Hdel.
  destruct (del_callee_reg_wf d sid id0 d1 res W Hdel) as [W1 Eff].
  destruct res as [b|].
  - constructor.
    + exact W1.
    + intros s Hs x. unfold cr_ok, callee_reg_ids. rewrite (de_cr _ _ _ _ _ Eff).
      specialize (CR s Hs x). unfold callee_reg_ids in CR. rewrite CR. split.
      * intros (r & Hr & Hin). destruct (N.eq_dec x id0) as [->|Hx].
        -- destruct (de_was _ _ _ _ _ Eff) as (rw & Hrw & _ & Hkeep); [discriminate|].
           assert (rw = r) by congruence. subst rw. apply Hkeep; assumption.
        -- exists r. split; [|exact Hin]. apply (de_others _ _ _ _ _ Eff); auto.
      * intros (r' & Hr' & Hin). destruct (de_shrink _ _ _ _ _ Eff _ _ Hr') as (r & Hr & Hsub). eauto.
    + intros id r' c Hr' Hin. destruct (de_shrink _ _ _ _ _ Eff _ _ Hr') as (r & Hr & Hsub).
      eapply AT; [exact Hr | auto].
    + intros id r' Hr' Hin. destruct (N.eq_dec id id0) as [->|Hx].
      * exfalso. eapply (de_gone _ _ _ _ _ Eff); eauto. discriminate.
      * destruct (de_shrink _ _ _ _ _ Eff _ _ Hr') as (r & Hr & Hsub).
        destruct (R id r Hr (Hsub _ Hin)) as [E|E]; [congruence | exact E].
    + rewrite (de_cr _ _ _ _ _ Eff). exact CS.
    + destruct (de_calls _ _ _ _ _ Eff) as (E1 & E2 & E3 & E4 & E5). rewrite E1, E2, E3, E4, E5. exact CL.
    + rewrite (de_idgen _ _ _ _ _ Eff). exact IG.
  - destruct (de_none _ _ _ _ _ Eff eq_refl) as (_ & Hnot).
    constructor; auto.
    intros id r Hr Hin. destruct (R id r Hr Hin) as [E|E]; [|exact E].
    subst id. exfalso. eapply Hnot; eauto.
Qed.

Lemma rm_inv_fold : forall lookup sid d0 rest d mp,
    rm_inv lookup sid d0 d rest ->
    rm_inv lookup sid d0 (fst (fold_left (remove_callee_reg sid) rest (d, mp))) [].
Proof.
  induction rest as [|id0 rest IH]; intros d mp H; cbn [fold_left]; [exact H|].
  pose proof (rm_inv_step _ _ _ _ mp _ _ H) as H1.
  destruct (remove_callee_reg sid (d, mp) id0) as [d1 mp1]. cbn [fst] in H1. apply IH. exact H1.
Qed.

(** the registration side after [dealer_remove_session]'s first phase *)
Definition unreg_all (d : dealer) (sid : N) : dealer :=
  let d1 := fst (fold_left (remove_callee_reg sid) (callee_reg_ids d sid) (d, [])) in
  d_set_callee_regs d1 (ndel (d_callee_regs d1) sid).

Theorem unreg_all_wf : forall lookup lookup' d sid,
    regs_core d -> (forall s, cr_ok d s) -> regs_att lookup d ->
    (forall x, x <> sid -> attached lookup x -> attached lookup' x) ->
    let d' := unreg_all d sid in
    regs_core d' /\ (forall s, cr_ok d' s) /\ regs_att lookup' d' /\
    (forall id r, nget (d_regs d') id = Some r -> ~ In sid (reg_callees r)) /\
    (d_calls d' = d_calls d /\ d_invs d' = d_invs d /\ d_bycall d' = d_bycall d /\
     d_timers d' = d_timers d /\ d_timergen d' = d_timergen d) /\ d_idgen d' = d_idgen d.
Proof.
  intros lookup lookup' d sid W CR AT Hl d'.
  assert (H0 : rm_inv lookup sid d d (callee_reg_ids d sid)).
  { constructor; auto; try (repeat split; reflexivity).
    intros id r Hr Hin. apply (CR sid id). eauto. }
  pose proof (rm_inv_fold lookup sid d _ d [] H0) as [W1 CR1 AT1 R1 CS1 CL1 IG1].
  unfold d', unreg_all. set (d1 := fst (fold_left (remove_callee_reg sid) (callee_reg_ids d sid) (d, []))) in *.
  assert (Hno : forall id r, nget (d_regs d1) id = Some r -> ~ In sid (reg_callees r)).
  { intros id r Hr Hin. destruct (R1 id r Hr Hin). }
  split; [|split; [|split; [|split; [|split]]]].
  - apply regs_core_set_cr; [exact W1|]. apply NoDup_keys_adel; auto using N.eqb_spec. apply (rw_crkeys _ W1).
  - intros s x. unfold cr_ok, callee_reg_ids. dproj. fold (crids (ndel (d_callee_regs d1) sid) s).
    rewrite crids_ndel. destruct (N.eq_dec s sid) as [->|Hs].
    + split; [tauto|]. intros (r & Hr & Hin). exfalso. eapply Hno; eauto.
    + specialize (CR1 s Hs x). unfold callee_reg_ids in CR1. fold (crids (d_callee_regs d1) s) in CR1.
      rewrite CR1. tauto.
  - intros id r c Hr Hin. dproj_in Hr. apply Hl.
    + intros ->. eapply Hno; eauto.
    + eapply AT1; eauto.
  - exact Hno.
  - exact CL1.
  - exact IG1.
Qed.
