(** * Dealer proofs, part 10: every reply a dealer function sends belongs to a
    recorded call ([reply_owned]) and a final reply consumes the record
    ([final_reply_consumes]) — C02; no call is routed to a callee that is gone
    (C03); the initial dealer is well-formed. *)
From Nexus Require Import Router.Realm Router.DealerLib Router.DealerProofs Router.DealerReg
     Router.DealerCall Router.DealerWfCalls Router.DealerWfRegs Router.DealerWf Router.DealerRemove
     Router.DealerReply Router.DealerTimers.
From Coq Require Import Lia ZifyN ZifyNat ZifyBool.

Definition call_out (r : call_result) : list out :=
  match r with CallRefused _ o => o | CallAbort o => o | CallInvoked _ _ o => o end.

(** [m] is a reply for call [cid], owned by it in [d]; if final, [d'] has forgotten the call *)
Definition owned_reply (d d' : dealer) (m : out) : Prop :=
  forall cid fin, reply_of m = Some (cid, fin) ->
    cget (d_calls d) cid = Some (fst cid) /\ (fin = true -> cget (d_calls d') cid = None).

Lemma reply_of_interrupt : forall x q o, reply_of (x, RInterrupt q o) = None.
Proof. reflexivity. Qed.

(** ** CANCEL *)
Lemma sync_cancel_replies : forall lookup lk d caller req mode reason ea m,
    dealer_wf lookup d ->
    In m (snd (sync_cancel lk d caller req mode reason ea)) ->
    owned_reply d (fst (sync_cancel lk d caller req mode reason ea)) m /\
    (forall cid fin, reply_of m = Some (cid, fin) -> cid = (caller, req) /\ fin = true).
Proof.
  intros lookup lk d caller req mode reason ea m WF Hin.
  destruct (sync_cancel_cases lk d caller req mode reason ea) as [E|(ikey & inv & x & Hp & Hc)].
  - rewrite E in Hin. destruct Hin.
  - rewrite (sync_cancel_live _ _ _ _ _ _ _ _ _ _ Hp Hc) in *.
    destruct (wf_pending_call lookup d WF _ _ _ _ Hp) as (_ & Hx & _). cbn [fst] in Hx. subst x.
    destruct Hp as (Hcall & _).
    assert (Hi : forall mm, In mm (if negb (mode =? "skip")%string && callee_can_cancel lk inv
                                  then [interrupt_msg ikey inv reason mode] else []) -> reply_of mm = None).
    { intros mm H. destruct (negb (mode =? "skip")%string && callee_can_cancel lk inv);
        [destruct H as [<-|[]]; reflexivity | destruct H]. }
    destruct (negb (mode =? "skip")%string && callee_can_cancel lk inv && (mode =? "kill")%string); cbn [fst snd] in *.
    + destruct Hin as [<-|[]]. split; intros cid fin H; discriminate H.
    + apply in_app_or in Hin. destruct Hin as [Hin|[<-|[]]].
      * apply Hi in Hin. split; intros cid fin H; congruence.
      * split.
        -- intros cid fin H. cbn in H. inversion H; subst cid fin. split; [exact Hcall|].
           intros _. rewrite dc_calls. apply cget_cdel_same.
        -- intros cid fin H. cbn in H. inversion H. auto.
Qed.

Theorem cancel_replies : forall lookup lk d caller req opts m,
    dealer_wf lookup d -> In m (snd (cancel lk d caller req opts)) ->
    owned_reply d (fst (cancel lk d caller req opts)) m.
Proof.
  intros lookup lk d caller req opts m WF. unfold cancel.
  destruct (_ || _ || _); [intros H; eapply sync_cancel_replies; eauto|].
  destruct (String.eqb _ ""); [intros H; eapply sync_cancel_replies; eauto|].
  cbn [snd]. intros [<-|[]] cid fin H. discriminate H.
Qed.

(** ** YIELD *)
Theorem yield_replies : forall lookup lk d callee req opts args kw m,
    dealer_wf lookup d -> In m (snd (sync_yield lk d callee req opts args kw)) ->
    forall cid fin, reply_of m = Some (cid, fin) ->
      cget (d_calls d) cid = Some (fst cid) /\
      exists inv, cget (d_invs d) (callee, req) = Some inv /\ inv_call inv = cid /\
                  fin = negb (opt_bool opts "progress") /\
                  (fin = true ->
                   cget (d_calls (fst (sync_yield lk d callee req opts args kw))) cid = None).
Proof.
  intros lookup lk d callee req opts args kw m WF Hin cid fin Hr.
  pose proof (answer_routing_yield_proof lookup lk d callee req opts args kw WF) as H.
  destruct (cget (d_invs d) (callee, req)) as [inv|] eqn:Hi.
  - cbv zeta in H. destruct H as ((Hc & Hb & _) & _ & _ & Hm & _).
    destruct (Hm m Hin) as [R|(_ & R)]; [|congruence].
    rewrite R in Hr. inversion Hr; subst cid fin. split; [exact Hc|].
    exists inv. repeat split; auto. intros Hf. apply negb_true_iff in Hf.
    rewrite (sync_yield_owner _ _ _ _ _ _ _ _ Hi), Hf. cbn [fst]. unfold yield_result_state.
    rewrite dc_calls. apply cget_cdel_same.
  - rewrite H in Hin. cbn [snd] in Hin.
    destruct (opt_bool opts "progress"); [destruct Hin as [<-|[]]; discriminate Hr | destruct Hin].
Qed.

(** ** ERROR *)
Theorem error_replies : forall lookup d callee req det err args kw m,
    dealer_wf lookup d -> In m (snd (sync_error d callee req det err args kw)) ->
    owned_reply d (fst (sync_error d callee req det err args kw)) m.
Proof.
  intros lookup d callee req det err args kw m WF Hin cid fin Hr.
  pose proof (answer_routing_error_proof lookup d callee req det err args kw WF) as H.
  destruct (cget (d_invs d) (callee, req)) as [inv|] eqn:Hi.
  - destruct H as ((Hc & Hb & _) & Eo). rewrite Eo in Hin. destruct Hin as [<-|[]].
    cbn in Hr. rewrite pair_eta in Hr. inversion Hr; subst cid fin. split; [exact Hc|]. intros _.
    rewrite (sync_error_owner _ _ _ _ _ _ _ _ Hi), Hc. cbn [fst]. dproj. apply cget_cdel_same.
  - rewrite H in Hin. destruct Hin.
Qed.

(** ** Timer expiry *)
Theorem fire_timers_replies : forall lookup lk now d m,
    dealer_wf lookup d -> In m (snd (fire_timers lk now d)) ->
    owned_reply d (fst (fire_timers lk now d)) m.
Proof.
  intros lookup lk now d m WF Hin cid fin Hr.
  destruct (timeout_exact_proof lk now d m (wf_calls _ _ WF) Hin)
    as (tid & dl & c & k & inv & x & _ & _ & Hp & _ & Hgone & [->|(_ & ->)]).
  - cbn in Hr. rewrite pair_eta' in Hr. inversion Hr; subst cid fin.
    destruct (wf_pending_call lookup d WF _ _ _ _ Hp) as (_ & -> & _). destruct Hp as (Hc & _). auto.
  - discriminate Hr.
Qed.

(** ** Session removal *)
Theorem remove_session_replies : forall lookup lk d sid m,
    dealer_wf lookup d -> In m (snd (fst (dealer_remove_session lk d sid))) ->
    owned_reply d (fst (fst (dealer_remove_session lk d sid))) m.
Proof.
  intros lookup lk d sid m WF Hin cid fin Hr.
  destruct (remove_session_outputs_proof lookup lookup lk d sid WF (fun _ _ => eq_refl) m Hin)
    as (k & inv & Hi & Hs & Hc & ->).
  cbn in Hr. rewrite pair_eta in Hr. inversion Hr; subst cid fin. split; [exact Hc|]. intros _.
  destruct (prompt_callee_gone_proof lookup lookup lk d sid WF (fun _ _ => eq_refl) k inv Hi Hs) as (_ & (G & _)).
  exact G.
Qed.

(** ** CALL: the only replies are refusals of the CALL being processed, and
    every refusal leaves no record of that call (a refused further chunk ends
    the pending call) *)
Theorem call_replies : forall cfg lookup now d caller req opts proc args kw oracle m,
    dealer_wf lookup d ->
    In m (call_out (call cfg lookup now d caller req opts proc args kw oracle)) ->
    forall cid fin, reply_of m = Some (cid, fin) ->
      cid = (s_id caller, req) /\ fin = true /\
      exists d', call cfg lookup now d caller req opts proc args kw oracle = CallRefused d' [m] /\
                 cget (d_calls d') cid = None /\
                 (forall k, cget (d_bycall d) cid = Some k -> gone d' cid k) /\
                 (cget (d_bycall d) cid = None ->
                  d_calls d' = d_calls d /\ d_invs d' = d_invs d /\ d_bycall d' = d_bycall d).
Proof.
  intros cfg lookup now d caller req opts proc args kw oracle m WF Hin cid fin Hr.
  assert (Hnone : cget (d_bycall d) (s_id caller, req) = None -> cget (d_calls d) (s_id caller, req) = None).
  { intros Hb. destruct (cget (d_calls d) (s_id caller, req)) eqn:Ec; [|reflexivity].
    destruct (wf_call lookup d WF _ _ Ec) as (_ & _ & Hn). congruence. }
  assert (Hnps : cget (d_calls (no_proc_state d (s_id caller, req))) (s_id caller, req) = None /\
                 (forall k, cget (d_bycall d) (s_id caller, req) = Some k ->
                            gone (no_proc_state d (s_id caller, req)) (s_id caller, req) k) /\
                 (cget (d_bycall d) (s_id caller, req) = None ->
                  d_calls (no_proc_state d (s_id caller, req)) = d_calls d /\
                  d_invs (no_proc_state d (s_id caller, req)) = d_invs d /\
                  d_bycall (no_proc_state d (s_id caller, req)) = d_bycall d)).
  { split; [|split].
    - destruct (cget (d_bycall d) (s_id caller, req)) as [k|] eqn:Hb.
      + apply (nps_gone d _ k Hb).
      + rewrite nps_none by exact Hb. auto.
    - apply nps_gone.
    - intros Hb. rewrite nps_none by exact Hb. auto. }
  assert (Hsame : forall d', d_calls d' = d_calls d -> d_invs d' = d_invs d -> d_bycall d' = d_bycall d ->
            cget (d_bycall d) (s_id caller, req) = None ->
            cget (d_calls d') (s_id caller, req) = None /\
            (forall k, cget (d_bycall d) (s_id caller, req) = Some k -> gone d' (s_id caller, req) k) /\
            (cget (d_bycall d) (s_id caller, req) = None ->
             d_calls d' = d_calls d /\ d_invs d' = d_invs d /\ d_bycall d' = d_bycall d)).
  { intros d' E1 E2 E3 Hb. split; [rewrite E1; auto|]. split; [intros k Hk; congruence | auto]. }
  pose proof (call_cases cfg lookup now d caller req opts proc args kw oracle) as H.
  inversion H as [Hm E|r Hm Hc E|r Hm Hc Ha E|r ikey Hm Hc Ha Hb Hi E|r ikey inv Hm Hc Ha Hb Hi Hl E
                  |r ikey inv callee Hm Hc Ha Hb Hi Hl E|r Hm Hc Ha Hb Hs E|r cid0 next Hm Hc Ha Hb Hs Hl E
                  |r cid0 next callee Hm Hc Ha Hb Hs Hl Hf E
                  |r cid0 next callee Hm Hc Ha Hb Hs Hl Hf Hpa E|r cid0 next callee Hm Hc Ha Hb Hs Hl Hf Hpa Hpr E
                  |r cid0 next callee Hm Hc Ha Hb Hs Hl Hf Hpa Hpr Hd E
                  |r cid0 next callee Hm Hc Ha Hb Hs Hl Hf Hpa Hpr Hd E];
    rewrite <- E in Hin; cbn [call_out] in Hin; try (destruct Hin as [<-|[]]); try (destruct Hin; fail);
    try discriminate Hr; cbn in Hr; inversion Hr; subst cid fin;
    (split; [reflexivity|]; split; [reflexivity|]; eexists; split; [reflexivity|]).
  - exact Hnps.
  - exact Hnps.
  - apply Hsame; auto.
  - apply Hsame; auto.
  - apply Hsame; auto.
  - apply Hsame; auto.
  - apply Hsame; auto.
Qed.

(** REGISTER / UNREGISTER never send a reply to a call *)
Theorem register_no_reply : forall cfg d callee req opts proc m,
    In m (snd (fst (register cfg d callee req opts proc))) -> reply_of m = None.
Proof.
  intros cfg d callee req opts proc m. unfold register.
  repeat match goal with
         | |- context [if ?b then _ else _] => destruct b
         | |- context [match ?x with Some _ => _ | None => _ end] => destruct x
         end; cbn [fst snd]; intros [<-|[]]; reflexivity.
Qed.

Theorem unregister_no_reply : forall d sid req regid m,
    In m (snd (fst (unregister d sid req regid))) -> reply_of m = None.
Proof.
  intros d sid req regid m.
  destruct (unregister_cases d sid req regid) as [(d1 & del & _ & E)|(_ & E)]; rewrite E; cbn [fst snd];
    intros [<-|[]]; reflexivity.
Qed.

(** ** No call is routed to a callee that is gone (C03) *)
Theorem no_route_to_non_callee_proof : forall cfg lookup now d caller req opts proc args kw oracle d' callee' o sid,
    dealer_wf lookup d ->
    call cfg lookup now d caller req opts proc args kw oracle = CallInvoked d' callee' o ->
    cget (d_bycall d) (s_id caller, req) = None ->
    forall x inv_id rid det a k, In (x, RInvocation inv_id rid det a k) o ->
      exists r, nget (d_regs d) rid = Some r /\ In x (reg_callees r) /\
                ((forall rg, nget (d_regs d) rid = Some rg -> ~ In sid (reg_callees rg)) -> x <> sid).
Proof.
  intros cfg lookup now d caller req opts proc args kw oracle d' callee' o sid WF Hc Hb x inv_id rid det a k Hin.
  destruct (invocation_spec_proof _ _ _ _ _ _ _ _ _ _ _ _ _ _ Hc Hb)
    as (r & callee_id & next & callee & Hm & Hs & Hmem & Hl & Eo & _).
  rewrite Eo in Hin. destruct Hin as [E|[]]. inversion E; subst.
  apply (best_match_sound lookup d WF) in Hm. destruct Hm as [Hr _]. unfold registered in Hr.
  exists r. split; [exact Hr|]. split; [exact Hmem|]. intros Hno ->. eapply Hno; eauto.
Qed.

Theorem no_route_after_unregister_proof : forall lookup d sid req regid d' mps,
    dealer_wf lookup d ->
    unregister d sid req regid = (d', [(sid, RUnregistered req)], mps) ->
    dealer_wf lookup d' /\
    forall rg, nget (d_regs d') regid = Some rg -> ~ In sid (reg_callees rg).
Proof.
  intros lookup d sid req regid d' mps WF E.
  split; [pose proof (unregister_wf lookup d sid req regid WF) as H; rewrite E in H; exact H|].
  unfold unregister in E.
  set (d0 := d_set_callee_regs d (callee_del_reg (d_callee_regs d) sid regid)) in *.
  assert (W0 : regs_core d0).
  { apply regs_core_set_cr; [apply (wf_regs _ _ WF)|]. apply NoDup_keys_del. apply (rw_crkeys _ (wf_regs _ _ WF)). }
  destruct (del_callee_reg d0 sid regid) as [d1 [b|]] eqn:Hdel; [|inversion E].
  destruct (del_callee_reg_wf d0 sid regid d1 (Some b) W0 Hdel) as [_ Eff].
  inversion E; subst d1. intros rg Hr. eapply (de_gone _ _ _ _ _ Eff); eauto. discriminate.
Qed.

Theorem no_route_after_remove_session_proof : forall lookup lookup' lk d sid,
    dealer_wf lookup d -> (forall x, x <> sid -> lookup' x = lookup x) ->
    let d' := fst (fst (dealer_remove_session lk d sid)) in
    dealer_wf lookup' d' /\
    (forall id rg, nget (d_regs d') id = Some rg -> ~ In sid (reg_callees rg)) /\
    forall cfg now caller req opts proc args kw oracle d'' callee' o,
      call cfg lookup' now d' caller req opts proc args kw oracle = CallInvoked d'' callee' o ->
      cget (d_bycall d') (s_id caller, req) = None ->
      forall m, In m o -> fst m <> sid.
Proof.
  intros lookup lookup' lk d sid WF Hsame d'.
  destruct (dealer_remove_session_wf lookup lookup' lk d sid WF Hsame) as (WF' & _ & _ & Hno & _).
  fold d' in WF', Hno. split; [exact WF'|]. split; [exact Hno|].
  intros cfg now caller req opts proc args kw oracle d'' callee' o Hc Hb m Hin.
  destruct (invocation_spec_proof _ _ _ _ _ _ _ _ _ _ _ _ _ _ Hc Hb)
    as (r & callee_id & next & callee & Hm & Hs & Hmem & Hl & Eo & _).
  rewrite Eo in Hin. destruct Hin as [<-|[]]. cbn [fst].
  apply (best_match_sound lookup' d' WF') in Hm. destruct Hm as [Hr _]. unfold registered in Hr.
  intros ->. eapply Hno; eauto.
Qed.

(** ** The dealer of a fresh realm *)
Definition lookup0 : N -> option session :=
  fun sid => if N.eqb sid meta_id then Some meta_session else None.

Definition init_step (cfg : config) :=
  fun '((d, procs) : dealer * list (N * string)) (name : string) =>
    let '(d1, o, _) := register cfg d meta_session (N.of_nat (List.length procs) + 1) [("disclose_caller", VBool true)] name in
    match o with
    | [(_, RRegistered _ id)] => (d1, procs ++ [(id, name)])
    | _ => (d1, procs)
    end.

Lemma init_step_fst : forall cfg d procs name,
    fst (init_step cfg (d, procs) name) =
    fst (fst (register cfg d meta_session (N.of_nat (List.length procs) + 1) [("disclose_caller", VBool true)] name)).
Proof.
  intros. unfold init_step. destruct (register _ _ _ _ _ _) as [[d1 o] mp]. cbn [fst].
  destruct o as [|[x []] [|? ?]]; reflexivity.
Qed.

Lemma init_fold_wf : forall cfg names d procs,
    dealer_wf lookup0 d -> d_idgen d + N.of_nat (List.length names) < max_idN ->
    dealer_wf lookup0 (fst (fold_left (init_step cfg) names (d, procs))).
Proof.
  intros cfg. induction names as [|name names IH]; intros d procs WF Hn; cbn [fold_left]; [exact WF|].
  cbn [List.length] in Hn.
  pose proof (init_step_fst cfg d procs name) as E.
  destruct (init_step cfg (d, procs) name) as [d1 procs1]. cbn [fst] in E. subst d1.
  apply IH.
  - apply register_wf; [exact WF | unfold attached, lookup0; cbn; discriminate | lia].
  - pose proof (register_idgen cfg d meta_session (N.of_nat (List.length procs) + 1) [("disclose_caller", VBool true)] name).
    lia.
Qed.

Theorem init_realm_wf : forall cfg,
    dealer_wf (lookup (init_realm cfg)) (r_dealer (init_realm cfg)).
Proof.
  intros cfg.
  assert (Hlen : 0 + N.of_nat (List.length (meta_proc_names cfg)) < max_idN).
  { unfold meta_proc_names. destruct (c_meta_kill cfg), (c_meta_modify cfg); vm_compute; reflexivity. }
  pose proof (init_fold_wf cfg (meta_proc_names cfg) empty_dealer [] (empty_dealer_wf lookup0) Hlen) as H.
  unfold init_realm. change (fold_left _ (meta_proc_names cfg) (empty_dealer, [])) with
      (fold_left (init_step cfg) (meta_proc_names cfg) (empty_dealer, [])).
  destruct (fold_left (init_step cfg) (meta_proc_names cfg) (empty_dealer, [])) as [d procs]. cbn [fst] in H.
  cbn [r_dealer]. eapply dealer_wf_lookup_le; [|exact H].
  intros x s. unfold lookup0, lookup. cbn [r_meta r_clients].
  destruct (N.eqb x meta_id); [|discriminate]. intros E; inversion E; subst. exists meta_session. split; [reflexivity | lia].
Qed.

(** ** Best match, the three parts together *)
Theorem best_match_spec_proof : forall lookup d proc,
    dealer_wf lookup d ->
    (forall oracle r, match_procedure d proc oracle = Some r -> best_match d proc r) /\
    (forall r, best_match d proc r ->
       (exists oracle, match_procedure d proc oracle = Some r) /\
       (reg_kind r <> MWildcard -> forall oracle, match_procedure d proc oracle = Some r)) /\
    (forall oracle, match_procedure d proc oracle = None <->
                    (no_exact d proc /\ no_prefix d proc /\ no_wildcard d proc)).
Proof.
  intros lookup d proc WF. split; [|split].
  - intros oracle r. exact (best_match_sound lookup d WF proc oracle r).
  - exact (best_match_complete lookup d WF proc).
  - exact (best_match_none lookup d WF proc).
Qed.
