(** * Histories of the whole model, C13 part 4: the theorems about timeout
    ERRORs and INTERRUPTs in a history, read off the invariant [bi].

    [timeout_only_when_due_proof]: an ERROR(CALL) with URI wamp.error.timeout
    is sent to [x] either as the relay of the callee's own ERROR(INVOCATION)
    with that URI ([relayed]), or by the router in the output of a tick
    ([timed_out]): [x] opened the call with a positive timeout, a CALL of [x]
    with that request id armed the timer at clock T0, the tick crosses
    T0 + timeout, and in between the call got no final reply, no kill-mode
    CANCEL, and the callee gave no final answer.

    [interrupt_only_for_pending_proof]: the three triggers of an INTERRUPT. *)
From Nexus Require Import Router.Realm Router.AssocLemmas Router.RealmLib Router.RealmProofs
     Router.RealmMetaProofs Router.RealmLeave.
From Nexus Require Import Router.DealerLib Router.DealerProofs Router.DealerReg Router.DealerCall Router.DealerWf
     Router.DealerWfCalls Router.DealerWfRegs Router.DealerRemove Router.DealerReply Router.DealerTimers
     Router.DealerOwned Router.DealerTrace.
From Nexus Require Import Router.RealmWf Router.RealmStep Router.RealmC05 Router.RealmOutputs.
From Nexus Require Import Router.RealmTraceLib Router.RealmTrace Router.RealmTraceC05 Router.RealmTraceInv
     Router.RealmTraceC03.
From Nexus Require Import Router.RealmTraceC13 Router.RealmTraceC13Step Router.RealmTraceC13Inv.
From Coq Require Import Lia ZifyN ZifyNat ZifyBool.

(** ** Locating an output message in a history *)
Lemma map_EOut_split : forall out a m b,
    map EOut out = a ++ EOut m :: b ->
    exists o1 o2, out = o1 ++ m :: o2 /\ a = map EOut o1 /\ b = map EOut o2.
Proof.
  induction out as [|x out IH]; intros a m b E.
  - destruct a; discriminate E.
  - destruct a as [|e a]; cbn [map app] in E.
    + inversion E; subst. exists [], out. auto.
    + inversion E as [[E1 E2]]. destruct (IH a m b E2) as (o1 & o2 & -> & -> & ->).
      exists (x :: o1), o2. auto.
Qed.

Lemma trace_out_split : forall ops r pre m post,
    trace_from r ops = pre ++ EOut m :: post ->
    exists ops1 o ops2 outs1 outs2,
      ops = ops1 ++ o :: ops2 /\
      pre = trace_from r ops1 ++ EIn o :: map EOut outs1 /\
      snd (step (fst (run r ops1)) o) = outs1 ++ m :: outs2.
Proof.
  induction ops as [|o ops IH]; intros r pre m post E.
  - destruct pre; discriminate E.
  - cbn [trace_from] in E.
    destruct (app_split _ _ _ _ _ E) as [(post0 & E1 & _)|(pre0 & E1 & E2)].
    + unfold step_events in E1. destruct pre as [|e pre]; cbn [app] in E1; [discriminate E1|].
      inversion E1 as [[X1 X2]]. destruct (map_EOut_split _ _ _ _ X2) as (o1 & o2 & Eo & -> & _).
      exists [], o, ops, o1, o2. rewrite run_nil. cbn [app trace_from fst]. auto.
    + destruct (IH _ _ _ _ E2) as (ops1 & o' & ops2 & outs1 & outs2 & -> & -> & Eo).
      exists (o :: ops1), o', ops2, outs1, outs2. split; [reflexivity|]. split.
      * rewrite E1. cbn [trace_from]. rewrite <- app_assoc. reflexivity.
      * rewrite run_cons. cbn [fst]. exact Eo.
Qed.

(** the state, the invariant and the step facts at a position of a history *)
Lemma at_position : forall cfg ops1 o ops2,
    Forall op_ok (ops1 ++ o :: ops2) -> k0 cfg + N.of_nat (List.length (ops1 ++ o :: ops2)) <= max_idN ->
    along gate_transparent (init_realm cfg) (ops1 ++ o :: ops2) ->
    let r1 := fst (run (init_realm cfg) ops1) in
    realm_wf r1 /\ bi (trace cfg ops1) r1 /\
    step13_kind r1 o (snd (step r1 o)) (fst (step r1 o)) /\
    once (snd (step r1 o)).
Proof.
  intros cfg ops1 o ops2 Ho Hk Hg r1.
  apply Forall_app in Ho. destruct Ho as [Ho1 Ho2]. inversion Ho2 as [|? ? Ho3 _]; subst.
  rewrite app_length in Hk. cbn [List.length] in Hk.
  apply along_app in Hg. destruct Hg as [Hg1 Hg2]. cbn [along] in Hg2. destruct Hg2 as [Hg2 _].
  destruct (init_realm_wf cfg) as [W0 I0]; [lia|].
  destruct (run_wf ops1 (init_realm cfg) (k0 cfg) W0 I0 Ho1) as [W1 I1]; [lia|]. fold r1 in W1, I1.
  assert (Hk1 : k0 cfg + N.of_nat (List.length ops1) < max_idN) by lia.
  split; [exact W1|]. split; [apply bi_history; [exact Ho1|lia|exact Hg1]|]. split.
  - apply (step13 r1 o _ W1 I1 Hk1 Ho3 Hg2).
  - destruct (step_rok r1 o _ W1 I1 Hk1 Ho3 (gate_transparent_fresh _ _ Hg2)) as (l & (_ & _ & _ & On) & _). exact On.
Qed.

(** ** (a) the timeout ERROR *)
Definition in_step_of (o : op) (pre : list event) : Prop :=
  exists pre1 outs, pre = pre1 ++ EIn o :: map EOut outs.

Definition relayed (pre : list event) (det : dict) (a : list value) (kw : dict) : Prop :=
  exists y i orc, in_step_of (OMsg y (CError c_INVOCATION i det e_timeout a kw) orc) pre.

Definition timed_out (pre : list event) (x q : N) (det : dict) (a : list value) (kw : dict) : Prop :=
  det = [] /\ a = [vstr "call timeout"] /\ kw = [] /\
  exists pre1 ms outs, pre = pre1 ++ EIn (OTick ms) :: map EOut outs /\
  exists pre0 opts proc ca ckw orc y i rid idet rest dl,
    pre1 = pre0 ++ EIn (OMsg x (CCall q opts proc ca ckw) orc) :: EOut (y, RInvocation i rid idet ca ckw) :: rest /\
    (forall e, In e (rest ++ EIn (OTick ms) :: map EOut outs) -> ~ is_reply_ev (x, q) true e) /\
    (forall e, In e rest -> ~ kill_cancel_ev x q e) /\
    (forall e, In e rest -> ~ final_answer_ev y i e) /\
    armed x q (opt_int64 opts "timeout") idet pre0
          (EIn (OMsg x (CCall q opts proc ca ckw) orc) :: EOut (y, RInvocation i rid idet ca ckw) :: rest) dl /\
    clock pre1 < dl <= clock pre1 + ms.

Lemma plain_not : forall o m, plain o -> In m o -> is_tmo m = true \/ is_intr m = true -> False.
Proof. intros o m P Hin [H|H]; destruct (P m Hin) as [A B]; congruence. Qed.

Theorem timeout_only_when_due_proof : forall cfg ops x q det args kw pre post,
    Forall op_ok ops -> k0 cfg + N.of_nat (List.length ops) <= max_idN ->
    along gate_transparent (init_realm cfg) ops ->
    trace cfg ops = pre ++ EOut (x, RError c_CALL q det e_timeout args kw) :: post ->
    relayed pre det args kw \/ timed_out pre x q det args kw.
Proof.
  intros cfg ops x q det args kw pre post Ho Hk Hg E. rewrite trace_eq in E.
  destruct (trace_out_split _ _ _ _ _ E) as (ops1 & o & ops2 & outs1 & outs2 & -> & Epre & Eout).
  destruct (at_position cfg ops1 o ops2 Ho Hk Hg) as (W1 & B1 & K & On). cbv zeta in *.
  set (r1 := fst (run (init_realm cfg) ops1)) in *. rewrite <- trace_eq in Epre.
  set (m := (x, RError c_CALL q det e_timeout args kw)) in *.
  assert (Hm : In m (snd (step r1 o))) by (rewrite Eout; apply in_or_app; right; now left).
  assert (Ht : is_tmo m = true) by reflexivity.
  assert (Calm : calm r1 (snd (step r1 o)) (fst (step r1 o)) -> False).
  { intros (_ & P & _). apply (plain_not _ _ P Hm). now left. }
  destruct (step13_kind_cases _ _ _ _ K) as [K1|[(sid & req & opts & proc & a & ckw & orc & Eop & K1)
    |[(sid & req & copts & orc & Eop & K1)|[(sid & i & yopts & a & ckw & orc & Eop & K1)
    |[(sid & ty & i & det' & err & a & ckw & orc & Eop & K1)|(ms & Eop & K1)]]]]].
  - destruct (Calm K1).
  - destruct K1 as [[K1 _]|(y & i & rid & idet & Eo & _)]; [destruct (Calm K1)|].
    rewrite Eo in Hm. destruct Hm as [Hm|[]]. discriminate Hm.
  - destruct K1 as (_ & _ & [(_ & Kt & _)|(k0 & inv0 & _ & _ & _ & _ & _ & _ & Eo)]).
    + rewrite (Kt m Hm) in Ht. discriminate Ht.
    + rewrite Eo in Hm. destruct Hm as [Hm|[]]. discriminate Hm.
  - destruct K1 as (_ & _ & Kt & _). rewrite (Kt m Hm) in Ht. discriminate Ht.
  - left. destruct K1 as (_ & _ & _ & Kt & _). destruct (Kt m Hm Ht) as (-> & -> & x' & q' & Em).
    assert (X : det' = det /\ a = args /\ ckw = kw) by (unfold m in Em; inversion Em; auto).
    destruct X as (-> & -> & ->). exists sid, i, orc. exists (trace cfg ops1), outs1. rewrite Eop in Epre. exact Epre.
  - right. destruct K1 as (_ & _ & _ & Km). destruct (Km m Hm)
      as (tid & dl & cid & k1 & inv & Htm & Hdl & Hi & Ec & Hti & Hcan & _ & [Em|(_ & Em)]); [|discriminate Em].
    assert (X : x = fst cid /\ q = snd cid /\ det = [] /\ args = [vstr "call timeout"] /\ kw = [])
      by (unfold timeout_msg, m in Em; inversion Em; auto).
    destruct X as (Ex & Eq & Edet & Eargs & Ekw).
    assert (Ecid : inv_call inv = (x, q)) by (rewrite Ec, Ex, Eq; apply surjective_pairing).
    split; [exact Edet|]. split; [exact Eargs|]. split; [exact Ekw|].
    exists (trace cfg ops1), ms, outs1. split; [rewrite Epre, Eop; reflexivity|].
    rewrite <- Ec in Htm.
    destruct (bi_open _ _ B1 _ _ Hi) as (pre0 & proc & ca & ckw & orc & rid & idet & rest & Etr & (Q1 & Q2 & Q3) & Qt & _).
    destruct (Qt tid dl (inv_call inv) Hti Htm) as (Hlt & Harm).
    rewrite Ecid in Etr, Q1, Q3, Harm. cbn [fst snd] in Etr, Q1, Q3, Harm.
    exists pre0, (inv_opts inv), proc, ca, ckw, orc, (fst k1), (snd k1), rid, idet, rest, dl.
    split; [exact Etr|]. split; [|split; [|split; [exact Q2|split; [exact Harm|]]]].
    + intros e Hin. apply in_app_or in Hin. destruct Hin as [Hin|[<-|Hin]]; [now apply Q1|intros (m0 & X & _); discriminate X|].
      apply in_map_iff in Hin. destruct Hin as (m0 & <- & Hm0). intros (m1 & X & R1). inversion X; subst m1.
      apply in_split in Hm0. destruct Hm0 as (l1 & l2 & El).
      apply (On (l1) m0 (l2 ++ m :: outs2) (x, q)) with (m' := m).
      * rewrite Eout, El, <- app_assoc. reflexivity.
      * exact R1.
      * apply in_or_app. right. now left.
      * exists true. reflexivity.
    + intros e Hin. apply (proj1 (Q3 Hcan e Hin)).
    + rewrite <- (bi_now _ _ B1). lia.
Qed.

(** ** (c) INTERRUPTs *)
(** the INTERRUPT answers a progressive YIELD for an invocation that is not pending *)
Definition stray_yield (pre : list event) (y i : N) (iopts : dict) : Prop :=
  iopts = [("mode", vstr "killnowait")] /\
  exists yopts a kw orc, in_step_of (OMsg y (CYield i yopts a kw) orc) pre /\ opt_bool yopts "progress" = true.

(** the INTERRUPT stops a pending invocation: CANCEL of its caller, or its timeout *)
Definition interrupted_pending (cfg : config) (ops : list op) (pre : list event) (y i : N) (iopts : dict) : Prop :=
  exists reason mode, iopts = [("reason", vuri reason); ("mode", vstr mode)] /\
  exists ops1 o ops2 outs outs2, ops = ops1 ++ o :: ops2 /\ pre = trace cfg ops1 ++ EIn o :: map EOut outs /\
  snd (step (fst (run (init_realm cfg) ops1)) o) = outs ++ (y, RInterrupt i iopts) :: outs2 /\
  (* the callee announced call_canceling *)
  (exists ys, find_session (r_clients (fst (run (init_realm cfg) ops1))) y = Some ys /\
              sess_feature ys "callee" f_call_canceling = true) /\
  exists pre0 x q opts proc a kw orc rid det rest,
    trace cfg ops1 = pre0 ++ EIn (OMsg x (CCall q opts proc a kw) orc) :: EOut (y, RInvocation i rid det a kw) :: rest /\
    (forall e, In e rest -> ~ final_answer_ev y i e) /\
    (forall e, In e rest -> ~ is_reply_ev (x, q) true e) /\
    (forall e, In e rest -> ~ kill_cancel_ev x q e) /\
    (forall e, In e rest -> ~ rintr_ev y i e) /\
    ((reason = e_canceled /\ (mode = "kill" \/ mode = "killnowait") /\
      exists copts orc', o = OMsg x (CCancel q copts) orc' /\ cancel_mode copts = mode) \/
     (reason = e_timeout /\ mode = "killnowait" /\
      exists ms dl, o = OTick ms /\
        armed x q (opt_int64 opts "timeout") det pre0
              (EIn (OMsg x (CCall q opts proc a kw) orc) :: EOut (y, RInvocation i rid det a kw) :: rest) dl /\
        clock (trace cfg ops1) < dl <= clock (trace cfg ops1) + ms)).

Lemma can_cancel_feature : forall r inv, realm_wf r -> inv_callee inv <> meta_id ->
    callee_can_cancel (lookup r) inv = true ->
    exists ys, find_session (r_clients r) (inv_callee inv) = Some ys /\ sess_feature ys "callee" f_call_canceling = true.
Proof.
  intros r inv W Hm H. unfold callee_can_cancel, lookup in H.
  destruct (N.eqb_spec (inv_callee inv) meta_id); [contradiction|].
  destruct (find_session (r_clients r) (inv_callee inv)) as [ys|]; [|discriminate]. eauto.
Qed.

Theorem interrupt_only_for_pending_proof : forall cfg ops y i iopts pre post,
    Forall op_ok ops -> k0 cfg + N.of_nat (List.length ops) <= max_idN ->
    along gate_transparent (init_realm cfg) ops ->
    trace cfg ops = pre ++ EOut (y, RInterrupt i iopts) :: post ->
    stray_yield pre y i iopts \/ interrupted_pending cfg ops pre y i iopts.
Proof.
  intros cfg ops y i iopts pre post Ho Hk Hg E. rewrite trace_eq in E.
  destruct (trace_out_split _ _ _ _ _ E) as (ops1 & o & ops2 & outs1 & outs2 & Eops & Epre & Eout).
  rewrite Eops in Ho, Hk, Hg.
  destruct (at_position cfg ops1 o ops2 Ho Hk Hg) as (W1 & B1 & K & On). cbv zeta in *.
  set (r1 := fst (run (init_realm cfg) ops1)) in *. rewrite <- trace_eq in Epre.
  set (m := (y, RInterrupt i iopts)) in *.
  assert (Hm : In m (snd (step r1 o))) by (rewrite Eout; apply in_or_app; right; now left).
  assert (Hint : is_intr m = true) by reflexivity.
  pose proof (wf_calls _ _ (rw_dealer r1 W1)) as Wc.
  assert (Calm : calm r1 (snd (step r1 o)) (fst (step r1 o)) -> False).
  { intros (_ & P & _). apply (plain_not _ _ P Hm). now right. }
  (* the common part of the two reasoned cases *)
  assert (Pend : forall k1 inv reason mode, cget (d_invs (r_dealer r1)) k1 = Some inv -> inv_canceled inv = false ->
             callee_can_cancel (lookup r1) inv = true -> m = interrupt_msg k1 inv reason mode ->
             k1 = (y, i) /\ iopts = [("reason", vuri reason); ("mode", vstr mode)] /\
             (exists ys, find_session (r_clients r1) y = Some ys /\ sess_feature ys "callee" f_call_canceling = true) /\
             exists pre0 rid det rest proc a kw orc,
               trace cfg ops1 = pre0 ++ EIn (OMsg (fst (inv_call inv)) (CCall (snd (inv_call inv)) (inv_opts inv) proc a kw) orc)
                                     :: EOut (y, RInvocation i rid det a kw) :: rest /\
               (forall e, In e rest -> ~ final_answer_ev y i e) /\
               (forall e, In e rest -> ~ is_reply_ev (inv_call inv) true e) /\
               (forall e, In e rest -> ~ kill_cancel_ev (fst (inv_call inv)) (snd (inv_call inv)) e) /\
               (forall e, In e rest -> ~ rintr_ev y i e) /\
               (forall t dl c, inv_timer inv = Some t -> nget (d_timers (r_dealer r1)) t = Some (dl, c) ->
                  r_now r1 < dl /\
                  armed (fst (inv_call inv)) (snd (inv_call inv)) (opt_int64 (inv_opts inv) "timeout") det pre0
                        (EIn (OMsg (fst (inv_call inv)) (CCall (snd (inv_call inv)) (inv_opts inv) proc a kw) orc)
                             :: EOut (y, RInvocation i rid det a kw) :: rest) dl)).
  { intros k1 inv reason mode Hi Hcan Hcc Em.
    assert (X : y = inv_callee inv /\ i = snd k1 /\ iopts = [("reason", vuri reason); ("mode", vstr mode)])
      by (unfold interrupt_msg, m in Em; inversion Em; auto).
    destruct X as (E1 & E2 & E3).
    destruct (cw_inv _ Wc _ _ Hi) as (_ & Hce).
    assert (Ek : k1 = (y, i)) by (destruct k1; cbn [fst snd] in *; congruence).
    split; [exact Ek|]. split; [exact E3|]. split.
    { pose proof (bi_nometa _ _ B1 _ _ Hi) as Hnm. rewrite <- Hce in Hnm.
      destruct (can_cancel_feature r1 inv W1 Hnm Hcc) as (ys & F & Hf). exists ys. rewrite E1. auto. }
    destruct (bi_open _ _ B1 _ _ Hi) as (pre0 & proc & a & kw & orc & rid & det & rest & Etr & (Q1 & Q2 & Q3) & Qt & _).
    rewrite Ek in Etr, Q2, Q3, Qt. cbn [fst snd] in *.
    exists pre0, rid, det, rest, proc, a, kw, orc. split; [exact Etr|]. split; [exact Q2|].
    split; [rewrite <- surjective_pairing in Q1; exact Q1|]. split; [intros e He; apply (Q3 Hcan e He)|].
    split; [intros e He; apply (Q3 Hcan e He)|exact Qt]. }
  destruct (step13_kind_cases _ _ _ _ K) as [K1|[(sid & req & opts & proc & a & ckw & orc & Eop & K1)
    |[(sid & req & copts & orc & Eop & K1)|[(sid & i' & yopts & a & ckw & orc & Eop & K1)
    |[(sid & ty & i' & det' & err & a & ckw & orc & Eop & K1)|(ms & Eop & K1)]]]]].
  - destruct (Calm K1).
  - destruct K1 as [[K1 _]|(y' & i' & rid & idet & Eo & _)]; [destruct (Calm K1)|].
    rewrite Eo in Hm. destruct Hm as [Hm|[]]. discriminate Hm.
  - (* CANCEL *) right.
    assert (Fin : forall k1 inv mode, cget (d_invs (r_dealer r1)) k1 = Some inv -> inv_call inv = (sid, req) ->
              inv_canceled inv = false -> callee_can_cancel (lookup r1) inv = true ->
              m = interrupt_msg k1 inv e_canceled mode -> (mode = "kill" \/ mode = "killnowait") -> cancel_mode copts = mode ->
              interrupted_pending cfg ops pre y i iopts).
    { intros k1 inv mode Hi Ec Hcan Hcc Em Hmode Hcm.
      destruct (Pend k1 inv e_canceled mode Hi Hcan Hcc Em) as (Ek & Eio & Hfeat & pre0 & rid & det & rest & proc & a & kw & orc' & Etr & P1 & P2 & P3 & P4 & _).
      rewrite Ec in *. cbn [fst snd] in *.
      exists e_canceled, mode. split; [exact Eio|]. exists ops1, o, ops2, outs1, outs2. split; [exact Eops|]. split; [exact Epre|].
      split; [exact Eout|]. split; [exact Hfeat|]. exists pre0, sid, req, (inv_opts inv), proc, a, kw, orc', rid, det, rest.
      split; [exact Etr|]. split; [exact P1|]. split; [exact P2|]. split; [exact P3|]. split; [exact P4|].
      left. split; [reflexivity|]. split; [exact Hmode|]. exists copts, orc. auto. }
    destruct K1 as (_ & _ & [(_ & _ & Ki)|(k1 & inv & Hi & Ec & Hcan & Hcc & Hmode & _ & Eo)]).
    + destruct (Ki m Hm Hint) as (k1 & inv & Hi & Ec & Hcan & Hcc & Hcm & Em & _).
      eapply Fin; eauto.
    + rewrite Eo in Hm. destruct Hm as [Em|[]]. symmetry in Em.
      eapply (Fin k1 inv "kill"); eauto. unfold cancel_mode. rewrite Hmode. reflexivity.
  - (* YIELD *) left. destruct K1 as (_ & _ & _ & Ki & _). destruct (Ki m Hm Hint) as (Hp & _ & Em).
    assert (X : y = sid /\ i = i' /\ iopts = [("mode", vstr "killnowait")]) by (unfold m in Em; inversion Em; auto).
    destruct X as (Ey & Ei & Eio). split; [exact Eio|]. exists yopts, a, ckw, orc. split; [|exact Hp].
    exists (trace cfg ops1), outs1. rewrite Ey, Ei, <- Eop. exact Epre.
  - destruct K1 as (_ & _ & Ki & _). rewrite (Ki m Hm) in Hint. discriminate Hint.
  - (* tick *) right. destruct K1 as (_ & _ & _ & Km).
    destruct (Km m Hm) as (tid & dl & cid & k1 & inv & Htm & Hdl & Hi & Ec & Hti & Hcan & _ & [Em|(Hcc & Em)]); [discriminate Em|].
    destruct (Pend k1 inv e_timeout "killnowait" Hi Hcan Hcc Em) as (Ek & Eio & Hfeat & pre0 & rid & det & rest & proc & a & kw & orc' & Etr & P1 & P2 & P3 & P4 & Pt).
    destruct (Pt tid dl cid Hti Htm) as (Hlt & Harm).
    exists e_timeout, "killnowait". split; [exact Eio|]. exists ops1, o, ops2, outs1, outs2. split; [exact Eops|]. split; [exact Epre|].
    split; [exact Eout|]. split; [exact Hfeat|].
    exists pre0, (fst (inv_call inv)), (snd (inv_call inv)), (inv_opts inv), proc, a, kw, orc', rid, det, rest.
    split; [exact Etr|]. split; [exact P1|]. split; [rewrite <- surjective_pairing; exact P2|]. split; [exact P3|]. split; [exact P4|].
    right. split; [reflexivity|]. split; [reflexivity|]. exists ms, dl. split; [exact Eop|]. split; [exact Harm|].
    rewrite <- (bi_now _ _ B1). lia.
Qed.
