(** Extraction of the router model for the correspondence runner.
    ExtrOcamlBasic only; no Extract Constant of our own. *)
From Nexus Require Import Router.Wire Router.RouterTop.
Require Extraction.
From Coq Require Import ExtrOcamlBasic.
Extraction Language OCaml.
Extraction "router_model.ml" rstep mkRouter step init_realm sizes msg_value z_to_string z_of_string n_to_string
  table_authz mkRule mkConfig mkHistCfg N.of_nat N.to_nat.
