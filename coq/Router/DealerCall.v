(** * Dealer proofs, part 3: CALL — one characterising lemma per outcome, an
    exhaustive case lemma, and what follows directly: invocation contents
    (C03), timeout forwarding (C13), disclosure (C12 dealer half), the
    unroutable-call reply (C02). *)
From Nexus Require Import Router.Dealer Router.DealerLib Router.DealerProofs Router.DealerReg.
From Coq Require Import Lia ZifyN ZifyNat ZifyBool.

Definition no_proc_msg (csid req : N) : out := (csid, RError c_CALL req [] e_no_such_procedure [] []).

(** the state after a CALL was answered no_such_procedure: a pending
    progressive call with that id (a refused further chunk) is ended *)
Definition no_proc_state (d : dealer) (cid : callid) : dealer :=
  match cget (d_bycall d) cid with
  | Some ikey0 =>
      drop_call (match cget (d_invs d) ikey0 with
                 | Some inv0 => cancel_timer d (inv_timer inv0) | None => d end) cid ikey0
  | None => d
  end.

Lemma nps_none : forall d cid, cget (d_bycall d) cid = None -> no_proc_state d cid = d.
Proof. intros d cid H. unfold no_proc_state. rewrite H. reflexivity. Qed.

Lemma nps_some : forall d cid k inv, cget (d_bycall d) cid = Some k -> cget (d_invs d) k = Some inv ->
    no_proc_state d cid = drop_call (cancel_timer d (inv_timer inv)) cid k.
Proof. intros d cid k inv H1 H2. unfold no_proc_state. rewrite H1, H2. reflexivity. Qed.

Lemma nps_gone : forall d cid k, cget (d_bycall d) cid = Some k -> gone (no_proc_state d cid) cid k.
Proof. intros d cid k H. unfold no_proc_state. rewrite H. apply gone_drop_call. Qed.

(** the caller announces a further chunk without having the feature *)
Definition call_abort_cond (caller : session) (opts : dict) : bool :=
  opt_bool opts "progress" && negb (sess_feature caller "caller" f_prog_inv).

(** progressive invocation towards a callee that cannot take it *)
Definition call_feature_refused (callee : session) (opts : dict) : bool :=
  opt_bool opts "progress" &&
  negb (sess_feature callee "callee" f_prog_inv && sess_feature callee "callee" f_call_canceling).

(** passthru mode used by a caller that did not announce it / towards a callee that did not *)
Definition call_ppt_abort (caller : session) (opts : dict) : bool :=
  ppt_active opts && negb (sess_feature caller "caller" f_ppt).
Definition call_ppt_refused (callee : session) (opts : dict) : bool :=
  ppt_active opts && negb (sess_feature callee "callee" f_ppt).

Definition call_disclose_refused_cond (cfg : config) (r : registration) (callee_id : N) (opts : dict) : bool :=
  negb (reg_discloses r callee_id) && opt_bool opts "disclose_me" && negb (c_disclose cfg).

(** THIS callee asked for forward_timeout at REGISTER and announced call_timeout *)
Definition timeout_forwarded (callee : session) (callee_id : N) (r : registration) : bool :=
  sess_feature callee "callee" f_call_timeout && reg_forwards r callee_id.

(** INVOCATION.Details of a first chunk *)
Definition call_details (cfg : config) (caller callee : session) (callee_id : N) (r : registration)
           (opts : dict) (proc : string) : dict :=
  let det0 := if ppt_active opts then ppt_into opts [("progress", VBool (opt_bool opts "progress"))]
              else [("progress", VBool (opt_bool opts "progress"))] in
  let det1 :=
    if reg_discloses r callee_id then disclose_dict "caller" (s_id caller) (s_details caller) det0
    else if opt_bool opts "disclose_me" && sess_feature callee "callee" f_caller_ident
         then disclose_dict "caller" (s_id caller) (s_details caller) det0 else det0 in
  let det2 :=
    if opt_bool opts "receive_progress" && sess_feature callee "callee" f_prog_res
       && sess_feature callee "callee" f_call_canceling
    then dset det1 "receive_progress" (VBool true) else det1 in
  let det3 := if String.eqb (reg_match r) match_exact then det2
              else dset det2 "procedure" (vuri proc) in
  if (0 <? opt_int64 opts "timeout")%Z && timeout_forwarded callee callee_id r
  then dset det3 "timeout" (VInt KInt64 (opt_int64 opts "timeout")) else det3.

(** the registration with the cursor [select_callee] returned *)
Definition call_d0 (d : dealer) (r : registration) (next : N) : dealer :=
  d_set_regs d (nset (d_regs d) (reg_id r) (reg_set_next r next)).

Definition local_timer (tmo : Z) (callee : session) (callee_id : N) (r : registration) : bool :=
  (0 <? tmo)%Z && negb (timeout_forwarded callee callee_id r).

Definition first_inv (d : dealer) (cid : callid) (callee_id : N) (callee : session) (r : registration)
           (opts : dict) : invocation :=
  mkInv cid callee_id false (opt_bool opts "progress")
        (if local_timer (opt_int64 opts "timeout") callee callee_id r then Some (d_timergen d + 1) else None) opts.

Definition call_first_state (now : N) (d : dealer) (cid : callid) (opts : dict)
           (r : registration) (callee_id next : N) (callee : session) : dealer :=
  let d0 := call_d0 d r next in
  let tmo := opt_int64 opts "timeout" in
  let d1 := if local_timer tmo callee callee_id r
            then d_set_timers d0 (nset (d_timers d0) (d_timergen d0 + 1) (now + Z.to_N tmo, cid)) (d_timergen d0 + 1)
            else d0 in
  let ikey := (callee_id, idgen_next (s_invgen callee)) in
  let d2 := d_set_calls d1 (cset (d_calls d1) cid (fst cid)) in
  let d3 := d_set_invs d2 (cset (d_invs d2) ikey (first_inv d cid callee_id callee r opts)) in
  d_set_bycall d3 (cset (d_bycall d3) cid ikey).

Definition chunk_state (now : N) (d : dealer) (cid ikey : callid) (inv : invocation)
           (callee : session) (r : registration) (in_progress : bool) : dealer :=
  let inv1 := inv_set_inprogress inv in_progress in
  let tmo := opt_int64 (inv_opts inv) "timeout" in
  if local_timer tmo callee (inv_callee inv) r then
    let dc := cancel_timer d (inv_timer inv1) in
    let t := d_timergen dc + 1 in
    let d1 := d_set_timers dc (nset (d_timers dc) t (now + Z.to_N tmo, cid)) t in
    d_set_invs d1 (cset (d_invs d1) ikey (inv_set_timer inv1 (Some t)))
  else d_set_invs d (cset (d_invs d) ikey inv1).

Section Call.
  Variables (cfg : config) (lookup : N -> option session) (now : N) (d : dealer)
            (caller : session) (req : N) (opts : dict) (proc : string)
            (args : list value) (kw : dict) (oracle : N).
  Let csid := s_id caller.
  Let cid : callid := (csid, req).
  Let the_call := call cfg lookup now d caller req opts proc args kw oracle.

  Lemma call_unroutable : match_procedure d proc oracle = None ->
      the_call = CallRefused (no_proc_state d cid) [no_proc_msg csid req].
  Proof. intros H. unfold the_call, call. rewrite H. reflexivity. Qed.

  Lemma call_no_callees : forall r, match_procedure d proc oracle = Some r -> reg_callees r = [] ->
      the_call = CallRefused (no_proc_state d cid) [no_proc_msg csid req].
  Proof. intros r H E. unfold the_call, call. rewrite H, E. reflexivity. Qed.

  Lemma call_abort : forall r, match_procedure d proc oracle = Some r -> reg_callees r <> [] ->
      call_abort_cond caller opts = true ->
      the_call = CallAbort [(csid, RAbort [("message", vstr "<text>")] e_protocol_violation)].
  Proof.
    intros r H E Ha. unfold the_call, call. rewrite H.
    destruct (reg_callees r) eqn:Ec; [congruence|].
    unfold call_abort_cond in Ha. rewrite Ha. reflexivity.
  Qed.

  Lemma call_chunk_cases : forall r ikey,
      match_procedure d proc oracle = Some r -> reg_callees r <> [] ->
      call_abort_cond caller opts = false ->
      cget (d_bycall d) cid = Some ikey ->
      match cget (d_invs d) ikey with
      | None => the_call = CallRefused d []
      | Some inv =>
          match lookup (inv_callee inv) with
          | None => the_call = CallRefused d []
          | Some callee =>
              the_call = CallInvoked (chunk_state now d cid ikey inv callee r (opt_bool opts "progress")) callee
                [(s_id callee, RInvocation (snd ikey) (reg_id r) [("progress", VBool (opt_bool opts "progress"))] args kw)]
          end
      end.
  Proof.
    intros r ikey H E Ha Hb. unfold the_call, call. rewrite H.
    destruct (reg_callees r) eqn:Ec; [congruence|].
    unfold call_abort_cond in Ha. rewrite Ha. fold csid. fold cid. rewrite Hb.
    destruct (cget (d_invs d) ikey) as [inv|]; [|reflexivity].
    destruct (lookup (inv_callee inv)) as [callee|]; [|reflexivity].
    unfold chunk_state, local_timer, timeout_forwarded.
    destruct ((0 <? opt_int64 (inv_opts inv) "timeout")%Z &&
              negb (sess_feature callee "callee" f_call_timeout && reg_forwards r (inv_callee inv))); reflexivity.
  Qed.

  Lemma call_select_none : forall r,
      match_procedure d proc oracle = Some r -> reg_callees r <> [] ->
      call_abort_cond caller opts = false -> cget (d_bycall d) cid = None ->
      select_callee r oracle = None ->
      the_call = CallRefused d [no_proc_msg csid req].
  Proof.
    intros r H E Ha Hb Hs. unfold the_call, call. rewrite H.
    destruct (reg_callees r) eqn:Ec; [congruence|].
    unfold call_abort_cond in Ha. rewrite Ha. fold csid. fold cid. rewrite Hb, Hs. reflexivity.
  Qed.

  Lemma call_callee_detached : forall r callee_id next,
      match_procedure d proc oracle = Some r -> reg_callees r <> [] ->
      call_abort_cond caller opts = false -> cget (d_bycall d) cid = None ->
      select_callee r oracle = Some (callee_id, next) -> lookup callee_id = None ->
      the_call = CallRefused d [no_proc_msg csid req].
  Proof.
    intros r callee_id next H E Ha Hb Hs Hl. unfold the_call, call. rewrite H.
    destruct (reg_callees r) eqn:Ec; [congruence|].
    unfold call_abort_cond in Ha. rewrite Ha. fold csid. fold cid. rewrite Hb, Hs, Hl. reflexivity.
  Qed.

  Lemma call_first : forall r callee_id next callee,
      match_procedure d proc oracle = Some r -> reg_callees r <> [] ->
      call_abort_cond caller opts = false -> cget (d_bycall d) cid = None ->
      select_callee r oracle = Some (callee_id, next) -> lookup callee_id = Some callee ->
      the_call =
      if call_feature_refused callee opts
      then CallRefused (call_d0 d r next) [(csid, RError c_CALL req [] e_feature_not_supported [] [])]
      else if call_ppt_abort caller opts
      then CallAbort [(csid, RAbort [("message", vstr "<text>")] e_protocol_violation)]
      else if call_ppt_refused callee opts
      then CallRefused (call_d0 d r next) [(csid, RError c_CALL req [] e_feature_not_supported [] [])]
      else if call_disclose_refused_cond cfg r callee_id opts
           then CallRefused (call_d0 d r next) [(csid, RError c_CALL req [] e_disclose_me [] [])]
           else CallInvoked (call_first_state now d cid opts r callee_id next callee)
                            (set_invgen callee (idgen_next (s_invgen callee)))
                            [(callee_id, RInvocation (idgen_next (s_invgen callee)) (reg_id r)
                                                     (call_details cfg caller callee callee_id r opts proc) args kw)].
  Proof.
    intros r callee_id next callee H E Ha Hb Hs Hl. unfold the_call, call. rewrite H.
    destruct (reg_callees r) eqn:Ec; [congruence|]. rewrite <- Ec.
    unfold call_abort_cond in Ha. rewrite Ha. fold csid. fold cid. rewrite Hb, Hs, Hl.
    unfold call_feature_refused, call_disclose_refused_cond, call_ppt_abort, call_ppt_refused.
    destruct (opt_bool opts "progress" &&
              negb (sess_feature callee "callee" f_prog_inv && sess_feature callee "callee" f_call_canceling));
      [reflexivity|].
    destruct (ppt_active opts && negb (sess_feature caller "caller" f_ppt)); [reflexivity|].
    destruct (ppt_active opts && negb (sess_feature callee "callee" f_ppt)); [reflexivity|].
    destruct (negb (reg_discloses r callee_id) && opt_bool opts "disclose_me" && negb (c_disclose cfg)); [reflexivity|].
    unfold call_first_state, call_details, first_inv, local_timer, timeout_forwarded, call_d0, reg_set_next.
    destruct ((0 <? opt_int64 opts "timeout")%Z &&
              negb (sess_feature callee "callee" f_call_timeout && reg_forwards r callee_id)); reflexivity.
  Qed.

  (** Every outcome of [call]. *)
  Inductive call_outcome : call_result -> Prop :=
  | CO_unroutable :
      match_procedure d proc oracle = None ->
      call_outcome (CallRefused (no_proc_state d cid) [no_proc_msg csid req])
  | CO_no_callees r :
      match_procedure d proc oracle = Some r -> reg_callees r = [] ->
      call_outcome (CallRefused (no_proc_state d cid) [no_proc_msg csid req])
  | CO_abort r :
      match_procedure d proc oracle = Some r -> reg_callees r <> [] ->
      call_abort_cond caller opts = true ->
      call_outcome (CallAbort [(csid, RAbort [("message", vstr "<text>")] e_protocol_violation)])
  | CO_chunk_noinv r ikey :
      match_procedure d proc oracle = Some r -> reg_callees r <> [] ->
      call_abort_cond caller opts = false -> cget (d_bycall d) cid = Some ikey ->
      cget (d_invs d) ikey = None ->
      call_outcome (CallRefused d [])
  | CO_chunk_detached r ikey inv :
      match_procedure d proc oracle = Some r -> reg_callees r <> [] ->
      call_abort_cond caller opts = false -> cget (d_bycall d) cid = Some ikey ->
      cget (d_invs d) ikey = Some inv -> lookup (inv_callee inv) = None ->
      call_outcome (CallRefused d [])
  | CO_chunk r ikey inv callee :
      match_procedure d proc oracle = Some r -> reg_callees r <> [] ->
      call_abort_cond caller opts = false -> cget (d_bycall d) cid = Some ikey ->
      cget (d_invs d) ikey = Some inv -> lookup (inv_callee inv) = Some callee ->
      call_outcome (CallInvoked (chunk_state now d cid ikey inv callee r (opt_bool opts "progress")) callee
        [(s_id callee, RInvocation (snd ikey) (reg_id r) [("progress", VBool (opt_bool opts "progress"))] args kw)])
  | CO_select_none r :
      match_procedure d proc oracle = Some r -> reg_callees r <> [] ->
      call_abort_cond caller opts = false -> cget (d_bycall d) cid = None ->
      select_callee r oracle = None ->
      call_outcome (CallRefused d [no_proc_msg csid req])
  | CO_callee_detached r callee_id next :
      match_procedure d proc oracle = Some r -> reg_callees r <> [] ->
      call_abort_cond caller opts = false -> cget (d_bycall d) cid = None ->
      select_callee r oracle = Some (callee_id, next) -> lookup callee_id = None ->
      call_outcome (CallRefused d [no_proc_msg csid req])
  | CO_feature r callee_id next callee :
      match_procedure d proc oracle = Some r -> reg_callees r <> [] ->
      call_abort_cond caller opts = false -> cget (d_bycall d) cid = None ->
      select_callee r oracle = Some (callee_id, next) -> lookup callee_id = Some callee ->
      call_feature_refused callee opts = true ->
      call_outcome (CallRefused (call_d0 d r next) [(csid, RError c_CALL req [] e_feature_not_supported [] [])])
  | CO_ppt_abort r callee_id next callee :
      match_procedure d proc oracle = Some r -> reg_callees r <> [] ->
      call_abort_cond caller opts = false -> cget (d_bycall d) cid = None ->
      select_callee r oracle = Some (callee_id, next) -> lookup callee_id = Some callee ->
      call_feature_refused callee opts = false -> call_ppt_abort caller opts = true ->
      call_outcome (CallAbort [(csid, RAbort [("message", vstr "<text>")] e_protocol_violation)])
  | CO_ppt_refused r callee_id next callee :
      match_procedure d proc oracle = Some r -> reg_callees r <> [] ->
      call_abort_cond caller opts = false -> cget (d_bycall d) cid = None ->
      select_callee r oracle = Some (callee_id, next) -> lookup callee_id = Some callee ->
      call_feature_refused callee opts = false -> call_ppt_abort caller opts = false ->
      call_ppt_refused callee opts = true ->
      call_outcome (CallRefused (call_d0 d r next) [(csid, RError c_CALL req [] e_feature_not_supported [] [])])
  | CO_disclose r callee_id next callee :
      match_procedure d proc oracle = Some r -> reg_callees r <> [] ->
      call_abort_cond caller opts = false -> cget (d_bycall d) cid = None ->
      select_callee r oracle = Some (callee_id, next) -> lookup callee_id = Some callee ->
      call_feature_refused callee opts = false ->
      call_ppt_abort caller opts = false -> call_ppt_refused callee opts = false ->
      call_disclose_refused_cond cfg r callee_id opts = true ->
      call_outcome (CallRefused (call_d0 d r next) [(csid, RError c_CALL req [] e_disclose_me [] [])])
  | CO_first r callee_id next callee :
      match_procedure d proc oracle = Some r -> reg_callees r <> [] ->
      call_abort_cond caller opts = false -> cget (d_bycall d) cid = None ->
      select_callee r oracle = Some (callee_id, next) -> lookup callee_id = Some callee ->
      call_feature_refused callee opts = false ->
      call_ppt_abort caller opts = false -> call_ppt_refused callee opts = false ->
      call_disclose_refused_cond cfg r callee_id opts = false ->
      call_outcome (CallInvoked (call_first_state now d cid opts r callee_id next callee)
                                (set_invgen callee (idgen_next (s_invgen callee)))
                                [(callee_id, RInvocation (idgen_next (s_invgen callee)) (reg_id r)
                                                         (call_details cfg caller callee callee_id r opts proc) args kw)]).

  Lemma call_cases : call_outcome the_call.
  Proof.
    destruct (match_procedure d proc oracle) as [r|] eqn:Hm.
    2:{ rewrite (call_unroutable Hm). apply CO_unroutable; assumption. }
    destruct (list_eq_dec N.eq_dec (reg_callees r) []) as [Ec|Ec].
    { rewrite (call_no_callees r Hm Ec). eapply CO_no_callees; eassumption. }
    destruct (call_abort_cond caller opts) eqn:Ha.
    { rewrite (call_abort r Hm Ec Ha). eapply CO_abort; eassumption. }
    destruct (cget (d_bycall d) cid) as [ikey|] eqn:Hb.
    - pose proof (call_chunk_cases r ikey Hm Ec Ha Hb) as H.
      destruct (cget (d_invs d) ikey) as [inv|] eqn:Hi.
      2:{ rewrite H. eapply CO_chunk_noinv; eassumption. }
      destruct (lookup (inv_callee inv)) as [callee|] eqn:Hl.
      2:{ rewrite H. eapply CO_chunk_detached; eassumption. }
      rewrite H. eapply CO_chunk; eassumption.
    - destruct (select_callee r oracle) as [[callee_id next]|] eqn:Hs.
      2:{ rewrite (call_select_none r Hm Ec Ha Hb Hs). eapply CO_select_none; eassumption. }
      destruct (lookup callee_id) as [callee|] eqn:Hl.
      2:{ rewrite (call_callee_detached r callee_id next Hm Ec Ha Hb Hs Hl). eapply CO_callee_detached; eassumption. }
      rewrite (call_first r callee_id next callee Hm Ec Ha Hb Hs Hl).
      destruct (call_feature_refused callee opts) eqn:Hf.
      { eapply CO_feature; eassumption. }
      destruct (call_ppt_abort caller opts) eqn:Hpa.
      { eapply CO_ppt_abort; eassumption. }
      destruct (call_ppt_refused callee opts) eqn:Hpr.
      { eapply CO_ppt_refused; eassumption. }
      destruct (call_disclose_refused_cond cfg r callee_id opts) eqn:Hd.
      { eapply CO_disclose; eassumption. }
      eapply CO_first; eassumption.
  Qed.
End Call.

(** ** Details of the INVOCATION *)
Lemma dget_disclose_other : forall sid sd into k,
    k <> "caller" -> k <> "caller_authid" -> k <> "caller_authrole" ->
    dget (disclose_dict "caller" sid sd into) k = dget into k.
Proof.
  intros sid sd into k H1 H2 H3. unfold disclose_dict.
  change (String.append "caller" "_authid") with "caller_authid".
  change (String.append "caller" "_authrole") with "caller_authrole".
  apply String.eqb_neq in H1, H2, H3.
  destruct (dget sd "authid"), (dget sd "authrole"); rewrite ?dget_dset, ?H1, ?H2, ?H3; reflexivity.
Qed.

Lemma dget_disclose_caller : forall sid sd into,
    dget into "caller_authid" = None -> dget into "caller_authrole" = None ->
    dget (disclose_dict "caller" sid sd into) "caller" = Some (vid sid) /\
    dget (disclose_dict "caller" sid sd into) "caller_authid" = dget sd "authid" /\
    dget (disclose_dict "caller" sid sd into) "caller_authrole" = dget sd "authrole".
Proof.
  intros sid sd into H1 H2. unfold disclose_dict.
  change (String.append "caller" "_authid") with "caller_authid".
  change (String.append "caller" "_authrole") with "caller_authrole".
  destruct (dget sd "authid"), (dget sd "authrole"); rewrite ?dget_dset;
    repeat match goal with
           | |- context [String.eqb ?a ?b] =>
               let v := eval vm_compute in (String.eqb a b) in
               match v with
               | true => change (String.eqb a b) with true
               | false => change (String.eqb a b) with false
               end
           end; cbv iota; rewrite ?dget_dset;
    repeat match goal with
           | |- context [String.eqb ?a ?b] =>
               let v := eval vm_compute in (String.eqb a b) in
               match v with
               | true => change (String.eqb a b) with true
               | false => change (String.eqb a b) with false
               end
           end; cbv iota; repeat split; auto.
Qed.

(** ** Payload passthru keys *)
Definition ppt_val (opts : dict) (k : string) : option value :=
  match dget opts k with
  | Some v => match as_string v with Some x => Some (vstr x) | None => None end
  | None => None
  end.

Definition ppt_copy (opts : dict) (d : dict) (k : string) : dict :=
  match dget opts k with
  | Some v => match as_string v with Some x => dset d k (vstr x) | None => d end
  | None => d
  end.

Lemma ppt_into_fold : forall opts d, ppt_into opts d = fold_left (ppt_copy opts) ppt_keys d.
Proof. reflexivity. Qed.

Lemma dget_ppt_copy : forall opts d a k,
    dget (ppt_copy opts d a) k = if String.eqb k a then (match ppt_val opts a with Some v => Some v | None => dget d k end)
                                 else dget d k.
Proof.
  intros opts d a k. unfold ppt_copy, ppt_val.
  destruct (dget opts a) as [v|]; [destruct (as_string v)|]; rewrite ?dget_dset; destruct (String.eqb k a); reflexivity.
Qed.

Lemma dget_fold_ppt_other : forall opts l d k, ~ In k l -> dget (fold_left (ppt_copy opts) l d) k = dget d k.
Proof.
  intros opts. induction l as [|a l IH]; intros d k Hn; cbn [fold_left]; [reflexivity|].
  rewrite IH by (intros H; apply Hn; right; exact H). rewrite dget_ppt_copy.
  destruct (String.eqb_spec k a) as [->|]; [exfalso; apply Hn; left; reflexivity | reflexivity].
Qed.

Lemma dget_fold_ppt_key : forall opts l d k, NoDup l -> In k l ->
    dget (fold_left (ppt_copy opts) l d) k = match ppt_val opts k with Some v => Some v | None => dget d k end.
Proof.
  intros opts. induction l as [|a l IH]; intros d k ND Hin; [destruct Hin|]. cbn [fold_left].
  inversion ND as [|? ? Hni ND']; subst. destruct Hin as [->|Hin].
  - rewrite dget_fold_ppt_other by exact Hni. rewrite dget_ppt_copy, String.eqb_refl. reflexivity.
  - rewrite IH by assumption. rewrite dget_ppt_copy.
    destruct (String.eqb_spec k a) as [->|]; [contradiction | reflexivity].
Qed.

Lemma ppt_keys_nodup : NoDup ppt_keys.
Proof. unfold ppt_keys. repeat constructor; cbn; intuition discriminate. Qed.

(** the details an INVOCATION starts from *)
Definition ppt_det0 (opts : dict) : dict :=
  if ppt_active opts then ppt_into opts [("progress", VBool (opt_bool opts "progress"))]
  else [("progress", VBool (opt_bool opts "progress"))].

Lemma dget_ppt_det0_other : forall opts k, ~ In k ppt_keys ->
    dget (ppt_det0 opts) k = dget [("progress", VBool (opt_bool opts "progress"))] k.
Proof.
  intros opts k H. unfold ppt_det0. destruct (ppt_active opts); [|reflexivity].
  rewrite ppt_into_fold. apply dget_fold_ppt_other. exact H.
Qed.

Lemma dget_ppt_det0_key : forall opts k, In k ppt_keys ->
    dget (ppt_det0 opts) k = if ppt_active opts then ppt_val opts k else None.
Proof.
  intros opts k H. unfold ppt_det0. destruct (ppt_active opts).
  - rewrite ppt_into_fold, dget_fold_ppt_key by (auto using ppt_keys_nodup).
    destruct (ppt_val opts k); [reflexivity|].
    unfold ppt_keys in H. cbn in H. destruct H as [<-|[<-|[<-|[<-|[]]]]]; reflexivity.
  - unfold ppt_keys in H. cbn in H. destruct H as [<-|[<-|[<-|[<-|[]]]]]; reflexivity.
Qed.

Ltac not_ppt_key := unfold ppt_keys; cbn; intuition discriminate.

(** the caller is disclosed to this callee *)
Definition disclosed (callee : session) (callee_id : N) (r : registration) (opts : dict) : bool :=
  reg_discloses r callee_id || (opt_bool opts "disclose_me" && sess_feature callee "callee" f_caller_ident).

Definition wants_progress (callee : session) (opts : dict) : bool :=
  opt_bool opts "receive_progress" && sess_feature callee "callee" f_prog_res
  && sess_feature callee "callee" f_call_canceling.

Lemma dget_if_dset : forall (c : bool) d k v k',
    dget (if c then dset d k v else d) k' = if String.eqb k' k && c then Some v else dget d k'.
Proof. intros [] d k v k'; rewrite ?dget_dset; destruct (String.eqb k' k); reflexivity. Qed.
Lemma dget_if_dset' : forall (c : bool) d k v k',
    dget (if c then d else dset d k v) k' = if String.eqb k' k && negb c then Some v else dget d k'.
Proof. intros [] d k v k'; rewrite ?dget_dset; destruct (String.eqb k' k); reflexivity. Qed.

Definition details1 (caller callee : session) (callee_id : N) (r : registration) (opts : dict) : dict :=
  if disclosed callee callee_id r opts
  then disclose_dict "caller" (s_id caller) (s_details caller) (ppt_det0 opts)
  else ppt_det0 opts.

Lemma call_details_layers : forall cfg caller callee callee_id r opts proc,
    call_details cfg caller callee callee_id r opts proc =
    (if (0 <? opt_int64 opts "timeout")%Z && timeout_forwarded callee callee_id r
     then dset (if String.eqb (reg_match r) match_exact
                then (if wants_progress callee opts then dset (details1 caller callee callee_id r opts) "receive_progress" (VBool true)
                      else details1 caller callee callee_id r opts)
                else dset (if wants_progress callee opts then dset (details1 caller callee callee_id r opts) "receive_progress" (VBool true)
                           else details1 caller callee callee_id r opts) "procedure" (vuri proc))
               "timeout" (VInt KInt64 (opt_int64 opts "timeout"))
     else (if String.eqb (reg_match r) match_exact
           then (if wants_progress callee opts then dset (details1 caller callee callee_id r opts) "receive_progress" (VBool true)
                 else details1 caller callee callee_id r opts)
           else dset (if wants_progress callee opts then dset (details1 caller callee callee_id r opts) "receive_progress" (VBool true)
                      else details1 caller callee callee_id r opts) "procedure" (vuri proc))).
Proof.
  intros. unfold call_details, details1, disclosed, wants_progress. fold (ppt_det0 opts).
  destruct (reg_discloses r callee_id); [reflexivity|]. cbn [orb].
  destruct (opt_bool opts "disclose_me" && sess_feature callee "callee" f_caller_ident); reflexivity.
Qed.

Lemma details1_other : forall caller callee callee_id r opts k,
    k <> "caller" -> k <> "caller_authid" -> k <> "caller_authrole" ->
    dget (details1 caller callee callee_id r opts) k = dget (ppt_det0 opts) k.
Proof.
  intros. unfold details1. destruct (disclosed callee callee_id r opts); [|reflexivity].
  apply dget_disclose_other; assumption.
Qed.

Ltac eqb_consts :=
  repeat match goal with
         | |- context [String.eqb ?a ?b] =>
             let v := eval vm_compute in (String.eqb a b) in
             match v with
             | true => change (String.eqb a b) with true
             | false => change (String.eqb a b) with false
             end
         end.

Lemma call_details_spec : forall cfg caller callee callee_id r opts proc,
    let det := call_details cfg caller callee callee_id r opts proc in
    dget det "progress" = Some (VBool (opt_bool opts "progress")) /\
    dget det "receive_progress" = (if wants_progress callee opts then Some (VBool true) else None) /\
    dget det "procedure" = (if String.eqb (reg_match r) match_exact then None else Some (vuri proc)) /\
    dget det "timeout" = (if (0 <? opt_int64 opts "timeout")%Z && timeout_forwarded callee callee_id r
                          then Some (VInt KInt64 (opt_int64 opts "timeout")) else None) /\
    dget det "caller" = (if disclosed callee callee_id r opts then Some (vid (s_id caller)) else None) /\
    dget det "caller_authid" = (if disclosed callee callee_id r opts then dget (s_details caller) "authid" else None) /\
    dget det "caller_authrole" = (if disclosed callee callee_id r opts then dget (s_details caller) "authrole" else None).
Proof.
  intros cfg caller callee callee_id r opts proc det. subst det. rewrite call_details_layers.
  assert (P0 : forall k, ~ In k ppt_keys -> k <> "progress" -> dget (ppt_det0 opts) k = None).
  { intros k H1 H2. rewrite dget_ppt_det0_other by exact H1. cbn.
    unfold dget. cbn. destruct (String.eqb_spec k "progress"); [contradiction | reflexivity]. }
  destruct (dget_disclose_caller (s_id caller) (s_details caller) (ppt_det0 opts)) as (D1 & D2 & D3);
    [apply P0; [not_ppt_key | discriminate] | apply P0; [not_ppt_key | discriminate] |].
  repeat split; rewrite dget_if_dset, dget_if_dset', dget_if_dset; eqb_consts; cbn [andb]; cbv iota.
  - rewrite details1_other by discriminate. rewrite dget_ppt_det0_other by not_ppt_key. reflexivity.
  - destruct (wants_progress callee opts); [reflexivity|]. rewrite details1_other by discriminate.
    apply P0; [not_ppt_key | discriminate].
  - destruct (String.eqb (reg_match r) match_exact); cbn [negb]; [|reflexivity].
    rewrite details1_other by discriminate. apply P0; [not_ppt_key | discriminate].
  - destruct ((0 <? opt_int64 opts "timeout")%Z && timeout_forwarded callee callee_id r); [reflexivity|].
    rewrite details1_other by discriminate. apply P0; [not_ppt_key | discriminate].
  - unfold details1. destruct (disclosed callee callee_id r opts); [exact D1 | apply P0; [not_ppt_key | discriminate]].
  - unfold details1. destruct (disclosed callee callee_id r opts); [exact D2 | apply P0; [not_ppt_key | discriminate]].
  - unfold details1. destruct (disclosed callee callee_id r opts); [exact D3 | apply P0; [not_ppt_key | discriminate]].
Qed.

(** the passthru options are copied into the INVOCATION details iff passthru mode is used *)
Lemma call_details_ppt : forall cfg caller callee callee_id r opts proc k,
    In k ppt_keys ->
    dget (call_details cfg caller callee callee_id r opts proc) k = if ppt_active opts then ppt_val opts k else None.
Proof.
  intros cfg caller callee callee_id r opts proc k Hk. rewrite call_details_layers.
  rewrite <- (dget_ppt_det0_key opts k Hk).
  assert (Hd : dget (details1 caller callee callee_id r opts) k = dget (ppt_det0 opts) k).
  { apply details1_other; unfold ppt_keys in Hk; cbn in Hk;
      destruct Hk as [<-|[<-|[<-|[<-|[]]]]]; discriminate. }
  unfold ppt_keys in Hk. cbn in Hk.
  destruct Hk as [<-|[<-|[<-|[<-|[]]]]];
    rewrite dget_if_dset, dget_if_dset', dget_if_dset; eqb_consts; cbn [andb]; cbv iota; exact Hd.
Qed.

(** ** Projections of the two result states *)
Section States.
  Variables (now : N) (d : dealer) (cid : callid) (opts : dict) (r : registration)
            (callee_id next : N) (callee : session).
  Let S := call_first_state now d cid opts r callee_id next callee.
  Let lt := local_timer (opt_int64 opts "timeout") callee callee_id r.

  Lemma cfs_calls : d_calls S = cset (d_calls d) cid (fst cid).
  Proof. unfold S, call_first_state. destruct (local_timer _ _ _); reflexivity. Qed.
  Lemma cfs_invs : d_invs S = cset (d_invs d) (callee_id, idgen_next (s_invgen callee)) (first_inv d cid callee_id callee r opts).
  Proof. unfold S, call_first_state. destruct (local_timer _ _ _); reflexivity. Qed.
  Lemma cfs_bycall : d_bycall S = cset (d_bycall d) cid (callee_id, idgen_next (s_invgen callee)).
  Proof. unfold S, call_first_state. destruct (local_timer _ _ _); reflexivity. Qed.
  Lemma cfs_regs : d_regs S = nset (d_regs d) (reg_id r) (reg_set_next r next).
  Proof. unfold S, call_first_state. destruct (local_timer _ _ _); reflexivity. Qed.
  Lemma cfs_map : forall k, d_map S k = d_map d k.
  Proof. intros k. unfold S, call_first_state. destruct (local_timer _ _ _), k; reflexivity. Qed.
  Lemma cfs_callee_regs : d_callee_regs S = d_callee_regs d.
  Proof. unfold S, call_first_state. destruct (local_timer _ _ _); reflexivity. Qed.
  Lemma cfs_idgen : d_idgen S = d_idgen d.
  Proof. unfold S, call_first_state. destruct (local_timer _ _ _); reflexivity. Qed.
  Lemma cfs_timers : d_timers S =
      if lt then nset (d_timers d) (d_timergen d + 1) (now + Z.to_N (opt_int64 opts "timeout"), cid) else d_timers d.
  Proof. unfold S, lt, call_first_state. destruct (local_timer _ _ _); reflexivity. Qed.
  Lemma cfs_timergen : d_timergen S = if lt then d_timergen d + 1 else d_timergen d.
  Proof. unfold S, lt, call_first_state. destruct (local_timer _ _ _); reflexivity. Qed.

  Lemma cfs_pending :
      pending S cid (callee_id, idgen_next (s_invgen callee)) (first_inv d cid callee_id callee r opts) (fst cid).
  Proof. unfold pending. rewrite cfs_calls, cfs_invs, cfs_bycall, !cget_cset_same. auto. Qed.
End States.

Section ChunkState.
  Variables (now : N) (d : dealer) (cid ikey : callid) (inv : invocation)
            (callee : session) (r : registration) (p : bool).
  Let S := chunk_state now d cid ikey inv callee r p.
  Let lt := local_timer (opt_int64 (inv_opts inv) "timeout") callee (inv_callee inv) r.

  Lemma chs_calls : d_calls S = d_calls d.
  Proof. unfold S, chunk_state. destruct (local_timer _ _ _); dproj; [apply ct_calls | reflexivity]. Qed.
  Lemma chs_bycall : d_bycall S = d_bycall d.
  Proof. unfold S, chunk_state. destruct (local_timer _ _ _); dproj; [apply ct_bycall | reflexivity]. Qed.
  Lemma chs_regs : d_regs S = d_regs d.
  Proof. unfold S, chunk_state. destruct (local_timer _ _ _); dproj; [apply ct_regs | reflexivity]. Qed.
  Lemma chs_map : forall k, d_map S k = d_map d k.
  Proof. intros k. unfold S, chunk_state. destruct (local_timer _ _ _); destruct k; cbn [d_map]; dproj;
         [apply ct_exact | apply ct_pfx | apply ct_wc | reflexivity | reflexivity | reflexivity]. Qed.
  Lemma chs_callee_regs : d_callee_regs S = d_callee_regs d.
  Proof. unfold S, chunk_state. destruct (local_timer _ _ _); dproj; [apply ct_callee_regs | reflexivity]. Qed.
  Lemma chs_idgen : d_idgen S = d_idgen d.
  Proof. unfold S, chunk_state. destruct (local_timer _ _ _); dproj; [apply ct_idgen | reflexivity]. Qed.
  Lemma chs_invs : d_invs S =
      cset (d_invs d) ikey (if lt then inv_set_timer (inv_set_inprogress inv p) (Some (d_timergen d + 1))
                            else inv_set_inprogress inv p).
  Proof. unfold S, lt, chunk_state. destruct (local_timer _ _ _); dproj; [rewrite ct_invs, ct_timergen|]; reflexivity. Qed.
  Lemma chs_timergen : d_timergen S = if lt then d_timergen d + 1 else d_timergen d.
  Proof. unfold S, lt, chunk_state. destruct (local_timer _ _ _); dproj; [rewrite ct_timergen|]; reflexivity. Qed.
  Lemma chs_timers : d_timers S =
      if lt then nset (d_timers (cancel_timer d (inv_timer inv))) (d_timergen d + 1)
                      (now + Z.to_N (opt_int64 (inv_opts inv) "timeout"), cid)
      else d_timers d.
  Proof. unfold S, lt, chunk_state. destruct (local_timer _ _ _); dproj; [rewrite ct_timergen|]; reflexivity. Qed.
End ChunkState.

(** ** C03 invocation_spec: what a first chunk produces *)
Theorem invocation_spec_proof : forall cfg lookup now d caller req opts proc args kw oracle d' callee' o,
    call cfg lookup now d caller req opts proc args kw oracle = CallInvoked d' callee' o ->
    cget (d_bycall d) (s_id caller, req) = None ->
    exists r callee_id next callee,
      match_procedure d proc oracle = Some r /\
      select_callee r oracle = Some (callee_id, next) /\ In callee_id (reg_callees r) /\
      lookup callee_id = Some callee /\
      let invid := idgen_next (s_invgen callee) in
      let det := call_details cfg caller callee callee_id r opts proc in
      o = [(callee_id, RInvocation invid (reg_id r) det args kw)] /\
      callee' = set_invgen callee invid /\
      d' = call_first_state now d (s_id caller, req) opts r callee_id next callee /\
      dget det "progress" = Some (VBool (opt_bool opts "progress")) /\
      dget det "receive_progress" = (if wants_progress callee opts then Some (VBool true) else None) /\
      dget det "procedure" = (if String.eqb (reg_match r) "exact" then None else Some (vuri proc)) /\
      pending d' (s_id caller, req) (callee_id, invid) (first_inv d (s_id caller, req) callee_id callee r opts) (s_id caller).
Proof.
  intros cfg lookup now d caller req opts proc args kw oracle d' callee' o Hc Hb.
  pose proof (call_cases cfg lookup now d caller req opts proc args kw oracle) as H.
  rewrite Hc in H. inversion H; subst; try congruence.
  exists r, callee_id, next, callee.
  destruct (call_details_spec cfg caller callee callee_id r opts proc) as (D1 & D2 & D3 & _).
  repeat split; auto.
  - eapply select_member; eassumption.
  - apply (cfs_pending now d (s_id caller, req)).
  - apply (cfs_pending now d (s_id caller, req)).
  - apply (cfs_pending now d (s_id caller, req)).
Qed.

(** payload passthru: the four ppt options are copied (as strings) into the
    INVOCATION details iff the CALL uses passthru mode, and then both peers
    announced the feature *)
Theorem invocation_ppt_proof : forall cfg lookup now d caller req opts proc args kw oracle d' callee' o,
    call cfg lookup now d caller req opts proc args kw oracle = CallInvoked d' callee' o ->
    cget (d_bycall d) (s_id caller, req) = None ->
    exists r callee_id callee,
      match_procedure d proc oracle = Some r /\ lookup callee_id = Some callee /\
      let det := call_details cfg caller callee callee_id r opts proc in
      o = [(callee_id, RInvocation (idgen_next (s_invgen callee)) (reg_id r) det args kw)] /\
      (forall k, In k ppt_keys -> dget det k = if ppt_active opts then ppt_val opts k else None) /\
      (ppt_active opts = true ->
       sess_feature caller "caller" f_ppt = true /\ sess_feature callee "callee" f_ppt = true).
Proof.
  intros cfg lookup now d caller req opts proc args kw oracle d' callee' o Hc Hb.
  pose proof (call_cases cfg lookup now d caller req opts proc args kw oracle) as H.
  rewrite Hc in H. inversion H; subst; try congruence.
  exists r, callee_id, callee. repeat split; auto.
  - intros k Hk. apply call_details_ppt. exact Hk.
  - match goal with Hpa : call_ppt_abort _ _ = false |- _ => unfold call_ppt_abort in Hpa; rewrite H0 in Hpa end.
    destruct (sess_feature caller "caller" f_ppt); [reflexivity | discriminate].
  - match goal with Hpr : call_ppt_refused _ _ = false |- _ => unfold call_ppt_refused in Hpr; rewrite H0 in Hpr end.
    destruct (sess_feature callee "callee" f_ppt); [reflexivity | discriminate].
Qed.

(** the id is new for that callee: above the generator, which bounds every
    invocation id the callee was sent (dealer_wf, [wf_inv]) *)
Theorem inv_id_fresh_proof : forall lookup d callee_id callee,
    dealer_wf lookup d -> lookup callee_id = Some callee -> s_invgen callee < max_idN ->
    idgen_next (s_invgen callee) = s_invgen callee + 1 /\
    forall i inv, cget (d_invs d) (callee_id, i) = Some inv -> i < idgen_next (s_invgen callee).
Proof.
  intros lookup d callee_id callee WF Hl Hn.
  rewrite idgen_next_nowrap by assumption. split; [reflexivity|].
  intros i inv Hi. destruct (wf_inv _ _ WF _ _ Hi) as (_ & _ & s & Hs & Hle).
  cbn [fst snd] in *. rewrite Hl in Hs. inversion Hs; subst. lia.
Qed.

(** a further chunk of a progressive call: same callee, same invocation id;
    no new id is drawn *)
Theorem chunk_spec_proof : forall cfg lookup now d caller req opts proc args kw oracle d' callee' o ikey,
    call cfg lookup now d caller req opts proc args kw oracle = CallInvoked d' callee' o ->
    cget (d_bycall d) (s_id caller, req) = Some ikey ->
    exists r inv,
      match_procedure d proc oracle = Some r /\
      cget (d_invs d) ikey = Some inv /\ lookup (inv_callee inv) = Some callee' /\
      o = [(s_id callee', RInvocation (snd ikey) (reg_id r) [("progress", VBool (opt_bool opts "progress"))] args kw)] /\
      d' = chunk_state now d (s_id caller, req) ikey inv callee' r (opt_bool opts "progress").
Proof.
  intros cfg lookup now d caller req opts proc args kw oracle d' callee' o ikey Hc Hb.
  pose proof (call_cases cfg lookup now d caller req opts proc args kw oracle) as H.
  rewrite Hc in H. inversion H; subst; try congruence.
  assert (ikey0 = ikey) by congruence. subst ikey0.
  exists r, inv. auto.
Qed.

(** ** C13 timeout forwarding *)
Theorem timeout_forwarded_iff_proof : forall cfg now d caller req opts proc r callee_id next callee,
    let cid := (s_id caller, req) in
    let tmo := opt_int64 opts "timeout" in
    let det := call_details cfg caller callee callee_id r opts proc in
    let d' := call_first_state now d cid opts r callee_id next callee in
    let inv := first_inv d cid callee_id callee r opts in
    (dget det "timeout" <> None <-> ((0 < tmo)%Z /\ sess_feature callee "callee" f_call_timeout = true /\ reg_forwards r callee_id = true)) /\
    (dget det "timeout" <> None -> dget det "timeout" = Some (VInt KInt64 tmo) /\
                                   d_timers d' = d_timers d /\ inv_timer inv = None) /\
    (dget det "timeout" = None -> (0 < tmo)%Z ->
       d_timers d' = nset (d_timers d) (d_timergen d + 1) (now + Z.to_N tmo, cid) /\
       inv_timer inv = Some (d_timergen d + 1) /\ d_timergen d' = d_timergen d + 1) /\
    ((tmo <= 0)%Z -> d_timers d' = d_timers d /\ inv_timer inv = None).
Proof.
  intros cfg now d caller req opts proc r callee_id next callee cid tmo det d' inv.
  destruct (call_details_spec cfg caller callee callee_id r opts proc) as (_ & _ & _ & D4 & _).
  fold det tmo in D4. subst d' inv. rewrite cfs_timers, cfs_timergen. unfold first_inv. cbn [inv_timer].
  fold tmo. unfold local_timer, timeout_forwarded in *.
  rewrite D4. destruct (Z.ltb_spec 0 tmo) as [Hpos|Hnp]; cbn [andb].
  - destruct (sess_feature callee "callee" f_call_timeout), (reg_forwards r callee_id); cbn [andb negb].
    + repeat split; auto; try congruence; try lia.
    + repeat split; auto; try congruence; try lia; intros (_ & _ & E); discriminate.
    + repeat split; auto; try congruence; try lia; intros (_ & E & _); discriminate.
    + repeat split; auto; try congruence; try lia; intros (_ & E & _); discriminate.
  - repeat split; auto; try congruence; try lia.
Qed.

(** ** C12, dealer half *)
Theorem invocation_disclose_iff_proof : forall cfg lookup now d caller req opts proc args kw oracle d' callee' o,
    call cfg lookup now d caller req opts proc args kw oracle = CallInvoked d' callee' o ->
    cget (d_bycall d) (s_id caller, req) = None ->
    exists r callee_id callee invid det,
      match_procedure d proc oracle = Some r /\ lookup callee_id = Some callee /\
      o = [(callee_id, RInvocation invid (reg_id r) det args kw)] /\
      let allowed := reg_discloses r callee_id ||
                     (opt_bool opts "disclose_me" && c_disclose cfg && sess_feature callee "callee" f_caller_ident) in
      dget det "caller" = (if allowed then Some (vid (s_id caller)) else None) /\
      dget det "caller_authid" = (if allowed then dget (s_details caller) "authid" else None) /\
      dget det "caller_authrole" = (if allowed then dget (s_details caller) "authrole" else None).
Proof.
  intros cfg lookup now d caller req opts proc args kw oracle d' callee' o Hc Hb.
  pose proof (call_cases cfg lookup now d caller req opts proc args kw oracle) as H.
  rewrite Hc in H. inversion H; subst; try congruence.
  exists r, callee_id, callee, (idgen_next (s_invgen callee)), (call_details cfg caller callee callee_id r opts proc).
  destruct (call_details_spec cfg caller callee callee_id r opts proc) as (_ & _ & _ & _ & D5 & D6 & D7).
  repeat split; auto.
  all: match goal with Hd : call_disclose_refused_cond _ _ _ _ = false |- _ => unfold call_disclose_refused_cond in Hd end.
  all: assert (E : reg_discloses r callee_id || (opt_bool opts "disclose_me" && c_disclose cfg && sess_feature callee "callee" f_caller_ident)
               = disclosed callee callee_id r opts)
    by (unfold disclosed; destruct (reg_discloses r callee_id), (opt_bool opts "disclose_me"), (c_disclose cfg);
        cbn in *; try reflexivity; discriminate).
  all: rewrite E; assumption.
Qed.

Theorem call_disclose_refused_proof : forall cfg lookup now d caller req opts proc args kw oracle r callee_id next callee,
    match_procedure d proc oracle = Some r -> reg_callees r <> [] ->
    call_abort_cond caller opts = false -> cget (d_bycall d) (s_id caller, req) = None ->
    select_callee r oracle = Some (callee_id, next) -> lookup callee_id = Some callee ->
    call_feature_refused callee opts = false ->
    call_ppt_abort caller opts = false -> call_ppt_refused callee opts = false ->
    opt_bool opts "disclose_me" = true -> reg_discloses r callee_id = false -> c_disclose cfg = false ->
    call cfg lookup now d caller req opts proc args kw oracle =
    CallRefused (call_d0 d r next) [(s_id caller, RError c_CALL req [] e_disclose_me [] [])] /\
    same_calls d (call_d0 d r next) /\ d_timers (call_d0 d r next) = d_timers d.
Proof.
  intros cfg lookup now d caller req opts proc args kw oracle r callee_id next callee Hm Hc Ha Hb Hs Hl Hf Hpa Hpr H1 H2 H3.
  split; [|split; [repeat split | reflexivity]].
  rewrite (call_first cfg lookup now d caller req opts proc args kw oracle r callee_id next callee Hm Hc Ha Hb Hs Hl).
  rewrite Hf, Hpa, Hpr. unfold call_disclose_refused_cond. rewrite H1, H2, H3. reflexivity.
Qed.

(** no INVOCATION is ever produced for a disallowed disclose_me *)
Theorem call_disclose_never_invoked_proof : forall cfg lookup now d caller req opts proc args kw oracle d' callee' o r x m,
    call cfg lookup now d caller req opts proc args kw oracle = CallInvoked d' callee' o ->
    cget (d_bycall d) (s_id caller, req) = None ->
    match_procedure d proc oracle = Some r -> In (x, m) o ->
    opt_bool opts "disclose_me" = true -> reg_discloses r x = false -> c_disclose cfg = true.
Proof.
  intros cfg lookup now d caller req opts proc args kw oracle d' callee' o r x m Hc Hb Hm Hin H1 H2.
  pose proof (call_cases cfg lookup now d caller req opts proc args kw oracle) as H.
  rewrite Hc in H. inversion H; subst; try congruence.
  assert (r0 = r) by congruence. subst r0.
  destruct Hin as [E|[]]. inversion E; subst x m.
  match goal with Hd : call_disclose_refused_cond _ _ _ _ = false |- _ => unfold call_disclose_refused_cond in Hd; rewrite H1, H2 in Hd end.
  destruct (c_disclose cfg); [reflexivity | discriminate].
Qed.

(** ** C02 prompt reply for an unroutable CALL *)
Theorem prompt_unroutable_proof : forall cfg lookup now d caller req opts proc args kw oracle,
    dealer_wf lookup d ->
    no_exact d proc -> no_prefix d proc -> no_wildcard d proc ->
    let cid := (s_id caller, req) in
    let d' := no_proc_state d cid in
    call cfg lookup now d caller req opts proc args kw oracle =
    CallRefused d' [(s_id caller, RError c_CALL req [] e_no_such_procedure [] [])] /\
    (* a first chunk: nothing was recorded, nothing changes *)
    (cget (d_bycall d) cid = None -> d' = d) /\
    (* a further chunk of a pending progressive call: that call is ended *)
    (forall k, cget (d_bycall d) cid = Some k -> gone d' cid k) /\
    cget (d_calls d') cid = None.
Proof.
  intros cfg lookup now d caller req opts proc args kw oracle WF H1 H2 H3 cid d'.
  split; [apply call_unroutable; apply (best_match_none lookup d WF); auto|].
  split; [apply nps_none|]. split; [apply nps_gone|].
  destruct (cget (d_bycall d) cid) as [k|] eqn:Hb.
  - apply (nps_gone d cid k Hb).
  - unfold d'. rewrite nps_none by exact Hb.
    destruct (cget (d_calls d) cid) eqn:Ec; [|reflexivity].
    destruct (wf_call lookup d WF _ _ Ec) as (_ & _ & Hn). congruence.
Qed.
