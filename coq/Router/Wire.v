(** * What the extracted runner prints and reads: WAMP list form of the
    router's messages, decimal conversion.  Definitions only. *)
From Nexus Require Export Router.Realm.
From Coq Require Import DecimalString.

Definition code (n : N) : value := VInt KInt64 (Z.of_N n).

Definition msg_value (m : rmsg) : value :=
  match m with
  | RAbort d r => VList [code 3; VDict d; vuri r]
  | RGoodbye d r => VList [code 6; VDict d; vuri r]
  | RError ty req d e a k => VList [code 8; code ty; vid req; VDict d; vuri e; VList a; VDict k]
  | RPublished req p => VList [code 17; vid req; vid p]
  | RSubscribed req s => VList [code 33; vid req; vid s]
  | RUnsubscribed req => VList [code 35; vid req]
  | REvent s p d a k => VList [code 36; vid s; vid p; VDict d; VList a; VDict k]
  | RRegistered req r => VList [code 65; vid req; vid r]
  | RUnregistered req => VList [code 67; vid req]
  | RInvocation req r d a k => VList [code 68; vid req; vid r; VDict d; VList a; VDict k]
  | RResult req d a k => VList [code 50; vid req; VDict d; VList a; VDict k]
  | RInterrupt req o => VList [code 69; vid req; VDict o]
  end.

Definition z_to_string (z : Z) : string := NilZero.string_of_int (Z.to_int z).
Definition z_of_string (s : string) : option Z := option_map Z.of_int (NilZero.int_of_string s).
Definition n_to_string (n : N) : string := z_to_string (Z.of_N n).

(** Authorizer built from a rule table: (code or 0, uri or None, sid or 0) -> action *)
Inductive aaction := ActAllow | ActDeny | ActFail | ActRewrite (uri : string).
Record arule := mkRule { ar_code : N; ar_uri : option string; ar_sid : N; ar_act : aaction }.

Definition msg_uri (m : cmsg) : option string :=
  match m with
  | CPublish _ _ t _ _ | CSubscribe _ _ t => Some t
  | CRegister _ _ p | CCall _ _ p _ _ => Some p
  | _ => None
  end.
Definition rewrite_uri (m : cmsg) (u : string) : cmsg :=
  match m with
  | CPublish q o _ a k => CPublish q o u a k
  | CSubscribe q o _ => CSubscribe q o u
  | CRegister q o _ => CRegister q o u
  | CCall q o _ a k => CCall q o u a k
  | _ => m
  end.
Fixpoint table_authz (rules : list arule) (sid : N) (local : bool) (details : dict) (m : cmsg) : adecision :=
  match rules with
  | [] => AAllow m
  | r :: rest =>
      if ((ar_code r =? 0) || (ar_code r =? cmsg_code m)) &&
         ((ar_sid r =? 0) || (ar_sid r =? sid)) &&
         match ar_uri r with
         | None => true
         | Some u => match msg_uri m with Some x => String.eqb x u | None => false end
         end
      then match ar_act r with
           | ActAllow => AAllow m | ActDeny => ADeny | ActFail => AFail
           | ActRewrite u => AAllow (rewrite_uri m u)
           end
      else table_authz rest sid local details m
  end.
