(** * Dealer proofs, part 9: call timeouts fire exactly (C13, C02). *)
From Nexus Require Import Router.Dealer Router.DealerLib Router.DealerProofs Router.DealerReg
     Router.DealerCall Router.DealerWfCalls Router.DealerWfRegs Router.DealerWf Router.DealerRemove.
From Coq Require Import Lia ZifyN ZifyNat ZifyBool.

Definition timeout_msg (cid : callid) : out :=
  (fst cid, RError c_CALL (snd cid) [] e_timeout [vstr "call timeout"] []).

Lemma pair_eta' : forall c : callid, (fst c, snd c) = c.
Proof. intros [a b]; reflexivity. Qed.

(** the three things one due timer can do *)
Lemma fire_step_cases : forall lookup d o tid dl (cid : callid),
    let d1 := cancel_timer d (Some tid) in
    (amem N.eqb (d_timers d) tid = false /\ fire_step lookup (d, o) (tid, (dl, cid)) = (d, o)) \/
    (amem N.eqb (d_timers d) tid = true /\ fire_step lookup (d, o) (tid, (dl, cid)) = (d1, o) /\
     forall k inv x, pending d1 cid k inv x -> inv_canceled inv = true) \/
    (amem N.eqb (d_timers d) tid = true /\
     exists k inv x, pending d1 cid k inv x /\ inv_canceled inv = false /\
       fire_step lookup (d, o) (tid, (dl, cid)) =
       (drop_call (cancel_state d1 k inv) cid k,
        o ++ (if callee_can_cancel lookup inv then [interrupt_msg k inv e_timeout "killnowait"] else [])
          ++ [timeout_msg cid])).
Proof.
  intros lookup d o tid dl cid d1. unfold fire_step.
  destruct (amem N.eqb (d_timers d) tid) eqn:Ha; [|left; auto]. right.
  change (d_set_timers d (ndel (d_timers d) tid) (d_timergen d)) with d1.
  destruct (sync_cancel_cases lookup d1 (fst cid) (snd cid) "killnowait" e_timeout [vstr "call timeout"])
    as [E|(k & inv & x & Hp & Hc)].
  - left. split; [reflexivity|]. rewrite E, app_nil_r. split; [reflexivity|].
    intros k inv x Hp. destruct (inv_canceled inv) eqn:Hc; [reflexivity|]. exfalso.
    rewrite <- (pair_eta' cid) in Hp.
    rewrite (sync_cancel_live lookup _ _ _ "killnowait" e_timeout [vstr "call timeout"] _ _ _ Hp Hc) in E.
    change (("killnowait" =? "kill")%string) with false in E. rewrite andb_false_r in E.
    apply (f_equal snd) in E. cbn [snd] in E. apply app_eq_nil in E. destruct E as [_ E]. discriminate E.
  - right. split; [reflexivity|]. exists k, inv, x. rewrite pair_eta' in Hp. split; [exact Hp|]. split; [exact Hc|].
    rewrite <- (pair_eta' cid) in Hp.
    rewrite (sync_cancel_live lookup _ _ _ "killnowait" e_timeout [vstr "call timeout"] _ _ _ Hp Hc).
    change (("killnowait" =? "kill")%string) with false. rewrite andb_false_r.
    change (negb ("killnowait" =? "skip")%string) with true. cbn [andb]. rewrite pair_eta'. reflexivity.
Qed.

Lemma pending_ct : forall d t cid k inv x, pending (cancel_timer d t) cid k inv x <-> pending d cid k inv x.
Proof. intros. unfold pending. rewrite ct_calls, ct_bycall, ct_invs. tauto. Qed.

Lemma pending_ct_fwd : forall d t cid k inv x, pending (cancel_timer d t) cid k inv x -> pending d cid k inv x.
Proof. intros. apply (pending_ct d t). assumption. Qed.
Lemma pending_ct_bwd : forall d t cid k inv x, pending d cid k inv x -> pending (cancel_timer d t) cid k inv x.
Proof. intros. apply (pending_ct d t). assumption. Qed.

Lemma shrinks_cancel_timer : forall d t, shrinks d (cancel_timer d t).
Proof.
  intros d t. constructor; intros *; rewrite ?ct_calls, ?ct_bycall, ?ct_invs; auto.
  unfold regs_side_eq. rewrite ct_exact, ct_pfx, ct_wc, ct_regs, ct_callee_regs, ct_idgen. repeat split; reflexivity.
Qed.

Lemma shrinks_cancel_drop : forall d cid k inv, cget (d_invs d) k = Some inv ->
    shrinks d (drop_call (cancel_state d k inv) cid k).
Proof.
  intros d cid k inv Hi. constructor.
  - intros c x. rewrite dc_calls, cs_calls, cget_cdel. destruct (pair_eqb c cid); [discriminate | auto].
  - intros c x. rewrite dc_bycall, cs_bycall, cget_cdel. destruct (pair_eqb c cid); [discriminate | auto].
  - intros k0 v. rewrite dc_invs, cs_invs, cget_cdel, cget_cset. destruct (pair_eqb k0 k); [discriminate | auto].
  - unfold regs_side_eq, drop_call, cancel_state. dproj.
    rewrite ct_exact, ct_pfx, ct_wc, ct_regs, ct_callee_regs, ct_idgen. repeat split; reflexivity.
Qed.

Lemma timers_sub_cancel_drop : forall d cid k inv t v,
    nget (d_timers (drop_call (cancel_state d k inv) cid k)) t = Some v -> nget (d_timers d) t = Some v.
Proof.
  intros d cid k inv t v. change (d_timers (drop_call ?a ?b ?c)) with (d_timers a).
  unfold cancel_state. dproj. rewrite ct_timers. destruct (inv_timer inv) as [t0|]; [|auto].
  destruct (N.eqb t t0); [discriminate | auto].
Qed.

(** one step: invariant, tables shrink, output grows *)
Lemma fire_step_mono : forall lookup d o e,
    calls_core d ->
    let r := fire_step lookup (d, o) e in
    calls_core (fst r) /\ shrinks d (fst r) /\ (forall m, In m o -> In m (snd r)) /\
    (forall t v, nget (d_timers (fst r)) t = Some v -> nget (d_timers d) t = Some v).
Proof.
  intros lookup d o [tid [dl cid]] W r. subst r.
  destruct (fire_step_cases lookup d o tid dl cid) as [[_ E]|[(_ & E & _)|(_ & k & inv & x & Hp & Hc & E)]];
    rewrite E; cbn [fst snd].
  - split; [exact W|]. split; [apply shrinks_refl|]. auto.
  - split; [apply core_cancel_timer; exact W|]. split; [apply shrinks_cancel_timer|]. split; [auto|].
    intros t v. rewrite ct_timers. destruct (N.eqb t tid); [discriminate | auto].
  - pose proof (core_cancel_timer d (Some tid) W) as W1. pose proof Hp as (_ & _ & Hi).
    split; [eapply core_cancel_drop; eauto|]. split.
    + eapply shrinks_trans; [apply (shrinks_cancel_timer d (Some tid)) | apply shrinks_cancel_drop; exact Hi].
    + split; [intros m Hm; apply in_or_app; auto|].
      intros t v Ht. apply timers_sub_cancel_drop in Ht. rewrite ct_timers in Ht.
      destruct (N.eqb t tid); [discriminate | auto].
Qed.

Lemma fire_fold_mono : forall lookup l d o,
    calls_core d ->
    let r := fold_left (fire_step lookup) l (d, o) in
    calls_core (fst r) /\ shrinks d (fst r) /\ (forall m, In m o -> In m (snd r)).
Proof.
  intros lookup. induction l as [|e l IH]; intros d o W; cbn [fold_left].
  - cbn [fst snd]. split; [exact W|]. split; [apply shrinks_refl | auto].
  - destruct (fire_step_mono lookup d o e W) as (W1 & S1 & M1 & _).
    destruct (fire_step lookup (d, o) e) as [d1 o1]. cbn [fst snd] in *.
    destruct (IH d1 o1 W1) as (W2 & S2 & M2). split; [exact W2|]. split; [eapply shrinks_trans; eauto | auto].
Qed.

(** ** Soundness: what [fire_timers] sends *)
Lemma fire_fold_sound : forall lookup (l : list (N * (N * callid))) d o,
    calls_core d ->
    let r := fold_left (fire_step lookup) l (d, o) in
    forall m, In m (snd r) ->
      In m o \/
      exists tid dl cid k inv x,
        In (tid, (dl, cid)) l /\ pending d cid k inv x /\ inv_canceled inv = false /\
        cget (d_calls (fst r)) cid = None /\
        (m = timeout_msg cid \/
         (callee_can_cancel lookup inv = true /\ m = interrupt_msg k inv e_timeout "killnowait")).
Proof.
  intros lookup. induction l as [|[tid [dl cid]] l IH]; intros d o W; cbn [fold_left]; [cbn; auto|].
  intros m Hm.
  pose proof (fire_step_mono lookup d o (tid, (dl, cid)) W) as (W1 & S1 & _ & _).
  destruct (fire_step_cases lookup d o tid dl cid) as [[_ E]|[(_ & E & _)|(_ & k & inv & x & Hp & Hc & E)]];
    rewrite E in *; cbn [fst snd] in *.
  - destruct (IH d o W m Hm) as [H|(t' & dl' & c' & k' & i' & x' & Hin & H)]; [auto|].
    right. exists t', dl', c', k', i', x'. split; [cbn; auto | exact H].
  - destruct (IH _ o W1 m Hm) as [H|(t' & dl' & c' & k' & i' & x' & Hin & Hp' & H)]; [auto|].
    right. exists t', dl', c', k', i', x'. split; [cbn; auto|]. split; [apply pending_ct_fwd in Hp'; exact Hp' | exact H].
  - set (D := drop_call (cancel_state (cancel_timer d (Some tid)) k inv) cid k) in *.
    destruct (IH D _ W1 m Hm) as [H|(t' & dl' & c' & k' & i' & x' & Hin & Hp' & H)].
    + apply in_app_or in H. destruct H as [H|H]; [auto|]. right.
      exists tid, dl, cid, k, inv, x. split; [cbn; auto|]. split; [apply pending_ct_fwd in Hp; exact Hp|]. split; [exact Hc|].
      destruct (fire_fold_mono lookup l D (o ++ (if callee_can_cancel lookup inv then [interrupt_msg k inv e_timeout "killnowait"] else []) ++ [timeout_msg cid]) W1) as (_ & S2 & _).
      split.
      * destruct (cget (d_calls (fst (fold_left (fire_step lookup) l (D, _)))) cid) eqn:Ec; [|reflexivity].
        apply (sh_calls _ _ S2) in Ec. unfold D in Ec. rewrite dc_calls, cget_cdel_same in Ec. discriminate.
      * apply in_app_or in H. destruct H as [H|[H|[]]]; [|auto].
        destruct (callee_can_cancel lookup inv); [|destruct H]. destruct H as [H|[]]. auto.
    + right. exists t', dl', c', k', i', x'. split; [cbn; auto|]. split; [|exact H].
      destruct Hp' as (P1 & P2 & P3). unfold pending.
      rewrite (sh_calls _ _ S1 _ _ P1), (sh_bycall _ _ S1 _ _ P2), (sh_invs _ _ S1 _ _ P3). auto.
Qed.

(** C13 timeout_exact: a timeout ERROR (or the INTERRUPT that goes with it)
    is produced only for a timer that was armed, has expired, and whose call
    was still pending and not cancelled in kill mode; the call is then gone. *)
Theorem timeout_exact_proof : forall lookup now d m,
    calls_core d -> In m (snd (fire_timers lookup now d)) ->
    exists tid dl cid k inv x,
      In (tid, (dl, cid)) (d_timers d) /\ dl <= now /\
      pending d cid k inv x /\ inv_canceled inv = false /\
      cget (d_calls (fst (fire_timers lookup now d))) cid = None /\
      (m = timeout_msg cid \/
       (callee_can_cancel lookup inv = true /\ m = interrupt_msg k inv e_timeout "killnowait")).
Proof.
  intros lookup now d m W Hm. rewrite fire_timers_fold in *.
  destruct (fire_fold_sound lookup _ d [] W m Hm) as [[]|(tid & dl & cid & k & inv & x & Hin & H)].
  exists tid, dl, cid, k, inv, x. apply (proj1 (In_sort_timers _ _)) in Hin. apply (proj1 (filter_In _ _ _)) in Hin. destruct Hin as [Hin Hdl].
  split; [exact Hin|]. split; [apply N.leb_le; exact Hdl | exact H].
Qed.

(** never earlier *)
Theorem timeout_never_early_proof : forall lookup now d,
    (forall tid dl cid, In (tid, (dl, cid)) (d_timers d) -> now < dl) ->
    fire_timers lookup now d = (d, []).
Proof.
  intros lookup now d H. rewrite fire_timers_fold.
  assert (E : filter (fun '((_, (dl, _)) : N * (N * callid)) => dl <=? now) (d_timers d) = []).
  { induction (d_timers d) as [|[tid [dl cid]] l IH]; [reflexivity|]. cbn [filter].
    specialize (H tid dl cid (or_introl eq_refl)) as Hlt.
    destruct (N.leb_spec dl now); [lia|]. apply IH. intros; eapply H; right; eauto. }
  rewrite E. reflexivity.
Qed.

(** a call that is no longer pending has no timer *)
Theorem no_timer_without_call_proof : forall d cid,
    calls_core d -> cget (d_bycall d) cid = None ->
    forall t dl, nget (d_timers d) t <> Some (dl, cid).
Proof.
  intros d cid W Hb t dl H. destruct (cw_timer _ W _ _ _ H) as (_ & k & inv & Hb' & _). congruence.
Qed.

(** ** Completeness: a due timer of a pending, not kill-cancelled call ends it *)
Lemma fire_fold_prompt : forall lookup (l : list (N * (N * callid))) d o tid dl cid k inv x,
    calls_core d ->
    (forall t v v', In (t, v) l -> nget (d_timers d) t = Some v' -> v' = v) ->
    In (tid, (dl, cid)) l -> nget (d_timers d) tid = Some (dl, cid) ->
    pending d cid k inv x -> inv_canceled inv = false ->
    let r := fold_left (fire_step lookup) l (d, o) in
    In (timeout_msg cid) (snd r) /\ gone (fst r) cid k.
Proof.
  intros lookup. induction l as [|[t_h [dl_h cid_h]] l IH]; intros d o tid dl cid k inv x W Cons Hin Ht Hp Hc;
    [destruct Hin|].
  cbn [fold_left].
  assert (Cons' : forall d', (forall t v, nget (d_timers d') t = Some v -> nget (d_timers d) t = Some v) ->
            forall t v v', In (t, v) l -> nget (d_timers d') t = Some v' -> v' = v).
  { intros d' Hsub t v v' Hl Hn. eapply Cons; [right; exact Hl | apply Hsub; exact Hn]. }
  destruct (fire_step_cases lookup d o t_h dl_h cid_h) as [[Ha E]|[(Ha & E & Hno)|(Ha & k_h & inv_h & x_h & Hp_h & Hc_h & E)]];
    rewrite E.
  - (* the head's timer is not armed any more: it is not ours *)
    assert (t_h <> tid).
    { intros ->. unfold amem in Ha. fold (nget (d_timers d) tid) in Ha. rewrite Ht in Ha. discriminate. }
    destruct Hin as [Eh|Hin]; [inversion Eh; congruence|].
    eapply (IH _ _ tid dl cid k inv x); [ exact W | | exact Hin | exact Ht | exact Hp | exact Hc ].
    apply Cons'. auto.
  - destruct (N.eq_dec t_h tid) as [->|Hne].
    + exfalso. assert (Ev : (dl, cid) = (dl_h, cid_h)) by (eapply Cons; [left; reflexivity | exact Ht]).
      inversion Ev; subst dl_h cid_h. apply (pending_ct_bwd d (Some tid)) in Hp.
      specialize (Hno _ _ _ Hp). congruence.
    + destruct Hin as [Eh|Hin]; [inversion Eh; congruence|].
      eapply (IH _ _ tid dl cid k inv x); [ apply core_cancel_timer; exact W | | exact Hin | | apply pending_ct_bwd; exact Hp | exact Hc ].
      * apply Cons'. intros t v. rewrite ct_timers. destruct (N.eqb t t_h); [discriminate | auto].
      * rewrite ct_timers. destruct (N.eqb_spec tid t_h); [congruence | exact Ht].
  - pose proof (core_cancel_timer d (Some t_h) W) as W1.
    assert (WD : calls_core (drop_call (cancel_state (cancel_timer d (Some t_h)) k_h inv_h) cid_h k_h))
      by (eapply core_cancel_drop; eauto).
    set (D := drop_call (cancel_state (cancel_timer d (Some t_h)) k_h inv_h) cid_h k_h) in *.
    set (o1 := o ++ (if callee_can_cancel lookup inv_h then [interrupt_msg k_h inv_h e_timeout "killnowait"] else [])
                 ++ [timeout_msg cid_h]) in *.
    apply pending_ct_fwd in Hp_h.
    destruct (pair_eqb_spec cid_h cid) as [->|Hnc].
    + (* this timer (or another one of the same call) ends our call *)
      assert (k_h = k) by (destruct Hp as (_ & B1 & _), Hp_h as (_ & B2 & _); congruence). subst k_h.
      destruct (fire_fold_mono lookup l D o1 WD) as (_ & S2 & M2). split.
      * apply M2. unfold o1. apply in_or_app. right. apply in_or_app. right. cbn. auto.
      * eapply shrinks_gone; [exact S2 | apply gone_drop_call].
    + assert (t_h <> tid).
      { intros ->. assert (Ev : (dl, cid) = (dl_h, cid_h)) by (eapply Cons; [left; reflexivity | exact Ht]).
        inversion Ev; congruence. }
      destruct Hin as [Eh|Hin]; [inversion Eh; congruence|].
      assert (Hk : k <> k_h).
      { intros ->. destruct Hp as (_ & B1 & I1), Hp_h as (_ & B2 & I2).
        destruct (cw_bycall _ W _ _ B1) as (i1 & Hi1 & Hc1). destruct (cw_bycall _ W _ _ B2) as (i2 & Hi2 & Hc2).
        congruence. }
      eapply (IH _ _ tid dl cid k inv x); [ exact WD | | exact Hin | | | exact Hc ].
      * apply Cons'. intros t v Hn. apply timers_sub_cancel_drop in Hn. rewrite ct_timers in Hn.
        destruct (N.eqb t t_h); [discriminate | auto].
      * (* our timer is still armed *)
        change (d_timers D) with (d_timers (cancel_state (cancel_timer d (Some t_h)) k_h inv_h)).
        unfold cancel_state. dproj. rewrite !ct_timers.
        destruct (inv_timer inv_h) as [t'|] eqn:Et'.
        -- destruct (N.eqb_spec tid t') as [->|]; [exfalso|].
           ++ destruct Hp_h as (_ & B2 & I2). destruct (cw_bycall _ W _ _ B2) as (i2 & Hi2 & Hc2).
              assert (i2 = inv_h) by congruence. subst i2.
              pose proof (cw_timer_inj _ W _ _ _ _ _ I2 Et' Ht). congruence.
           ++ destruct (N.eqb_spec tid t_h); [congruence | exact Ht].
        -- destruct (N.eqb_spec tid t_h); [congruence | exact Ht].
      * destruct Hp as (P1 & P2 & P3). unfold pending, D.
        rewrite dc_calls, dc_bycall, dc_invs, cs_calls, cs_bycall, cs_invs, ct_calls, ct_bycall, ct_invs.
        rewrite !cget_cdel_other, cget_cset_other by congruence. auto.
Qed.

(** C02 prompt reply on timer expiry *)
Theorem prompt_timeout_proof : forall lookup now d tid dl cid k inv x,
    calls_core d ->
    nget (d_timers d) tid = Some (dl, cid) -> dl <= now ->
    pending d cid k inv x -> inv_canceled inv = false ->
    In (timeout_msg cid) (snd (fire_timers lookup now d)) /\ gone (fst (fire_timers lookup now d)) cid k.
Proof.
  intros lookup now d tid dl cid k inv x W Ht Hdl Hp Hc. rewrite fire_timers_fold.
  eapply fire_fold_prompt; eauto.
  - intros t v v' Hin Hn. apply (proj1 (In_sort_timers _ _)) in Hin. apply (proj1 (filter_In _ _ _)) in Hin. destruct Hin as [Hin _].
    apply (In_aget N.eqb N.eqb_spec) in Hin; [|apply (cw_timerkeys _ W)].
    unfold nget in Hn. congruence.
  - apply (proj2 (In_sort_timers _ _)). apply (proj2 (filter_In _ _ _)). split.
    + eapply aget_In; [apply N.eqb_spec | exact Ht].
    + apply N.leb_le. exact Hdl.
Qed.
