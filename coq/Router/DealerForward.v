(** * Dealer proofs, part 14: forward_timeout is per callee (C13).

    [reg_fwd_timeout r] lists the callees of [r] that asked at REGISTER to
    handle call timeouts themselves.  [forward_own J d]: every member is a
    callee of [r], listed once, with a witness [J rid sid] = "session [sid]
    itself sent a REGISTER with forward_timeout = true that was answered
    REGISTERED rid".  Same shape as Router/DealerDisclose.v. *)
From Nexus Require Import Router.Realm Router.DealerLib Router.DealerProofs Router.DealerReg
     Router.DealerCall Router.DealerWfCalls Router.DealerWfRegs Router.DealerWf Router.DealerRemove
     Router.DealerReply Router.DealerTimers Router.DealerOwned Router.DealerExamples Router.DealerTrace
     Router.DealerDisclose.
From Coq Require Import Lia ZifyN ZifyNat ZifyBool Relations.

Definition forward_own (J : djust) (d : dealer) : Prop :=
  forall rid r, nget (d_regs d) rid = Some r ->
    NoDup (reg_fwd_timeout r) /\
    forall sid, In sid (reg_fwd_timeout r) -> In sid (reg_callees r) /\ J rid sid.

Lemma forward_own_weaken : forall (J J' : djust) d,
    (forall rid sid, J rid sid -> J' rid sid) -> forward_own J d -> forward_own J' d.
Proof.
  intros J J' d H O rid r Hr. destruct (O rid r Hr) as [ND Hs]. split; [exact ND|].
  intros sid Hin. destruct (Hs sid Hin). auto.
Qed.

Lemma forward_own_regs_eq : forall J d d', d_regs d' = d_regs d -> forward_own J d -> forward_own J d'.
Proof. intros J d d' E O rid r. rewrite E. apply O. Qed.

(** the witness a successful REGISTER with forward_timeout contributes *)
Definition fwd_witness (cfg : config) (d : dealer) (callee : session) (req : N) (opts : dict) (proc : string)
  : djust :=
  fun rid sid =>
    sid = s_id callee /\ opt_bool opts "forward_timeout" = true /\
    snd (fst (register cfg d callee req opts proc)) = [(sid, RRegistered req rid)].

(** ** REGISTER *)
Theorem register_forward_own : forall cfg lookup J d callee req opts proc,
    dealer_wf lookup d -> forward_own J d ->
    forward_own (J_or J (fwd_witness cfg d callee req opts proc))
                 (fst (fst (register cfg d callee req opts proc))).
Proof.
  intros cfg lookup J d callee req opts proc WF O.
  pose proof (wf_regs _ _ WF) as W.
  assert (O' : forward_own (J_or J (fwd_witness cfg d callee req opts proc)) d)
    by (eapply forward_own_weaken; [|exact O]; intros; left; assumption).
  destruct (register_outcomes cfg d callee req opts proc)
    as [E|[(Hpre & r & Hl & Hok & E & Eo)|(Hpre & Hl & E & Eo)]]; rewrite E.
  - exact O'.
  - (* joining *)
    destruct (reg_lookup_some _ _ _ _ W Hl) as (Hr & _).
    apply share_ok_iff in Hok. destruct Hok as (_ & _ & Hni).
    destruct (O _ _ Hr) as [ND Hs].
    intros rid r0. unfold share_state. dproj. rewrite nget_nset.
    destruct (N.eqb_spec rid (reg_id r)) as [->|Hne]; [|apply O'].
    intros E0; inversion E0; subst r0. clear E0. cbn [reg_add_callee reg_fwd_timeout reg_callees].
    destruct (opt_bool opts "forward_timeout") eqn:Hd.
    + split.
      * apply NoDup_app_single; [exact ND|]. intros Hin. apply Hni. apply (Hs _ Hin).
      * intros sid Hin. apply in_app_or in Hin. destruct Hin as [Hin|[<-|[]]].
        -- destruct (Hs _ Hin) as [A B]. split; [apply in_or_app; left; exact A | left; exact B].
        -- split; [apply in_or_app; right; left; reflexivity|]. right.
           unfold fwd_witness. split; [reflexivity|]. split; [exact Hd | exact Eo].
    + split; [exact ND|]. intros sid Hin. destruct (Hs _ Hin) as [A B].
      split; [apply in_or_app; left; exact A | left; exact B].
  - (* a new registration *)
    intros rid r0. rewrite ns_regs, nget_nset.
    destruct (N.eqb_spec rid (reg_id (new_reg d opts proc (s_id callee)))) as [->|Hne]; [|apply O'].
    intros E0; inversion E0; subst r0. clear E0. cbn [new_reg reg_fwd_timeout reg_callees reg_id].
    destruct (opt_bool opts "forward_timeout") eqn:Hd.
    + split; [repeat constructor; intros []|].
      intros sid [<-|[]]. split; [left; reflexivity|]. right.
      unfold fwd_witness. split; [reflexivity|]. split; [exact Hd | exact Eo].
    + split; [constructor | intros sid []].
Qed.

(** C13 joining_does_not_inherit_forward: a callee that joins an existing shared
    registration without forward_timeout is not in [reg_fwd_timeout], whatever
    the creator (or any other member) asked for; and one that joins with it is
    the only one added. *)
Theorem joining_does_not_inherit_forward_proof : forall cfg lookup J d callee req opts proc r d' mps,
    dealer_wf lookup d -> forward_own J d ->
    reg_lookup d (opt_string opts "match") proc = Some r ->
    register cfg d callee req opts proc = (d', [(s_id callee, RRegistered req (reg_id r))], mps) ->
    exists r', nget (d_regs d') (reg_id r) = Some r' /\
               reg_callees r' = reg_callees r ++ [s_id callee] /\
               reg_fwd_timeout r' = (if opt_bool opts "forward_timeout" then reg_fwd_timeout r ++ [s_id callee] else reg_fwd_timeout r) /\
               (opt_bool opts "forward_timeout" = false -> reg_forwards r' (s_id callee) = false) /\
               (forall x, x <> s_id callee -> reg_forwards r' x = reg_forwards r x).
Proof.
  intros cfg lookup J d callee req opts proc r d' mps WF O Hl E.
  pose proof (wf_regs _ _ WF) as W.
  destruct (reg_lookup_some _ _ _ _ W Hl) as (Hr & _).
  destruct (O _ _ Hr) as [ND Hs].
  destruct (valid_uri (c_strict cfg) (opt_string opts "match") proc) eqn:Hv.
  2:{ rewrite register_invalid_uri in E by assumption. inversion E. }
  destruct (str_prefix_wamp proc && negb (N.eqb (s_id callee) meta_id)) eqn:Hw.
  { unfold register in E. rewrite Hv in E. cbn [negb] in E. rewrite Hw in E. inversion E. }
  destruct (reg_disclose_refused cfg callee opts) eqn:Hd.
  { rewrite register_disclose_refused in E by assumption. inversion E. }
  assert (Hpre : reg_prechecks cfg callee opts proc) by (unfold reg_prechecks; auto).
  rewrite (register_existing _ _ _ _ _ _ r Hpre Hl) in E.
  destruct (share_ok r (opt_string opts "invoke") (s_id callee)) eqn:Hok; [|inversion E].
  inversion E as [[E1 E2]]. clear E E2.
  apply share_ok_iff in Hok. destruct Hok as (_ & _ & Hni).
  exists (reg_add_callee r (s_id callee) (opt_bool opts "disclose_caller") (opt_bool opts "forward_timeout")).
  split; [unfold share_state; dproj; rewrite nget_nset, N.eqb_refl; reflexivity|].
  split; [reflexivity|]. split; [reflexivity|].
  assert (Hnd : ~ In (s_id callee) (reg_fwd_timeout r)) by (intros Hin; apply Hni; apply (Hs _ Hin)).
  split.
  - intros Hdc. unfold reg_forwards. cbn [reg_add_callee reg_fwd_timeout]. rewrite Hdc. apply nmem_false. exact Hnd.
  - intros x Hx. unfold reg_forwards. cbn [reg_add_callee reg_fwd_timeout].
    destruct (opt_bool opts "forward_timeout"); [|reflexivity].
    destruct (nmem x (reg_fwd_timeout r)) eqn:M.
    + apply nmem_In. apply in_or_app. left. apply nmem_In. exact M.
    + apply nmem_false. intros Hin. apply in_app_or in Hin. destruct Hin as [Hin|[Ex|[]]]; [|congruence].
      apply nmem_false in M. contradiction.
Qed.

(** ** Removing a callee *)
Lemma del_callee_reg_forward_own : forall J d sid regid d' res,
    regs_core d -> forward_own J d -> del_callee_reg d sid regid = (d', res) -> forward_own J d'.
Proof.
  intros J d sid regid d' res W O H.
  pose proof (del_callee_reg_cases d sid regid) as Hc.
  destruct (nget (d_regs d) regid) as [r|] eqn:Hr.
  2:{ rewrite Hc in H. inversion H; subst. exact O. }
  destruct (nmem sid (reg_callees r)) eqn:Hm.
  2:{ rewrite Hc in H. inversion H; subst. exact O. }
  destruct (rw_callees _ W _ _ Hr) as (_ & C2 & _).
  destruct (O _ _ Hr) as [ND Hs].
  destruct (nremove1 sid (reg_callees r)) as [|c0 cs] eqn:Hrm.
  - rewrite Hc in H. inversion H; subst d' res. clear H.
    intros rid r0. rewrite d_regs_set_map. dproj. rewrite nget_ndel.
    destruct (N.eqb rid regid); [discriminate | apply O].
  - rewrite Hc in H. inversion H; subst d' res. clear H. rewrite <- Hrm.
    intros rid r0. dproj. rewrite nget_nset.
    destruct (N.eqb_spec rid regid) as [->|Hne]; [|apply O].
    intros E0; inversion E0; subst r0. clear E0. cbn [reg_fwd_timeout reg_callees].
    split; [apply NoDup_nremove1; exact ND|].
    intros x Hin. apply (In_nremove1_NoDup sid x _ ND) in Hin. destruct Hin as [Hin Hx].
    destruct (Hs _ Hin) as [A B]. split; [apply In_nremove1_other; assumption | exact B].
Qed.

Theorem unregister_forward_own : forall lookup J d sid req regid,
    dealer_wf lookup d -> forward_own J d -> forward_own J (fst (fst (unregister d sid req regid))).
Proof.
  intros lookup J d sid req regid WF O. unfold unregister.
  set (d0 := d_set_callee_regs d (callee_del_reg (d_callee_regs d) sid regid)).
  assert (W0 : regs_core d0).
  { apply regs_core_set_cr; [apply (wf_regs _ _ WF)|]. apply NoDup_keys_del. apply (rw_crkeys _ (wf_regs _ _ WF)). }
  assert (O0 : forward_own J d0) by (eapply forward_own_regs_eq; [|exact O]; reflexivity).
  destruct (del_callee_reg d0 sid regid) as [d1 [b|]] eqn:Hdel; cbn [fst]; [|exact O0].
  eapply del_callee_reg_forward_own; eauto.
Qed.

Lemma remove_fold_forward_own : forall J sid l d mp,
    regs_core d -> forward_own J d ->
    forward_own J (fst (fold_left (remove_callee_reg sid) l (d, mp))).
Proof.
  intros J sid. induction l as [|id0 l IH]; intros d mp W O; cbn [fold_left]; [exact O|].
  pose proof (remove_callee_reg_fst sid d mp id0) as E.
  destruct (del_callee_reg d sid id0) as [d1 res] eqn:Hdel.
  destruct (del_callee_reg_wf d sid id0 d1 res W Hdel) as [W1 _].
  pose proof (del_callee_reg_forward_own J d sid id0 d1 res W O Hdel) as O1.
  destruct (remove_callee_reg sid (d, mp) id0) as [d2 mp2]. cbn [fst] in E. subst d2.
  destruct res; [apply IH; assumption | apply IH; assumption].
Qed.

Theorem remove_session_forward_own : forall lookup lk J d sid,
    dealer_wf lookup d -> forward_own J d ->
    forward_own J (fst (fst (dealer_remove_session lk d sid))).
Proof.
  intros lookup lk J d sid WF O.
  rewrite (drs_fst lk d sid).
  destruct (drs_phase1 lookup lookup lk d sid WF (fun _ _ => eq_refl)) as (_ & S3 & _).
  destruct (drs_phase2 lookup lookup lk d sid WF (fun _ _ => eq_refl)) as (_ & S4 & _).
  pose proof (sh_regs _ _ (shrinks_trans _ _ _ S3 S4)) as (_ & _ & _ & E4 & _).
  eapply forward_own_regs_eq; [exact E4|].
  unfold unreg_all. eapply forward_own_regs_eq; [reflexivity|].
  apply remove_fold_forward_own; [apply (wf_regs _ _ WF) | exact O].
Qed.

(** ** CALL only moves the round-robin cursor *)
Theorem call_forward_own : forall cfg lookup now J d caller req opts proc args kw oracle,
    dealer_wf lookup d -> forward_own J d ->
    forward_own J (call_state (call cfg lookup now d caller req opts proc args kw oracle) d).
Proof.
  intros cfg lookup now J d caller req opts proc args kw oracle WF O.
  assert (Hd0 : forall r next, match_procedure d proc oracle = Some r ->
            forward_own J (call_d0 d r next)).
  { intros r next Hm. apply (best_match_sound lookup d WF) in Hm. destruct Hm as [Hr _]. unfold registered in Hr.
    intros rid r0. unfold call_d0. dproj. rewrite nget_nset.
    destruct (N.eqb_spec rid (reg_id r)) as [->|]; [|apply O].
    intros E; inversion E; subst r0. cbn [reg_set_next reg_fwd_timeout reg_callees]. apply (O _ _ Hr). }
  assert (Hnps : forward_own J (no_proc_state d (s_id caller, req))).
  { eapply forward_own_regs_eq; [|exact O]. unfold no_proc_state.
    destruct (cget (d_bycall d) (s_id caller, req)) as [k|]; [|reflexivity].
    unfold drop_call. dproj. destruct (cget (d_invs d) k); [apply ct_regs | reflexivity]. }
  pose proof (call_cases cfg lookup now d caller req opts proc args kw oracle) as H.
  inversion H; cbn [call_state]; auto.
  - eapply forward_own_regs_eq; [apply chs_regs | exact O].
  - eapply forward_own_regs_eq; [|eapply Hd0; eassumption]. rewrite cfs_regs. reflexivity.
Qed.

(** ** Histories: [reg_fwd_timeout] only ever holds callees that asked for it themselves *)
Inductive fj_step : dealer * djust -> dealer * djust -> Prop :=
| FJ_register lookup cfg d J callee req opts proc : dealer_wf lookup d ->
    fj_step (d, J) (fst (fst (register cfg d callee req opts proc)), J_or J (fwd_witness cfg d callee req opts proc))
| FJ_unregister lookup d J sid req regid : dealer_wf lookup d ->
    fj_step (d, J) (fst (fst (unregister d sid req regid)), J)
| FJ_remove lookup lk d J sid : dealer_wf lookup d ->
    fj_step (d, J) (fst (fst (dealer_remove_session lk d sid)), J)
| FJ_call cfg lookup now d J caller req opts proc args kw oracle : dealer_wf lookup d ->
    fj_step (d, J) (call_state (call cfg lookup now d caller req opts proc args kw oracle) d, J)
| FJ_other d d' J : d_regs d' = d_regs d ->        (* cancel, yield, error, timers: registrations untouched *)
    fj_step (d, J) (d', J).

Theorem forward_flag_is_callees_own_proof : forall a b,
    clos_refl_trans _ fj_step a b -> forward_own (snd a) (fst a) -> forward_own (snd b) (fst b).
Proof.
  intros a b H. induction H as [a b S| |a b c _ IH1 _ IH2]; [|auto|auto].
  destruct S; cbn [fst snd]; intros O.
  - eapply register_forward_own; eauto.
  - eapply unregister_forward_own; eauto.
  - eapply remove_session_forward_own; eauto.
  - eapply call_forward_own; eauto.
  - eapply forward_own_regs_eq; eauto.
Qed.

(** the justification only grows, and only by REGISTER witnesses of the session itself *)
Theorem fj_step_witness : forall d J d' J' rid sid,
    fj_step (d, J) (d', J') -> J' rid sid ->
    J rid sid \/
    exists cfg callee req opts proc,
      sid = s_id callee /\ opt_bool opts "forward_timeout" = true /\
      snd (fst (register cfg d callee req opts proc)) = [(sid, RRegistered req rid)].
Proof.
  intros d J d' J' rid sid S HJ. inversion S; subst; auto.
  destruct HJ as [HJ|HJ]; [auto|]. right. unfold fwd_witness in HJ. eauto 10.
Qed.

(** the dealer of a fresh realm: nobody asked for forward_timeout *)
Theorem init_forward_own : forall cfg,
    forward_own (fun _ _ => False) (r_dealer (init_realm cfg)).
Proof.
  intros cfg.
  assert (G : forall names d procs, dealer_wf lookup0 d -> d_idgen d + N.of_nat (List.length names) < max_idN ->
            forward_own (fun _ _ => False) d ->
            forward_own (fun _ _ => False) (fst (fold_left (init_step cfg) names (d, procs)))).
  { induction names as [|name names IH]; intros d procs WF Hn O; cbn [fold_left]; [exact O|].
    cbn [List.length] in Hn.
    pose proof (init_step_fst cfg d procs name) as E.
    destruct (init_step cfg (d, procs) name) as [d1 procs1]. cbn [fst] in E. subst d1.
    apply IH.
    - apply register_wf; [exact WF | unfold attached, lookup0; cbn; discriminate | lia].
    - pose proof (register_idgen cfg d meta_session (N.of_nat (List.length procs) + 1) [("disclose_caller", VBool true)] name).
      lia.
    - eapply forward_own_weaken; [|eapply register_forward_own; eauto].
      intros rid sid [H|(_ & H & _)]; [exact H | discriminate H]. }
  assert (Hlen : 0 + N.of_nat (List.length (meta_proc_names cfg)) < max_idN).
  { unfold meta_proc_names. destruct (c_meta_kill cfg), (c_meta_modify cfg); vm_compute; reflexivity. }
  pose proof (G (meta_proc_names cfg) empty_dealer [] (empty_dealer_wf lookup0) Hlen) as H.
  unfold init_realm. change (fold_left _ (meta_proc_names cfg) (empty_dealer, [])) with
      (fold_left (init_step cfg) (meta_proc_names cfg) (empty_dealer, [])).
  destruct (fold_left (init_step cfg) (meta_proc_names cfg) (empty_dealer, [])) as [d procs]. cbn [fst] in H.
  cbn [r_dealer]. apply H. intros rid r Hr. discriminate Hr.
Qed.


(** ** Examples: a two-callee shared registration; 11 and 30 both announce call_timeout *)
Definition rr_fwd : dict := [("invoke", vstr "roundrobin"); ("forward_timeout", VBool true)].
Definition tmo_opts : dict := [("timeout", vnat 100)].

(** creator 11 with forward_timeout, joiner 30 without *)
Definition fx1 : dealer := fst (fst (register cfg0 d2s s11 5 rr_fwd "com.t")).
Definition fx2 : dealer := fst (fst (register cfg0 fx1 s30 2 rr_opts "com.t")).
Definition fcx1 : call_result := call cfg0 lkx 5 fx2 s10 7 tmo_opts "com.t" [] [] 0.
Definition fcx2 : call_result := call cfg0 lkx 6 (call_state fcx1 fx2) s10 8 tmo_opts "com.t" [] [] 0.
(** the converse: creator 30 without, joiner 11 with *)
Definition fy1 : dealer := fst (fst (register cfg0 d2s s30 1 rr_opts "com.u")).
Definition fy2 : dealer := fst (fst (register cfg0 fy1 s11 5 rr_fwd "com.u")).
Definition fcy1 : call_result := call cfg0 lkx 5 fy2 s10 7 tmo_opts "com.u" [] [] 0.
Definition fcy2 : call_result := call cfg0 lkx 6 (call_state fcy1 fy2) s10 8 tmo_opts "com.u" [] [] 0.

(** addressed callee and the [timeout] key of the INVOCATION *)
Definition inv_timeout_key (r : call_result) : option (N * option value) :=
  match call_out r with
  | [(x, RInvocation _ _ det _ _)] => Some (x, dget det "timeout")
  | _ => None
  end.

Example joining_does_not_inherit_forward_ex :
    option_map (fun r => (reg_callees r, reg_fwd_timeout r)) (nget (d_regs fx2) 24) = Some ([11; 30], [11]) /\
    (* to the creator: forwarded, no router timer *)
    inv_timeout_key fcx1 = Some (11, Some (VInt KInt64 100)) /\ d_timers (call_state fcx1 fx2) = [] /\
    (* to the joiner (it supports call_timeout but did not ask): not forwarded, the router arms its timer *)
    inv_timeout_key fcx2 = Some (30, None) /\ d_timers (call_state fcx2 (call_state fcx1 fx2)) = [(1, (106, (10, 8)))] /\
    (* the converse *)
    option_map (fun r => (reg_callees r, reg_fwd_timeout r)) (nget (d_regs fy2) 24) = Some ([30; 11], [11]) /\
    inv_timeout_key fcy1 = Some (30, None) /\ d_timers (call_state fcy1 fy2) = [(1, (105, (10, 7)))] /\
    inv_timeout_key fcy2 = Some (11, Some (VInt KInt64 100)) /\
    d_timers (call_state fcy2 (call_state fcy1 fy2)) = [(1, (105, (10, 7)))] /\
    (* when 11 leaves the registration its entry goes too *)
    option_map (fun r => (reg_callees r, reg_fwd_timeout r)) (nget (d_regs (fst (fst (unregister fx2 11 9 24)))) 24) = Some ([30], []).
Proof. vm_compute. repeat split; reflexivity. Qed.

Lemma wf_fx1 : dealer_wf lkx fx1.
Proof.
  apply register_wf; [exact wf_d2s_x | apply att_x; cbn; auto | eapply idgen_small; [vm_compute; reflexivity | lia]].
Qed.

Lemma fown_d2s : forward_own (fun _ _ => True) d2s.
Proof.
  assert (O0 : forward_own (fun _ _ => True) d0)
    by (eapply forward_own_weaken; [|apply init_forward_own]; auto).
  assert (S : forall lookup cfg d callee req opts proc, dealer_wf lookup d -> forward_own (fun _ _ => True) d ->
            forward_own (fun _ _ => True) (fst (fst (register cfg d callee req opts proc)))).
  { intros. eapply forward_own_weaken; [|eapply register_forward_own; eauto]. auto. }
  assert (O1 : forward_own (fun _ _ => True) d1) by (apply (S (lk 0 0)); [exact wf_d0 | exact O0]).
  assert (O2 : forward_own (fun _ _ => True) d2) by (apply (S (lk 0 0)); [exact wf_d1 | exact O1]).
  assert (O3 : forward_own (fun _ _ => True) d2p) by (apply (S (lk 0 0)); [exact wf_d2 | exact O2]).
  assert (O4 : forward_own (fun _ _ => True) d2w) by (apply (S (lk 0 0)); [exact wf_d2p | exact O3]).
  assert (O5 : forward_own (fun _ _ => True) d2f) by (apply (S (lk 0 0)); [exact wf_d2w | exact O4]).
  apply (S (lk 0 0)); [exact wf_d2f | exact O5].
Qed.

Example joining_forward_hypotheses_ex :
    dealer_wf lkx fx1 /\ forward_own (fun _ _ => True) fx1 /\
    (exists r mps, reg_lookup fx1 (opt_string rr_opts "match") "com.t" = Some r /\ reg_fwd_timeout r = [11] /\
                   register cfg0 fx1 s30 2 rr_opts "com.t" = (fx2, [(s_id s30, RRegistered 2 (reg_id r))], mps)) /\
    opt_bool rr_opts "forward_timeout" = false.
Proof.
  split; [exact wf_fx1|]. split.
  - eapply forward_own_weaken; [|eapply register_forward_own; [exact wf_d2s_x | exact fown_d2s]]. auto.
  - split; [|reflexivity]. eexists; eexists. vm_compute. repeat split; reflexivity.
Qed.
