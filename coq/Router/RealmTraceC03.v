(** * Histories of the whole model, part 6 (C03): the INVOCATIONs sent to one
    callee along a history.

    [invocation_ids_increase]: every INVOCATION sent to a client session [y]
    either carries a request id greater than every id sent to [y] since the
    last JOIN operation with that session id (a new call: the id was never used
    towards that session), or repeats the id of an INVOCATION sent to [y]
    before (a further chunk of a progressive call).

    [no_invocation_after_unregistered]: after [y]'s UNREGISTER of registration
    [rid] was answered UNREGISTERED, an INVOCATION naming [rid] reaches [y]
    only if [y] was answered REGISTERED [rid] in between, or as a further chunk
    (it repeats the id of an earlier INVOCATION to [y]). *)
From Nexus Require Import Router.Realm Router.AssocLemmas Router.RealmLib Router.RealmProofs
     Router.RealmMetaProofs Router.RealmLeave.
From Nexus Require Import Router.DealerLib Router.DealerProofs Router.DealerWf.
From Nexus Require Import Router.RealmWf Router.RealmStep Router.RealmC05 Router.RealmOutputs Router.RealmIdle.
From Nexus Require Import Router.RealmTraceLib Router.RealmTrace Router.RealmTraceC05 Router.RealmTraceInv.
From Coq Require Import Lia ZifyN ZifyNat ZifyBool.

(** ** The trace, one step at a time *)
Lemma trace_from_snoc : forall ops r o,
    trace_from r (ops ++ [o]) = trace_from r ops ++ step_events o (snd (step (fst (run r ops)) o)).
Proof.
  induction ops as [|a ops IH]; intros r o.
  - cbn [app trace_from]. rewrite run_nil. cbn [fst]. now rewrite app_nil_r.
  - cbn [app trace_from]. rewrite IH, run_cons. cbn [fst]. now rewrite app_assoc.
Qed.

Lemma app_split : forall {A} (tr new pre post : list A) (e : A),
    tr ++ new = pre ++ e :: post ->
    (exists post0, tr = pre ++ e :: post0 /\ post = post0 ++ new) \/
    (exists pre0, pre = tr ++ pre0 /\ new = pre0 ++ e :: post).
Proof.
  intros A tr new pre post e H. apply app_eq_app in H. destruct H as (l & [[E1 E2]|[E1 E2]]).
  - (* tr = pre ++ l, e :: post = l ++ new *)
    destruct l as [|x l]; cbn in E2.
    + right. exists []. rewrite app_nil_r in *. cbn [app]. split; [symmetry; exact E1|symmetry; exact E2].
    + inversion E2; subst. left. exists l. auto.
  - (* pre = tr ++ l, new = l ++ e :: post *)
    right. exists l. auto.
Qed.

(** ** Vocabulary *)
Definition inv_ev (y b : N) (e : event) : Prop :=
  exists rid det a kw, e = EOut (y, RInvocation b rid det a kw).
Definition join_ev (y : N) (e : event) : Prop := exists l h, e = EIn (OJoin y l h).

(** an INVOCATION [b] was sent to [y] *)
Definition sent (y b : N) (tr : list event) : Prop := exists e, In e tr /\ inv_ev y b e.
(** ... and no JOIN with session id [y] came after it *)
Definition sent_live (y b : N) (tr : list event) : Prop :=
  exists pre e post, tr = pre ++ e :: post /\ inv_ev y b e /\ forall e', In e' post -> ~ join_ev y e'.

Lemma sent_app : forall y b a c, sent y b (a ++ c) <-> sent y b a \/ sent y b c.
Proof.
  intros y b a c. unfold sent. split.
  - intros (e & Hin & He). apply in_app_or in Hin. destruct Hin; [left|right]; eauto.
  - intros [(e & Hin & He)|(e & Hin & He)]; exists e; (split; [apply in_or_app; auto|exact He]).
Qed.

Lemma sent_live_sent : forall y b tr, sent_live y b tr -> sent y b tr.
Proof.
  intros y b tr (pre & e & post & -> & He & _). exists e. split; [apply in_or_app; right; now left|exact He].
Qed.

Definition no_inv_to (y : N) (new : list event) : Prop := forall e b, In e new -> ~ inv_ev y b e.

Lemma sent_live_cases : forall y b tr new,
    sent_live y b (tr ++ new) ->
    (sent_live y b tr /\ forall e', In e' new -> ~ join_ev y e') \/ (exists e, In e new /\ inv_ev y b e).
Proof.
  intros y b tr new (pre & e & post & E & He & Hj).
  destruct (app_split tr new pre post e E) as [(post0 & E1 & E2)|(pre0 & E1 & E2)].
  - left. split.
    + exists pre, e, post0. split; [exact E1|]. split; [exact He|]. intros e' Hin. apply Hj. rewrite E2. apply in_or_app. now left.
    + intros e' Hin. apply Hj. rewrite E2. apply in_or_app. now right.
  - right. exists e. split; [rewrite E2; apply in_or_app; right; now left|exact He].
Qed.

Lemma step_events_no_inv : forall y o out, noinv out -> no_inv_to y (step_events o out).
Proof.
  intros y o out A e b [<-|Hin] (rid & det & a & kw & E); [discriminate|].
  apply in_map_iff in Hin. destruct Hin as (m & <- & Hm). inversion E; subst. specialize (A _ Hm). discriminate A.
Qed.

(** ** The history invariant for one client session [y] *)
Section OneCallee.
  Variable y : N.
  Hypothesis Hy : y <> meta_id.

  Definition good (tr : list event) : Prop :=
    forall pre e post b, tr = pre ++ e :: post -> inv_ev y b e ->
      (forall i, sent_live y i pre -> i < b) \/ sent y b pre.

  Record hinv (tr : list event) (r : realm) : Prop := {
    hi_gen : forall sy i, lookup r y = Some sy -> sent_live y i tr -> i <= s_invgen sy;
    hi_keys : forall i, cget (d_invs (r_dealer r)) (y, i) <> None -> sent y i tr;
    hi_good : good tr
  }.

  Lemma good_extend_quiet : forall tr new, good tr -> no_inv_to y new -> good (tr ++ new).
  Proof.
    intros tr new G Hn pre e post b E He.
    destruct (app_split tr new pre post e E) as [(post0 & E1 & _)|(pre0 & _ & E2)].
    - eapply G; eauto.
    - exfalso. eapply (Hn e b); [rewrite E2; apply in_or_app; right; now left|exact He].
  Qed.

  (** the invariant survives a step that sends [y] no INVOCATION, creates no
      invocation key of [y], and does not attach [y] *)
  Lemma hinv_quiet : forall tr r new r',
      hinv tr r -> no_inv_to y new ->
      (forall i, cget (d_invs (r_dealer r')) (y, i) <> None -> cget (d_invs (r_dealer r)) (y, i) <> None) ->
      (forall sy', lookup r' y = Some sy' ->
         (exists sy, lookup r y = Some sy /\ s_invgen sy <= s_invgen sy') \/ (exists e, In e new /\ join_ev y e)) ->
      hinv (tr ++ new) r'.
  Proof.
    intros tr r new r' [K1 K2 G] Hn Hk Hb. constructor.
    - intros sy' i Hl Hs. destruct (sent_live_cases y i tr new Hs) as [[Hs0 Hj]|(e & Hin & He)].
      + destruct (Hb sy' Hl) as [(sy & Hl0 & Hle)|(e & Hin & He)].
        * specialize (K1 sy i Hl0 Hs0). lia.
        * exfalso. exact (Hj e Hin He).
      + exfalso. exact (Hn e i Hin He).
    - intros i H. apply sent_app. left. apply K2. apply Hk. exact H.
    - apply good_extend_quiet; assumption.
  Qed.

  Theorem hinv_step : forall tr r o k,
      realm_wf r -> ids_below k r -> k < max_idN -> op_ok o -> hinv tr r ->
      hinv (tr ++ step_events o (snd (step r o))) (fst (step r o)).
  Proof.
    intros tr r o k W I Hk Ho H.
    destruct (step_inv_facts r o k W I Hk Ho) as [Q|[Q|Q]].
    - (* quiet *)
      destruct Q as [A B C D]. apply (hinv_quiet tr r); [exact H|apply step_events_no_inv; exact A| |].
      + intros i. apply B. exact Hy.
      + intros sy' Hl. left. apply C. exact Hl.
    - (* an INVOCATION to a client *)
      destruct Q as (y' & b & rid & det & a & kw & Eo & Hy' & Cle & Back & Kind). rewrite Eo.
      destruct (N.eq_dec y' y) as [->|Hne].
      + destruct H as [K1 K2 G].
        set (m := (y, RInvocation b rid det a kw)) in *.
        assert (Hm : inv_ev y b (EOut m)) by (do 4 eexists; reflexivity).
        assert (Hnew : forall e i, In e (step_events o [m]) -> inv_ev y i e -> i = b).
        { intros e i [<-|[<-|[]]] (r0 & d0 & a0 & k0 & E); [discriminate|]. inversion E; subst. reflexivity. }
        assert (Hb_le : forall sy', lookup (fst (step r o)) y = Some sy' -> b <= s_invgen sy').
        { intros sy' Hl. destruct Kind as [(Hkey & _)|(sy & sy2 & rg & _ & _ & Hl2 & Hb & _)].
          - destruct (cget (d_invs (r_dealer r)) (y, b)) as [inv|] eqn:Hi; [|congruence].
            destruct (ca_inv _ _ (wf_calls_att _ _ (rw_dealer r W)) _ _ Hi) as (s0 & Hs0 & Hle). cbn [fst snd] in *.
            destruct (Back y sy' Hl) as (sy & Hl0 & Hle'). rewrite Hs0 in Hl0. inversion Hl0; subst. lia.
          - rewrite Hl2 in Hl. inversion Hl; subst. lia. }
        constructor.
        * intros sy' i Hl Hs. destruct (sent_live_cases y i tr _ Hs) as [[Hs0 _]|(e & Hin & He)].
          -- destruct (Back y sy' Hl) as (sy & Hl0 & Hle). specialize (K1 sy i Hl0 Hs0). lia.
          -- rewrite (Hnew e i Hin He). apply Hb_le. exact Hl.
        * intros i Hkey. apply sent_app.
          destruct Kind as [(_ & Hsub)|(sy & sy2 & rg & _ & _ & _ & _ & _ & _ & Hk')].
          -- left. apply K2. apply Hsub; assumption.
          -- destruct (Hk' _ Hkey) as [E|E].
             ++ inversion E; subst. right. exists (EOut m). split; [right; now left|exact Hm].
             ++ left. apply K2. exact E.
        * intros pre e post b' E He.
          destruct (app_split tr (step_events o [m]) pre post e E) as [(post0 & E1 & _)|(pre0 & E1 & E2)].
          -- eapply G; eauto.
          -- assert (Hin : In e (step_events o [m])) by (rewrite E2; apply in_or_app; right; now left).
             pose proof (Hnew e b' Hin He) as ->.
             (* [e] is the new INVOCATION: [pre] = [tr ++ [EIn o]] *)
             assert (Epre : pre0 = [EIn o]).
             { unfold step_events in E2. cbn [map] in E2. destruct pre0 as [|x [|x2 pre0]].
               - inversion E2; subst. destruct He as (? & ? & ? & ? & He). discriminate He.
               - inversion E2; subst. reflexivity.
               - inversion E2 as [[X1 X2 X3]]. destruct pre0; discriminate X3. }
             subst pre0. rewrite E1.
             destruct Kind as [(Hkey & _)|(sy & sy2 & rg & Hl & Hb & _)].
             ++ right. apply sent_app. left. apply K2. exact Hkey.
             ++ left. intros i Hs. destruct (sent_live_cases y i tr [EIn o] Hs) as [[Hs0 _]|(e' & [<-|[]] & He')].
                ** specialize (K1 sy i Hl Hs0). lia.
                ** destruct He' as (? & ? & ? & ? & He'). discriminate He'.
      + (* an INVOCATION to another session *)
        apply (hinv_quiet tr r); [exact H| | |].
        * intros e i [<-|[<-|[]]] (r0 & d0 & a0 & k0 & E); [discriminate|]. inversion E; subst. contradiction.
        * intros i Hkey. destruct Kind as [(_ & Hsub)|(sy & sy2 & rg & _ & _ & _ & _ & _ & _ & Hk')].
          -- apply Hsub; assumption.
          -- destruct (Hk' _ Hkey) as [E|E]; [inversion E; subst; contradiction|exact E].
        * intros sy' Hl. left. apply Back. exact Hl.
    - (* a session joins *)
      destruct Q as (sid & l & h & -> & Hl & A & Ed & Lk).
      apply (hinv_quiet tr r); [exact H|apply step_events_no_inv; exact A|rewrite Ed; auto|].
      intros sy' Hl'. destruct (N.eq_dec sid y) as [->|Hne].
      + right. exists (EIn (OJoin y l h)). split; [now left|do 2 eexists; reflexivity].
      + left. rewrite (Lk y) in Hl' by congruence. exists sy'. split; [exact Hl'|lia].
  Qed.

  Theorem hinv_run : forall ops r k,
      realm_wf r -> ids_below k r -> Forall op_ok ops -> k + N.of_nat (List.length ops) <= max_idN ->
      hinv [] r -> hinv (trace_from r ops) (fst (run r ops)).
  Proof.
    intros ops; induction ops as [|o ops IH] using rev_ind; intros r k W I Ho Hk H0.
    - exact H0.
    - rewrite trace_from_snoc, run_app1. rewrite app_length in Hk. cbn [List.length] in Hk.
      apply Forall_app in Ho. destruct Ho as [Ho1 Ho2]. inversion Ho2; subst.
      destruct (run_wf ops r k W I Ho1) as [W1 I1]; [lia|].
      apply (hinv_step _ _ _ (k + N.of_nat (List.length ops)) W1 I1); [lia|assumption|].
      apply (IH r k); auto. lia.
  Qed.
End OneCallee.

Lemma init_no_invs : forall cfg k, k0 cfg <= max_idN -> cget (d_invs (r_dealer (init_realm cfg))) k = None.
Proof.
  intros cfg k Hk. destruct (init_realm_wf cfg Hk) as [W _].
  assert (Ec : r_clients (init_realm cfg) = []) by (unfold init_realm; destruct (fold_left _ _ _); reflexivity).
  pose proof (empty_when_idle_partial (init_realm cfg) W Ec) as (_ & _ & _ & _ & E & _). rewrite E. reflexivity.
Qed.

Lemma hinv_init : forall cfg y, k0 cfg <= max_idN -> hinv y [] (init_realm cfg).
Proof.
  intros cfg y Hk. constructor.
  - intros sy i _ (pre & e & post & E & _). destruct pre; discriminate E.
  - intros i H. exfalso. apply H. apply init_no_invs. exact Hk.
  - intros pre e post b E. destruct pre; discriminate E.
Qed.

(** ** invocation_ids_increase *)
Theorem invocation_ids_increase_proof : forall cfg ops y pre e post b,
    Forall op_ok ops -> k0 cfg + N.of_nat (List.length ops) <= max_idN ->
    y <> meta_id ->
    trace cfg ops = pre ++ e :: post -> inv_ev y b e ->
    (forall i, sent_live y i pre -> i < b) \/ sent y b pre.
Proof.
  intros cfg ops y pre e post b Ho Hk Hy E He.
  destruct (init_realm_wf cfg) as [W I]; [lia|].
  pose proof (hinv_run y Hy ops (init_realm cfg) (k0 cfg) W I Ho Hk (hinv_init cfg y ltac:(lia))) as [_ _ G].
  rewrite <- trace_eq in G. eapply G; eauto.
Qed.

(** no INVOCATION is ever addressed to the meta session in the trace (it is
    consumed inside the step), so the hypothesis [y <> meta_id] can be dropped *)
Lemma step_no_inv_to_meta : forall r o k b,
    realm_wf r -> ids_below k r -> k < max_idN -> op_ok o ->
    forall e, In e (step_events o (snd (step r o))) -> ~ inv_ev meta_id b e.
Proof.
  intros r o k b W I Hk Ho e Hin He.
  destruct (step_inv_facts r o k W I Hk Ho) as [Q|[Q|Q]].
  - destruct Q as [A _ _ _]. exact (step_events_no_inv meta_id o _ A e b Hin He).
  - destruct Q as (y' & b' & rid & det & a & kw & Eo & Hy' & _). rewrite Eo in Hin.
    destruct Hin as [<-|[<-|[]]]; destruct He as (? & ? & ? & ? & He); [discriminate|].
    inversion He; subst. contradiction.
  - destruct Q as (sid & l & h & _ & _ & A & _). exact (step_events_no_inv meta_id o _ A e b Hin He).
Qed.

Lemma trace_no_inv_to_meta : forall ops r k b,
    realm_wf r -> ids_below k r -> Forall op_ok ops -> k + N.of_nat (List.length ops) <= max_idN ->
    forall e, In e (trace_from r ops) -> ~ inv_ev meta_id b e.
Proof.
  induction ops as [|o ops IH]; intros r k b W I Ho Hk e Hin; [destruct Hin|].
  cbn [trace_from] in Hin. cbn [List.length] in Hk. inversion Ho as [|? ? Ho1 Ho2]; subst.
  assert (Hk1 : k < max_idN) by lia.
  apply in_app_or in Hin. destruct Hin as [Hin|Hin].
  - eapply step_no_inv_to_meta; eauto.
  - destruct (step_wf r o k W I Hk1 Ho1) as [W1 I1].
    apply (IH (fst (step r o)) (k + 1) b W1 I1 Ho2); [lia|exact Hin].
Qed.

Theorem invocation_ids_increase_all_proof : forall cfg ops y pre e post b,
    Forall op_ok ops -> k0 cfg + N.of_nat (List.length ops) <= max_idN ->
    trace cfg ops = pre ++ e :: post -> inv_ev y b e ->
    (forall i, sent_live y i pre -> i < b) \/ sent y b pre.
Proof.
  intros cfg ops y pre e post b Ho Hk E He.
  destruct (N.eq_dec y meta_id) as [->|Hy]; [|eapply invocation_ids_increase_proof; eauto].
  exfalso. destruct (init_realm_wf cfg) as [W I]; [lia|].
  apply (trace_no_inv_to_meta ops (init_realm cfg) (k0 cfg) b W I Ho Hk e); [|exact He].
  rewrite <- trace_eq, E. apply in_or_app. right. now left.
Qed.

(** ** After UNREGISTERED *)
(** the gate admits an UNREGISTER as the UNREGISTER it received *)
Definition gate_unreg_id (r : realm) (o : op) : Prop :=
  forall sid q rid orc s m', o = OMsg sid (CUnregister q rid) orc -> find_session (r_clients r) sid = Some s ->
    gate r s (CUnregister q rid) = inl m' -> m' = CUnregister q rid.

Lemma along_app : forall P a b r, along P r (a ++ b) <-> along P r a /\ along P (fst (run r a)) b.
Proof.
  intros P. induction a as [|o a IH]; intros b r; cbn [app along].
  - rewrite run_nil. cbn [fst]. tauto.
  - rewrite run_cons. cbn [fst]. rewrite IH. tauto.
Qed.

Section Unreg.
  Variables y rid : N.
  Hypothesis Hy : y <> meta_id.

  Definition uin (q orc : N) : event := EIn (OMsg y (CUnregister q rid) orc).
  Definition uout (q : N) : event := EOut (y, RUnregistered q).
  Definition regd (mid : list event) : Prop := exists q', In (EOut (y, RRegistered q' rid)) mid.

  Definition pb (tr : list event) (r : realm) : Prop :=
    forall pre0 q orc mid, tr = pre0 ++ uin q orc :: uout q :: mid ->
      regd mid \/ not_callee y rid (r_dealer r).

  Definition goodb (tr : list event) : Prop :=
    forall pre0 q orc mid b det a kw post,
      tr = pre0 ++ uin q orc :: uout q :: mid ++ EOut (y, RInvocation b rid det a kw) :: post ->
      regd mid \/ sent y b (pre0 ++ uin q orc :: uout q :: mid).

  Lemma regd_app : forall a b, regd a \/ regd b -> regd (a ++ b).
  Proof. intros a b [(q & H)|(q & H)]; exists q; apply in_or_app; auto. Qed.

  Lemma step_events_head : forall o out p0 q orc rest,
      step_events o out = p0 ++ uin q orc :: rest -> p0 = [] /\ o = OMsg y (CUnregister q rid) orc /\ map EOut out = rest.
  Proof.
    intros o out p0 q orc rest E. unfold step_events in E. destruct p0 as [|x p0]; cbn in E.
    - inversion E; subst. auto.
    - inversion E as [[X1 X2]]. exfalso.
      assert (Hin : In (uin q orc) (map EOut out)) by (rewrite X2; apply in_or_app; right; now left).
      apply in_map_iff in Hin. destruct Hin as (m & Em & _). discriminate Em.
  Qed.

  Theorem unreg_step : forall tr r o k,
      realm_wf r -> ids_below k r -> k < max_idN -> op_ok o -> gate_unreg_id r o ->
      hinv y tr r -> pb tr r -> goodb tr ->
      pb (tr ++ step_events o (snd (step r o))) (fst (step r o)) /\
      goodb (tr ++ step_events o (snd (step r o))).
  Proof.
    intros tr r o k W I Hk Ho Hg H P G.
    pose proof (step_inv_facts r o k W I Hk Ho) as Facts.
    (* what the step does to "not a callee of rid" *)
    assert (Keep : not_callee y rid (r_dealer r) ->
                   not_callee y rid (r_dealer (fst (step r o))) \/ regd (step_events o (snd (step r o)))).
    { intros N0. destruct Facts as [Q|[Q|Q]].
      - destruct (qs_callees _ _ _ Q y rid N0) as [N1|(q' & Hq)]; [now left|].
        right. exists q'. right. apply in_map_iff. exists (y, RRegistered q' rid). auto.
      - destruct Q as (_ & _ & _ & _ & _ & _ & _ & _ & Cle & _). left. eapply cle_not_callee; eauto.
      - destruct Q as (_ & _ & _ & _ & _ & _ & Ed & _). left. now rewrite Ed. }
    split.
    - (* pb *)
      intros pre0 q orc mid E.
      destruct (app_split tr _ pre0 (uout q :: mid) (uin q orc) E) as [(post0 & E1 & E2)|(p0 & E1 & E2)].
      + destruct post0 as [|x mid0]; cbn [app] in E2.
        { unfold step_events in E2. discriminate E2. }
        inversion E2 as [[X1 X2]]. subst x.
        destruct (P pre0 q orc mid0 E1) as [R|N0].
        * left. apply regd_app. now left.
        * destruct (Keep N0) as [N1|R]; [now right|]. left. apply regd_app. now right.
      + destruct (step_events_head _ _ _ _ _ _ E2) as (-> & -> & Eout). right.
        assert (Hin : In (y, RUnregistered q) (snd (step r (OMsg y (CUnregister q rid) orc)))).
        { assert (Hin' : In (uout q) (map EOut (snd (step r (OMsg y (CUnregister q rid) orc))))) by (rewrite Eout; now left).
          apply in_map_iff in Hin'. destruct Hin' as (m & Em & Hm). inversion Em; subst. exact Hm. }
        destruct (find_session (r_clients r) y) as [s|] eqn:F.
        2:{ rewrite step_msg_eq, F in Hin. destruct Hin. }
        destruct (gate r s (CUnregister q rid)) as [m'|out'] eqn:Eg.
        * rewrite (Hg y q rid orc s m' eq_refl F Eg) in Eg.
          eapply unregistered_not_callee; eauto.
        * exfalso. rewrite step_msg_eq, F, Eg in Hin. cbn [snd] in Hin.
          destruct (gate_refusal_shape r s _ out' Eg) as [->|(det & e & a & ->)]; [destruct Hin|].
          destruct Hin as [Hin|[]]. discriminate Hin.
    - (* goodb *)
      intros pre0 q orc mid b det a kw post E.
      replace (pre0 ++ uin q orc :: uout q :: mid ++ EOut (y, RInvocation b rid det a kw) :: post)
        with ((pre0 ++ uin q orc :: uout q :: mid) ++ EOut (y, RInvocation b rid det a kw) :: post) in E
        by (rewrite <- app_assoc; reflexivity).
      destruct (app_split tr _ _ post _ E) as [(post0 & E1 & _)|(p0 & E1 & E2)].
      + eapply G. rewrite E1, <- app_assoc. reflexivity.
      + (* the INVOCATION is sent by this step *)
        assert (Hin : In (y, RInvocation b rid det a kw) (snd (step r o))).
        { assert (Hin' : In (EOut (y, RInvocation b rid det a kw)) (step_events o (snd (step r o))))
            by (rewrite E2; apply in_or_app; right; now left).
          destruct Hin' as [Hd|Hin']; [discriminate Hd|].
          apply in_map_iff in Hin'. destruct Hin' as (m & Em & Hm). inversion Em; subst. exact Hm. }
        destruct Facts as [Q|[Q|Q]].
        * exfalso. pose proof (qs_noinv _ _ _ Q _ Hin) as X. discriminate X.
        * destruct Q as (y' & b' & rid' & det' & a' & kw' & Eo & _ & _ & _ & Kind).
          rewrite Eo in Hin, E2. destruct Hin as [Em|[]]. inversion Em; subst y' b' rid' det' a' kw'.
          assert (Ep0 : p0 = [EIn o]).
          { unfold step_events in E2. cbn [map] in E2. destruct p0 as [|x [|x2 p0]].
            - discriminate E2.
            - inversion E2; subst. reflexivity.
            - inversion E2 as [[X1 X2 X3]]. destruct p0; discriminate X3. }
          subst p0. rewrite E1.
          (* where the UNREGISTER pattern lies: inside [tr] *)
          destruct (app_split tr [EIn o] pre0 (uout q :: mid) (uin q orc) (eq_sym E1)) as [(post1 & F1 & F2)|(p1 & _ & F2)].
          2:{ exfalso. destruct p1 as [|x1 [|x2 p1]]; cbn in F2; try discriminate F2.
              all: try (inversion F2 as [[X1 X2]]; destruct p1; discriminate X2). }
          destruct post1 as [|x mid0]; cbn [app] in F2; [discriminate F2|].
          inversion F2 as [[X1 X2]]. subst x.
          destruct (P pre0 q orc mid0 F1) as [R|N0].
          -- left. apply regd_app. now left.
          -- destruct Kind as [(Hkey & _)|(sy & sy2 & rg & _ & _ & _ & _ & Hr & Hcal & _)].
             ++ right. apply sent_app. left. apply (hi_keys y tr r H). exact Hkey.
             ++ exfalso. exact (N0 rg Hr Hcal).
        * exfalso. destruct Q as (_ & _ & _ & _ & _ & A & _). pose proof (A _ Hin) as X. discriminate X.
  Qed.

  Theorem unreg_run : forall ops r k,
      realm_wf r -> ids_below k r -> Forall op_ok ops -> k + N.of_nat (List.length ops) <= max_idN ->
      along gate_unreg_id r ops -> hinv y [] r ->
      pb (trace_from r ops) (fst (run r ops)) /\ goodb (trace_from r ops).
  Proof.
    intros ops; induction ops as [|o ops IH] using rev_ind; intros r k W I Ho Hk Hg H0.
    - split.
      + intros pre0 q orc mid E. destruct pre0; discriminate E.
      + intros pre0 q orc mid b det a kw post E. destruct pre0; discriminate E.
    - rewrite trace_from_snoc, run_app1. rewrite app_length in Hk. cbn [List.length] in Hk.
      apply Forall_app in Ho. destruct Ho as [Ho1 Ho2]. inversion Ho2; subst.
      apply along_app in Hg. destruct Hg as [Hg1 Hg2]. cbn [along] in Hg2. destruct Hg2 as [Hg2 _].
      destruct (run_wf ops r k W I Ho1) as [W1 I1]; [lia|].
      destruct (IH r k W I Ho1) as [P G]; [lia|exact Hg1|exact H0|].
      apply (unreg_step _ _ _ (k + N.of_nat (List.length ops)) W1 I1); [lia|assumption|exact Hg2| |exact P|exact G].
      apply (hinv_run y Hy ops r k); auto. lia.
  Qed.
End Unreg.

Theorem no_invocation_after_unregistered_proof : forall cfg ops y rid pre0 q orc mid b det a kw post,
    Forall op_ok ops -> k0 cfg + N.of_nat (List.length ops) <= max_idN ->
    along gate_unreg_id (init_realm cfg) ops ->
    trace cfg ops = pre0 ++ EIn (OMsg y (CUnregister q rid) orc) :: EOut (y, RUnregistered q) ::
                    mid ++ EOut (y, RInvocation b rid det a kw) :: post ->
    (exists q', In (EOut (y, RRegistered q' rid)) mid) \/
    sent y b (pre0 ++ EIn (OMsg y (CUnregister q rid) orc) :: EOut (y, RUnregistered q) :: mid).
Proof.
  intros cfg ops y rid pre0 q orc mid b det a kw post Ho Hk Hg E.
  destruct (init_realm_wf cfg) as [W I]; [lia|].
  assert (Hy : y <> meta_id).
  { intros ->. apply (trace_no_inv_to_meta ops (init_realm cfg) (k0 cfg) b W I Ho Hk (EOut (meta_id, RInvocation b rid det a kw))).
    - rewrite <- trace_eq, E. apply in_or_app. right. right. right. apply in_or_app. right. now left.
    - do 4 eexists; reflexivity. }
  destruct (unreg_run y rid Hy ops (init_realm cfg) (k0 cfg) W I Ho Hk Hg (hinv_init cfg y ltac:(lia))) as [_ G].
  rewrite <- trace_eq in G. eapply G. exact E.
Qed.

(** the gate hypothesis, discharged *)
Lemma gate_unreg_id_no_authz : forall cfg ops, c_authz cfg = None -> along gate_unreg_id (init_realm cfg) ops.
Proof.
  intros cfg ops H. apply (along_cfg gate_unreg_id cfg); [|apply init_realm_cfg].
  intros r o E sid q rid orc s m' _ _. rewrite gate_none by (rewrite E; exact H). intros X; inversion X; reflexivity.
Qed.

(** an authorizer that never alters an UNREGISTER *)
Definition authz_keeps_unregister (cfg : config) : Prop :=
  forall f, c_authz cfg = Some f -> forall sid lc det q rid m',
    f sid lc det (CUnregister q rid) = AAllow m' -> m' = CUnregister q rid.

Lemma gate_unreg_id_static : forall cfg ops, authz_keeps_unregister cfg -> along gate_unreg_id (init_realm cfg) ops.
Proof.
  intros cfg ops H. apply (along_cfg gate_unreg_id cfg); [|apply init_realm_cfg].
  intros r o E sid q rid orc s m' _ _. unfold gate. rewrite E.
  destruct (c_authz cfg) as [f|] eqn:Ef; [|intros X; inversion X; reflexivity].
  destruct (s_local s && negb (c_local_authz cfg)); [intros X; inversion X; reflexivity|].
  specialize (H f Ef (s_id s) (s_local s) (s_details s) q rid).
  destruct (f (s_id s) (s_local s) (s_details s) (CUnregister q rid)); [|discriminate|discriminate].
  intros X; inversion X; subst. now apply H.
Qed.
