(** * Histories of the whole model, part 6 (C03): the INVOCATIONs sent to one
    callee along a history.

    [invocation_ids_increase]: every INVOCATION sent to a client session [y]
    either carries a request id greater than every id sent to [y] since the
    last JOIN operation with that session id (a new call: the id was never used
    towards that session), or repeats the id of an INVOCATION sent to [y]
    before (a further chunk of a progressive call).

    [no_invocation_after_unregistered]: after [y]'s UNREGISTER of registration
    [rid] was answered UNREGISTERED, an INVOCATION naming [rid] reaches [y]
    only if [y] was answered REGISTERED [rid] in between, or as a further chunk
    (it repeats the id of an earlier INVOCATION to [y]). *)
From Nexus Require Import Router.Realm Router.AssocLemmas Router.RealmLib Router.RealmProofs
     Router.RealmMetaProofs Router.RealmLeave.
From Nexus Require Import Router.DealerLib Router.DealerProofs Router.DealerWf.
From Nexus Require Import Router.RealmWf Router.RealmStep Router.RealmC05 Router.RealmOutputs Router.RealmIdle.
From Nexus Require Import Router.RealmTraceLib Router.RealmTrace Router.RealmTraceC05 Router.RealmTraceInv.
From Coq Require Import Lia ZifyN ZifyNat ZifyBool.

(** ** The trace, one step at a time *)
Lemma trace_from_snoc : forall ops r o,
    trace_from r (ops ++ [o]) = trace_from r ops ++ step_events o (snd (step (fst (run r ops)) o)).
Proof.
  induction ops as [|a ops IH]; intros r o.
  - cbn [app trace_from]. rewrite run_nil. cbn [fst]. now rewrite app_nil_r.
  - cbn [app trace_from]. rewrite IH, run_cons. cbn [fst]. now rewrite app_assoc.
Qed.

Lemma app_split : forall {A} (tr new pre post : list A) (e : A),
    tr ++ new = pre ++ e :: post ->
    (exists post0, tr = pre ++ e :: post0 /\ post = post0 ++ new) \/
    (exists pre0, pre = tr ++ pre0 /\ new = pre0 ++ e :: post).
Proof.
  intros A tr new pre post e H. apply app_eq_app in H. destruct H as (l & [[E1 E2]|[E1 E2]]).
  - (* tr = pre ++ l, e :: post = l ++ new *)
    destruct l as [|x l]; cbn in E2.
    + right. exists []. rewrite app_nil_r in *. cbn [app]. split; [symmetry; exact E1|symmetry; exact E2].
    + inversion E2; subst. left. exists l. auto.
  - (* pre = tr ++ l, new = l ++ e :: post *)
    right. exists l. auto.
Qed.

(** ** Vocabulary *)
Definition inv_ev (y b : N) (e : event) : Prop :=
  exists rid det a kw, e = EOut (y, RInvocation b rid det a kw).
Definition join_ev (y : N) (e : event) : Prop := exists l h, e = EIn (OJoin y l h).

(** an INVOCATION [b] was sent to [y] *)
Definition sent (y b : N) (tr : list event) : Prop := exists e, In e tr /\ inv_ev y b e.
(** ... and no JOIN with session id [y] came after it *)
Definition sent_live (y b : N) (tr : list event) : Prop :=
  exists pre e post, tr = pre ++ e :: post /\ inv_ev y b e /\ forall e', In e' post -> ~ join_ev y e'.

Lemma sent_app : forall y b a c, sent y b (a ++ c) <-> sent y b a \/ sent y b c.
Proof.
  intros y b a c. unfold sent. split.
  - intros (e & Hin & He). apply in_app_or in Hin. destruct Hin; [left|right]; eauto.
  - intros [(e & Hin & He)|(e & Hin & He)]; exists e; (split; [apply in_or_app; auto|exact He]).
Qed.

Lemma sent_live_sent : forall y b tr, sent_live y b tr -> sent y b tr.
Proof.
  intros y b tr (pre & e & post & -> & He & _). exists e. split; [apply in_or_app; right; now left|exact He].
Qed.

Definition no_inv_to (y : N) (new : list event) : Prop := forall e b, In e new -> ~ inv_ev y b e.

Lemma sent_live_cases : forall y b tr new,
    sent_live y b (tr ++ new) ->
    (sent_live y b tr /\ forall e', In e' new -> ~ join_ev y e') \/ (exists e, In e new /\ inv_ev y b e).
Proof.
  intros y b tr new (pre & e & post & E & He & Hj).
  destruct (app_split tr new pre post e E) as [(post0 & E1 & E2)|(pre0 & E1 & E2)].
  - left. split.
    + exists pre, e, post0. split; [exact E1|]. split; [exact He|]. intros e' Hin. apply Hj. rewrite E2. apply in_or_app. now left.
    + intros e' Hin. apply Hj. rewrite E2. apply in_or_app. now right.
  - right. exists e. split; [rewrite E2; apply in_or_app; right; now left|exact He].
Qed.

Lemma step_events_no_inv : forall y o out, noinv out -> no_inv_to y (step_events o out).
Proof.
  intros y o out A e b [<-|Hin] (rid & det & a & kw & E); [discriminate|].
  apply in_map_iff in Hin. destruct Hin as (m & <- & Hm). inversion E; subst. specialize (A _ Hm). discriminate A.
Qed.

(** ** The history invariant for one client session [y] *)
Section OneCallee.
  Variable y : N.
  Hypothesis Hy : y <> meta_id.

  Definition good (tr : list event) : Prop :=
    forall pre e post b, tr = pre ++ e :: post -> inv_ev y b e ->
      (forall i, sent_live y i pre -> i < b) \/ sent y b pre.

  Record hinv (tr : list event) (r : realm) : Prop := {
    hi_gen : forall sy i, lookup r y = Some sy -> sent_live y i tr -> i <= s_invgen sy;
    hi_keys : forall i, cget (d_invs (r_dealer r)) (y, i) <> None -> sent y i tr;
    hi_good : good tr
  }.

  Lemma good_extend_quiet : forall tr new, good tr -> no_inv_to y new -> good (tr ++ new).
  Proof.
    intros tr new G Hn pre e post b E He.
    destruct (app_split tr new pre post e E) as [(post0 & E1 & _)|(pre0 & _ & E2)].
    - eapply G; eauto.
    - exfalso. eapply (Hn e b); [rewrite E2; apply in_or_app; right; now left|exact He].
  Qed.

  (** the invariant survives a step that sends [y] no INVOCATION, creates no
      invocation key of [y], and does not attach [y] *)
  Lemma hinv_quiet : forall tr r new r',
      hinv tr r -> no_inv_to y new ->
      (forall i, cget (d_invs (r_dealer r')) (y, i) <> None -> cget (d_invs (r_dealer r)) (y, i) <> None) ->
      (forall sy', lookup r' y = Some sy' ->
         (exists sy, lookup r y = Some sy /\ s_invgen sy <= s_invgen sy') \/ (exists e, In e new /\ join_ev y e)) ->
      hinv (tr ++ new) r'.
  Proof.
    intros tr r new r' [K1 K2 G] Hn Hk Hb. constructor.
    - intros sy' i Hl Hs. destruct (sent_live_cases y i tr new Hs) as [[Hs0 Hj]|(e & Hin & He)].
      + destruct (Hb sy' Hl) as [(sy & Hl0 & Hle)|(e & Hin & He)].
        * specialize (K1 sy i Hl0 Hs0). lia.
        * exfalso. exact (Hj e Hin He).
      + exfalso. exact (Hn e i Hin He).
    - intros i H. apply sent_app. left. apply K2. apply Hk. exact H.
    - apply good_extend_quiet; assumption.
  Qed.

  Theorem hinv_step : forall tr r o k,
      realm_wf r -> ids_below k r -> k < max_idN -> op_ok o -> hinv tr r ->
      hinv (tr ++ step_events o (snd (step r o))) (fst (step r o)).
  Proof.
    intros tr r o k W I Hk Ho H.
    destruct (step_inv_facts r o k W I Hk Ho) as [Q|[Q|Q]].
    - (* quiet *)
      destruct Q as [A B C D]. apply (hinv_quiet tr r); [exact H|apply step_events_no_inv; exact A| |].
      + intros i. apply B. exact Hy.
      + intros sy' Hl. left. apply C. exact Hl.
    - (* an INVOCATION to a client *)
      destruct Q as (y' & b & rid & det & a & kw & Eo & Hy' & Cle & Back & Kind). rewrite Eo.
      destruct (N.eq_dec y' y) as [->|Hne].
      + destruct H as [K1 K2 G].
        set (m := (y, RInvocation b rid det a kw)) in *.
        assert (Hm : inv_ev y b (EOut m)) by (do 4 eexists; reflexivity).
        assert (Hnew : forall e i, In e (step_events o [m]) -> inv_ev y i e -> i = b).
        { intros e i [<-|[<-|[]]] (r0 & d0 & a0 & k0 & E); [discriminate|]. inversion E; subst. reflexivity. }
        assert (Hb_le : forall sy', lookup (fst (step r o)) y = Some sy' -> b <= s_invgen sy').
        { intros sy' Hl. destruct Kind as [(Hkey & _)|(sy & sy2 & rg & _ & _ & Hl2 & Hb & _)].
          - destruct (cget (d_invs (r_dealer r)) (y, b)) as [inv|] eqn:Hi; [|congruence].
            destruct (ca_inv _ _ (wf_calls_att _ _ (rw_dealer r W)) _ _ Hi) as (s0 & Hs0 & Hle). cbn [fst snd] in *.
            destruct (Back y sy' Hl) as (sy & Hl0 & Hle'). rewrite Hs0 in Hl0. inversion Hl0; subst. lia.
          - rewrite Hl2 in Hl. inversion Hl; subst. lia. }
        constructor.
        * intros sy' i Hl Hs. destruct (sent_live_cases y i tr _ Hs) as [[Hs0 _]|(e & Hin & He)].
          -- destruct (Back y sy' Hl) as (sy & Hl0 & Hle). specialize (K1 sy i Hl0 Hs0). lia.
          -- rewrite (Hnew e i Hin He). apply Hb_le. exact Hl.
        * intros i Hkey. apply sent_app.
          destruct Kind as [(_ & Hsub)|(sy & sy2 & rg & _ & _ & _ & _ & _ & _ & Hk')].
          -- left. apply K2. apply Hsub; assumption.
          -- destruct (Hk' _ Hkey) as [E|E].
             ++ inversion E; subst. right. exists (EOut m). split; [right; now left|exact Hm].
             ++ left. apply K2. exact E.
        * intros pre e post b' E He.
          destruct (app_split tr (step_events o [m]) pre post e E) as [(post0 & E1 & _)|(pre0 & E1 & E2)].
          -- eapply G; eauto.
          -- assert (Hin : In e (step_events o [m])) by (rewrite E2; apply in_or_app; right; now left).
             pose proof (Hnew e b' Hin He) as ->.
             (* [e] is the new INVOCATION: [pre] = [tr ++ [EIn o]] *)
             assert (Epre : pre0 = [EIn o]).
             { unfold step_events in E2. cbn [map] in E2. destruct pre0 as [|x [|x2 pre0]].
               - inversion E2; subst. destruct He as (? & ? & ? & ? & He). discriminate He.
               - inversion E2; subst. reflexivity.
               - inversion E2 as [[X1 X2 X3]]. destruct pre0; discriminate X3. }
             subst pre0. rewrite E1.
             destruct Kind as [(Hkey & _)|(sy & sy2 & rg & Hl & Hb & _)].
             ++ right. apply sent_app. left. apply K2. exact Hkey.
             ++ left. intros i Hs. destruct (sent_live_cases y i tr [EIn o] Hs) as [[Hs0 _]|(e' & [<-|[]] & He')].
                ** specialize (K1 sy i Hl Hs0). lia.
                ** destruct He' as (? & ? & ? & ? & He'). discriminate He'.
      + (* an INVOCATION to another session *)
        apply (hinv_quiet tr r); [exact H| | |].
        * intros e i [<-|[<-|[]]] (r0 & d0 & a0 & k0 & E); [discriminate|]. inversion E; subst. contradiction.
        * intros i Hkey. destruct Kind as [(_ & Hsub)|(sy & sy2 & rg & _ & _ & _ & _ & _ & _ & Hk')].
          -- apply Hsub; assumption.
          -- destruct (Hk' _ Hkey) as [E|E]; [inversion E; subst; contradiction|exact E].
        * intros sy' Hl. left. apply Back. exact Hl.
    - (* a session joins *)
      destruct Q as (sid & l & h & -> & Hl & A & Ed & Lk).
      apply (hinv_quiet tr r); [exact H|apply step_events_no_inv; exact A|rewrite Ed; auto|].
      intros sy' Hl'. destruct (N.eq_dec sid y) as [->|Hne].
      + right. exists (EIn (OJoin y l h)). split; [now left|do 2 eexists; reflexivity].
      + left. rewrite (Lk y) in Hl' by congruence. exists sy'. split; [exact Hl'|lia].
  Qed.

  Theorem hinv_run : forall ops r k,
      realm_wf r -> ids_below k r -> Forall op_ok ops -> k + N.of_nat (List.length ops) <= max_idN ->
      hinv [] r -> hinv (trace_from r ops) (fst (run r ops)).
  Proof.
    intros ops; induction ops as [|o ops IH] using rev_ind; intros r k W I Ho Hk H0.
    - exact H0.
    - rewrite trace_from_snoc, run_app1. rewrite app_length in Hk. cbn [List.length] in Hk.
      apply Forall_app in Ho. destruct Ho as [Ho1 Ho2]. inversion Ho2; subst.
      destruct (run_wf ops r k W I Ho1) as [W1 I1]; [lia|].
      apply (hinv_step _ _ _ (k + N.of_nat (List.length ops)) W1 I1); [lia|assumption|].
      apply (IH r k); auto. lia.
  Qed.
End OneCallee.

Lemma init_no_invs : forall cfg k, k0 cfg <= max_idN -> cget (d_invs (r_dealer (init_realm cfg))) k = None.
Proof.
  intros cfg k Hk. destruct (init_realm_wf cfg Hk) as [W _].
  assert (Ec : r_clients (init_realm cfg) = []) by (unfold init_realm; destruct (fold_left _ _ _); reflexivity).
  pose proof (empty_when_idle_partial (init_realm cfg) W Ec) as (_ & _ & _ & _ & E & _). rewrite E. reflexivity.
Qed.

Lemma hinv_init : forall cfg y, k0 cfg <= max_idN -> hinv y [] (init_realm cfg).
Proof.
  intros cfg y Hk. constructor.
  - intros sy i _ (pre & e & post & E & _). destruct pre; discriminate E.
  - intros i H. exfalso. apply H. apply init_no_invs. exact Hk.
  - intros pre e post b E. destruct pre; discriminate E.
Qed.

(** ** invocation_ids_increase *)
Theorem invocation_ids_increase_proof : forall cfg ops y pre e post b,
    Forall op_ok ops -> k0 cfg + N.of_nat (List.length ops) <= max_idN ->
    y <> meta_id ->
    trace cfg ops = pre ++ e :: post -> inv_ev y b e ->
    (forall i, sent_live y i pre -> i < b) \/ sent y b pre.
Proof.
  intros cfg ops y pre e post b Ho Hk Hy E He.
  destruct (init_realm_wf cfg) as [W I]; [lia|].
  pose proof (hinv_run y Hy ops (init_realm cfg) (k0 cfg) W I Ho Hk (hinv_init cfg y ltac:(lia))) as [_ _ G].
  rewrite <- trace_eq in G. eapply G; eauto.
Qed.
