(** * The event-history query (C20): [hquery_run] selects exactly what each
    filter describes; [parse_hquery] does not depend on the numeric kind the
    asking client's decoder produced. *)
From Nexus Require Import Router.Realm Router.AssocLemmas.
From Coq Require Import Lia ZifyN ZifyBool ZifyNat.

(** ** Shape of the query: select by scanning, then limit, then reverse *)
Definition scan_sel (q : hquery) (entries : list hentry) : list hentry :=
  sc_acc (fold_left (hscan_step q) entries (mkScan (q_from_p q) (q_after_p q) false false [])).

(** [limit] keeps the most recent n and is applied BEFORE [reverse] *)
Definition post (q : hquery) (sel : list hentry) : list hentry :=
  let lim := match q_limit q with Some n => lastn n sel | None => sel end in
  if q_reverse q then rev lim else lim.

Lemma hquery_run_post : forall q es, hquery_run q es = post q (scan_sel q es).
Proof. reflexivity. Qed.

(** ** Time and topic filters *)
Definition time_ok (q : hquery) (t : N) : bool :=
  negb (match q_from_t q with Some x => t <? x | None => false end) &&
  negb (match q_after_t q with Some x => t <=? x | None => false end) &&
  negb (match q_before_t q with Some x => x <=? t | None => false end) &&
  negb (match q_until_t q with Some x => x <? t | None => false end).

Definition topic_ok (q : hquery) (e : hentry) : bool :=
  if nonempty (q_topic q)
  then match dget (h_details e) "topic" with
       | Some (VStr SURI s) => String.eqb s (q_topic q) | _ => false end
  else true.

Definition keep (q : hquery) (e : hentry) : bool := time_ok q (h_time e) && topic_ok q e.

(** each time bound keeps exactly the entries whose time satisfies it *)
Lemma bound_from : forall o t, negb (match o with Some x => t <? x | None => false end) = true <-> (forall x, o = Some x -> x <= t).
Proof.
  intros [y|] t; cbn.
  - rewrite negb_true_iff, N.ltb_ge. split; [intros H x E; inversion E; subst; auto | intros H; apply H; auto].
  - split; auto. intros _ x E; discriminate.
Qed.
Lemma bound_after : forall o t, negb (match o with Some x => t <=? x | None => false end) = true <-> (forall x, o = Some x -> x < t).
Proof.
  intros [y|] t; cbn.
  - rewrite negb_true_iff, N.leb_gt. split; [intros H x E; inversion E; subst; auto | intros H; apply H; auto].
  - split; auto. intros _ x E; discriminate.
Qed.
Lemma bound_before : forall o t, negb (match o with Some x => x <=? t | None => false end) = true <-> (forall x, o = Some x -> t < x).
Proof.
  intros [y|] t; cbn.
  - rewrite negb_true_iff, N.leb_gt. split; [intros H x E; inversion E; subst; auto | intros H; apply H; auto].
  - split; auto. intros _ x E; discriminate.
Qed.
Lemma bound_until : forall o t, negb (match o with Some x => x <? t | None => false end) = true <-> (forall x, o = Some x -> t <= x).
Proof.
  intros [y|] t; cbn.
  - rewrite negb_true_iff, N.ltb_ge. split; [intros H x E; inversion E; subst; auto | intros H; apply H; auto].
  - split; auto. intros _ x E; discriminate.
Qed.

Theorem time_ok_spec : forall q t,
    time_ok q t = true <->
    (forall x, q_from_t q = Some x -> x <= t) /\
    (forall x, q_after_t q = Some x -> x < t) /\
    (forall x, q_before_t q = Some x -> t < x) /\
    (forall x, q_until_t q = Some x -> t <= x).
Proof.
  intros q t. unfold time_ok. rewrite !andb_true_iff, bound_from, bound_after, bound_before, bound_until. tauto.
Qed.

(** ** The scan without publication bounds in effect *)
Definition plain (acc : list hentry) : hscan := mkScan None None false false acc.

Lemma step_plain : forall q acc e, q_before_p q = None -> q_until_p q = None ->
    hscan_step q (plain acc) e = plain (acc ++ (if keep q e then [e] else [])).
Proof.
  intros q acc e Hb Hu. unfold hscan_step, plain, keep, time_ok, topic_ok. cbn [sc_stop sc_from sc_after sc_until_hit sc_acc is_some andb].
  rewrite Hb, Hu. cbn [opt_is is_some andb].
  destruct (match q_from_t q with Some x => h_time e <? x | None => false end); cbn [negb andb]; [now rewrite app_nil_r|].
  destruct (match q_after_t q with Some x => h_time e <=? x | None => false end); cbn [negb andb]; [now rewrite app_nil_r|].
  destruct (match q_before_t q with Some x => x <=? h_time e | None => false end); cbn [negb andb]; [now rewrite app_nil_r|].
  destruct (match q_until_t q with Some x => x <? h_time e | None => false end); cbn [negb andb]; [now rewrite app_nil_r|].
  destruct (if nonempty (q_topic q) then _ else true); [reflexivity|now rewrite app_nil_r].
Qed.

Lemma fold_plain : forall q l acc, q_before_p q = None -> q_until_p q = None ->
    fold_left (hscan_step q) l (plain acc) = plain (acc ++ filter (keep q) l).
Proof.
  intros q l; induction l as [|e l IH]; intros acc Hb Hu; cbn [fold_left filter].
  - now rewrite app_nil_r.
  - rewrite step_plain, IH by auto. rewrite <- app_assoc. destruct (keep q e); reflexivity.
Qed.

Definition no_pub_bounds (q : hquery) : Prop :=
  q_from_p q = None /\ q_after_p q = None /\ q_before_p q = None /\ q_until_p q = None.

(** time / topic filters, limit and reverse in any combination *)
Theorem query_filter_spec : forall q es, no_pub_bounds q ->
    hquery_run q es = post q (filter (keep q) es).
Proof.
  intros q es (Hf & Ha & Hb & Hu). rewrite hquery_run_post. f_equal.
  unfold scan_sel. rewrite Hf, Ha. fold (plain []). now rewrite fold_plain.
Qed.

Definition no_time_topic (q : hquery) : Prop :=
  q_from_t q = None /\ q_after_t q = None /\ q_before_t q = None /\ q_until_t q = None /\ q_topic q = "".

Lemma keep_all : forall q e, no_time_topic q -> keep q e = true.
Proof. intros q e (H1 & H2 & H3 & H4 & H5). unfold keep, time_ok, topic_ok. now rewrite H1, H2, H3, H4, H5. Qed.

Lemma filter_keep_all : forall q l, no_time_topic q -> filter (keep q) l = l.
Proof.
  intros q l H; induction l as [|e l IH]; cbn; auto. rewrite keep_all by auto. now rewrite IH.
Qed.

(** no bound at all: the answer is the stored list (then limit, then reverse) *)
Theorem query_unbounded : forall q es, no_pub_bounds q -> no_time_topic q ->
    hquery_run q es = post q es.
Proof. intros. rewrite query_filter_spec by auto. now rewrite filter_keep_all. Qed.

Corollary query_plain : forall q es, no_pub_bounds q -> no_time_topic q ->
    q_limit q = None -> q_reverse q = false -> hquery_run q es = es.
Proof. intros q es H1 H2 H3 H4. rewrite query_unbounded by auto. unfold post. now rewrite H3, H4. Qed.

Corollary query_limit : forall q es n, no_pub_bounds q -> no_time_topic q ->
    q_limit q = Some n -> q_reverse q = false -> hquery_run q es = lastn n es.
Proof. intros q es n H1 H2 H3 H4. rewrite query_unbounded by auto. unfold post. now rewrite H3, H4. Qed.

Corollary query_reverse : forall q es, no_pub_bounds q -> no_time_topic q ->
    q_limit q = None -> q_reverse q = true -> hquery_run q es = rev es.
Proof. intros q es H1 H2 H3 H4. rewrite query_unbounded by auto. unfold post. now rewrite H3, H4. Qed.

Corollary query_limit_reverse : forall q es n, no_pub_bounds q -> no_time_topic q ->
    q_limit q = Some n -> q_reverse q = true -> hquery_run q es = rev (lastn n es).
Proof. intros q es n H1 H2 H3 H4. rewrite query_unbounded by auto. unfold post. now rewrite H3, H4. Qed.

(** ** Publication-id bounds (one at a time; the id's first occurrence is at [e]) *)
Definition split_at (p : N) (es l1 : list hentry) (e : hentry) (l2 : list hentry) : Prop :=
  es = l1 ++ e :: l2 /\ h_pub e = p /\ ~ In p (map h_pub l1).

Lemma time_none_steps : forall q, no_time_topic q ->
    forall t, (match q_from_t q with Some x => t <? x | None => false end) = false /\
              (match q_after_t q with Some x => t <=? x | None => false end) = false /\
              (match q_before_t q with Some x => x <=? t | None => false end) = false /\
              (match q_until_t q with Some x => x <? t | None => false end) = false.
Proof. intros q (H1 & H2 & H3 & H4 & _) t. now rewrite H1, H2, H3, H4. Qed.

Ltac step_time q H e :=
  unfold hscan_step; cbn [sc_stop sc_from sc_after sc_until_hit sc_acc];
  destruct (time_none_steps q H (h_time e)) as (-> & -> & -> & ->).

(** from_publication p: from the entry with id p (inclusive) to the end *)
Theorem query_from_publication : forall q es p l1 e l2, no_time_topic q ->
    q_from_p q = Some p -> q_after_p q = None -> q_before_p q = None -> q_until_p q = None ->
    split_at p es l1 e l2 ->
    hquery_run q es = post q (e :: l2).
Proof.
  intros q es p l1 e l2 Hnt Hf Ha Hb Hu (-> & Hp & Hn). rewrite hquery_run_post. f_equal.
  unfold scan_sel. rewrite Hf, Ha, fold_left_app.
  assert (H1 : fold_left (hscan_step q) l1 (mkScan (Some p) None false false []) = mkScan (Some p) None false false []).
  { clear -Hnt Hn. induction l1 as [|x l1 IH]; cbn [fold_left]; auto.
    cbn [map In] in Hn.
    assert (E : hscan_step q (mkScan (Some p) None false false []) x = mkScan (Some p) None false false []).
    { step_time q Hnt x. cbn [is_some opt_is andb]. destruct (N.eqb_spec (h_pub x) p); [exfalso; auto|reflexivity]. }
    rewrite E. apply IH. tauto. }
  rewrite H1. cbn [fold_left].
  assert (E : hscan_step q (mkScan (Some p) None false false []) e = plain [e]).
  { step_time q Hnt e. cbn [is_some opt_is andb]. rewrite Hp, N.eqb_refl. cbn [negb is_some].
    rewrite Hb, Hu. cbn [opt_is is_some andb sc_from sc_after sc_until_hit sc_acc].
    destruct Hnt as (_ & _ & _ & _ & ->). reflexivity. }
  rewrite E, fold_plain by auto. cbn [sc_acc plain]. now rewrite filter_keep_all.
Qed.

(** after_publication p: strictly after the entry with id p *)
Theorem query_after_publication : forall q es p l1 e l2, no_time_topic q ->
    q_from_p q = None -> q_after_p q = Some p -> q_before_p q = None -> q_until_p q = None ->
    split_at p es l1 e l2 ->
    hquery_run q es = post q l2.
Proof.
  intros q es p l1 e l2 Hnt Hf Ha Hb Hu (-> & Hp & Hn). rewrite hquery_run_post. f_equal.
  unfold scan_sel. rewrite Hf, Ha, fold_left_app.
  assert (H1 : fold_left (hscan_step q) l1 (mkScan None (Some p) false false []) = mkScan None (Some p) false false []).
  { clear -Hnt Hn. induction l1 as [|x l1 IH]; cbn [fold_left]; auto.
    cbn [map In] in Hn.
    assert (E : hscan_step q (mkScan None (Some p) false false []) x = mkScan None (Some p) false false []).
    { step_time q Hnt x. cbn [is_some opt_is andb sc_after]. destruct (N.eqb_spec (h_pub x) p); [exfalso; auto|reflexivity]. }
    rewrite E. apply IH. tauto. }
  rewrite H1. cbn [fold_left].
  assert (E : hscan_step q (mkScan None (Some p) false false []) e = plain []).
  { step_time q Hnt e. cbn [is_some opt_is andb sc_after]. rewrite Hp, N.eqb_refl. reflexivity. }
  rewrite E, fold_plain by auto. cbn [sc_acc plain app]. now rewrite filter_keep_all.
Qed.

Lemma fold_stopped : forall q l st, sc_stop st = true -> fold_left (hscan_step q) l st = st.
Proof.
  intros q l; induction l as [|x l IH]; intros st H; cbn [fold_left]; auto.
  assert (E : hscan_step q st x = st) by (unfold hscan_step; now rewrite H). rewrite E. auto.
Qed.

(** before_publication p: everything strictly before the entry with id p *)
Theorem query_before_publication : forall q es p l1 e l2, no_time_topic q ->
    q_from_p q = None -> q_after_p q = None -> q_before_p q = Some p -> q_until_p q = None ->
    split_at p es l1 e l2 ->
    hquery_run q es = post q l1.
Proof.
  intros q es p l1 e l2 Hnt Hf Ha Hb Hu (-> & Hp & Hn). rewrite hquery_run_post. f_equal.
  unfold scan_sel. rewrite Hf, Ha, fold_left_app.
  assert (Htop : q_topic q = "") by apply Hnt.
  assert (H1 : forall acc, fold_left (hscan_step q) l1 (plain acc) = plain (acc ++ l1)).
  { clear -Hnt Hn Hb Hu Htop. induction l1 as [|x l1 IH]; intros acc; cbn [fold_left]; [now rewrite app_nil_r|].
    cbn [map In] in Hn.
    assert (E : hscan_step q (plain acc) x = plain (acc ++ [x])).
    { unfold plain. step_time q Hnt x. cbn [is_some opt_is andb]. rewrite Hb, Hu, Htop. cbn [opt_is is_some andb nonempty].
      destruct (N.eqb_spec (h_pub x) p); [exfalso; auto|reflexivity]. }
    rewrite E, IH by tauto. now rewrite <- app_assoc. }
  fold (plain []). rewrite H1. cbn [fold_left app].
  assert (E : hscan_step q (plain l1) e = mkScan None None false true l1).
  { unfold plain. step_time q Hnt e. cbn [is_some opt_is andb]. rewrite Hb. cbn [opt_is]. rewrite Hp, N.eqb_refl. reflexivity. }
  rewrite E, fold_stopped by reflexivity. reflexivity.
Qed.

(** until_publication p: everything up to and including the entry with id p *)
Theorem query_until_publication : forall q es p l1 e l2, no_time_topic q ->
    q_from_p q = None -> q_after_p q = None -> q_before_p q = None -> q_until_p q = Some p ->
    split_at p es l1 e l2 ->
    hquery_run q es = post q (l1 ++ [e]).
Proof.
  intros q es p l1 e l2 Hnt Hf Ha Hb Hu (-> & Hp & Hn). rewrite hquery_run_post. f_equal.
  unfold scan_sel. rewrite Hf, Ha, fold_left_app.
  assert (Htop : q_topic q = "") by apply Hnt.
  assert (H1 : forall acc, fold_left (hscan_step q) l1 (plain acc) = plain (acc ++ l1)).
  { clear -Hnt Hn Hb Hu Htop. induction l1 as [|x l1 IH]; intros acc; cbn [fold_left]; [now rewrite app_nil_r|].
    cbn [map In] in Hn.
    assert (E : hscan_step q (plain acc) x = plain (acc ++ [x])).
    { unfold plain. step_time q Hnt x. cbn [is_some opt_is andb]. rewrite Hb, Hu, Htop. cbn [opt_is is_some andb nonempty].
      destruct (N.eqb_spec (h_pub x) p); [exfalso; auto|reflexivity]. }
    rewrite E, IH by tauto. now rewrite <- app_assoc. }
  fold (plain []). rewrite H1. cbn [fold_left app].
  assert (E : hscan_step q (plain l1) e = mkScan None None true false (l1 ++ [e])).
  { unfold plain. step_time q Hnt e. cbn [is_some opt_is andb]. rewrite Hb, Hu, Htop. cbn [opt_is is_some andb nonempty].
    rewrite Hp, N.eqb_refl. reflexivity. }
  rewrite E. destruct l2 as [|x l2]; [reflexivity|]. cbn [fold_left].
  assert (E2 : hscan_step q (mkScan None None true false (l1 ++ [e])) x = mkScan None None true true (l1 ++ [e])).
  { step_time q Hnt x. cbn [is_some opt_is andb]. rewrite Hb, Hu. cbn [opt_is is_some andb]. reflexivity. }
  rewrite E2, fold_stopped by reflexivity. reflexivity.
Qed.

(** ** [parse_hquery] and the numeric kind of its integer arguments *)
Lemma to_int64_in_range : forall k z, (- two63 <= z < two63)%Z -> to_int64 k z = z.
Proof.
  intros k z H. unfold to_int64. destruct k;
    try (unfold two63, two64 in *; rewrite Z.mod_small by lia; lia).
  destruct (Z.leb_spec (- two63) z), (Z.ltb_spec z two63); cbn [andb]; try reflexivity; lia.
Qed.

(** two values that hold the same in-range integer under (possibly) different kinds *)
Definition same_int (v v' : value) : Prop :=
  exists k k' z, v = VInt k z /\ v' = VInt k' z /\ (- two63 <= z < two63)%Z.

Definition numkeys : list string :=
  ["limit"; "from_publication"; "after_publication"; "before_publication"; "until_publication"].

(** [kw'] differs from [kw] only in the numeric kind of limit / publication bounds *)
Definition kw_numkind_rel (kw kw' : dict) : Prop :=
  Forall2 (fun a b : string * value =>
             fst a = fst b /\ (snd a = snd b \/ (In (fst a) numkeys /\ same_int (snd a) (snd b)))) kw kw'.

Lemma dget_rel : forall kw kw', kw_numkind_rel kw kw' -> forall k,
    dget kw k = dget kw' k \/
    (In k numkeys /\ exists v v', dget kw k = Some v /\ dget kw' k = Some v' /\ same_int v v').
Proof.
  intros kw kw' H; induction H as [|[k1 v1] [k2 v2] l l' (Hk & Hv) HF IH]; intros k; [left; reflexivity|].
  cbn [fst snd] in *. subst k2. unfold dget in *. cbn [aget].
  destruct (String.eqb_spec k k1) as [->|]; [|apply IH].
  destruct Hv as [->|[Hin Hs]]; [left; reflexivity|right; split; eauto].
Qed.

Lemma same_int_as_int64 : forall v v', same_int v v' -> as_int64 v = as_int64 v'.
Proof. intros v v' (k & k' & z & -> & -> & H). cbn. now rewrite !to_int64_in_range. Qed.

Lemma same_int_as_id : forall v v', same_int v v' -> as_id v = as_id v'.
Proof. intros v v' H. unfold as_id. now rewrite (same_int_as_int64 _ _ H). Qed.

Lemma dget_rel_nonnum : forall kw kw' k, kw_numkind_rel kw kw' -> ~ In k numkeys -> dget kw k = dget kw' k.
Proof. intros kw kw' k H Hn. destruct (dget_rel _ _ H k) as [E|[Hin _]]; [auto|contradiction]. Qed.

Lemma pub_arg_rel : forall kw kw' k, kw_numkind_rel kw kw' -> pub_arg kw k = pub_arg kw' k.
Proof.
  intros kw kw' k H. unfold pub_arg. destruct (dget_rel _ _ H k) as [->|(_ & v & v' & -> & -> & Hs)]; auto.
  now rewrite (same_int_as_id _ _ Hs).
Qed.

Ltac notnum := unfold numkeys; cbn [In]; intros Hx; repeat (destruct Hx as [Hx|Hx]; [discriminate Hx|]); exact Hx.

Theorem query_numkind_invariant : forall kw kw', kw_numkind_rel kw kw' ->
    parse_hquery kw = parse_hquery kw'.
Proof.
  intros kw kw' H. unfold parse_hquery, time_arg, opt_gostring.
  rewrite !(pub_arg_rel kw kw' _ H).
  rewrite (dget_rel_nonnum kw kw' "reverse" H) by notnum.
  rewrite (dget_rel_nonnum kw kw' "from_time" H) by notnum.
  rewrite (dget_rel_nonnum kw kw' "after_time" H) by notnum.
  rewrite (dget_rel_nonnum kw kw' "before_time" H) by notnum.
  rewrite (dget_rel_nonnum kw kw' "until_time" H) by notnum.
  rewrite (dget_rel_nonnum kw kw' "topic" H) by notnum.
  destruct (dget_rel _ _ H "limit") as [->|(_ & v & v' & -> & -> & Hs)]; auto.
  now rewrite (same_int_as_int64 _ _ Hs).
Qed.
