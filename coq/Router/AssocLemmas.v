(** * Generic lemmas about the association lists of Router/Base.v
    ([aget]/[aset]/[adel]/[amem] over any key type with a decidable [eqb]).

    Reusable by every Router proof file (broker, dealer, realm):
    [Section Assoc] is parametric in the key type; instances for [N] and
    [string] keys are exported at the end ([nget_…], [sget_…] via
    [N.eqb_spec] / [String.eqb_spec]).  Lemmas only, no axioms. *)
From Nexus Require Import Router.Base.
From Coq Require Import Lia ZifyN ZifyBool Permutation.

(** NoDup of an append (the 8.16 library has only the eliminations) *)
Lemma NoDup_app_intro : forall {A} (l1 l2 : list A),
    NoDup l1 -> NoDup l2 -> (forall x, In x l1 -> In x l2 -> False) -> NoDup (l1 ++ l2).
Proof.
  intros A l1; induction l1 as [|a l1 IH]; intros l2 N1 N2 D; cbn; auto.
  inversion N1 as [|? ? Hn N1']; subst. constructor.
  - rewrite in_app_iff. intros [H|H]; [auto|]. apply (D a); [now left|auto].
  - apply IH; auto. intros x H1 H2; apply (D x); [now right|auto].
Qed.

Lemma NoDup_snoc : forall {A} (l : list A) x, NoDup l -> ~ In x l -> NoDup (l ++ [x]).
Proof.
  intros A l x ND Hn. apply NoDup_app_intro; auto.
  - constructor; [intros []|constructor].
  - intros y H1 [<-|[]]; auto.
Qed.

Section AssocLemmas.
  Context {K V : Type} (eqb : K -> K -> bool).
  Hypothesis eqb_spec : forall x y, reflect (x = y) (eqb x y).

  Notation aget := (aget eqb).
  Notation aset := (aset eqb).
  Notation adel := (adel eqb).
  Notation amem := (amem eqb).

  Lemma eqb_refl' : forall x, eqb x x = true.
  Proof. intros x; destruct (eqb_spec x x); congruence. Qed.
  Lemma eqb_neq' : forall x y, x <> y -> eqb x y = false.
  Proof. intros x y H; destruct (eqb_spec x y); congruence. Qed.
  Lemma eqb_eq' : forall x y, eqb x y = true -> x = y.
  Proof. intros x y H; destruct (eqb_spec x y); congruence. Qed.

  (** ** lookup after update / deletion *)
  Lemma aget_aset_same : forall (l : list (K * V)) k v, aget (aset l k v) k = Some v.
  Proof.
    induction l as [|[k' v'] l IH]; intros k v; cbn.
    - now rewrite eqb_refl'.
    - destruct (eqb_spec k k') as [->|N]; cbn.
      + now rewrite eqb_refl'.
      + rewrite (eqb_neq' _ _ N); apply IH.
  Qed.

  Lemma aget_aset_other : forall (l : list (K * V)) k k' v, k <> k' -> aget (aset l k v) k' = aget l k'.
  Proof.
    induction l as [|[k0 v0] l IH]; intros k k' v N; cbn.
    - rewrite eqb_neq'; auto.
    - destruct (eqb_spec k k0) as [->|N0]; cbn.
      + rewrite eqb_neq'; auto.
      + destruct (eqb k' k0); auto.
  Qed.

  Lemma aget_aset : forall (l : list (K * V)) k k' v,
      aget (aset l k v) k' = if eqb k' k then Some v else aget l k'.
  Proof.
    intros. destruct (eqb_spec k' k) as [->|N].
    - apply aget_aset_same.
    - apply aget_aset_other; congruence.
  Qed.

  Lemma aget_adel_same : forall (l : list (K * V)) k, aget (adel l k) k = None.
  Proof.
    induction l as [|[k' v'] l IH]; intros k; cbn; auto.
    destruct (eqb_spec k k') as [->|N]; auto.
    cbn. rewrite eqb_neq'; auto.
  Qed.

  Lemma aget_adel_other : forall (l : list (K * V)) k k', k <> k' -> aget (adel l k) k' = aget l k'.
  Proof.
    induction l as [|[k0 v0] l IH]; intros k k' N; cbn; auto.
    destruct (eqb_spec k k0) as [->|N0]; cbn.
    - rewrite eqb_neq'; auto.
    - destruct (eqb k' k0); auto.
  Qed.

  Lemma aget_adel : forall (l : list (K * V)) k k',
      aget (adel l k) k' = if eqb k' k then None else aget l k'.
  Proof.
    intros. destruct (eqb_spec k' k) as [->|N].
    - apply aget_adel_same.
    - apply aget_adel_other; congruence.
  Qed.

  (** ** membership *)
  Lemma aget_In : forall (l : list (K * V)) k v, aget l k = Some v -> In (k, v) l.
  Proof.
    induction l as [|[k' v'] l IH]; intros k v; cbn; [discriminate|].
    destruct (eqb_spec k k') as [->|N]; intros H.
    - left; congruence.
    - right; auto.
  Qed.

  Lemma aget_None_iff : forall (l : list (K * V)) k, aget l k = None <-> ~ In k (map fst l).
  Proof.
    induction l as [|[k' v'] l IH]; intros k; cbn; [tauto|].
    destruct (eqb_spec k k') as [->|N].
    - split; [discriminate|intros H; exfalso; apply H; now left].
    - rewrite IH. split; [intros H [E|I]; [congruence|auto] | tauto].
  Qed.

  Lemma aget_Some_key : forall (l : list (K * V)) k v, aget l k = Some v -> In k (map fst l).
  Proof. intros l k v H. apply aget_In in H. apply (in_map fst) in H; exact H. Qed.

  Lemma In_key_aget : forall (l : list (K * V)) k, In k (map fst l) -> exists v, aget l k = Some v.
  Proof.
    intros l k H. destruct (aget l k) eqn:E; [eauto|].
    apply aget_None_iff in E; contradiction.
  Qed.

  Lemma In_aget : forall (l : list (K * V)) k v, NoDup (map fst l) -> In (k, v) l -> aget l k = Some v.
  Proof.
    induction l as [|[k' v'] l IH]; intros k v ND HI; cbn in *; [contradiction|].
    inversion ND as [|? ? Hn ND']; subst.
    destruct HI as [E|HI].
    - inversion E; subst. now rewrite eqb_refl'.
    - destruct (eqb_spec k k') as [->|N]; auto.
      exfalso; apply Hn. apply (in_map fst) in HI; exact HI.
  Qed.

  Lemma In_aget_iff : forall (l : list (K * V)) k v, NoDup (map fst l) -> (In (k, v) l <-> aget l k = Some v).
  Proof. intros; split; [now apply In_aget | apply aget_In]. Qed.

  Lemma amem_true_iff : forall (l : list (K * V)) k, amem l k = true <-> exists v, aget l k = Some v.
  Proof.
    intros l k; unfold Base.amem. destruct (Base.aget eqb l k); split; eauto; try discriminate.
    intros [v H]; discriminate.
  Qed.

  Lemma amem_false_iff : forall (l : list (K * V)) k, amem l k = false <-> aget l k = None.
  Proof. intros l k; unfold Base.amem. destruct (Base.aget eqb l k); split; congruence. Qed.

  Lemma amem_In_iff : forall (l : list (K * V)) k, amem l k = true <-> In k (map fst l).
  Proof.
    intros. rewrite amem_true_iff. split.
    - intros [v H]; eapply aget_Some_key; eauto.
    - apply In_key_aget.
  Qed.

  Lemma amem_aset : forall (l : list (K * V)) k k' v, amem (aset l k v) k' = eqb k' k || amem l k'.
  Proof. intros; unfold Base.amem; rewrite aget_aset. destruct (eqb k' k); auto. Qed.

  Lemma amem_adel : forall (l : list (K * V)) k k', amem (adel l k) k' = negb (eqb k' k) && amem l k'.
  Proof. intros; unfold Base.amem; rewrite aget_adel. destruct (eqb k' k); auto. Qed.

  (** ** shape of the key list *)
  Lemma aset_keys_present : forall (l : list (K * V)) k v,
      In k (map fst l) -> map fst (aset l k v) = map fst l.
  Proof.
    induction l as [|[k' v'] l IH]; intros k v H; cbn in *; [contradiction|].
    destruct (eqb_spec k k') as [->|N]; cbn; auto.
    f_equal. apply IH. destruct H; congruence.
  Qed.

  Lemma aset_keys_absent : forall (l : list (K * V)) k v,
      ~ In k (map fst l) -> aset l k v = l ++ [(k, v)].
  Proof.
    induction l as [|[k' v'] l IH]; intros k v H; cbn in *; auto.
    destruct (eqb_spec k k') as [->|N]; [exfalso; auto|].
    f_equal. apply IH. tauto.
  Qed.

  Lemma aset_absent : forall (l : list (K * V)) k v, aget l k = None -> aset l k v = l ++ [(k, v)].
  Proof. intros; apply aset_keys_absent. now apply aget_None_iff. Qed.

  Lemma aset_keys : forall (l : list (K * V)) k v,
      map fst (aset l k v) = if amem l k then map fst l else map fst l ++ [k].
  Proof.
    intros. destruct (amem l k) eqn:E.
    - apply aset_keys_present. now apply amem_In_iff.
    - apply amem_false_iff in E. rewrite aset_absent by auto. now rewrite map_app.
  Qed.

  Lemma aset_present_split : forall (l : list (K * V)) k v v0, aget l k = Some v0 ->
      exists l1 l2, l = l1 ++ (k, v0) :: l2 /\ ~ In k (map fst l1) /\ aset l k v = l1 ++ (k, v) :: l2.
  Proof.
    induction l as [|[k' v'] l IH]; intros k v v0; cbn; [discriminate|].
    destruct (eqb_spec k k') as [->|N]; intros H.
    - inversion H; subst. exists [], l; cbn; auto.
    - destruct (IH k v v0 H) as (l1 & l2 & -> & Hn & E).
      exists ((k', v') :: l1), l2; cbn. rewrite E. repeat split; auto.
      intros [E'|I]; [congruence|auto].
  Qed.

  Lemma adel_keys : forall (l : list (K * V)) k,
      map fst (adel l k) = filter (fun x => negb (eqb k x)) (map fst l).
  Proof.
    induction l as [|[k' v'] l IH]; intros k; cbn; auto.
    destruct (eqb k k'); cbn; rewrite IH; auto.
  Qed.

  Lemma adel_absent : forall (l : list (K * V)) k, aget l k = None -> adel l k = l.
  Proof.
    induction l as [|[k' v'] l IH]; intros k; cbn; auto.
    destruct (eqb_spec k k') as [->|N]; [discriminate|].
    intros H; f_equal; auto.
  Qed.

  Lemma NoDup_aset : forall (l : list (K * V)) k v, NoDup (map fst l) -> NoDup (map fst (aset l k v)).
  Proof.
    intros l k v ND. rewrite aset_keys. destruct (amem l k) eqn:E; auto.
    apply amem_false_iff, aget_None_iff in E.
    apply NoDup_snoc; auto.
  Qed.

  Lemma NoDup_adel : forall (l : list (K * V)) k, NoDup (map fst l) -> NoDup (map fst (adel l k)).
  Proof. intros. rewrite adel_keys. now apply NoDup_filter. Qed.

  (** ** [In] characterisations (pairs) *)
  Lemma In_adel : forall (l : list (K * V)) k k' v, In (k', v) (adel l k) <-> In (k', v) l /\ k' <> k.
  Proof.
    induction l as [|[k0 v0] l IH]; intros k k' v; cbn; [tauto|].
    destruct (eqb_spec k k0) as [->|N]; cbn; rewrite IH.
    - split; [tauto|]. intros [[E|I] Hn]; [inversion E; congruence|tauto].
    - split; [|tauto]. intros [E|[I Hn]]; [inversion E; subst; split; auto; congruence|tauto].
  Qed.

  Lemma In_aset : forall (l : list (K * V)) k v k' v', NoDup (map fst l) ->
      (In (k', v') (aset l k v) <-> (k' = k /\ v' = v) \/ (k' <> k /\ In (k', v') l)).
  Proof.
    intros l k v k' v' ND.
    rewrite (In_aget_iff (aset l k v) k' v' (NoDup_aset l k v ND)), aget_aset.
    destruct (eqb_spec k' k) as [->|N].
    - split; [intros H; left; split; congruence | intros [[_ ->]|[N _]]; congruence].
    - rewrite <- (In_aget_iff l k' v' ND). split; [tauto|intros [[E _]|[_ I]]; [congruence|auto]].
  Qed.

  (** values ([map snd]) *)
  Lemma In_snd_aget : forall (l : list (K * V)) v, In v (map snd l) -> exists k, In (k, v) l.
  Proof.
    intros l v H. apply in_map_iff in H. destruct H as ([k v'] & E & I); cbn in E; subst. eauto.
  Qed.

  Lemma length_aset : forall (l : list (K * V)) k v,
      List.length (aset l k v) = if amem l k then List.length l else S (List.length l).
  Proof.
    intros. rewrite <- (map_length fst), aset_keys. destruct (amem l k); rewrite ?app_length, map_length; cbn; lia.
  Qed.

  (** two updates / update then delete *)
  Lemma aset_aset_same : forall (l : list (K * V)) k v v', aset (aset l k v) k v' = aset l k v'.
  Proof.
    induction l as [|[k' w] l IH]; intros k v v'; cbn.
    - now rewrite eqb_refl'.
    - destruct (eqb_spec k k') as [->|N]; cbn.
      + now rewrite eqb_refl'.
      + rewrite (eqb_neq' _ _ N). f_equal; apply IH.
  Qed.

  Lemma aset_same_value : forall (l : list (K * V)) k v, aget l k = Some v -> aset l k v = l.
  Proof.
    induction l as [|[k' w] l IH]; intros k v; cbn; [discriminate|].
    destruct (eqb_spec k k') as [->|N]; intros H.
    - congruence.
    - f_equal; auto.
  Qed.

  (** extensionality of lookups is all a client can see *)
  Definition aequiv (l l' : list (K * V)) : Prop := forall k, aget l k = aget l' k.
End AssocLemmas.

(** NoDup of a [flat_map] (used for exactly-once statements) *)
Lemma NoDup_flat_map : forall {A B} (f : A -> list B) (l : list A),
    NoDup l -> (forall x, In x l -> NoDup (f x)) ->
    (forall x y z, In x l -> In y l -> In z (f x) -> In z (f y) -> x = y) ->
    NoDup (flat_map f l).
Proof.
  intros A B f l; induction l as [|a l IH]; intros ND Hf Hd; cbn; [constructor|].
  inversion ND as [|? ? Hn ND']; subst.
  apply NoDup_app_intro.
  - apply Hf; now left.
  - apply IH; auto.
    + intros; apply Hf; now right.
    + intros x y z Hx Hy; apply Hd; now right.
  - intros z Hz Hz'. apply in_flat_map in Hz'. destruct Hz' as (y & Hy & Hzy).
    assert (a = y) by (eapply Hd; eauto; [now left|now right]). subst; contradiction.
Qed.

(** ** Instances *)
Definition N_eqb_spec := N.eqb_spec.
Definition S_eqb_spec := String.eqb_spec.

Section Instances.
  Context {V : Type}.
  Definition nget_nset := @aget_aset N V N.eqb N.eqb_spec.
  Definition nget_nset_same := @aget_aset_same N V N.eqb N.eqb_spec.
  Definition nget_nset_other := @aget_aset_other N V N.eqb N.eqb_spec.
  Definition nget_ndel := @aget_adel N V N.eqb N.eqb_spec.
  Definition nget_ndel_same := @aget_adel_same N V N.eqb N.eqb_spec.
  Definition nget_ndel_other := @aget_adel_other N V N.eqb N.eqb_spec.
  Definition sget_sset := @aget_aset string V String.eqb String.eqb_spec.
  Definition sget_sset_same := @aget_aset_same string V String.eqb String.eqb_spec.
  Definition sget_sset_other := @aget_aset_other string V String.eqb String.eqb_spec.
  Definition sget_sdel := @aget_adel string V String.eqb String.eqb_spec.
  Definition sget_sdel_same := @aget_adel_same string V String.eqb String.eqb_spec.
  Definition sget_sdel_other := @aget_adel_other string V String.eqb String.eqb_spec.
End Instances.

(** [nmem]/[nremove]/[smem] of Base.v *)
Lemma nmem_In : forall x l, nmem x l = true <-> In x l.
Proof.
  intros x l; unfold nmem; rewrite existsb_exists. split.
  - intros (y & Hy & E). apply N.eqb_eq in E; subst; auto.
  - intros H; exists x; split; auto. apply N.eqb_refl.
Qed.

Lemma nmem_false : forall x l, nmem x l = false <-> ~ In x l.
Proof. intros. rewrite <- nmem_In. destruct (nmem x l); split; congruence. Qed.

Lemma In_nremove : forall x y l, In y (nremove x l) <-> In y l /\ y <> x.
Proof.
  intros; unfold nremove; rewrite filter_In.
  destruct (N.eqb_spec x y); cbn; split; intros [? ?]; split; auto; congruence.
Qed.

Lemma NoDup_nremove : forall x l, NoDup l -> NoDup (nremove x l).
Proof. intros; now apply NoDup_filter. Qed.

Lemma nremove_notin : forall x l, ~ In x l -> nremove x l = l.
Proof.
  induction l as [|y l IH]; cbn; auto. intros H.
  destruct (N.eqb_spec x y); cbn; [exfalso; auto|]. f_equal; tauto.
Qed.

Lemma smem_In : forall x l, smem x l = true <-> In x l.
Proof.
  intros x l; unfold smem; rewrite existsb_exists. split.
  - intros (y & Hy & E). apply String.eqb_eq in E; subst; auto.
  - intros H; exists x; split; auto. apply String.eqb_refl.
Qed.
