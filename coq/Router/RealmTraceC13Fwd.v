(** * Histories of the whole model, C13 (forward_timeout per callee), part 1:
    one step.

    [reg_fwd_timeout rg] lists the callees of [rg] that asked, at their OWN
    REGISTER ([forward_timeout = true]), to handle call timeouts themselves.
    There is no admission condition: every such REGISTER answered REGISTERED
    records the callee.  A callee that joins a shared registration without the
    option is not in the list, whatever the creator asked.

    Dealer level ([fk]): REGISTER excepted, no dealer function adds a session
    to a registration's list; the list names callees of the registration, each
    once ([fwd_ok]).  [register_fwd]: a session is in the list after a REGISTER
    only if it was before or it is the registering session, answered
    REGISTERED for this registration, with [forward_timeout = true].
    Realm level: [step_fwd] (the same for one [step]) and [step_inv_details]
    (the INVOCATION a step sends: further chunk, or first chunk with details
    [call_details] computed from the records in the state before the step). *)
From Nexus Require Import Router.Realm Router.AssocLemmas Router.RealmLib Router.RealmProofs
     Router.RealmMetaProofs Router.RealmLeave.
From Nexus Require Import Router.DealerLib Router.DealerProofs Router.DealerReg Router.DealerCall Router.DealerWf
     Router.DealerWfCalls Router.DealerWfRegs Router.DealerRemove Router.DealerReply Router.DealerTimers
     Router.DealerOwned.
From Nexus Require Import Router.RealmWf Router.RealmStep Router.RealmC05 Router.RealmOutputs Router.RealmIdle.
From Nexus Require Import Router.RealmTraceLib Router.RealmTrace Router.RealmTraceC05 Router.RealmTraceInv.
From Nexus Require Import Router.RealmTraceC12Dealer Router.RealmTraceC12Inv.
From Coq Require Import Lia ZifyN ZifyNat ZifyBool.

(** ** Dealer level *)
Definition fkept (d d' : dealer) : Prop :=
  forall rid rg', nget (d_regs d') rid = Some rg' ->
    exists rg, nget (d_regs d) rid = Some rg /\ incl (reg_fwd_timeout rg') (reg_fwd_timeout rg).

Definition fwd_ok (d : dealer) : Prop :=
  forall rid rg, nget (d_regs d) rid = Some rg ->
    incl (reg_fwd_timeout rg) (reg_callees rg) /\ NoDup (reg_fwd_timeout rg).

Definition fk (d d' : dealer) : Prop := fkept d d' /\ (fwd_ok d -> fwd_ok d').

Lemma fk_refl : forall d, fk d d.
Proof. intros d. split; [|auto]. intros rid rg H. exists rg. split; [exact H|apply incl_refl]. Qed.
Lemma fk_trans : forall a b c, fk a b -> fk b c -> fk a c.
Proof.
  intros a b c [A1 A2] [B1 B2]. split; [|auto]. intros rid rg2 H.
  destruct (B1 rid rg2 H) as (rg1 & H1 & I1). destruct (A1 rid rg1 H1) as (rg0 & H0 & I0).
  exists rg0. split; [exact H0|eapply incl_tran; eauto].
Qed.
Lemma fk_of_same : forall d d', d_regs d' = d_regs d -> fk d d'.
Proof.
  intros d d' E. split.
  - intros rid rg H. rewrite E in H. exists rg. split; [exact H|apply incl_refl].
  - intros OK rid rg H. rewrite E in H. exact (OK rid rg H).
Qed.

Lemma sync_cancel_fk : forall lk d caller req mode reason ea, fk d (fst (sync_cancel lk d caller req mode reason ea)).
Proof. intros. apply fk_of_same. destruct (sync_cancel_regs_same lk d caller req mode reason ea) as (_ & _ & _ & E & _). exact E. Qed.
Lemma cancel_fk : forall lk d caller req opts, fk d (fst (cancel lk d caller req opts)).
Proof. intros. apply fk_of_same. destruct (cancel_frame lk d caller req opts) as (_ & _ & E). exact E. Qed.
Lemma sync_error_fk : forall d callee req det err args kw, fk d (fst (sync_error d callee req det err args kw)).
Proof. intros. apply fk_of_same. destruct (sync_error_frame d callee req det err args kw) as (_ & _ & E). exact E. Qed.
Lemma sync_yield_fk : forall lk d callee req opts args kw, fk d (fst (sync_yield lk d callee req opts args kw)).
Proof. intros. apply fk_of_same. destruct (sync_yield_frame lk d callee req opts args kw) as (_ & _ & E). exact E. Qed.
Lemma fire_timers_fk : forall lk now d, fk d (fst (fire_timers lk now d)).
Proof. intros. apply fk_of_same. destruct (fire_timers_frame lk now d) as (_ & _ & E & _). exact E. Qed.

Lemma register_fwd : forall cfg d callee req opts proc rid rg' y,
    regs_core d ->
    nget (d_regs (fst (fst (register cfg d callee req opts proc)))) rid = Some rg' ->
    In y (reg_fwd_timeout rg') ->
    (exists rg, nget (d_regs d) rid = Some rg /\ In y (reg_fwd_timeout rg)) \/
    (y = s_id callee /\ In (s_id callee, RRegistered req rid) (snd (fst (register cfg d callee req opts proc))) /\
     opt_bool opts "forward_timeout" = true).
Proof.
  intros cfg d callee req opts proc rid rg' y RC. unfold register.
  assert (Keep : forall A : Prop, nget (d_regs d) rid = Some rg' -> In y (reg_fwd_timeout rg') ->
                 (exists rg, nget (d_regs d) rid = Some rg /\ In y (reg_fwd_timeout rg)) \/ A)
    by (intros A H Hy; left; exists rg'; auto).
  destruct (negb (valid_uri _ _ _)); [cbn [fst]; apply Keep|].
  destruct (str_prefix_wamp proc && negb (s_id callee =? meta_id)); [cbn [fst]; apply Keep|].
  destruct (negb (c_disclose cfg) && _ && _); [cbn [fst]; apply Keep|].
  destruct (match sget _ _ with Some id => nget (d_regs d) id | None => None end) as [rg|] eqn:M.
  - destruct (negb (shared_policy _) || _ || _); [cbn [fst]; apply Keep|].
    cbn [fst snd d_regs d_set_regs d_set_callee_regs]. rewrite ngs.
    destruct (N.eqb_spec rid (reg_id rg)) as [->|Hn]; [|apply Keep].
    intros E. inversion E; subst rg'. clear E. cbn [reg_fwd_timeout].
    destruct (sget _ _) as [id|] eqn:Sg; [|discriminate].
    destruct (rw_reg _ RC id rg M) as (Eid & _). rewrite Eid.
    destruct (opt_bool opts "forward_timeout") eqn:Hf.
    + intros Hy. apply in_app_or in Hy. destruct Hy as [Hy|[<-|[]]].
      * left. exists rg. split; [exact M|exact Hy].
      * right. split; [reflexivity|]. split; [now left|reflexivity].
    + intros Hy. left. exists rg. split; [exact M|exact Hy].
  - cbn [fst snd]. intros E.
    assert (E' : nget (nset (d_regs d) (idgen_next (d_idgen d))
                            (mkReg (idgen_next (d_idgen d)) proc (opt_string opts "match") (opt_string opts "invoke")
                                   (if opt_bool opts "disclose_caller" then [s_id callee] else [])
                                   (if opt_bool opts "forward_timeout" then [s_id callee] else []) 0 [s_id callee])) rid = Some rg').
    { destruct (mkind_of (opt_string opts "match")); exact E. }
    rewrite ngs in E'. destruct (N.eqb_spec rid (idgen_next (d_idgen d))) as [->|Hn]; [|apply Keep; exact E'].
    inversion E'; subst rg'. cbn [reg_fwd_timeout].
    destruct (opt_bool opts "forward_timeout") eqn:Hf; [|intros []].
    intros [<-|[]]. right. split; [reflexivity|]. split; [now left|reflexivity].
Qed.

Lemma register_fok : forall cfg d callee req opts proc,
    fwd_ok d -> fwd_ok (fst (fst (register cfg d callee req opts proc))).
Proof.
  intros cfg d callee req opts proc OK. unfold register.
  destruct (negb (valid_uri _ _ _)); [exact OK|].
  destruct (str_prefix_wamp proc && negb (s_id callee =? meta_id)); [exact OK|].
  destruct (negb (c_disclose cfg) && _ && _); [exact OK|].
  destruct (match sget _ _ with Some id => nget (d_regs d) id | None => None end) as [rg|] eqn:M.
  - destruct (negb (shared_policy _) || _ || nmem (s_id callee) (reg_callees rg)) eqn:Hc; [exact OK|].
    apply orb_false_iff in Hc. destruct Hc as [_ Hc]. apply nmem_false in Hc.
    destruct (sget _ _) as [id|] eqn:Sg; [|discriminate].
    destruct (OK id rg M) as [I1 I2].
    cbn [fst]. intros rid rg' H. cbn [d_regs d_set_regs d_set_callee_regs] in H. rewrite ngs in H.
    destruct (N.eqb_spec rid (reg_id rg)) as [->|Hn]; [|exact (OK rid rg' H)].
    inversion H; subst rg'. cbn [reg_fwd_timeout reg_callees].
    destruct (opt_bool opts "forward_timeout").
    + split.
      * intros y Hy. apply in_app_or in Hy. apply in_or_app. destruct Hy as [Hy|Hy]; [left; now apply I1|now right].
      * apply NoDup_app_one; [exact I2|]. intros Hin. apply Hc. now apply I1.
    + split; [intros y Hy; apply in_or_app; left; now apply I1|exact I2].
  - cbn [fst]. intros rid rg' H.
    assert (H' : nget (nset (d_regs d) (idgen_next (d_idgen d))
                            (mkReg (idgen_next (d_idgen d)) proc (opt_string opts "match") (opt_string opts "invoke")
                                   (if opt_bool opts "disclose_caller" then [s_id callee] else [])
                                   (if opt_bool opts "forward_timeout" then [s_id callee] else []) 0 [s_id callee])) rid = Some rg').
    { destruct (mkind_of (opt_string opts "match")); exact H. }
    rewrite ngs in H'. destruct (N.eqb_spec rid (idgen_next (d_idgen d))) as [->|Hn]; [|exact (OK rid rg' H')].
    inversion H'; subst rg'. cbn [reg_fwd_timeout reg_callees].
    destruct (opt_bool opts "forward_timeout"); split;
      [apply incl_refl|repeat constructor; intros []|intros y []|constructor].
Qed.

Lemma del_callee_reg_fk : forall d sid id, fk d (fst (del_callee_reg d sid id)).
Proof.
  intros d sid id. unfold del_callee_reg.
  destruct (nget (d_regs d) id) as [rg|] eqn:Hr; [|apply fk_refl].
  destruct (negb (nmem sid (reg_callees rg))); [apply fk_refl|].
  destruct (nremove1 sid (reg_callees rg)) as [|c cs] eqn:Hc; cbn [fst]; split.
  - intros rid rg' H.
    assert (H' : nget (ndel (d_regs d) id) rid = Some rg') by (destruct (mkind_of (reg_match rg)); exact H).
    rewrite ngd in H'. destruct (N.eqb rid id); [discriminate|]. exists rg'. split; [exact H'|apply incl_refl].
  - intros OK rid rg' H.
    assert (H' : nget (ndel (d_regs d) id) rid = Some rg') by (destruct (mkind_of (reg_match rg)); exact H).
    rewrite ngd in H'. destruct (N.eqb rid id); [discriminate|]. exact (OK rid rg' H').
  - intros rid rg' H. cbn [d_regs d_set_regs] in H. rewrite ngs in H.
    destruct (N.eqb_spec rid id) as [->|Hn]; [|exists rg'; split; [exact H|apply incl_refl]].
    inversion H; subst rg'. cbn [reg_fwd_timeout]. exists rg. split; [exact Hr|].
    intros y Hin. eapply In_nremove1; eauto.
  - intros OK rid rg' H. cbn [d_regs d_set_regs] in H. rewrite ngs in H.
    destruct (N.eqb_spec rid id) as [->|Hn]; [|exact (OK rid rg' H)].
    destruct (OK id rg Hr) as [I1 I2].
    inversion H; subst rg'. cbn [reg_fwd_timeout reg_callees]. rewrite <- Hc. split.
    + intros y Hy. apply (In_nremove1_NoDup sid y _ I2) in Hy. destruct Hy as [Hy Hne].
      apply In_nremove1_other; [exact Hne|now apply I1].
    + now apply NoDup_nremove1.
Qed.

Lemma unregister_fk : forall d sid req regid, fk d (fst (fst (unregister d sid req regid))).
Proof.
  intros d sid req regid. unfold unregister.
  pose proof (del_callee_reg_fk (d_set_callee_regs d (callee_del_reg (d_callee_regs d) sid regid)) sid regid) as E.
  destruct (del_callee_reg _ sid regid) as [d1 [b|]]; cbn [fst] in *; [exact E|apply fk_of_same; reflexivity].
Qed.

Lemma dealer_remove_session_fk : forall lk d sid, fk d (fst (fst (dealer_remove_session lk d sid))).
Proof.
  intros lk d sid. unfold dealer_remove_session.
  assert (F : forall regs d0 mp, fk d0 (fst (fold_left (remove_callee_reg sid) regs (d0, mp)))).
  { induction regs as [|id regs IH]; intros d0 mp; cbn [fold_left]; [apply fk_refl|].
    unfold remove_callee_reg at 2. pose proof (del_callee_reg_fk d0 sid id) as L.
    destruct (del_callee_reg d0 sid id) as [d1 [b|]]; cbn [fst] in *; [|apply IH].
    eapply fk_trans; [exact L|apply IH]. }
  specialize (F (match nget (d_callee_regs d) sid with Some l => l | None => [] end) d []).
  destruct (fold_left (remove_callee_reg sid) _ (d, [])) as [d1 mp]. cbn [fst] in *.
  set (d2 := d_set_callee_regs d1 (ndel (d_callee_regs d1) sid)).
  assert (G : forall l acc, d_regs (fst (fold_left (cancel_served lk sid) l acc)) = d_regs (fst acc)).
  { induction l as [|e l IH]; intros acc; cbn [fold_left]; [reflexivity|]. rewrite IH. apply cancel_served_regs. }
  specialize (G (d_invs d2) (d2, [])).
  destruct (fold_left (cancel_served lk sid) (d_invs d2) (d2, [])) as [d3 o]. cbn [fst snd] in *.
  assert (H : forall l d0, d_regs (fold_left (drop_own_call sid) l d0) = d_regs d0).
  { induction l as [|e l IH]; intros d0; cbn [fold_left]; [reflexivity|]. rewrite IH. apply drop_own_call_regs. }
  eapply fk_trans; [exact F|]. apply fk_of_same. rewrite H, G. reflexivity.
Qed.

Lemma call_d0_fk : forall d r next, nget (d_regs d) (reg_id r) = Some r -> fk d (call_d0 d r next).
Proof.
  intros d r next Hr. split.
  - intros rid rg' H. unfold call_d0 in H. cbn [d_regs d_set_regs] in H. rewrite ngs in H.
    destruct (N.eqb_spec rid (reg_id r)) as [->|Hn]; [|exists rg'; split; [exact H|apply incl_refl]].
    inversion H; subst rg'. exists r. split; [exact Hr|]. unfold reg_set_next. cbn [reg_fwd_timeout]. apply incl_refl.
  - intros OK rid rg' H. unfold call_d0 in H. cbn [d_regs d_set_regs] in H. rewrite ngs in H.
    destruct (N.eqb_spec rid (reg_id r)) as [->|Hn]; [|exact (OK rid rg' H)].
    inversion H; subst rg'. unfold reg_set_next. cbn [reg_fwd_timeout reg_callees]. exact (OK _ _ Hr).
Qed.

Lemma call_abort_fk : forall lk d caller req opts proc oracle,
    dealer_wf lk d -> fk d (call_abort_dealer lk d caller req opts proc oracle).
Proof.
  intros lk d caller req opts proc oracle WF.
  destruct (call_abort_dealer_shape lk d caller req opts proc oracle) as [->|(r & next & Hm & ->)]; [apply fk_refl|].
  apply call_d0_fk. apply (best_match_sound lk d WF) in Hm. destruct Hm as [Hr _]. exact Hr.
Qed.

Lemma call_fk : forall cfg lk now d caller req opts proc args kw oracle,
    dealer_wf lk d ->
    match call cfg lk now d caller req opts proc args kw oracle with
    | CallRefused d' _ => fk d d'
    | CallAbort _ => True
    | CallInvoked d' _ _ => fk d d'
    end.
Proof.
  intros cfg lk now d caller req opts proc args kw oracle WF.
  assert (Hreg : forall r, match_procedure d proc oracle = Some r -> nget (d_regs d) (reg_id r) = Some r).
  { intros r Hm. apply (best_match_sound lk d WF) in Hm. destruct Hm as [Hr _]. exact Hr. }
  assert (Hnps : fk d (no_proc_state d (s_id caller, req))).
  { apply fk_of_same. destruct (nps_frame d (s_id caller, req)) as (_ & _ & E & _). exact E. }
  pose proof (call_cases cfg lk now d caller req opts proc args kw oracle) as C.
  inversion C as [Hm E|r Hm Hc E|r Hm Hc Ha E|r ikey Hm Hc Ha Hb Hi E|r ikey inv Hm Hc Ha Hb Hi Hl E
                  |r ikey inv callee Hm Hc Ha Hb Hi Hl E|r Hm Hc Ha Hb Hs E|r cid0 next Hm Hc Ha Hb Hs Hl E
                  |r cid0 next callee Hm Hc Ha Hb Hs Hl Hf E
                  |r cid0 next callee Hm Hc Ha Hb Hs Hl Hf Hpa E|r cid0 next callee Hm Hc Ha Hb Hs Hl Hf Hpa Hpr E
                  |r cid0 next callee Hm Hc Ha Hb Hs Hl Hf Hpa Hpr Hd E
                  |r cid0 next callee Hm Hc Ha Hb Hs Hl Hf Hpa Hpr Hd E];
    try exact Hnps; try exact I; try apply fk_refl; try (apply call_d0_fk; auto; fail).
  - apply fk_of_same. apply chs_regs.
  - eapply fk_trans; [apply (call_d0_fk d r next (Hreg r Hm))|]. apply fk_of_same. rewrite cfs_regs. reflexivity.
Qed.

(** ** Realm level *)
Definition rfk (r r' : realm) : Prop := fk (r_dealer r) (r_dealer r').

Lemma leave_rfk : forall r sid, rfk r (fst (leave r sid)).
Proof.
  intros r sid. unfold rfk.
  destruct (find_session (r_clients r) sid) as [s|] eqn:F; [|rewrite (leave_absent r sid F); apply fk_refl].
  rewrite (leave_event_order r sid s F). unfold leave_core.
  set (r2 := r_set_testaments (r_set_clients r (del_session (r_clients r) sid))
                              (ndel (r_testaments (r_set_clients r (del_session (r_clients r) sid))) sid)).
  change (r_dealer r2) with (r_dealer r).
  pose proof (dealer_remove_session_fk (lookup r2) (r_dealer r) sid) as D.
  destruct (dealer_remove_session (lookup r2) (r_dealer r) sid) as [[d o1] mps]. cbn [fst snd] in *.
  destruct (broker_remove_session _ _ sid) as [[b pg] o2].
  pose proof (meta_publish_all_dealer (mps ++ testament_pubs r sid ++ [on_leave_pub s]) (r_set_broker (r_set_dealer r2 d) b pg)) as E.
  destruct (meta_publish_all _ _) as [r5 o3]. cbn [fst snd] in *. cbn [r_dealer r_set_broker r_set_dealer] in E.
  rewrite E. exact D.
Qed.

Lemma kill_sessions_rfk : forall sids r g, rfk r (fst (kill_sessions r sids g)).
Proof.
  induction sids as [|sid sids IH]; intros r g; [rewrite kill_sessions_nil; apply fk_refl|].
  rewrite kill_sessions_cons. pose proof (leave_rfk r sid) as L.
  destruct (leave r sid) as [r1 o1]. specialize (IH r1 g).
  destruct (kill_sessions r1 sids g) as [r2 o2]. cbn [fst snd] in *. unfold rfk in *. eapply fk_trans; eauto.
Qed.

Lemma run_meta_invocation_rfk : forall r o oracle, rfk r (fst (run_meta_invocation r o oracle)).
Proof.
  intros r o oracle. unfold rfk, run_meta_invocation.
  destruct o as [|[rcv m] l]; [apply fk_refl|]. destruct m; try apply fk_refl. destruct l; [|apply fk_refl].
  destruct (negb (rcv =? meta_id)); [apply fk_refl|].
  destruct (nget (r_metaprocs r) reg) as [proc|].
  - pose proof (meta_call_dealer r proc details args kw oracle) as Ed.
    destruct (meta_call r proc details args kw oracle) as [[r1 resp] kills]. unfold realm_of in Ed. cbn [fst snd] in Ed.
    assert (G : forall d o1, (d, o1) = match resp with
                                        | MYield a k0 => sync_yield (lookup r1) (r_dealer r1) meta_id req [] a k0
                                        | MError e => sync_error (r_dealer r1) meta_id req [] e [] []
                                        end -> fk (r_dealer r1) d).
    { intros d o1 E. destruct resp.
      - pose proof (sync_yield_fk (lookup r1) (r_dealer r1) meta_id req [] args0 kw0) as A. rewrite <- E in A. exact A.
      - pose proof (sync_error_fk (r_dealer r1) meta_id req [] err [] []) as A. rewrite <- E in A. exact A. }
    destruct (match resp with MYield a k0 => _ | MError e => _ end) as [d o1].
    specialize (G d o1 eq_refl). rewrite Ed in G.
    destruct kills as [[sids g]|]; [|exact G].
    pose proof (kill_sessions_rfk sids (r_set_dealer r1 d) g) as K. unfold rfk in K.
    destruct (kill_sessions (r_set_dealer r1 d) sids g) as [r3 o2]. cbn [fst snd] in *.
    eapply fk_trans; [exact G|exact K].
  - pose proof (sync_error_fk (r_dealer r) meta_id req [] e_no_such_procedure [] []) as A.
    destruct (sync_error _ _ _ _ _ _ _) as [d o1]. exact A.
Qed.

(** the step [o] is the REGISTER of [y] itself, answered REGISTERED [rid],
    with [forward_timeout = true] *)
Definition fwd_asked (r : realm) (o : op) (rid y : N) : Prop :=
  exists m orc ys req opts proc,
    o = OMsg y m orc /\ find_session (r_clients r) y = Some ys /\
    gate r ys m = inl (CRegister req opts proc) /\
    In (y, RRegistered req rid) (snd (step r o)) /\
    opt_bool opts "forward_timeout" = true.

Definition fstep (r : realm) (o : op) (out1 : list out) (r' : realm) (s : option (N * cmsg)) : Prop :=
  (forall rid rg' y, nget (d_regs (r_dealer r')) rid = Some rg' -> In y (reg_fwd_timeout rg') ->
     (exists rg, nget (d_regs (r_dealer r)) rid = Some rg /\ In y (reg_fwd_timeout rg)) \/
     (exists req opts proc, s = Some (y, CRegister req opts proc) /\ In (y, RRegistered req rid) out1 /\
                            opt_bool opts "forward_timeout" = true)) /\
  (fwd_ok (r_dealer r) -> fwd_ok (r_dealer r')).

Lemma rfk_fstep : forall r o out1 r' s, rfk r r' -> fstep r o out1 r' s.
Proof.
  intros r o out1 r' s [K1 K2]. split; [|exact K2].
  intros rid rg' y H Hy. left. destruct (K1 rid rg' H) as (rg & H0 & I). exists rg. split; [exact H0|now apply I].
Qed.

Theorem handle_fwd : forall r o s m oracle,
    realm_wf r ->
    fstep r o (snd (handle r s m oracle)) (fst (handle r s m oracle)) (Some (s_id s, m)).
Proof.
  intros r o s m oracle W.
  pose proof (rw_dealer r W) as Wd.
  assert (Lv : forall r0, rfk r r0 -> rfk r (fst (leave r0 (s_id s)))).
  { intros r0 K. unfold rfk in *. eapply fk_trans; [exact K|apply leave_rfk]. }
  assert (Same : rfk r r) by apply fk_refl.
  destruct m; cbn [handle].
  - apply rfk_fstep. destruct (publish _ _ _ _ _ _ _ _ _ _ _) as [[b pg] o0].
    destruct (publish_aborts _ _ _ _); [|exact Same].
    specialize (Lv r Same). destruct (leave r (s_id s)) as [r1 o1]. exact Lv.
  - apply rfk_fstep. destruct (subscribe _ _ _ _ _ _ _) as [[b pg] o0]. exact Same.
  - apply rfk_fstep. destruct (unsubscribe _ _ _ _ _) as [[b pg] o0]. exact Same.
  - (* REGISTER *)
    pose proof (register_fwd (r_cfg r) (r_dealer r) s req opts proc) as RR.
    pose proof (register_fok (r_cfg r) (r_dealer r) s req opts proc) as RO.
    destruct (register _ _ _ _ _ _) as [[d o0] mps]. cbn [fst snd] in RR, RO.
    pose proof (meta_publish_all_dealer mps (r_set_dealer r d)) as E.
    destruct (meta_publish_all _ mps) as [r1 o1]. cbn [fst snd] in *. cbn [r_dealer r_set_dealer] in E.
    split; [|rewrite E; exact RO].
    intros rid rg' y H Hy. rewrite E in H.
    destruct (RR rid rg' y (wf_regs _ _ Wd) H Hy) as [K|(-> & Ho & Hf)]; [now left|right].
    exists req, opts, proc. split; [reflexivity|]. split; [apply in_or_app; now left|exact Hf].
  - apply rfk_fstep.
    pose proof (unregister_fk (r_dealer r) (s_id s) req reg) as D.
    destruct (unregister _ _ _ _) as [[d o0] mps]. cbn [fst snd] in *.
    pose proof (meta_publish_all_dealer mps (r_set_dealer r d)) as E.
    destruct (meta_publish_all _ mps) as [r1 o1]. cbn [fst snd] in *. cbn [r_dealer r_set_dealer] in E.
    unfold rfk. rewrite E. exact D.
  - apply rfk_fstep.
    pose proof (call_fk (r_cfg r) (lookup r) (r_now r) (r_dealer r) s req opts proc args kw oracle Wd) as CF.
    destruct (call _ _ _ _ _ _ _ _ _ _ _) as [d o0|o0|d callee' o0].
    + exact CF.
    + cbv zeta. specialize (Lv (r_set_dealer r (call_abort_dealer (lookup r) (r_dealer r) s req opts proc oracle))
                       (call_abort_fk (lookup r) (r_dealer r) s req opts proc oracle Wd)).
      destruct (leave _ (s_id s)) as [r1 o1]. exact Lv.
    + pose proof (run_meta_invocation_rfk (update_session (r_set_dealer r d) callee') o0 oracle) as R.
      unfold rfk in *. eapply fk_trans; [|exact R].
      destruct (update_session_frame (r_set_dealer r d) callee') as (_ & _ & _ & -> & _). exact CF.
  - apply rfk_fstep. pose proof (cancel_fk (lookup r) (r_dealer r) (s_id s) req opts) as D.
    destruct (cancel _ _ _ _ _) as [d o0]. exact D.
  - apply rfk_fstep. pose proof (sync_yield_fk (lookup r) (r_dealer r) (s_id s) req opts args kw) as D.
    destruct (sync_yield _ _ _ _ _ _ _) as [d o0]. cbn [fst snd] in *.
    destruct (yield_aborts _ _ _ _ _); [|exact D].
    specialize (Lv (r_set_dealer r d) D). destruct (leave (r_set_dealer r d) (s_id s)) as [r1 o1]. exact Lv.
  - apply rfk_fstep. destruct (negb (ty =? c_INVOCATION)).
    + specialize (Lv r Same). destruct (leave r (s_id s)) as [r1 o1]. exact Lv.
    + pose proof (sync_error_fk (r_dealer r) (s_id s) req details err args kw) as D.
      destruct (sync_error _ _ _ _ _ _ _) as [d o0]. exact D.
  - apply rfk_fstep. specialize (Lv r Same). destruct (leave r (s_id s)) as [r1 o1]. exact Lv.
  - apply rfk_fstep. specialize (Lv r Same). destruct (leave r (s_id s)) as [r1 o1]. exact Lv.
Qed.

Theorem step_fwd : forall r o,
    realm_wf r ->
    (forall rid rg' y, nget (d_regs (r_dealer (fst (step r o)))) rid = Some rg' -> In y (reg_fwd_timeout rg') ->
       (exists rg, nget (d_regs (r_dealer r)) rid = Some rg /\ In y (reg_fwd_timeout rg)) \/ fwd_asked r o rid y) /\
    (fwd_ok (r_dealer r) -> fwd_ok (r_dealer (fst (step r o)))).
Proof.
  intros r o W.
  assert (Keep : forall r', rfk r r' ->
            (forall rid rg' y, nget (d_regs (r_dealer r')) rid = Some rg' -> In y (reg_fwd_timeout rg') ->
               (exists rg, nget (d_regs (r_dealer r)) rid = Some rg /\ In y (reg_fwd_timeout rg)) \/ fwd_asked r o rid y) /\
            (fwd_ok (r_dealer r) -> fwd_ok (r_dealer r'))).
  { intros r' [K1 K2]. split; [|exact K2]. intros rid rg' y H Hy. left.
    destruct (K1 rid rg' H) as (rg & H0 & I). exists rg. split; [exact H0|now apply I]. }
  destruct o as [sid lc h|sid m oracle|sid|ms].
  - cbn [step]. unfold join. destruct (negb (has_role h) || is_some (lookup r sid)); [apply Keep, fk_refl|].
    apply Keep. unfold rfk. rewrite meta_publish_dealer. apply fk_refl.
  - pose proof (step_msg_eq r sid m oracle) as Est.
    destruct (find_session (r_clients r) sid) as [s|] eqn:F; [|rewrite Est; apply Keep, fk_refl].
    pose proof (find_session_id _ _ _ F) as Es.
    destruct (gate r s m) as [m'|out] eqn:Eg; [|rewrite Est; apply Keep, fk_refl].
    rewrite Est. destruct (handle_fwd r (OMsg sid m oracle) s m' oracle W) as [H1 H2]. split; [|exact H2].
    intros rid rg' y H Hy.
    destruct (H1 rid rg' y H Hy) as [K|(req & opts & proc & Esrc & Ho & Hf)]; [now left|right].
    injection Esrc as E1 E2. subst y m'. rewrite Es.
    exists m, oracle, s, req, opts, proc. split; [reflexivity|]. split; [exact F|]. split; [exact Eg|].
    split; [rewrite Est, <- Es; exact Ho|exact Hf].
  - cbn [step]. apply Keep, leave_rfk.
  - cbn [step]. set (r1 := r_set_now r (r_now r + ms)).
    pose proof (fire_timers_fk (lookup r1) (r_now r1) (r_dealer r1)) as D.
    destruct (fire_timers _ _ _) as [d out]. cbn [fst snd] in *. apply Keep. exact D.
Qed.
