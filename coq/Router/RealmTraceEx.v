(** * Histories of the whole model, part 3: concrete histories.
    - [ReplyEx]: a history without authorizer in which request id 7 of
      session 10 is used for two calls (progressive result + final result;
      then an ERROR from the callee), a meta procedure is called and a call is
      refused: the hypotheses of the C02 history theorems hold and their
      conclusions are non-trivial.
    - [EndedEx]: session 11 is dropped; the later publication to its topic and
      the later call of its procedure send it nothing; after it joined again
      it is served again.
    - [InvEx]: the INVOCATIONs sent to session 11: ids 1, 2, then 1 again (a
      further chunk of the first call); 11 is dropped, joins again and is sent
      id 1 afresh.
    - [UnregEx]: sessions 11 and 12 share a registration; a progressive call is
      routed to 11; 11 unregisters and is answered UNREGISTERED; the caller's
      next chunk is still delivered to 11 under that registration id — the
      literal "no INVOCATION after UNREGISTERED" is false of the model; what
      holds is the statement with further chunks excepted.
    - [GateEx]: a history with an authorizer that refuses a first CALL:
      [gate_fresh] holds although the gate refuses.
    - [Refute]: the authorizer refuses a further chunk of a pending progressive
      call: ERROR(CALL) is sent, the call stays, the callee's RESULT follows —
      two final replies for one CALL.  The statement without [gate_fresh] is
      false of the model (and of router/realm.go authzMessage). *)
From Nexus Require Import Router.Realm Router.RealmProofs Router.RealmWf Router.RealmStep.
From Nexus Require Import Router.DealerLib Router.DealerReply Router.DealerTrace.
From Nexus Require Import Router.RealmTraceLib Router.RealmTrace Router.RealmTraceC05 Router.RealmTraceInv Router.RealmTraceC03.
From Coq Require Import Lia.

Definition feats (l : list string) : value := VDict [("features", VDict (map (fun f => (f, VBool true)) l))].
Definition hello_all : dict :=
  [("roles", VDict [("caller", feats ["progressive_call_invocations"; "progressive_call_results"]);
                    ("callee", feats ["progressive_call_invocations"; "progressive_call_results"; "call_canceling"]);
                    ("publisher", VDict []); ("subscriber", VDict [])])].

Ltac ops_ok := repeat constructor; apply N.ltb_lt || apply N.leb_le; reflexivity.

Module ReplyEx.
  Definition cfg0 : config := mkConfig false false false true true false [] None.
  Definition call1 := OMsg 10 (CCall 7 [("receive_progress", VBool true)] "p" [] []) 0.
  Definition call2 := OMsg 10 (CCall 7 [] "p" [] []) 0.
  Definition ops0 : list op :=
    [OJoin 10 false hello_all; OJoin 11 false hello_all; OMsg 11 (CRegister 1 [] "p") 0;
     call1;
     OMsg 11 (CYield 1 [("progress", VBool true)] [vnat 1] []) 0;
     OMsg 11 (CYield 1 [] [vnat 2] []) 0;
     call2;
     OMsg 11 (CError c_INVOCATION 2 [] "app.err" [] []) 0;
     OMsg 10 (CCall 8 [] "wamp.session.count" [] []) 0;
     OMsg 10 (CCall 9 [] "nope" [] []) 0;
     OMsg 11 (CYield 1 [] [vnat 3] []) 0].

  Lemma hyps : Forall op_ok ops0 /\ k0 cfg0 + N.of_nat (List.length ops0) <= max_idN /\
               along gate_fresh (init_realm cfg0) ops0.
  Proof.
    split; [unfold ops0; ops_ok|]. split; [apply N.leb_le; reflexivity|].
    apply gate_fresh_no_authz. reflexivity.
  Qed.

  (** the replies of the history, in order *)
  Definition r_prog : out := (10, RResult 7 [("progress", VBool true)] [vnat 1] []).
  Definition r_fin1 : out := (10, RResult 7 [] [vnat 2] []).
  Definition r_fin2 : out := (10, RError c_CALL 7 [] "app.err" [] []).
  Definition r_meta : out := (10, RResult 8 [] [vnat 2] []).
  Definition r_none : out := (10, RError c_CALL 9 [] e_no_such_procedure [] []).

  Lemma replies : filter (fun e => match e with EOut m => match reply_of m with Some _ => true | None => false end
                                               | EIn _ => false end) (trace cfg0 ops0) =
                  map EOut [r_prog; r_fin1; r_fin2; r_meta; r_none].
  Proof. vm_compute. reflexivity. Qed.

  (** the monitor of (10, 7) ends shut, having been opened twice *)
  Lemma monitor : mon_run (10, 7) false (trace cfg0 ops0) = Some false /\
                  mon_run (10, 8) false (trace cfg0 ops0) = Some false /\
                  mon_run (11, 1) false (trace cfg0 ops0) = Some false.
  Proof. vm_compute. repeat split. Qed.

  (** an instance of the uniqueness pattern: first final reply, ..., second
      final reply; the CALL in between is [call2] *)
  Definition pre0 : list event :=
    [EIn (OJoin 10 false hello_all); EIn (OJoin 11 false hello_all);
     EIn (OMsg 11 (CRegister 1 [] "p") 0); EOut (11, RRegistered 1 24);
     EIn call1;
     EOut (11, RInvocation 1 24 [("progress", VBool false); ("receive_progress", VBool true); ("procedure", vuri "p")] [] []);
     EIn (OMsg 11 (CYield 1 [("progress", VBool true)] [vnat 1] []) 0); EOut r_prog;
     EIn (OMsg 11 (CYield 1 [] [vnat 2] []) 0)].
  Definition mid0 : list event :=
    [EIn call2;
     EOut (11, RInvocation 2 24 [("progress", VBool false); ("procedure", vuri "p")] [] []);
     EIn (OMsg 11 (CError c_INVOCATION 2 [] "app.err" [] []) 0)].

  Lemma pattern : exists post, trace cfg0 ops0 = pre0 ++ EOut r_fin1 :: mid0 ++ EOut r_fin2 :: post /\
                               is_reply_ev (10, 7) true (EOut r_fin1) /\ is_reply_ev (10, 7) true (EOut r_fin2) /\
                               In (EIn call2) mid0 /\ is_call_ev (10, 7) (EIn call2).
  Proof.
    eexists. split; [vm_compute; reflexivity|].
    split; [eexists; split; reflexivity|]. split; [eexists; split; reflexivity|].
    split; [now left|]. unfold call2. do 6 eexists. split; reflexivity.
  Qed.
End ReplyEx.

Module GateEx.
  (** refuses every CALL of procedure "secret" *)
  Definition deny_secret : N -> bool -> dict -> cmsg -> adecision :=
    fun _ _ _ m => match m with CCall _ _ "secret" _ _ => ADeny | _ => AAllow m end.
  Definition cfg1 : config := mkConfig false false false false false false [] (Some deny_secret).
  Definition ops1 : list op :=
    [OJoin 10 false hello_all; OJoin 11 false hello_all; OMsg 11 (CRegister 1 [] "secret") 0;
     OMsg 10 (CCall 7 [] "secret" [] []) 0;
     OMsg 11 (CRegister 2 [] "p") 0;
     OMsg 10 (CCall 7 [] "p" [] []) 0;
     OMsg 11 (CYield 1 [] [vnat 5] []) 0].

  Lemma outs : snd (run (init_realm cfg1) ops1) =
    [[]; []; [(11, RRegistered 1 19)];
     [(10, RError c_CALL 7 [] e_not_authorized [] [])];
     [(11, RRegistered 2 20)];
     [(11, RInvocation 1 20 [("progress", VBool false); ("procedure", vuri "p")] [] [])];
     [(10, RResult 7 [] [vnat 5] [])]].
  Proof. vm_compute. reflexivity. Qed.

  Ltac gate_step :=
    let sid := fresh "sid" in let m := fresh "m" in let oracle := fresh "oracle" in let s := fresh "s" in
    let E := fresh "E" in let F := fresh "F" in
    intros sid m oracle s E F; try discriminate E; inversion E; subst; clear E;
    vm_compute in F; inversion F; subst; clear F; vm_compute;
    try reflexivity.

  Lemma hyps : Forall op_ok ops1 /\ k0 cfg1 + N.of_nat (List.length ops1) <= max_idN /\
               along gate_fresh (init_realm cfg1) ops1.
  Proof.
    split; [unfold ops1; ops_ok|]. split; [apply N.leb_le; reflexivity|].
    unfold ops1. cbn [along]. repeat match goal with |- _ /\ _ => split end; try exact I; try gate_step.
    (* the refused CALL: ERROR(CALL) 7 for a call id that is not pending *)
    intros mm cid fin [<-|[]] R. inversion R; subst. split; [reflexivity|].
    intros H. apply H. reflexivity.
  Qed.
End GateEx.

Module Refute.
  (** refuses every CALL whose first argument is [true] *)
  Definition deny_marked : N -> bool -> dict -> cmsg -> adecision :=
    fun _ _ _ m => match m with CCall _ _ _ (VBool true :: _) _ => ADeny | _ => AAllow m end.
  Definition cfgA : config := mkConfig false false false false false false [] (Some deny_marked).
  Definition chunk1 := OMsg 10 (CCall 7 [("progress", VBool true)] "p" [] []) 0.
  Definition chunk2 := OMsg 10 (CCall 7 [] "p" [VBool true] []) 0.
  Definition yield1 := OMsg 11 (CYield 1 [] [] []) 0.
  Definition opsA : list op :=
    [OJoin 10 false hello_all; OJoin 11 false hello_all; OMsg 11 (CRegister 1 [] "p") 0; chunk1; chunk2; yield1].

  Definition refusal : out := (10, RError c_CALL 7 [] e_not_authorized [] []).
  Definition result : out := (10, RResult 7 [] [] []).

  Lemma outs : snd (run (init_realm cfgA) opsA) =
    [[]; []; [(11, RRegistered 1 19)];
     [(11, RInvocation 1 19 [("progress", VBool true); ("procedure", vuri "p")] [] [])];
     [refusal]; [result]].
  Proof. vm_compute. reflexivity. Qed.

  (** the authorizer never alters a message *)
  Lemma transparent : forall sid lc det m m', deny_marked sid lc det m = AAllow m' -> m' = m.
  Proof.
    intros sid lc det m m'. unfold deny_marked.
    destruct m; try (intros H; inversion H; reflexivity).
    destruct args as [|[| [] | | | |] ?]; intros H; inversion H; reflexivity.
  Qed.

  (** two final replies for (10, 7) with no CALL of 10 in between *)
  Theorem reply_unique_refuted :
    exists cfg ops x q pre e1 mid e2 post,
      Forall op_ok ops /\ k0 cfg + N.of_nat (List.length ops) <= max_idN /\
      trace cfg ops = pre ++ e1 :: mid ++ e2 :: post /\
      is_reply_ev (x, q) true e1 /\ is_reply_ev (x, q) true e2 /\
      forall e0, In e0 mid -> ~ is_call_ev (x, q) e0.
  Proof.
    exists cfgA, opsA, 10, 7.
    exists [EIn (OJoin 10 false hello_all); EIn (OJoin 11 false hello_all);
            EIn (OMsg 11 (CRegister 1 [] "p") 0); EOut (11, RRegistered 1 19);
            EIn chunk1; EOut (11, RInvocation 1 19 [("progress", VBool true); ("procedure", vuri "p")] [] []);
            EIn chunk2].
    exists (EOut refusal), [EIn yield1], (EOut result), [].
    split; [unfold opsA; ops_ok|]. split; [apply N.leb_le; reflexivity|].
    split; [vm_compute; reflexivity|].
    split; [eexists; split; reflexivity|]. split; [eexists; split; reflexivity|].
    intros e0 [<-|[]] (q & o & p & a & k & orc & E & _). discriminate E.
  Qed.

  (** it is [gate_fresh] that fails: at [chunk2] the refused id is pending *)
  Lemma not_fresh : ~ along gate_fresh (init_realm cfgA) opsA.
  Proof.
    unfold opsA. cbn [along]. intros (_ & _ & _ & _ & G & _).
    specialize (G 10 _ 0 (mkSession 10 false hello_all (join_details 10 false hello_all) 0) eq_refl).
    assert (F : find_session (r_clients (fst (step (fst (step (fst (step (fst (step (init_realm cfgA) (OJoin 10 false hello_all)))
                    (OJoin 11 false hello_all))) (OMsg 11 (CRegister 1 [] "p") 0))) chunk1))) 10 =
                Some (mkSession 10 false hello_all (join_details 10 false hello_all) 0)) by (vm_compute; reflexivity).
    specialize (G F).
    match type of G with match ?g with _ => _ end =>
      assert (Eg : g = inr [refusal]) by (vm_compute; reflexivity); rewrite Eg in G end.
    destruct (G refusal (10, 7) true (or_introl eq_refl) eq_refl) as [_ Hn].
    apply Hn. vm_compute. discriminate.
  Qed.
End Refute.

Module EndedEx.
  Definition cfg0 : config := mkConfig false false false true true false [] None.
  Definition pre2 : list op :=
    [OJoin 10 false hello_all; OJoin 11 false hello_all;
     OMsg 11 (CSubscribe 1 [] "t") 0; OMsg 11 (CRegister 2 [] "p") 0;
     OMsg 10 (CPublish 3 [] "t" [vnat 1] []) 0].
  Definition mid2 : list op :=
    [OMsg 10 (CPublish 4 [("acknowledge", VBool true)] "t" [vnat 2] []) 0].
  Definition late2 : op := OMsg 10 (CCall 5 [] "p" [] []) 0.
  Definition post2 : list op :=
    [OJoin 11 false hello_all; OMsg 11 (CSubscribe 1 [] "t") 0; OMsg 10 (CPublish 6 [] "t" [vnat 3] []) 0].
  Definition ops2 : list op := pre2 ++ ODrop 11 :: mid2 ++ late2 :: post2.

  Lemma outs : snd (run (init_realm cfg0) ops2) =
    [[]; []; [(11, RSubscribed 1 1)]; [(11, RRegistered 2 24)];
     [(11, REvent 1 7 [] [vnat 1] [])];                       (* served while attached *)
     [];                                                      (* dropped *)
     [(10, RPublished 4 13)];                                 (* nothing to 11 *)
     [(10, RError c_CALL 5 [] e_no_such_procedure [] [])];    (* nothing to 11 *)
     []; [(11, RSubscribed 1 2)];
     [(11, REvent 2 17 [] [vnat 3] [])]].                     (* joined again: served again *)
  Proof. vm_compute. reflexivity. Qed.

  Lemma hyps : Forall op_ok ops2 /\ k0 cfg0 + N.of_nat (List.length ops2) <= max_idN /\
               client (fst (run (init_realm cfg0) pre2)) 11 /\
               ~ client (fst (run (init_realm cfg0) (pre2 ++ [ODrop 11]))) 11 /\
               (forall l h, ~ In (OJoin 11 l h) (mid2 ++ [late2])) /\
               nth_error (snd (run (init_realm cfg0) ops2)) (List.length (pre2 ++ ODrop 11 :: mid2)) =
               Some [(10, RError c_CALL 5 [] e_no_such_procedure [] [])].
  Proof.
    split; [unfold ops2, pre2, mid2, late2, post2; cbn [app]; ops_ok|]. split; [apply N.leb_le; reflexivity|].
    split; [unfold client; vm_compute; discriminate|]. split; [unfold client; vm_compute; intros H; apply H; reflexivity|].
    split; [intros l h [H|[H|[]]]; discriminate H|]. vm_compute. reflexivity.
  Qed.
End EndedEx.

Module InvEx.
  Definition cfg0 : config := mkConfig false false false true true false [] None.
  Definition opsI : list op :=
    [OJoin 10 false hello_all; OJoin 11 false hello_all;
     OMsg 11 (CRegister 1 [] "p") 0;
     OMsg 10 (CCall 7 [("progress", VBool true)] "p" [vnat 1] []) 0;
     OMsg 10 (CCall 8 [] "p" [vnat 2] []) 0;
     OMsg 10 (CCall 7 [] "p" [vnat 3] []) 0;
     ODrop 11; OJoin 11 false hello_all; OMsg 11 (CRegister 1 [] "p") 0;
     OMsg 10 (CCall 9 [] "p" [vnat 4] []) 0].

  Lemma hyps : Forall op_ok opsI /\ k0 cfg0 + N.of_nat (List.length opsI) <= max_idN.
  Proof. split; [unfold opsI; ops_ok|apply N.leb_le; reflexivity]. Qed.

  (** the INVOCATIONs and JOINs of the history, in order *)
  Definition inv1 : out := (11, RInvocation 1 24 [("progress", VBool true); ("procedure", vuri "p")] [vnat 1] []).
  Definition inv2 : out := (11, RInvocation 2 24 [("progress", VBool false); ("procedure", vuri "p")] [vnat 2] []).
  Definition inv1' : out := (11, RInvocation 1 24 [("progress", VBool false)] [vnat 3] []).
  Definition inv1'' : out := (11, RInvocation 1 25 [("progress", VBool false); ("procedure", vuri "p")] [vnat 4] []).

  Lemma invocations :
    filter (fun e => match e with EOut m => is_inv m | EIn (OJoin _ _ _) => true | EIn _ => false end)
           (trace cfg0 opsI) =
    [EIn (OJoin 10 false hello_all); EIn (OJoin 11 false hello_all);
     EOut inv1; EOut inv2; EOut inv1'; EIn (OJoin 11 false hello_all); EOut inv1''].
  Proof. vm_compute. reflexivity. Qed.

  (** the further chunk repeats an id sent before (second disjunct of the theorem) *)
  Lemma chunk_repeats : exists pre post, trace cfg0 opsI = pre ++ EOut inv1' :: post /\ inv_ev 11 1 (EOut inv1') /\ sent 11 1 pre.
  Proof.
    exists (firstn 9 (trace cfg0 opsI)), (skipn 10 (trace cfg0 opsI)).
    split; [vm_compute; reflexivity|]. split; [do 4 eexists; reflexivity|].
    exists (EOut inv1). split; [vm_compute; tauto|do 4 eexists; reflexivity].
  Qed.
End InvEx.

Module UnregEx.
  Definition cfg0 : config := mkConfig false false false true true false [] None.
  Definition rr : dict := [("invoke", vstr "roundrobin")].
  Definition chunkA := OMsg 10 (CCall 7 [("progress", VBool true)] "p" [vnat 1] []) 0.
  Definition chunkB := OMsg 10 (CCall 7 [] "p" [vnat 2] []) 0.
  Definition opsU : list op :=
    [OJoin 10 false hello_all; OJoin 11 false hello_all; OJoin 12 false hello_all;
     OMsg 11 (CRegister 1 rr "p") 0; OMsg 12 (CRegister 2 rr "p") 0;
     chunkA;
     OMsg 11 (CUnregister 3 24) 0;
     chunkB;
     OMsg 10 (CCall 8 [] "p" [vnat 3] []) 0].

  Lemma outs : snd (run (init_realm cfg0) opsU) =
    [[]; []; []; [(11, RRegistered 1 24)]; [(12, RRegistered 2 24)];
     [(11, RInvocation 1 24 [("progress", VBool true); ("procedure", vuri "p")] [vnat 1] [])];
     [(11, RUnregistered 3)];
     [(11, RInvocation 1 24 [("progress", VBool false)] [vnat 2] [])];      (* the further chunk: still to 11 *)
     [(12, RInvocation 1 24 [("progress", VBool false); ("procedure", vuri "p")] [vnat 3] [])]].   (* a new call: to 12 *)
  Proof. vm_compute. reflexivity. Qed.

  Lemma hyps : Forall op_ok opsU /\ k0 cfg0 + N.of_nat (List.length opsU) <= max_idN /\
               along gate_unreg_id (init_realm cfg0) opsU.
  Proof.
    split; [unfold opsU; ops_ok|]. split; [apply N.leb_le; reflexivity|].
    apply gate_unreg_id_no_authz. reflexivity.
  Qed.

  Definition preU : list event :=
    [EIn (OJoin 10 false hello_all); EIn (OJoin 11 false hello_all); EIn (OJoin 12 false hello_all);
     EIn (OMsg 11 (CRegister 1 rr "p") 0); EOut (11, RRegistered 1 24);
     EIn (OMsg 12 (CRegister 2 rr "p") 0); EOut (12, RRegistered 2 24);
     EIn chunkA; EOut (11, RInvocation 1 24 [("progress", VBool true); ("procedure", vuri "p")] [vnat 1] [])].

  (** UNREGISTERED, then an INVOCATION naming the registration, no REGISTERED in between *)
  Theorem invocation_after_unregistered :
    exists cfg ops y rid pre0 q orc mid b det a kw post,
      Forall op_ok ops /\ k0 cfg + N.of_nat (List.length ops) <= max_idN /\ c_authz cfg = None /\
      trace cfg ops = pre0 ++ EIn (OMsg y (CUnregister q rid) orc) :: EOut (y, RUnregistered q) ::
                      mid ++ EOut (y, RInvocation b rid det a kw) :: post /\
      forall q', ~ In (EOut (y, RRegistered q' rid)) mid.
  Proof.
    exists cfg0, opsU, 11, 24, preU, 3, 0, [EIn chunkB], 1, [("progress", VBool false)], [vnat 2], [].
    eexists.
    split; [unfold opsU; ops_ok|]. split; [apply N.leb_le; reflexivity|]. split; [reflexivity|].
    split; [vm_compute; reflexivity|]. intros q' [H|[]]. discriminate H.
  Qed.

  (** ... it repeats the id of the INVOCATION sent before the UNREGISTER *)
  Lemma is_further_chunk : sent 11 1 preU.
  Proof.
    exists (EOut (11, RInvocation 1 24 [("progress", VBool true); ("procedure", vuri "p")] [vnat 1] [])).
    split; [unfold preU; cbn; tauto|do 4 eexists; reflexivity].
  Qed.
End UnregEx.
