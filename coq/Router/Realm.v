(** * Realm model (router/realm.go): sessions, the meta session, meta
    procedures, testaments, the authorization gate and the big step
    [step : realm -> op -> realm * list out] that takes one client-side event
    and runs the router to quiescence.  Definitions only. *)
From Nexus Require Export Router.Dealer.

Record testament := mkTest { t_topic : string; t_args : list value; t_kw : dict; t_opts : dict }.

Record realm := mkRealm {
  r_cfg : config;
  r_clients : list session;       (* attached sessions, in join order *)
  r_meta : session;               (* the realm's internal meta session *)
  r_testaments : list (N * (list testament * list testament));   (* detached, destroyed *)
  r_broker : broker;
  r_dealer : dealer;
  r_metaprocs : list (N * string);   (* registration id -> meta procedure *)
  r_now : N;                      (* virtual clock, ms *)
  r_pubgen : N                    (* supply of fresh publication ids *)
}.

Definition r_set_clients r x := mkRealm (r_cfg r) x (r_meta r) (r_testaments r) (r_broker r) (r_dealer r) (r_metaprocs r) (r_now r) (r_pubgen r).
Definition r_set_meta r x := mkRealm (r_cfg r) (r_clients r) x (r_testaments r) (r_broker r) (r_dealer r) (r_metaprocs r) (r_now r) (r_pubgen r).
Definition r_set_testaments r x := mkRealm (r_cfg r) (r_clients r) (r_meta r) x (r_broker r) (r_dealer r) (r_metaprocs r) (r_now r) (r_pubgen r).
Definition r_set_broker r x g := mkRealm (r_cfg r) (r_clients r) (r_meta r) (r_testaments r) x (r_dealer r) (r_metaprocs r) (r_now r) g.
Definition r_set_dealer r x := mkRealm (r_cfg r) (r_clients r) (r_meta r) (r_testaments r) (r_broker r) x (r_metaprocs r) (r_now r) (r_pubgen r).
Definition r_set_metaprocs r x := mkRealm (r_cfg r) (r_clients r) (r_meta r) (r_testaments r) (r_broker r) (r_dealer r) x (r_now r) (r_pubgen r).
Definition r_set_now r x := mkRealm (r_cfg r) (r_clients r) (r_meta r) (r_testaments r) (r_broker r) (r_dealer r) (r_metaprocs r) x (r_pubgen r).

Fixpoint find_session (l : list session) (sid : N) : option session :=
  match l with
  | [] => None
  | s :: r => if N.eqb (s_id s) sid then Some s else find_session r sid
  end.
Fixpoint put_session (l : list session) (s : session) : list session :=
  match l with
  | [] => []
  | x :: r => if N.eqb (s_id x) (s_id s) then s :: r else x :: put_session r s
  end.
Definition del_session (l : list session) (sid : N) : list session :=
  filter (fun s => negb (N.eqb (s_id s) sid)) l.

Definition lookup (r : realm) (sid : N) : option session :=
  if N.eqb sid meta_id then Some (r_meta r) else find_session (r_clients r) sid.

Definition update_session (r : realm) (s : session) : realm :=
  if N.eqb (s_id s) meta_id then r_set_meta r s else r_set_clients r (put_session (r_clients r) s).

(** A PUBLISH issued by the meta session (meta events, testaments). *)
Definition meta_publish (r : realm) (mp : metapub) : realm * list out :=
  let '(b, pg, o) := publish (r_cfg r) (lookup r) (r_now r) (r_broker r) (r_pubgen r) (r_meta r) 0
                             (mp_opts mp) (mp_topic mp) (mp_args mp) (mp_kw mp) in
  (r_set_broker r b pg, o).

Definition meta_publish_all (r : realm) (mps : list metapub) : realm * list out :=
  fold_left (fun '((r, o) : realm * list out) mp => let '(r1, o1) := meta_publish r mp in (r1, o ++ o1)) mps (r, []).

(** cleanSessionDetails: in strict mode only the standard items; in every mode
    [transport.auth] is removed when it is a dict (the remaining transport
    details stay) *)
Definition std_items := ["session"; "authid"; "authrole"; "authmethod"; "authprovider"; "transport"].
Definition strip_transport_auth (d : dict) : dict :=
  match dget d "transport" with
  | Some (VDict td) =>
      match dget td "auth" with
      | Some (VDict _) => dset d "transport" (VDict (ddel td "auth"))
      | _ => d
      end
  | _ => d
  end.
Definition clean_details (cfg : config) (d : dict) : dict :=
  strip_transport_auth
    (if c_meta_strict cfg then filter (fun '((k, _) : string * value) => smem k std_items) d else d).

(** ** Session end (onLeave, not for realm shutdown) *)
Definition test_pubs (ts : list testament) : list metapub :=
  map (fun t => mkMetaPub (t_topic t) (t_args t) (t_kw t) (t_opts t)) ts.

Definition opt_val (d : dict) (k : string) : value := match dget d k with Some v => v | None => VNull end.

Definition leave (r : realm) (sid : N) : realm * list out :=
  match find_session (r_clients r) sid with
  | None => (r, [])
  | Some s =>
      let r1 := r_set_clients r (del_session (r_clients r) sid) in
      let tst := nget (r_testaments r1) sid in
      let r2 := r_set_testaments r1 (ndel (r_testaments r1) sid) in
      let '(d, o1, mps) := dealer_remove_session (lookup r2) (r_dealer r2) sid in
      let r3 := r_set_dealer r2 d in
      let '(b, pg, o2) := broker_remove_session (r_broker r3) (r_pubgen r3) sid in
      let r4 := r_set_broker r3 b pg in
      let tpubs := match tst with Some (det, des) => test_pubs det ++ test_pubs des | None => [] end in
      let '(r5, o3) := meta_publish_all r4
          (mps ++ tpubs ++ [mkMetaPub t_on_leave [vid sid; opt_val (s_details s) "authid"; opt_val (s_details s) "authrole"] [] []]) in
      (r5, o1 ++ o2 ++ o3)
  end.

Definition goodbye_msg (reason message : string) : rmsg :=
  RGoodbye (if nonempty message then [("message", vstr message)] else [])
           (if nonempty reason then reason else e_close_normal).

(** kill a list of sessions: GOODBYE to each, then each leaves *)
Definition kill_sessions (r : realm) (sids : list N) (g : rmsg) : realm * list out :=
  fold_left (fun '((r, o) : realm * list out) sid => let '(r1, o1) := leave r sid in (r1, o ++ [(sid, g)] ++ o1)) sids (r, []).

(** ** Meta procedures *)
Inductive mresp :=
| MYield (args : list value) (kw : dict)
| MError (err : string).

Definition arg0 (args : list value) : option value := nth_error args 0.
Definition arg1 (args : list value) : option value := nth_error args 1.
Definition arg2 (args : list value) : option value := nth_error args 2.

Definition role_filter (args : list value) : option (option (list string)) :=
  match arg0 args with
  | None => Some None
  | Some v => match as_list v with
              | None => None
              | Some l => match list_to_strings l with
                          | None => None
                          | Some [] => Some None
                          | Some f => Some (Some f)
                          end
              end
  end.

Definition role_selected (f : option (list string)) (s : session) : bool :=
  match f with None => true | Some roles => smem (attr_of (s_details s) "authrole") roles end.

Definition ids_value (l : list N) : value := VList (map vid l).

Definition kill_reason (kw : dict) : option (string * string) :=    (* reason, message; None = invalid_uri *)
  let reason := match dget kw "reason" with Some v => match as_string v with Some s => s | None => "" end | None => "" end in
  if nonempty reason && negb (valid_uri false "" reason) then None
  else Some (reason, opt_string kw "message").

Definition apply_delta (details delta : dict) : dict :=
  fold_left (fun d '((k, v) : string * value) => match v with VNull => ddel d k | _ => dset d k v end) delta details.

(** decimal milliseconds on the virtual clock stand for RFC3339 times *)
Fixpoint parse_dec_aux (s : string) (acc : N) : option N :=
  match s with
  | EmptyString => Some acc
  | String c r => let n := N_of_ascii c in
                  if (48 <=? n) && (n <=? 57) then parse_dec_aux r (acc * 10 + (n - 48)) else None
  end.
Definition parse_time (s : string) : option N :=
  match s with EmptyString => None | _ => parse_dec_aux s 0 end.

(** kw[k].(string) then time.Parse: None = invalid argument, Some None = absent *)
Definition time_arg (kw : dict) (k : string) : option (option N) :=
  match dget kw k with
  | Some (VStr SStr s) => match parse_time s with Some t => Some (Some t) | None => None end
  | _ => Some None
  end.
Definition pub_arg (kw : dict) (k : string) : option (option N) :=
  match dget kw k with
  | Some v => match as_id v with Some i => Some (Some i) | None => None end
  | None => Some None
  end.

Record hquery := mkHQ {
  q_limit : option N; q_reverse : bool;
  q_from_t : option N; q_after_t : option N; q_before_t : option N; q_until_t : option N;
  q_topic : string;
  q_from_p : option N; q_after_p : option N; q_before_p : option N; q_until_p : option N }.

Definition bind {A B} (o : option A) (f : A -> option B) : option B :=
  match o with Some a => f a | None => None end.

Definition parse_hquery (kw : dict) : option hquery :=
  bind (match dget kw "limit" with
        | None => Some None
        | Some v => match as_int64 v with
                    | Some i => if (1 <=? i)%Z then Some (Some (Z.to_N i)) else None
                    | None => None end
        end) (fun limit =>
  bind (match dget kw "reverse" with
        | None => Some false | Some (VBool b) => Some b | Some _ => None end) (fun reverse =>
  bind (time_arg kw "from_time") (fun ft =>
  bind (time_arg kw "after_time") (fun at_ =>
  bind (time_arg kw "before_time") (fun bt =>
  bind (time_arg kw "until_time") (fun ut =>
  bind (pub_arg kw "from_publication") (fun fp =>
  bind (pub_arg kw "after_publication") (fun ap =>
  bind (pub_arg kw "before_publication") (fun bp =>
  bind (pub_arg kw "until_publication") (fun up =>
  Some (mkHQ limit reverse ft at_ bt ut (opt_gostring kw "topic") fp ap bp up))))))))))).

(** the scan of subEventHistory; the mutable filter state is threaded *)
Record hscan := mkScan { sc_from : option N; sc_after : option N; sc_until_hit : bool; sc_stop : bool; sc_acc : list hentry }.

Definition opt_is (o : option N) (x : N) : bool := match o with Some y => N.eqb x y | None => false end.
Definition is_some {A} (o : option A) : bool := match o with Some _ => true | None => false end.

Definition hscan_step (q : hquery) (st : hscan) (e : hentry) : hscan :=
  if sc_stop st then st else
  let t := h_time e in
  if match q_from_t q with Some x => t <? x | None => false end then st else
  if match q_after_t q with Some x => t <=? x | None => false end then st else
  if match q_before_t q with Some x => x <=? t | None => false end then st else
  if match q_until_t q with Some x => x <? t | None => false end then st else
  if is_some (sc_from st) && negb (opt_is (sc_from st) (h_pub e)) then st else
  let st1 := mkScan None (sc_after st) (sc_until_hit st) false (sc_acc st) in
  if is_some (sc_after st1) then
    (if opt_is (sc_after st1) (h_pub e) then mkScan None None (sc_until_hit st1) false (sc_acc st1) else st1)
  else
  if opt_is (q_before_p q) (h_pub e) then mkScan None None (sc_until_hit st1) true (sc_acc st1) else
  if is_some (q_until_p q) && sc_until_hit st1 then mkScan None None true true (sc_acc st1) else
  let st2 := if opt_is (q_until_p q) (h_pub e) then mkScan None None true false (sc_acc st1) else st1 in
  let topic_ok := if nonempty (q_topic q)
                  then match dget (h_details e) "topic" with
                       | Some (VStr SURI s) => String.eqb s (q_topic q) | _ => false end
                  else true in
  if topic_ok then mkScan (sc_from st2) (sc_after st2) (sc_until_hit st2) false (sc_acc st2 ++ [e]) else st2.

Definition lastn {A} (n : N) (l : list A) : list A := skipn (List.length l - N.to_nat n) l.

Definition hquery_run (q : hquery) (entries : list hentry) : list hentry :=
  let st := fold_left (hscan_step q) entries (mkScan (q_from_p q) (q_after_p q) false false []) in
  let sel := sc_acc st in
  let lim := match q_limit q with Some n => lastn n sel | None => sel end in
  if q_reverse q then rev lim else lim.

Definition hentry_value (e : hentry) : value :=
  VDict [("Subscription", vid (h_sub e)); ("Publication", vid (h_pub e)); ("Details", VDict (h_details e));
         ("Arguments", VList (h_args e)); ("ArgumentsKw", VDict (h_kw e))].

Definition reg_ids_by (d : dealer) (k : mkind) : value := ids_value (map snd (d_map d k)).
Definition sub_ids_by (b : broker) (k : mkind) : value :=
  ids_value (flat_map (fun '((id, s) : N * subscription) => match mkind_of (sub_match s), k with
                                       | MExact, MExact | MPrefix, MPrefix | MWildcard, MWildcard => [id]
                                       | _, _ => [] end) (b_subs b)).

Definition lookup_opts (args : list value) : string :=
  match arg1 args with
  | Some v => match as_dict v with Some o => opt_string o "match" | None => "" end
  | None => ""
  end.

(** One meta procedure.  Returns the new realm, the response, and the sessions
    to kill with the GOODBYE to send them. *)
Definition meta_call (r : realm) (proc : string) (details : dict) (args : list value) (kw : dict) (oracle : N)
  : realm * mresp * option (list N * rmsg) :=
  let caller := match dget details "caller" with Some v => as_id v | None => None end in
  let caller0 := match caller with Some c => c | None => 0 end in
  let b := r_broker r in
  let d := r_dealer r in
  let ret (m : mresp) := (r, m, None) in
  if String.eqb proc "wamp.session.count" then
    match role_filter args with
    | None => ret (MError e_invalid_argument)
    | Some f => ret (MYield [vnat (N.of_nat (List.length (filter (role_selected f) (r_clients r))))] [])
    end
  else if String.eqb proc "wamp.session.list" then
    match role_filter args with
    | None => ret (MError e_invalid_argument)
    | Some f => ret (MYield [ids_value (map s_id (filter (role_selected f) (r_clients r)))] [])
    end
  else if String.eqb proc "wamp.session.get" then
    match bind (arg0 args) as_id with
    | None => ret (MError e_no_such_session)
    | Some sid => match find_session (r_clients r) sid with
                  | None => ret (MError e_no_such_session)
                  | Some s => ret (MYield [VDict (clean_details (r_cfg r) (s_details s))] [])
                  end
    end
  else if String.eqb proc "wamp.session.kill" then
    match bind (arg0 args) as_id with
    | None => ret (MError e_no_such_session)
    | Some sid =>
        if N.eqb caller0 sid then ret (MError e_no_such_session)
        else match kill_reason kw with
             | None => ret (MError e_invalid_uri)
             | Some (reason, message) =>
                 match find_session (r_clients r) sid with
                 | None => ret (MError e_no_such_session)
                 | Some _ => (r, MYield [] [], Some ([sid], goodbye_msg reason message))
                 end
             end
    end
  else if String.eqb proc "wamp.session.kill_by_authid" || String.eqb proc "wamp.session.kill_by_authrole" then
    let key := if String.eqb proc "wamp.session.kill_by_authid" then "authid" else "authrole" in
    match bind (arg0 args) as_string with
    | None => ret (MError e_no_such_session)
    | Some val =>
        match kill_reason kw with
        | None => ret (MError e_invalid_uri)
        | Some (reason, message) =>
            let victims := filter (fun s => negb (N.eqb (s_id s) caller0) &&
                                            match bind (dget (s_details s) key) as_string with
                                            | Some x => String.eqb x val | None => false end) (r_clients r) in
            (r, MYield [vnat (N.of_nat (List.length victims))] [], Some (map s_id victims, goodbye_msg reason message))
        end
    end
  else if String.eqb proc "wamp.session.kill_all" then
    match kill_reason kw with
    | None => ret (MError e_invalid_uri)
    | Some (reason, message) =>
        let victims := filter (fun s => negb (N.eqb (s_id s) caller0)) (r_clients r) in
        let g := match goodbye_msg reason message with
                 | RGoodbye dd rr => RGoodbye (dset dd "all" VNull) rr | m => m end in
        (r, MYield [vnat (N.of_nat (List.length victims))] [], Some (map s_id victims, g))
    end
  else if String.eqb proc "wamp.session.modify_details" then
    match arg0 args, arg1 args with
    | Some a0, Some a1 =>
        match as_id a0 with
        | None => ret (MError e_invalid_argument)
        | Some sid =>
            if N.eqb sid meta_id then ret (MError e_no_such_session)
            else match as_dict a1 with
                 | None => ret (MError e_invalid_argument)
                 | Some delta =>
                     if dhas delta "session" then ret (MError e_invalid_argument)
                     else match find_session (r_clients r) sid with
                          | None => ret (MError e_no_such_session)
                          | Some s => (update_session r (set_details s (apply_delta (s_details s) delta)), MYield [] [], None)
                          end
                 end
        end
    | _, _ => ret (MError e_invalid_argument)
    end
  else if String.eqb proc "wamp.registration.list" then
    ret (MYield [VDict [("exact", reg_ids_by d MExact); ("prefix", reg_ids_by d MPrefix); ("wildcard", reg_ids_by d MWildcard)]] [])
  else if String.eqb proc "wamp.registration.lookup" then
    match bind (arg0 args) as_string with
    | None => ret (MYield [vid 0] [])
    | Some p => ret (MYield [vid (match sget (d_map d (mkind_of (lookup_opts args))) p with Some id => id | None => 0 end)] [])
    end
  else if String.eqb proc "wamp.registration.match" then
    match bind (arg0 args) as_string with
    | None => ret (MYield [vid 0] [])
    | Some p => ret (MYield [vid (match match_procedure d p oracle with Some rg => reg_id rg | None => 0 end)] [])
    end
  else if String.eqb proc "wamp.registration.get" then
    match bind (bind (arg0 args) as_id) (nget (d_regs d)) with
    | None => ret (MError e_no_such_registration)
    | Some rg => ret (MYield [reg_dict rg] [])
    end
  else if String.eqb proc "wamp.registration.list_callees" then
    match bind (bind (arg0 args) as_id) (nget (d_regs d)) with
    | None => ret (MError e_no_such_registration)
    | Some rg => ret (MYield [ids_value (reg_callees rg)] [])
    end
  else if String.eqb proc "wamp.registration.count_callees" then
    match bind (bind (arg0 args) as_id) (nget (d_regs d)) with
    | None => ret (MError e_no_such_registration)
    | Some rg => ret (MYield [vnat (N.of_nat (List.length (reg_callees rg)))] [])
    end
  else if String.eqb proc "wamp.subscription.list" then
    ret (MYield [VDict [("exact", sub_ids_by b MExact); ("prefix", sub_ids_by b MPrefix); ("wildcard", sub_ids_by b MWildcard)]] [])
  else if String.eqb proc "wamp.subscription.lookup" then
    match bind (arg0 args) as_string with
    | None => ret (MYield [vid 0] [])
    | Some t => ret (MYield [vid (match sget (b_map b (mkind_of (lookup_opts args))) t with Some id => id | None => 0 end)] [])
    end
  else if String.eqb proc "wamp.subscription.match" then
    match bind (arg0 args) as_string with
    | None => ret (MYield [VList []] [])
    | Some t => ret (MYield [ids_value (map (fun '((s, _) : subscription * bool) => sub_id s) (matching_subs b t))] [])
    end
  else if String.eqb proc "wamp.subscription.get" then
    match bind (bind (arg0 args) as_id) (nget (b_subs b)) with
    | None => ret (MError e_no_such_subscription)
    | Some s => ret (MYield [sub_dict s] [])
    end
  else if String.eqb proc "wamp.subscription.list_subscribers" then
    match bind (bind (arg0 args) as_id) (nget (b_subs b)) with
    | None => ret (MError e_no_such_subscription)
    | Some s => ret (MYield [ids_value (sub_subs s)] [])
    end
  else if String.eqb proc "wamp.subscription.count_suscribers" then
    match bind (bind (arg0 args) as_id) (nget (b_subs b)) with
    | None => ret (MError e_no_such_subscription)
    | Some s => ret (MYield [vnat (N.of_nat (List.length (sub_subs s)))] [])
    end
  else if String.eqb proc "wamp.subscription.get_events" then
    match bind (arg0 args) as_id with
    | None => ret (MError e_invalid_argument)
    | Some subid =>
        match parse_hquery kw with
        | None => ret (MError e_invalid_argument)
        | Some q =>
            match (if amem N.eqb (b_subs b) subid then nget (b_hist b) subid else None) with
            | None => ret (MYield [] [("is_limit_reached", VBool false)])
            | Some st =>
                ret (MYield (map hentry_value (hquery_run q (hs_entries st)))
                            [("is_limit_reached", VBool (hs_limit st <=? N.of_nat (List.length (hs_entries st))))])
            end
        end
    end
  else if String.eqb proc "wamp.session.add_testament" then
    match caller, arg0 args, arg1 args, arg2 args with
    | Some c, Some a0, Some a1, Some a2 =>
        match as_string a0, as_list a1, as_dict a2 with
        | Some topic, Some targs, Some tkw =>
            let opts := match bind (dget kw "publish_options") as_dict with Some o => o | None => [] end in
            let scope := match bind (dget kw "scope") as_string with Some "" => "destroyed" | Some s => s | None => "destroyed" end in
            if negb (String.eqb scope "destroyed" || String.eqb scope "detached") then ret (MError e_invalid_argument)
            else
              let '(det, des) := match nget (r_testaments r) c with Some p => p | None => ([], []) end in
              let t := mkTest topic targs tkw opts in
              let p := if String.eqb scope "destroyed" then (det, des ++ [t]) else (det ++ [t], des) in
              (r_set_testaments r (nset (r_testaments r) c p), MYield [] [], None)
        | _, _, _ => ret (MError e_invalid_argument)
        end
    | _, _, _, _ => ret (MError e_invalid_argument)
    end
  else if String.eqb proc "wamp.session.flush_testaments" then
    match caller with
    | None => ret (MError e_invalid_argument)
    | Some c =>
        let scope := match bind (dget kw "scope") as_string with Some "" => "destroyed" | Some s => s | None => "destroyed" end in
        if negb (String.eqb scope "destroyed" || String.eqb scope "detached") then ret (MError e_invalid_argument)
        else match nget (r_testaments r) c with
             | None => ret (MYield [] [])
             | Some (det, des) =>
                 let p := if String.eqb scope "destroyed" then (det, []) else ([], des) in
                 match p with
                 | ([], []) => (r_set_testaments r (ndel (r_testaments r) c), MYield [] [], None)
                 | _ => (r_set_testaments r (nset (r_testaments r) c p), MYield [] [], None)
                 end
             end
    end
  else ret (MError e_no_such_procedure).

(** ** Realm creation *)
Definition meta_proc_names (cfg : config) : list string :=
  ["wamp.session.count"; "wamp.session.list"; "wamp.session.get"]
  ++ (if c_meta_kill cfg then ["wamp.session.kill"; "wamp.session.kill_by_authid";
                               "wamp.session.kill_by_authrole"; "wamp.session.kill_all"] else [])
  ++ (if c_meta_modify cfg then ["wamp.session.modify_details"] else [])
  ++ ["wamp.registration.list"; "wamp.registration.lookup"; "wamp.registration.match";
      "wamp.registration.get"; "wamp.registration.list_callees"; "wamp.registration.count_callees";
      "wamp.subscription.list"; "wamp.subscription.lookup"; "wamp.subscription.match";
      "wamp.subscription.get"; "wamp.subscription.list_subscribers"; "wamp.subscription.count_suscribers";
      "wamp.subscription.get_events"; "wamp.session.add_testament"; "wamp.session.flush_testaments"].

(** the meta session announces payload passthru mode as a publisher: it
    publishes the testaments of departed clients with THEIR publish options *)
Definition meta_hello : dict :=
  [("roles", VDict [("publisher", VDict [("features", VDict [(f_ppt, VBool true)])])])].
Definition meta_session : session := mkSession meta_id true meta_hello [("authrole", vstr "trusted")] 0.

Definition init_realm (cfg : config) : realm :=
  let b := preinit_history empty_broker (c_hist cfg) in
  let '(d, procs) :=
    fold_left (fun '((d, procs) : dealer * list (N * string)) name =>
      let '(d1, o, _) := register cfg d meta_session (N.of_nat (List.length procs) + 1) [("disclose_caller", VBool true)] name in
      match o with
      | [(_, RRegistered _ id)] => (d1, procs ++ [(id, name)])
      | _ => (d1, procs)
      end) (meta_proc_names cfg) (empty_dealer, []) in
  mkRealm cfg [] meta_session [] b d procs 0 0.

(** ** The step *)
Inductive op :=
| OJoin (sid : N) (local : bool) (hello : dict)
| OMsg (sid : N) (m : cmsg) (oracle : N)
| ODrop (sid : N)                     (* transport lost *)
| OTick (ms : N).                     (* virtual time passes *)

Definition gen_authid := "<gen>".

Definition join_details (sid : N) (local : bool) (hello : dict) : dict :=
  let base := filter (fun '((k, _) : string * value) => negb (String.eqb k "authmethods" || String.eqb k "roles")) hello in
  let welcome :=
    if local then
      let a := opt_string hello "authid" in
      [("authid", vstr (if nonempty a then a else gen_authid)); ("authrole", vstr "trusted");
       ("authmethod", vstr "local"); ("authprovider", vstr "static")]
    else
      [("authid", vstr gen_authid); ("authrole", vstr "anonymous");
       ("authprovider", vstr "static"); ("authmethod", vstr "anonymous")] in
  dset (dmerge base welcome) "session" (vid sid).

Definition has_role (hello : dict) : bool :=
  match dget hello "roles" with
  | Some (VDict roles) => existsb (fun k => dhas roles k) ["publisher"; "subscriber"; "callee"; "caller"]
  | _ => false
  end.

Definition join (r : realm) (sid : N) (local : bool) (hello : dict) : realm * list out :=
  if negb (has_role hello) || is_some (lookup r sid) then (r, [])
  else
    let s := mkSession sid local hello (join_details sid local hello) 0 in
    let r1 := r_set_clients r (r_clients r ++ [s]) in
    meta_publish r1 (mkMetaPub t_on_join [VDict (clean_details (r_cfg r) (s_details s))] [] []).

Definition req_of (m : cmsg) : N :=
  match m with
  | CPublish q _ _ _ _ | CSubscribe q _ _ | CUnsubscribe q _ | CRegister q _ _ | CUnregister q _
  | CCall q _ _ _ _ | CCancel q _ | CYield q _ _ _ => q
  | _ => 0
  end.

(** authzMessage *)
Definition gate (r : realm) (s : session) (m : cmsg) : cmsg + list out :=
  match c_authz (r_cfg r) with
  | None => inl m
  | Some f =>
      if s_local s && negb (c_local_authz (r_cfg r)) then inl m
      else match f (s_id s) (s_local s) (s_details s) m with
           | AAllow m' => inl m'
           | ADeny =>
               inr (match m with
                    | CPublish _ opts _ _ _ => if opt_bool opts "acknowledge"
                                               then [(s_id s, RError (cmsg_code m) (req_of m) [] e_not_authorized [] [])] else []
                    | _ => [(s_id s, RError (cmsg_code m) (req_of m) [] e_not_authorized [] [])]
                    end)
           | AFail =>
               inr (match m with
                    | CPublish _ opts _ _ _ => if opt_bool opts "acknowledge"
                                               then [(s_id s, RError (cmsg_code m) (req_of m) [] e_authz_failed [vstr "<text>"] [])] else []
                    | _ => [(s_id s, RError (cmsg_code m) (req_of m) [] e_authz_failed [vstr "<text>"] [])]
                    end)
           end
  end.

(** answer of the meta session to an INVOCATION it was sent *)
Definition run_meta_invocation (r : realm) (o : list out) (oracle : N) : realm * list out :=
  match o with
  | [(rcv, RInvocation invid regid details args kw)] =>
      if negb (N.eqb rcv meta_id) then (r, o)
      else
        match nget (r_metaprocs r) regid with
        | None =>
            let '(d, o1) := sync_error (r_dealer r) meta_id invid [] e_no_such_procedure [] [] in
            (r_set_dealer r d, o1)
        | Some proc =>
            let '(r1, resp, kills) := meta_call r proc details args kw oracle in
            let '(d, o1) :=
              match resp with
              | MYield a k => sync_yield (lookup r1) (r_dealer r1) meta_id invid [] a k
              | MError e => sync_error (r_dealer r1) meta_id invid [] e [] []
              end in
            let r2 := r_set_dealer r1 d in
            match kills with
            | None => (r2, o1)
            | Some (sids, g) => let '(r3, o2) := kill_sessions r2 sids g in (r3, o1 ++ o2)
            end
        end
  | _ => (r, o)
  end.

Definition abort_violation : rmsg := RAbort [("message", vstr "<text>")] e_protocol_violation.

Definition handle (r : realm) (s : session) (m : cmsg) (oracle : N) : realm * list out :=
  let sid := s_id s in
  match m with
  | CPublish req opts topic args kw =>
      let '(b, pg, o) := publish (r_cfg r) (lookup r) (r_now r) (r_broker r) (r_pubgen r) s req opts topic args kw in
      if publish_aborts (r_cfg r) s opts topic then
        (* protocol violation: ABORT was sent, the session ends *)
        let '(r1, o1) := leave r sid in (r1, o ++ o1)
      else (r_set_broker r b pg, o)
  | CSubscribe req opts topic =>
      let '(b, pg, o) := subscribe (r_cfg r) (r_broker r) (r_pubgen r) sid req opts topic in
      (r_set_broker r b pg, o)
  | CUnsubscribe req subid =>
      let '(b, pg, o) := unsubscribe (r_broker r) (r_pubgen r) sid req subid in
      (r_set_broker r b pg, o)
  | CRegister req opts proc =>
      let '(d, o, mps) := register (r_cfg r) (r_dealer r) s req opts proc in
      let '(r1, o1) := meta_publish_all (r_set_dealer r d) mps in
      (r1, o ++ o1)
  | CUnregister req regid =>
      let '(d, o, mps) := unregister (r_dealer r) sid req regid in
      let '(r1, o1) := meta_publish_all (r_set_dealer r d) mps in
      (r1, o ++ o1)
  | CCall req opts proc args kw =>
      match call (r_cfg r) (lookup r) (r_now r) (r_dealer r) s req opts proc args kw oracle with
      | CallRefused d o => (r_set_dealer r d, o)
      | CallAbort o =>
          (* the round-robin cursor may have moved before the violation was found *)
          let ra := r_set_dealer r (call_abort_dealer (lookup r) (r_dealer r) s req opts proc oracle) in
          let '(r1, o1) := leave ra sid in (r1, o ++ o1)
      | CallInvoked d callee o =>
          let r1 := update_session (r_set_dealer r d) callee in
          run_meta_invocation r1 o oracle
      end
  | CCancel req opts =>
      let '(d, o) := cancel (lookup r) (r_dealer r) sid req opts in
      (r_set_dealer r d, o)
  | CYield req opts args kw =>
      let '(d, o) := sync_yield (lookup r) (r_dealer r) sid req opts args kw in
      if yield_aborts (lookup r) (r_dealer r) sid req opts then
        let '(r1, o1) := leave (r_set_dealer r d) sid in (r1, o ++ o1)
      else (r_set_dealer r d, o)
  | CError ty req details err args kw =>
      if negb (N.eqb ty c_INVOCATION) then
        let '(r1, o1) := leave r sid in (r1, (sid, abort_violation) :: o1)
      else
        let '(d, o) := sync_error (r_dealer r) sid req details err args kw in
        (r_set_dealer r d, o)
  | CGoodbye _ _ =>
      let '(r1, o1) := leave r sid in (r1, (sid, RGoodbye [] e_goodbye_and_out) :: o1)
  | COther _ =>
      let '(r1, o1) := leave r sid in (r1, (sid, abort_violation) :: o1)
  end.

Definition step (r : realm) (o : op) : realm * list out :=
  match o with
  | OJoin sid local hello => join r sid local hello
  | OMsg sid m oracle =>
      match find_session (r_clients r) sid with
      | None => (r, [])
      | Some s =>
          match gate r s m with
          | inr o => (r, o)
          | inl m' => handle r s m' oracle
          end
      end
  | ODrop sid => leave r sid
  | OTick ms =>
      let r1 := r_set_now r (r_now r + ms) in
      let '(d, o) := fire_timers (lookup r1) (r_now r1) (r_dealer r1) in
      (r_set_dealer r1 d, o)
  end.

Definition run (r : realm) (ops : list op) : realm * list (list out) :=
  fold_left (fun '((r, acc) : realm * list (list out)) o => let '(r1, out1) := step r o in (r1, acc ++ [out1])) ops (r, []).

(** table sizes, for the comparison with the [verif] snapshot hook (C05) *)
Definition sizes (r : realm) : list N :=
  let n {A} (l : list A) := N.of_nat (List.length l) in
  [n (r_clients r); n (r_testaments r);
   n (b_exact (r_broker r)); n (b_pfx (r_broker r)); n (b_wc (r_broker r)); n (b_subs (r_broker r));
   n (b_sess (r_broker r)); n (b_hist (r_broker r));
   n (d_exact (r_dealer r)); n (d_pfx (r_dealer r)); n (d_wc (r_dealer r)); n (d_regs (r_dealer r));
   n (d_calls (r_dealer r)); n (d_invs (r_dealer r)); n (d_bycall (r_dealer r)); n (d_callee_regs (r_dealer r))].
