(** * Realm-level proofs, part 6: the C05 theorems (ending a session removes
    all of its effects and state) and the C18 statements that need the
    reachable-state invariant. *)
From Nexus Require Import Router.Realm Router.AssocLemmas Router.RealmLib Router.RealmProofs
     Router.RealmMetaProofs Router.RealmLeave.
From Nexus Require Import Router.BrokerWf Router.BrokerPres Router.BrokerSub.
From Nexus Require Import Router.DealerLib Router.DealerProofs Router.DealerCall Router.DealerWf
     Router.DealerWfCalls Router.DealerWfRegs Router.DealerRemove.
From Nexus Require Import Router.RealmWf Router.RealmStep.
From Coq Require Import Lia ZifyN ZifyNat ZifyBool.

(** ** In a well-formed realm a session that is not attached is in no table *)
Lemma attached_cases : forall r x, attached (lookup r) x -> x = meta_id \/ client r x.
Proof.
  intros r x H. unfold attached, lookup in H. destruct (N.eqb_spec x meta_id); [now left|now right].
Qed.

Theorem wf_not_client_nowhere : forall r sid,
    realm_wf r -> ~ client r sid -> sid <> meta_id -> nowhere r sid.
Proof.
  intros r sid W Hn Hm.
  assert (Hat : forall x, attached (lookup r) x -> x <> sid).
  { intros x H ->. destruct (attached_cases r sid H); [contradiction|contradiction]. }
  pose proof (rw_dealer r W) as Wd. pose proof (wf_calls _ _ Wd) as Wc. pose proof (wf_calls_att _ _ Wd) as Wa.
  unfold nowhere. repeat match goal with |- _ /\ _ => split end.
  - unfold client in Hn. destruct (find_session (r_clients r) sid); [exfalso; apply Hn; discriminate|reflexivity].
  - destruct (nget (r_testaments r) sid) eqn:E; [|reflexivity]. exfalso. apply Hn, (rw_test_att r W). congruence.
  - destruct (nget (b_sess (r_broker r)) sid) eqn:E; [|reflexivity]. exfalso. apply Hn, (rw_sess_att r W). congruence.
  - intros id s Hs Hin.
    assert (Hh : sub_has (b_subs (r_broker r)) id sid) by (exists s; auto).
    apply (wf_rel _ (rw_broker r W)) in Hh. destruct Hh as (ids & E & _).
    apply Hn, (rw_sess_att r W). congruence.
  - destruct (nget (d_callee_regs (r_dealer r)) sid) as [ids|] eqn:E; [|reflexivity]. exfalso.
    pose proof (rw_cr_nonempty r W sid ids E) as Hne. destruct ids as [|id ids]; [congruence|].
    assert (Hin : In id (callee_reg_ids (r_dealer r) sid)) by (unfold callee_reg_ids; rewrite E; now left).
    apply (wf_cr _ _ Wd sid id) in Hin. destruct Hin as (rg & Hr & Hc).
    eapply Hat; [eapply (wf_regs_att _ _ Wd); eauto|reflexivity].
  - intros id rg Hr Hc. eapply Hat; [eapply (wf_regs_att _ _ Wd); eauto|reflexivity].
  - intros c x Hc. destruct (cw_call _ Wc _ _ Hc) as (-> & _).
    assert (fst c <> sid) by (eapply Hat; eapply (ca_call _ _ Wa); eauto). auto.
  - intros c q Hb. destruct (cw_bycall _ Wc _ _ Hb) as (inv & Hi & _).
    pose proof (cw_bycall_call _ Wc _ _ Hb) as Hcall.
    destruct (cget (d_calls (r_dealer r)) c) as [x|] eqn:Ec; [|congruence].
    split; [eapply Hat; eapply (ca_call _ _ Wa); eauto|].
    destruct (ca_inv _ _ Wa _ _ Hi) as (s & Hs & _). apply Hat. unfold attached. congruence.
  - intros q inv Hi. destruct (cw_inv _ Wc _ _ Hi) as (Hb & He).
    destruct (ca_inv _ _ Wa _ _ Hi) as (s & Hs & _).
    assert (Hq : fst q <> sid) by (apply Hat; unfold attached; congruence).
    split; [exact Hq|]. split; [congruence|].
    pose proof (cw_bycall_call _ Wc _ _ Hb) as Hcall.
    destruct (cget (d_calls (r_dealer r)) (inv_call inv)) as [x|] eqn:Ec; [|congruence].
    eapply Hat; eapply (ca_call _ _ Wa); eauto.
Qed.

(** ** no_ref_after_leave, for every way a session can end: whatever the
    operation, a session that was attached before it and is not after it is in
    no table of the realm. *)
Theorem no_ref_after_end : forall r o k sid,
    realm_wf r -> ids_below k r -> k < max_idN -> op_ok o ->
    client r sid -> ~ client (fst (step r o)) sid ->
    nowhere (fst (step r o)) sid.
Proof.
  intros r o k sid W I Hk Ho C Hn.
  destruct (step_wf r o k W I Hk Ho) as [W' _].
  apply wf_not_client_nowhere; auto.
  intros ->. apply C. apply (rw_no_meta r W).
Qed.

Theorem no_ref_after_leave : forall r sid k,
    realm_wf r -> ids_below k r -> client r sid -> nowhere (fst (leave r sid)) sid.
Proof. intros r sid k W I C. destruct (leave_wf r sid k W I) as (_ & _ & H). auto. Qed.

(** the operations that end a session do detach it *)
Lemma leave_detaches : forall r sid, ~ client (fst (leave r sid)) sid.
Proof.
  intros r sid. unfold client. destruct (leave_frame r sid) as (_ & E & _). rewrite E, find_del_same. auto.
Qed.

Theorem drop_detaches : forall r sid, ~ client (fst (step r (ODrop sid))) sid.
Proof. intros; apply leave_detaches. Qed.

Theorem goodbye_detaches : forall r s det reason oracle,
    ~ client (fst (handle r s (CGoodbye det reason) oracle)) (s_id s).
Proof.
  intros. cbn [handle]. pose proof (leave_detaches r (s_id s)) as L.
  destruct (leave r (s_id s)). exact L.
Qed.

Theorem violation_detaches : forall r s code oracle,
    ~ client (fst (handle r s (COther code) oracle)) (s_id s).
Proof.
  intros. cbn [handle]. pose proof (leave_detaches r (s_id s)) as L.
  destruct (leave r (s_id s)). exact L.
Qed.

Theorem publish_ppt_violation_detaches : forall r s req opts topic args kw oracle,
    publish_aborts (r_cfg r) s opts topic = true ->
    ~ client (fst (handle r s (CPublish req opts topic args kw) oracle)) (s_id s).
Proof.
  intros r s req opts topic args kw oracle H. cbn [handle].
  destruct (publish _ _ _ _ _ _ _ _ _ _ _) as [[b pg] o]. rewrite H.
  pose proof (leave_detaches r (s_id s)) as L. destruct (leave r (s_id s)). exact L.
Qed.

Theorem yield_ppt_violation_detaches : forall r s req opts args kw oracle,
    yield_aborts (lookup r) (r_dealer r) (s_id s) req opts = true ->
    ~ client (fst (handle r s (CYield req opts args kw) oracle)) (s_id s).
Proof.
  intros r s req opts args kw oracle H. cbn [handle].
  destruct (sync_yield _ _ _ _ _ _ _) as [d o]. rewrite H.
  pose proof (leave_detaches (r_set_dealer r d) (s_id s)) as L. destruct (leave (r_set_dealer r d) (s_id s)). exact L.
Qed.

Theorem kill_detaches : forall sids r g x,
    In x sids -> ~ client (fst (kill_sessions r sids g)) x.
Proof.
  intros sids r g x Hx. unfold client.
  destruct (kill_sessions_exact sids r g) as (E & _). cbv zeta in E.
  intros H. apply H. apply find_session_None. rewrite E. intros Hin. apply filter_In in Hin.
  destruct Hin as [_ Hb]. apply nmem_In in Hx. rewrite Hx in Hb. discriminate.
Qed.

(** ** served_calls_error / own_calls_abandoned *)
Lemma leave_dealer_outputs : forall r sid s,
    find_session (r_clients r) sid = Some s ->
    let r2 := r_set_testaments (r_set_clients r (del_session (r_clients r) sid))
                               (ndel (r_testaments r) sid) in
    forall m, In m (snd (fst (dealer_remove_session (lookup r2) (r_dealer r) sid))) -> In m (snd (leave r sid)).
Proof.
  intros r sid s F r2 m Hm. unfold leave. rewrite F.
  cbn [r_testaments r_set_clients r_set_testaments r_dealer].
  fold r2. change (r_dealer r2) with (r_dealer r).
  destruct (dealer_remove_session (lookup r2) (r_dealer r) sid) as [[d o1] mps]. cbn [fst snd] in Hm.
  destruct (broker_remove_session _ _ _) as [[b pg] o2].
  destruct (meta_publish_all _ _) as [r5 o3]. cbn [snd]. apply in_or_app. now left.
Qed.

Theorem served_calls_error : forall r sid k inv,
    realm_wf r -> client r sid ->
    cget (d_invs (r_dealer r)) k = Some inv -> inv_callee inv = sid ->
    In (fst (inv_call inv), RError c_CALL (snd (inv_call inv)) [] e_canceled [vstr "callee gone"] [])
       (snd (leave r sid)).
Proof.
  intros r sid k inv W C Hi Hc.
  destruct (find_session (r_clients r) sid) as [s|] eqn:F; [|exfalso; apply C; exact F].
  eapply leave_dealer_outputs; [exact F|].
  set (r2 := r_set_testaments (r_set_clients r (del_session (r_clients r) sid)) (ndel (r_testaments r) sid)).
  assert (Hsame : forall x, x <> sid -> lookup r2 x = lookup r x).
  { intros x Hx. unfold r2. now apply lookup_del_other. }
  destruct (prompt_callee_gone_proof (lookup r) (lookup r2) (lookup r2) (r_dealer r) sid (rw_dealer r W) Hsame k inv Hi Hc) as [M _].
  exact M.
Qed.

(** the dealer's direct outputs at a departure are those errors only: no
    message to the callees of the leaver's own pending calls *)
Theorem leave_dealer_outputs_only_errors : forall r sid m,
    realm_wf r -> client r sid ->
    let r2 := r_set_testaments (r_set_clients r (del_session (r_clients r) sid))
                               (ndel (r_testaments r) sid) in
    In m (snd (fst (dealer_remove_session (lookup r2) (r_dealer r) sid))) ->
    exists k inv, cget (d_invs (r_dealer r)) k = Some inv /\ inv_callee inv = sid /\
                  m = (fst (inv_call inv), RError c_CALL (snd (inv_call inv)) [] e_canceled [vstr "callee gone"] []).
Proof.
  intros r sid m W C r2 Hm.
  assert (Hsame : forall x, x <> sid -> lookup r2 x = lookup r x).
  { intros x Hx. unfold r2. now apply lookup_del_other. }
  destruct (remove_session_outputs_proof (lookup r) (lookup r2) (lookup r2) (r_dealer r) sid (rw_dealer r W) Hsame m Hm)
    as (k & inv & Hi & Hc & _ & Em).
  exists k, inv. auto.
Qed.

Theorem own_calls_abandoned : forall r sid k0 callee q inv opts args kw,
    realm_wf r -> ids_below k0 r -> client r sid ->
    cget (d_invs (r_dealer r)) (callee, q) = Some inv -> fst (inv_call inv) = sid ->
    let r' := fst (leave r sid) in
    (forall inv', cget (d_invs (r_dealer r')) (callee, q) = Some inv' -> fst (inv_call inv') <> sid) /\
    cget (d_calls (r_dealer r')) (inv_call inv) = None /\
    cget (d_bycall (r_dealer r')) (inv_call inv) = None /\
    (cget (d_invs (r_dealer r')) (callee, q) = None ->
     forall lk, sync_yield lk (r_dealer r') callee q opts args kw =
     (r_dealer r', if opt_bool opts "progress" then [(callee, RInterrupt q [("mode", vstr "killnowait")])] else [])).
Proof.
  intros r sid k0 callee q inv opts args kw W I C Hi Hs r'. subst r'.
  destruct (leave_wf r sid k0 W I) as (_ & _ & N). specialize (N C).
  destruct N as (_ & _ & _ & _ & _ & _ & N7 & N8 & N9).
  repeat match goal with |- _ /\ _ => split end.
  - intros inv' H. apply (N9 _ _ H).
  - destruct (cget (d_calls (r_dealer (fst (leave r sid)))) (inv_call inv)) eqn:E; [|reflexivity].
    destruct (N7 _ _ E) as [H _]. congruence.
  - destruct (cget (d_bycall (r_dealer (fst (leave r sid)))) (inv_call inv)) eqn:E; [|reflexivity].
    destruct (N8 _ _ E) as [H _]. congruence.
  - intros H lk. now apply sync_yield_unknown.
Qed.

(** ** empty_when_idle (partial: the session-indexed and call tables) *)
Lemma no_keys_nil : forall {K V} (eqb : K -> K -> bool), (forall k, eqb k k = true) ->
    forall l : list (K * V), (forall k, aget eqb l k = None) -> l = [].
Proof.
  intros K V eqb Hr l H. destruct l as [|[k v] l]; [reflexivity|].
  specialize (H k). cbn in H. rewrite Hr in H. discriminate.
Qed.

Theorem empty_when_idle_partial : forall r,
    realm_wf r -> r_clients r = [] ->
    r_testaments r = [] /\ b_sess (r_broker r) = [] /\
    d_calls (r_dealer r) = [] /\ d_bycall (r_dealer r) = [] /\ d_invs (r_dealer r) = [] /\
    (List.length (d_callee_regs (r_dealer r)) <= 1)%nat /\
    (forall id s, nget (b_subs (r_broker r)) id = Some s -> sub_subs s = []) /\
    (forall id rg, nget (d_regs (r_dealer r)) id = Some rg -> reg_callees rg = [meta_id]).
Proof.
  intros r W Hc.
  assert (Hno : forall x, ~ client r x) by (intros x H; apply H; rewrite Hc; reflexivity).
  pose proof (rw_dealer r W) as Wd. pose proof (wf_calls _ _ Wd) as Wc. pose proof (wf_calls_att _ _ Wd) as Wa.
  assert (Hcalls : d_calls (r_dealer r) = []).
  { apply (no_keys_nil pair_eqb pair_eqb_refl). intros c.
    destruct (cget (d_calls (r_dealer r)) c) as [x|] eqn:E; [|exact E]. exfalso.
    destruct (attached_cases r (fst c)); [eapply (ca_call _ _ Wa); eauto| |eapply Hno; eauto].
    eapply (rw_calls_nometa r W); eauto. }
  assert (Hby : d_bycall (r_dealer r) = []).
  { apply (no_keys_nil pair_eqb pair_eqb_refl). intros c.
    destruct (cget (d_bycall (r_dealer r)) c) as [q|] eqn:E; [|exact E]. exfalso.
    apply (cw_bycall_call _ Wc _ _ E). fold (cget (d_calls (r_dealer r)) c). rewrite Hcalls. reflexivity. }
  assert (Hinv : d_invs (r_dealer r) = []).
  { apply (no_keys_nil pair_eqb pair_eqb_refl). intros q.
    destruct (cget (d_invs (r_dealer r)) q) as [inv|] eqn:E; [|exact E]. exfalso.
    destruct (cw_inv _ Wc _ _ E) as (Hb & _). fold (cget (d_bycall (r_dealer r)) (inv_call inv)) in Hb.
    rewrite Hby in Hb. discriminate. }
  repeat match goal with |- _ /\ _ => split end; auto.
  - apply (no_keys_nil N.eqb N.eqb_refl). intros x.
    destruct (nget (r_testaments r) x) eqn:E; [|exact E]. exfalso.
    apply (Hno x), (rw_test_att r W). unfold nget in *. congruence.
  - apply (no_keys_nil N.eqb N.eqb_refl). intros x.
    destruct (nget (b_sess (r_broker r)) x) eqn:E; [|exact E]. exfalso.
    apply (Hno x), (rw_sess_att r W). unfold nget in *. congruence.
  - (* every key of the per-callee table is the meta session; keys are unique *)
    pose proof (rw_crkeys _ (wf_regs _ _ Wd)) as ND.
    assert (Hk : forall x, In x (map fst (d_callee_regs (r_dealer r))) -> x = meta_id).
    { intros x Hx. apply keys_nget in Hx. destruct Hx as (ids & E).
      pose proof (rw_cr_nonempty r W x ids E) as Hne. destruct ids as [|id ids]; [congruence|].
      assert (Hin : In id (callee_reg_ids (r_dealer r) x)) by (unfold callee_reg_ids; rewrite E; now left).
      apply (wf_cr _ _ Wd x id) in Hin. destruct Hin as (rg & Hr & Hcal).
      destruct (attached_cases r x); [eapply (wf_regs_att _ _ Wd); eauto|assumption|exfalso; eapply Hno; eauto]. }
    rewrite <- (map_length fst). destruct (map fst (d_callee_regs (r_dealer r))) as [|a [|b l]]; cbn; try lia.
    exfalso. inversion ND as [|? ? Hn _]; subst. apply Hn. left.
    rewrite (Hk a), (Hk b); auto; [right; now left|now left].
  - intros id s Hs. destruct (sub_subs s) as [|x l] eqn:E; [reflexivity|]. exfalso.
    assert (Hh : sub_has (b_subs (r_broker r)) id x) by (exists s; rewrite E; split; [exact Hs|now left]).
    apply (wf_rel _ (rw_broker r W)) in Hh. destruct Hh as (ids & E' & _).
    apply (Hno x), (rw_sess_att r W). congruence.
  - intros id rg Hr.
    destruct (rw_callees _ (wf_regs _ _ Wd) id rg Hr) as (Hne & ND & _).
    assert (Hall : forall c, In c (reg_callees rg) -> c = meta_id).
    { intros c Hin. destruct (attached_cases r c); [eapply (wf_regs_att _ _ Wd); eauto|assumption|exfalso; eapply Hno; eauto]. }
    destruct (reg_callees rg) as [|a [|b l]]; [congruence| |].
    + rewrite (Hall a); [reflexivity|now left].
    + exfalso. inversion ND as [|? ? Hn _]; subst. apply Hn. left.
      rewrite (Hall a), (Hall b); auto; [right; now left|now left].
Qed.

(** ** C18 listed_fetchable (needs the invariant) *)
Lemma as_id_vid_ok : forall n, 0 < n <= max_idN -> as_id (vid n) = Some n.
Proof.
  intros n [H0 Hn]. unfold as_id, vid, as_int64, to_int64.
  assert (E : ((Z.of_N n + two63) mod two64 - two63 = Z.of_N n)%Z).
  { unfold two63, two64, max_idN in *. rewrite Z.mod_small; lia. }
  rewrite E.
  assert (B : ((0 <? Z.of_N n)%Z && (Z.of_N n <=? max_id)%Z) = true).
  { apply andb_true_iff. split; [apply Z.ltb_lt|apply Z.leb_le]; unfold max_id, max_idN in *; lia. }
  rewrite B. now rewrite N2Z.id.
Qed.

(** every id in the answer of wamp.session.list (any role filter) is accepted by wamp.session.get *)
Theorem listed_sessions_fetchable : forall r d1 d2 args kw1 kw2 o1 o2 l x,
    realm_wf r ->
    resp_of (meta_call r "wamp.session.list" d1 args kw1 o1) = MYield [ids_value l] [] ->
    In x l ->
    exists det, meta_call r "wamp.session.get" d2 [vid x] kw2 o2 = (r, MYield [VDict det] [], None).
Proof.
  intros r d1 d2 args kw1 kw2 o1 o2 l x W H Hx.
  rewrite meta_session_list in H. destruct (role_filter args) as [f|]; [|discriminate].
  cbn in H. inversion H as [E]. unfold ids_value in E. inversion E as [E'].
  assert (Hl : In x (map s_id (filter (role_selected f) (r_clients r)))).
  { assert (Inj : forall a b : list N, map vid a = map vid b -> a = b).
    { induction a as [|a0 a IH]; intros [|b0 b] Hab; try discriminate; [reflexivity|].
      cbn in Hab. inversion Hab as [[Hz Ht]]. apply N2Z.inj in Hz. subst. f_equal. now apply IH. }
    apply Inj in E'. rewrite E'. exact Hx. }
  apply in_map_iff in Hl. destruct Hl as (s & <- & Hs). apply filter_In in Hs. destruct Hs as [Hs _].
  rewrite meta_session_get. cbn [arg0 nth_error bind].
  rewrite (as_id_vid_ok _ (rw_ids r W s Hs)).
  destruct (find_session (r_clients r) (s_id s)) as [s'|] eqn:F.
  - eexists. reflexivity.
  - exfalso. apply (In_find_session _ _ Hs). exact F.
Qed.

(** every id in the answer of wamp.subscription.list is accepted by wamp.subscription.get *)
Theorem listed_subscriptions_fetchable : forall r k0 d2 kw2 o2 kind x,
    realm_wf r -> ids_below k0 r -> k0 <= max_idN ->
    In x (match sub_ids_by (r_broker r) kind with VList l => l | _ => [] end) ->
    exists id s, x = vid id /\ nget (b_subs (r_broker r)) id = Some s /\
                 meta_call r "wamp.subscription.get" d2 [x] kw2 o2 = (r, MYield [sub_dict s] [], None).
Proof.
  intros r k0 d2 kw2 o2 kind x W I Hk Hx. unfold sub_ids_by, ids_value in Hx.
  apply in_map_iff in Hx. destruct Hx as (id & <- & Hid).
  apply in_flat_map in Hid. destruct Hid as ([id' s] & Hin & Hm).
  assert (id' = id) by (destruct (mkind_of (sub_match s)), kind; cbn in Hm; tauto). subst id'.
  pose proof (wf_core _ (rw_broker r W)) as Wc.
  assert (G : nget (b_subs (r_broker r)) id = Some s) by (apply In_nget; [apply (wf_subs_nodup _ Wc)|exact Hin]).
  exists id, s. split; [reflexivity|]. split; [exact G|].
  rewrite meta_subscription_get. cbn [arg0 nth_error bind].
  pose proof (wf_sub_le _ Wc id s G) as Hle. destruct I as (I1 & _).
  rewrite as_id_vid_ok by lia. cbn [bind]. rewrite G. reflexivity.
Qed.

(** every id in the answer of wamp.registration.list is accepted by wamp.registration.get *)
Theorem listed_registrations_fetchable : forall r k0 d2 kw2 o2 kind x,
    realm_wf r -> ids_below k0 r -> k0 <= max_idN ->
    In x (match reg_ids_by (r_dealer r) kind with VList l => l | _ => [] end) ->
    exists id rg, x = vid id /\ nget (d_regs (r_dealer r)) id = Some rg /\
                  meta_call r "wamp.registration.get" d2 [x] kw2 o2 = (r, MYield [reg_dict rg] [], None).
Proof.
  intros r k0 d2 kw2 o2 kind x W I Hk Hx. unfold reg_ids_by, ids_value in Hx.
  apply in_map_iff in Hx. destruct Hx as (id & <- & Hid).
  apply in_map_iff in Hid. destruct Hid as ([p id'] & E & Hin). cbn in E. subst id'.
  pose proof (rw_dealer r W) as Wd.
  assert (G : sget (d_map (r_dealer r) kind) p = Some id).
  { apply (In_aget String.eqb String.eqb_spec); [apply (rw_mapkeys _ (wf_regs _ _ Wd))|exact Hin]. }
  destruct (rw_map _ (wf_regs _ _ Wd) _ _ _ G) as (rg & Hr & _).
  exists id, rg. split; [reflexivity|]. split; [exact Hr|].
  rewrite meta_registration_get. cbn [arg0 nth_error bind].
  destruct (rw_reg _ (wf_regs _ _ Wd) _ _ Hr) as (_ & _ & Hle). destruct I as (_ & I2 & _).
  pose proof (proj2 (proj2 (rw_metaregs r W)) id rg Hr) as Hpos.
  rewrite as_id_vid_ok by lia. cbn [bind]. rewrite Hr. reflexivity.
Qed.

(** ** Non-vacuity witnesses for C05 *)
Module C05Ex.
  Definition cfg0 : config := mkConfig false false false true true false [mkHistCfg "h" "exact" 5] None.
  Definition hello0 : dict :=
    [("roles", VDict [("subscriber", VDict []); ("publisher", VDict []);
                      ("caller", VDict []); ("callee", VDict [])])].
  (** 11 subscribes and registers "p", stores a testament, serves a call of 12
      and a call of its own; 10 observes the meta topics; 12 subscribes to the
      testament's topic *)
  Definition ops0 : list op :=
    [OJoin 10 false hello0; OJoin 11 false hello0; OJoin 12 false hello0;
     OMsg 11 (CSubscribe 1 [] "t") 0; OMsg 11 (CRegister 2 [] "p") 0;
     OMsg 10 (CSubscribe 3 [("match", vstr "prefix")] "wamp.") 0;
     OMsg 12 (CSubscribe 4 [] "bye") 0;
     OMsg 11 (CCall 5 [] "wamp.session.add_testament" [vstr "bye"; VList [vnat 1]; VDict []] []) 0;
     OMsg 12 (CCall 7 [] "p" [] []) 0;
     OMsg 11 (CCall 8 [] "p" [] []) 0].
  Definition r0 : realm := fst (run (init_realm cfg0) ops0).

  Lemma ops_ok : Forall op_ok ops0.
  Proof. unfold ops0. repeat constructor; apply N.ltb_lt || apply N.leb_le; reflexivity. Qed.

  Lemma wf0 : realm_wf r0 /\ ids_below (k0 cfg0 + 10) r0 /\ k0 cfg0 + 10 < max_idN /\ client r0 11.
  Proof.
    destruct (init_realm_wf cfg0) as [W I]; [apply N.leb_le; reflexivity|].
    destruct (run_wf ops0 (init_realm cfg0) (k0 cfg0) W I ops_ok) as [W1 I1]; [apply N.leb_le; reflexivity|].
    split; [exact W1|]. split; [exact I1|]. split; [apply N.ltb_lt; reflexivity|].
    unfold client. vm_compute. discriminate.
  Qed.

  Lemma served : cget (d_invs (r_dealer r0)) (11, 1) = Some (mkInv (12, 7) 11 false false None []) /\
                 cget (d_invs (r_dealer r0)) (11, 2) = Some (mkInv (11, 8) 11 false false None []).
  Proof. vm_compute. split; reflexivity. Qed.

  (** the departure of 11: the call of 12 it served is answered (and so is its
      own call to itself — to the leaver); subscription on_unsubscribe, on_delete; registration
      on_unregister, on_delete; its testament (to 12); on_leave last *)
  Lemma drop11 :
    snd (step r0 (ODrop 11)) =
    [(12, RError c_CALL 7 [] e_canceled [vstr "callee gone"] []);
     (11, RError c_CALL 8 [] e_canceled [vstr "callee gone"] []);
     (10, REvent 3 12 [("topic", vuri t_sub_on_unsubscribe)] [vid 11; vid 2] []);
     (10, REvent 3 13 [("topic", vuri t_sub_on_delete)] [vid 11; vid 2] []);
     (10, REvent 3 14 [("topic", vuri t_reg_on_unregister)] [vid 11; vid 24] []);
     (10, REvent 3 15 [("topic", vuri t_reg_on_delete)] [vid 11; vid 24] []);
     (12, REvent 4 16 [] [vnat 1] []);
     (10, REvent 3 17 [("topic", vuri t_on_leave)] [vid 11; vstr "<gen>"; vstr "anonymous"] [])].
  Proof. vm_compute. reflexivity. Qed.

  (** sizes: before, after 11 left, after everybody left = initial *)
  Lemma sizes_back :
    sizes r0 = [3; 1; 3; 1; 0; 4; 3; 1; 24; 0; 0; 24; 2; 2; 2; 2] /\
    sizes (fst (step r0 (ODrop 11))) = [2; 0; 2; 1; 0; 3; 2; 1; 23; 0; 0; 23; 0; 0; 0; 1] /\
    sizes (fst (run r0 [ODrop 11; ODrop 10; OMsg 12 (CGoodbye [] "x") 0])) = sizes (init_realm cfg0) /\
    r_clients (fst (run r0 [ODrop 11; ODrop 10; OMsg 12 (CGoodbye [] "x") 0])) = [].
  Proof. vm_compute. repeat split; reflexivity. Qed.
End C05Ex.
