(** * Histories of the whole model, C12 part 1 (dealer level).

    Facts about every dealer function, in the style of [RealmTraceInv.dq]:
    - [noev]: the dealer never sends an EVENT (only the broker does);
    - [regs_kept]: REGISTER excepted, a dealer function creates no
      registration and adds no session to a registration's [reg_disclose]
      (the callees that asked for the caller's identity at their own REGISTER
      and were allowed to);
    - [disc_ok]: [reg_disclose] lists callees of the registration, each once.
    REGISTER is characterised by [register_regs]: a session is in
    [reg_disclose] after it only if it was before, or it is the registering
    session, answered REGISTERED for this registration, with
    [disclose_caller = true], admitted because the realm allows disclosure or
    its authrole is "trusted". *)
From Nexus Require Import Router.Realm Router.AssocLemmas Router.RealmLib Router.RealmProofs
     Router.RealmMetaProofs Router.RealmLeave.
From Nexus Require Import Router.DealerLib Router.DealerProofs Router.DealerReg Router.DealerCall Router.DealerWf
     Router.DealerWfCalls Router.DealerWfRegs Router.DealerRemove Router.DealerReply Router.DealerTimers
     Router.DealerOwned.
From Nexus Require Import Router.RealmWf Router.RealmStep Router.RealmC05 Router.RealmOutputs.
From Nexus Require Import Router.RealmTraceLib Router.RealmTrace Router.RealmTraceC05 Router.RealmTraceInv.
From Coq Require Import Lia ZifyN ZifyNat ZifyBool.

(** ** Vocabulary *)
Definition is_ev (m : out) : bool :=
  match snd m with REvent _ _ _ _ _ => true | _ => false end.
Definition noev (o : list out) : Prop := forall m, In m o -> is_ev m = false.

Lemma noev_nil : noev [].
Proof. intros m []. Qed.
Lemma noev_app : forall a b, noev a -> noev b -> noev (a ++ b).
Proof. intros a b A B m H. apply in_app_or in H. destruct H; auto. Qed.
Lemma noev_cons : forall m o, is_ev m = false -> noev o -> noev (m :: o).
Proof. intros m o A B x [<-|H]; auto. Qed.
Lemma noev_one : forall m, is_ev m = false -> noev [m].
Proof. intros. apply noev_cons; [assumption|apply noev_nil]. Qed.

Definition regs_kept (d d' : dealer) : Prop :=
  forall rid rg', nget (d_regs d') rid = Some rg' ->
    exists rg, nget (d_regs d) rid = Some rg /\ incl (reg_disclose rg') (reg_disclose rg).

Lemma rk_refl : forall d, regs_kept d d.
Proof. intros d rid rg H. exists rg. split; [exact H|apply incl_refl]. Qed.
Lemma rk_trans : forall a b c, regs_kept a b -> regs_kept b c -> regs_kept a c.
Proof.
  intros a b c A B rid rg2 H. destruct (B rid rg2 H) as (rg1 & H1 & I1).
  destruct (A rid rg1 H1) as (rg0 & H0 & I0). exists rg0. split; [exact H0|]. eapply incl_tran; eauto.
Qed.
Lemma rk_same : forall d d', d_regs d' = d_regs d -> regs_kept d d'.
Proof. intros d d' E rid rg H. rewrite E in H. apply (rk_refl d rid rg H). Qed.

(** [reg_disclose] names callees of the registration, each once *)
Definition disc_ok (d : dealer) : Prop :=
  forall rid rg, nget (d_regs d) rid = Some rg ->
    incl (reg_disclose rg) (reg_callees rg) /\ NoDup (reg_disclose rg).

Lemma ok_same : forall d d', d_regs d' = d_regs d -> disc_ok d -> disc_ok d'.
Proof. intros d d' E H rid rg Hr. rewrite E in Hr. exact (H rid rg Hr). Qed.

Record dk (d : dealer) (o : list out) (d' : dealer) : Prop := {
  dk_noev : noev o;
  dk_regs : regs_kept d d';
  dk_ok : disc_ok d -> disc_ok d'
}.

Lemma dk_refl : forall d, dk d [] d.
Proof. intros d. constructor; [apply noev_nil|apply rk_refl|auto]. Qed.

Lemma dk_of_same : forall d o d', noev o -> d_regs d' = d_regs d -> dk d o d'.
Proof. intros d o d' A E. constructor; [exact A|apply rk_same; exact E|apply ok_same; exact E]. Qed.

(** ** The dealer functions *)
Lemma sync_cancel_dk : forall lk d caller req mode reason ea,
    dk d (snd (sync_cancel lk d caller req mode reason ea)) (fst (sync_cancel lk d caller req mode reason ea)).
Proof.
  intros lk d caller req mode reason ea. apply dk_of_same.
  - destruct (sync_cancel_cases lk d caller req mode reason ea) as [E|(ikey & inv & x & Hp & Hc)].
    + rewrite E. apply noev_nil.
    + rewrite (sync_cancel_live _ _ _ _ _ _ _ _ _ _ Hp Hc).
      destruct (negb (mode =? "skip")%string && callee_can_cancel lk inv && (mode =? "kill")%string); cbn [fst snd].
      * now apply noev_one.
      * apply noev_app; [|now apply noev_one].
        destruct (negb (mode =? "skip")%string && callee_can_cancel lk inv); [now apply noev_one|apply noev_nil].
  - destruct (sync_cancel_regs_same lk d caller req mode reason ea) as (_ & _ & _ & E & _). exact E.
Qed.

Lemma cancel_dk : forall lk d caller req opts,
    dk d (snd (cancel lk d caller req opts)) (fst (cancel lk d caller req opts)).
Proof.
  intros. unfold cancel. destruct (_ || _ || _); [apply sync_cancel_dk|].
  destruct (String.eqb _ ""); [apply sync_cancel_dk|].
  cbn [fst snd]. apply dk_of_same; [now apply noev_one|reflexivity].
Qed.

Lemma sync_error_dk : forall d callee req det err args kw,
    dk d (snd (sync_error d callee req det err args kw)) (fst (sync_error d callee req det err args kw)).
Proof.
  intros d callee req det err args kw.
  destruct (sync_error_frame d callee req det err args kw) as (_ & _ & Er).
  apply dk_of_same; [|exact Er].
  destruct (cget (d_invs d) (callee, req)) as [inv|] eqn:Hi.
  - rewrite (sync_error_owner _ _ _ _ _ _ _ _ Hi). destruct (cget (d_calls d) (inv_call inv)); cbn [snd];
      [now apply noev_one|apply noev_nil].
  - rewrite sync_error_unknown by exact Hi. apply noev_nil.
Qed.

Lemma yield_out_noev : forall lk callee req opts args kw cid x, noev (yield_out lk callee req opts args kw cid x).
Proof.
  intros. unfold yield_out, ppt_caller_err.
  destruct (opt_bool opts "progress"); destruct (ppt_active opts);
    destruct (has_ppt lk callee "callee"); destruct (has_ppt lk x "caller"); cbn [negb app];
    intros m H; repeat (destruct H as [<-|H]); try destruct H; reflexivity.
Qed.

Lemma sync_yield_dk : forall lk d callee req opts args kw,
    dk d (snd (sync_yield lk d callee req opts args kw)) (fst (sync_yield lk d callee req opts args kw)).
Proof.
  intros lk d callee req opts args kw.
  destruct (sync_yield_frame lk d callee req opts args kw) as (_ & _ & Er).
  apply dk_of_same; [|exact Er].
  destruct (cget (d_invs d) (callee, req)) as [inv|] eqn:Hi.
  - rewrite (sync_yield_owner _ _ _ _ _ _ _ _ Hi). cbn [snd].
    destruct (cget (d_calls d) (inv_call inv)); [apply yield_out_noev|apply noev_nil].
  - rewrite sync_yield_unknown by exact Hi. cbn [snd].
    destruct (opt_bool opts "progress"); [now apply noev_one|apply noev_nil].
Qed.

Lemma fire_timers_dk : forall lk now d, dk d (snd (fire_timers lk now d)) (fst (fire_timers lk now d)).
Proof.
  intros lk now d. apply dk_of_same.
  - rewrite fire_timers_fold.
    generalize (sort_timers (filter (fun '((_, (dl, _)) : N * (N * callid)) => dl <=? now) (d_timers d))). intros l.
    assert (G : forall l d0 o, noev o -> noev (snd (fold_left (fire_step lk) l (d0, o)))).
    { clear. induction l as [|[tid [dl cid]] l IH]; intros d0 o A; cbn [fold_left]; [exact A|].
      unfold fire_step at 2. destruct (amem N.eqb (d_timers d0) tid); [|apply IH; exact A].
      pose proof (sync_cancel_dk lk (d_set_timers d0 (ndel (d_timers d0) tid) (d_timergen d0)) (fst cid) (snd cid)
                                 "killnowait" e_timeout [vstr "call timeout"]) as [S1 _ _].
      destruct (sync_cancel _ _ _ _ _ _ _) as [d2 o2]. cbn [fst snd] in *.
      apply IH. now apply noev_app. }
    apply G. apply noev_nil.
  - destruct (fire_timers_frame lk now d) as (_ & _ & E & _). exact E.
Qed.

Lemma register_noev : forall cfg d callee req opts proc, noev (snd (fst (register cfg d callee req opts proc))).
Proof.
  intros. pose proof (register_event_order cfg d callee req opts proc) as O.
  destruct (register _ _ _ _ _ _) as [[d' o] mps]. cbn [fst snd].
  destruct O as [(_ & _ & (e & a & ->))|(id & -> & _)]; now apply noev_one.
Qed.

(** the meta events of a REGISTER carry no options *)
Lemma register_mps_plain : forall cfg d callee req opts proc mp,
    In mp (snd (register cfg d callee req opts proc)) -> mp_opts mp = [].
Proof.
  intros cfg d callee req opts proc mp. pose proof (register_event_order cfg d callee req opts proc) as O.
  destruct (register _ _ _ _ _ _) as [[d' o] mps]. cbn [snd].
  destruct O as [(_ & -> & _)|(id & _ & [->|[->|(rg & -> & _)]])]; intros H; cbn [In] in H;
    repeat (destruct H as [<-|H]; [reflexivity|]); destruct H.
Qed.

(** the registering session asked for the caller's identity and was allowed to *)
Definition reg_asked (cfg : config) (callee : session) (opts : dict) : Prop :=
  opt_bool opts "disclose_caller" = true /\
  (c_disclose cfg = true \/ attr_of (s_details callee) "authrole" = "trusted").

Lemma admitted_asked : forall cfg callee opts,
    (negb (c_disclose cfg) && opt_bool opts "disclose_caller" &&
     negb (String.eqb (attr_of (s_details callee) "authrole") "trusted")) = false ->
    opt_bool opts "disclose_caller" = true -> reg_asked cfg callee opts.
Proof.
  intros cfg callee opts A Hd. split; [exact Hd|]. rewrite Hd in A.
  destruct (c_disclose cfg); [now left|right]. cbn [negb andb] in A.
  apply negb_false_iff in A. now apply String.eqb_eq.
Qed.

Lemma register_regs : forall cfg d callee req opts proc rid rg' y,
    regs_core d ->
    nget (d_regs (fst (fst (register cfg d callee req opts proc)))) rid = Some rg' ->
    In y (reg_disclose rg') ->
    (exists rg, nget (d_regs d) rid = Some rg /\ In y (reg_disclose rg)) \/
    (y = s_id callee /\ In (s_id callee, RRegistered req rid) (snd (fst (register cfg d callee req opts proc))) /\
     reg_asked cfg callee opts).
Proof.
  intros cfg d callee req opts proc rid rg' y RC. unfold register.
  assert (Keep : forall A : Prop, nget (d_regs d) rid = Some rg' -> In y (reg_disclose rg') ->
                 (exists rg, nget (d_regs d) rid = Some rg /\ In y (reg_disclose rg)) \/ A)
    by (intros A H Hy; left; exists rg'; auto).
  destruct (negb (valid_uri _ _ _)); [cbn [fst]; apply Keep|].
  destruct (str_prefix_wamp proc && negb (s_id callee =? meta_id)); [cbn [fst]; apply Keep|].
  destruct (negb (c_disclose cfg) && opt_bool opts "disclose_caller" &&
            negb (String.eqb (attr_of (s_details callee) "authrole") "trusted")) eqn:Hd; [cbn [fst]; apply Keep|].
  pose proof (admitted_asked cfg callee opts Hd) as AA. clear Hd.
  destruct (match sget _ _ with Some id => nget (d_regs d) id | None => None end) as [rg|] eqn:M.
  - destruct (negb (shared_policy _) || _ || _); [cbn [fst]; apply Keep|].
    cbn [fst snd d_regs d_set_regs d_set_callee_regs]. rewrite ngs.
    destruct (N.eqb_spec rid (reg_id rg)) as [->|Hn]; [|apply Keep].
    intros E. inversion E; subst rg'. clear E. cbn [reg_disclose].
    destruct (sget _ _) as [id|] eqn:Sg; [|discriminate].
    destruct (rw_reg _ RC id rg M) as (Eid & _). rewrite Eid.
    destruct (opt_bool opts "disclose_caller") eqn:Hdc.
    + intros Hy. apply in_app_or in Hy. destruct Hy as [Hy|[<-|[]]].
      * left. exists rg. split; [exact M|exact Hy].
      * right. split; [reflexivity|]. split; [now left|]. apply AA; reflexivity.
    + intros Hy. left. exists rg. split; [exact M|exact Hy].
  - cbn [fst snd]. intros E.
    assert (E' : nget (nset (d_regs d) (idgen_next (d_idgen d))
                            (mkReg (idgen_next (d_idgen d)) proc (opt_string opts "match") (opt_string opts "invoke")
                                   (if opt_bool opts "disclose_caller" then [s_id callee] else [])
                                   (if opt_bool opts "forward_timeout" then [s_id callee] else []) 0 [s_id callee])) rid = Some rg').
    { destruct (mkind_of (opt_string opts "match")); exact E. }
    rewrite ngs in E'. destruct (N.eqb_spec rid (idgen_next (d_idgen d))) as [->|Hn]; [|apply Keep; exact E'].
    inversion E'; subst rg'. cbn [reg_disclose].
    destruct (opt_bool opts "disclose_caller") eqn:Hdc; [|intros []].
    intros [<-|[]]. right. split; [reflexivity|]. split; [now left|]. apply AA; reflexivity.
Qed.

Lemma NoDup_app_one : forall {A} (l : list A) x, NoDup l -> ~ In x l -> NoDup (l ++ [x]).
Proof.
  induction l as [|a l IH]; intros x H Hn; cbn [app]; [constructor; [intros []|constructor]|].
  inversion H; subst. constructor.
  - intros Hin. apply in_app_or in Hin. destruct Hin as [Hin|[E|[]]]; [contradiction|]. subst. apply Hn. now left.
  - apply IH; [assumption|]. intros Hin. apply Hn. now right.
Qed.

Lemma register_ok : forall cfg d callee req opts proc,
    regs_core d -> disc_ok d -> disc_ok (fst (fst (register cfg d callee req opts proc))).
Proof.
  intros cfg d callee req opts proc RC OK. unfold register.
  destruct (negb (valid_uri _ _ _)); [exact OK|].
  destruct (str_prefix_wamp proc && negb (s_id callee =? meta_id)); [exact OK|].
  destruct (negb (c_disclose cfg) && _ && _); [exact OK|].
  destruct (match sget _ _ with Some id => nget (d_regs d) id | None => None end) as [rg|] eqn:M.
  - destruct (negb (shared_policy _) || _ || nmem (s_id callee) (reg_callees rg)) eqn:Hc; [exact OK|].
    apply orb_false_iff in Hc. destruct Hc as [_ Hc].
    assert (Hnc : ~ In (s_id callee) (reg_callees rg)).
    { intros Hin. unfold nmem in Hc. assert (X : existsb (N.eqb (s_id callee)) (reg_callees rg) = true)
        by (apply existsb_exists; exists (s_id callee); split; [exact Hin|apply N.eqb_refl]). congruence. }
    destruct (sget _ _) as [id|] eqn:Sg; [|discriminate].
    destruct (OK id rg M) as [I1 I2].
    cbn [fst]. intros rid rg' H. cbn [d_regs d_set_regs d_set_callee_regs] in H. rewrite ngs in H.
    destruct (N.eqb_spec rid (reg_id rg)) as [->|Hn]; [|exact (OK rid rg' H)].
    inversion H; subst rg'. cbn [reg_disclose reg_callees].
    destruct (opt_bool opts "disclose_caller").
    + split.
      * intros y Hy. apply in_app_or in Hy. apply in_or_app. destruct Hy as [Hy|Hy]; [left; now apply I1|now right].
      * apply NoDup_app_one; [exact I2|]. intros Hin. apply Hnc. now apply I1.
    + split; [intros y Hy; apply in_or_app; left; now apply I1|exact I2].
  - cbn [fst]. intros rid rg' H.
    assert (H' : nget (nset (d_regs d) (idgen_next (d_idgen d))
                            (mkReg (idgen_next (d_idgen d)) proc (opt_string opts "match") (opt_string opts "invoke")
                                   (if opt_bool opts "disclose_caller" then [s_id callee] else [])
                                   (if opt_bool opts "forward_timeout" then [s_id callee] else []) 0 [s_id callee])) rid = Some rg').
    { destruct (mkind_of (opt_string opts "match")); exact H. }
    rewrite ngs in H'. destruct (N.eqb_spec rid (idgen_next (d_idgen d))) as [->|Hn]; [|exact (OK rid rg' H')].
    inversion H'; subst rg'. cbn [reg_disclose reg_callees].
    destruct (opt_bool opts "disclose_caller"); split;
      [apply incl_refl|repeat constructor; intros []|intros y []|constructor].
Qed.

Lemma del_callee_reg_rk : forall d sid id, regs_kept d (fst (del_callee_reg d sid id)).
Proof.
  intros d sid id. unfold del_callee_reg.
  destruct (nget (d_regs d) id) as [rg|] eqn:Hr; [|apply rk_refl].
  destruct (negb (nmem sid (reg_callees rg))); [apply rk_refl|].
  destruct (nremove1 sid (reg_callees rg)) as [|c cs] eqn:Hc; cbn [fst].
  - intros rid rg' H.
    assert (H' : nget (ndel (d_regs d) id) rid = Some rg') by (destruct (mkind_of (reg_match rg)); exact H).
    rewrite ngd in H'. destruct (N.eqb rid id); [discriminate|]. apply (rk_refl d rid rg' H').
  - intros rid rg' H. cbn [d_regs d_set_regs] in H. rewrite ngs in H.
    destruct (N.eqb_spec rid id) as [->|Hn]; [|apply (rk_refl d rid rg' H)].
    inversion H; subst rg'. cbn [reg_disclose]. exists rg. split; [exact Hr|].
    intros y Hin. eapply In_nremove1; eauto.
Qed.

Lemma del_callee_reg_ok : forall d sid id, disc_ok d -> disc_ok (fst (del_callee_reg d sid id)).
Proof.
  intros d sid id OK. unfold del_callee_reg.
  destruct (nget (d_regs d) id) as [rg|] eqn:Hr; [|exact OK].
  destruct (negb (nmem sid (reg_callees rg))); [exact OK|].
  destruct (OK id rg Hr) as [I1 I2].
  destruct (nremove1 sid (reg_callees rg)) as [|c cs] eqn:Hc; cbn [fst].
  - intros rid rg' H.
    assert (H' : nget (ndel (d_regs d) id) rid = Some rg') by (destruct (mkind_of (reg_match rg)); exact H).
    rewrite ngd in H'. destruct (N.eqb rid id); [discriminate|]. exact (OK rid rg' H').
  - intros rid rg' H. cbn [d_regs d_set_regs] in H. rewrite ngs in H.
    destruct (N.eqb_spec rid id) as [->|Hn]; [|exact (OK rid rg' H)].
    inversion H; subst rg'. cbn [reg_disclose reg_callees]. rewrite <- Hc. split.
    + intros y Hy. apply (In_nremove1_NoDup sid y _ I2) in Hy. destruct Hy as [Hy Hne].
      apply In_nremove1_other; [exact Hne|now apply I1].
    + now apply NoDup_nremove1.
Qed.

Lemma unregister_dk : forall d sid req regid,
    dk d (snd (fst (unregister d sid req regid))) (fst (fst (unregister d sid req regid))).
Proof.
  intros d sid req regid. constructor.
  - pose proof (unregister_event_order d sid req regid) as O.
    destruct (unregister _ _ _ _) as [[d' o] mps]. cbn [fst snd].
    destruct O as [(_ & ->)|(-> & _)]; now apply noev_one.
  - unfold unregister.
    pose proof (del_callee_reg_rk (d_set_callee_regs d (callee_del_reg (d_callee_regs d) sid regid)) sid regid) as E.
    destruct (del_callee_reg _ sid regid) as [d1 [b|]]; cbn [fst] in *; [exact E|apply rk_same; reflexivity].
  - intros OK. unfold unregister.
    pose proof (del_callee_reg_ok (d_set_callee_regs d (callee_del_reg (d_callee_regs d) sid regid)) sid regid OK) as E.
    destruct (del_callee_reg _ sid regid) as [d1 [b|]]; cbn [fst] in *; [exact E|exact OK].
Qed.

Lemma unregister_mps_plain : forall d sid req regid mp,
    In mp (snd (unregister d sid req regid)) -> mp_opts mp = [].
Proof.
  intros d sid req regid mp. unfold unregister.
  destruct (del_callee_reg _ sid regid) as [d1 [b|]]; cbn [snd]; [|intros []].
  intros [<-|H]; [reflexivity|]. destruct b; [destruct H as [<-|[]]; reflexivity|destruct H].
Qed.

Lemma remove_callee_reg_fold_c12 : forall sid regs d mp,
    (forall x, In x mp -> mp_opts x = []) ->
    regs_kept d (fst (fold_left (remove_callee_reg sid) regs (d, mp))) /\
    (disc_ok d -> disc_ok (fst (fold_left (remove_callee_reg sid) regs (d, mp)))) /\
    (forall x, In x (snd (fold_left (remove_callee_reg sid) regs (d, mp))) -> mp_opts x = []).
Proof.
  intros sid. induction regs as [|id regs IH]; intros d mp P; cbn [fold_left];
    [split; [apply rk_refl|split; [auto|exact P]]|].
  unfold remove_callee_reg at 2 4 6.
  pose proof (del_callee_reg_rk d sid id) as L. pose proof (del_callee_reg_ok d sid id) as K.
  destruct (del_callee_reg d sid id) as [d1 [b|]]; cbn [fst] in *.
  - destruct (IH d1 (mp ++ mkMetaPub t_reg_on_unregister [vid sid; vid id] [] [] ::
                        (if b then [mkMetaPub t_reg_on_delete [vid sid; vid id] [] []] else []))) as (A & B & C).
    { intros x Hx. apply in_app_or in Hx. destruct Hx as [Hx|[<-|Hx]]; [auto|reflexivity|].
      destruct b; [destruct Hx as [<-|[]]; reflexivity|destruct Hx]. }
    split; [eapply rk_trans; eauto|]. split; [auto|exact C].
  - apply IH. exact P.
Qed.

Lemma cancel_served_dk : forall lk sid d o e, noev o ->
    noev (snd (cancel_served lk sid (d, o) e)) /\ d_regs (fst (cancel_served lk sid (d, o) e)) = d_regs d.
Proof.
  intros lk sid d o [ikey e] A. unfold cancel_served.
  assert (Same : noev o /\ d_regs d = d_regs d) by (split; [exact A|reflexivity]).
  destruct (cget (d_invs d) ikey) as [inv|] eqn:Hi; [|exact Same].
  destruct (negb (inv_callee inv =? sid)); [exact Same|].
  destruct (cget (d_calls d) (inv_call inv)) as [caller|]; [|exact Same].
  match goal with |- context [sync_cancel lk ?D ?a ?b ?c ?dd ?e0] =>
    pose proof (sync_cancel_dk lk D a b c dd e0) as [S1 _ _];
    destruct (sync_cancel_regs_same lk D a b c dd e0) as (_ & _ & _ & S2 & _);
    destruct (sync_cancel lk D a b c dd e0) as [d3 o3] end.
  cbn [fst snd] in *. split; [now apply noev_app|].
  rewrite S2. cbn [d_regs d_set_invs]. apply ct_regs.
Qed.

Lemma dealer_remove_session_dk : forall lk d sid,
    dk d (snd (fst (dealer_remove_session lk d sid))) (fst (fst (dealer_remove_session lk d sid))) /\
    (forall x, In x (snd (dealer_remove_session lk d sid)) -> mp_opts x = []).
Proof.
  intros lk d sid. unfold dealer_remove_session.
  destruct (remove_callee_reg_fold_c12 sid (match nget (d_callee_regs d) sid with Some l => l | None => [] end) d [])
    as (L1 & K1 & P1); [intros x []|].
  destruct (fold_left (remove_callee_reg sid) _ (d, [])) as [d1 mp]. cbn [fst snd] in *.
  set (d2 := d_set_callee_regs d1 (ndel (d_callee_regs d1) sid)).
  assert (G : forall l d0 o, noev o ->
                noev (snd (fold_left (cancel_served lk sid) l (d0, o))) /\
                d_regs (fst (fold_left (cancel_served lk sid) l (d0, o))) = d_regs d0).
  { clear. induction l as [|e l IH]; intros d0 o A; cbn [fold_left].
    - cbn [fst snd]. split; [exact A|reflexivity].
    - destruct (cancel_served_dk lk sid d0 o e A) as (B1 & B2).
      destruct (cancel_served lk sid (d0, o) e) as [d3 o3]. cbn [fst snd] in *.
      destruct (IH d3 o3 B1) as (C1 & C2). split; [exact C1|congruence]. }
  destruct (G (d_invs d2) d2 [] noev_nil) as (A & C).
  destruct (fold_left (cancel_served lk sid) (d_invs d2) (d2, [])) as [d3 o]. cbn [fst snd] in *.
  assert (H : forall l d0, d_regs (fold_left (drop_own_call sid) l d0) = d_regs d0).
  { clear. induction l as [|e l IH]; intros d0; cbn [fold_left]; [reflexivity|].
    rewrite IH. apply drop_own_call_regs. }
  assert (E : d_regs (fold_left (drop_own_call sid) (d_calls d3) d3) = d_regs d1).
  { rewrite H, C. reflexivity. }
  split; [|exact P1]. constructor; cbn [fst snd]; [exact A| |].
  - eapply rk_trans; [exact L1|apply rk_same; exact E].
  - intros OK. eapply ok_same; [exact E|auto].
Qed.

(** ** CALL *)
Lemma call_d0_dk : forall d r next o, noev o -> nget (d_regs d) (reg_id r) = Some r -> dk d o (call_d0 d r next).
Proof.
  intros d r next o A Hr. constructor; [exact A| |].
  - intros rid rg' H. unfold call_d0 in H. cbn [d_regs d_set_regs] in H. rewrite ngs in H.
    destruct (N.eqb_spec rid (reg_id r)) as [->|Hn]; [|apply (rk_refl d rid rg' H)].
    inversion H; subst rg'. exists r. split; [exact Hr|]. unfold reg_set_next. cbn [reg_disclose]. apply incl_refl.
  - intros OK rid rg' H. unfold call_d0 in H. cbn [d_regs d_set_regs] in H. rewrite ngs in H.
    destruct (N.eqb_spec rid (reg_id r)) as [->|Hn]; [|exact (OK rid rg' H)].
    inversion H; subst rg'. unfold reg_set_next. cbn [reg_disclose reg_callees]. exact (OK _ _ Hr).
Qed.

(** the dealer a protocol-violating CALL is aborted in: only a round-robin
    cursor may have moved *)
Lemma call_abort_dealer_shape : forall lk d caller req opts proc oracle,
    call_abort_dealer lk d caller req opts proc oracle = d \/
    exists r next, match_procedure d proc oracle = Some r /\
                   call_abort_dealer lk d caller req opts proc oracle = call_d0 d r next.
Proof.
  intros. unfold call_abort_dealer.
  destruct (match_procedure d proc oracle) as [r|]; [|now left].
  destruct (reg_callees r) eqn:Ec; [now left|]. rewrite <- Ec.
  destruct (opt_bool opts "progress" && _); [now left|].
  destruct (cget _ _); [now left|].
  destruct (select_callee r oracle) as [[cid next]|]; [|now left].
  destruct (lk cid); [|now left].
  right. exists r, next. split; reflexivity.
Qed.

Lemma call_abort_dk : forall lk d caller req opts proc oracle,
    dealer_wf lk d -> dk d [] (call_abort_dealer lk d caller req opts proc oracle).
Proof.
  intros lk d caller req opts proc oracle WF.
  destruct (call_abort_dealer_shape lk d caller req opts proc oracle) as [->|(r & next & Hm & ->)]; [apply dk_refl|].
  apply call_d0_dk; [apply noev_nil|]. apply (best_match_sound lk d WF) in Hm. destruct Hm as [Hr _]. exact Hr.
Qed.

Lemma call_c12 : forall cfg lk now d caller req opts proc args kw oracle,
    dealer_wf lk d -> lookup_ok lk ->
    match call cfg lk now d caller req opts proc args kw oracle with
    | CallRefused d' o => dk d o d' /\ noinv o
    | CallAbort o => noev o /\ noinv o
    | CallInvoked d' callee' o =>
        dk d o d' /\
        (exists b rid det, o = [(s_id callee', RInvocation b rid det args kw)]) /\
        exists callee0, lk (s_id callee') = Some callee0 /\
                        (callee' = callee0 \/ exists n, callee' = set_invgen callee0 n)
    end.
Proof.
  intros cfg lk now d caller req opts proc args kw oracle WF LOK.
  assert (Hreg : forall r, match_procedure d proc oracle = Some r -> nget (d_regs d) (reg_id r) = Some r).
  { intros r Hm. apply (best_match_sound lk d WF) in Hm. destruct Hm as [Hr _]. exact Hr. }
  assert (Hnps : dk d [no_proc_msg (s_id caller) req] (no_proc_state d (s_id caller, req)) /\
                 noinv [no_proc_msg (s_id caller) req]).
  { split; [|now apply noinv_one]. apply dk_of_same; [now apply noev_one|].
    destruct (nps_frame d (s_id caller, req)) as (_ & _ & E & _). exact E. }
  assert (Hsame : forall m, is_ev m = false -> is_inv m = false -> dk d [m] d /\ noinv [m]).
  { intros m A B. split; [apply dk_of_same; [now apply noev_one|reflexivity]|now apply noinv_one]. }
  assert (Hd0 : forall r next m, match_procedure d proc oracle = Some r -> is_ev m = false -> is_inv m = false ->
                                 dk d [m] (call_d0 d r next) /\ noinv [m]).
  { intros r next m Hm A B. split; [apply call_d0_dk; [now apply noev_one|auto]|now apply noinv_one]. }
  pose proof (call_cases cfg lk now d caller req opts proc args kw oracle) as C.
  inversion C as [Hm E|r Hm Hc E|r Hm Hc Ha E|r ikey Hm Hc Ha Hb Hi E|r ikey inv Hm Hc Ha Hb Hi Hl E
                  |r ikey inv callee Hm Hc Ha Hb Hi Hl E|r Hm Hc Ha Hb Hs E|r cid0 next Hm Hc Ha Hb Hs Hl E
                  |r cid0 next callee Hm Hc Ha Hb Hs Hl Hf E
                  |r cid0 next callee Hm Hc Ha Hb Hs Hl Hf Hpa E|r cid0 next callee Hm Hc Ha Hb Hs Hl Hf Hpa Hpr E
                  |r cid0 next callee Hm Hc Ha Hb Hs Hl Hf Hpa Hpr Hd E
                  |r cid0 next callee Hm Hc Ha Hb Hs Hl Hf Hpa Hpr Hd E].
  - exact Hnps.
  - exact Hnps.
  - split; [now apply noev_one|now apply noinv_one].
  - split; [apply dk_refl|apply noinv_nil].
  - split; [apply dk_refl|apply noinv_nil].
  - (* chunk *)
    split; [apply dk_of_same; [now apply noev_one|apply chs_regs]|].
    split; [do 3 eexists; reflexivity|].
    exists callee. split; [|now left]. rewrite (LOK _ _ Hl). exact Hl.
  - apply Hsame; reflexivity.
  - apply Hsame; reflexivity.
  - eapply Hd0; eauto.
  - split; [now apply noev_one|now apply noinv_one].
  - eapply Hd0; eauto.
  - eapply Hd0; eauto.
  - (* first *)
    split.
    + pose proof (call_d0_dk d r next [] noev_nil (Hreg r Hm)) as [_ B K].
      assert (Er : d_regs (call_first_state now d (s_id caller, req) opts r cid0 next callee) = d_regs (call_d0 d r next))
        by (rewrite cfs_regs; reflexivity).
      constructor; [now apply noev_one| |].
      * intros rid rg' H. rewrite Er in H. exact (B rid rg' H).
      * intros OK. eapply ok_same; [exact Er|auto].
    + split; [cbn [set_invgen s_id]; rewrite (LOK _ _ Hl); do 3 eexists; reflexivity|].
      exists callee. cbn [set_invgen s_id]. split; [rewrite (LOK _ _ Hl); exact Hl|].
      right. eexists. reflexivity.
Qed.
