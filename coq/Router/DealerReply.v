(** * Dealer proofs, part 8: replies to callers (C02), answer routing (C03),
    timer expiry (C13). *)
From Nexus Require Import Router.Dealer Router.DealerLib Router.DealerProofs Router.DealerReg
     Router.DealerCall Router.DealerWfCalls Router.DealerWfRegs Router.DealerWf Router.DealerRemove.
From Coq Require Import Lia ZifyN ZifyNat ZifyBool.

(** A message is a reply to call [cid] (receiver, request); [true] = final. *)
Definition reply_of (m : out) : option (callid * bool) :=
  match m with
  | (x, RResult q det _ _) => Some ((x, q), negb (opt_bool det "progress"))
  | (x, RError ty q _ _ _ _) => if N.eqb ty c_CALL then Some ((x, q), true) else None
  | _ => None
  end.

Lemma pair_eta : forall c : callid, (fst c, snd c) = c.
Proof. intros [a b]; reflexivity. Qed.

(** ** Answer routing (C03) *)
Theorem answer_routing_yield_proof : forall lookup d callee req opts args kw,
    dealer_wf lookup d ->
    match cget (d_invs d) (callee, req) with
    | Some inv =>
        let cid := inv_call inv in
        pending d cid (callee, req) inv (fst cid) /\
        snd (sync_yield d callee req opts args kw) =
        [(fst cid, RResult (snd cid) (if opt_bool opts "progress" then [("progress", VBool true)] else []) args kw)]
    | None =>
        sync_yield d callee req opts args kw =
        (d, if opt_bool opts "progress" then [(callee, RInterrupt req [("mode", vstr "killnowait")])] else [])
    end.
Proof.
  intros lookup d callee req opts args kw WF.
  destruct (cget (d_invs d) (callee, req)) as [inv|] eqn:Hi; [|apply sync_yield_unknown; exact Hi].
  pose proof (wf_inv_pending lookup d WF _ _ Hi) as Hp. split; [exact Hp|].
  rewrite (sync_yield_owner _ _ _ _ _ _ _ Hi). cbn [snd]. destruct Hp as (Hc & _). rewrite Hc. reflexivity.
Qed.

Theorem answer_routing_error_proof : forall lookup d callee req det err args kw,
    dealer_wf lookup d ->
    match cget (d_invs d) (callee, req) with
    | Some inv =>
        let cid := inv_call inv in
        pending d cid (callee, req) inv (fst cid) /\
        snd (sync_error d callee req det err args kw) = [(fst cid, RError c_CALL (snd cid) det err args kw)]
    | None => sync_error d callee req det err args kw = (d, [])
    end.
Proof.
  intros lookup d callee req det err args kw WF.
  destruct (cget (d_invs d) (callee, req)) as [inv|] eqn:Hi; [|apply sync_error_unknown; exact Hi].
  pose proof (wf_inv_pending lookup d WF _ _ Hi) as Hp. split; [exact Hp|].
  rewrite (sync_error_owner _ _ _ _ _ _ _ _ Hi). destruct Hp as (Hc & _). rewrite Hc. reflexivity.
Qed.

(** ** Prompt final replies (C02) *)
Theorem prompt_yield_final_proof : forall lookup d callee req opts args kw inv,
    dealer_wf lookup d -> cget (d_invs d) (callee, req) = Some inv ->
    opt_bool opts "progress" = false ->
    let cid := inv_call inv in
    exists d', sync_yield d callee req opts args kw = (d', [(fst cid, RResult (snd cid) [] args kw)]) /\
               gone d' cid (callee, req).
Proof.
  intros lookup d callee req opts args kw inv WF Hi Hp cid.
  pose proof (wf_inv_pending lookup d WF _ _ Hi) as (Hc & _).
  rewrite (sync_yield_owner _ _ _ _ _ _ _ Hi), Hp, Hc.
  eexists. split; [reflexivity | apply gone_drop_call].
Qed.

Theorem prompt_error_proof : forall lookup d callee req det err args kw inv,
    dealer_wf lookup d -> cget (d_invs d) (callee, req) = Some inv ->
    let cid := inv_call inv in
    exists d', sync_error d callee req det err args kw = (d', [(fst cid, RError c_CALL (snd cid) det err args kw)]) /\
               gone d' cid (callee, req).
Proof.
  intros lookup d callee req det err args kw inv WF Hi cid.
  pose proof (wf_inv_pending lookup d WF _ _ Hi) as (Hc & _).
  rewrite (sync_error_owner _ _ _ _ _ _ _ _ Hi), Hc.
  eexists. split; [reflexivity|]. unfold gone. dproj.
  rewrite es_bycall, es_invs, !cget_cdel_same. auto.
Qed.

(** kill-mode cancel, then the callee's next final YIELD / ERROR ends the call *)
Theorem cancel_kill_then_answer_proof : forall lookup d caller req opts ikey inv x,
    dealer_wf lookup d ->
    opt_string opts "mode" = "kill" ->
    pending d (caller, req) ikey inv x -> inv_canceled inv = false ->
    callee_can_cancel lookup inv = true ->
    let d1 := fst (cancel lookup d caller req opts) in
    (forall yopts args kw, opt_bool yopts "progress" = false ->
       exists d2, sync_yield d1 (fst ikey) (snd ikey) yopts args kw = (d2, [(caller, RResult req [] args kw)]) /\
                  gone d2 (caller, req) ikey) /\
    (forall det err args kw,
       exists d2, sync_error d1 (fst ikey) (snd ikey) det err args kw = (d2, [(caller, RError c_CALL req det err args kw)]) /\
                  gone d2 (caller, req) ikey).
Proof.
  intros lookup d caller req opts ikey inv x WF Hm Hp Hc Hf d1.
  destruct (cancel_kill_proof lookup d caller req opts ikey inv x Hm Hp Hc Hf) as (d' & E & Ed & Hp').
  assert (WF1 : dealer_wf lookup d1) by (apply cancel_wf; exact WF).
  assert (Hd1 : d1 = d') by (unfold d1; rewrite E; reflexivity).
  destruct (wf_pending_call lookup d WF _ _ _ _ Hp) as (Hcall & Hx & _).
  destruct Hp' as (_ & _ & Hi'). rewrite <- Hd1 in Hi'. rewrite <- (pair_eta ikey) in Hi'.
  set (inv' := inv_set_timer (inv_set_canceled inv true) None) in *.
  assert (Hcall' : inv_call inv' = (caller, req)) by exact Hcall.
  split.
  - intros yopts args kw Hpr.
    destruct (prompt_yield_final_proof lookup d1 (fst ikey) (snd ikey) yopts args kw inv' WF1 Hi' Hpr) as (d2 & E2 & G2).
    rewrite Hcall' in E2, G2. cbn [fst snd] in E2. rewrite pair_eta in G2. eauto.
  - intros det err args kw.
    destruct (prompt_error_proof lookup d1 (fst ikey) (snd ikey) det err args kw inv' WF1 Hi') as (d2 & E2 & G2).
    rewrite Hcall' in E2, G2. cbn [fst snd] in E2. rewrite pair_eta in G2. eauto.
Qed.

(** the repaired defect: a call cancelled in kill mode is still answered when its callee goes away *)
Theorem kill_cancel_then_callee_gone_proof : forall lookup lk d caller req opts ikey inv x,
    dealer_wf lookup d ->
    opt_string opts "mode" = "kill" ->
    pending d (caller, req) ikey inv x -> inv_canceled inv = false ->
    callee_can_cancel lookup inv = true ->
    let d1 := fst (cancel lookup d caller req opts) in
    let r := dealer_remove_session lk d1 (inv_callee inv) in
    In (caller, RError c_CALL req [] e_canceled [vstr "callee gone"] []) (snd (fst r)) /\
    gone (fst (fst r)) (caller, req) ikey.
Proof.
  intros lookup lk d caller req opts ikey inv x WF Hm Hp Hc Hf d1 r.
  destruct (cancel_kill_proof lookup d caller req opts ikey inv x Hm Hp Hc Hf) as (d' & E & Ed & Hp').
  assert (WF1 : dealer_wf lookup d1) by (apply cancel_wf; exact WF).
  assert (Hd1 : d1 = d') by (unfold d1; rewrite E; reflexivity).
  destruct (wf_pending_call lookup d WF _ _ _ _ Hp) as (Hcall & Hx & _).
  destruct Hp' as (_ & _ & Hi'). rewrite <- Hd1 in Hi'.
  set (inv' := inv_set_timer (inv_set_canceled inv true) None) in *.
  pose proof (prompt_callee_gone_proof lookup lookup lk d1 (inv_callee inv) WF1 (fun _ _ => eq_refl) ikey inv' Hi' eq_refl) as H.
  cbv zeta in H. change (inv_call inv') with (inv_call inv) in H. rewrite Hcall in H. exact H.
Qed.

(** ** Junk is harmless (C02) *)
Theorem junk_harmless_proof : forall lookup d sid req,
    (forall opts args kw, cget (d_invs d) (sid, req) = None ->
       fst (sync_yield d sid req opts args kw) = d /\
       forall m, In m (snd (sync_yield d sid req opts args kw)) ->
                 m = (sid, RInterrupt req [("mode", vstr "killnowait")]) /\ opt_bool opts "progress" = true) /\
    (forall det err args kw, cget (d_invs d) (sid, req) = None ->
       sync_error d sid req det err args kw = (d, [])) /\
    (forall opts, valid_cancel_mode (opt_string opts "mode") ->
       (cget (d_calls d) (sid, req) = None \/
        exists ikey inv, cget (d_bycall d) (sid, req) = Some ikey /\ cget (d_invs d) ikey = Some inv /\
                         inv_canceled inv = true) ->
       cancel lookup d sid req opts = (d, [])) /\
    (forall opts, ~ valid_cancel_mode (opt_string opts "mode") ->
       cancel lookup d sid req opts = (d, [(sid, RError c_CANCEL req [] e_invalid_argument [vstr "<text>"] [])])).
Proof.
  intros lookup d sid req. repeat split.
  - rewrite sync_yield_unknown by assumption. reflexivity.
  - rewrite sync_yield_unknown in H0 by assumption. cbn [snd] in H0.
    destruct (opt_bool opts "progress"); [destruct H0 as [<-|[]]; reflexivity | destruct H0].
  - rewrite sync_yield_unknown in H0 by assumption. cbn [snd] in H0.
    destruct (opt_bool opts "progress"); [reflexivity | destruct H0].
  - intros. apply sync_error_unknown. assumption.
  - intros. apply cancel_noop_proof; assumption.
  - intros opts Hn. apply cancel_bad_mode_proof; intros E; apply Hn; unfold valid_cancel_mode; auto.
Qed.
