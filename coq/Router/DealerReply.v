(** * Dealer proofs, part 8: replies to callers (C02), answer routing (C03),
    timer expiry (C13). *)
From Nexus Require Import Router.Dealer Router.DealerLib Router.DealerProofs Router.DealerReg
     Router.DealerCall Router.DealerWfCalls Router.DealerWfRegs Router.DealerWf Router.DealerRemove.
From Coq Require Import Lia ZifyN ZifyNat ZifyBool.

(** A message is a reply to call [cid] (receiver, request); [true] = final. *)
Definition reply_of (m : out) : option (callid * bool) :=
  match m with
  | (x, RResult q det _ _) => Some ((x, q), negb (opt_bool det "progress"))
  | (x, RError ty q _ _ _ _) => if N.eqb ty c_CALL then Some ((x, q), true) else None
  | _ => None
  end.

Lemma pair_eta : forall c : callid, (fst c, snd c) = c.
Proof. intros [a b]; reflexivity. Qed.

(** ** What a YIELD of the invocation's owner sends *)
Lemma opt_bool_ppt_into : forall opts base, opt_bool (ppt_into opts base) "progress" = opt_bool base "progress".
Proof.
  intros. unfold opt_bool. rewrite ppt_into_fold, dget_fold_ppt_other; [reflexivity|]. not_ppt_key.
Qed.

(** every message is either THE reply to the caller (RESULT, or — for a final
    passthru YIELD that cannot be delivered — ERROR(CALL) with the caller's
    own request id), final iff the YIELD is not progressive, or goes back to
    the yielding callee and is no reply *)
Lemma yield_out_msgs : forall lk callee req opts args kw cid x m,
    In m (yield_out lk callee req opts args kw cid x) ->
    reply_of m = Some ((x, snd cid), negb (opt_bool opts "progress")) \/
    (fst m = callee /\ reply_of m = None).
Proof.
  intros lk callee req opts args kw cid x m. unfold yield_out, ppt_caller_err.
  destruct (opt_bool opts "progress") eqn:Hp; destruct (ppt_active opts);
    destruct (has_ppt lk callee "callee"); destruct (has_ppt lk x "caller"); cbn [negb app];
    intros H; repeat (destruct H as [<-|H]); try destruct H; cbn [reply_of fst];
    rewrite ?opt_bool_ppt_into; auto.
Qed.

(** at most one of them is a reply *)
Definition one_reply (o : list out) : Prop :=
  forall o1 m o2, o = o1 ++ m :: o2 -> reply_of m <> None -> forall m', In m' (o1 ++ o2) -> reply_of m' = None.

Lemma one_reply_single : forall x, one_reply [x].
Proof.
  intros x o1 m o2 E _ m' Hin. destruct o1 as [|a o1]; cbn in E.
  - inversion E; subst. destruct Hin.
  - inversion E as [[E1 E2]]. destruct o1; discriminate E2.
Qed.

Lemma one_reply_pair : forall a b, reply_of a = None \/ reply_of b = None -> one_reply [a; b].
Proof.
  intros a b H o1 m o2 E Hr m' Hin. destruct o1 as [|x [|y o1]]; cbn in E.
  - inversion E; subst. cbn in Hin. destruct Hin as [<-|[]]. destruct H; congruence.
  - inversion E; subst. cbn in Hin. destruct Hin as [<-|[]]. destruct H; congruence.
  - inversion E as [[E1 E2 E3]]. destruct o1; discriminate E3.
Qed.

Lemma yield_out_one_reply : forall lk callee req opts args kw cid x,
    one_reply (yield_out lk callee req opts args kw cid x).
Proof.
  intros lk callee req opts args kw cid x. unfold yield_out, ppt_caller_err.
  destruct (opt_bool opts "progress"); destruct (ppt_active opts);
    destruct (has_ppt lk callee "callee"); destruct (has_ppt lk x "caller"); cbn [negb app];
    first [apply one_reply_single | apply one_reply_pair; first [left; reflexivity | right; reflexivity]].
Qed.

(** a final YIELD always sends the caller its final reply *)
Lemma yield_out_final : forall lk callee req opts args kw cid x,
    opt_bool opts "progress" = false ->
    exists m, In m (yield_out lk callee req opts args kw cid x) /\ reply_of m = Some ((x, snd cid), true).
Proof.
  intros lk callee req opts args kw cid x Hp. unfold yield_out, ppt_caller_err. rewrite Hp.
  destruct (ppt_active opts); destruct (has_ppt lk callee "callee"); destruct (has_ppt lk x "caller"); cbn [negb app];
    first [ solve [eexists; split; [left; reflexivity | cbn [reply_of]; rewrite ?opt_bool_ppt_into; reflexivity]]
          | solve [eexists; split; [right; left; reflexivity | cbn [reply_of]; rewrite ?opt_bool_ppt_into; reflexivity]] ].
Qed.

(** ** Answer routing (C03) *)
Theorem answer_routing_yield_proof : forall lookup lk d callee req opts args kw,
    dealer_wf lookup d ->
    match cget (d_invs d) (callee, req) with
    | Some inv =>
        let cid := inv_call inv in
        let o := snd (sync_yield lk d callee req opts args kw) in
        pending d cid (callee, req) inv (fst cid) /\
        o = yield_out lk callee req opts args kw cid (fst cid) /\
        (ppt_active opts = false ->
         o = [(fst cid, RResult (snd cid) (if opt_bool opts "progress" then [("progress", VBool true)] else []) args kw)]) /\
        (forall m, In m o -> reply_of m = Some (cid, negb (opt_bool opts "progress")) \/
                             (fst m = callee /\ reply_of m = None)) /\
        (forall o1 m o2, o = o1 ++ m :: o2 -> reply_of m <> None -> forall m', In m' (o1 ++ o2) -> reply_of m' = None)
    | None =>
        sync_yield lk d callee req opts args kw =
        (d, if opt_bool opts "progress" then [(callee, RInterrupt req [("mode", vstr "killnowait")])] else [])
    end.
Proof.
  intros lookup lk d callee req opts args kw WF.
  destruct (cget (d_invs d) (callee, req)) as [inv|] eqn:Hi; [|apply sync_yield_unknown; exact Hi].
  pose proof (wf_inv_pending lookup d WF _ _ Hi) as Hp. cbv zeta. split; [exact Hp|].
  rewrite (sync_yield_owner _ _ _ _ _ _ _ _ Hi). cbn [snd]. destruct Hp as (Hc & _). rewrite Hc.
  split; [reflexivity|]. split; [|split].
  - intros Hn. rewrite yield_out_plain by exact Hn. reflexivity.
  - intros m Hm. apply yield_out_msgs in Hm. rewrite pair_eta in Hm. exact Hm.
  - apply yield_out_one_reply.
Qed.

Theorem answer_routing_error_proof : forall lookup d callee req det err args kw,
    dealer_wf lookup d ->
    match cget (d_invs d) (callee, req) with
    | Some inv =>
        let cid := inv_call inv in
        pending d cid (callee, req) inv (fst cid) /\
        snd (sync_error d callee req det err args kw) = [(fst cid, RError c_CALL (snd cid) det err args kw)]
    | None => sync_error d callee req det err args kw = (d, [])
    end.
Proof.
  intros lookup d callee req det err args kw WF.
  destruct (cget (d_invs d) (callee, req)) as [inv|] eqn:Hi; [|apply sync_error_unknown; exact Hi].
  pose proof (wf_inv_pending lookup d WF _ _ Hi) as Hp. split; [exact Hp|].
  rewrite (sync_error_owner _ _ _ _ _ _ _ _ Hi). destruct Hp as (Hc & _). rewrite Hc. reflexivity.
Qed.

(** ** Prompt final replies (C02) *)
Theorem prompt_yield_final_proof : forall lookup lk d callee req opts args kw inv,
    dealer_wf lookup d -> cget (d_invs d) (callee, req) = Some inv ->
    opt_bool opts "progress" = false ->
    let cid := inv_call inv in
    exists d' o, sync_yield lk d callee req opts args kw = (d', o) /\
                 gone d' cid (callee, req) /\
                 (exists m, In m o /\ reply_of m = Some (cid, true)) /\
                 (forall m, In m o -> reply_of m = Some (cid, true) \/ (fst m = callee /\ reply_of m = None)) /\
                 (ppt_active opts = false -> o = [(fst cid, RResult (snd cid) [] args kw)]).
Proof.
  intros lookup lk d callee req opts args kw inv WF Hi Hp cid.
  pose proof (wf_inv_pending lookup d WF _ _ Hi) as (Hc & _).
  rewrite (sync_yield_owner _ _ _ _ _ _ _ _ Hi), Hp, Hc. unfold yield_result_state.
  eexists; eexists. split; [reflexivity|]. split; [apply gone_drop_call|]. split; [|split].
  - destruct (yield_out_final lk callee req opts args kw (inv_call inv) (fst (inv_call inv)) Hp) as (m & Hm & R).
    rewrite pair_eta in R. eauto.
  - intros m Hm. apply yield_out_msgs in Hm. rewrite pair_eta, Hp in Hm. exact Hm.
  - intros Hn. rewrite yield_out_plain by exact Hn. rewrite Hp. reflexivity.
Qed.

(** a final passthru YIELD that cannot be delivered (the callee or the caller
    did not announce payload_passthru_mode) still ends the call: the caller
    gets ERROR(CALL) with its own request id *)
Theorem yield_ppt_undeliverable_ends_call_proof : forall lookup lk d callee req opts args kw inv,
    dealer_wf lookup d -> cget (d_invs d) (callee, req) = Some inv ->
    opt_bool opts "progress" = false -> ppt_active opts = true ->
    let cid := inv_call inv in
    has_ppt lk callee "callee" = false \/ has_ppt lk (fst cid) "caller" = false ->
    exists d' o, sync_yield lk d callee req opts args kw = (d', o) /\
                 gone d' cid (callee, req) /\
                 In (fst cid, RError c_CALL (snd cid) ppt_error_details e_feature_not_supported [] []) o /\
                 (forall m, In m o ->
                    m = (fst cid, RError c_CALL (snd cid) ppt_error_details e_feature_not_supported [] []) \/
                    m = (callee, RAbort [("message", vstr "<text>")] e_protocol_violation) \/
                    m = (callee, RError c_YIELD req ppt_error_details e_feature_not_supported [] [])) /\
                 (yield_aborts lk d callee req opts = true -> has_ppt lk callee "callee" = false) /\
                 (has_ppt lk callee "callee" = false -> In (callee, RAbort [("message", vstr "<text>")] e_protocol_violation) o).
Proof.
  intros lookup lk d callee req opts args kw inv WF Hi Hp Ha cid Hl.
  pose proof (wf_inv_pending lookup d WF _ _ Hi) as (Hc & _).
  rewrite (sync_yield_owner _ _ _ _ _ _ _ _ Hi), Hp, Hc. unfold yield_result_state, yield_out, ppt_caller_err.
  rewrite Hp, Ha. fold cid.
  eexists; eexists. split; [reflexivity|]. split; [apply gone_drop_call|].
  assert (Hy : yield_aborts lk d callee req opts = true -> has_ppt lk callee "callee" = false).
  { unfold yield_aborts, has_ppt. rewrite Hi, Hc, Ha. cbn [andb].
    destruct (lk callee); [|reflexivity]. intros E. apply negb_true_iff in E. exact E. }
  destruct (has_ppt lk callee "callee") eqn:H1; cbn [negb app].
  - destruct Hl as [Hl|Hl]; [discriminate|]. rewrite Hl. cbn [negb].
    split; [right; left; reflexivity|]. split; [|split; [exact Hy | discriminate]].
    intros m [<-|[<-|[]]]; auto.
  - split; [left; reflexivity|]. split; [|split; [exact Hy | intros _; right; left; reflexivity]].
    intros m [<-|[<-|[]]]; auto.
Qed.

Theorem prompt_error_proof : forall lookup d callee req det err args kw inv,
    dealer_wf lookup d -> cget (d_invs d) (callee, req) = Some inv ->
    let cid := inv_call inv in
    exists d', sync_error d callee req det err args kw = (d', [(fst cid, RError c_CALL (snd cid) det err args kw)]) /\
               gone d' cid (callee, req).
Proof.
  intros lookup d callee req det err args kw inv WF Hi cid.
  pose proof (wf_inv_pending lookup d WF _ _ Hi) as (Hc & _).
  rewrite (sync_error_owner _ _ _ _ _ _ _ _ Hi), Hc.
  eexists. split; [reflexivity|]. unfold gone. dproj.
  rewrite es_bycall, es_invs, !cget_cdel_same. auto.
Qed.

(** kill-mode cancel, then the callee's next final YIELD / ERROR ends the call *)
Theorem cancel_kill_then_answer_proof : forall lookup d caller req opts ikey inv x,
    dealer_wf lookup d ->
    opt_string opts "mode" = "kill" ->
    pending d (caller, req) ikey inv x -> inv_canceled inv = false ->
    callee_can_cancel lookup inv = true ->
    let d1 := fst (cancel lookup d caller req opts) in
    (forall lk yopts args kw, opt_bool yopts "progress" = false ->
       exists d2 o, sync_yield lk d1 (fst ikey) (snd ikey) yopts args kw = (d2, o) /\
                    gone d2 (caller, req) ikey /\
                    (exists m, In m o /\ reply_of m = Some ((caller, req), true)) /\
                    (ppt_active yopts = false -> o = [(caller, RResult req [] args kw)])) /\
    (forall det err args kw,
       exists d2, sync_error d1 (fst ikey) (snd ikey) det err args kw = (d2, [(caller, RError c_CALL req det err args kw)]) /\
                  gone d2 (caller, req) ikey).
Proof.
  intros lookup d caller req opts ikey inv x WF Hm Hp Hc Hf d1.
  destruct (cancel_kill_proof lookup d caller req opts ikey inv x Hm Hp Hc Hf) as (d' & E & Ed & Hp').
  assert (WF1 : dealer_wf lookup d1) by (apply cancel_wf; exact WF).
  assert (Hd1 : d1 = d') by (unfold d1; rewrite E; reflexivity).
  destruct (wf_pending_call lookup d WF _ _ _ _ Hp) as (Hcall & Hx & _).
  destruct Hp' as (_ & _ & Hi'). rewrite <- Hd1 in Hi'. rewrite <- (pair_eta ikey) in Hi'.
  set (inv' := inv_set_timer (inv_set_canceled inv true) None) in *.
  assert (Hcall' : inv_call inv' = (caller, req)) by exact Hcall.
  split.
  - intros lk yopts args kw Hpr.
    destruct (prompt_yield_final_proof lookup lk d1 (fst ikey) (snd ikey) yopts args kw inv' WF1 Hi' Hpr)
      as (d2 & o & E2 & G2 & M2 & _ & P2).
    rewrite Hcall' in G2, M2, P2. cbn [fst snd] in P2. rewrite pair_eta in G2. eauto 8.
  - intros det err args kw.
    destruct (prompt_error_proof lookup d1 (fst ikey) (snd ikey) det err args kw inv' WF1 Hi') as (d2 & E2 & G2).
    rewrite Hcall' in E2, G2. cbn [fst snd] in E2. rewrite pair_eta in G2. eauto.
Qed.

(** the repaired defect: a call cancelled in kill mode is still answered when its callee goes away *)
Theorem kill_cancel_then_callee_gone_proof : forall lookup lk d caller req opts ikey inv x,
    dealer_wf lookup d ->
    opt_string opts "mode" = "kill" ->
    pending d (caller, req) ikey inv x -> inv_canceled inv = false ->
    callee_can_cancel lookup inv = true ->
    let d1 := fst (cancel lookup d caller req opts) in
    let r := dealer_remove_session lk d1 (inv_callee inv) in
    In (caller, RError c_CALL req [] e_canceled [vstr "callee gone"] []) (snd (fst r)) /\
    gone (fst (fst r)) (caller, req) ikey.
Proof.
  intros lookup lk d caller req opts ikey inv x WF Hm Hp Hc Hf d1 r.
  destruct (cancel_kill_proof lookup d caller req opts ikey inv x Hm Hp Hc Hf) as (d' & E & Ed & Hp').
  assert (WF1 : dealer_wf lookup d1) by (apply cancel_wf; exact WF).
  assert (Hd1 : d1 = d') by (unfold d1; rewrite E; reflexivity).
  destruct (wf_pending_call lookup d WF _ _ _ _ Hp) as (Hcall & Hx & _).
  destruct Hp' as (_ & _ & Hi'). rewrite <- Hd1 in Hi'.
  set (inv' := inv_set_timer (inv_set_canceled inv true) None) in *.
  pose proof (prompt_callee_gone_proof lookup lookup lk d1 (inv_callee inv) WF1 (fun _ _ => eq_refl) ikey inv' Hi' eq_refl) as H.
  cbv zeta in H. change (inv_call inv') with (inv_call inv) in H. rewrite Hcall in H. exact H.
Qed.

(** ** Junk is harmless (C02) *)
Theorem junk_harmless_proof : forall lookup d sid req,
    (forall lk opts args kw, cget (d_invs d) (sid, req) = None ->
       fst (sync_yield lk d sid req opts args kw) = d /\
       forall m, In m (snd (sync_yield lk d sid req opts args kw)) ->
                 m = (sid, RInterrupt req [("mode", vstr "killnowait")]) /\ opt_bool opts "progress" = true) /\
    (forall det err args kw, cget (d_invs d) (sid, req) = None ->
       sync_error d sid req det err args kw = (d, [])) /\
    (forall opts, valid_cancel_mode (opt_string opts "mode") ->
       (cget (d_calls d) (sid, req) = None \/
        exists ikey inv, cget (d_bycall d) (sid, req) = Some ikey /\ cget (d_invs d) ikey = Some inv /\
                         inv_canceled inv = true) ->
       cancel lookup d sid req opts = (d, [])) /\
    (forall opts, ~ valid_cancel_mode (opt_string opts "mode") ->
       cancel lookup d sid req opts = (d, [(sid, RError c_CANCEL req [] e_invalid_argument [vstr "<text>"] [])])).
Proof.
  intros lookup d sid req. repeat split.
  - rewrite sync_yield_unknown by assumption. reflexivity.
  - rewrite sync_yield_unknown in H0 by assumption. cbn [snd] in H0.
    destruct (opt_bool opts "progress"); [destruct H0 as [<-|[]]; reflexivity | destruct H0].
  - rewrite sync_yield_unknown in H0 by assumption. cbn [snd] in H0.
    destruct (opt_bool opts "progress"); [reflexivity | destruct H0].
  - intros. apply sync_error_unknown. assumption.
  - intros. apply cancel_noop_proof; assumption.
  - intros opts Hn. apply cancel_bad_mode_proof; intros E; apply Hn; unfold valid_cancel_mode; auto.
Qed.
