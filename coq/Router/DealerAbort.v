(** * Dealer proofs, part 15: the dealer an ABORTED CALL leaves behind
    ([call_abort_dealer]): either unchanged, or only the round-robin cursor of
    the matched registration has moved (the payload-passthru protocol
    violation is detected after the callee was selected). *)
From Nexus Require Import Router.Realm Router.DealerLib Router.DealerProofs Router.DealerReg
     Router.DealerCall Router.DealerWfCalls Router.DealerWfRegs Router.DealerWf Router.DealerRemove
     Router.DealerTrace Router.DealerDisclose Router.DealerForward.
From Coq Require Import Lia ZifyN ZifyBool.

(** the path of [call] up to the selection of the callee *)
Lemma call_abort_dealer_path : forall lookup d caller req opts proc oracle,
    call_abort_dealer lookup d caller req opts proc oracle = d \/
    exists r callee_id next callee,
      match_procedure d proc oracle = Some r /\ reg_callees r <> [] /\
      call_abort_cond caller opts = false /\ cget (d_bycall d) (s_id caller, req) = None /\
      select_callee r oracle = Some (callee_id, next) /\ lookup callee_id = Some callee /\
      call_abort_dealer lookup d caller req opts proc oracle = call_d0 d r next.
Proof.
  intros lookup d caller req opts proc oracle. unfold call_abort_dealer.
  destruct (match_procedure d proc oracle) as [r|] eqn:Hm; [|auto].
  destruct (reg_callees r) as [|c0 cs] eqn:Hc; [auto|]. rewrite <- Hc.
  fold (call_abort_cond caller opts). destruct (call_abort_cond caller opts) eqn:Ha; [auto|].
  destruct (cget (d_bycall d) (s_id caller, req)) eqn:Hb; [auto|].
  destruct (select_callee r oracle) as [[callee_id next]|] eqn:Hs; [|auto].
  destruct (lookup callee_id) as [callee|] eqn:Hl; [|auto].
  right. exists r, callee_id, next, callee. repeat split; auto. rewrite Hc. discriminate.
Qed.

(** (1) either [d], or [d] with the cursor of a registered [r] moved *)
Theorem call_abort_dealer_cases : forall lookup lk d caller req opts proc oracle,
    dealer_wf lookup d ->
    call_abort_dealer lk d caller req opts proc oracle = d \/
    exists r next, nget (d_regs d) (reg_id r) = Some r /\
      call_abort_dealer lk d caller req opts proc oracle =
      d_set_regs d (nset (d_regs d) (reg_id r) (reg_set_next r next)).
Proof.
  intros lookup lk d caller req opts proc oracle WF.
  destruct (call_abort_dealer_path lk d caller req opts proc oracle)
    as [E|(r & callee_id & next & callee & Hm & _ & _ & _ & _ & _ & E)]; [auto|].
  right. exists r, next. apply (best_match_sound lookup d WF) in Hm. destruct Hm as [Hr _]. split; [exact Hr | exact E].
Qed.

(** (2) the invariant is preserved *)
Theorem call_abort_dealer_wf : forall lookup lk d caller req opts proc oracle,
    dealer_wf lookup d -> dealer_wf lookup (call_abort_dealer lk d caller req opts proc oracle).
Proof.
  intros lookup lk d caller req opts proc oracle WF.
  destruct (call_abort_dealer_cases lookup lk d caller req opts proc oracle WF) as [E|(r & next & Hr & E)]; rewrite E; [exact WF|].
  pose proof WF as [A B C _ _].
  destruct (call_d0_wf lookup d r next A B C Hr) as (A' & B' & C').
  eapply dealer_wf_calls_same; eauto. repeat split; reflexivity.
Qed.

(** (3) frame: everything but the cursor is the same *)
Definition reg_strip (r : registration) : registration := reg_set_next r 0.

Record abort_frame (d d' : dealer) : Prop := {
  af_calls : d_calls d' = d_calls d;
  af_invs : d_invs d' = d_invs d;
  af_bycall : d_bycall d' = d_bycall d;
  af_timers : d_timers d' = d_timers d;
  af_timergen : d_timergen d' = d_timergen d;
  af_idgen : d_idgen d' = d_idgen d;
  af_callee_regs : d_callee_regs d' = d_callee_regs d;
  af_exact : d_exact d' = d_exact d;
  af_pfx : d_pfx d' = d_pfx d;
  af_wc : d_wc d' = d_wc d;
  af_regkeys : map fst (d_regs d') = map fst (d_regs d);
  af_regs : forall rid, option_map reg_strip (nget (d_regs d') rid) = option_map reg_strip (nget (d_regs d) rid)
}.

Lemma abort_frame_refl : forall d, abort_frame d d.
Proof. intros d; constructor; reflexivity. Qed.

Lemma keys_nset_present : forall (l : list (N * registration)) k v v',
    nget l k = Some v -> map fst (nset l k v') = map fst l.
Proof.
  induction l as [|[a b] l IH]; intros k v v'; cbn; [discriminate|].
  destruct (N.eqb k a); cbn; [reflexivity|]. intros H. f_equal. eapply IH; eauto.
Qed.

Theorem call_abort_dealer_frame : forall lookup lk d caller req opts proc oracle,
    dealer_wf lookup d -> abort_frame d (call_abort_dealer lk d caller req opts proc oracle).
Proof.
  intros lookup lk d caller req opts proc oracle WF.
  destruct (call_abort_dealer_cases lookup lk d caller req opts proc oracle WF) as [E|(r & next & Hr & E)]; rewrite E;
    [apply abort_frame_refl|].
  constructor; try reflexivity; dproj.
  - eapply keys_nset_present; eauto.
  - intros rid. rewrite nget_nset. destruct (N.eqb_spec rid (reg_id r)) as [->|]; [|reflexivity].
    rewrite Hr. reflexivity.
Qed.

(** what a registration keeps *)
Lemma reg_strip_fields : forall r r', reg_strip r' = reg_strip r ->
    reg_id r' = reg_id r /\ reg_proc r' = reg_proc r /\ reg_match r' = reg_match r /\
    reg_policy r' = reg_policy r /\ reg_disclose r' = reg_disclose r /\
    reg_fwd_timeout r' = reg_fwd_timeout r /\ reg_callees r' = reg_callees r.
Proof. intros r r' H. unfold reg_strip, reg_set_next in H. inversion H. auto 10. Qed.

Lemma abort_frame_reg : forall d d' rid r', abort_frame d d' -> nget (d_regs d') rid = Some r' ->
    exists r, nget (d_regs d) rid = Some r /\ reg_strip r' = reg_strip r.
Proof.
  intros d d' rid r' F H. pose proof (af_regs _ _ F rid) as E. rewrite H in E.
  destruct (nget (d_regs d) rid) as [r|]; [|discriminate]. exists r. split; [reflexivity|]. cbn [option_map] in E. congruence.
Qed.

Lemma abort_frame_reg_back : forall d d' rid r, abort_frame d d' -> nget (d_regs d) rid = Some r ->
    exists r', nget (d_regs d') rid = Some r' /\ reg_strip r' = reg_strip r.
Proof.
  intros d d' rid r F H. pose proof (af_regs _ _ F rid) as E. rewrite H in E.
  destruct (nget (d_regs d') rid) as [r'|]; [|discriminate]. exists r'. split; [reflexivity|]. cbn [option_map] in E. congruence.
Qed.

Lemma abort_frame_calls_sub : forall d d', abort_frame d d' -> calls_sub d d'.
Proof. intros d d' F. constructor; rewrite ?(af_calls _ _ F), ?(af_invs _ _ F); intros; congruence. Qed.

Lemma abort_frame_same_calls : forall d d', abort_frame d d' -> same_calls d d'.
Proof. intros d d' F. repeat split; [apply (af_calls _ _ F) | apply (af_invs _ _ F) | apply (af_bycall _ _ F)]. Qed.

Lemma abort_frame_disclose_own : forall J d d', abort_frame d d' -> disclose_own J d -> disclose_own J d'.
Proof.
  intros J d d' F O rid r' Hr'. destruct (abort_frame_reg _ _ _ _ F Hr') as (r & Hr & E).
  apply reg_strip_fields in E. destruct E as (_ & _ & _ & _ & E1 & _ & E2). rewrite E1, E2. apply (O _ _ Hr).
Qed.

Lemma abort_frame_forward_own : forall J d d', abort_frame d d' -> forward_own J d -> forward_own J d'.
Proof.
  intros J d d' F O rid r' Hr'. destruct (abort_frame_reg _ _ _ _ F Hr') as (r & Hr & E).
  apply reg_strip_fields in E. destruct E as (_ & _ & _ & _ & _ & E1 & E2). rewrite E1, E2. apply (O _ _ Hr).
Qed.

Theorem call_abort_dealer_disclose_own : forall lookup lk J d caller req opts proc oracle,
    dealer_wf lookup d -> disclose_own J d -> disclose_own J (call_abort_dealer lk d caller req opts proc oracle).
Proof. intros. eapply abort_frame_disclose_own; [eapply call_abort_dealer_frame|]; eauto. Qed.

Theorem call_abort_dealer_forward_own : forall lookup lk J d caller req opts proc oracle,
    dealer_wf lookup d -> forward_own J d -> forward_own J (call_abort_dealer lk d caller req opts proc oracle).
Proof. intros. eapply abort_frame_forward_own; [eapply call_abort_dealer_frame|]; eauto. Qed.

(** (4) which abort: the early one (progress without the caller feature)
    leaves [d]; the cursor moves only for the payload-passthru violation *)
Theorem call_abort_kind : forall cfg lookup now d caller req opts proc args kw oracle o,
    call cfg lookup now d caller req opts proc args kw oracle = CallAbort o ->
    o = [(s_id caller, RAbort [("message", vstr "<text>")] e_protocol_violation)] /\
    ((call_abort_cond caller opts = true /\ call_abort_dealer lookup d caller req opts proc oracle = d) \/
     (exists r callee_id next callee,
        match_procedure d proc oracle = Some r /\ select_callee r oracle = Some (callee_id, next) /\
        lookup callee_id = Some callee /\ call_ppt_abort caller opts = true /\
        call_abort_dealer lookup d caller req opts proc oracle = call_d0 d r next)).
Proof.
  intros cfg lookup now d caller req opts proc args kw oracle o E.
  pose proof (call_cases cfg lookup now d caller req opts proc args kw oracle) as H. rewrite E in H.
  inversion H; subst.
  - split; [reflexivity|]. left. split; [assumption|].
    unfold call_abort_dealer. match goal with Hm : match_procedure _ _ _ = Some _ |- _ => rewrite Hm end.
    destruct (reg_callees r); [reflexivity|].
    match goal with Ha : call_abort_cond _ _ = true |- _ => unfold call_abort_cond in Ha; rewrite Ha end. reflexivity.
  - split; [reflexivity|]. right. exists r, callee_id, next, callee.
    destruct (call_abort_dealer_path lookup d caller req opts proc oracle)
      as [E'|(r1 & c1 & n1 & s1 & Hm1 & _ & _ & _ & Hs1 & Hl1 & E')].
    + (* the path reaches the selection, so the result is d0; d0 = d is possible only syntactically *)
      repeat split; auto.
      unfold call_abort_dealer in *.
      repeat match goal with
             | Hx : match_procedure _ _ _ = Some _ |- _ => rewrite Hx in *; clear Hx
             end.
      destruct (reg_callees r) eqn:Hc; [congruence|].
      match goal with Ha : call_abort_cond _ _ = false |- _ => unfold call_abort_cond in Ha; rewrite Ha in * end.
      match goal with Hb : cget (d_bycall d) _ = None |- _ => rewrite Hb in * end.
      match goal with Hs : select_callee _ _ = Some _ |- _ => rewrite Hs in * end.
      match goal with Hl : lookup callee_id = Some _ |- _ => rewrite Hl in * end.
      rewrite <- Hc. reflexivity.
    + assert (r1 = r) by congruence. subst r1.
      assert (c1 = callee_id /\ n1 = next) as [-> ->] by (split; congruence).
      repeat split; auto.
Qed.
