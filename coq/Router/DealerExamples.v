(** * Concrete dealer states, obtained by running the model, used as
    non-vacuity witnesses by Props/C02.v, C03.v, C13.v. *)
From Nexus Require Import Router.Realm Router.DealerLib Router.DealerProofs Router.DealerReg
     Router.DealerCall Router.DealerWfCalls Router.DealerWfRegs Router.DealerWf Router.DealerRemove
     Router.DealerReply Router.DealerTimers Router.DealerOwned.
From Coq Require Import Lia ZifyN ZifyNat ZifyBool.

Definition cfg0 : config := mkConfig false true false false false false [] None.

Definition feats (l : list string) : value := VDict (map (fun f => (f, VBool true)) l).
Definition hello_callee : dict :=
  [("roles", VDict [("callee", VDict [("features",
      feats ["call_canceling"; "progressive_call_results"; "progressive_call_invocations";
             "call_timeout"; "caller_identification"; "payload_passthru_mode"])])])].
Definition hello_plain_callee : dict := [("roles", VDict [("callee", VDict [])])].
Definition hello_caller : dict :=
  [("roles", VDict [("caller", VDict [("features", feats ["progressive_call_invocations"; "call_canceling"; "payload_passthru_mode"])])])].

Definition s10 : session := mkSession 10 false hello_caller (join_details 10 false hello_caller) 0.
Definition s11 : session := mkSession 11 false hello_callee (join_details 11 false hello_callee) 0.
Definition s12 : session := mkSession 12 false hello_plain_callee (join_details 12 false hello_plain_callee) 0.

(** session table with the invocation-id generator of 11 and 12 at [g11], [g12] *)
Definition lk (g11 g12 : N) : N -> option session :=
  fun sid => if N.eqb sid 1 then Some meta_session
             else if N.eqb sid 10 then Some s10
             else if N.eqb sid 11 then Some (set_invgen s11 g11)
             else if N.eqb sid 12 then Some (set_invgen s12 g12)
             else None.

Lemma lk_ok : forall a b, lookup_ok (lk a b).
Proof.
  intros a b sid s. unfold lk.
  destruct (N.eqb_spec sid 1); [intros E; inversion E; subst; reflexivity|].
  destruct (N.eqb_spec sid 10); [intros E; inversion E; subst; reflexivity|].
  destruct (N.eqb_spec sid 11); [intros E; inversion E; subst; reflexivity|].
  destruct (N.eqb_spec sid 12); [intros E; inversion E; subst; reflexivity|]. discriminate.
Qed.

Lemma lk_nowrap : forall a b, a < max_idN -> b < max_idN -> nowrap (lk a b).
Proof.
  intros a b Ha Hb sid s. unfold lk.
  destruct (N.eqb sid 1); [intros E; inversion E; subst; vm_compute; reflexivity|].
  destruct (N.eqb sid 10); [intros E; inversion E; subst; vm_compute; reflexivity|].
  destruct (N.eqb sid 11); [intros E; inversion E; subst; exact Ha|].
  destruct (N.eqb sid 12); [intros E; inversion E; subst; exact Hb|]. discriminate.
Qed.

Lemma lk_le : forall a b a' b', a <= a' -> b <= b' -> lookup_le (lk a b) (lk a' b').
Proof.
  intros a b a' b' Ha Hb sid s. unfold lk.
  destruct (N.eqb sid 1); [intros E; inversion E; subst; eexists; split; [reflexivity | lia]|].
  destruct (N.eqb sid 10); [intros E; inversion E; subst; eexists; split; [reflexivity | lia]|].
  destruct (N.eqb sid 11); [intros E; inversion E; subst; eexists; split; [reflexivity | cbn; lia]|].
  destruct (N.eqb sid 12); [intros E; inversion E; subst; eexists; split; [reflexivity | cbn; lia]|]. discriminate.
Qed.

(** the dealer of a fresh realm, then: 11 and 12 share "com.x" round robin;
    12 also holds the prefix "com." and 11 the wildcard "org..z", the
    timeout-forwarding "com.fwd" and, alone, "net.solo" *)
Definition d0 : dealer := r_dealer (init_realm cfg0).
Definition rr_opts : dict := [("invoke", vstr "roundrobin")].
Definition d1 : dealer := fst (fst (register cfg0 d0 s11 1 rr_opts "com.x")).
Definition d2 : dealer := fst (fst (register cfg0 d1 s12 1 rr_opts "com.x")).
Definition d2p : dealer := fst (fst (register cfg0 d2 s12 2 [("match", vstr "prefix")] "com.")).
Definition d2w : dealer := fst (fst (register cfg0 d2p s11 2 [("match", vstr "wildcard")] "org..z")).
Definition d2f : dealer := fst (fst (register cfg0 d2w s11 3 [("forward_timeout", VBool true)] "com.fwd")).
Definition d2s : dealer := fst (fst (register cfg0 d2f s11 4 [] "net.solo")).

(** caller 10 calls "com.x" with a 100 ms timeout at time 5 *)
Definition call_opts : dict := [("timeout", vnat 100); ("receive_progress", VBool true)].
Definition the_call : call_result := call cfg0 (lk 0 0) 5 d2s s10 7 call_opts "com.x" [vnat 1] [("k", vnat 2)] 0.
Definition d3 : dealer := match the_call with CallInvoked d _ _ => d | _ => d2s end.

(** ... and cancels it in kill mode *)
Definition kill_opts : dict := [("mode", vstr "kill")].
Definition d4 : dealer := fst (cancel (lk 1 0) d3 10 7 kill_opts).

(** a second call, request 8: round robin now picks the plain callee 12 *)
Definition the_call2 : call_result := call cfg0 (lk 1 0) 6 d3 s10 8 [] "com.x" [] [] 0.
Definition d5 : dealer := match the_call2 with CallInvoked d _ _ => d | _ => d3 end.

Lemma wf_d0 : dealer_wf (lk 0 0) d0.
Proof.
  eapply dealer_wf_lookup_le; [|apply init_realm_wf].
  intros x s. unfold lookup. cbn [r_meta r_clients init_realm].
  assert (r_meta (init_realm cfg0) = meta_session) by (vm_compute; reflexivity).
  assert (r_clients (init_realm cfg0) = []) by (vm_compute; reflexivity).
  rewrite H, H0. unfold lk. destruct (N.eqb x 1) eqn:E.
  - change meta_id with 1. rewrite E. intros E1; inversion E1; subst. eexists; split; [reflexivity | lia].
  - change meta_id with 1. rewrite E. cbn. discriminate.
Qed.

Lemma idgen_small : forall d n, d_idgen d = n -> n < 1000 -> d_idgen d < max_idN.
Proof. intros d n -> H. unfold max_idN. lia. Qed.

Lemma att : forall a b sid, (sid = 1 \/ sid = 10 \/ sid = 11 \/ sid = 12) -> attached (lk a b) sid.
Proof. intros a b sid [-> | [-> | [-> | ->]]]; unfold attached, lk; cbn; discriminate. Qed.

Ltac reg_wf prev :=
  apply register_wf; [apply prev | apply att; cbn; auto | eapply idgen_small; [vm_compute; reflexivity | lia]].
Lemma wf_d1 : dealer_wf (lk 0 0) d1. Proof. reg_wf wf_d0. Qed.
Lemma wf_d2 : dealer_wf (lk 0 0) d2. Proof. reg_wf wf_d1. Qed.
Lemma wf_d2p : dealer_wf (lk 0 0) d2p. Proof. reg_wf wf_d2. Qed.
Lemma wf_d2w : dealer_wf (lk 0 0) d2w. Proof. reg_wf wf_d2p. Qed.
Lemma wf_d2f : dealer_wf (lk 0 0) d2f. Proof. reg_wf wf_d2w. Qed.
Lemma wf_d2s : dealer_wf (lk 0 0) d2s. Proof. reg_wf wf_d2f. Qed.

Lemma the_call_invoked : exists o, the_call = CallInvoked d3 (set_invgen s11 1) o.
Proof. eexists. vm_compute. reflexivity. Qed.

Lemma wf_d3 : dealer_wf (lk 1 0) d3.
Proof.
  pose proof (call_wf cfg0 (lk 0 0) 5 d2s s10 7 call_opts "com.x" [vnat 1] [("k", vnat 2)] 0
                      wf_d2s (lk_ok 0 0)) as H.
  destruct the_call_invoked as [o E]. unfold the_call in E. rewrite E in H.
  destruct H as [_ H].
  - apply lk_nowrap; vm_compute; reflexivity.
  - apply att; cbn; auto.
  - apply H; [apply lk_le; lia | reflexivity].
Qed.

Lemma wf_d4 : dealer_wf (lk 1 0) d4.
Proof. apply cancel_wf. apply wf_d3. Qed.

Lemma the_call2_invoked : exists o, the_call2 = CallInvoked d5 (set_invgen s12 1) o.
Proof. eexists. vm_compute. reflexivity. Qed.

Lemma wf_d5 : dealer_wf (lk 1 1) d5.
Proof.
  pose proof (call_wf cfg0 (lk 1 0) 6 d3 s10 8 [] "com.x" [] [] 0 wf_d3 (lk_ok 1 0)) as H.
  destruct the_call2_invoked as [o E]. unfold the_call2 in E. rewrite E in H.
  destruct H as [_ H].
  - apply lk_nowrap; vm_compute; reflexivity.
  - apply att; cbn; auto.
  - apply H; [apply lk_le; lia | reflexivity].
Qed.

(** ** Two corner cases of the model, shown on concrete runs *)

(** (1) A progressive call whose procedure disappears between two chunks: the
    second chunk is refused with no_such_procedure and (repaired code) that
    ERROR is the final reply: the call is erased, the callee's late YIELD
    reaches nobody. *)
Definition prog_opts : dict := [("progress", VBool true)].
Definition pc1 : call_result := call cfg0 (lk 0 0) 5 d2s s10 9 prog_opts "net.solo" [] [] 0.
Definition dp1 : dealer := match pc1 with CallInvoked d _ _ => d | _ => d2s end.
Definition dp2 : dealer := fst (fst (unregister dp1 11 5 23)).
Definition pc2 : call_result := call cfg0 (lk 1 0) 6 dp2 s10 9 [] "net.solo" [] [] 0.
Definition dp3 : dealer := match pc2 with CallRefused d _ => d | _ => dp2 end.

Example chunk_refusal_ends_call :
    (exists o, pc1 = CallInvoked dp1 (set_invgen s11 1) o) /\
    cget (d_calls dp2) (10, 9) = Some 10 /\
    pc2 = CallRefused dp3 [(10, RError c_CALL 9 [] e_no_such_procedure [] [])] /\
    gone dp3 (10, 9) (11, 1) /\
    sync_yield (lk 1 0) dp3 11 1 [] [vnat 42] [] = (dp3, []).
Proof. split; [eexists; vm_compute; reflexivity|]. vm_compute. repeat split; reflexivity. Qed.

Lemma wf_dp2 : dealer_wf (lk 1 0) dp2.
Proof.
  unfold dp2. apply unregister_wf.
  pose proof (call_wf cfg0 (lk 0 0) 5 d2s s10 9 prog_opts "net.solo" [] [] 0 wf_d2s (lk_ok 0 0)) as H.
  assert (E : exists o, pc1 = CallInvoked dp1 (set_invgen s11 1) o) by (eexists; vm_compute; reflexivity).
  destruct E as [o E]. unfold pc1 in E. rewrite E in H. destruct H as [_ H].
  - apply lk_nowrap; vm_compute; reflexivity.
  - apply att; cbn; auto.
  - apply H; [apply lk_le; vm_compute; discriminate | reflexivity].
Qed.

(** (2) A call cancelled in kill mode whose caller then sends a further chunk
    gets a new timer although it is cancelled; when that timer fires nothing
    is sent and the invocation keeps the id of a timer that no longer exists
    (harmless: the id is never reused).  This is why [dealer_wf] only says
    "every timer belongs to an invocation", not the converse. *)
Definition tp_opts : dict := [("progress", VBool true); ("timeout", vnat 100)].
Definition tc1 : call_result := call cfg0 (lk 0 0) 5 d2s s10 9 tp_opts "net.solo" [] [] 0.
Definition dt1 : dealer := match tc1 with CallInvoked d _ _ => d | _ => d2s end.
Definition dt2 : dealer := fst (cancel (lk 1 0) dt1 10 9 kill_opts).
Definition tc2 : call_result := call cfg0 (lk 1 0) 50 dt2 s10 9 prog_opts "net.solo" [] [] 0.
Definition dt3 : dealer := match tc2 with CallInvoked d _ _ => d | _ => dt2 end.
Definition dt4 : dealer * list out := fire_timers (lk 1 0) 500 dt3.

Example inv_timer_may_dangle :
    d_timers dt3 = [(2, (150, (10, 9)))] /\
    dt4 = (fst dt4, []) /\ d_timers (fst dt4) = [] /\
    option_map (fun i => (inv_canceled i, inv_timer i)) (cget (d_invs (fst dt4)) (11, 1)) = Some (true, Some 2).
Proof. vm_compute. repeat split; reflexivity. Qed.

(** ** C12, dealer half: non-vacuity of [invocation_disclose_iff] / [call_disclose_refused] *)
Definition cfg_nodisclose : config := mkConfig false false false false false false [] None.
Definition dm_opts : dict := [("disclose_me", VBool true)].

Example disclose_ex :
    (* disclose_me, realm allows it, callee 11 has caller_identification: caller, authid, authrole disclosed *)
    (exists d' c det, call cfg0 (lk 0 0) 5 d2s s10 7 dm_opts "com.x" [] [] 0 = CallInvoked d' c [(11, RInvocation 1 19 det [] [])] /\
        dget det "caller" = Some (vid 10) /\ dget det "caller_authid" = Some (vstr gen_authid) /\
        dget det "caller_authrole" = Some (vstr "anonymous")) /\
    (* the same towards callee 12 (no caller_identification): nothing disclosed *)
    (exists d' c det, call cfg0 (lk 1 0) 6 d3 s10 8 dm_opts "com.x" [] [] 0 = CallInvoked d' c [(12, RInvocation 1 19 det [] [])] /\
        dget det "caller" = None /\ dget det "caller_authid" = None /\ dget det "caller_authrole" = None) /\
    (* not asked: nothing disclosed *)
    (exists d' c det, call cfg0 (lk 0 0) 5 d2s s10 7 [] "com.x" [] [] 0 = CallInvoked d' c [(11, RInvocation 1 19 det [] [])] /\
        dget det "caller" = None) /\
    (* realm does not allow disclosure: refused, nothing recorded *)
    (exists d', call cfg_nodisclose (lk 0 0) 5 d2s s10 7 dm_opts "com.x" [] [] 0 =
                CallRefused d' [(10, RError c_CALL 7 [] e_disclose_me [] [])] /\ d_calls d' = [] /\ d_invs d' = []) /\
    (* a registration with disclose_caller (the meta procedures) always discloses *)
    (exists d' c det a k, call cfg_nodisclose (lk 0 0) 5 d2s s10 7 [] "wamp.session.count" [] [] 0 =
                CallInvoked d' c [(1, RInvocation 1 1 det a k)] /\ dget det "caller" = Some (vid 10)).
Proof.
  split; [eexists; eexists; eexists; vm_compute; repeat split; reflexivity|].
  split; [eexists; eexists; eexists; vm_compute; repeat split; reflexivity|].
  split; [eexists; eexists; eexists; vm_compute; repeat split; reflexivity|].
  split; [eexists; vm_compute; repeat split; reflexivity|].
  eexists; eexists; eexists; eexists; eexists; vm_compute; repeat split; reflexivity.
Qed.

(** ** Payload passthru mode (sessions 10 and 11 announced it, 12 did not) *)
Definition ppt_opts : dict := [("ppt_scheme", vstr "mqtt"); ("ppt_serializer", vstr "cbor")].

Example ppt_ex :
    (* CALL in passthru mode to callee 11: the options are copied into the INVOCATION details *)
    (exists d' c det, call cfg0 (lk 0 0) 5 d2s s10 7 ppt_opts "com.x" [] [] 0 = CallInvoked d' c [(11, RInvocation 1 19 det [] [])] /\
        dget det "ppt_scheme" = Some (vstr "mqtt") /\ dget det "ppt_serializer" = Some (vstr "cbor") /\ dget det "ppt_cipher" = None) /\
    (* ... to callee 12, which did not announce the feature: refused, nothing recorded *)
    (exists d', call cfg0 (lk 1 0) 6 d3 s10 8 ppt_opts "com.x" [] [] 0 =
                CallRefused d' [(10, RError c_CALL 8 [] e_feature_not_supported [] [])] /\ cget (d_calls d') (10, 8) = None) /\
    (* YIELD in passthru mode by 11 for caller 10: delivered with the options in the details *)
    snd (sync_yield (lk 1 0) d3 11 1 ppt_opts [vnat 1] []) =
      [(10, RResult 7 [("ppt_scheme", vstr "mqtt"); ("ppt_serializer", vstr "cbor")] [vnat 1] [])] /\
    (* YIELD in passthru mode by 12 (feature not announced): the call is ended with ERROR(CALL, 8), 12 is aborted *)
    sync_yield (lk 1 1) d5 12 1 ppt_opts [vnat 1] [] =
      (fst (sync_yield (lk 1 1) d5 12 1 ppt_opts [vnat 1] []),
       [(10, RError c_CALL 8 ppt_error_details e_feature_not_supported [] []);
        (12, RAbort [("message", vstr "<text>")] e_protocol_violation)]) /\
    gone (fst (sync_yield (lk 1 1) d5 12 1 ppt_opts [vnat 1] [])) (10, 8) (12, 1) /\
    yield_aborts (lk 1 1) d5 12 1 ppt_opts = true /\
    has_ppt (lk 1 1) 12 "callee" = false /\ ppt_active ppt_opts = true.
Proof.
  split; [eexists; eexists; eexists; vm_compute; repeat split; reflexivity|].
  split; [eexists; vm_compute; repeat split; reflexivity|].
  vm_compute. repeat split; reflexivity.
Qed.
